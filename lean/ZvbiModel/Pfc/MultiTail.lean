import ZvbiModel.Pfc.Multi
/-!
# Lemmas for the PFC demultiplexer (C15): the packet count of a page header beyond the rows that
arrive has no effect (finding F42, hypothesis-free form)

`setN a s` is `s` with `n_packets = a`.  `_vbi_pfc_demux_decode` never looks at `n_packets`
(`decode_setN`); `vbi_pfc_demux_feed` compares a row number with it, so two demultiplexers that
differ only in `n_packets` (`n` and `b`, `1 <= b <= n`) stay in step on every packet that is not a row
`b+1 .. n` of our magazine (`feed_sim`), and are equal again after the next header of ours - provided
the header does not check the end of the previous page (`Gen.pfcPageEndChecked = false`).
-/
namespace Zvbi.Pfc
open Zvbi.Hamm Zvbi.Gen
open Spec (Ph Res run shDecode)

def setN (a : Nat) (s : St) : St := { s with nPackets := a }

def liftE {α : Type} (f : α → α) : Except Err α → Except Err α
  | .error e => .error e
  | .ok x => .ok (f x)

/-- a result with return value TRUE carries a state that was not reset; FALSE carries a reset state -/
def liftO (a : Nat) (o : Out) : Out := if o.ret then { o with st := setN a o.st } else o

def liftC (a : Nat) : Consumed → Consumed
  | .ret o => .ret (liftO a o)
  | .cont s col => .cont (setN a s) col
  | .fall s col acc => .fall (setN a s) col acc

theorem consume_setN (buf : List Nat) (a : Nat) (s : St) (col : Nat) (acc : List Block) :
    consume buf (setN a s) col acc = liftE (liftC a) (consume buf s col acc) := by
  unfold consume
  by_cases hl : s.left > 0
  · have hl' : (setN a s).left > 0 := hl
    rw [if_pos hl, if_pos hl']
    dsimp only
    by_cases h1 : s.blk.length + min s.left (42 - col) > pfcBlockExtent
    · have h1' : (setN a s).blk.length + min (setN a s).left (42 - col) > pfcBlockExtent := h1
      rw [if_pos h1, if_pos h1']; rfl
    · have h1' : ¬ (setN a s).blk.length + min (setN a s).left (42 - col) > pfcBlockExtent := h1
      rw [if_neg h1, if_neg h1']
      by_cases h2 : col + min s.left (42 - col) > buf.length
      · have h2' : col + min (setN a s).left (42 - col) > buf.length := h2
        rw [if_pos h2, if_pos h2']; rfl
      · have h2' : ¬ col + min (setN a s).left (42 - col) > buf.length := h2
        rw [if_neg h2, if_neg h2']
        by_cases h3 : s.left - min s.left (42 - col) > 0
        · have h3' : (setN a s).left - min (setN a s).left (42 - col) > 0 := h3
          rw [if_pos h3, if_pos h3']; rfl
        · have h3' : ¬ (setN a s).left - min (setN a s).left (42 - col) > 0 := h3
          rw [if_neg h3, if_neg h3']
          cases hap : s.appId with
          | some app =>
            have hap' : (setN a s).appId = some app := hap
            simp only [hap']; rfl
          | none =>
            have hap' : (setN a s).appId = none := hap
            simp only [hap']
            show (match pair16 (unham16pI ((s.blk ++ List.take (min s.left (42 - col)) (List.drop col buf)).getD 0 0)
                ((s.blk ++ List.take (min s.left (42 - col)) (List.drop col buf)).getD 1 0))
              (unham16pI ((s.blk ++ List.take (min s.left (42 - col)) (List.drop col buf)).getD 2 0)
                ((s.blk ++ List.take (min s.left (42 - col)) (List.drop col buf)).getD 3 0)) with
              | none => _ | some sh => _) = _
            cases pair16 (unham16pI ((s.blk ++ List.take (min s.left (42 - col)) (List.drop col buf)).getD 0 0)
                ((s.blk ++ List.take (min s.left (42 - col)) (List.drop col buf)).getD 1 0))
              (unham16pI ((s.blk ++ List.take (min s.left (42 - col)) (List.drop col buf)).getD 2 0)
                ((s.blk ++ List.take (min s.left (42 - col)) (List.drop col buf)).getD 3 0)) <;> rfl
  · have hl' : ¬ (setN a s).left > 0 := hl
    rw [if_neg hl, if_neg hl']; rfl

theorem loop_setN (buf : List Nat) (bp a : Nat) : ∀ (fuel : Nat) (s : St) (col : Nat) (acc : List Block),
    loop buf bp fuel (setN a s) col acc = liftE (liftO a) (loop buf bp fuel s col acc) := by
  intro fuel
  induction fuel with
  | zero => intro s col acc; rfl
  | succ f ih =>
    intro s col acc
    rw [loop_succ, loop_succ]
    by_cases hc : col ≥ 42
    · rw [if_pos hc, if_pos hc]; rfl
    · rw [if_neg hc, if_neg hc, consume_setN]
      cases consume buf s col acc with
      | error e => rfl
      | ok c =>
        cases c with
        | ret o => rfl
        | cont s' col' => exact ih s' col' acc
        | fall s' col' acc' =>
          show afterConsume buf bp f (setN a s') col' acc' = liftE (liftO a) (afterConsume buf bp f s' col' acc')
          unfold afterConsume
          cases findSep buf bp col' with
          | error e => rfl
          | ok r =>
            cases r with
            | none => rfl
            | some p =>
              obtain ⟨bs, c2⟩ := p
              dsimp only
              by_cases hb : bs ≠ some pfcBlockSeparator
              · rw [if_pos hb, if_pos hb]; rfl
              · rw [if_neg hb, if_neg hb]
                exact ih { s' with blk := [], left := 4, appId := none } c2 acc'

/-- `_vbi_pfc_demux_decode` does not look at `n_packets` -/
theorem decode_setN (a : Nat) (s : St) (buf : List Nat) :
    decode (setN a s) buf = liftE (liftO a) (decode s buf) := by
  unfold decode
  cases rdE buf 2 "buffer[2]" with
  | error e => rfl
  | ok b2 =>
    dsimp only
    cases unham8 b2 with
    | none => rfl
    | some n =>
      dsimp only
      by_cases h : n * 3 > 39
      · rw [if_pos h, if_pos h]; rfl
      · rw [if_neg h, if_neg h]
        exact loop_setN buf (n * 3) a 42 s 3 []

/-- hence it returns `n_packets` unchanged whenever it returns TRUE -/
theorem decode_nPackets (s : St) (buf : List Nat) (o : Out) (h : decode s buf = .ok o) (hr : o.ret = true) :
    o.st.nPackets = s.nPackets := by
  have h1 := decode_setN s.nPackets s buf
  have h2 : setN s.nPackets s = s := rfl
  rw [h2, h] at h1
  simp only [liftE, liftO, hr, if_true] at h1
  have h3 := congrArg (fun r => match r with | Except.ok o => o.st.nPackets | _ => 0) h1
  simp only [setN] at h3
  exact h3

/-! ## two demultiplexers that differ only in `n_packets` -/

/-- the packet is not a row `b+1 .. n` of the magazine of `pgno` -/
def NotBetween (pgno b n : Nat) (buf : List Nat) : Prop :=
  ∀ m y, Spec.addrOf buf = some (m, y) → (m ^^^ pgno) &&& 0xF00 = 0 → ¬ (b < y ∧ y ≤ n)

/-- results of the demultiplexer with `n_packets = n` and of the one with `n_packets = b`: same return
    value and callbacks; states equal, or still differing only in `n_packets` -/
def SimR (b n : Nat) : Except Err Out → Except Err Out → Prop
  | .ok o, .ok o' => o'.ret = o.ret ∧ o'.blocks = o.blocks ∧ (o'.st = o.st ∨ (o'.st = setN b o.st ∧ o.st.nPackets = n))
  | .error e, .error e' => e' = e
  | _, _ => False

theorem simR_ok (b n : Nat) (o o' : Out) (h1 : o'.ret = o.ret) (h2 : o'.blocks = o.blocks)
    (h3 : o'.st = o.st ∨ (o'.st = setN b o.st ∧ o.st.nPackets = n)) : SimR b n (.ok o) (.ok o') := ⟨h1, h2, h3⟩

theorem pageEnd_id (hfinding : pfcPageEndChecked = false) (s : St) : pageEnd s = s := by
  unfold pageEnd; rw [hfinding]; simp

theorem feed_sim (hfinding : pfcPageEndChecked = false) (x : St) (n b : Nat) (hb : 1 ≤ b) (hbn : b ≤ n)
    (hx : x.nPackets = n) (buf : List Nat) (hlen : buf.length = 42) (hnb : NotBetween x.pgno b n buf) :
    SimR b n (feed x buf) (feed (setN b x) buf) := by
  have hpe := pageEnd_id hfinding
  unfold feed
  have h8 : ¬ buf.length < 8 := by omega
  rw [if_neg h8, if_neg h8]
  dsimp only
  by_cases hp : unham16pI (buf.getD 0 0) (buf.getD 1 0) < 0
  · rw [if_pos hp, if_pos hp]; exact simR_ok _ _ _ _ rfl rfl (Or.inl rfl)
  rw [if_neg hp, if_neg hp]
  -- magazine and packet number decode
  have haddr : ∃ a c, unham8 (buf.getD 0 0) = some a ∧ unham8 (buf.getD 1 0) = some c := by
    cases h0 : unham8 (buf.getD 0 0) with
    | none =>
      have : unham16pI (buf.getD 0 0) (buf.getD 1 0) = -1 := by unfold unham16pI; rw [h0]
      rw [this] at hp; exact absurd (by decide) hp
    | some a =>
      cases h1 : unham8 (buf.getD 1 0) with
      | none =>
        have : unham16pI (buf.getD 0 0) (buf.getD 1 0) = (a : Int) - 16 := by unfold unham16pI; rw [h0, h1]
        rw [this] at hp
        have := unham8_lt16 _ _ h0
        exact absurd (by omega) hp
      | some c => exact ⟨a, c, rfl, rfl⟩
  obtain ⟨a, c, h0, h1⟩ := haddr
  have hI := unham16pI_of_some _ _ a c h0 h1
  rw [hI]
  simp only [Int.toNat_natCast]
  have hao : Spec.addrOf buf = some (if (a ||| c <<< 4) &&& 7 = 0 then 0x800 else ((a ||| c <<< 4) &&& 7) <<< 8,
      (a ||| c <<< 4) >>> 3) := by
    unfold Spec.addrOf; rw [h0, h1]
  have e1 : (setN b x).pgno = x.pgno := rfl
  have e2 : (setN b x).stream = x.stream := rfl
  have e3 : (setN b x).ci = x.ci := rfl
  have e4 : (setN b x).nPackets = b := rfl
  have e5 : (setN b x).packet = x.packet := rfl
  by_cases hy : (a ||| c <<< 4) >>> 3 = 0
  · -- a page header
    rw [if_pos hy, if_pos hy]
    by_cases hpp : unham16pI (buf.getD 2 0) (buf.getD 3 0) < 0
    · rw [if_pos hpp, if_pos hpp]; exact simR_ok _ _ _ _ rfl rfl (Or.inl rfl)
    rw [if_neg hpp, if_neg hpp, e1]
    by_cases hpg : ((if (a ||| c <<< 4) &&& 7 = 0 then 0x800 else ((a ||| c <<< 4) &&& 7) <<< 8) |||
        (unham16pI (buf.getD 2 0) (buf.getD 3 0)).toNat) ≠ x.pgno
    · rw [if_pos hpg, if_pos hpg, hpe, hpe]
      generalize (pfcForeignMagHeaderIgnored && decide ((((if (a ||| c <<< 4) &&& 7 = 0 then 0x800 else
        ((a ||| c <<< 4) &&& 7) <<< 8) ||| (unham16pI (buf.getD 2 0) (buf.getD 3 0)).toNat) ^^^ x.pgno) &&& 0xF00 ≠ 0)) = cond
      cases cond
      · rw [if_neg (by decide), if_neg (by decide)]; exact simR_ok _ _ _ _ rfl rfl (Or.inl rfl)
      · rw [if_pos rfl, if_pos rfl]; exact simR_ok _ _ _ _ rfl rfl (Or.inr ⟨rfl, hx⟩)
    · rw [if_neg hpg, if_neg hpg]
      cases pair16 (unham16pI (buf.getD 4 0) (buf.getD 5 0)) (unham16pI (buf.getD 6 0) (buf.getD 7 0)) with
      | none => exact simR_ok _ _ _ _ rfl rfl (Or.inl rfl)
      | some subno =>
        dsimp only
        rw [e2, e3]
        by_cases hs : (subno >>> 8) &&& 15 ≠ x.stream
        · rw [if_pos hs, if_pos hs, hpe, hpe]; exact simR_ok _ _ _ _ rfl rfl (Or.inl rfl)
        · rw [if_neg hs, if_neg hs]
          by_cases hci : subno &&& 15 ≠ x.ci
          · rw [if_pos hci, if_pos hci]; exact simR_ok _ _ _ _ rfl rfl (Or.inl rfl)
          · rw [if_neg hci, if_neg hci, hpe, hpe]; exact simR_ok _ _ _ _ rfl rfl (Or.inl rfl)
  · -- a row
    rw [if_neg hy, if_neg hy, e1, e4, e5]
    by_cases hm : ((if (a ||| c <<< 4) &&& 7 = 0 then 0x800 else ((a ||| c <<< 4) &&& 7) <<< 8) ^^^ x.pgno) &&& 0xF00 ≠ 0
    · rw [if_pos hm, if_pos hm]; exact simR_ok _ _ _ _ rfl rfl (Or.inr ⟨rfl, hx⟩)
    rw [if_neg hm, if_neg hm]
    have hn0 : ¬ x.nPackets = 0 := by omega
    have hb0 : ¬ b = 0 := by omega
    rw [if_neg hn0, if_neg hb0]
    by_cases h25 : (a ||| c <<< 4) >>> 3 > 25
    · rw [if_pos h25, if_pos h25]; exact simR_ok _ _ _ _ rfl rfl (Or.inr ⟨rfl, hx⟩)
    rw [if_neg h25, if_neg h25]
    have hbetween := hnb _ _ hao (by simpa using hm)
    by_cases hseq : (a ||| c <<< 4) >>> 3 ≠ x.packet ∨ (a ||| c <<< 4) >>> 3 > x.nPackets
    · have hseq' : (a ||| c <<< 4) >>> 3 ≠ x.packet ∨ (a ||| c <<< 4) >>> 3 > b := by
        rcases hseq with h | h
        · exact Or.inl h
        · exact Or.inr (by omega)
      rw [if_pos hseq, if_pos hseq']; exact simR_ok _ _ _ _ rfl rfl (Or.inl rfl)
    · have hseq' : ¬ ((a ||| c <<< 4) >>> 3 ≠ x.packet ∨ (a ||| c <<< 4) >>> 3 > b) := by
        intro h
        rcases h with h | h
        · exact hseq (Or.inl h)
        · exact hbetween ⟨h, by omega⟩
      rw [if_neg hseq, if_neg hseq']
      show SimR b n (decode { x with packet := (a ||| c <<< 4) >>> 3 + 1 } buf)
        (decode (setN b { x with packet := (a ||| c <<< 4) >>> 3 + 1 }) buf)
      rw [decode_setN]
      cases hdec : decode { x with packet := (a ||| c <<< 4) >>> 3 + 1 } buf with
      | error e => exact rfl
      | ok o =>
        show SimR b n (.ok o) (.ok (liftO b o))
        unfold liftO
        by_cases hr : o.ret = true
        · rw [if_pos hr]
          have := decode_nPackets _ buf o hdec hr
          exact simR_ok _ _ _ _ rfl rfl (Or.inr ⟨rfl, by rw [this]; exact hx⟩)
        · rw [if_neg hr]; exact simR_ok _ _ _ _ rfl rfl (Or.inl rfl)

/-- results of feeding a packet sequence to the two demultiplexers -/
def SimA (b n pgno stream : Nat) : Except Err (St × List Block) → Except Err (St × List Block) → Prop
  | .ok (s, bl), .ok (s', bl') =>
    bl' = bl ∧ (s' = s ∨ (s' = setN b s ∧ s.nPackets = n ∧ s.pgno = pgno ∧ s.stream = stream))
  | .error e, .error e' => e' = e
  | _, _ => False

/-- in step on every packet sequence without rows `b+1 .. n` of our magazine -/
theorem feedAll_sim (hfinding : pfcPageEndChecked = false) (n b : Nat) (hb : 1 ≤ b) (hbn : b ≤ n) (pgno stream : Nat)
    (l : List (List Nat)) : ∀ (x : St), x.nPackets = n → x.pgno = pgno → x.stream = stream →
    (∀ buf ∈ l, buf.length = 42 ∧ NotBetween pgno b n buf) →
    SimA b n pgno stream (feedAll x l) (feedAll (setN b x) l) := by
  induction l with
  | nil => intro x hx hp hs _; exact ⟨rfl, Or.inr ⟨rfl, hx, hp, hs⟩⟩
  | cons buf r ih =>
    intro x hx hp hss hl
    obtain ⟨hlen, hnb⟩ := hl buf (by simp)
    have hs := feed_sim hfinding x n b hb hbn hx buf hlen (by rw [hp]; exact hnb)
    rw [feedAll_cons, feedAll_cons]
    cases hf : feed x buf with
    | error e =>
      rw [hf] at hs
      cases hf' : feed (setN b x) buf with
      | error e' => rw [hf'] at hs; exact hs
      | ok o' => rw [hf'] at hs; exact hs.elim
    | ok o =>
      rw [hf] at hs
      cases hf' : feed (setN b x) buf with
      | error e' => rw [hf'] at hs; exact hs.elim
      | ok o' =>
        rw [hf'] at hs
        obtain ⟨_, hbl, hst⟩ := hs
        dsimp only
        rcases hst with hst | ⟨hst, hno⟩
        · rw [hst, hbl]
          cases feedAll o.st r with
          | error e => exact rfl
          | ok p => obtain ⟨s2, bl2⟩ := p; exact ⟨rfl, Or.inl rfl⟩
        · have hk := feed_key buf x o hf
          have := ih o.st hno (by rw [hk.1, hp]) (by rw [hk.2, hss]) (fun b' hb' => hl b' (by simp [hb']))
          rw [hst, hbl]
          cases h1 : feedAll o.st r with
          | error e =>
            rw [h1] at this
            cases h2 : feedAll (setN b o.st) r with
            | error e' => rw [h2] at this; exact this
            | ok p => rw [h2] at this; exact this.elim
          | ok p =>
            rw [h1] at this
            obtain ⟨s2, bl2⟩ := p
            cases h2 : feedAll (setN b o.st) r with
            | error e' => rw [h2] at this; exact this.elim
            | ok p' =>
              rw [h2] at this
              obtain ⟨s3, bl3⟩ := p'
              obtain ⟨t1, t2⟩ := this
              exact ⟨by rw [t1], t2⟩

theorem feedAll_append_err (a : List (List Nat)) : ∀ (y : St) (e : Err) (t : List (List Nat)),
    feedAll y a = .error e → feedAll y (a ++ t) = .error e := by
  induction a with
  | nil => intro y e t h; cases h
  | cons m r ih =>
    intro y e t h
    rw [feedAll_cons] at h
    rw [List.cons_append, feedAll_cons]
    cases hf : feed y m with
    | error e2 => rw [hf] at h; exact h
    | ok o =>
      rw [hf] at h
      dsimp only at h ⊢
      cases hr : feedAll o.st r with
      | error e3 =>
        rw [hr] at h
        rw [ih o.st e3 t hr]
        exact h
      | ok p => rw [hr] at h; obtain ⟨_, _⟩ := p; cases h

/-- **the packet count beyond the rows that arrive has no effect**: between a header of ours that
    announces `n` packets and the next header of ours, let no row `b+1 .. n` of our magazine arrive
    (`1 <= b <= n`).  Then everything the demultiplexer does - callbacks, final state, errors, for any
    continuation `rest` - is what it does when the first header announces `b` packets. -/
theorem tail_loss_unnoticed (hfinding : pfcPageEndChecked = false) (pgno stream : Nat)
    (hpg1 : 0x100 ≤ pgno) (hpg2 : pgno < 0x900) (hst : stream < 16)
    (s : St) (hsp : s.pgno = pgno) (hss : s.stream = stream)
    (ci n b : Nat) (hci : ci < 16) (hn : n < 32) (hb : 1 ≤ b) (hbn : b ≤ n) (tail : List Nat)
    (mid : List (List Nat)) (hmid : ∀ buf ∈ mid, buf.length = 42 ∧ NotBetween pgno b n buf)
    (ci' n' : Nat) (hci' : ci' < 16) (hn' : n' < 32) (tail' : List Nat) (rest : List (List Nat)) :
    feedAll s (Spec.headerPkt pgno stream ci n tail :: (mid ++ Spec.headerPkt pgno stream ci' n' tail' :: rest)) =
    feedAll s (Spec.headerPkt pgno stream ci b tail :: (mid ++ Spec.headerPkt pgno stream ci' n' tail' :: rest)) := by
  rw [feedAll_cons, feedAll_cons, feed_header s pgno stream ci n tail hpg1 hpg2 hst hci hn hsp hss,
    feed_header s pgno stream ci b tail hpg1 hpg2 hst hci (by omega) hsp hss]
  dsimp only
  -- the two states after the first header
  generalize hx0 : (if ci ≠ s.ci then reset s else pageEnd s) = s0
  have hs0p : s0.pgno = pgno := by
    rw [← hx0]; split
    · exact hsp
    · rw [(pageEnd_key s).1]; exact hsp
  have hs0s : s0.stream = stream := by
    rw [← hx0]; split
    · exact hss
    · rw [(pageEnd_key s).2]; exact hss
  have hB : ({ s0 with ci := (ci + 1) &&& 15, packet := 1, nPackets := b } : St) =
      setN b { s0 with ci := (ci + 1) &&& 15, packet := 1, nPackets := n } := rfl
  rw [hB]
  generalize hA : ({ s0 with ci := (ci + 1) &&& 15, packet := 1, nPackets := n } : St) = x
  have hxn : x.nPackets = n := by rw [← hA]
  have hxp : x.pgno = pgno := by rw [← hA]; exact hs0p
  have hxs : x.stream = stream := by rw [← hA]; exact hs0s
  have hsim := feedAll_sim hfinding n b hb hbn pgno stream mid x hxn hxp hxs hmid
  suffices h : feedAll x (mid ++ Spec.headerPkt pgno stream ci' n' tail' :: rest) =
      feedAll (setN b x) (mid ++ Spec.headerPkt pgno stream ci' n' tail' :: rest) by rw [h]
  cases h1 : feedAll x mid with
  | error e =>
    rw [h1] at hsim
    cases h2 : feedAll (setN b x) mid with
    | ok p => rw [h2] at hsim; exact hsim.elim
    | error e' =>
      rw [h2] at hsim
      have : e' = e := hsim
      rw [feedAll_append_err _ _ _ _ h1, feedAll_append_err _ _ _ _ h2, this]
  | ok p =>
    obtain ⟨s1, bl1⟩ := p
    rw [h1] at hsim
    cases h2 : feedAll (setN b x) mid with
    | error e' => rw [h2] at hsim; exact hsim.elim
    | ok p' =>
      obtain ⟨s1', bl1'⟩ := p'
      rw [h2] at hsim
      obtain ⟨hbl, hst⟩ := hsim
      rw [feedAll_append _ _ _ _ _ h1, feedAll_append _ _ _ _ _ h2, hbl]
      rcases hst with heq | ⟨heq, _, hp1, hs1⟩
      · rw [heq]
      · -- both meet the next header of ours, which overwrites `n_packets`
        rw [feedAll_cons, feedAll_cons,
          feed_header s1 pgno stream ci' n' tail' hpg1 hpg2 hst hci' hn' hp1 hs1,
          feed_header s1' pgno stream ci' n' tail' hpg1 hpg2 hst hci' hn' (by rw [heq]; exact hp1) (by rw [heq]; exact hs1)]
        rw [heq, pageEnd_id hfinding, pageEnd_id hfinding]
        have e3 : (setN b s1).ci = s1.ci := rfl
        rw [e3]
        by_cases hc : ci' ≠ s1.ci
        · rw [if_pos hc, if_pos hc]; rfl
        · rw [if_neg hc, if_neg hc]; rfl

end Zvbi.Pfc
