import ZvbiModel.Pfc.Lemmas5
/-!
# Lemmas for the PFC demultiplexer (C15), part 6: packets that are not rows of our open page
-/
namespace Zvbi.Pfc
open Zvbi.Hamm Zvbi.Gen
open Spec (Ph Res run shDecode)


theorem unham16pI_of_some (p0 p1 a b : Nat) (h0 : unham8 p0 = some a) (h1 : unham8 p1 = some b) :
    unham16pI p0 p1 = ((a ||| (b <<< 4) : Nat) : Int) := by
  unfold unham16pI; rw [h0, h1]

/-- what `vbi_pfc_demux_feed` does with a packet that is not a page header, in terms of its address -/
theorem feed_nonheader (s : St) (buf : List Nat) (hlen : buf.length = 42) (m y : Nat)
    (haddr : Spec.addrOf buf = some (m, y)) (hy : y ≠ 0) :
    feed s buf =
      if (m ^^^ s.pgno) &&& 0xF00 ≠ 0 then .ok ⟨s, true, []⟩ else
      if s.nPackets = 0 then .ok ⟨s, true, []⟩ else
      if y > 25 then .ok ⟨s, true, []⟩ else
      if y ≠ s.packet ∨ y > s.nPackets then .ok ⟨reset s, true, []⟩ else
      decode { s with packet := y + 1 } buf := by
  unfold Spec.addrOf at haddr
  cases h0 : unham8 (buf.getD 0 0) with
  | none => rw [h0] at haddr; cases haddr
  | some a =>
    cases h1 : unham8 (buf.getD 1 0) with
    | none => rw [h0, h1] at haddr; cases haddr
    | some b =>
      rw [h0, h1] at haddr
      simp only [Option.some.injEq, Prod.mk.injEq] at haddr
      obtain ⟨hm, hyy⟩ := haddr
      unfold feed
      have hl : ¬ buf.length < 8 := by omega
      have hI := unham16pI_of_some _ _ a b h0 h1
      have hneg : ¬ (((a ||| (b <<< 4) : Nat) : Int) < 0) := by omega
      have hy0 : ¬ ((a ||| b <<< 4) >>> 3 = 0) := by rw [hyy]; exact hy
      simp only [hl, if_false, hI, hneg, Int.toNat_natCast, hm, hyy, hy]


/-- what `vbi_pfc_demux_feed` does with a page header of another page: nothing is delivered, and
    either nothing changes or our page is closed (`n_packets = 0`) -/
theorem feed_foreign_header (s : St) (buf : List Nat) (hlen : buf.length = 42) (m pp : Nat)
    (haddr : Spec.addrOf buf = some (m, 0)) (hpage : Spec.pageByteOf buf = some pp) (hne : m ||| pp ≠ s.pgno) :
    ∃ o, feed s buf = .ok o ∧ o.blocks = [] ∧ o.ret = true ∧ (o.st = s ∨ o.st.nPackets = 0) := by
  unfold Spec.addrOf at haddr
  unfold Spec.pageByteOf at hpage
  cases h0 : unham8 (buf.getD 0 0) with
  | none => rw [h0] at haddr; cases haddr
  | some a =>
    cases h1 : unham8 (buf.getD 1 0) with
    | none => rw [h0, h1] at haddr; cases haddr
    | some b =>
      cases h2 : unham8 (buf.getD 2 0) with
      | none => rw [h2] at hpage; cases hpage
      | some c =>
        cases h3 : unham8 (buf.getD 3 0) with
        | none => rw [h2, h3] at hpage; cases hpage
        | some d =>
          rw [h0, h1] at haddr
          rw [h2, h3] at hpage
          simp only [Option.some.injEq, Prod.mk.injEq] at haddr hpage
          obtain ⟨hm, hyy⟩ := haddr
          subst hpage
          unfold feed
          have hl : ¬ buf.length < 8 := by omega
          have hI := unham16pI_of_some _ _ a b h0 h1
          have hP := unham16pI_of_some _ _ c d h2 h3
          have hneg : ¬ (((a ||| (b <<< 4) : Nat) : Int) < 0) := by omega
          have hneg2 : ¬ (((c ||| (d <<< 4) : Nat) : Int) < 0) := by omega
          simp only [hl, if_false, hI, hneg, Int.toNat_natCast, hm, hyy, if_true, hP, hneg2, hne,
            ne_eq, not_false_eq_true]
          split
          · exact ⟨_, rfl, rfl, rfl, Or.inl rfl⟩
          · exact ⟨_, rfl, rfl, rfl, Or.inr rfl⟩

theorem reset_eq_new (s : St) : reset s = { new s.pgno s.stream with blockSize := s.blockSize } := rfl


/-- (application id, size, bytes) of the callbacks of a run, `[]` if the run failed -/
def blocksOf (r : Except Err (St × List Block)) : List (Nat × Nat × List Nat) :=
  match r with
  | .ok (_, bl) => bl.map (fun b => (b.app, b.size, b.bytes))
  | .error _ => []

end Zvbi.Pfc
