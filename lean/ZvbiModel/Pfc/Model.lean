import ZvbiModel.Hamm.Model
import ZvbiModel.Generated.IdlPfc
/-!
# Model of src/pfc_demux.c (Page Format Clear demultiplexer)

Follows `vbi_pfc_demux_reset`, `_vbi_pfc_demux_decode`, `vbi_pfc_demux_feed`,
`_vbi_pfc_demux_init` statement by statement.

* `dx->block.block[0 .. dx->bi)` is the list `blk` (`dx->bi = blk.length`); bytes of the 2048 byte
  array beyond `bi` are never observed (a callback sees `block_size = bi` bytes).  The `memcpy`
  into `block + bi` is guarded: writing past `Gen.pfcBlockExtent` yields `.error (.oob ..)`.
* every read of the 42 byte packet goes through `rdE`; a miss yields `.error (.oob ..)`.
* `(int) application_id < 0` is `appId = none`.
* the `while (col < 42)` loop and the filler scan take fuel; `.error .fuel` is proved unreachable
  with fuel 42 (`Pfc/Lemmas.lean`).
* `vbi_unham16p` is kept as a C `int` (`Int`): `-1` if the first byte fails, `a - 16` if only the
  second fails, because the code *adds* two such values and only tests the sign of the sum.
* the callback returns TRUE (as in the harness).
-/
namespace Zvbi.Pfc
open Zvbi.Hamm Zvbi.Gen

structure Block where
  app : Nat
  size : Nat
  bytes : List Nat
deriving Repr, DecidableEq

structure St where
  ci : Nat
  packet : Nat
  nPackets : Nat
  blk : List Nat
  left : Nat
  appId : Option Nat
  blockSize : Nat
  pgno : Nat
  stream : Nat
deriving Repr, DecidableEq

inductive Err
  | oob (site : String)
  | fuel
deriving Repr, DecidableEq

/-- result of one call: new state, return value, callbacks in order -/
structure Out where
  st : St
  ret : Bool
  blocks : List Block
deriving Repr, DecidableEq

/-- `vbi_pfc_demux_reset` -/
def reset (s : St) : St :=
  { s with ci := 256, packet := 256, nPackets := 0, blk := [], left := 0, appId := none }

/-- `vbi_pfc_demux_new (pgno, stream, ...)` -/
def new (pgno stream : Nat) : St :=
  reset { ci := 0, packet := 0, nPackets := 0, blk := [], left := 0, appId := none, blockSize := 0,
          pgno := pgno, stream := stream }

/-- `vbi_unham16p` as the C `int` it returns -/
def unham16pI (p0 p1 : Nat) : Int :=
  match unham8 p0, unham8 p1 with
  | some a, some b => ((a ||| (b <<< 4) : Nat) : Int)
  | none, _ => -1
  | some a, none => (a : Int) - 16

/-- `lo + hi * 256` followed by `if (x < 0) goto desynced`: `none` = desynced.
    With `Gen.pfcPairSignChecked` (source repaired) each half is tested on its own. -/
def pair16 (lo hi : Int) : Option Nat :=
  if pfcPairSignChecked && (decide (lo < 0) || decide (hi < 0)) then none
  else if lo + hi * 256 < 0 then none else some (lo + hi * 256).toNat

def rdE (buf : List Nat) (j : Nat) (site : String) : Except Err Nat :=
  match buf[j]? with
  | some b => .ok b
  | none => .error (.oob site)

/-- `goto desynced` -/
def desync (s : St) (acc : List Block) : Out := ⟨reset s, false, acc⟩

inductive Consumed
  | ret (o : Out)                                  -- `return`
  | cont (s : St) (col : Nat)                      -- `continue` (structure header parsed)
  | fall (s : St) (col : Nat) (acc : List Block)   -- go on to the separator search

/-- the `if (dx->left > 0) { ... }` statement of the loop body -/
def consume (buf : List Nat) (s : St) (col : Nat) (acc : List Block) : Except Err Consumed :=
  if s.left > 0 then
    let size := min s.left (42 - col)
    if s.blk.length + size > pfcBlockExtent then .error (.oob "block[]") else
    if col + size > buf.length then .error (.oob "buffer (memcpy)") else
    let s1 : St := { s with blk := s.blk ++ (buf.drop col).take size, left := s.left - size }
    if s1.left > 0 then .ok (.ret ⟨s1, true, acc⟩) else
    let col := col + size
    match s1.appId with
    | none =>
      -- sh = vbi_unham16p (block) + vbi_unham16p (block + 2) * 256
      match pair16 (unham16pI (s1.blk.getD 0 0) (s1.blk.getD 1 0))
                   (unham16pI (s1.blk.getD 2 0) (s1.blk.getD 3 0)) with
      | none => .ok (.ret (desync s1 acc))
      | some sh =>
        .ok (.cont { s1 with appId := some (sh &&& 0x1F), blockSize := sh >>> 5,
                             blk := [], left := sh >>> 5 } col)
    | some app => .ok (.fall s1 col (acc ++ [⟨app, s1.blockSize, s1.blk⟩]))
  else .ok (.fall s col acc)

/-- `while (FILLER_BYTE == (bs = vbi_unham8 (buffer[col++]))) { if (col >= 42) return TRUE; }`
    `none` = returned TRUE, `some (bs, col)` = loop left with this `bs` and `col` -/
def skipFill (buf : List Nat) : Nat → Nat → Except Err (Option (Option Nat × Nat))
  | 0, _ => .error .fuel
  | fuel + 1, col =>
    match rdE buf col "buffer (filler scan)" with
    | .error e => .error e
    | .ok b =>
      let bs := unham8 b
      let col := col + 1
      if bs = some pfcFillerByte then
        if col ≥ 42 then .ok none else skipFill buf fuel col
      else .ok (some (bs, col))

/-- the `if (col <= 3) {...} else {...}` statement: `none` = returned TRUE -/
def findSep (buf : List Nat) (bp col : Nat) : Except Err (Option (Option Nat × Nat)) :=
  if col ≤ 3 then
    if bp ≥ 39 then .ok none
    else
      match rdE buf (bp + 4 - 1) "buffer (bp)" with
      | .error e => .error e
      | .ok b => .ok (some (unham8 b, bp + 4))
  else
    if col ≥ 42 then .ok none
    else skipFill buf 42 col

/-- `while (col < 42) { ... }` of `_vbi_pfc_demux_decode` -/
def loop (buf : List Nat) (bp : Nat) : Nat → St → Nat → List Block → Except Err Out
  | 0, _, _, _ => .error .fuel
  | fuel + 1, s, col, acc =>
    if col ≥ 42 then .ok ⟨s, true, acc⟩ else
    match consume buf s col acc with
    | .error e => .error e
    | .ok (.ret o) => .ok o
    | .ok (.cont s col) => loop buf bp fuel s col acc
    | .ok (.fall s col acc) =>
      match findSep buf bp col with
      | .error e => .error e
      | .ok none => .ok ⟨s, true, acc⟩
      | .ok (some (bs, col)) =>
        if bs ≠ some pfcBlockSeparator then .ok (desync s acc)
        else loop buf bp fuel { s with blk := [], left := 4, appId := none } col acc

/-- `_vbi_pfc_demux_decode (dx, buffer)` -/
def decode (s : St) (buf : List Nat) : Except Err Out :=
  match rdE buf 2 "buffer[2]" with
  | .error e => .error e
  | .ok b2 =>
    match unham8 b2 with
    | none => .ok (desync s [])
    | some n =>
      let bp := n * 3
      if bp > 39 then .ok (desync s []) else loop buf bp 42 s 3 []

/-- the check `if (dx->n_packets > 0 && dx->packet != dx->n_packets + 1) vbi_pfc_demux_reset (dx)` that a
    repaired source makes when a page of ours ends (`Gen.pfcPageEndChecked`); the identity on the unrepaired source -/
def pageEnd (s : St) : St :=
  if pfcPageEndChecked && decide (s.nPackets > 0) && decide (s.packet ≠ s.nPackets + 1) then reset s else s

/-- `vbi_pfc_demux_feed (dx, buffer)` -/
def feed (s : St) (buf : List Nat) : Except Err Out :=
  if buf.length < 8 then .error (.oob "buffer (header)") else
  let pmagI := unham16pI (buf.getD 0 0) (buf.getD 1 0)
  if pmagI < 0 then .ok (desync s []) else
  let pmag := pmagI.toNat
  let pgno0 := if pmag &&& 7 = 0 then 0x800 else (pmag &&& 7) <<< 8
  let packet := pmag >>> 3
  if packet = 0 then
    let pp := unham16pI (buf.getD 2 0) (buf.getD 3 0)
    if pp < 0 then .ok (desync s []) else
    let pgno := pgno0 ||| pp.toNat
    if pgno ≠ s.pgno then
      (if pfcForeignMagHeaderIgnored && decide ((pgno ^^^ s.pgno) &&& 0xF00 ≠ 0) then .ok ⟨s, true, []⟩
       else .ok ⟨{ pageEnd s with nPackets := 0 }, true, []⟩) else
    match pair16 (unham16pI (buf.getD 4 0) (buf.getD 5 0)) (unham16pI (buf.getD 6 0) (buf.getD 7 0)) with
    | none => .ok (desync s [])
    | some subno =>
      let stream := (subno >>> 8) &&& 15
      if stream ≠ s.stream then .ok ⟨{ pageEnd s with nPackets := 0 }, true, []⟩ else
      let ci := subno &&& 15
      let s1 := if ci ≠ s.ci then reset s else pageEnd s
      .ok ⟨{ s1 with ci := (ci + 1) &&& 15, packet := 1,
                     nPackets := ((subno >>> 4) &&& 7) + ((subno >>> 9) &&& 0x18) }, true, []⟩
  else
    if (pgno0 ^^^ s.pgno) &&& 0xF00 ≠ 0 then .ok ⟨s, true, []⟩ else
    if s.nPackets = 0 then .ok ⟨s, true, []⟩ else
    if packet > 25 then .ok ⟨s, true, []⟩ else
    if packet ≠ s.packet ∨ packet > s.nPackets then .ok ⟨reset s, true, []⟩ else
    decode { s with packet := packet + 1 } buf

end Zvbi.Pfc
