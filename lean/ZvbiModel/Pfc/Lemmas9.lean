import ZvbiModel.Pfc.Lemmas8
/-!
# Lemmas for the PFC demultiplexer (C15), part 9: the executable sender `Spec.encode` always
yields usable block pointers

`sepsOK`: every separator that is the first of a packet starting between blocks sits at a multiple
of 3 (<= 36) - an invariant of the layout fold, from the definition of `alignPad`.  `WT` / `Suf`:
the token stream consists of fillers and whole blocks, and the grammar's phase at any cut is the
one the token roles say.  `chunk_adm`: hence each 39 token packet is `Spec.Admissible`.
-/
namespace Zvbi.Pfc
open Zvbi.Hamm Zvbi.Gen
open Spec (Ph Res run shDecode Role)


abbrev Tok := Role × Nat

/-- the condition under which `alignPad` pads (first separator of a packet that starts between blocks) -/
def Cond (A : List Tok) : Prop :=
  ((A.drop (A.length - A.length % 39)).all (fun t => t.1 ≠ Role.sep)) = true ∧
  (A.length % 39 = 0 ∨ (A[A.length - A.length % 39]?).map (·.1) = some Role.fill)

instance (A : List Tok) : Decidable (Cond A) := by unfold Cond; infer_instance

/-- the separator that follows `A` can be announced by the block pointer -/
def Good (A : List Tok) : Prop := A.length % 39 % 3 = 0 ∧ A.length % 39 ≤ 36

theorem alignPad_eq (out : List Tok) : Spec.alignPad out =
    if Cond out then (if out.length % 39 ≤ 36 then (3 - out.length % 39 % 3) % 3 else 39 - out.length % 39) else 0 := by
  unfold Spec.alignPad Cond
  rfl

theorem pad_good (out : List Tok) (h : Cond (out ++ Spec.fills (Spec.alignPad out))) :
    Good (out ++ Spec.fills (Spec.alignPad out)) := by
  rw [alignPad_eq] at h ⊢
  by_cases hc : Cond out
  · rw [if_pos hc] at h ⊢
    unfold Good
    simp only [List.length_append, Spec.fills, List.length_replicate]
    split <;> omega
  · rw [if_neg hc] at h
    simp only [Spec.fills, List.replicate_zero, List.append_nil] at h
    exact absurd h hc


/-- every separator of `rest` (which follows `pre`) that needs announcing can be announced -/
def sepsOK : List Tok → List Tok → Prop
  | _, [] => True
  | pre, t :: r => (t.1 = Role.sep → Cond pre → Good pre) ∧ sepsOK (pre ++ [t]) r

theorem sepsOK_append (a b : List Tok) : ∀ pre, sepsOK pre (a ++ b) ↔ sepsOK pre a ∧ sepsOK (pre ++ a) b := by
  induction a with
  | nil => intro pre; simp [sepsOK]
  | cons t r ih =>
    intro pre
    simp only [List.cons_append, sepsOK, ih (pre ++ [t]), List.append_assoc, List.cons_append, List.nil_append, and_assoc]

theorem sepsOK_nosep (l : List Tok) (h : ∀ t ∈ l, t.1 ≠ Role.sep) : ∀ pre, sepsOK pre l := by
  induction l with
  | nil => intro pre; trivial
  | cons t r ih =>
    intro pre
    exact ⟨fun hs => absurd hs (h t (by simp)), ih (fun x hx => h x (by simp [hx])) _⟩

theorem fills_nosep (n : Nat) : ∀ t ∈ Spec.fills n, t.1 ≠ Role.sep := by
  intro t ht
  rw [Spec.fills] at ht
  rw [List.eq_of_mem_replicate ht]
  decide

theorem blockToks_eq (it : Spec.Item) : Spec.blockToks it = (Role.sep, Spec.sepByte) ::
    ((Spec.hdrBytes it.app it.data.length).map (fun b => (Role.hdr, b)) ++ it.data.map (fun b => (Role.data, b))) := rfl

theorem block_tail_nosep (it : Spec.Item) : ∀ t ∈ (Spec.hdrBytes it.app it.data.length).map (fun b => (Role.hdr, b)) ++
    it.data.map (fun b => (Role.data, b)), t.1 ≠ Role.sep := by
  intro t ht
  simp only [List.mem_append, List.mem_map] at ht
  rcases ht with ⟨b, _, rfl⟩ | ⟨b, _, rfl⟩ <;> simp

/-- the layout fold keeps all separators announceable -/
theorem sepsOK_step (out : List Tok) (it : Spec.Item) (h : sepsOK [] out) : sepsOK [] (stepL out it) := by
  unfold stepL
  rw [sepsOK_append, sepsOK_append, sepsOK_append]
  refine ⟨⟨⟨h, sepsOK_nosep _ (fills_nosep _) _⟩, ?_⟩, sepsOK_nosep _ (fills_nosep _) _⟩
  rw [blockToks_eq]
  simp only [List.nil_append]
  exact ⟨fun _ hc => pad_good out hc, sepsOK_nosep _ (block_tail_nosep it) _⟩

theorem sepsOK_layout (lead : Nat) (items : List Spec.Item) : sepsOK [] (Spec.layout lead items) := by
  have hlay : Spec.layout lead items =
      items.foldl stepL (Spec.fills lead) ++ Spec.fills ((39 - (items.foldl stepL (Spec.fills lead)).length % 39) % 39) := rfl
  rw [hlay, sepsOK_append]
  refine ⟨?_, sepsOK_nosep _ (fills_nosep _) _⟩
  have : ∀ (items : List Spec.Item) (out : List Tok), sepsOK [] out → sepsOK [] (items.foldl stepL out) := by
    intro items
    induction items with
    | nil => intro out h; exact h
    | cons it t ih => intro out h; exact ih _ (sepsOK_step out it h)
  exact this items _ (sepsOK_nosep _ (fills_nosep _) _)


/-! ## well-tagged token streams and the grammar's phase inside them -/

def fillTok : Tok := (Role.fill, Spec.fillByte)

/-- a token stream that consists of fillers and whole sendable blocks -/
inductive WT : List Tok → Prop
  | nil : WT []
  | fill (t : List Tok) : WT t → WT (fillTok :: t)
  | block (it : Spec.Item) (t : List Tok) : it.app < 32 → it.data.length ≤ 2047 → WT t → WT (Spec.blockToks it ++ t)

theorem WT_fills (n : Nat) (t : List Tok) (h : WT t) : WT (Spec.fills n ++ t) := by
  induction n with
  | zero => simpa [Spec.fills] using h
  | succ k ih =>
    have : Spec.fills (k + 1) ++ t = fillTok :: (Spec.fills k ++ t) := by
      simp [Spec.fills, List.replicate_succ, fillTok]
    rw [this]; exact WT.fill _ ih

theorem WT_flatMap (l : List (Spec.Item × Nat)) (hok : ∀ ip ∈ l, ip.1.app < 32 ∧ ip.1.data.length ≤ 2047)
    (t : List Tok) (h : WT t) :
    WT (l.flatMap (fun ip => Spec.fills ip.2 ++ Spec.blockToks ip.1 ++ Spec.fills ip.1.gap) ++ t) := by
  induction l with
  | nil => simpa using h
  | cons ip r ih =>
    have h1 := hok ip (by simp)
    rw [List.flatMap_cons, List.append_assoc, List.append_assoc, List.append_assoc]
    apply WT_fills
    apply WT.block _ _ h1.1 h1.2
    rw [← List.append_assoc]
    rw [List.append_assoc]
    apply WT_fills
    exact ih (fun x hx => hok x (by simp [hx]))

theorem WT_layout (lead : Nat) (items : List Spec.Item) (hok : ∀ it ∈ items, it.app < 32 ∧ it.data.length ≤ 2047) :
    WT (Spec.layout lead items) := by
  have hlay : Spec.layout lead items =
      items.foldl stepL (Spec.fills lead) ++ Spec.fills ((39 - (items.foldl stepL (Spec.fills lead)).length % 39) % 39) := rfl
  obtain ⟨pads, hpl, hfold⟩ := fold_shape items (Spec.fills lead)
  rw [hlay, hfold, List.append_assoc]
  apply WT_fills
  apply WT_flatMap
  · intro ip hip
    exact hok ip.1 (List.of_mem_zip hip).1
  · have := WT_fills ((39 - (Spec.fills lead ++ (items.zip pads).flatMap
        (fun ip => Spec.fills ip.2 ++ Spec.blockToks ip.1 ++ Spec.fills ip.1.gap)).length % 39) % 39) [] WT.nil
    rwa [List.append_nil] at this


def hdrToks (hs : List Nat) : List Tok := hs.map (fun b => (Role.hdr, b))
def dataToks (ds : List Nat) : List Tok := ds.map (fun b => (Role.data, b))

/-- `S` is what remains of a well-tagged stream when the grammar is in phase `ph` -/
def Suf : Ph → List Tok → Prop
  | .idle, S => WT S
  | .hdr g, S => ∃ app size hs ds rest, S = hdrToks hs ++ (dataToks ds ++ rest) ∧
      g ++ hs = Spec.hdrBytes app size ∧ ds.length = size ∧ hs ≠ [] ∧ app < 32 ∧ size ≤ 2047 ∧ WT rest
  | .data _ n g, S => ∃ ds rest, S = dataToks ds ++ rest ∧ g.length + ds.length = n ∧ ds ≠ [] ∧ WT rest

/-- one token: the grammar accepts it and the rest is again a suffix for the new phase -/
theorem suf_step (ph : Ph) (t : Tok) (S : List Tok) (h : Suf ph (t :: S)) :
    ∃ ph', Suf ph' S ∧ ∀ acc r, ∃ acc', run ph acc (t.2 :: r) = run ph' acc' r := by
  cases ph with
  | idle =>
    have hw : WT (t :: S) := h
    generalize hL : t :: S = L at hw
    cases hw with
    | nil => cases hL
    | fill t' ht' =>
      cases hL
      refine ⟨.idle, ht', fun acc r => ⟨acc, ?_⟩⟩
      rw [run_idle_cons]
      simp [fillTok, unham8_fill]
    | block it t' h1 h2 ht' =>
      rw [blockToks_eq, List.cons_append] at hL
      cases hL
      refine ⟨.hdr [], ⟨it.app, it.data.length, Spec.hdrBytes it.app it.data.length, it.data, t', ?_, rfl, rfl, ?_, h1, h2, ht'⟩,
        fun acc r => ⟨acc, ?_⟩⟩
      · simp [hdrToks, dataToks, List.append_assoc]
      · simp [Spec.hdrBytes]
      · rw [run_idle_cons]
        simp [unham8_sep]
  | hdr g =>
    obtain ⟨app, size, hs, ds, rest, hS, hg, hds, hne, ha, hsz, hw⟩ := h
    subst hds
    cases hs with
    | nil => exact absurd rfl hne
    | cons b hs' =>
      simp only [hdrToks, List.map_cons, List.cons_append] at hS
      cases hS
      have hlen : (g ++ b :: hs').length = 4 := by rw [hg]; rfl
      simp only [List.length_append, List.length_cons] at hlen
      by_cases hn : hs' = []
      · subst hn
        simp only [List.length_nil] at hlen
        have hgb : g ++ [b] = Spec.hdrBytes app ds.length := hg
        have hsd := shDecode_hdrBytes app ds.length ha hsz
        have h5 : (app + ds.length * 32) >>> 5 = ds.length := by
          rw [Nat.shiftRight_eq_div_pow]; omega
        have h1f : (app + ds.length * 32) &&& 0x1F = app := by
          have := Nat.and_two_pow_sub_one_eq_mod (app + ds.length * 32) 5
          simp at this; omega
        by_cases hz : ds.length = 0
        · have hd0 : ds = [] := List.length_eq_zero_iff.mp hz
          refine ⟨.idle, ?_, fun acc r => ⟨acc, ?_⟩⟩
          · rw [hd0]; exact hw
          · rw [run_hdr_cons, if_neg (by omega), hgb, hsd]
            simp only [hdrDone]
            rw [h5, if_pos hz]
        · have hz' : ds ≠ [] := fun h0 => hz (by rw [h0]; rfl)
          refine ⟨.data app ds.length [], ⟨ds, rest, by simp [hdrToks], by simp, hz', hw⟩, fun acc r => ⟨acc, ?_⟩⟩
          rw [run_hdr_cons, if_neg (by omega), hgb, hsd]
          simp only [hdrDone]
          rw [h5, if_neg hz, h1f]
      · have hl' : 0 < hs'.length := List.length_pos_iff.mpr hn
        refine ⟨.hdr (g ++ [b]), ⟨app, ds.length, hs', ds, rest, rfl, by simpa using hg, rfl, hn, ha, hsz, hw⟩,
          fun acc r => ⟨acc, ?_⟩⟩
        rw [run_hdr_cons, if_pos (by omega)]
  | data a n g =>
    obtain ⟨ds, rest, hS, hlen, hne, hw⟩ := h
    cases ds with
    | nil => exact absurd rfl hne
    | cons d ds' =>
      simp only [dataToks, List.map_cons, List.cons_append] at hS
      cases hS
      simp only [List.length_cons] at hlen
      by_cases hn : ds' = []
      · subst hn
        simp only [List.length_nil] at hlen
        refine ⟨.idle, hw, fun acc r => ⟨acc ++ [(a, g ++ [d])], ?_⟩⟩
        rw [run_data_cons, if_neg (by omega)]
      · have hl' : 0 < ds'.length := List.length_pos_iff.mpr hn
        refine ⟨.data a n (g ++ [d]), ⟨ds', rest, rfl, by simp; omega, hn, hw⟩, fun acc r => ⟨acc, ?_⟩⟩
        rw [run_data_cons, if_pos (by omega)]


/-- a piece of a well-tagged stream: accepted, and the rest is a suffix for the phase reached -/
theorem suf_chunk : ∀ (c : List Tok) (ph : Ph) (S : List Tok), Suf ph (c ++ S) →
    ∃ ph', Suf ph' S ∧ ∀ acc, ∃ acc', run ph acc (c.map (·.2)) = ⟨ph', acc', true⟩ := by
  intro c
  induction c with
  | nil => intro ph S h; exact ⟨ph, h, fun acc => ⟨acc, by simp [run_nil]⟩⟩
  | cons t c' ih =>
    intro ph S h
    obtain ⟨ph1, h1, hr1⟩ := suf_step ph t (c' ++ S) h
    obtain ⟨ph', h2, hr2⟩ := ih ph1 S h1
    refine ⟨ph', h2, fun acc => ?_⟩
    obtain ⟨acc1, e1⟩ := hr1 acc (c'.map (·.2))
    obtain ⟨acc', e2⟩ := hr2 acc1
    exact ⟨acc', by rw [List.map_cons, e1, e2]⟩

theorem wt_prefix_fills : ∀ (fs R : List Tok), WT (fs ++ R) → (∀ t ∈ fs, t.1 ≠ Role.sep) →
    (∀ t ∈ fs, t = fillTok) ∧ WT R := by
  intro fs
  induction fs with
  | nil => intro R h _; exact ⟨by simp, h⟩
  | cons x fs' ih =>
    intro R h hns
    generalize hL : (x :: fs') ++ R = L at h
    cases h with
    | nil => cases hL
    | fill t' ht' =>
      simp only [List.cons_append] at hL
      cases hL
      obtain ⟨i1, i2⟩ := ih R ht' (fun t ht => hns t (by simp [ht]))
      exact ⟨by intro t ht; simp only [List.mem_cons] at ht; rcases ht with rfl | ht; rfl; exact i1 t ht, i2⟩
    | block it t' _ _ _ =>
      rw [blockToks_eq] at hL
      simp only [List.cons_append] at hL
      have : x = (Role.sep, Spec.sepByte) := by injection hL with h1 _
      exact absurd (by rw [this]) (hns x (by simp))

theorem wt_sep_byte (t : Tok) (L : List Tok) (h : WT (t :: L)) (hs : t.1 = Role.sep) : t.2 = Spec.sepByte := by
  generalize hL : t :: L = M at h
  cases h with
  | nil => cases hL
  | fill t' _ => cases hL; simp [fillTok] at hs
  | block it t' _ _ _ =>
    rw [blockToks_eq, List.cons_append] at hL
    cases hL; rfl

theorem findIdx_split (p : Tok → Bool) : ∀ (l : List Tok),
    (l.findIdx? p = none ∧ ∀ t ∈ l, p t = false) ∨
    (∃ fs t rest, l = fs ++ t :: rest ∧ l.findIdx? p = some fs.length ∧ (∀ x ∈ fs, p x = false) ∧ p t = true) := by
  intro l
  induction l with
  | nil => left; simp
  | cons x r ih =>
    by_cases hx : p x = true
    · right
      exact ⟨[], x, r, rfl, by simp [List.findIdx?_cons, hx], by simp, hx⟩
    · have hx' : p x = false := by simpa using hx
      rcases ih with ⟨h1, h2⟩ | ⟨fs, t, rest, h1, h2, h3, h4⟩
      · left
        refine ⟨by simp [List.findIdx?_cons, hx', h1], ?_⟩
        intro t ht; simp only [List.mem_cons] at ht; rcases ht with rfl | ht; exact hx'; exact h2 t ht
      · right
        refine ⟨x :: fs, t, rest, by rw [h1]; rfl, by simp [List.findIdx?_cons, hx', h2], ?_, h4⟩
        intro y hy; simp only [List.mem_cons] at hy; rcases hy with rfl | hy; exact hx'; exact h3 y hy


/-- **one packet of the sender**: if the packet starts between blocks its block pointer is usable -/
theorem chunk_adm (P c S' : List Tok) (hP : P.length % 39 = 0) (hc : c.length = 39)
    (hw : WT (c ++ S')) (hs : sepsOK P (c ++ S')) :
    Spec.Admissible .idle (Spec.bpOf c) (c.map (·.2)) := by
  refine ⟨by simp [hc], ?_, fun _ => ?_⟩
  · unfold Spec.bpOf
    split
    · split <;> omega
    · omega
  · rcases findIdx_split (fun t => decide (t.1 = Role.sep)) c with ⟨h1, h2⟩ | ⟨fs, t, rest, hsplit, hidx, hfs, ht⟩
    · -- no separator in this packet: fillers only
      left
      have hns : ∀ t ∈ c, t.1 ≠ Role.sep := fun t ht => by simpa using h2 t ht
      have hall := (wt_prefix_fills c S' hw hns).1
      refine ⟨by unfold Spec.bpOf; rw [h1], ?_⟩
      intro b hb
      simp only [List.mem_map] at hb
      obtain ⟨t, ht, rfl⟩ := hb
      rw [hall t ht]; exact unham8_fill
    · right
      have hns : ∀ x ∈ fs, x.1 ≠ Role.sep := fun x hx => by simpa using hfs x hx
      have hts : t.1 = Role.sep := by simpa using ht
      rw [hsplit, List.append_assoc, List.cons_append] at hw hs
      obtain ⟨hall, hw2⟩ := wt_prefix_fills fs _ hw hns
      have htb : t.2 = Spec.sepByte := wt_sep_byte t _ hw2 hts
      have hi : fs.length < 39 := by
        have := congrArg List.length hsplit
        simp only [List.length_append, List.length_cons] at this
        omega
      -- alignment
      have hcond : Cond (P ++ fs) := by
        have hl : (P ++ fs).length % 39 = fs.length := by rw [List.length_append]; omega
        have hst : (P ++ fs).length - (P ++ fs).length % 39 = P.length := by rw [hl, List.length_append]; omega
        unfold Cond
        rw [hst, hl]
        refine ⟨?_, ?_⟩
        · rw [List.drop_left']
          · simp only [List.all_eq_true, decide_eq_true_eq]; exact hns
          · rfl
        · by_cases h0 : fs.length = 0
          · exact Or.inl h0
          · right
            rw [List.getElem?_append_right (Nat.le_refl _), Nat.sub_self]
            cases fs with
            | nil => exact absurd rfl h0
            | cons x r => simp [hall x (by simp), fillTok]
      have hgood : Good (P ++ fs) := ((sepsOK_append fs _ P).1 hs).2.1 hts hcond
      have hl : (P ++ fs).length % 39 = fs.length := by rw [List.length_append]; omega
      unfold Good at hgood
      rw [hl] at hgood
      have hbp : Spec.bpOf c = fs.length / 3 := by
        unfold Spec.bpOf; rw [hidx]; simp only; rw [if_pos hgood]
      rw [hbp]
      have h3 : 3 * (fs.length / 3) = fs.length := by omega
      refine ⟨by omega, ?_, ?_⟩
      · rw [h3, hsplit, List.map_append, List.take_left' (by simp)]
        intro b hb
        simp only [List.mem_map] at hb
        obtain ⟨x, hx, rfl⟩ := hb
        rw [hall x hx]; exact unham8_fill
      · rw [h3, hsplit, List.map_append, List.getElem?_append_right (by simp)]
        simp [htb, unham8_sep]


theorem bpOf_le (c : List Tok) : Spec.bpOf c ≤ 13 := by
  unfold Spec.bpOf
  split
  · split <;> omega
  · omega

theorem chunks_adm : ∀ (n : Nat) (P l : List Tok) (ph : Ph), P.length % 39 = 0 → l.length % 39 = 0 → l.length ≤ n →
    sepsOK P l → Suf ph l →
    Spec.AdmissibleAll ph ((Spec.chunks n l).map (fun c => (Spec.bpOf c, c.map (·.2)))) := by
  intro n
  induction n with
  | zero =>
    intro P l ph _ _ _ _ _
    simp [Spec.chunks, Spec.AdmissibleAll]
  | succ k ih =>
    intro P l ph hP hl hn hs hsuf
    unfold Spec.chunks
    by_cases he : l.isEmpty = true
    · rw [if_pos he]; simp [Spec.AdmissibleAll]
    · rw [if_neg he]
      have hne : l ≠ [] := fun h0 => he (by rw [h0]; rfl)
      have hpos : 0 < l.length := List.length_pos_iff.mpr hne
      have h39 : 39 ≤ l.length := by omega
      have hc : (l.take 39).length = 39 := by rw [List.length_take]; omega
      have hsplit : l = l.take 39 ++ l.drop 39 := (List.take_append_drop 39 l).symm
      simp only [List.map_cons, Spec.AdmissibleAll]
      rw [hsplit] at hs hsuf
      obtain ⟨ph', hsuf', hrun⟩ := suf_chunk (l.take 39) ph (l.drop 39) hsuf
      obtain ⟨acc', hr⟩ := hrun []
      refine ⟨?_, ?_⟩
      · cases ph with
        | idle => exact chunk_adm P (l.take 39) (l.drop 39) hP hc hsuf hs
        | hdr g => exact ⟨by rw [List.length_map, hc], bpOf_le _, fun h => by cases h⟩
        | data a m g => exact ⟨by rw [List.length_map, hc], bpOf_le _, fun h => by cases h⟩
      · rw [hr]
        exact ih (P ++ l.take 39) (l.drop 39) ph' (by rw [List.length_append, hc]; omega)
          (by rw [List.length_drop]; omega) (by rw [List.length_drop]; omega)
          ((sepsOK_append _ _ P).1 hs).2 hsuf'

/-- **the executable sender always yields usable block pointers** -/
theorem encode_admissible (lead : Nat) (items : List Spec.Item)
    (hok : ∀ it ∈ items, it.app < 32 ∧ it.data.length ≤ 2047) :
    Spec.AdmissibleAll .idle (Spec.encode lead items) := by
  unfold Spec.encode
  have hlen : (Spec.layout lead items).length % 39 = 0 := by
    have hlay : Spec.layout lead items =
        items.foldl stepL (Spec.fills lead) ++ Spec.fills ((39 - (items.foldl stepL (Spec.fills lead)).length % 39) % 39) := rfl
    rw [hlay, List.length_append]
    simp only [Spec.fills, List.length_replicate]
    omega
  exact chunks_adm _ [] (Spec.layout lead items) .idle rfl hlen (Nat.le_refl _) (sepsOK_layout lead items)
    (WT_layout lead items hok)


theorem delivered_eq (l : List (Spec.Blk × Nat)) :
    Spec.delivered l = (l.map Prod.fst).filterMap (fun b => if b.data = [] then none else some (b.app, b.data)) := by
  unfold Spec.delivered
  rw [List.filterMap_map]; rfl

/-- **the executable sender is always delivered**: `Spec.encode`'s rows, distributed over pages in any
    way, are delivered as exactly the non-empty blocks of its items -/
theorem encode_delivers (pgno stream : Nat) (hpg1 : 0x100 ≤ pgno) (hpg2 : pgno < 0x900) (hst : stream < 16)
    (lead : Nat) (items : List Spec.Item) (hok : ∀ it ∈ items, it.app < 32 ∧ it.data.length ≤ 2047)
    (ci : Nat) (hci : ci < 16) (pages : List Spec.Page) (hn : ∀ pg ∈ pages, pg.rows.length ≤ 25)
    (hrows : Spec.allRows pages = Spec.encode lead items) :
    ∃ s' bl, feedAll (new pgno stream) (Spec.pagesPkts pgno stream ci pages) = .ok (s', bl) ∧
      bl.map toSpec = Spec.delivered (Spec.itemBlocks items) := by
  obtain ⟨lead', gaps, hgl, hflat⟩ := encode_stream_flat lead items
  have hitems : ∀ it ∈ (items.map (fun it => (⟨it.app, it.data⟩ : Spec.Blk))).zip gaps, it.1.Ok := by
    intro it hit
    have := (List.of_mem_zip hit).1
    simp only [List.mem_map] at this
    obtain ⟨x, hx, he⟩ := this
    rw [← he]; exact hok x hx
  obtain ⟨s', bl, h1, h2⟩ := feed_delivers pgno stream hpg1 hpg2 hst _ hitems lead' ci hci pages hn
    (by rw [hrows]; exact hflat) (by rw [hrows]; exact encode_admissible lead items hok)
  refine ⟨s', bl, h1, ?_⟩
  rw [h2, delivered_eq, delivered_eq, List.map_fst_zip (by simp; omega)]
  simp [Spec.itemBlocks, List.map_map, Function.comp_def]

end Zvbi.Pfc
