import ZvbiModel.Pfc.Lemmas7
/-!
# Lemmas for the PFC demultiplexer (C15), part 8: the executable sender `Spec.encode`
(self-checking variant; its payloads are the flat stream of its blocks)
-/
namespace Zvbi.Pfc
open Zvbi.Hamm Zvbi.Gen
open Spec (Ph Res run shDecode)


theorem admissibleB1_sound (ph : Ph) (bp : Nat) (pl : List Nat) (h : Spec.admissibleB1 ph bp pl = true) :
    Spec.Admissible ph bp pl := by
  unfold Spec.admissibleB1 at h
  simp only [Bool.and_eq_true, decide_eq_true_eq] at h
  obtain ⟨⟨h1, h2⟩, h3⟩ := h
  refine ⟨h1, h2, ?_⟩
  intro hph
  subst hph
  simp only [Bool.or_eq_true, Bool.and_eq_true, decide_eq_true_eq, List.all_eq_true, beq_iff_eq] at h3
  rcases h3 with ⟨a, b⟩ | ⟨⟨a, b⟩, c⟩
  · exact Or.inl ⟨a, b⟩
  · exact Or.inr ⟨a, b, c⟩

theorem admissibleB_sound : ∀ (rows : List (Nat × List Nat)) (ph : Ph),
    Spec.admissibleB ph rows = true → Spec.AdmissibleAll ph rows := by
  intro rows
  induction rows with
  | nil => intro _ _; trivial
  | cons row t ih =>
    intro ph h
    obtain ⟨bp, pl⟩ := row
    simp only [Spec.admissibleB, Bool.and_eq_true] at h
    exact ⟨admissibleB1_sound ph bp pl h.1, ih _ h.2⟩

/-- `feed_delivers` with the grammar's verdict on the stream as a hypothesis -/
theorem feed_delivers_run (pgno stream : Nat) (hpg1 : 0x100 ≤ pgno) (hpg2 : pgno < 0x900) (hst : stream < 16)
    (D : List (Nat × List Nat))
    (ci : Nat) (hci : ci < 16) (pages : List Spec.Page) (hn : ∀ pg ∈ pages, pg.rows.length ≤ 25)
    (hrun : run .idle [] ((Spec.allRows pages).map (·.2)).flatten = ⟨.idle, D, true⟩)
    (hadm : Spec.AdmissibleAll .idle (Spec.allRows pages)) :
    ∃ s' bl, feedAll (new pgno stream) (Spec.pagesPkts pgno stream ci pages) = .ok (s', bl) ∧
      bl.map toSpec = D := by
  have hph : phase (new pgno stream) = .idle := phase_idle _ rfl
  have hready : ((new pgno stream).ci = ci ∧ ((new pgno stream).nPackets = 0 ∨ (new pgno stream).packet = (new pgno stream).nPackets + 1)) ∨
      ((new pgno stream).ci ≠ ci ∧ (new pgno stream).left = 0) := by
    right
    refine ⟨?_, rfl⟩
    show (256 : Nat) ≠ ci
    omega
  obtain ⟨s', bl, h1, _, _, h4⟩ := feed_pages pgno stream hpg1 hpg2 hst pages hn ci (new pgno stream) hci
    (by intro h; simp [new, reset] at h) (inv_new _ _) rfl rfl hready (by rw [hph]; exact hadm)
    (by rw [hph, hrun])
  rw [hph, hrun] at h4
  exact ⟨s', bl, h1, (congrArg Spec.Res.out h4).symm⟩

/-- **the self-checking sender is always right**: whatever `encodeChecked` lets through, however
    its rows are distributed over pages, is delivered as exactly the non-empty blocks -/
theorem encodeChecked_delivers (pgno stream : Nat) (hpg1 : 0x100 ≤ pgno) (hpg2 : pgno < 0x900) (hst : stream < 16)
    (lead : Nat) (items : List Spec.Item) (rows : List (Nat × List Nat))
    (henc : Spec.encodeChecked lead items = some rows)
    (ci : Nat) (hci : ci < 16) (pages : List Spec.Page) (hn : ∀ pg ∈ pages, pg.rows.length ≤ 25)
    (hrows : Spec.allRows pages = rows) :
    ∃ s' bl, feedAll (new pgno stream) (Spec.pagesPkts pgno stream ci pages) = .ok (s', bl) ∧
      bl.map toSpec = Spec.delivered (Spec.itemBlocks items) := by
  unfold Spec.encodeChecked at henc
  dsimp only at henc
  split at henc
  · rename_i hc
    cases henc
    simp only [Bool.and_eq_true, decide_eq_true_eq] at hc
    exact feed_delivers_run pgno stream hpg1 hpg2 hst _ ci hci pages hn (by rw [hrows]; exact hc.2)
      (by rw [hrows]; exact admissibleB_sound _ _ hc.1)
  · cases henc



theorem chunks_flatten : ∀ (n : Nat) (l : List (Spec.Role × Nat)), l.length ≤ n → (Spec.chunks n l).flatten = l := by
  intro n
  induction n with
  | zero => intro l h; have : l = [] := List.length_eq_zero_iff.mp (by omega); subst this; rfl
  | succ k ih =>
    intro l h
    unfold Spec.chunks
    by_cases he : l.isEmpty = true
    · rw [if_pos he]; have : l = [] := List.isEmpty_iff.mp he; subst this; rfl
    · rw [if_neg he, List.flatten_cons, ih _ (by
        have : l ≠ [] := fun h0 => he (by rw [h0]; rfl)
        have : 0 < l.length := List.length_pos_iff.mpr this
        rw [List.length_drop]; omega), List.take_append_drop]

/-- the payloads of `encode`, concatenated, are the bytes of the laid out token stream -/
theorem encode_flatten (lead : Nat) (items : List Spec.Item) :
    ((Spec.encode lead items).map (·.2)).flatten = (Spec.layout lead items).map (·.2) := by
  unfold Spec.encode
  simp only [List.map_map]
  have : ((fun x : Nat × List Nat => x.2) ∘ fun c : List (Spec.Role × Nat) => (Spec.bpOf c, c.map (·.2))) =
      fun c => c.map (·.2) := rfl
  rw [this, ← List.map_flatten, chunks_flatten _ _ (Nat.le_refl _)]

def stepL (out : List (Spec.Role × Nat)) (it : Spec.Item) : List (Spec.Role × Nat) :=
  out ++ Spec.fills (Spec.alignPad out) ++ Spec.blockToks it ++ Spec.fills it.gap

/-- the fold of `layout` only appends, per item, some fillers, the block and its gap -/
theorem fold_shape : ∀ (items : List Spec.Item) (out : List (Spec.Role × Nat)),
    ∃ pads : List Nat, pads.length = items.length ∧
      items.foldl stepL out = out ++ (items.zip pads).flatMap
        (fun ip => Spec.fills ip.2 ++ Spec.blockToks ip.1 ++ Spec.fills ip.1.gap) := by
  intro items
  induction items with
  | nil => intro out; exact ⟨[], rfl, by simp⟩
  | cons it t ih =>
    intro out
    obtain ⟨pads, hl, he⟩ := ih (stepL out it)
    refine ⟨Spec.alignPad out :: pads, by simp [hl], ?_⟩
    rw [List.foldl_cons, he]
    simp [stepL, List.append_assoc]

theorem fills_bytes (n : Nat) : (Spec.fills n).map (·.2) = List.replicate n Spec.fillByte := by
  simp [Spec.fills]

theorem blockToks_bytes (it : Spec.Item) :
    (Spec.blockToks it).map (·.2) = Spec.blockBytes ⟨it.app, it.data⟩ := by
  simp [Spec.blockToks, Spec.blockBytes, List.map_map, Function.comp_def]

theorem flat_cons (lead : Nat) (b : Spec.Blk) (g : Nat) (z : List (Spec.Blk × Nat)) :
    Spec.flat lead ((b, g) :: z) = List.replicate lead Spec.fillByte ++ (Spec.blockBytes b ++ Spec.flat g z) := by
  simp [Spec.flat, List.append_assoc]

theorem rep_add (a b x : Nat) : List.replicate (a + b) x = List.replicate a x ++ List.replicate b x := by
  induction a with
  | zero => simp
  | succ n ih => rw [Nat.succ_add, List.replicate_succ, List.replicate_succ, ih, List.cons_append]

/-- fillers before each block can be read as part of the previous gap -/
theorem conv_flat : ∀ (l : List (Spec.Item × Nat)) (k fin : Nat),
    ∃ lead' gaps, gaps.length = l.length ∧
      List.replicate k Spec.fillByte ++
        (l.flatMap (fun ip => List.replicate ip.2 Spec.fillByte ++ Spec.blockBytes ⟨ip.1.app, ip.1.data⟩ ++
          List.replicate ip.1.gap Spec.fillByte) ++ List.replicate fin Spec.fillByte) =
      Spec.flat lead' ((l.map (fun ip => (⟨ip.1.app, ip.1.data⟩ : Spec.Blk))).zip gaps) := by
  intro l
  induction l with
  | nil =>
    intro k fin
    refine ⟨k + fin, [], rfl, ?_⟩
    simp [Spec.flat]
  | cons ip t ih =>
    intro k fin
    obtain ⟨lead'', gaps, hl, he⟩ := ih ip.1.gap fin
    refine ⟨k + ip.2, lead'' :: gaps, by simp [hl], ?_⟩
    simp only [List.map_cons, List.zip_cons_cons, flat_cons, ← he, List.flatMap_cons, rep_add,
      List.append_assoc]


/-- **the stream half of sender correctness**: whatever fillers `encode` adds for alignment, its
    payloads, concatenated, are the flat stream of exactly its blocks (with enlarged gaps) -/
theorem encode_stream_flat (lead : Nat) (items : List Spec.Item) :
    ∃ lead' gaps, gaps.length = items.length ∧
      ((Spec.encode lead items).map (·.2)).flatten =
        Spec.flat lead' ((items.map (fun it => (⟨it.app, it.data⟩ : Spec.Blk))).zip gaps) := by
  rw [encode_flatten]
  obtain ⟨pads, hpl, hfold⟩ := fold_shape items (Spec.fills lead)
  have hlay : Spec.layout lead items =
      items.foldl stepL (Spec.fills lead) ++ Spec.fills ((39 - (items.foldl stepL (Spec.fills lead)).length % 39) % 39) := rfl
  rw [hlay, hfold]
  obtain ⟨lead', gaps, hgl, hconv⟩ := conv_flat (items.zip pads) lead
    ((39 - (Spec.fills lead ++ (items.zip pads).flatMap
        (fun ip => Spec.fills ip.2 ++ Spec.blockToks ip.1 ++ Spec.fills ip.1.gap)).length % 39) % 39)
  have hmapfst : (items.zip pads).map (fun ip => (⟨ip.1.app, ip.1.data⟩ : Spec.Blk)) =
      items.map (fun it => (⟨it.app, it.data⟩ : Spec.Blk)) := by
    have : (items.zip pads).map Prod.fst = items := List.map_fst_zip (by omega)
    conv => rhs; rw [← this]
    rw [List.map_map]; rfl
  refine ⟨lead', gaps, ?_, ?_⟩
  · rw [hgl, List.length_zip, hpl]; simp
  · rw [← hmapfst, ← hconv]
    simp only [List.map_append, fills_bytes, List.map_flatMap, blockToks_bytes, List.append_assoc]


end Zvbi.Pfc
