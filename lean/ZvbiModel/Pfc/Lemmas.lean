import ZvbiModel.Hamm.Lemmas
import ZvbiModel.Pfc.Model
import ZvbiModel.Pfc.Spec
/-!
# Lemmas for the PFC demultiplexer (C15), part 1: the buffer index invariant

`Inv s`: `bi + left <= 2047`.  It holds initially, every `feed` of a 42 byte packet preserves it,
and under it no step reads outside the packet, writes outside `block[2048]`, or runs out of fuel.
-/
namespace Zvbi.Pfc
open Zvbi.Hamm Zvbi.Gen

def Inv (s : St) : Prop := s.blk.length + s.left ≤ 2047

theorem unham8_lt16 (c v : Nat) (h : unham8 c = some v) : v < 16 := by
  have h' : unham8 (c % 256) = some v := by
    unfold unham8 at h ⊢
    rwa [Nat.mod_mod]
  exact unham8_range (c % 256) (Nat.mod_lt _ (by decide)) v h'

theorem nib_pair_lt : ∀ a < 16, ∀ b < 16, a ||| (b <<< 4) < 256 := by decide

theorem unham16pI_le (p0 p1 : Nat) : unham16pI p0 p1 ≤ 255 := by
  unfold unham16pI
  cases h0 : unham8 p0 with
  | none => simp
  | some a =>
    cases h1 : unham8 p1 with
    | none => simp; have := unham8_lt16 _ _ h0; omega
    | some b =>
      simp only
      have := nib_pair_lt a (unham8_lt16 _ _ h0) b (unham8_lt16 _ _ h1)
      omega

theorem pair16_le (lo hi : Int) (hlo : lo ≤ 255) (hhi : hi ≤ 255) (sh : Nat)
    (h : pair16 lo hi = some sh) : sh ≤ 65535 := by
  unfold pair16 at h
  split at h
  · cases h
  · split at h
    · cases h
    · cases h; omega

theorem inv_reset (s : St) : Inv (reset s) := by simp [Inv, reset]

theorem inv_new (pgno stream : Nat) : Inv (new pgno stream) := inv_reset _



/-- what `consume` can return at a position inside the packet, under the invariant -/
def ConsumedOk (col : Nat) (_s : St) : Consumed → Prop
  | .ret o => Inv o.st
  | .cont s' col' => Inv s' ∧ col < col' ∧ col' ≤ 42
  | .fall s' col' _ => Inv s' ∧ col ≤ col' ∧ col' ≤ 42 ∧ s'.left = 0

theorem consume_ok (buf : List Nat) (s : St) (col : Nat) (acc : List Block)
    (hbuf : buf.length = 42) (hinv : Inv s) (hcol : col < 42) :
    ∃ c, consume buf s col acc = .ok c ∧ ConsumedOk col s c := by
  unfold consume
  by_cases hl : s.left > 0
  · simp only [hl, if_true]
    have hsz : min s.left (42 - col) ≤ s.left := Nat.min_le_left _ _
    have hsz2 : min s.left (42 - col) ≤ 42 - col := Nat.min_le_right _ _
    have hsz3 : 0 < min s.left (42 - col) := by omega
    have h1 : ¬ (s.blk.length + min s.left (42 - col) > pfcBlockExtent) := by
      unfold Inv at hinv; simp only [pfcBlockExtent]; omega
    have h2 : ¬ (col + min s.left (42 - col) > buf.length) := by omega
    simp only [h1, h2, if_false]
    by_cases hl2 : s.left - min s.left (42 - col) > 0
    · simp only [hl2, if_true]
      refine ⟨_, rfl, ?_⟩
      simp only [ConsumedOk, Inv, List.length_append, List.length_take, List.length_drop]
      unfold Inv at hinv; omega
    · simp only [hl2, if_false]
      cases happ : s.appId with
      | none =>
        simp only
        cases hp : pair16 _ _ with
        | none => exact ⟨_, rfl, inv_reset _⟩
        | some sh =>
          refine ⟨_, rfl, ?_⟩
          have hsh := pair16_le _ _ (unham16pI_le _ _) (unham16pI_le _ _) sh hp
          simp only [ConsumedOk, Inv, List.length_nil]
          have : sh >>> 5 ≤ 2047 := by rw [Nat.shiftRight_eq_div_pow]; omega
          omega
      | some app =>
        refine ⟨_, rfl, ?_⟩
        simp only [ConsumedOk, Inv, List.length_append, List.length_take, List.length_drop]
        unfold Inv at hinv; omega
  · simp only [hl, if_false]
    refine ⟨_, rfl, ?_⟩
    simp only [ConsumedOk]
    exact ⟨hinv, Nat.le_refl _, by omega, by omega⟩


theorem rdE_ok (buf : List Nat) (j : Nat) (site : String) (h : j < buf.length) :
    rdE buf j site = .ok buf[j] := by
  unfold rdE
  rw [List.getElem?_eq_getElem h]

/-- result shape of the separator search from `col`: either "return TRUE" or a column further right -/
def SepOk (col : Nat) : Option (Option Nat × Nat) → Prop
  | none => True
  | some (_, c) => col < c ∧ c ≤ 42

theorem skipFill_ok (buf : List Nat) (hbuf : buf.length = 42) :
    ∀ fuel col, col < 42 → 42 - col ≤ fuel → ∃ r, skipFill buf fuel col = .ok r ∧ SepOk col r := by
  intro fuel
  induction fuel with
  | zero => intro col h1 h2; omega
  | succ f ih =>
    intro col h1 h2
    unfold skipFill
    rw [rdE_ok buf col _ (by omega)]
    simp only
    by_cases hf : unham8 buf[col] = some pfcFillerByte
    · simp only [hf, if_true]
      by_cases h42 : col + 1 ≥ 42
      · simp only [h42, if_true]; exact ⟨none, rfl, trivial⟩
      · simp only [h42, if_false]
        obtain ⟨r, hr, hok⟩ := ih (col + 1) (by omega) (by omega)
        refine ⟨r, hr, ?_⟩
        cases r with
        | none => trivial
        | some x => obtain ⟨bs, c⟩ := x; simp only [SepOk] at hok ⊢; omega
    · simp only [hf, if_false]
      exact ⟨_, rfl, by simp only [SepOk]; omega⟩

theorem findSep_ok (buf : List Nat) (hbuf : buf.length = 42) (bp col : Nat) (hcol : col ≤ 42) :
    ∃ r, findSep buf bp col = .ok r ∧ SepOk col r := by
  unfold findSep
  by_cases h3 : col ≤ 3
  · simp only [h3, if_true]
    by_cases hbp : bp ≥ 39
    · simp only [hbp, if_true]; exact ⟨none, rfl, trivial⟩
    · simp only [hbp, if_false]
      rw [rdE_ok buf (bp + 4 - 1) _ (by omega)]
      exact ⟨_, rfl, by simp only [SepOk]; omega⟩
  · simp only [h3, if_false]
    by_cases h42 : col ≥ 42
    · simp only [h42, if_true]; exact ⟨none, rfl, trivial⟩
    · simp only [h42, if_false]
      exact skipFill_ok buf hbuf 42 col (by omega) (by omega)

/-- the decode loop neither fails nor breaks the invariant, given enough fuel for the remaining columns -/
theorem loop_ok (buf : List Nat) (hbuf : buf.length = 42) (bp : Nat) :
    ∀ fuel s col acc, Inv s → col ≤ 42 → 42 - col < fuel →
      ∃ o, loop buf bp fuel s col acc = .ok o ∧ Inv o.st := by
  intro fuel
  induction fuel with
  | zero => intro s col acc _ _ h; omega
  | succ f ih =>
    intro s col acc hinv hcol hfuel
    unfold loop
    by_cases h42 : col ≥ 42
    · simp only [h42, if_true]; exact ⟨_, rfl, hinv⟩
    · simp only [h42, if_false]
      obtain ⟨c, hc, hcok⟩ := consume_ok buf s col acc hbuf hinv (by omega)
      rw [hc]
      cases c with
      | ret o => exact ⟨o, rfl, hcok⟩
      | cont s' col' =>
        obtain ⟨hi, h1, h2⟩ := hcok
        exact ih s' col' acc hi h2 (by omega)
      | fall s' col' acc' =>
        obtain ⟨hi, h1, h2, _⟩ := hcok
        simp only
        obtain ⟨r, hr, hrok⟩ := findSep_ok buf hbuf bp col' h2
        rw [hr]
        cases r with
        | none => exact ⟨_, rfl, hi⟩
        | some x =>
          obtain ⟨bs, c⟩ := x
          simp only [SepOk] at hrok
          dsimp only
          by_cases hsep : bs ≠ some pfcBlockSeparator
          · rw [if_pos hsep]; exact ⟨_, rfl, inv_reset _⟩
          · rw [if_neg hsep]
            exact ih _ c acc' (by simp [Inv]) hrok.2 (by omega)

theorem decode_ok (buf : List Nat) (hbuf : buf.length = 42) (s : St) (hinv : Inv s) :
    ∃ o, decode s buf = .ok o ∧ Inv o.st := by
  unfold decode
  rw [rdE_ok buf 2 _ (by omega)]
  dsimp only
  cases unham8 buf[2] with
  | none => exact ⟨_, rfl, inv_reset _⟩
  | some n =>
    dsimp only
    by_cases hbp : n * 3 > 39
    · simp only [hbp, if_true]; exact ⟨_, rfl, inv_reset _⟩
    · simp only [hbp, if_false]
      exact loop_ok buf hbuf _ 42 s 3 [] hinv (by omega) (by omega)

theorem inv_pageEnd (s : St) (h : Inv s) : Inv (pageEnd s) := by
  unfold pageEnd; split
  · exact inv_reset _
  · exact h

theorem inv_congr (s s' : St) (h1 : s'.blk = s.blk) (h2 : s'.left = s.left) (h : Inv s) : Inv s' := by
  unfold Inv at *; rw [h1, h2]; exact h

/-- **one packet**: `vbi_pfc_demux_feed` on any 42 bytes neither reads outside the packet, nor
    writes outside `block[2048]`, nor loops forever, and keeps `bi + left <= 2047` -/
theorem feed_ok (buf : List Nat) (hbuf : buf.length = 42) (s : St) (hinv : Inv s) :
    ∃ o, feed s buf = .ok o ∧ Inv o.st := by
  unfold feed
  have h8 : ¬ buf.length < 8 := by omega
  simp only [h8, if_false]
  repeat' split
  all_goals first
    | exact ⟨_, rfl, inv_reset _⟩
    | exact ⟨_, rfl, hinv⟩
    | exact ⟨_, rfl, inv_congr _ (pageEnd s) rfl rfl (inv_pageEnd s hinv)⟩
    | exact ⟨_, rfl, inv_congr _ (reset s) rfl rfl (inv_reset s)⟩
    | exact decode_ok buf hbuf _ (inv_congr _ s rfl rfl hinv)


/-- what can be done to a demultiplexer -/
inductive Op
  | feed (buf : List Nat)
  | reset

/-- run a history; callbacks are collected in order -/
def runOps (s : St) : List Op → Except Err (St × List Block)
  | [] => .ok (s, [])
  | .reset :: r => runOps (reset s) r
  | .feed b :: r =>
    match feed s b with
    | .error e => .error e
    | .ok o =>
      match runOps o.st r with
      | .error e => .error e
      | .ok (s', bl) => .ok (s', o.blocks ++ bl)

theorem runOps_ok (ops : List Op) (hops : ∀ b, Op.feed b ∈ ops → b.length = 42) :
    ∀ s, Inv s → ∃ r, runOps s ops = .ok r ∧ Inv r.1 := by
  induction ops with
  | nil => intro s h; exact ⟨_, rfl, h⟩
  | cons op r ih =>
    intro s hinv
    have hr : ∀ b, Op.feed b ∈ r → b.length = 42 := fun b hb => hops b (by simp [hb])
    cases op with
    | reset => exact ih hr _ (inv_reset s)
    | feed b =>
      obtain ⟨o, ho, hio⟩ := feed_ok b (hops b (by simp)) s hinv
      obtain ⟨r', hr', hir⟩ := ih hr o.st hio
      refine ⟨(r'.1, o.blocks ++ r'.2), ?_, hir⟩
      simp only [runOps, ho, hr']

end Zvbi.Pfc
