import ZvbiModel.Ttx.X26Fresh
/-!
# The CONTENT of the enhancement array over a page transmission

`Lemmas4.x26Triplets_frame` / `Lemmas5.process26_enh` say where packet 26 may write (the frame).  This
file says WHAT stands there: `x26Triplets` appends the decoded triplets of the packet up to its first
uncorrectable one (`x26Payload`), and over a sequence of rows and X/26 packets of one magazine the
enhancement array of the page under assembly is

    (payloads of the accepted X/26 packets since the header, in order) ++ (rest of the array the header left)

where "accepted" is decided by the little machine `x26Spec` on (triplets so far, fill level): designation
`d` is accepted iff the fill level is exactly `13 d` (< 208).
-/
namespace Zvbi.Ttx
open Zvbi.Hamm Zvbi.Gen Zvbi.Ttx.Spec

/-- `triplet.address = t & 0x3F; .mode = (t >> 6) & 0x1F; .data = t >> 11` (18 data bits) -/
def tripOf (t : Nat) : Triplet := ⟨t &&& 0x3F, (t >>> 6) &&& 0x1F, (t >>> 11) &&& 0xFF⟩

/-- decoded triplets up to the first uncorrectable one (the `break` of the packet 26 loop) -/
def goodPrefix : List (Option Nat) → List Triplet
  | some t :: r => tripOf t :: goodPrefix r
  | _ => []

/-- what one X/26 packet contributes: its 13 Hamming 24/18 triplets, cut at the first uncorrectable one -/
def x26Payload (v : View) : List Triplet := goodPrefix ((List.range 13).map v.g24)

/-- SPEC of the X/26 bookkeeping of one page transmission on (triplets so far, `num_triplets`):
    designation uncorrectable: nothing; fill level not `13 d` (or array full): the packet is dropped and the
    level becomes -1 (so every later X/26 packet is dropped too); else the payload is appended. -/
def x26Spec (acc : List Triplet × Int) (v : View) : List Triplet × Int :=
  match v.g8 0 with
  | none => acc
  | some d =>
    if acc.2 ≥ 16 * 13 || acc.2 != ((d * 13 : Nat) : Int) then (acc.1, -1)
    else (acc.1 ++ x26Payload v, ((d * 13 + (x26Payload v).length : Nat) : Int))

/-- the functions for which packet 26 is X/26 enhancement data of the page (the `default:` of the switch) -/
def x26Class (fn : Int) : Bool :=
  !(fn == FN_DISCARD || fn == FN_GPOP || fn == FN_POP || fn == FN_GDRCS || fn == FN_DRCS || fn == FN_BTT
    || fn == FN_AIT || fn == FN_MPT || fn == FN_MPT_EX)

theorem goodPrefix_length_le (l : List (Option Nat)) : (goodPrefix l).length ≤ l.length := by
  induction l with
  | nil => simp [goodPrefix]
  | cons a l ih => cases a <;> simp [goodPrefix]; omega

theorem x26Payload_length_le (v : View) : (x26Payload v).length ≤ 13 := by
  have := goodPrefix_length_le ((List.range 13).map v.g24)
  simpa [x26Payload] using this

theorem goodPrefix_address (l : List (Option Nat)) : ∀ t ∈ goodPrefix l, t.address ≤ 63 := by
  induction l with
  | nil => intro t h; simp [goodPrefix] at h
  | cons a l ih =>
    cases a with
    | none => intro t h; simp [goodPrefix] at h
    | some x =>
      intro t h
      simp only [goodPrefix, List.mem_cons] at h
      rcases h with rfl | h
      · show x &&& 0x3F ≤ 63
        exact Nat.and_le_right
      · exact ih t h

theorem x26Payload_address (v : View) : ∀ t ∈ x26Payload v, t.address ≤ 63 := goodPrefix_address _

/-- all thirteen triplets correctable: the payload is all thirteen -/
theorem goodPrefix_all (l : List (Option Nat)) (h : ∀ o ∈ l, o.isSome = true) : (goodPrefix l).length = l.length := by
  induction l with
  | nil => rfl
  | cons a l ih =>
    cases a with
    | none => have := h none (List.mem_cons_self); simp at this
    | some x => simp only [goodPrefix, List.length_cons]; rw [ih (fun o ho => h o (List.mem_cons_of_mem _ ho))]

theorem x26Fold_brk (v : View) (is : List Nat) (enh : List Triplet) (nt : Nat) (ev : List Aux) :
    is.foldl (x26Step v) (enh, nt, ev, true) = (enh, nt, ev, true) := by
  induction is with
  | nil => rfl
  | cons i is ih => simp only [List.foldl_cons]; rw [show x26Step v (enh, nt, ev, true) i = (enh, nt, ev, true) from rfl]; exact ih

theorem set_append_head (ts : List Triplet) (x y : Triplet) (rest : List Triplet) :
    (ts ++ y :: rest).set ts.length x = (ts ++ [x]) ++ rest := by
  rw [List.set_append]
  simp

/-- CONTENT of the triplet loop: starting at fill level `|ts|` in an array `ts ++ rest` with room for the
    indices, the loop overwrites the head of `rest` by the good prefix and raises the fill level by its
    length; no fault mark. -/
theorem x26Fold_content (v : View) (is : List Nat) (ts rest : List Triplet) (ev : List Aux)
    (hn : is.length ≤ rest.length) (hsz : ts.length + rest.length ≤ ENH_SIZE) :
    ∃ b, is.foldl (x26Step v) (ts ++ rest, ts.length, ev, false)
      = (ts ++ goodPrefix (is.map v.g24) ++ rest.drop (goodPrefix (is.map v.g24)).length,
         ts.length + (goodPrefix (is.map v.g24)).length, ev, b) := by
  induction is generalizing ts rest with
  | nil => exact ⟨false, by simp [goodPrefix]⟩
  | cons i is ih =>
    simp only [List.foldl_cons, List.map_cons]
    cases hg : v.g24 i with
    | none =>
      have : x26Step v (ts ++ rest, ts.length, ev, false) i = (ts ++ rest, ts.length, ev, true) := by
        simp [x26Step, hg]
      rw [this, x26Fold_brk]
      exact ⟨true, by simp [goodPrefix]⟩
    | some t =>
      cases rest with
      | nil => simp at hn
      | cons y rest =>
        have hlt : ts.length < ENH_SIZE := by simp only [List.length_cons] at hsz; omega
        have : x26Step v (ts ++ y :: rest, ts.length, ev, false) i
            = ((ts ++ [tripOf t]) ++ rest, (ts ++ [tripOf t]).length, ev, false) := by
          simp only [x26Step, hg, Bool.false_eq_true, if_false, hlt, if_true]
          rw [set_append_head]
          simp [tripOf]
        rw [this]
        obtain ⟨b, hb⟩ := ih (ts ++ [tripOf t]) rest (by simp only [List.length_cons] at hn; omega)
          (by simp only [List.length_cons, List.length_append, List.length_nil] at hsz ⊢; omega)
        refine ⟨b, ?_⟩
        rw [hb]
        simp [goodPrefix, List.append_assoc, Nat.add_assoc, Nat.add_comm 1]

/-- CONTENT of `x26Triplets` (what `x26Triplets_frame` leaves open) -/
theorem x26Triplets_content (v : View) (ts rest : List Triplet)
    (hn : 13 ≤ rest.length) (hsz : ts.length + rest.length ≤ ENH_SIZE) :
    x26Triplets v (ts ++ rest) ts.length
      = (ts ++ x26Payload v ++ rest.drop (x26Payload v).length, ts.length + (x26Payload v).length, []) := by
  unfold x26Triplets x26Payload
  obtain ⟨b, hb⟩ := x26Fold_content v (List.range 13) ts rest [] (by simpa using hn) hsz
  simp only [hb]

/-! ## packet 26 on a slot whose array is `ts ++ enh0.drop |ts|` -/

/-- the X/26 bookkeeping of slot `rp` in terms of the spec state `(ts, nt)` and the array `enh0` the header left -/
structure X26Inv (rp : RawPage) (enh0 : List Triplet) (acc : List Triplet × Int) : Prop where
  enh : rp.page.enh = acc.1 ++ enh0.drop acc.1.length
  nt : rp.numTriplets = acc.2
  sync : acc.2 = (acc.1.length : Int) ∨ acc.2 = -1
  len : acc.1.length ≤ 208
  addr : ∀ t ∈ acc.1, t.address ≤ 63
  mask : rp.page.x26 = 0 → acc.1 = []

theorem x26Spec_stuck (ts : List Triplet) (v : View) : x26Spec (ts, -1) v = (ts, -1) := by
  unfold x26Spec
  cases v.g8 0 with
  | none => rfl
  | some d =>
    have hc : (((-1 : Int)) ≥ 16 * 13 || (-1 : Int) != ((d * 13 : Nat) : Int)) = true := by
      simp only [Bool.or_eq_true, decide_eq_true_eq, bne_iff_ne, ne_eq]; right; omega
    dsimp only
    rw [if_pos hc]

theorem or_shift_ne_zero (a d : Nat) : a ||| (1 <<< d) ≠ 0 := by
  intro h
  have h2 : (a ||| 1 <<< d).testBit d = false := by rw [h]; simp
  rw [Nat.testBit_or] at h2
  have : (1 <<< d).testBit d = true := by
    rw [Nat.one_shiftLeft, Nat.testBit_two_pow_self]
  simp [this] at h2

/-- packet 26 realises one step of `x26Spec`; everything else about the decoder state is untouched -/
theorem process26_content (s : St) (mag0 : Nat) (v : View) (hm : mag0 < s.raw.length)
    (enh0 : List Triplet) (h0 : enh0.length = ENH_SIZE) (acc : List Triplet × Int)
    (hfn : x26Class (s.rp mag0).page.function = true) (hinv : X26Inv (s.rp mag0) enh0 acc) :
    X26Inv ((process26 s mag0 v).st.rp mag0) enh0 (x26Spec acc v) ∧
    ((process26 s mag0 v).st.rp mag0).page.function = (s.rp mag0).page.function ∧
    ((process26 s mag0 v).st.rp mag0).page.pgno = (s.rp mag0).page.pgno ∧
    ((process26 s mag0 v).st.rp mag0).page.subno = (s.rp mag0).page.subno ∧
    ((process26 s mag0 v).st.rp mag0).page.raw = (s.rp mag0).page.raw ∧
    ((process26 s mag0 v).st.rp mag0).lopRaw = (s.rp mag0).lopRaw ∧
    ((process26 s mag0 v).st.rp mag0).lopPackets = (s.rp mag0).lopPackets ∧
    (process26 s mag0 v).ev = [] ∧ (process26 s mag0 v).st.net = s.net ∧
    (process26 s mag0 v).st.mask = s.mask ∧ (process26 s mag0 v).st.raw.length = s.raw.length := by
  obtain ⟨ts, nt⟩ := acc
  have hc : ∀ f, ((s.rp mag0).page.function == f) = true → x26Class (s.rp mag0).page.function = true →
      (f == FN_DISCARD || f == FN_GPOP || f == FN_POP || f == FN_GDRCS || f == FN_DRCS || f == FN_BTT
        || f == FN_AIT || f == FN_MPT || f == FN_MPT_EX) = false := by
    intro f hf hcl
    have : (s.rp mag0).page.function = f := by simpa using hf
    rw [this] at hcl
    unfold x26Class at hcl
    simpa using hcl
  unfold x26Class at hfn
  simp only [Bool.not_eq_true', Bool.or_eq_false_iff] at hfn
  obtain ⟨⟨⟨⟨⟨⟨⟨⟨f1, f2⟩, f3⟩, f4⟩, f5⟩, f6⟩, f7⟩, f8⟩, f9⟩ := hfn
  unfold process26
  simp only [f1, f2, f3, f4, f5, f6, f7, f8, f9, Bool.or_self, Bool.false_eq_true, if_false]
  unfold x26Spec
  cases hd : v.g8 0 with
  | none => refine ⟨hinv, ?_⟩; repeat' constructor
  | some d =>
    simp only []
    rw [hinv.nt]
    by_cases hcond : (nt ≥ 16 * 13 || nt != ((d * 13 : Nat) : Int)) = true
    · simp only [hcond, if_true]
      rw [rp_setRp_same s mag0 _ hm]
      refine ⟨⟨hinv.enh, rfl, Or.inr rfl, hinv.len, hinv.addr, hinv.mask⟩, ?_⟩
      repeat' constructor
      all_goals exact setRp_length s mag0 _
    · simp only [hcond, Bool.false_eq_true, if_false]
      simp only [Bool.or_eq_true, decide_eq_true_eq, bne_iff_ne, ne_eq, not_or, Decidable.not_not, Int.not_le] at hcond
      obtain ⟨hlt, heq⟩ := hcond
      have hsync : nt = (ts.length : Int) := by
        rcases hinv.sync with h | h
        · exact h
        · simp only at h; omega
      have hlen : d * 13 = ts.length := by omega
      have hroom : ts.length < 208 := by omega
      have henh := hinv.enh
      simp only at henh
      have hdl : (enh0.drop ts.length).length = ENH_SIZE - ts.length := by rw [List.length_drop, h0]
      have hE : ENH_SIZE = 209 := rfl
      have hcont := x26Triplets_content v ts (enh0.drop ts.length) (by rw [hdl, hE]; omega) (by rw [hdl, hE]; omega)
      rw [henh, hlen, hcont]
      simp only []
      rw [rp_setRp_same s mag0 _ hm]
      refine ⟨⟨?_, ?_, Or.inl ?_, ?_, ?_, ?_⟩, ?_⟩
      rotate_right
      · repeat' constructor
        all_goals exact setRp_length s mag0 _
      · simp only [List.drop_drop, List.length_append]
        try (first | rfl | rw [Nat.add_comm (x26Payload v).length])
      · dsimp only
      · dsimp only; rw [List.length_append]
      · have := x26Payload_length_le v
        simp only [List.length_append]; omega
      · intro t ht
        rcases List.mem_append.mp ht with h | h
        · exact hinv.addr t h
        · exact x26Payload_address v t h
      · intro hx
        exact absurd hx (or_shift_ne_zero _ _)

/-! ## the whole body of a page transmission: rows 1..25 and X/26 packets of one magazine -/

/-- the X/26 packets among `ps` as the decoder reads them (packet number 26, thirteen triplets) -/
def x26Views (ps : List Packet) : List View :=
  ps.filterMap fun p =>
    match a16 p 0 with
    | some pmag => if pmag >>> 3 == 26 then some (view Kind.trip p) else none
    | none => none

/-- `p` is lost (address uncorrectable) or a Level 1 row / X/26 packet of magazine `mag0` -/
def BodyPkt (mag0 : Nat) (p : Packet) : Prop :=
  a16 p 0 = none ∨ ∃ pmag, a16 p 0 = some pmag ∧ pmag &&& 7 = mag0 ∧ 1 ≤ pmag >>> 3 ∧ pmag >>> 3 ≤ 26

/-- what a page transmission keeps invariant in the assembly slot of its magazine -/
structure TxInv (s : St) (mag0 : Nat) (enh0 : List Triplet) (acc : List Triplet × Int) : Prop where
  mask : s.mask = true
  lt : mag0 < s.raw.length
  fn : (s.rp mag0).page.function = FN_LOP
  x26 : X26Inv (s.rp mag0) enh0 acc

theorem decode_body (s : St) (mag0 : Nat) (p : Packet) (enh0 : List Triplet) (h0 : enh0.length = ENH_SIZE)
    (acc : List Triplet × Int) (hinv : TxInv s mag0 enh0 acc) (hp : BodyPkt mag0 p) :
    TxInv (decodeTeletext s p).st mag0 enh0 ((x26Views [p]).foldl x26Spec acc) ∧
    ((decodeTeletext s p).st.rp mag0).page.pgno = (s.rp mag0).page.pgno ∧
    ((decodeTeletext s p).st.rp mag0).page.subno = (s.rp mag0).page.subno ∧
    (decodeTeletext s p).st.net = s.net ∧ (decodeTeletext s p).ev = [] := by
  rcases hp with hp | ⟨pmag, ha, hmag, h1, h26⟩
  · have : decodeTeletext s p = ⟨s, [], false⟩ := by simp [decodeTeletext, hp]
    rw [this]
    simp only [x26Views, List.filterMap_cons, List.filterMap_nil, hp, List.foldl_nil]
    refine ⟨hinv, ?_⟩
    repeat' constructor
  · have hne0 : (pmag >>> 3 == 0) = false := by simp only [beq_eq_false_iff_ne, ne_eq]; omega
    have hmask : (decide (pmag >>> 3 < 30) && !s.mask) = false := by simp [hinv.mask]
    have hfnb : ∀ f : Int, f ≠ FN_LOP → ((s.rp mag0).page.function == f) = false := by
      intro f hf; rw [hinv.fn]; simp only [beq_eq_false_iff_ne, ne_eq]; exact fun h => hf h.symm
    by_cases h25 : pmag >>> 3 ≤ 25
    · -- a Level 1 row: only `lop_raw` and `lop_packets` of the slot change
      have hne26 : (pmag >>> 3 == 26) = false := by simp only [beq_eq_false_iff_ne, ne_eq]; omega
      have hd : decodeTeletext s p =
          ⟨s.setRp mag0 { s.rp mag0 with
              lopRaw := (s.rp mag0).lopRaw.set (pmag >>> 3) (view (kindOf s pmag (a8 p 2)) p).raw,
              lopPackets := (s.rp mag0).lopPackets ||| (1 <<< (pmag >>> 3)) }, [], true⟩ := by
        simp only [decodeTeletext, ha, process, hmag, hmask, hne0, h25, Bool.false_eq_true, if_false, if_true,
          finish]
        unfold processRow
        simp only [hinv.fn]
        rfl
      rw [hd]
      simp only [x26Views, List.filterMap_cons, List.filterMap_nil, ha, hne26, Bool.false_eq_true, if_false, List.foldl_nil]
      simp only [rp_setRp_same s mag0 _ hinv.lt]
      refine ⟨⟨hinv.mask, by rw [setRp_length]; exact hinv.lt, ?_, ?_⟩, ?_⟩
      rotate_right
      · repeat' constructor
      · first | exact hinv.fn | (rw [rp_setRp_same s mag0 _ hinv.lt]; exact hinv.fn)
      · first
          | exact ⟨hinv.x26.enh, hinv.x26.nt, hinv.x26.sync, hinv.x26.len, hinv.x26.addr, hinv.x26.mask⟩
          | (rw [rp_setRp_same s mag0 _ hinv.lt]
             exact ⟨hinv.x26.enh, hinv.x26.nt, hinv.x26.sync, hinv.x26.len, hinv.x26.addr, hinv.x26.mask⟩)
    · have he26 : pmag >>> 3 = 26 := by omega
      have hk : kindOf s pmag (a8 p 2) = Kind.trip := by
        unfold kindOf
        simp only [hmag, he26, hinv.mask, hinv.fn]
        rfl
      have hd : decodeTeletext s p = process26 s mag0 (view Kind.trip p) := by
        have hmask' : (decide (26 < 30) && !s.mask) = false := by simp [hinv.mask]
        simp only [decodeTeletext, ha, process, hmag, he26, hk, hmask', Bool.false_eq_true, if_false, finish]
        rfl
      rw [hd]
      have hcl : x26Class (s.rp mag0).page.function = true := by rw [hinv.fn]; decide
      obtain ⟨a, b, c1, c2, _, _, _, e, f, g, h⟩ := process26_content s mag0 (view Kind.trip p) hinv.lt enh0 h0 acc hcl hinv.x26
      simp only [x26Views, List.filterMap_cons, List.filterMap_nil, ha, he26, beq_self_eq_true, if_true, List.foldl_cons,
        List.foldl_nil]
      exact ⟨⟨g.trans hinv.mask, by rw [h]; exact hinv.lt, b.trans hinv.fn, a⟩, c1, c2, f, e⟩

theorem x26Views_append (a b : List Packet) : x26Views (a ++ b) = x26Views a ++ x26Views b := by
  unfold x26Views; rw [List.filterMap_append]

/-- the invariant over any number of body packets (frames with one Teletext line each) -/
theorem decodeAll_body (ps : List Packet) (s : St) (mag0 : Nat) (enh0 : List Triplet) (h0 : enh0.length = ENH_SIZE)
    (acc : List Triplet × Int) (hinv : TxInv s mag0 enh0 acc) (hp : ∀ p ∈ ps, BodyPkt mag0 p) :
    let s' := ps.foldl (fun s p => (decodeTeletext s p).st) s
    TxInv s' mag0 enh0 ((x26Views ps).foldl x26Spec acc) ∧
    (s'.rp mag0).page.pgno = (s.rp mag0).page.pgno ∧ (s'.rp mag0).page.subno = (s.rp mag0).page.subno ∧
    s'.net = s.net := by
  induction ps generalizing s acc with
  | nil => exact ⟨hinv, rfl, rfl, rfl⟩
  | cons p ps ih =>
    obtain ⟨a, b, c, d, _⟩ := decode_body s mag0 p enh0 h0 acc hinv (hp p List.mem_cons_self)
    have := ih (decodeTeletext s p).st ((x26Views [p]).foldl x26Spec acc) a (fun q hq => hp q (List.mem_cons_of_mem _ hq))
    simp only [List.foldl_cons]
    have hv : x26Views (p :: ps) = x26Views [p] ++ x26Views ps := x26Views_append [p] ps
    rw [hv, List.foldl_append]
    exact ⟨this.1, this.2.1.trans b, this.2.2.1.trans c, this.2.2.2.trans d⟩

/-! ## the declarative reading of `x26Spec`: in-order, complete packets are all kept -/

/-- `vs` are X/26 packets with designations `k0, k0 + 1, ...` in order whose thirteen triplets all decode -/
def InOrderFrom (k0 : Nat) : List View → Prop
  | [] => True
  | v :: vs => v.g8 0 = some k0 ∧ (∀ i, i < 13 → (v.g24 i).isSome = true) ∧ InOrderFrom (k0 + 1) vs

theorem x26Payload_full (v : View) (h : ∀ i, i < 13 → (v.g24 i).isSome = true) : (x26Payload v).length = 13 := by
  unfold x26Payload
  rw [goodPrefix_all]
  · simp
  · intro o ho
    simp only [List.mem_map, List.mem_range] at ho
    obtain ⟨i, hi, rfl⟩ := ho
    exact h i hi

theorem x26Spec_in_order (vs : List View) (k0 : Nat) (ts : List Triplet) (hts : ts.length = 13 * k0)
    (hk : k0 + vs.length ≤ 16) (hv : InOrderFrom k0 vs) :
    vs.foldl x26Spec (ts, ((ts.length : Nat) : Int)) =
      (ts ++ vs.flatMap x26Payload, ((13 * (k0 + vs.length) : Nat) : Int)) ∧
    (vs.flatMap x26Payload).length = 13 * vs.length := by
  induction vs generalizing k0 ts with
  | nil => simp [hts]
  | cons v vs ih =>
    obtain ⟨hd, hall, hrest⟩ := hv
    have hfull := x26Payload_full v hall
    simp only [List.length_cons] at hk
    have hstep : x26Spec (ts, ((ts.length : Nat) : Int)) v
        = (ts ++ x26Payload v, (((ts ++ x26Payload v).length : Nat) : Int)) := by
      unfold x26Spec
      rw [hd]
      have hc : (((ts.length : Nat) : Int) ≥ 16 * 13 || ((ts.length : Nat) : Int) != ((k0 * 13 : Nat) : Int)) = false := by
        simp only [Bool.or_eq_false_iff, decide_eq_false_iff_not, bne_eq_false_iff_eq]
        constructor <;> omega
      simp only [hc, Bool.false_eq_true, if_false, List.length_append]
      congr 2
      omega
    simp only [List.foldl_cons, List.flatMap_cons, List.length_cons]
    rw [hstep]
    have hl : (ts ++ x26Payload v).length = 13 * (k0 + 1) := by simp only [List.length_append]; omega
    obtain ⟨e1, e2⟩ := ih (k0 + 1) (ts ++ x26Payload v) hl (by omega) hrest
    rw [e1]
    refine ⟨?_, ?_⟩
    · simp only [List.append_assoc]
      congr 2
      congr 1
      omega
    · simp only [List.length_append]; omega

/-- live part of an array `ts ++ unused entries` -/
theorem liveTriplets_append_unused (ts : List Triplet) (n : Nat) (h : ∀ t ∈ ts, t.address ≤ 63) :
    liveTriplets (ts ++ List.replicate n Triplet.ff) = ts := by
  unfold liveTriplets
  rw [List.takeWhile_append_of_pos (by intro t ht; simpa using h t ht)]
  cases n <;> simp [List.replicate, Triplet.ff]

theorem enhUnused_drop (k : Nat) : enhUnused.drop k = List.replicate (ENH_SIZE - k) Triplet.ff := by
  unfold enhUnused; simp

end Zvbi.Ttx
