import ZvbiModel.Ttx.LemmasF6
/-!
# Fault freedom, part 7: `vbi_decode_teletext`, `vbi_decode`, all histories
-/
namespace Zvbi.Ttx
open Zvbi.Hamm Zvbi.Gen Zvbi.Ttx.Spec

/-- every live assembly slot carries a page number 0x100..0x8FF -/
def SlotsOk (s : St) : Prop :=
  (∀ c, s.current = some c → c < 8) ∧ ∀ m, m < 8 → slotFn s m ≠ FN_DISCARD → PgnoOk (slotPg s m)

theorem processHeader_only (s : St) (mag0 : Nat) (v : View) (hv : ViewOk v) (hm : mag0 < 8) (hs : SlotsOk s) :
    OnlyDrcsE (processHeader s mag0 (if mag0 == 0 then 8 else mag0) v).1.ev := by
  unfold processHeader
  cases hpg : v.g16 0 with
  | none => exact OnlyDrcsE.nil
  | some page =>
    simp only []
    have hpage := viewOk_g16 v hv 0 page hpg
    have hp := page_stat_pgno_in_range mag0 page hm hpage
    have hT : OnlyDrcsE (terminatePage s mag0 ((if (mag0 == 0) = true then 8 else mag0) * 256 + page) page).2 := by
      apply terminatePage_only
      intro curr hc hnd
      exact hs.2 curr (terminatedSlot_lt s mag0 _ page curr hm hs.1 hc) hnd
    split
    · exact hT
    · apply OnlyDrcsE.append hT
      apply OnlyDrcsE.of_noFault
      apply NoFaultE.lift
      exact headerPage_nofault _ _ _ _ _ _ hp

theorem processRow_nofault (s : St) (mag0 mag8 packet : Nat) (v : View) (hv : ViewOk v) (hp : packet ≤ 25) :
    NoFaultE (processRow s mag0 mag8 packet v).ev := by
  unfold processRow
  simp only []
  by_cases h1 : ((s.rp mag0).page.function == FN_DISCARD) = true
  · rw [if_pos h1]; exact NoFaultE.nil
  rw [if_neg h1]
  by_cases h2 : ((s.rp mag0).page.function == FN_MOT) = true
  · rw [if_pos h2]; exact NoFaultE.lift (parseMot_nofault _ _ _)
  rw [if_neg h2]
  by_cases h3 : ((s.rp mag0).page.function == FN_GPOP || (s.rp mag0).page.function == FN_POP) = true
  · rw [if_pos h3]
    split <;> exact NoFaultE.lift (parsePop_nofault _ _ hv (by omega))
  rw [if_neg h3]
  by_cases h4 : ((s.rp mag0).page.function == FN_GDRCS || (s.rp mag0).page.function == FN_DRCS) = true
  · rw [if_pos h4]; exact NoFaultE.lift NoFault.nil
  rw [if_neg h4]
  by_cases h5 : ((s.rp mag0).page.function == FN_BTT) = true
  · rw [if_pos h5]; exact NoFaultE.lift (parseBtt_nofault _ _ _ hp)
  rw [if_neg h5]
  by_cases h6 : ((s.rp mag0).page.function == FN_AIT) = true
  · rw [if_pos h6]; exact NoFaultE.lift (parseAitBounds_nofault _)
  rw [if_neg h6]
  by_cases h7 : ((s.rp mag0).page.function == FN_MPT) = true
  · rw [if_pos h7]; exact NoFaultE.lift (parseMpt_nofault _ _ _)
  rw [if_neg h7]
  by_cases h8 : ((s.rp mag0).page.function == FN_MPT_EX) = true
  · rw [if_pos h8]; exact NoFaultE.lift (parseMptEx_nofault _ _ (unhamTopPageLink_range _) _)
  rw [if_neg h8]
  by_cases h9 : ((s.rp mag0).page.function == FN_EPG) = true
  · rw [if_pos h9]; exact NoFaultE.lift NoFault.nil
  rw [if_neg h9]
  by_cases h10 : ((s.rp mag0).page.function == FN_LOP) = true
  · rw [if_pos h10]; exact NoFaultE.nil
  rw [if_neg h10]
  by_cases h11 : ((s.rp mag0).page.function == FN_EACEM) = true
  · rw [if_pos h11]
    split
    · exact NoFaultE.lift NoFault.nil
    · exact NoFaultE.nil
  rw [if_neg h11]
  exact NoFaultE.lift NoFault.nil

theorem process26_nofault (s : St) (mag0 : Nat) (v : View) (hv : ViewOk v) :
    NoFaultE (process26 s mag0 v).ev := by
  unfold process26
  simp only []
  split
  · exact NoFaultE.nil
  · split
    · exact NoFaultE.lift (parsePop_nofault _ _ hv (by omega))
    · split
      · exact NoFaultE.nil
      · split
        · exact NoFaultE.nil
        · rename_i d hd
          split
          · exact NoFaultE.nil
          · rename_i hcond
            apply NoFaultE.lift
            simp only [Bool.or_eq_true, decide_eq_true_eq, bne_iff_ne, ne_eq, not_or, Decidable.not_not] at hcond
            have h208 : d * 13 < 16 * 13 := by
              have h1 := hcond.1
              have h2 := hcond.2
              omega
            exact x26_enh_index_in_range v _ (d * 13) h208 d rfl

theorem hdrKey_pgnoOk (p : Packet) (m pg sub : Nat) (h : hdrKey p = some (m, pg, sub)) : PgnoOk pg := by
  unfold hdrKey at h
  cases ha : a16 p 0 with
  | none => rw [ha] at h; simp at h
  | some pmag =>
    rw [ha] at h
    simp only [] at h
    split at h
    · cases h
    · cases hg : (view Kind.hdr p).g16 0 with
      | none => rw [hg] at h; simp at h
      | some page =>
        rw [hg] at h
        simp only [] at h
        split at h
        · cases h
        · injection h with h
          injection h with _ h
          injection h with h _
          rw [← h]
          exact page_stat_pgno_in_range _ page (and7_lt pmag) (viewOk_g16 _ (view_ok _ _) 0 page hg)

theorem slotsOk_of_asmOk {s : St} {H : List Packet} (h : AsmOk s H) : SlotsOk s := by
  refine ⟨h.cur, ?_⟩
  intro m hm hf
  obtain ⟨p, _, mm, hk⟩ := h.slot m hm hf
  exact hdrKey_pgnoOk p mm _ _ hk

theorem process_only (s : St) (p : Packet) (pmag : Nat) (d : Option Nat) (hs : SlotsOk s) :
    OnlyDrcsE (process s pmag (view (kindOf s pmag d) p)).1.ev := by
  have hv := view_ok (kindOf s pmag d) p
  have hu := view_u24_length (kindOf s pmag d) p
  generalize view (kindOf s pmag d) p = v at hv hu
  unfold process
  simp only []
  by_cases c1 : (decide (pmag >>> 3 < 30) && !s.mask) = true
  · rw [if_pos c1]; exact OnlyDrcsE.nil
  rw [if_neg c1]
  by_cases c2 : (pmag >>> 3 == 0) = true
  · rw [if_pos c2]
    exact processHeader_only s (pmag &&& 7) v hv (and7_lt pmag) hs
  rw [if_neg c2]
  by_cases c3 : pmag >>> 3 ≤ 25
  · rw [if_pos c3]
    exact OnlyDrcsE.of_noFault (processRow_nofault s _ _ _ v hv c3)
  rw [if_neg c3]
  by_cases c4 : (pmag >>> 3 == 26) = true
  · rw [if_pos c4]
    exact OnlyDrcsE.of_noFault (process26_nofault s _ v hv)
  rw [if_neg c4]
  by_cases c5 : (pmag >>> 3 == 27) = true
  · rw [if_pos c5]; exact OnlyDrcsE.nil
  rw [if_neg c5]
  by_cases c6 : (pmag >>> 3 == 28 && (s.rp (pmag &&& 7)).page.function == FN_DISCARD) = true
  · rw [if_pos c6]; exact OnlyDrcsE.nil
  rw [if_neg c6]
  by_cases c7 : pmag >>> 3 ≤ 29
  · rw [if_pos c7]
    apply OnlyDrcsE.of_noFault
    dsimp only
    have := x28_bits_within_13_triplets s (pmag &&& 7) (if (pmag &&& 7) == 0 then 8 else pmag &&& 7) (pmag >>> 3) v hu
    generalize (parse2829 s (pmag &&& 7) (if (pmag &&& 7) == 0 then 8 else pmag &&& 7) (pmag >>> 3) v).2.1 = l at this ⊢
    exact NoFaultE.lift this
  rw [if_neg c7]
  by_cases c8 : (pmag &&& 15 == 0) = true
  · rw [if_pos c8]; exact OnlyDrcsE.nil
  rw [if_neg c8]
  exact OnlyDrcsE.nil

theorem decode_only (s : St) (p : Packet) (hs : SlotsOk s) : OnlyDrcsE (decodeTeletext s p).ev := by
  unfold decodeTeletext
  cases ha : a16 p 0 with
  | none => exact OnlyDrcsE.nil
  | some pmag =>
    simp only []
    have h := process_only s p pmag (a8 p 2) hs
    unfold finish
    split
    · exact h
    · exact h

theorem frameTick_only (s : St) : OnlyDrcsE (frameTick s).2 := by
  unfold frameTick
  simp only []
  repeat' split
  all_goals (intro site h; simp at h)

theorem step_only (s : St) (H : List Packet) (p : Packet) (hok : AsmOk s H) : OnlyDrcsE (step s p).2 := by
  unfold step
  simp only []
  exact OnlyDrcsE.append (frameTick_only s)
    (decode_only _ p (slotsOk_of_asmOk (frameTick_ok s H hok).1))

/-- over every history only the DRCS mark can occur, and only without the "last PTU" repair -/
theorem run_only (s : St) (H ps : List Packet) (hok : AsmOk s H) : OnlyDrcsE (run s ps).2 := by
  unfold run
  have gen : ∀ (ps : List Packet) (s : St) (H : List Packet) (ev : List Event), AsmOk s H → OnlyDrcsE ev →
      OnlyDrcsE (ps.foldl (fun (acc : St × List Event) p => ((step acc.1 p).1, acc.2 ++ (step acc.1 p).2)) (s, ev)).2 := by
    intro ps
    induction ps with
    | nil => intro s H ev _ hev; exact hev
    | cons p ps ih =>
      intro s H ev hok hev
      simp only [List.foldl_cons]
      exact ih (step s p).1 (H ++ [p]) (ev ++ (step s p).2) (step_ok s H p hok).1
        (OnlyDrcsE.append hev (step_only s H p hok))
  exact gen ps s H [] hok OnlyDrcsE.nil

end Zvbi.Ttx
