import ZvbiModel.Ttx.Model
/-!
# X/26 fix-ups of `lop_parity_check`: which cells get their parity bit forced

`lop_parity_check` (packet.c) walks `enh_lop.enh[]` and forces odd parity on the Level 1 byte under
every character-placing column triplet, in the row that is *active* at that triplet.  This file
states declaratively which row is active after a list of triplets (`activeRowFrom`: the row named
by the LAST row-address triplet of mode 0x01, 0x04 or 0x07) and which cells are addressed
(`AddrFrom`), and proves that the fold of the model (`lopParityCheck`) computes exactly that.
-/
namespace Zvbi.Ttx
open Zvbi.Hamm

/-- column-address triplet (address 0..39) that places or alters a character (EN 300 706 12.3.4:
    G1 mosaic, G3 line drawing (L1.5 / L2.5), modified G0/G2 designation, G0, DRCS, G2 character,
    G0 character with diacritical mark 0x10..0x1F) -/
def Triplet.isCharCol (t : Triplet) : Bool :=
  decide (t.address < 40) &&
    (t.mode == 1 || t.mode == 2 || t.mode == 0x0B || t.mode == 8 || t.mode == 9 || t.mode == 0x0D
      || t.mode == 0x0F || (decide (0x10 ≤ t.mode) && decide (t.mode ≤ 0x1F)))

/-- row-address triplet (address 40..63) that moves the active position: full row colour (0x01),
    set active position (0x04), address display row 0 (0x07) -/
def Triplet.isRowSet (t : Triplet) : Bool :=
  decide (40 ≤ t.address) && decide (t.address ≤ 63) && (t.mode == 1 || t.mode == 4 || t.mode == 7)

/-- the row such a triplet names: row 0 for mode 0x07, else address - 40 with 40 meaning row 24 -/
def Triplet.rowOf (t : Triplet) : Nat :=
  if t.mode == 7 then 0 else if t.address - 40 == 0 then 24 else t.address - 40

/-- the part of the enhancement array that is in use: everything before the first entry whose
    address is > 63 (0xFF filler of an unused entry, i.e. missed or never transmitted triplet) -/
def liveTriplets (enh : List Triplet) : List Triplet := enh.takeWhile fun t => decide (t.address ≤ 63)

/-- DECLARATIVE: the active row after the triplets `pre`, starting in row `row0`: the row named by the
    last row-address triplet of mode 0x01 / 0x04 / 0x07 in `pre`; `row0` if there is none -/
def activeRowFrom (row0 : Nat) (pre : List Triplet) : Nat :=
  match pre.reverse.find? Triplet.isRowSet with
  | some t => t.rowOf
  | none => row0

/-- the active row of a page: the walk starts in row 0 (the header) -/
def activeRow (pre : List Triplet) : Nat := activeRowFrom 0 pre

/-- DECLARATIVE: cell (r, c) is addressed by the triplets `ts`: some character column triplet with
    address `c` occurs in `ts` at a point where `r` is the active row -/
def AddrFrom (row0 : Nat) (ts : List Triplet) (r c : Nat) : Prop :=
  ∃ pre t post, ts = pre ++ t :: post ∧ t.isCharCol = true ∧ t.address = c ∧ activeRowFrom row0 pre = r

/-- cell (r, c) is overridden by the X/26 data in `enh` -/
def Addressed (enh : List Triplet) (r c : Nat) : Prop := AddrFrom 0 (liveTriplets enh) r c

/-! ## the fold of the model -/

/-- the step function of the fold in `lopParityCheck` (same text) -/
def x26FixStep (acc : Bool × Nat × List (List Nat)) (t : Triplet) : Bool × Nat × List (List Nat) :=
  let (stop, row, lr) := acc
  if stop then acc
  else if t.address < 40 then
    if t.mode == 1 || t.mode == 2 || t.mode == 0x0B || t.mode == 8 || t.mode == 9 || t.mode == 0x0D
       || t.mode == 0x0F || (0x10 ≤ t.mode && t.mode ≤ 0x1F) then
      let r := lr.getD row zeroRow
      (false, row, lr.set row (r.set t.address (par8 (r.getD t.address 0))))
    else acc
  else if t.address > 63 then (true, row, lr)
  else if t.mode == 1 || t.mode == 4 then
    let r := t.address - 40
    (false, if r == 0 then 24 else r, lr)
  else if t.mode == 7 then (false, 0, lr)
  else acc

/-- the received rows after the X/26 fix-ups -/
def x26Fix (enh : List Triplet) (lr : List (List Nat)) : List (List Nat) :=
  (enh.foldl x26FixStep (false, 0, lr)).2.2

/-- `lop_parity_check` hands exactly these rows to the parity gate -/
theorem lopParityCheck_lopRaw (cv : Page) (rv : RawPage) :
    (lopParityCheck cv rv).2.lopRaw = if cv.x26 != 0 then x26Fix cv.enh rv.lopRaw else rv.lopRaw := by
  unfold lopParityCheck x26Fix
  by_cases h : (cv.x26 != 0) = true
  · simp only [h, if_true]; rfl
  · simp only [h]; rfl

/-- byte (r, c) of a row array -/
def cellAt (lr : List (List Nat)) (r c : Nat) : Nat := (lr.getD r zeroRow).getD c 0

/-- `lop_raw[r][c] = vbi_par8 (lop_raw[r][c])` -/
def forceAt (lr : List (List Nat)) (r c : Nat) : List (List Nat) :=
  lr.set r ((lr.getD r zeroRow).set c (par8 ((lr.getD r zeroRow).getD c 0)))

/-- the walk over triplets that are in use, as a structural recursion: (active row, rows) -/
def fixLive (row : Nat) (lr : List (List Nat)) : List Triplet → Nat × List (List Nat)
  | [] => (row, lr)
  | t :: ts => fixLive (if t.isRowSet then t.rowOf else row)
                       (if t.isCharCol then forceAt lr row t.address else lr) ts

theorem x26FixStep_live (row : Nat) (lr : List (List Nat)) (t : Triplet) (h : t.address ≤ 63) :
    x26FixStep (false, row, lr) t =
      (false, if t.isRowSet then t.rowOf else row, if t.isCharCol then forceAt lr row t.address else lr) := by
  unfold x26FixStep Triplet.isRowSet Triplet.isCharCol Triplet.rowOf forceAt
  simp only [Bool.false_eq_true, if_false]
  by_cases h40 : t.address < 40
  · have h1 : ¬ (40 ≤ t.address) := by omega
    simp only [h40, h1, if_true, decide_true, decide_false, Bool.true_and, Bool.false_and, Bool.false_eq_true, if_false]
    split <;> rfl
  · have h1 : 40 ≤ t.address := by omega
    have h2 : ¬ (t.address > 63) := by omega
    simp only [h40, h1, h2, h, if_false, decide_true, decide_false, Bool.true_and, Bool.false_and, Bool.false_eq_true]
    by_cases m14 : (t.mode == 1 || t.mode == 4) = true
    · have m7 : (t.mode == 7) = false := by
        rcases Bool.or_eq_true _ _ |>.mp m14 with m | m <;>
          (have := beq_iff_eq.mp m; simp [this])
      have : (t.mode == 1 || t.mode == 4 || t.mode == 7) = true := by simp [m14]
      simp [m14, m7]
    · have m14' : (t.mode == 1 || t.mode == 4) = false := by simpa using m14
      by_cases m7 : (t.mode == 7) = true
      · have : (t.mode == 1 || t.mode == 4 || t.mode == 7) = true := by simp [m7]
        simp [m14', m7]
      · have m7' : (t.mode == 7) = false := by simpa using m7
        have : (t.mode == 1 || t.mode == 4 || t.mode == 7) = false := by simp [m14', m7']
        simp [m14', m7']

theorem x26Fix_stopped (row : Nat) (lr : List (List Nat)) (ts : List Triplet) :
    ts.foldl x26FixStep (true, row, lr) = (true, row, lr) := by
  induction ts with
  | nil => rfl
  | cons t ts ih => simp only [List.foldl_cons]; rw [show x26FixStep (true, row, lr) t = (true, row, lr) from rfl]; exact ih

/-- the fold over the whole array = the walk over the part in use: nothing behind the first
    unused entry is looked at -/
theorem x26Fix_fold_live (enh : List Triplet) (row : Nat) (lr : List (List Nat)) :
    (enh.foldl x26FixStep (false, row, lr)).2.2 = (fixLive row lr (liveTriplets enh)).2 := by
  induction enh generalizing row lr with
  | nil => rfl
  | cons t ts ih =>
    simp only [List.foldl_cons, liveTriplets]
    by_cases h : t.address ≤ 63
    · rw [x26FixStep_live row lr t h, List.takeWhile_cons_of_pos (by simpa using h)]
      simp only [fixLive]
      exact ih _ _
    · have h40 : ¬ (t.address < 40) := by omega
      have h63 : t.address > 63 := by omega
      have hs : x26FixStep (false, row, lr) t = (true, row, lr) := by
        unfold x26FixStep; simp [h40, h63]
      rw [hs, x26Fix_stopped, List.takeWhile_cons_of_neg (by simpa using h)]
      rfl

theorem x26Fix_eq_fixLive (enh : List Triplet) (lr : List (List Nat)) :
    x26Fix enh lr = (fixLive 0 lr (liveTriplets enh)).2 := x26Fix_fold_live enh 0 lr

/-- `lop_parity_check` looks at the enhancement array only up to its first unused entry -/
theorem x26Fix_ignores_unused_tail (pre post post' : List Triplet) (u : Triplet) (hu : u.address > 63)
    (lr : List (List Nat)) : x26Fix (pre ++ u :: post) lr = x26Fix (pre ++ u :: post') lr := by
  have key : ∀ q : List Triplet, liveTriplets (pre ++ u :: q) = liveTriplets pre := by
    intro q
    unfold liveTriplets
    induction pre with
    | nil => simp [List.takeWhile_cons]; omega
    | cons a as ih =>
      simp only [List.cons_append, List.takeWhile_cons]
      split
      · rw [ih]
      · rfl
  rw [x26Fix_eq_fixLive, x26Fix_eq_fixLive, key, key]

/-! ## the declarative row addressing -/

theorem activeRowFrom_cons (row0 : Nat) (t : Triplet) (pre : List Triplet) :
    activeRowFrom row0 (t :: pre) = activeRowFrom (if t.isRowSet then t.rowOf else row0) pre := by
  unfold activeRowFrom
  simp only [List.reverse_cons, List.find?_append]
  cases h : pre.reverse.find? Triplet.isRowSet with
  | some x => simp
  | none =>
    by_cases ht : t.isRowSet = true
    · simp [ht]
    · have : t.isRowSet = false := by simpa using ht
      simp [this]

/-- ROW ADDRESSING: the row in which the walk of `lop_parity_check` ends after the triplets `ts` is
    the row named by the last row-address triplet of mode 0x01, 0x04 or 0x07 -/
theorem fixLive_row (ts : List Triplet) (row : Nat) (lr : List (List Nat)) :
    (fixLive row lr ts).1 = activeRowFrom row ts := by
  induction ts generalizing row lr with
  | nil => rfl
  | cons t ts ih => rw [activeRowFrom_cons]; simp only [fixLive]; exact ih _ _

theorem addrFrom_cons (row0 : Nat) (t : Triplet) (ts : List Triplet) (r c : Nat) :
    AddrFrom row0 (t :: ts) r c ↔
      (t.isCharCol = true ∧ t.address = c ∧ row0 = r) ∨ AddrFrom (if t.isRowSet then t.rowOf else row0) ts r c := by
  constructor
  · rintro ⟨pre, t0, post, he, hc, ha, hr⟩
    cases pre with
    | nil =>
      simp only [List.nil_append, List.cons.injEq] at he
      left
      rw [he.1]
      exact ⟨hc, ha, by simpa [activeRowFrom] using hr⟩
    | cons p pre' =>
      simp only [List.cons_append, List.cons.injEq] at he
      right
      refine ⟨pre', t0, post, he.2, hc, ha, ?_⟩
      rw [he.1, ← activeRowFrom_cons]; exact hr
  · rintro (⟨hc, ha, hr⟩ | ⟨pre, t0, post, he, hc, ha, hr⟩)
    · exact ⟨[], t, ts, rfl, hc, ha, by simpa [activeRowFrom] using hr⟩
    · refine ⟨t :: pre, t0, post, by rw [he]; rfl, hc, ha, ?_⟩
      rw [activeRowFrom_cons]; exact hr

/-! ## cells -/

theorem par8_idem (c : Nat) : par8 (par8 c) = par8 c := by
  have h1 : ∀ d < 256, par8 (par8 d) = par8 d := by decide +kernel
  have h2 : par8 c = par8 (c % 256) := by simp [par8]
  rw [h2]; exact h1 _ (Nat.mod_lt _ (by decide))

theorem forceAt_length (lr : List (List Nat)) (r c : Nat) : (forceAt lr r c).length = lr.length := by
  simp [forceAt]

theorem forceAt_rowlen (lr : List (List Nat)) (r c r' : Nat) :
    ((forceAt lr r c).getD r' zeroRow).length = (lr.getD r' zeroRow).length := by
  unfold forceAt
  simp only [List.getD_eq_getElem?_getD, List.getElem?_set]
  by_cases h : r = r'
  · subst h
    by_cases hl : r < lr.length
    · simp [hl]
    · simp [hl]
  · simp [h]

theorem cellAt_forceAt (lr : List (List Nat)) (r c r' c' : Nat) (hr : r' < lr.length)
    (hc : c' < (lr.getD r' zeroRow).length) :
    cellAt (forceAt lr r c) r' c' = if r' = r ∧ c' = c then par8 (cellAt lr r c) else cellAt lr r' c' := by
  unfold cellAt forceAt
  simp only [List.getD_eq_getElem?_getD, List.getElem?_set] at hc ⊢
  by_cases h : r = r'
  · subst h
    simp only [hr, if_true, true_and, Option.getD_some]
    by_cases h2 : c = c'
    · subst h2
      simp only [if_true]
      rw [List.getElem?_set]
      simp [hc]
    · have h2' : ¬ (c' = c) := fun e => h2 e.symm
      simp only [h2', if_false]
      rw [List.getElem?_set]
      simp [h2]
  · have h' : ¬ (r' = r) := fun e => h e.symm
    simp [h, h']

theorem fixLive_shape (ts : List Triplet) (row : Nat) (lr : List (List Nat)) :
    (fixLive row lr ts).2.length = lr.length ∧
    ∀ r, ((fixLive row lr ts).2.getD r zeroRow).length = (lr.getD r zeroRow).length := by
  induction ts generalizing row lr with
  | nil => exact ⟨rfl, fun _ => rfl⟩
  | cons t ts ih =>
    simp only [fixLive]
    have := ih (if t.isRowSet then t.rowOf else row) (if t.isCharCol then forceAt lr row t.address else lr)
    by_cases hc : t.isCharCol = true
    · simp only [hc, if_true] at this ⊢
      exact ⟨by rw [this.1, forceAt_length], fun r => by rw [this.2 r, forceAt_rowlen]⟩
    · have hc' : t.isCharCol = false := by simpa using hc
      simp only [hc', Bool.false_eq_true, if_false] at this ⊢
      exact this

/-- CELLS: after the walk a byte is `vbi_par8` of the received byte if its cell is addressed, and the
    received byte itself if not -/
theorem fixLive_cells (ts : List Triplet) (row : Nat) (lr : List (List Nat)) (r c : Nat)
    (hr : r < lr.length) (hc : c < (lr.getD r zeroRow).length) :
    (AddrFrom row ts r c → cellAt (fixLive row lr ts).2 r c = par8 (cellAt lr r c)) ∧
    (¬ AddrFrom row ts r c → cellAt (fixLive row lr ts).2 r c = cellAt lr r c) := by
  induction ts generalizing row lr with
  | nil =>
    constructor
    · rintro ⟨pre, t, post, he, _⟩
      cases pre <;> simp at he
    · intro _; rfl
  | cons t ts ih =>
    simp only [fixLive]
    -- the head triplet
    have hhead : cellAt (if t.isCharCol then forceAt lr row t.address else lr) r c =
        if t.isCharCol = true ∧ t.address = c ∧ row = r then par8 (cellAt lr r c) else cellAt lr r c := by
      by_cases hcc : t.isCharCol = true
      · simp only [hcc, if_true, true_and]
        rw [cellAt_forceAt lr row t.address r c hr hc]
        by_cases hx : r = row ∧ c = t.address
        · obtain ⟨h1, h2⟩ := hx
          subst h1; subst h2
          simp
        · have : ¬ (t.address = c ∧ row = r) := fun e => hx ⟨e.2.symm, e.1.symm⟩
          simp [hx, this]
      · have hcc' : t.isCharCol = false := by simpa using hcc
        simp [hcc']
    have hr' : r < (if t.isCharCol then forceAt lr row t.address else lr).length := by
      split
      · rw [forceAt_length]; exact hr
      · exact hr
    have hc' : c < ((if t.isCharCol then forceAt lr row t.address else lr).getD r zeroRow).length := by
      split
      · rw [forceAt_rowlen]; exact hc
      · exact hc
    have IH := ih (if t.isRowSet then t.rowOf else row) (if t.isCharCol then forceAt lr row t.address else lr) hr' hc'
    rw [addrFrom_cons]
    by_cases hA : AddrFrom (if t.isRowSet then t.rowOf else row) ts r c
    · have e := IH.1 hA
      constructor
      · intro _
        rw [e, hhead]
        split
        · exact par8_idem _
        · rfl
      · intro hn; exact absurd (Or.inr hA) hn
    · have e := IH.2 hA
      constructor
      · rintro (hh | hh)
        · rw [e, hhead]; simp [hh]
        · exact absurd hh hA
      · intro hn
        have : ¬ (t.isCharCol = true ∧ t.address = c ∧ row = r) := fun hh => hn (Or.inl hh)
        rw [e, hhead]; simp [this]

end Zvbi.Ttx
