import ZvbiModel.Ttx.Chain4
import ZvbiModel.Ttx.OwnAux3
/-!
# C02 round 5, part 5: one transmission inside a cycle - the combined invariant, the items between two headers,
opening (`seg_open`) and closing (`seg_close`) a page

`Good tmpl off p`: the three sender-side conditions on a packet: consistent page header (`GoodHdr`), text pages only
(`TextOnly`), no magazine-serial header (`ParHdr`).  `CInv`: `IInv ∧ TInv ∧ HInv`, kept by every `Good` packet, and
no `Good` packet makes the decoder signal a channel switch.
-/
namespace Zvbi.Ttx
open Zvbi.Hamm Zvbi.Gen Zvbi.Ttx.Spec

def Good (tmpl : List Nat) (off : Nat) (p : Packet) : Prop := GoodHdr tmpl off p ∧ TextOnly p ∧ ParHdr p

structure CInv (tmpl : List Nat) (off : Nat) (s : St) : Prop where
  i : IInv s
  t : TInv s
  h : HInv tmpl off s

theorem step_cinv {tmpl : List Nat} {off : Nat} (s : St) (p : Packet) (h : CInv tmpl off s) (g : Good tmpl off p) :
    CInv tmpl off (step s p).1 ∧ Event.chsw ∉ (step s p).2 := by
  obtain ⟨h1, h2⟩ := step_hinv tmpl off s p h.h g.1
  exact ⟨⟨step_iinv s p h.i g.2.2, step_tinv s p h.i.shape h.i.mask h.t g.2.1, h1⟩, h2⟩

theorem run_cinv {tmpl : List Nat} {off : Nat} (ps : List Packet) : ∀ (s : St), CInv tmpl off s →
    (∀ p ∈ ps, Good tmpl off p) → CInv tmpl off (run s ps).1 ∧ Event.chsw ∉ (run s ps).2 := by
  induction ps with
  | nil => intro s h _; exact ⟨h, fun h => (by cases h)⟩
  | cons p ps ih =>
    intro s h hg
    rw [run_cons]
    obtain ⟨h1, n1⟩ := step_cinv s p h (hg p List.mem_cons_self)
    obtain ⟨h2, n2⟩ := ih (step s p).1 h1 (fun q hq => hg q (List.mem_cons_of_mem _ hq))
    refine ⟨h2, ?_⟩
    intro hx
    rw [List.mem_append] at hx
    rcases hx with hx | hx
    · exact n1 hx
    · exact n2 hx

theorem init_cinv (tmpl : List Nat) (off : Nat) : CInv tmpl off (init.enable true) :=
  ⟨init_iinv, init_tinv, init_hinv tmpl off true⟩

theorem CInv.tick {tmpl : List Nat} {off : Nat} {s : St} (h : CInv tmpl off s) : CInv tmpl off (tick s) :=
  ⟨h.i.tick, h.t.tick, h.h.tick⟩

/-! ## TTX_PAGE events of one magazine -/

def magPages (m : Nat) (ev : List Event) : List (Nat × Nat) := (ttxPages ev).filter (fun x => x.1 / 256 == mag8Of m)

theorem magPages_append (m : Nat) (a b : List Event) : magPages m (a ++ b) = magPages m a ++ magPages m b := by
  unfold magPages; rw [ttxPages_append, List.filter_append]

theorem magPages_nil (m : Nat) : magPages m [] = [] := rfl

theorem magPages_congr (m : Nat) (a b : List Event) (h : ttxPages a = ttxPages b) : magPages m a = magPages m b := by
  unfold magPages; rw [h]

theorem magPages_foreign (m m' : Nat) (hm : m < 8) (hm' : m' < 8) (hne : m' ≠ m) (ev : List Event)
    (h : ∀ x ∈ ttxPages ev, ∃ page, page < 256 ∧ x.1 = mag8Of m' * 256 + page) : magPages m ev = [] := by
  unfold magPages
  rw [List.filter_eq_nil_iff]
  intro x hx
  obtain ⟨page, hp, he⟩ := h x hx
  have : x.1 / 256 = mag8Of m' := by rw [he]; omega
  rw [this]
  intro hc
  have : mag8Of m' = mag8Of m := by simpa using hc
  exact hne (mag8Of_inj m' hm' m hm this)

theorem magPages_own (m page sub : Nat) (hp : page < 256) (ev : List Event)
    (h : ttxPages ev = [(mag8Of m * 256 + page, sub)]) : magPages m ev = [(mag8Of m * 256 + page, sub)] := by
  unfold magPages
  rw [h]
  have : (mag8Of m * 256 + page) / 256 = mag8Of m := by omega
  simp [this]

/-! ## a packet of another magazine keeps what a look-up of this magazine's pages finds -/

theorem ofMag_false (m m' : Nat) (hm : m < 8) (hm' : m' < 8) (hne : m' ≠ m) (f : Page → Bool) (hf : OfMag m f)
    (page' : Nat) (hp : page' < 256) (x : Page) (hx : x.pgno = mag8Of m' * 256 + page') : f x = false := by
  cases hfx : f x with
  | false => rfl
  | true =>
    exfalso
    obtain ⟨pg, h1, h2⟩ := hf x hfx
    rw [hx] at h2
    exact pgno_ne m m' pg page' hm hm' hne h1 hp h2

theorem hdrAbandon_net (s1 : St) (mag0 pgno : Nat) : (hdrAbandon s1 mag0 pgno).net = s1.net := rfl

/-- page termination by a header of magazine `m'` in a parallel-mode, text-only state keeps `find? f` for `f` of
    another magazine `m` -/
theorem terminatePage_find_foreign {tmpl : List Nat} {off : Nat} (s : St) (m m' pgno page : Nat) (hm : m < 8) (hm' : m' < 8)
    (hne : m' ≠ m) (h : CInv tmpl off s) (f : Page → Bool) (hf : OfMag m f) :
    (terminatePage s m' pgno page).1.net.cache.find? f = s.net.cache.find? f := by
  apply terminatePage_find s m' pgno page f hm' h.i.shape h.t (terminatePage_hinv tmpl off s m' pgno page hm' h.h).2
  intro curr hcurr hfn
  rcases terminatedSlot_allParallel s h.i.shape h.i.par m' pgno page with e | e
  · rw [e] at hcurr; cases hcurr
  · rw [e] at hcurr
    injection hcurr with hcurr
    subst hcurr
    obtain ⟨pg, hp1, hp2⟩ := h.i.own m' hm' (by rw [hfn]; decide)
    exact putKeeps_ofMag m m' hm hm' hne f hf _ _ pg hp1 hp2

/-- **a packet of another magazine** keeps `find? f` for every `f` of magazine `m` -/
theorem foreign_find {tmpl : List Nat} {off : Nat} (s : St) (p : Packet) (m m' k : Nat) (hm : m < 8) (hne : m' ≠ m)
    (hp : IsPacket p m' k) (h : CInv tmpl off s) (ht : TextOnly p) (hpg : k = 0 → ∃ page, a16 p 2 = some page)
    (f : Page → Bool) (hf : OfMag m f) : (step s p).1.net.cache.find? f = s.net.cache.find? f := by
  obtain ⟨hm', hk32, ha⟩ := hp
  obtain ⟨a1, a2⟩ := addr_split m' hm' k hk32
  rw [step_eq_of_shape s p h.i.shape]
  simp only []
  have hT := h.tick
  generalize hs0 : tick s = s0 at hT
  have hnet : s0.net = s.net := by rw [← hs0]; rfl
  by_cases hk : k = 0
  · subst hk
    simp only [Nat.mul_zero, Nat.add_zero] at ha a1 a2
    obtain ⟨page, hpage⟩ := hpg rfl
    have hfind := terminatePage_find_foreign s0 m m' (mag8Of m' * 256 + page) page hm hm' hne hT f hf
    have hgl := terminatePage_glob s0 m' (mag8Of m' * 256 + page) page
    have hTt := terminatePage_tinv s0 m' (mag8Of m' * 256 + page) page hm' hT.i.shape hT.t
    cases hrej : hdrRejected page ((view Kind.hdr p).g16i 2) ((view Kind.hdr p).g16i 4) ((view Kind.hdr p).g16i 6) with
    | true =>
      rw [decode_hdr_rejected s0 p m' page ha a2 hT.i.mask hpage hrej]
      simp only [a1]
      rw [show (if (m' == 0) = true then 8 else m') = mag8Of m' from rfl, hdrAbandon_net, hfind, hnet]
    | false =>
      have hne' := hdrRejected_page hrej
      have hdec : decimalPage page := by
        rcases ht m' page ha a2 hpage with d | d
        · exact d
        · exact absurd d hne'
      obtain ⟨s12, s34, fl, e1, e2, e3, _, _⟩ := hdrRejected_fields p page hrej rfl
      have hp' : IsHeader p m' page s12 s34 fl := ⟨hm', ha, hpage, e1, e2, e3⟩
      obtain ⟨ho, _, _⟩ := decode_header_text s0 p m' page s12 s34 fl hp' hdec hT.i.mask
        (terminatePage s0 m' (mag8Of m' * 256 + page) page).1
        (terminatePage s0 m' (mag8Of m' * 256 + page) page).2 rfl (by rw [hgl.len]; exact hT.i.shape.len)
        (hTt.net.textPage _ _ _ _ hdec)
      rw [ho.net, lookupPrev_find_gen _ _ _ _ f
        (fun x hx => ofMag_false m m' hm hm' hne f hf page (a16_lt p 2 page hpage) x hx), hfind, hnet]
  · have h0 : (m' + 8 * k) >>> 3 ≠ 0 := by rw [a2]; exact hk
    have hslot := hT.t.slots ((m' + 8 * k) &&& 7) (and7_lt _)
    have hpl := decode_plain s0 p (m' + 8 * k) ha h0 hslot
    rw [hpl.cache, hnet]

/-! ## what is sent between two headers of magazine `m`: sender-side conditions -/

/-- an own item is a row 1..25 of the page with odd-parity bytes - or (round 6, `.ownx`) one of the page's packets
    X/26, X/27, X/28 (not X/28/3) or M/29 of its magazine; a foreign item belongs to another magazine and, if
    it is a page header, its page number decodes (E1).  The other three clauses of `Benign` follow from `CInv` / `Good`. -/
def ItemPlain (m : Nat) : Item → Prop
  | .own k p => IsPacket p m k ∧ 1 ≤ k ∧ k ≤ 25 ∧ GoodRow (payload p)
  | .foreign m' k p => m' ≠ m ∧ IsPacket p m' k ∧ (k = 0 → ∃ page, a16 p 2 = some page)
  | .ownx k p => IsPacket p m k ∧ IsAux p k

theorem benign_of {tmpl : List Nat} {off : Nat} (s : St) (p : Packet) (m' k : Nat) (h : CInv tmpl off s)
    (hp : IsPacket p m' k) (g : Good tmpl off p) (hpg : k = 0 → ∃ page, a16 p 2 = some page) : Benign s p m' k := by
  obtain ⟨hm', hk32, ha⟩ := hp
  refine ⟨hpg, ?_, (step_cinv s p h g).2, ?_⟩
  · intro _ hx
    rcases h.t.slots m' hm' with e | e <;> rw [e] at hx <;> revert hx <;> decide
  · intro hk fl hfl
    subst hk
    exact g.2.2 (m' + 8 * 0) ha (addr_split m' hm' 0 (by omega)).2 fl hfl

/-- the items between two headers of magazine `m`, from a state in which slot `m` holds a text page -/
theorem items_frame {tmpl : List Nat} {off : Nat} (m : Nat) (hm : m < 8) : ∀ (items : List Item) (s : St),
    CInv tmpl off s → (s.rp m).page.function = FN_LOP →
    (∀ it ∈ items, ItemPlain m it ∧ Good tmpl off it.pkt) →
    CInv tmpl off (run s (items.map Item.pkt)).1 ∧ ItemsOk m s items
    ∧ (∀ f, OfMag m f → (run s (items.map Item.pkt)).1.net.cache.find? f = s.net.cache.find? f)
    ∧ magPages m (run s (items.map Item.pkt)).2 = []
    ∧ (∀ x ∈ ownRows items, GoodRow (payload x.2)) := by
  intro items
  induction items with
  | nil =>
    intro s h _ _
    exact ⟨h, trivial, fun _ _ => rfl, rfl, fun x hx => (by cases hx)⟩
  | cons it items ih =>
    intro s h hfn hall
    obtain ⟨hpl, hg⟩ := hall it List.mem_cons_self
    have hrest : ∀ it' ∈ items, ItemPlain m it' ∧ Good tmpl off it'.pkt := fun x hx => hall x (List.mem_cons_of_mem _ hx)
    obtain ⟨hc1, _⟩ := step_cinv s it.pkt h hg
    cases it with
    | own k p =>
      obtain ⟨hp, hk1, hk2, hgr⟩ := hpl
      have hst := step_row s p m k hp ⟨hk1, hk2⟩ h.i.shape.cd h.i.mask hfn
      have hlen : m < (tick s).raw.length := by show m < s.raw.length; rw [h.i.shape.len]; exact hm
      have hfn1 : ((step s p).1.rp m).page.function = FN_LOP := by
        rw [hst]
        show (((tick s).setRp m _).rp m).page.function = _
        rw [rp_setRp_same _ m _ hlen]; exact hfn
      have hnet : (step s p).1.net = s.net := by rw [hst]; rfl
      have hev : (step s p).2 = [] := by rw [hst]
      obtain ⟨r1, r2, r3, r4, r5⟩ := ih (step s p).1 hc1 hfn1 hrest
      simp only [List.map_cons, Item.pkt, run_cons, hev, List.nil_append]
      refine ⟨r1, ⟨⟨hp, hk1, hk2⟩, r2⟩, ?_, r4, ?_⟩
      · intro f hf; rw [r3 f hf, hnet]
      · intro x hx
        simp only [ownRows, List.mem_cons] at hx
        rcases hx with rfl | hx
        · exact hgr
        · exact r5 x hx
    | foreign m' k p =>
      obtain ⟨hne, hp, hpg⟩ := hpl
      have hb := benign_of s p m' k h hp hg hpg
      obtain ⟨_, f2, f3, _⟩ := foreign_step s p m m' k hne hp h.i hb
      have hfn1 : ((step s p).1.rp m).page.function = FN_LOP := by rw [f2]; exact hfn
      have hfind := foreign_find s p m m' k hm hne hp h hg.2.1 hpg
      obtain ⟨r1, r2, r3, r4, r5⟩ := ih (step s p).1 hc1 hfn1 hrest
      simp only [List.map_cons, Item.pkt, run_cons]
      refine ⟨r1, ⟨⟨hne, hp, hb⟩, r2⟩, ?_, ?_, ?_⟩
      · intro f hf; rw [r3 f hf, hfind f hf]
      · rw [magPages_append, r4, magPages_foreign m m' hm hp.1 hne _ f3]; rfl
      · intro x hx; exact r5 x hx
    | ownx k p =>
      obtain ⟨hp, hk⟩ := hpl
      have hlen : m < s.raw.length := by rw [h.i.shape.len]; exact hm
      obtain ⟨a1, a2, _, a4⟩ := own_aux_step s p m k hp hk h.i.shape.cd h.i.mask hfn hlen
      have hfn1 : ((step s p).1.rp m).page.function = FN_LOP := by rw [a1.fn]; exact hfn
      obtain ⟨r1, r2, r3, r4, r5⟩ := ih (step s p).1 hc1 hfn1 hrest
      simp only [List.map_cons, Item.pkt, run_cons]
      refine ⟨r1, ⟨⟨hp, hk⟩, r2⟩, ?_, ?_, ?_⟩
      · intro f hf; rw [r3 f hf, a2]
      · rw [magPages_append, r4, List.append_nil]
        unfold magPages
        rw [a4.pages]
        rfl
      · intro x hx; exact r5 x hx

/-! ## opening and closing a page -/

/-- the state after the header of `t` closed the page in progress -/
def s1Of (s : St) (t : Tx) : St := (terminatePage (tick s) t.m t.pgno t.page).1

/-- a predicate that is undisturbed by the header look-up of (`pgno`, sub-code word `sp`, control bits `fl`) -/
def GetKeeps (f : Page → Bool) (pgno sp fl : Nat) : Prop :=
  ∀ n : Net, (lookupPrev n pgno sp fl).2.1.cache.find? f = n.cache.find? f

theorem getKeeps_other (P key mask pgno sp fl : Nat) (hne : pgno ≠ P) : GetKeeps (keyMatch P key mask) pgno sp fl :=
  fun n => lookupPrev_find n pgno sp fl P key mask hne

/-- **opening**: header of a decimal text page of magazine `t.m` and the items up to the next header of that magazine -/
theorem seg_open {tmpl : List Nat} {off : Nat} (s : St) (h : CInv tmpl off s) (t : Tx) (hdr : Packet)
    (hh : IsHeader hdr t.m t.page t.s12 t.s34 t.fl) (hdec : decimalPage t.page) (hg : Good tmpl off hdr)
    (items : List Item) (hitems : ∀ it ∈ items, ItemPlain t.m it ∧ Good tmpl off it.pkt) :
    CInv tmpl off (run s (hdr :: items.map Item.pkt)).1
    ∧ Ready (run s (hdr :: items.map Item.pkt)).1 (s1Of s t) t hdr (rowsOf (ownRows items))
    ∧ ((s1Of s t).rp t.m).lopRaw.length = 26
    ∧ (∀ r ∈ rowsOf (ownRows items), 1 ≤ r.1 ∧ r.1 ≤ 25 ∧ GoodRow r.2)
    ∧ (∀ f, OfMag t.m f → GetKeeps f t.pgno t.subpage t.fl →
        (run s (hdr :: items.map Item.pkt)).1.net.cache.find? f = (s1Of s t).net.cache.find? f)
    ∧ magPages t.m (run s (hdr :: items.map Item.pkt)).2
        = magPages t.m (terminatePage (tick s) t.m t.pgno t.page).2 := by
  have hm := hh.mag
  have hT := h.tick
  obtain ⟨hH1, _⟩ := terminatePage_hinv tmpl off (tick s) t.m t.pgno t.page hm hT.h
  have hTt := terminatePage_tinv (tick s) t.m t.pgno t.page hm hT.i.shape hT.t
  have hlen1 : (s1Of s t).raw.length = 8 := hH1.shape.len
  have hL : ((s1Of s t).rp t.m).lopRaw.length = 26 := (hH1.shape.slots t.m hm).1
  obtain ⟨ho, he, _⟩ := decode_header_text (tick s) hdr t.m t.page t.s12 t.s34 t.fl hh hdec h.i.mask (s1Of s t)
    (terminatePage (tick s) t.m t.pgno t.page).2 rfl hlen1 (hTt.net.textPage _ _ _ _ hdec)
  obtain ⟨hc2, _⟩ := step_cinv s hdr h hg
  have hstep : step s hdr = ((decodeTeletext (tick s) hdr).st, (decodeTeletext (tick s) hdr).ev) :=
    step_eq_decode s hdr h.i.shape.cd
  rw [run_cons]
  rw [hstep] at hc2 ⊢
  simp only [] at hc2 ⊢
  generalize (decodeTeletext (tick s) hdr).st = s2 at ho hc2 ⊢
  generalize (decodeTeletext (tick s) hdr).ev = ev2 at he ⊢
  obtain ⟨i1, i2, i3, i4, i5⟩ := items_frame t.m hm items s2 hc2 ho.fn hitems
  have hmid0 : Mid s2 s2 t.m [] := ⟨hc2.i, ⟨t.m, ho.cur⟩, SameText.refl _, rfl, rfl⟩
  obtain ⟨hmid, _, _⟩ := run_items s2 t.m hm ho.fn t.pgno ⟨t.page, a16_lt hdr 2 _ hh.page, rfl⟩ items s2 [] hmid0 i2
  simp only [List.nil_append] at hmid
  generalize (run s2 (items.map Item.pkt)).1 = sR at hmid i1 i3 ⊢
  generalize (run s2 (items.map Item.pkt)).2 = evR at i4 ⊢
  obtain ⟨c, hc⟩ := hmid.cur
  have hready : Ready sR (s1Of s t) t hdr (rowsOf (ownRows items)) := by
    refine ⟨hmid.inv.shape.len, hmid.inv.mask, hmid.inv.shape.cd, parallelCur_of sR hmid.inv.shape hmid.inv.par c hc,
      ?_, ?_, ?_, ?_, ?_, ?_, ?_, ?_⟩
    · rw [hmid.page.fn]; exact ho.fn
    · rw [hmid.page.pgno]; exact ho.pg
    · rw [hmid.page.subno]; exact ho.sub
    · rw [hmid.page.national]; exact ho.nat
    · rw [hmid.page.flags]; exact ho.flags
    · rw [hmid.page.raw]; exact ho.raw
    · rw [hmid.lr, ho.lr]
    · rw [hmid.lp, ho.lp]
  have hrows : ∀ r ∈ rowsOf (ownRows items), 1 ≤ r.1 ∧ r.1 ≤ 25 ∧ GoodRow r.2 := by
    have gen : ∀ (items : List Item), (∀ it ∈ items, ItemPlain t.m it ∧ Good tmpl off it.pkt) →
        ∀ r ∈ rowsOf (ownRows items), 1 ≤ r.1 ∧ r.1 ≤ 25 ∧ GoodRow r.2 := by
      intro items
      induction items with
      | nil => intro _ r hr; cases hr
      | cons it items ih =>
        intro hall r hr
        have hrest := fun x hx => hall x (List.mem_cons_of_mem _ hx)
        cases it with
        | own k p =>
          obtain ⟨⟨_, hk1, hk2, hgr⟩, _⟩ := hall _ List.mem_cons_self
          simp only [ownRows, rowsOf, List.map_cons, List.mem_cons] at hr
          rcases hr with rfl | hr
          · exact ⟨hk1, hk2, hgr⟩
          · exact ih hrest r hr
        | foreign m' k p => exact ih hrest r hr
        | ownx k p => exact ih hrest r hr
    exact gen items hitems
  refine ⟨i1, hready, hL, hrows, ?_, ?_⟩
  · intro f hf hget
    rw [i3 f hf, ho.net]
    exact hget _
  · rw [magPages_append, i4, List.append_nil]
    exact magPages_congr _ _ _ he

/-- **closing**: the page assembled in slot `t.m` (`Ready`) is terminated by a header of its magazine with another
    page number -/
theorem seg_close {tmpl : List Nat} {off : Nat} (s s1 : St) (h : CInv tmpl off s) (t : Tx) (hdr : Packet)
    (rows : List (Nat × List Nat)) (hr : Ready s s1 t hdr rows) (hm : t.m < 8) (hdec : decimalPage t.page)
    (hL : (s1.rp t.m).lopRaw.length = 26) (hrows : ∀ r ∈ rows, 1 ≤ r.1 ∧ r.1 ≤ 25 ∧ GoodRow r.2)
    (pgnoQ pageQ : Nat) (hne : pageQ ≠ t.page) :
    ∃ q rest pt, (terminatePage (tick s) t.m pgnoQ pageQ).1.net.cache = q :: rest
      ∧ Fetched q t s1 hdr rows pt ∧ pt ≠ PT_CLOCK
      ∧ ttxPages (terminatePage (tick s) t.m pgnoQ pageQ).2 = [(t.pgno, t.subno)]
      ∧ (∀ f, PutKeeps f t.pgno t.subno →
          (terminatePage (tick s) t.m pgnoQ pageQ).1.net.cache.find? f = s.net.cache.find? f)
      -- (round 6) the entry carries the FLOF links / X/28 record of the page in progress
      ∧ CarriesAux q (s.rp t.m).page := by
  have hT := h.tick
  have hn := (terminatePage_hinv tmpl off (tick s) t.m pgnoQ pageQ hm hT.h).2
  obtain ⟨q, rest, pt, h1, h2, h3, h4⟩ := page_stored' s s1 t hdr rows hr hm hdec hL hrows pgnoQ pageQ hne hn
  have hcar : CarriesAux q (s.rp t.m).page := by
    have hand := (pgno_facts t.m t.page hm hdec).2
    have hts := terminatedSlot_parallel (tick s) t.m pgnoQ pageQ hr.par
      (by show (s.rp t.m).page.pgno &&& 0xFF ≠ pageQ; rw [hr.pg]; unfold Tx.pgno; rw [hand]; exact fun e => hne e.symm)
    obtain ⟨q', rest', e', c'⟩ := close_carries (tick s) t.m t.m pgnoQ pageQ hr.cd hts hr.fn
      (by show validPgno (s.rp t.m).page.pgno; rw [hr.pg]; exact (pgno_facts t.m t.page hm hdec).1) hn
    rw [h1] at e'
    injection e' with e1 _
    rw [e1]; exact c'
  refine ⟨q, rest, pt, h1, h2, ?_, h4, ?_, hcar⟩
  · intro hpt
    have := h3 hpt
    rcases h.t.net.stat t.pgno with e | e <;> rw [e] at this <;> revert this <;> decide
  · intro f hf
    have := terminatePage_find (tick s) t.m pgnoQ pageQ f hm hT.i.shape hT.t hn
      (by
        intro curr hcurr _
        have hand := (pgno_facts t.m t.page hm hdec).2
        have hts := terminatedSlot_parallel (tick s) t.m pgnoQ pageQ hr.par
          (by show (s.rp t.m).page.pgno &&& 0xFF ≠ pageQ; rw [hr.pg]; unfold Tx.pgno; rw [hand]; exact fun e => hne e.symm)
        rw [hts] at hcurr
        injection hcurr with hcurr
        subst hcurr
        show PutKeeps f (s.rp t.m).page.pgno (s.rp t.m).page.subno
        rw [hr.pg, hr.sub]; exact hf)
    exact this

end Zvbi.Ttx
