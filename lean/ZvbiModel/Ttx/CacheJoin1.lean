import ZvbiModel.Props.C03Join
/-!
# C03 x C10: cache.c side of the whole-history refinement (lemmas for Props/C03Refine.lean)

`cache_page_unref` right after `_vbi_cache_get_page` / `_vbi_cache_put_page` does not change the set of retrievable
entries (`State.abs`) as long as the network of the page is held by the client (`Held`: then the zombie-network check
deletes nothing) and memory is not short (then `delete_surplus_pages` is not entered); what `_vbi_cache_get_page`
hands out; the page type write; `vbi_chsw_reset`.
-/
namespace Zvbi.Cache
open Zvbi.Gen.Cache

/-- the network `nid` is on the list of the cache and its client (the decoder) holds a reference to it -/
def Held (s : State) (nid : Nat) : Prop := ∃ n ∈ s.nets, n.id = nid ∧ 0 < n.ref

/-- every network stays on the list with its client reference count -/
def RefKept (s s' : State) : Prop := ∀ n ∈ s.nets, ∃ n' ∈ s'.nets, n'.id = n.id ∧ n'.ref = n.ref

theorem RefKept.refl (s : State) : RefKept s s := fun n hn => ⟨n, hn, rfl, rfl⟩

theorem RefKept.trans {a b c : State} (h1 : RefKept a b) (h2 : RefKept b c) : RefKept a c := by
  intro n hn
  obtain ⟨n1, hn1, e1, r1⟩ := h1 n hn
  obtain ⟨n2, hn2, e2, r2⟩ := h2 n1 hn1
  exact ⟨n2, hn2, e2.trans e1, r2.trans r1⟩

theorem refKept_of_nets {s s' : State} (h : s'.nets = s.nets) : RefKept s s' :=
  fun n hn => ⟨n, by rw [h]; exact hn, rfl, rfl⟩

theorem Held.of_kept {s s' : State} {nid : Nat} (h : Held s nid) (k : RefKept s s') : Held s' nid := by
  obtain ⟨n, hn, e, r⟩ := h
  obtain ⟨n', hn', e', r'⟩ := k n hn
  exact ⟨n', hn', e'.trans e, by rw [r']; exact r⟩

theorem refKept_updNid {s s' : State} {x : Nat} {f : Net → Net} (he : s'.nets = updNid s.nets x f)
    (hf : ∀ n, (f n).id = n.id ∧ (f n).ref = n.ref) : RefKept s s' := by
  intro n hn
  refine ⟨if n.id = x then f n else n, by rw [he]; exact mem_updNid.2 ⟨n, hn, rfl⟩, ?_, ?_⟩
  · split
    · exact (hf n).1
    · rfl
  · split
    · exact (hf n).2
    · rfl

theorem Held.all {s : State} (h : InvW s) {nid : Nat} (hh : Held s nid) : ∀ n ∈ s.nets, n.id = nid → 0 < n.ref := by
  intro n hn e
  obtain ⟨m, hm, em, r⟩ := hh
  rw [net_unique h.nidNodup hn hm (e.trans em.symm)]
  exact r

theorem Held.find {s : State} (h : InvW s) {nid : Nat} (hh : Held s nid) : ∃ cn, s.findNet nid = some cn ∧ 0 < cn.ref := by
  obtain ⟨m, hm, em, r⟩ := hh
  exact ⟨m, by rw [← em]; exact findNet_of_mem' h hm, r⟩

theorem unzombieNet_refKept (s : State) (x : Nat) : RefKept s (s.unzombieNet x) := by
  unfold State.unzombieNet
  split
  · split
    · exact refKept_updNid (f := fun n => { n with zombie := false }) rfl (fun _ => ⟨rfl, rfl⟩)
    · exact RefKept.refl s
  · exact RefKept.refl s

/-- the zombie-network check of `cache_page_unref` does nothing on a network the client holds -/
theorem unrefNetCheck_held {s : State} {x : Nat} (hk : ∀ n ∈ s.nets, n.id = x → 0 < n.ref) : s.unrefNetCheck x = s := by
  unfold State.unrefNetCheck
  split
  · rename_i n hf
    obtain ⟨hn, e⟩ := findNet_some' hf
    have := hk n hn e
    rw [if_neg (fun hc => by have := hc.2.2; omega)]
  · rfl

/-- `cache_page_unref` of a cached page whose network the client holds, memory not short: the retrievable entries
    stay as they are (no page is deleted), and so do the networks -/
theorem pageUnref_abs {s : State} (h : InvW s) {q : Page} (hf : s.findPage q.id = some q) (hnz : q.pri ≠ .zombie)
    (hh : Held s q.net) (hroom : q.ref = 1 → s.memUsed + q.size ≤ s.memLimit) :
    (s.pageUnref q.id).abs = s.abs ∧ RefKept s (s.pageUnref q.id) := by
  unfold State.pageUnref
  rw [hf]
  simp only
  split
  · exact ⟨rfl, RefKept.refl s⟩
  · split
    · rename_i _ h1
      obtain ⟨e1, _, _, e4, e5, _, _, _, _, e10⟩ := unrefLast_fields s q
      have hall : ∀ n ∈ (s.unrefLast q).nets, n.id = q.net → 0 < n.ref := by
        intro n hn e
        rw [e4, mem_updNid] at hn
        obtain ⟨m, hm, rfl⟩ := hn
        split
        · rename_i em
          exact hh.all h m hm em
        · rename_i em
          rw [if_neg em] at e
          exact absurd e em
      unfold State.unrefTail
      rw [unrefNetCheck_held hall]
      unfold State.memCheck
      rw [if_neg (by rw [e5, e10]; have := hroom h1; omega)]
      constructor
      · rw [abs_eq, abs_eq, e1]
        exact absL_updId _ _ (fun _ => rfl) (fun _ => rfl)
      · exact refKept_updNid e4 (fun _ => ⟨rfl, rfl⟩)
    · constructor
      · rw [abs_eq, abs_eq, updPage_pages]
        exact absL_updId _ _ (fun _ => rfl) (fun _ => rfl)
      · exact RefKept.refl s

theorem size_le_sum_join (l : List Page) {p : Page} (hp : p ∈ l) (hr : p.ref = 0) :
    p.size ≤ ((l.filter (fun p => p.ref = 0)).map Page.size).sum := by
  induction l with
  | nil => cases hp
  | cons a t ih =>
    rcases List.mem_cons.1 hp with rfl | ht
    · simp [hr]
    · have := ih ht
      by_cases ha : a.ref = 0
      · simp [ha]; omega
      · simp [ha]; exact this

theorem pageRef_refKept (s : State) {p : Page} (hf : s.findPage p.id = some p) : RefKept s (s.pageRef p.id) := by
  unfold State.pageRef
  rw [hf]
  simp only
  split
  · exact (unzombieNet_refKept s p.net).trans
      (refKept_updNid (f := fun n => { n with nRef := n.nRef + 1 }) (refFirst_fields _ p _).2.2.2.1 (fun _ => ⟨rfl, rfl⟩))
  · exact RefKept.refl s

theorem pageRef_memUsed (s : State) {p : Page} (hf : s.findPage p.id = some p) (hr : p.ref = 0) :
    (s.pageRef p.id).memUsed = s.memUsed - p.size ∧ (s.pageRef p.id).memLimit = s.memLimit := by
  unfold State.pageRef
  rw [hf]
  simp only
  rw [if_pos hr]
  exact ⟨by rw [(refFirst_fields _ p _).2.2.2.2.1, (unzombieNet_fields s p.net).2.2.2.1],
    (unzombieNet_fields s p.net).2.2.2.2.1⟩

/-- what `_vbi_cache_get_page` hands out: a cached (non-zombie) page of the network asked for, found under its id in the
    state after the call; if the caller's reference is the only one, releasing it does not exceed the memory limit -/
theorem getPage_some {s : State} (g : Good s) {nid pgno : Nat} {subno : Int} {mask : Nat} {s' : State} {q : Page}
    (hres : s.getPage nid pgno subno mask = (s', some q)) :
    s'.findPage q.id = some q ∧ q.pri ≠ .zombie ∧ q.net = nid
      ∧ (q.ref = 1 → s'.memUsed + q.size ≤ s'.memLimit) ∧ RefKept s s' := by
  obtain ⟨h, hz, hm⟩ := g
  unfold State.getPage at hres
  split at hres
  · simp at hres
  · split at hres
    · simp at hres
    · simp only at hres
      obtain ⟨a, b, c, d, e, _, _, _, f⟩ :=
        pageByPgno_all h nid pgno subno.toNat (if subno.toNat = Gen.Cache.anySubno then 0 else mask)
      generalize s.pageByPgno nid pgno subno.toNat (if subno.toNat = Gen.Cache.anySubno then 0 else mask) = r at hres a b c d e f
      obtain ⟨s1, o⟩ := r
      cases o with
      | none => simp at hres
      | some p =>
        simp only at hres
        obtain ⟨hp, hpm⟩ := f p rfl
        have hp1 : p ∈ s1.pages := (c p).2 hp
        have hf1 := findPage_of_mem' a hp1
        have hpages := pageRef_pages s1 hf1
        have hmem : ({ p with ref := p.ref + 1 } : Page) ∈ (s1.pageRef p.id).pages := by
          rw [hpages]; exact mem_updId.2 ⟨p, hp1, by rw [if_pos rfl]⟩
        have hnd : IdsNodup (s1.pageRef p.id).pages := by
          rw [hpages]; show (List.map _ _).Nodup
          rw [map_id_updId (f := fun p => { p with ref := p.ref + 1 }) (fun _ => rfl)]; exact a.pidNodup
        have hfind : (s1.pageRef p.id).findPage p.id = some { p with ref := p.ref + 1 } := find_of_mem hnd hmem
        rw [hfind] at hres
        simp only [Prod.mk.injEq, Option.some.injEq] at hres
        obtain ⟨rfl, rfl⟩ := hres
        rw [pageMatch_iff] at hpm
        simp only [Bool.and_eq_true, decide_eq_true_eq] at hpm
        refine ⟨hfind, hpm.1, of_decide_eq_true (matches_net hpm.2), ?_, ?_⟩
        · intro h1
          have hr0 : p.ref = 0 := by
            have : p.ref + 1 = 1 := h1
            omega
          obtain ⟨m1, m2⟩ := pageRef_memUsed s1 hf1 hr0
          have hsz : p.size ≤ s1.memUsed := by
            rw [a.mem]; exact size_le_sum_join s1.pages hp1 hr0
          rw [m1, m2]
          show s1.memUsed - p.size + p.size ≤ s1.memLimit
          have d' : s1.memUsed = s.memUsed := d
          have e' : s1.memLimit = s.memLimit := e
          omega
        · exact (refKept_of_nets b).trans (pageRef_refKept s1 hf1)

/-- `_vbi_cache_get_page` keeps every network and its client reference count -/
theorem getPage_kept {s : State} (g : Good s) {nid pgno : Nat} {subno : Int} {mask : Nat} :
    RefKept s (s.getPage nid pgno subno mask).1 := by
  obtain ⟨h, _, _⟩ := g
  unfold State.getPage
  split
  · exact RefKept.refl s
  · split
    · exact RefKept.refl s
    · simp only
      obtain ⟨a, b, c, _, _, _, _, _, f⟩ :=
        pageByPgno_all h nid pgno subno.toNat (if subno.toNat = Gen.Cache.anySubno then 0 else mask)
      generalize s.pageByPgno nid pgno subno.toNat (if subno.toNat = Gen.Cache.anySubno then 0 else mask) = r at a b c f
      obtain ⟨s1, o⟩ := r
      cases o with
      | none => exact refKept_of_nets b
      | some p =>
        obtain ⟨hp, _⟩ := f p rfl
        exact (refKept_of_nets b).trans (pageRef_refKept s1 (findPage_of_mem' a ((c p).2 hp)))

/-- the page type write (`Op.ptype`, the decoder's statistics are the cache's `cn->_pages[]`): pages, memory and
    networks stay, the statistics of the network now carry the type (a `uint8_t`) -/
theorem ptype_step {s : State} (g : Good s) {nid : Nat} {cn : Net} (hf : s.findNet nid = some cn) (pgno t : Nat)
    (hr : 0x100 ≤ pgno ∧ pgno ≤ 0x8FF) :
    (stepCur s (.ptype nid pgno t)).1.abs = s.abs
      ∧ (stepCur s (.ptype nid pgno t)).1.memUsed = s.memUsed
      ∧ (stepCur s (.ptype nid pgno t)).1.memLimit = s.memLimit
      ∧ RefKept s (stepCur s (.ptype nid pgno t)).1
      ∧ ∃ cn0, (stepCur s (.ptype nid pgno t)).1.findNet nid = some cn0 ∧ (cn0.getStat pgno).ptype = t % 256 := by
  have g0 : Good (stepCur s (.ptype nid pgno t)).1 := good_stepF _ g _
  have e : (stepCur s (.ptype nid pgno t)).1
      = s.updNet nid (fun n => n.setStat pgno { n.getStat pgno with ptype := t % 256 }) := by
    show (step s (.ptype nid pgno t)).1 = _
    unfold step
    simp only [hf]
    rw [if_neg (by omega)]
  rw [e] at g0 ⊢
  refine ⟨rfl, rfl, rfl, refKept_updNid rfl (fun _ => ⟨rfl, rfl⟩), ?_⟩
  obtain ⟨hcn, hid⟩ := findNet_some' hf
  have hmem : (cn.setStat pgno { cn.getStat pgno with ptype := t % 256 })
      ∈ (s.updNet nid (fun n => n.setStat pgno { n.getStat pgno with ptype := t % 256 })).nets := by
    rw [updNet_nets]; exact mem_updNid.2 ⟨cn, hcn, by rw [if_pos hid]⟩
  have := findNet_of_mem' g0.1 hmem
  rw [setStat_id, hid] at this
  refine ⟨_, this, ?_⟩
  rw [getStat_setStat, if_pos rfl]

/-- `vbi_chsw_reset`: the call hands out a network, held by the client, which has no page -/
theorem chsw_step {s : State} (g : Good s) {nid : Nat} {cn : Net} (hf : s.findNet nid = some cn) :
    ∃ S nid', stepCur s (.chsw nid) = (S, .net nid') ∧ Good S ∧ Held S nid' ∧ ∀ q ∈ S.pages, q.net ≠ nid' := by
  have g0 : Good (stepCur s (.chsw nid)).1 := good_stepF _ g _
  have e : stepCur s (.chsw nid)
      = ((s.netUnref nid).addNetwork.1.statReset (s.netUnref nid).addNetwork.2, .net (s.netUnref nid).addNetwork.2) := by
    show step s (.chsw nid) = _
    unfold step
    simp only [hf]
  rw [e] at g0
  refine ⟨_, _, e, g0, ?_, ?_⟩
  · obtain ⟨h, hz, _⟩ := g
    obtain ⟨a, b, _, _⟩ := netUnref_all h hz nid
    obtain ⟨_, _, _, _, ⟨n, hn, e1, e2, _⟩, _⟩ := addNetwork_all a b
    exact Held.of_kept ⟨n, hn, e1, e2⟩
      (refKept_updNid (f := fun n => { n with stat := [], defType := unknownPageType }) rfl (fun _ => ⟨rfl, rfl⟩))
  · have := chsw_empty g nid cn hf (s.netUnref nid).addNetwork.2 (by
      have e' : step s (.chsw nid) = _ := e
      rw [e'])
    have e' : step s (.chsw nid) = _ := e
    rw [e'] at this
    exact this

end Zvbi.Cache

