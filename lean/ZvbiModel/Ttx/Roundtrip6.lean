import ZvbiModel.Ttx.Roundtrip5
/-!
# Lemmas for C02 `page_roundtrip`, part 6: rows and page termination

* `Glob`, `terminatePage_glob`: closing a page keeps the handler mask, the number of slots, and
  starts no channel-switch countdown;
* `run_cons`, `run_append`;
* (iii) `run_rows`: all row packets of a transmission (`RowsDone`: `lop_raw` = `mergeRows`, bits);
* `close_text`: the header of another page (parallel mode) stores the merged page (`Stored`) at the
  head of the cache chain and sends exactly one TTX_PAGE event.
-/
namespace Zvbi.Ttx
open Zvbi.Hamm Zvbi.Gen Zvbi.Ttx.Spec

/-! ## global bookkeeping that page termination keeps -/

/-- handler mask and number of slots unchanged; no channel-switch countdown is started -/
structure Glob (s s' : St) : Prop where
  mask : s'.mask = s.mask
  cd : s.chswcd = 0 → s'.chswcd = 0
  len : s'.raw.length = s.raw.length

theorem Glob.refl (s : St) : Glob s s := ⟨rfl, id, rfl⟩
theorem Glob.trans {a b c : St} (h1 : Glob a b) (h2 : Glob b c) : Glob a c :=
  ⟨h2.mask.trans h1.mask, fun h => h2.cd (h1.cd h), h2.len.trans h1.len⟩

theorem glob_setRp (s : St) (m : Nat) (x : RawPage) : Glob s (s.setRp m x) := ⟨rfl, id, setRp_length s m x⟩
theorem glob_setPage (s : St) (m : Nat) (x : Page) : Glob s (s.setPage m x) := ⟨rfl, id, setPage_length s m x⟩
theorem glob_net (s : St) (n : Net) : Glob s { s with net := n } := ⟨rfl, id, rfl⟩

theorem glob_chswReset (s : St) : Glob s (chswReset s) := by
  refine ⟨rfl, fun _ => rfl, ?_⟩
  rw [chswReset_raw, desync_length]

theorem storeLop_glob (s : St) (vtp : Page) : Glob s (storeLop s vtp).1 := by
  unfold storeLop
  split
  · exact glob_chswReset s
  · exact Glob.refl s
  · rename_i copy clearCd roll hdrUpd clock pn _
    cases copy <;> cases clearCd <;> exact ⟨rfl, fun h => by first | exact h | rfl, rfl⟩

theorem terminatePage_glob (s : St) (mag0 pgno page : Nat) : Glob s (terminatePage s mag0 pgno page).1 := by
  unfold terminatePage
  split
  · exact Glob.refl s
  · rename_i curr _
    simp only []
    have hfin : ∀ (x : St), Glob s x → Glob s (x.setPage curr { (x.rp curr).page with function := FN_DISCARD }) :=
      fun x hx => hx.trans (glob_setPage x curr _)
    by_cases h1 : ((s.rp curr).page.function == FN_DISCARD || (s.rp curr).page.function == FN_EPG) = true
    · rw [if_pos h1]; exact hfin s (Glob.refl s)
    rw [if_neg h1]
    by_cases h2 : ((s.rp curr).page.function == FN_LOP) = true
    · rw [if_pos h2]
      exact hfin _ ((glob_setRp s curr _).trans (storeLop_glob _ _))
    rw [if_neg h2]
    by_cases h3 : ((s.rp curr).page.function == FN_DRCS || (s.rp curr).page.function == FN_GDRCS) = true
    · rw [if_pos h3]; exact hfin _ (glob_net s _)
    rw [if_neg h3]
    by_cases h4 : ((s.rp curr).page.function == FN_MIP) = true
    · rw [if_pos h4]; exact hfin _ (glob_net s _)
    rw [if_neg h4]
    by_cases h5 : ((s.rp curr).page.function == FN_EACEM) = true
    · rw [if_pos h5]; exact hfin s (Glob.refl s)
    rw [if_neg h5]
    exact hfin _ (glob_net s _)

/-! ## `run` -/

theorem run_fold (ps : List Packet) : ∀ (s : St) (ev : List Event),
    ps.foldl (fun (acc : St × List Event) p => let (s', e) := step acc.1 p; (s', acc.2 ++ e)) (s, ev)
      = ((run s ps).1, ev ++ (run s ps).2) := by
  unfold run
  induction ps with
  | nil => intro s ev; simp
  | cons p ps ih =>
    intro s ev
    simp only [List.foldl_cons]
    rw [ih, ih (step s p).1 ([] ++ (step s p).2)]
    simp [List.append_assoc]

theorem run_nil (s : St) : run s [] = (s, []) := rfl

theorem run_cons (s : St) (p : Packet) (ps : List Packet) :
    run s (p :: ps) = ((run (step s p).1 ps).1, (step s p).2 ++ (run (step s p).1 ps).2) := by
  have := run_fold ps (step s p).1 ([] ++ (step s p).2)
  unfold run at this ⊢
  simp only [List.foldl_cons]
  rw [this]
  simp

theorem run_append (s : St) (ps qs : List Packet) :
    run s (ps ++ qs) = ((run (run s ps).1 qs).1, (run s ps).2 ++ (run (run s ps).1 qs).2) := by
  induction ps generalizing s with
  | nil => simp [run_nil]
  | cons p ps ih =>
    simp only [List.cons_append, run_cons]
    rw [ih]
    simp [List.append_assoc]


/-! ## the rows of the page in progress -/

/-- one transmitted row: packet number and packet -/
abbrev RowPkt := Nat × Packet

def rowsOf (rp : List RowPkt) : List (Nat × List Nat) := rp.map fun x => (x.1, payload x.2)

/-- slot `m` after row packets: page untouched, rows collected; everything else as before -/
structure RowsDone (s s' : St) (m : Nat) (rows : List (Nat × List Nat)) : Prop where
  len : s'.raw.length = s.raw.length
  mask : s'.mask = s.mask
  cd : s'.chswcd = s.chswcd
  cur : s'.current = s.current
  header : s'.header = s.header ∧ s'.hdrPgno = s.hdrPgno
  net : s'.net = s.net
  page : (s'.rp m).page = (s.rp m).page
  lr : (s'.rp m).lopRaw = mergeRows (s.rp m).lopRaw rows
  lp : (s'.rp m).lopPackets = rowBits (s.rp m).lopPackets rows
  other : ∀ m', m' ≠ m → s'.rp m' = s.rp m'

theorem RowsDone.refl (s : St) (m : Nat) : RowsDone s s m [] :=
  ⟨rfl, rfl, rfl, rfl, ⟨rfl, rfl⟩, rfl, rfl, rfl, rfl, fun _ _ => rfl⟩

theorem mergeRows_append (base : List (List Nat)) (a b : List (Nat × List Nat)) :
    mergeRows base (a ++ b) = mergeRows (mergeRows base a) b := by
  unfold mergeRows; rw [List.foldl_append]

theorem rowBits_append (lp : Nat) (a b : List (Nat × List Nat)) :
    rowBits lp (a ++ b) = rowBits (rowBits lp a) b := by
  unfold rowBits; rw [List.foldl_append]

/-- one more row packet -/
theorem RowsDone.step {s s' : St} {m : Nat} {rows : List (Nat × List Nat)} (h : RowsDone s s' m rows)
    (p : Packet) (k : Nat) (hp : IsPacket p m k) (hk : 1 ≤ k ∧ k ≤ 25) (hlen : m < s.raw.length)
    (hcd : s.chswcd = 0) (hmask : s.mask = true) (hfn : (s.rp m).page.function = FN_LOP) :
    RowsDone s (step s' p).1 m (rows ++ [(k, payload p)]) ∧ (step s' p).2 = [] := by
  have hfn' : (s'.rp m).page.function = FN_LOP := by rw [h.page]; exact hfn
  rw [step_row s' p m k hp hk (by rw [h.cd]; exact hcd) (by rw [h.mask]; exact hmask) hfn']
  refine ⟨⟨?_, h.mask, h.cd, h.cur, h.header, h.net, ?_, ?_, ?_, ?_⟩, rfl⟩
  · rw [setRp_length]; exact h.len
  · rw [rp_setRp_same _ m _ (by show m < s'.raw.length; rw [h.len]; exact hlen)]; exact h.page
  · rw [rp_setRp_same _ m _ (by show m < s'.raw.length; rw [h.len]; exact hlen)]
    rw [mergeRows_append, ← h.lr]; rfl
  · rw [rp_setRp_same _ m _ (by show m < s'.raw.length; rw [h.len]; exact hlen)]
    rw [rowBits_append, ← h.lp]; rfl
  · intro m' hne
    rw [rp_setRp_other _ m m' _ hne]
    exact h.other m' hne

/-- **(iii)** all row packets of a transmission, in any order, any subset, repeats allowed -/
theorem run_rows (s : St) (m : Nat) (hlen : m < s.raw.length) (hcd : s.chswcd = 0) (hmask : s.mask = true)
    (hfn : (s.rp m).page.function = FN_LOP) (rp : List RowPkt)
    (hrp : ∀ x ∈ rp, IsPacket x.2 m x.1 ∧ 1 ≤ x.1 ∧ x.1 ≤ 25) :
    RowsDone s (run s (rp.map (·.2))).1 m (rowsOf rp) ∧ (run s (rp.map (·.2))).2 = [] := by
  have gen : ∀ (rp : List RowPkt) (s' : St) (done : List (Nat × List Nat)), RowsDone s s' m done →
      (∀ x ∈ rp, IsPacket x.2 m x.1 ∧ 1 ≤ x.1 ∧ x.1 ≤ 25) →
      RowsDone s (run s' (rp.map (·.2))).1 m (done ++ rowsOf rp) ∧ (run s' (rp.map (·.2))).2 = [] := by
    intro rp
    induction rp with
    | nil => intro s' done h _; simp [rowsOf, run_nil]; exact h
    | cons x rp ih =>
      intro s' done h hx
      obtain ⟨hp, hk1, hk2⟩ := hx x (List.mem_cons_self)
      obtain ⟨h1, e1⟩ := h.step x.2 x.1 hp ⟨hk1, hk2⟩ hlen hcd hmask hfn
      obtain ⟨h2, e2⟩ := ih (step s' x.2).1 _ h1 (fun y hy => hx y (List.mem_cons_of_mem _ hy))
      simp only [List.map_cons, run_cons, e1, e2, List.append_nil]
      refine ⟨?_, trivial⟩
      have : done ++ rowsOf (x :: rp) = done ++ [(x.1, payload x.2)] ++ rowsOf rp := by
        simp [rowsOf]
      rw [this]; exact h2
  have := gen rp s [] (RowsDone.refl s m) hrp
  simpa using this


/-! ## the terminating header -/

/-- parallel mode: the page of the magazine that sent the last header does not carry C11 -/
def ParallelCur (s : St) : Prop :=
  ∃ c, s.current = some c ∧ (s.rp c).page.flags &&& C11_MAGAZINE_SERIAL = 0

theorem terminatedSlot_parallel (s : St) (m pgno page : Nat) (hpar : ParallelCur s)
    (hdiff : (s.rp m).page.pgno &&& 0xFF ≠ page) : terminatedSlot s m pgno page = some m := by
  obtain ⟨c, hc, hfl⟩ := hpar
  unfold terminatedSlot
  rw [hc]
  simp only [hfl]
  have h1 : ((s.rp m).page.pgno &&& 0xFF == page) = false := by simpa using hdiff
  cases ttxFixSerialErase <;> simp [h1]

theorem typeAtPut_clock (n : Net) (vtp : Page) (h : typeAtPut n vtp = PT_CLOCK) :
    (n.getStat vtp.pgno).pageType = PT_CLOCK := by
  unfold typeAtPut Net.setStat at h
  have hX : (statAtPut n vtp).pageType = PT_CLOCK → (n.getStat vtp.pgno).pageType = PT_CLOCK := by
    unfold statAtPut
    simp only []
    intro hx
    repeat' (split at hx)
    all_goals first
      | exact hx
      | (simp [PT_NORMAL, PT_CLOCK] at hx; done)
  cases hi : statIdx vtp.pgno with
  | none =>
    simp only [hi] at h
    unfold Net.getStat at h
    simp [hi, PageStat.init, PT_UNKNOWN, PT_CLOCK] at h
  | some i =>
    simp only [hi] at h
    unfold Net.getStat at h
    simp only [hi] at h
    by_cases hl : i < n.stat.length
    · apply hX
      simpa [List.getD_eq_getElem?_getD, List.getElem?_set, hl] using h
    · have : (n.stat.set i (statAtPut n vtp)).getD i PageStat.init = PageStat.init := by
        simp [List.getD_eq_getElem?_getD, hl]
      rw [this] at h
      simp [PageStat.init, PT_UNKNOWN, PT_CLOCK] at h


/-- what the terminating header leaves in the cache: a text page with the numbers, flags and
    national option of the page in progress `pg`, its rows merged with the rows received -/
structure Stored (q : Page) (pg : Page) (rows : List (Nat × List Nat)) (pt : Nat) : Prop where
  fn : q.function = FN_LOP
  pgno : q.pgno = pg.pgno
  subno : ∀ key mask, putKey pt pg.pgno pg.subno = (key, mask) → q.subno = key
  national : q.national = pg.national
  flags : q.flags = pg.flags
  raw : q.raw = mergeRows pg.raw rows

/-- **page termination of a text page**: the header of another page (parallel mode) runs
    `lop_parity_check` and `store_lop` on slot `m`: the merged page is at the head of the cache
    chain, one TTX_PAGE event, slot discarded -/
theorem close_text (s : St) (m pgnoQ pageQ : Nat) (hlen : m < s.raw.length) (hcd : s.chswcd = 0) (hmask : s.mask = true)
    (hpar : ParallelCur s) (hfn : (s.rp m).page.function = FN_LOP)
    (hdiff : (s.rp m).page.pgno &&& 0xFF ≠ pageQ) (hv : validPgno (s.rp m).page.pgno)
    (L0 : List (List Nat)) (rows : List (Nat × List Nat))
    (hL : (s.rp m).lopRaw = mergeRows L0 rows) (hL0 : L0.length = 26) (hlp : (s.rp m).lopPackets = rowBits 0 rows)
    (hrows : ∀ r ∈ rows, 1 ≤ r.1 ∧ r.1 ≤ 25 ∧ GoodRow r.2)
    (hn : Event.chsw ∉ (terminatePage s m pgnoQ pageQ).2) :
    ∃ q rest pt, (terminatePage s m pgnoQ pageQ).1.net.cache = q :: rest
      ∧ Stored q (s.rp m).page rows pt
      ∧ (pt = PT_CLOCK → (s.net.getStat (s.rp m).page.pgno).pageType = PT_CLOCK)
      ∧ ttxPages (terminatePage s m pgnoQ pageQ).2 = [((s.rp m).page.pgno, (s.rp m).page.subno)] := by
  have hts := terminatedSlot_parallel s m pgnoQ pageQ hpar hdiff
  unfold terminatePage at hn ⊢
  rw [hts] at hn ⊢
  simp only [] at hn ⊢
  have c1 : ((s.rp m).page.function == FN_DISCARD || (s.rp m).page.function == FN_EPG) = false := by
    rw [hfn]; decide
  have c2 : ((s.rp m).page.function == FN_LOP) = true := by rw [hfn]; decide
  simp only [c1, c2, Bool.false_eq_true, if_false, if_true] at hn ⊢
  obtain ⟨m1, m2, m3, m4, m5, m6⟩ := lopParityCheck_merge (s.rp m).page (s.rp m) L0 rows hL hL0 hlp hrows
  generalize hLP : lopParityCheck (s.rp m).page (s.rp m) = LP at *
  obtain ⟨cv, rv⟩ := LP
  simp only [] at hn ⊢ m1 m2 m3 m4 m5 m6
  have hv' : validPgno cv.pgno := by rw [m3]; exact hv
  have key := storeLop_stores (s.setRp m { rv with page := cv }) cv hcd hmask hv'
  generalize storeLop (s.setRp m { rv with page := cv }) cv = SL at key hn ⊢
  obtain ⟨s2, ev2⟩ := SL
  simp only [] at key hn ⊢
  obtain ⟨_, _, _, _, ⟨q, rest, hc, hq⟩, hev⟩ := key hn
  rw [setRp_net] at hq
  refine ⟨q, rest, typeAtPut s.net cv, ?_, ?_, ?_, ?_⟩
  · rw [setPage_net]; exact hc
  · refine ⟨?_, ?_, ?_, ?_, ?_, ?_⟩
    · rw [hq.fn, m2]; exact hfn
    · rw [hq.pgno, m3]
    · intro key mask hk
      rw [← m3, ← m4] at hk
      exact hq.subno key mask hk
    · rw [hq.national, m6]
    · rw [hq.flags, m5]
    · rw [hq.raw, m1]
  · intro h
    have := typeAtPut_clock s.net cv h
    rw [m3] at this; exact this
  · rw [hev, m3, m4]

end Zvbi.Ttx
