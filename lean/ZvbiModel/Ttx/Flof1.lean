import ZvbiModel.Ttx.Model
import ZvbiModel.Fmt.LemmasFlof
/-!
# C02 round 5: FLOF links of packet X/27/0 as `parse_27` (packet.c) files them in the page in progress

`links_fold`: the loop `for (i = 0; i < 6; ++i) unham_page_link (cvtp->data.lop.link + designation * 6 + i, ..)`.
`unhamPageLink_nibbles`: a link whose six Hamming 8/4 groups decode to the nibbles the sender put in
(page units, tens, S1, S2 + M1, S3, S4 + M2 + M3) is decoded to the transmitted page number and sub-code.
-/
namespace Zvbi.Ttx
open Zvbi.Hamm

/-- the body of the link loop of `parse_27` -/
def linkStep (v : View) (mag0 designation : Nat) (l : List Link) (i : Nat) : List Link :=
  match unhamPageLink v (1 + 6 * i) mag0 with
  | some (pgno, subno) =>
    let idx := designation * 6 + i
    l.set idx { l.getD idx Link.ff with pgno := pgno, subno := subno }
  | none => l

theorem links_fold (v : View) (mag0 d : Nat) (pg sb : Nat → Nat) : ∀ (n : Nat) (l : List Link),
    (∀ i, i < n → unhamPageLink v (1 + 6 * i) mag0 = some (pg i, sb i)) → d * 6 + n ≤ l.length →
    ((List.range n).foldl (linkStep v mag0 d) l).length = l.length
    ∧ (∀ i, i < n → (((List.range n).foldl (linkStep v mag0 d) l).getD (d * 6 + i) Link.ff).pgno = (pg i : Int)
        ∧ (((List.range n).foldl (linkStep v mag0 d) l).getD (d * 6 + i) Link.ff).subno = (sb i : Int)
        ∧ (((List.range n).foldl (linkStep v mag0 d) l).getD (d * 6 + i) Link.ff).function = (l.getD (d * 6 + i) Link.ff).function)
    ∧ (∀ j, j < d * 6 ∨ d * 6 + n ≤ j → ((List.range n).foldl (linkStep v mag0 d) l).getD j Link.ff = l.getD j Link.ff) := by
  intro n
  induction n with
  | zero =>
    intro l _ _
    exact ⟨rfl, fun i hi => absurd hi (by omega), fun j _ => rfl⟩
  | succ n ih =>
    intro l hl hn
    obtain ⟨h1, h2, h3⟩ := ih l (fun i hi => hl i (by omega)) (by omega)
    rw [List.range_succ, List.foldl_append]
    simp only [List.foldl_cons, List.foldl_nil]
    generalize (List.range n).foldl (linkStep v mag0 d) l = r at h1 h2 h3
    unfold linkStep
    rw [hl n (by omega)]
    simp only []
    refine ⟨by rw [List.length_set]; exact h1, ?_, ?_⟩
    · intro i hi
      by_cases hin : i = n
      · subst hin
        have hb : d * 6 + i < r.length := by omega
        rw [List.getD_eq_getElem?_getD, List.getElem?_set_self hb]
        simp only [Option.getD_some]
        exact ⟨trivial, trivial, by rw [h3 (d * 6 + i) (Or.inr (Nat.le_refl _))]⟩
      · have hne : d * 6 + n ≠ d * 6 + i := by omega
        rw [List.getD_eq_getElem?_getD, List.getElem?_set_ne hne, ← List.getD_eq_getElem?_getD]
        exact h2 i (by omega)
    · intro j hj
      have hne : d * 6 + n ≠ j := by omega
      rw [List.getD_eq_getElem?_getD, List.getElem?_set_ne hne, ← List.getD_eq_getElem?_getD]
      exact h3 j (by omega)

/-- a link sent as the six nibbles of EN 300 706 9.6.1 -/
theorem unhamPageLink_nibbles (v : View) (i mag pu pt s1 s2 s3 s4 mrel : Nat)
    (hpu : pu < 16) (hpt : pt < 16) (h1 : s1 < 16) (h2 : s2 < 8) (h3 : s3 < 16) (h4 : s4 < 4) (hm : mrel < 8)
    (g0 : v.g8 i = some pu) (g1 : v.g8 (i + 1) = some pt) (g2 : v.g8 (i + 2) = some s1)
    (g3 : v.g8 (i + 2 + 1) = some (s2 ||| ((mrel &&& 1) <<< 3))) (g4 : v.g8 (i + 4) = some s3)
    (g5 : v.g8 (i + 4 + 1) = some (s4 ||| (((mrel >>> 1) &&& 1) <<< 2) ||| (((mrel >>> 2) &&& 1) <<< 3))) :
    unhamPageLink v i mag =
      some ((if (mag ^^^ mrel == 0) = true then 8 else mag ^^^ mrel) * 256 + (pu ||| (pt <<< 4)),
            s1 + 16 * s2 + 256 * s3 + 4096 * s4) := by
  have hb := Zvbi.Fmt.link_bits s1 h1 s2 h2 s3 h3 s4 h4 mrel hm
  simp only [] at hb
  unfold unhamPageLink View.g16
  rw [g0, g1, g2, g3, g4, g5]
  simp only []
  rw [hb.1, hb.2]

/-- `parse_27` for designation 0 on a page that is not discarded -/
theorem parse27_des0 (cv : Page) (v : View) (mag0 ctl : Nat) (hfn : cv.function ≠ FN_DISCARD)
    (hd : v.g8 0 = some 0) (hc : v.g8 37 = some ctl) :
    parse27 cv v mag0 = ({ cv with link := (List.range 6).foldl (linkStep v mag0 0) cv.link, haveFlof := ctl >>> 3 }, true) := by
  unfold parse27
  have h1 : (cv.function == FN_DISCARD) = false := by simpa using hfn
  rw [h1, hd]
  simp only [Bool.false_eq_true, if_false, Nat.zero_le, if_true, beq_self_eq_true, hc]
  rfl

end Zvbi.Ttx
