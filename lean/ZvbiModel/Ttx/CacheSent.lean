import ZvbiModel.Ttx.Lemmas8
import ZvbiModel.Ttx.Frame4
/-!
# Lemmas for C03 (round 5): the CONTENT of the cache carries only page numbers of accepted headers

`Lemmas7` proves that every `Event.put q` carries the (pgno, subno) of an accepted header of the
history (`Sent`).  That is a statement about the event list.  Here the same clause is proved about
the cache content `Net.cache` of every reachable state: `CacheOk`.  The stored sub-code is the one of
the header or 0 (`putKey`: `_vbi_cache_put_page` normalises the sub-code of some key classes to 0),
hence `SentKey` instead of `Sent`.

The cache changes in three ways only:
* `Net.get` (look-up, move to front), table parsers, `setStat`: no new element (`CacheSub`, Frame1..4),
* `Net.put`: the new head has the pgno of the page stored and its subno or 0 (`cachePutF_keys`),
* `chswReset`: empty.
-/
namespace Zvbi.Ttx
open Zvbi.Hamm Zvbi.Gen Zvbi.Ttx.Spec

/-- (pgno, subno) is what the decoder computed from an accepted header of the history, the sub-code
    possibly normalised to 0 by the store (`putKey`) -/
def SentKey (H : List Packet) (pgno subno : Nat) : Prop :=
  ∃ p ∈ H, ∃ m sub, hdrKey p = some (m, pgno, sub) ∧ (subno = sub ∨ subno = 0)

/-- every cached page sits under numbers of an accepted header of the history -/
def CacheOk (s : St) (H : List Packet) : Prop := ∀ x ∈ s.net.cache, SentKey H x.pgno x.subno

theorem SentKey.mono {H : List Packet} {a b : Nat} (h : SentKey H a b) (K : List Packet) :
    SentKey (H ++ K) a b := by
  obtain ⟨p, hp, m, sub, hk, hs⟩ := h
  exact ⟨p, List.mem_append_left _ hp, m, sub, hk, hs⟩

theorem Sent.key {H : List Packet} {a b : Nat} (h : Sent H a b) : SentKey H a b := by
  obtain ⟨p, hp, m, hk⟩ := h
  exact ⟨p, hp, m, b, hk, Or.inl rfl⟩

theorem Sent.key0 {H : List Packet} {a b : Nat} (h : Sent H a b) : SentKey H a 0 := by
  obtain ⟨p, hp, m, hk⟩ := h
  exact ⟨p, hp, m, b, hk, Or.inr rfl⟩

theorem CacheOk.mono {s : St} {H : List Packet} (h : CacheOk s H) (K : List Packet) : CacheOk s (H ++ K) :=
  fun x hx => (h x hx).mono K

theorem CacheOk.sub {s s' : St} {H : List Packet} (h : CacheOk s H) (hs : CacheSub s.net s'.net) : CacheOk s' H :=
  fun x hx => h x (hs x hx)

theorem CacheOk.of_eq {s s' : St} {H : List Packet} (h : CacheOk s H) (hs : s'.net = s.net) : CacheOk s' H := by
  intro x hx; rw [hs] at hx; exact h x hx

/-! ## `_vbi_cache_put_page` -/

/-- the stored sub-code is the page's or 0, in every key class -/
theorem putKey_sub_or_zero (pt pgno subno : Nat) : (putKey pt pgno subno).1 = subno ∨ (putKey pt pgno subno).1 = 0 := by
  unfold putKey
  repeat' split
  all_goals first | exact Or.inl rfl | exact Or.inr rfl

/-- both source shapes of `_vbi_cache_put_page`: the only new element of the chain carries the page number of the
    page stored and its sub-code or 0 -/
theorem cachePutF_keys (fix : Bool) (c : List Page) (pt : Nat) (p : Page) :
    ∀ c', cachePutF fix c pt p = some c' →
      ∀ x ∈ c', x ∈ c ∨ (x.pgno = p.pgno ∧ (x.subno = p.subno ∨ x.subno = 0)) := by
  unfold cachePutF
  split
  · intro c' h; cases h
  · have hk := putKey_sub_or_zero pt p.pgno p.subno
    generalize putKey pt p.pgno p.subno = k at hk
    obtain ⟨a, b⟩ := k
    intro c' h
    simp only [Option.some.injEq] at h
    subst h
    intro x hx
    rcases List.mem_cons.mp hx with rfl | hx
    · right; exact ⟨truncate_pgno p, hk⟩
    · left
      cases hf : cacheFind c p.pgno (a &&& b) b with
      | none => rw [hf] at hx; exact hx
      | some r =>
        obtain ⟨old, c1⟩ := r
        rw [hf] at hx
        simp only at hx
        split at hx
        · exact (cacheFind_sub _ _ _ _ _ _ hf).2 x (List.mem_of_mem_erase (List.mem_filter.1 hx).1)
        · exact (cacheFind_sub _ _ _ _ _ _ hf).2 x (List.mem_of_mem_erase hx)

theorem put_keys (n : Net) (p : Page) :
    ∀ x ∈ (n.put p).cache, x ∈ n.cache ∨ (x.pgno = p.pgno ∧ (x.subno = p.subno ∨ x.subno = 0)) := by
  unfold Net.put
  cases hc : cachePut n.cache (n.getStat p.pgno).pageType p with
  | none => intro x hx; exact Or.inl hx
  | some c => exact cachePutF_keys _ _ _ _ c hc

theorem stPut_keys (s : St) (p : Page) :
    ∀ x ∈ (s.put p).1.net.cache, x ∈ s.net.cache ∨ (x.pgno = p.pgno ∧ (x.subno = p.subno ∨ x.subno = 0)) :=
  put_keys s.net p

theorem chswReset_cache (s : St) : (chswReset s).net.cache = [] := rfl

/-- `store_lop`: channel switch (cache emptied), nothing, or `put` -/
theorem storeLop_keys (s : St) (vtp : Page) :
    ∀ x ∈ (storeLop s vtp).1.net.cache,
      x ∈ s.net.cache ∨ (x.pgno = vtp.pgno ∧ (x.subno = vtp.subno ∨ x.subno = 0)) := by
  unfold storeLop
  split
  · intro x hx; rw [chswReset_cache] at hx; cases hx
  · intro x hx; exact Or.inl hx
  · rename_i copy clearCd roll hdrUpd clock pn _
    simp only []
    intro x hx
    rcases put_keys _ vtp x hx with h | h
    · left
      rw [setStat_cache] at h
      cases copy <;> cases clearCd <;> exact h
    · exact Or.inr h

/-! ## the page terminated by a header -/

/-- every page in the cache after `terminatePage` was there before or is the page of the terminated slot (which
    is not a discarded one): its page number, its sub-code or 0 -/
theorem terminatePage_cache (s : St) (mag0 pgno page : Nat) :
    ∀ x ∈ (terminatePage s mag0 pgno page).1.net.cache, x ∈ s.net.cache ∨
      ∃ curr, terminatedSlot s mag0 pgno page = some curr ∧ slotFn s curr ≠ FN_DISCARD ∧
        x.pgno = slotPg s curr ∧ (x.subno = slotSub s curr ∨ x.subno = 0) := by
  unfold terminatePage
  split
  · intro x hx; exact Or.inl hx
  · rename_i curr hcurr
    simp only []
    by_cases h1 : ((s.rp curr).page.function == FN_DISCARD || (s.rp curr).page.function == FN_EPG) = true
    · rw [if_pos h1]
      intro x hx; exact Or.inl hx
    rw [if_neg h1]
    have hnd : (s.rp curr).page.function ≠ FN_DISCARD := by
      intro e; apply h1; simp [e]
    by_cases h2 : ((s.rp curr).page.function == FN_LOP) = true
    · rw [if_pos h2]
      have hk := lopParityCheck_keys (s.rp curr).page (s.rp curr)
      have hs := storeLop_keys (s.setRp curr { (lopParityCheck (s.rp curr).page (s.rp curr)).2 with
          page := (lopParityCheck (s.rp curr).page (s.rp curr)).1 }) (lopParityCheck (s.rp curr).page (s.rp curr)).1
      intro x hx
      rcases hs x hx with h | h
      · exact Or.inl h
      · rw [hk.1, hk.2.1] at h
        exact Or.inr ⟨curr, hcurr, hnd, h.1, h.2⟩
    rw [if_neg h2]
    by_cases h3 : ((s.rp curr).page.function == FN_DRCS || (s.rp curr).page.function == FN_GDRCS) = true
    · rw [if_pos h3]
      intro x hx
      rcases stPut_keys s (s.rp curr).page x hx with h | h
      · exact Or.inl h
      · exact Or.inr ⟨curr, hcurr, hnd, h.1, h.2⟩
    rw [if_neg h3]
    by_cases h4 : ((s.rp curr).page.function == FN_MIP) = true
    · rw [if_pos h4]
      have hsub := parseMip_sub s.net (s.rp curr).page
      generalize parseMip s.net (s.rp curr).page = r at hsub ⊢
      intro x hx
      exact Or.inl (hsub x hx)
    rw [if_neg h4]
    by_cases h5 : ((s.rp curr).page.function == FN_EACEM) = true
    · rw [if_pos h5]
      intro x hx; exact Or.inl hx
    rw [if_neg h5]
    intro x hx
    rcases stPut_keys s (s.rp curr).page x hx with h | h
    · exact Or.inl h
    · exact Or.inr ⟨curr, hcurr, hnd, h.1, h.2⟩

/-- ... so, with the slots holding numbers of accepted headers (`AsmOk`), the cache stays clean -/
theorem terminatePage_cacheOk (s : St) (H : List Packet) (mag0 pgno page : Nat) (hm : mag0 < 8)
    (hok : AsmOk s H) (hc : CacheOk s H) : CacheOk (terminatePage s mag0 pgno page).1 H := by
  intro x hx
  rcases terminatePage_cache s mag0 pgno page x hx with h | ⟨curr, hcurr, hnd, hp, hs⟩
  · exact hc x h
  · have hlt := terminatedSlot_lt s mag0 pgno page curr hm hok.cur hcurr
    have hsent := hok.slot curr hlt hnd
    rw [hp]
    rcases hs with hs | hs
    · rw [hs]; exact hsent.key
    · rw [hs]; exact hsent.key0

/-! ## the branches of `process` -/

/-- the header branch: after `terminatePage` only look-ups, `convertPage`, `setStat` follow -/
theorem processHeader_cacheOk (s : St) (H : List Packet) (mag0 mag8 : Nat) (v : View) (hm : mag0 < 8)
    (hok : AsmOk s H) (hc : CacheOk s H) : CacheOk (processHeader s mag0 mag8 v).1.st H := by
  unfold processHeader
  cases hpg : v.g16 0 with
  | none =>
    simp only []
    exact hc
  | some page =>
    simp only []
    have hT := terminatePage_cacheOk s H mag0 (mag8 * 256 + page) page hm hok hc
    generalize terminatePage s mag0 (mag8 * 256 + page) page = t at hT
    split
    · exact hT
    · intro x hx
      have hsub := (headerPage_fields
        ({ t.1.setPage mag0 { (t.1.rp mag0).page with pgno := mag8 * 256 + page } with current := some mag0 } : St).net
        { (t.1.rp mag0).page with pgno := mag8 * 256 + page } page
        (v.g16i 2 + v.g16i 4 * 256).toNat (v.g16i 6).toNat
        (zeroRow.take 8 ++ v.raw.drop 8)).2.1
      exact hT x (hsub x hx)

theorem process_cacheOk (s : St) (H : List Packet) (pmag : Nat) (v : View)
    (hok : AsmOk s H) (hc : CacheOk s H) : CacheOk (process s pmag v).1.st H := by
  by_cases h0 : pmag >>> 3 = 0
  · unfold process
    simp only []
    by_cases c1 : (decide (pmag >>> 3 < 30) && !s.mask) = true
    · rw [if_pos c1]; exact hc
    rw [if_neg c1]
    have c2 : (pmag >>> 3 == 0) = true := by simpa using h0
    rw [if_pos c2]
    exact processHeader_cacheOk s H _ _ v (and7_lt pmag) hok hc
  · rcases (process_quiet s pmag v h0).1 with h | h
    · exact hc.sub h.cache
    · rw [h.1]; exact hc

theorem decode_cacheOk (s : St) (H : List Packet) (p : Packet) (hok : AsmOk s H) (hc : CacheOk s H) :
    CacheOk (decodeTeletext s p).st H := by
  unfold decodeTeletext
  cases ha : a16 p 0 with
  | none => exact hc
  | some pmag =>
    simp only []
    have h := process_cacheOk s H pmag (view (kindOf s pmag (a8 p 2)) p) hok hc
    unfold finish
    split
    · exact h
    · exact h

theorem frameTick_cacheOk (s : St) (H : List Packet) (hc : CacheOk s H) : CacheOk (frameTick s).1 H := by
  unfold frameTick
  simp only []
  split
  · split
    · intro x hx; rw [chswReset_cache] at hx; cases hx
    · exact hc
  · exact hc

theorem step_cacheOk (s : St) (H : List Packet) (p : Packet) (hok : AsmOk s H) (hc : CacheOk s H) :
    CacheOk (step s p).1 (H ++ [p]) := by
  unfold step
  simp only []
  have h1 := frameTick_ok s H hok
  have h2 := frameTick_cacheOk s H hc
  exact (decode_cacheOk (frameTick s).1 H p h1.1 h2).mono [p]

/-- over every history: the slots and the cache content hold numbers of accepted headers only -/
theorem run_cacheOk (s : St) (H ps : List Packet) (hok : AsmOk s H) (hc : CacheOk s H) :
    CacheOk (run s ps).1 (H ++ ps) := by
  unfold run
  have gen : ∀ (ps : List Packet) (s : St) (H : List Packet) (ev : List Event), AsmOk s H → CacheOk s H →
      CacheOk (ps.foldl (fun (acc : St × List Event) p => ((step acc.1 p).1, acc.2 ++ (step acc.1 p).2)) (s, ev)).1
        (H ++ ps) := by
    intro ps
    induction ps with
    | nil => intro s H ev _ hc; simpa using hc
    | cons p ps ih =>
      intro s H ev hok hc
      simp only [List.foldl_cons]
      have := ih (step s p).1 (H ++ [p]) (ev ++ (step s p).2) (step_ok s H p hok).1 (step_cacheOk s H p hok hc)
      simpa [List.append_assoc] using this
  exact gen ps s H [] hok hc

theorem init_cacheOk (on : Bool) : CacheOk (init.enable on) [] := by
  have : (init.enable on).net.cache = [] := by cases on <;> rfl
  intro x hx; rw [this] at hx; cases hx

end Zvbi.Ttx
