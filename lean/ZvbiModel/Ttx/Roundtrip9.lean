import ZvbiModel.Ttx.Roundtrip8
/-!
# C02 round 4, part 9: magazine isolation in parallel mode

`Benign s p m' k`: what a packet `p` (magazine `m'`, packet number `k`) must avoid in state `s` so that it cannot
disturb the page another magazine is assembling - exactly the four interferences E1-E4 of NOTES/C02.md.
`foreign_step`: a benign packet of magazine `m' ≠ m` leaves slot `m` untouched, keeps the invariant `IInv`
(array shapes, handler, every magazine in parallel mode, every slot holds a page of its own magazine), and
its TTX_PAGE events carry page numbers of magazine `m'`.
-/
namespace Zvbi.Ttx
open Zvbi.Hamm Zvbi.Gen Zvbi.Ttx.Spec

/-! ## bounds on decoded bytes -/

theorem unham8_lt16 (b v : Nat) (h : unham8 b = some v) : v < 16 := by
  have hx := unham8_range (b % 256) (Nat.mod_lt _ (by decide)) v
  apply hx
  have : unham8 (b % 256) = unham8 b := by unfold unham8; simp
  rw [this]; exact h

theorem a16_lt (p : Packet) (i v : Nat) (h : a16 p i = some v) : v < 256 := by
  obtain ⟨a, b, ha, hb, rfl⟩ := a16_some p i v h
  have h1 := unham8_lt16 _ a ha
  have h2 := unham8_lt16 _ b hb
  have e1 : a < 2 ^ 8 := by omega
  have e2 : b <<< 4 < 2 ^ 8 := by rw [Nat.shiftLeft_eq]; omega
  exact Nat.or_lt_two_pow e1 e2

theorem mag8Of_inj : ∀ a < 8, ∀ b < 8, mag8Of a = mag8Of b → a = b := by decide
theorem mag8Of_le : ∀ a < 8, 1 ≤ mag8Of a ∧ mag8Of a ≤ 8 := by decide

/-! ## the invariant of a parallel-mode network -/

/-- no page in progress carries C11 (magazine serial) -/
def AllParallel (s : St) : Prop := ∀ c, c < 8 → (s.rp c).page.flags &&& C11_MAGAZINE_SERIAL = 0

/-- a slot that is not discarded holds a page of its own magazine -/
def SlotsOwn (s : St) : Prop :=
  ∀ c, c < 8 → (s.rp c).page.function ≠ FN_DISCARD → ∃ page, page < 256 ∧ (s.rp c).page.pgno = mag8Of c * 256 + page

structure IInv (s : St) : Prop where
  shape : Shape s
  mask : s.mask = true
  par : AllParallel s
  own : SlotsOwn s

theorem IInv.tick {s : St} (h : IInv s) : IInv (tick s) := ⟨tick_shape h.shape, h.mask, h.par, h.own⟩

theorem IInv.quiet {s s' : St} {m : Nat} (h : IInv s) (q : Quiet s s' m) : IInv s' := by
  refine ⟨h.shape.quiet q, by rw [q.mask]; exact h.mask, ?_, ?_⟩
  · intro c hc
    by_cases e : c = m
    · subst e; rw [q.flags]; exact h.par c hc
    · rw [q.other c e]; exact h.par c hc
  · intro c hc hf
    by_cases e : c = m
    · subst e; rw [q.pgno]; exact h.own c hc (q.disc hf)
    · rw [q.other c e] at hf ⊢; exact h.own c hc hf

theorem parallelCur_of (s : St) (hs : Shape s) (hp : AllParallel s) (c : Nat) (hc : s.current = some c) : ParallelCur s :=
  ⟨c, hc, hp c (hs.cur c hc)⟩

/-- in a parallel-mode state a header of magazine `m'` terminates the page of `m'` or nothing -/
theorem terminatedSlot_allParallel (s : St) (hs : Shape s) (hp : AllParallel s) (m' pgno page : Nat) :
    terminatedSlot s m' pgno page = none ∨ terminatedSlot s m' pgno page = some m' := by
  unfold terminatedSlot
  cases hc : s.current with
  | none => exact Or.inl rfl
  | some cmag =>
    simp only []
    have := hp cmag (hs.cur cmag hc)
    simp only [this]
    cases ttxFixSerialErase <;> simp <;> intro _ <;> exact Decidable.em _

/-! ## benign foreign packets -/

/-- a packet of magazine `m'` with packet number `k` that cannot disturb other magazines in state `s` -/
structure Benign (s : St) (p : Packet) (m' k : Nat) : Prop where
  /-- E1: a header whose page number is uncorrectable makes packet.c call `vbi_teletext_desync` -/
  pgno : k = 0 → ∃ page, a16 p 2 = some page
  /-- E2: packet 26 on a page believed to be (G)DRCS / BTT / AIT / MPT / MPT-EX: `vbi_teletext_desync` -/
  x26 : k = 26 → ¬ X26Desync (s.rp m').page.function
  /-- E3: the page it terminates fails the rolling-header test: `vbi_chsw_reset` empties the cache -/
  nosw : Event.chsw ∉ (step s p).2
  /-- E4: a header carrying C11 (magazine serial) redirects the next termination to its own slot -/
  par : k = 0 → ∀ fl, a16 p 8 = some fl → fl &&& 0x10 = 0

theorem pgno_ne (m m' page page' : Nat) (hm : m < 8) (hm' : m' < 8) (hne : m' ≠ m) (h1 : page < 256) (h2 : page' < 256) :
    mag8Of m' * 256 + page' ≠ mag8Of m * 256 + page := by
  intro h
  have : mag8Of m' = mag8Of m := by omega
  exact hne (mag8Of_inj m' hm' m hm this)

theorem foreign_decode (s : St) (p : Packet) (m m' k : Nat) (hne : m' ≠ m) (hp : IsPacket p m' k) (hi : IInv s)
    (hpg : k = 0 → ∃ page, a16 p 2 = some page) (hx26 : k = 26 → ¬ X26Desync (s.rp m').page.function)
    (hnosw : Event.chsw ∉ (decodeTeletext s p).ev) (hpar : k = 0 → ∀ fl, a16 p 8 = some fl → fl &&& 0x10 = 0) :
    IInv (decodeTeletext s p).st ∧ (decodeTeletext s p).st.rp m = s.rp m
    ∧ (∀ x ∈ ttxPages (decodeTeletext s p).ev, ∃ page, page < 256 ∧ x.1 = mag8Of m' * 256 + page)
    ∧ ((∃ c, s.current = some c) → ∃ c, (decodeTeletext s p).st.current = some c) := by
  obtain ⟨hm', hk32, ha⟩ := hp
  obtain ⟨a1, a2⟩ := addr_split m' hm' k hk32
  have hne' : m ≠ m' := fun e => hne e.symm
  by_cases hk : k = 0
  · -- a page header of magazine m'
    have h0 : (m' + 8 * k) >>> 3 = 0 := by rw [a2]; exact hk
    have hl : (m' + 8 * k) &&& 7 < s.raw.length := by rw [a1, hi.shape.len]; exact hm'
    obtain ⟨sh, hmask⟩ := decode_shape s p hi.shape
    rcases decode_header_frame s p (m' + 8 * k) ha h0 hi.mask hl rfl with ⟨hn, _⟩ | ⟨page, hpage, hs, l, hev⟩
    · obtain ⟨pg, hpg'⟩ := hpg hk
      rw [hpg'] at hn; cases hn
    · rw [a1] at hs hev
      have hmag8 : (if (m' == 0) = true then 8 else m') = mag8Of m' := rfl
      rw [hmag8] at hs hev
      have hcl := terminatePage_closed s m' (mag8Of m' * 256 + page) page
      have hts := terminatedSlot_allParallel s hi.shape hi.par m' (mag8Of m' * 256 + page) page
      generalize terminatePage s m' (mag8Of m' * 256 + page) page = T at hs hev hcl
      obtain ⟨t, evt⟩ := T
      simp only [] at hs hev hcl
      have hn : Event.chsw ∉ evt := by
        intro h; apply hnosw; rw [hev]; exact List.mem_append_left _ h
      have htsm : terminatedSlot s m' (mag8Of m' * 256 + page) page ≠ some m := by
        rcases hts with h | h <;> rw [h]
        · exact fun e => by cases e
        · intro e; injection e with e; exact hne e
      have hpage_lt := a16_lt p 2 page hpage
      refine ⟨⟨sh, by rw [hmask]; exact hi.mask, ?_, ?_⟩, ?_, ?_, ?_⟩
      · -- all magazines stay in parallel mode
        intro c hc
        by_cases e : c = m'
        · subst e
          rcases hs.flags with ⟨_, hfl, _⟩ | ⟨s12, s34, fl, e1, e2, e3, hfl, _⟩
          · rw [hfl, (hcl.slots c).id.1]; exact hi.par c hc
          · have b1 := a16_lt p 4 s12 e1
            have b2 := a16_lt p 6 s34 e2
            have b3 := a16_lt p 8 fl e3
            obtain ⟨c1, c2⟩ := c11_clear fl (s12 + s34 * 256) b3 (by omega) (hpar hk fl e3)
            rcases hfl with hfl | hfl <;> rw [hfl] <;> assumption
        · rw [hs.other c e, (hcl.slots c).id.1]; exact hi.par c hc
      · -- every slot holds a page of its own magazine
        intro c hc hf
        by_cases e : c = m'
        · subst e; exact ⟨page, hpage_lt, hs.pgno⟩
        · rw [hs.other c e] at hf ⊢
          rcases hcl.slots c with h | ⟨h, _⟩
          · rw [h] at hf ⊢; exact hi.own c hc hf
          · exact absurd h hf
      · rw [hs.other m hne']
        exact hcl.other hn m htsm
      · intro x hx
        rw [hev, ttxPages_append, ttxPages_liftAux, List.append_nil] at hx
        obtain ⟨c, hc, hxe, hfn⟩ := hcl.pages x hx
        have hcm : c = m' := by
          rcases hts with h | h <;> rw [h] at hc
          · cases hc
          · injection hc with hc; exact hc.symm
        subst hcm
        obtain ⟨pg, hpg1, hpg2⟩ := hi.own c hm' (by rw [hfn]; decide)
        exact ⟨pg, hpg1, by rw [hxe]; exact hpg2⟩
      · intro _; exact ⟨m', hs.cur⟩
  · -- any other packet of magazine m'
    have h0 : (m' + 8 * k) >>> 3 ≠ 0 := by rw [a2]; exact hk
    obtain ⟨hq, hsil⟩ := decode_quiet s p (m' + 8 * k) ha h0
    rw [a1, a2] at hq
    rcases hq with hq | ⟨_, h26, _, hx⟩
    · refine ⟨hi.quiet hq, hq.other m hne', ?_, ?_⟩
      · intro x hx; rw [hsil.pages] at hx; cases hx
      · intro ⟨c, hc⟩; exact ⟨c, by rw [hq.cur]; exact hc⟩
    · exact absurd hx (hx26 h26)

/-- **magazine isolation**: a benign packet of another magazine leaves slot `m` untouched, keeps `IInv`, and
    its TTX_PAGE events carry page numbers of its own magazine -/
theorem foreign_step (s : St) (p : Packet) (m m' k : Nat) (hne : m' ≠ m) (hp : IsPacket p m' k)
    (hi : IInv s) (hb : Benign s p m' k) :
    IInv (step s p).1 ∧ (step s p).1.rp m = s.rp m
    ∧ (∀ x ∈ ttxPages (step s p).2, ∃ page, page < 256 ∧ x.1 = mag8Of m' * 256 + page)
    ∧ ((∃ c, s.current = some c) → ∃ c, (step s p).1.current = some c) := by
  have hnosw := hb.nosw
  rw [step_eq_of_shape s p hi.shape] at hnosw ⊢
  exact foreign_decode (tick s) p m m' k hne hp hi.tick hb.pgno hb.x26 hnosw hb.par

end Zvbi.Ttx
