import ZvbiModel.Ttx.Lemmas
/-!
# Lemmas for C03, part 2: `decodeTeletext` factors through the accessor view
-/
namespace Zvbi.Ttx
open Zvbi.Hamm Zvbi.Gen Zvbi.Ttx.Spec

theorem protected_ge2_or_valid {s : St} {p : Packet} {i : Nat} (hp : Protected s p i) :
    i < 2 → IsHam8 (byte p i) := by
  intro hi
  cases hp with
  | addr i _ hv => exact hv
  | h8 pmag r ha hk hv => omega
  | h24 pmag j o ha hj ho hv => omega

theorem a8_2_flip {s : St} {p : Packet} {i b : Nat} (hw : WellFormed p) (hb : b < 8) (hp : Protected s p i) :
    a8 (flipBit p i b) 2 = a8 p 2 := by
  by_cases h2 : i = 2
  · cases hp with
    | addr i hi hv => omega
    | h8 pmag r ha hk hv =>
      have hr : r = 0 := by omega
      subst hr
      have hlen : 2 + 0 < p.length := by rw [hw.1]; omega
      unfold a8
      rw [byte_flip p (2 + 0) b 2 hlen]
      simp only [Nat.add_zero, if_true]
      exact unham8_flip _ b hv hb
    | h24 pmag j o ha hj ho hv => omega
  · exact a8_flip_ne p i b 2 (fun h => h2 h.symm)

theorem viewProt_of_protected {s : St} {p : Packet} {i pmag : Nat} (ha : a16 p 0 = some pmag)
    (hp : Protected s p i) : ViewProt (kindOf s pmag (a8 p 2)) p i := by
  cases hp with
  | addr i hi hv => exact ViewProt.addr i hi
  | h8 pmag' r ha' hk hv =>
    have : pmag' = pmag := by rw [ha'] at ha; exact Option.some.inj ha
    subst this
    exact ViewProt.h8 r hk hv
  | h24 pmag' j o ha' hj ho hv =>
    have : pmag' = pmag := by rw [ha'] at ha; exact Option.some.inj ha
    subst this
    exact ViewProt.h24 j o hj ho hv

/-- **view factoring of the decoder**: after a corrected single bit error the decoder computes
    exactly what it computes for the undamaged packet, from the same view; only the verbatim copy
    of the 8 header bytes (`hdr8`) can differ -/
theorem decode_flip (s : St) (p : Packet) (i b : Nat) (hw : WellFormed p) (hb : b < 8)
    (hp : Protected s p i) :
    decodeTeletext s (flipBit p i b) =
      match a16 p 0 with
      | none => ⟨s, [], false⟩
      | some pmag => finish (process s pmag (view (kindOf s pmag (a8 p 2)) p)) (pmag &&& 7) (hdr8 (flipBit p i b)) := by
  unfold decodeTeletext
  rw [a16_flip p i b hw hb (protected_ge2_or_valid hp), a8_2_flip hw hb hp]
  cases ha : a16 p 0 with
  | none => rfl
  | some pmag =>
    simp only []
    rw [view_flip _ p i b hw hb (viewProt_of_protected ha hp)]

theorem hdr8_flip_outside (p : Packet) (i b : Nat) (h : i < 2 ∨ 10 ≤ i) : hdr8 (flipBit p i b) = hdr8 p := by
  unfold hdr8
  apply List.map_congr_left
  intro r hr
  rw [List.mem_range] at hr
  exact byte_flip_ne p i b (2 + r) (by omega)

theorem process_copied (s : St) (pmag : Nat) (v : View) (h : (process s pmag v).2 = true) :
    pmag >>> 3 = 0 ∧ s.mask = true := by
  unfold process at h
  simp only [] at h
  by_cases c1 : (decide (pmag >>> 3 < 30) && !s.mask) = true
  · rw [if_pos c1] at h; simp at h
  · rw [if_neg c1] at h
    by_cases c2 : (pmag >>> 3 == 0) = true
    · have h0 : pmag >>> 3 = 0 := by simpa using c2
      refine ⟨h0, ?_⟩
      rw [h0] at c1
      simpa using c1
    · rw [if_neg c2] at h
      repeat' (split at h)
      all_goals simp at h

theorem kindOf_hdr (s : St) (pmag : Nat) (d : Option Nat) (h0 : pmag >>> 3 = 0) (hm : s.mask = true) :
    kindOf s pmag d = Kind.hdr := by
  unfold kindOf
  simp [h0, hm]

/-- the decoder result does not depend on the verbatim header bytes unless a header was copied -/
theorem finish_irrelevant (s : St) (pmag : Nat) (d : Option Nat) (v : View) (a b : List Nat)
    (hk : kindOf s pmag d ≠ Kind.hdr) :
    finish (process s pmag v) (pmag &&& 7) a = finish (process s pmag v) (pmag &&& 7) b := by
  unfold finish
  by_cases hc : (process s pmag v).2 = true
  · obtain ⟨h0, hm⟩ := process_copied s pmag v hc
    exact absurd (kindOf_hdr s pmag d h0 hm) hk
  · simp [hc]

/-- `Protected` position, not one of the verbatim header bytes: full equality -/
theorem decode_flip_eq (s : St) (p : Packet) (i b : Nat) (hw : WellFormed p) (hb : b < 8)
    (hp : Protected s p i) (hh : ¬ IsHdr8 s p i) :
    decodeTeletext s (flipBit p i b) = decodeTeletext s p := by
  rw [decode_flip s p i b hw hb hp]
  unfold decodeTeletext
  cases ha : a16 p 0 with
  | none => rfl
  | some pmag =>
    simp only []
    by_cases hpos : i < 2 ∨ 10 ≤ i
    · rw [hdr8_flip_outside p i b hpos]
    · have hk : kindOf s pmag (a8 p 2) ≠ Kind.hdr := by
        intro hk
        exact hh ⟨by omega, by omega, pmag, ha, hk⟩
      exact finish_irrelevant s pmag (a8 p 2) _ _ _ hk

end Zvbi.Ttx
