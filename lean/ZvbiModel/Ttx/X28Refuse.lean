import ZvbiModel.Ttx.Lemmas3
/-!
# Lemmas for C03, round 6: packets X/28 and M/29 with an uncorrectable protected unit are refused

`parse_28_29` decodes the designation byte (Hamming 8/4) and all 13 triplets (Hamming 24/18) before it
looks at the format; `err |= triplets[i]` collects the sign bit of every triplet.  The lemmas say what
`x28Decide` / `parse2829` / `process` do on the `.trip` view of such a packet.
-/
namespace Zvbi.Ttx
open Zvbi.Hamm Zvbi.Gen Zvbi.Ttx.Spec

theorem view_trip_g8_0 (p : Packet) : (view Kind.trip p).g8 0 = a8 p 2 := by
  rw [view_g8 _ p 0 (by omega)]
  simp [Kind.isH8]

theorem view_trip_g24 (p : Packet) (j : Nat) (hj : j < 13) : (view Kind.trip p).g24 j = a24 p (3 + 3 * j) := by
  unfold View.g24 view
  simp [List.getD_eq_getElem?_getD, hj, Kind.nTrip]

/-- `err < 0` after the decode loop: some triplet of the packet is uncorrectable -/
theorem x28_err_of_bad (p : Packet) (j : Nat) (hj : j < 13) (hbad : a24 p (3 + 3 * j) = none) :
    ((List.range 13).any fun k => ((view Kind.trip p).g24 k).isNone) = true := by
  rw [List.any_eq_true]
  refine ⟨j, List.mem_range.mpr hj, ?_⟩
  rw [view_trip_g24 p j hj, hbad]
  rfl

/-- the formats of `parse_28_29` that read the bit stream of the 13 triplets: X/28/0, X/28/4, M/29/0,
    M/29/4 (extension, CLUT 2/3 or 0/1), X/28/1, M/29/1 (DRCS CLUT), X/28/3 (DRCS modes) -/
def X28UsesTriplets (packet d : Nat) : Prop :=
  d = 0 ∨ d = 4 ∨ d = 1 ∨ (d = 3 ∧ packet = 28)

instance (packet d : Nat) : Decidable (X28UsesTriplets packet d) := by
  unfold X28UsesTriplets; exact inferInstance

/-- the decision of `parse_28_29` on a packet of a triplet-using format with an uncorrectable triplet:
    `return FALSE` before anything is written (designation 1: with repair F25 in, `ttxFixF25`) -/
theorem x28Decide_bad_triplet (fn : Int) (packet d : Nat) (p : Packet) (j : Nat)
    (hd : a8 p 2 = some d) (hfmt : X28UsesTriplets packet d) (h25 : ttxFixF25 = true ∨ d ≠ 1)
    (hj : j < 13) (hbad : a24 p (3 + 3 * j) = none) :
    x28Decide fn packet (view Kind.trip p) = .nop false := by
  have herr := x28_err_of_bad p j hj hbad
  unfold x28Decide
  rw [view_trip_g8_0, hd]
  simp only [herr]
  rcases hfmt with h | h | h | ⟨h, hp⟩
  · subst h; simp
  · subst h; simp
  · subst h
    rcases h25 with h25 | h25
    · simp [h25]
    · exact absurd rfl h25
  · subst h; subst hp; simp

theorem x28Decide_bad_designation (fn : Int) (packet : Nat) (p : Packet) (hd : a8 p 2 = none) :
    x28Decide fn packet (view Kind.trip p) = .nop false := by
  unfold x28Decide
  rw [view_trip_g8_0, hd]

/-- formats which `parse_28_29` ignores (designation 2, 5..15, M/29/3): nothing is read from the triplets -/
theorem x28Decide_unused_format (fn : Int) (packet d : Nat) (p : Packet)
    (hd : a8 p 2 = some d) (hfmt : ¬ X28UsesTriplets packet d) (hp : packet = 28 ∨ packet = 29) :
    x28Decide fn packet (view Kind.trip p) = .nop true := by
  unfold X28UsesTriplets at hfmt
  unfold x28Decide
  rw [view_trip_g8_0, hd]
  have h0 : (d == 0) = false := by simp; omega
  have h4 : (d == 4) = false := by simp; omega
  have h1 : (d == 1) = false := by simp; omega
  simp only [h0, h4, h1, Bool.or_false, Bool.false_eq_true, if_false]
  by_cases h3 : d = 3
  · subst h3
    have : packet = 29 := by omega
    subst this
    simp
  · have : (d == 3) = false := by simp; omega
    simp [this]

/-- packets 28 / 29 through `process`: the kind of view and the dispatch -/
theorem kindOf_2829 (s : St) (pmag : Nat) (dsg : Option Nat) (hm : s.mask = true)
    (hp : pmag >>> 3 = 28 ∨ pmag >>> 3 = 29)
    (hnd : ¬ (pmag >>> 3 = 28 ∧ (s.rp (pmag &&& 7)).page.function = FN_DISCARD)) :
    kindOf s pmag dsg = Kind.trip := by
  unfold kindOf
  rcases hp with hp | hp
  · have hf : ((s.rp (pmag &&& 7)).page.function == FN_DISCARD) = false := by
      have : (s.rp (pmag &&& 7)).page.function ≠ FN_DISCARD := fun h => hnd ⟨hp, h⟩
      simpa using this
    simp [hp, hm, hf]
  · simp [hp, hm]

theorem process_2829 (s : St) (pmag : Nat) (v : View) (hm : s.mask = true)
    (hp : pmag >>> 3 = 28 ∨ pmag >>> 3 = 29)
    (hnd : ¬ (pmag >>> 3 = 28 ∧ (s.rp (pmag &&& 7)).page.function = FN_DISCARD)) :
    process s pmag v =
      (let r := parse2829 s (pmag &&& 7) (if (pmag &&& 7) == 0 then 8 else pmag &&& 7) (pmag >>> 3) v
       (⟨r.1, liftAux r.2.1, r.2.2⟩, false)) := by
  unfold process
  rcases hp with hp | hp
  · have hf : ((s.rp (pmag &&& 7)).page.function == FN_DISCARD) = false := by
      have : (s.rp (pmag &&& 7)).page.function ≠ FN_DISCARD := fun h => hnd ⟨hp, h⟩
      simpa using this
    simp [hp, hm, hf]
  · simp [hp, hm]

theorem parse2829_nop (s : St) (mag0 mag8 packet : Nat) (v : View) (r : Bool)
    (h : x28Decide (s.rp mag0).page.function packet v = .nop r) :
    parse2829 s mag0 mag8 packet v = (s, [], r) := by
  unfold parse2829
  simp only [h]

/-- what `vbi_decode_teletext` does with a packet 28 / 29 which the decoder does not dispatch to
    `parse_28_29`: no Teletext handler (packets below 30 are ignored), or X/28 of a discarded page -/
theorem decode_2829_not_parsed (s : St) (p : Packet) (pmag : Nat) (ha : a16 p 0 = some pmag)
    (hp : pmag >>> 3 = 28 ∨ pmag >>> 3 = 29)
    (h : s.mask = false ∨ (pmag >>> 3 = 28 ∧ (s.rp (pmag &&& 7)).page.function = FN_DISCARD)) :
    decodeTeletext s p = ⟨s, [], true⟩ := by
  unfold decodeTeletext
  rw [ha]
  unfold finish process
  by_cases hm : s.mask = true
  · rcases h with h | ⟨h28, hf⟩
    · rw [h] at hm; exact absurd hm (by simp)
    · have hf' : ((s.rp (pmag &&& 7)).page.function == FN_DISCARD) = true := by simpa using hf
      simp [h28, hm, hf']
  · have hm' : s.mask = false := by simpa using hm
    rcases hp with hp | hp <;> simp [hp, hm']

end Zvbi.Ttx
