import ZvbiModel.Ttx.Roundtrip2
/-!
# Lemmas for C02 `page_roundtrip`, part 3: the header of a text page

(i) `headerPage_text`: "Prepare for new page" on an accepted header of a decimal page = a text page
(LOP) carrying the transmitted numbers and flags, whose rows are those of the cached earlier
version (header row replaced) or blanks.  Needs: the cached version (if one is found) is a text
page, and the page type the network announced for this number (MIP / BTT) does not say otherwise
(`TextPage`): else packet.c gives the page another function and never treats it as text.
-/
namespace Zvbi.Ttx
open Zvbi.Hamm Zvbi.Gen Zvbi.Ttx.Spec

/-! ## (i) the header of a text page -/

/-- a decimal page number byte (tens and units 0..9) -/
def decimalPage (page : Nat) : Prop := page ≤ 0x99 ∧ page &&& 15 ≤ 9

theorem headerLookup_net (n : Net) (cv : Page) :
    (headerLookup n cv).2.1.stat = n.stat ∧ (headerLookup n cv).2.1.bttLink = n.bttLink := by
  unfold headerLookup Net.get
  split
  · split <;> exact ⟨rfl, rfl⟩
  · exact ⟨rfl, rfl⟩

theorem functionOfType_congr (n n' : Net) (t pgno page : Nat) (h : n'.bttLink = n.bttLink) :
    functionOfType n' t pgno page = functionOfType n t pgno page := by
  unfold functionOfType
  rw [h]

theorem getStat_congr (n n' : Net) (pgno : Nat) (h : n'.stat = n.stat) : n'.getStat pgno = n.getStat pgno := by
  unfold Net.getStat; rw [h]

/-- the network has not announced (MIP, BTT) a page function other than "text page" for `pgno` -/
def TextType (n : Net) (pgno page : Nat) : Prop :=
  functionOfType n (n.getStat pgno).pageType pgno page = FN_LOP

/-- what the header needs to open a Level 1 text page: a cached earlier version must be a text page
    (or still unclassified); when the function is not inherited the announced page type must not say
    otherwise -/
def TextPage (n : Net) (pgno page : Nat) (prev : Option Page) : Prop :=
  match prev with
  | some q => q.function = FN_LOP ∨ (q.function = FN_UNKNOWN ∧ TextType n pgno page)
  | none => TextType n pgno page

theorem headerConvert_lop (n : Net) (cv : Page) (page : Nat) (h : cv.function = FN_LOP) :
    headerConvert n cv page = (cv, n, []) := by
  unfold headerConvert
  have : (cv.function == FN_UNKNOWN) = false := by rw [h]; decide
  simp [this]

theorem headerConvert_unknown (n : Net) (cv : Page) (page : Nat) (h : cv.function = FN_UNKNOWN)
    (ht : TextType n cv.pgno page) :
    headerConvert n cv page = ({ cv with function := FN_LOP }, n, []) := by
  unfold headerConvert
  unfold TextType at ht
  have h1 : (cv.function == FN_UNKNOWN) = true := by rw [h]; decide
  simp only [h1, if_true, ht]
  have h2 : (FN_LOP != FN_UNKNOWN) = true := by decide
  simp only [h2, if_true]
  unfold convertPage
  have h3 : (cv.function != FN_UNKNOWN) = false := by rw [h]; decide
  have h4 : (FN_LOP == FN_LOP) = true := by decide
  simp only [h3, h4, Bool.false_eq_true, if_false, if_true]

/-- the header fields written into the assembly page before the cache look-up -/
def hdrFields (cv0 : Page) (subpage fl : Nat) : Page :=
  { cv0 with subno := subpage &&& 0x3F7F, national := rev8 fl &&& 7, flags := (fl <<< 16) + subpage }

theorem headerFromCache_text (cv q : Page) (row0 : List Nat) (hq : q.function = FN_LOP ∨ q.function = FN_UNKNOWN) :
    (headerFromCache cv q row0).1.function = q.function ∧ (headerFromCache cv q row0).1.pgno = cv.pgno
    ∧ (headerFromCache cv q row0).1.subno = cv.subno ∧ (headerFromCache cv q row0).1.national = cv.national
    ∧ (headerFromCache cv q row0).1.flags = cv.flags ∧ (headerFromCache cv q row0).1.raw = q.raw.set 0 row0
    ∧ (headerFromCache cv q row0).2 = true := by
  unfold headerFromCache
  have c1 : (q.function == FN_UNKNOWN || q.function == FN_LOP) = true := by
    rcases hq with hq | hq <;> rw [hq] <;> decide
  simp [c1]

/-- **(i)** "Prepare for new page" for a decimal page: the assembly page becomes a text page (LOP)
    with the transmitted numbers and flags, whose rows are those of the cached version found (header
    row replaced) or blanks -/
theorem headerPage_text (n : Net) (cv0 : Page) (mag8 page subpage fl : Nat) (row0 : List Nat)
    (hpg : cv0.pgno = mag8 * 256 + page) (hdec : decimalPage page)
    (htext : TextPage n cv0.pgno page (headerLookup n (hdrFields cv0 subpage fl)).1) :
    (headerPage n cv0 page subpage fl row0).1.function = FN_LOP
    ∧ (headerPage n cv0 page subpage fl row0).1.pgno = cv0.pgno
    ∧ (headerPage n cv0 page subpage fl row0).1.subno = subpage &&& 0x3F7F
    ∧ (headerPage n cv0 page subpage fl row0).1.national = rev8 fl &&& 7
    ∧ (headerPage n cv0 page subpage fl row0).1.flags = (match (headerLookup n (hdrFields cv0 subpage fl)).1 with
        | some _ => (fl <<< 16) + subpage
        | none => ((fl <<< 16) + subpage) ||| C4_ERASE_PAGE)
    ∧ (headerPage n cv0 page subpage fl row0).1.raw = (match (headerLookup n (hdrFields cv0 subpage fl)).1 with
        | some q => q.raw.set 0 row0
        | none => row0 :: List.replicate 25 blankRow)
    ∧ (headerPage n cv0 page subpage fl row0).2.2.2 = true
    ∧ (headerPage n cv0 page subpage fl row0).2.1 = (headerLookup n (hdrFields cv0 subpage fl)).2.1 := by
  obtain ⟨hst, hbl⟩ := headerLookup_net n (hdrFields cv0 subpage fl)
  have htt : ∀ (x : Page), x.pgno = cv0.pgno → TextType n cv0.pgno page →
      TextType (headerLookup n (hdrFields cv0 subpage fl)).2.1 x.pgno page := by
    intro x hx ht
    unfold TextType at ht ⊢
    rw [hx, functionOfType_congr n _ _ _ _ hbl, getStat_congr n _ _ hst]; exact ht
  have hcv : ({ cv0 with subno := subpage &&& 0x3F7F, national := rev8 fl &&& 7, flags := (fl <<< 16) + subpage } : Page) = hdrFields cv0 subpage fl := rfl
  unfold headerPage
  simp only [hcv]
  cases hlk : (headerLookup n (hdrFields cv0 subpage fl)).1 with
  | some q =>
    rw [hlk] at htext
    simp only []
    have hq' : q.function = FN_LOP ∨ q.function = FN_UNKNOWN := by
      rcases htext with h | ⟨h, _⟩
      · exact Or.inl h
      · exact Or.inr h
    obtain ⟨g1, g2, g3, g4, g5, g6, g7⟩ := headerFromCache_text (hdrFields cv0 subpage fl) q row0 hq'
    rcases htext with hq | ⟨hq, ht⟩
    · rw [headerConvert_lop _ (headerFromCache (hdrFields cv0 subpage fl) q row0).1 _ (by rw [g1]; exact hq)]
      exact ⟨by rw [g1]; exact hq, g2, g3, g4, g5, g6, g7, rfl⟩
    · rw [headerConvert_unknown _ (headerFromCache (hdrFields cv0 subpage fl) q row0).1 _ (by rw [g1]; exact hq)
        (htt _ g2 ht)]
      exact ⟨rfl, g2, g3, g4, g5, g6, g7, rfl⟩
  | none =>
    rw [hlk] at htext
    simp only []
    unfold headerFresh
    obtain ⟨d1, d2⟩ := hdec
    have e1 : ((hdrFields cv0 subpage fl).pgno == 0x1F0) = false := by
      show (cv0.pgno == 0x1F0) = false
      rw [hpg]; simp; omega
    have e2 : ((hdrFields cv0 subpage fl).pgno == 0x1E7) = false := by
      show (cv0.pgno == 0x1E7) = false
      rw [hpg]; simp; omega
    have e3 : (page == 0xFD) = false := by simp; omega
    have e4 : (page == 0xFE) = false := by simp; omega
    simp only [e1, e2, e3, e4, Bool.false_eq_true, if_false]
    have key : ∀ X : Page, X.function = FN_UNKNOWN → X.pgno = cv0.pgno →
        headerConvert (headerLookup n (hdrFields cv0 subpage fl)).2.1 X page
          = ({ X with function := FN_LOP }, (headerLookup n (hdrFields cv0 subpage fl)).2.1, []) :=
      fun X h1 h2 => headerConvert_unknown _ X _ h1 (htt X h2 htext)
    rw [key]
    · exact ⟨rfl, rfl, rfl, rfl, rfl, rfl, trivial, rfl⟩
    · rfl
    · rfl

end Zvbi.Ttx
