import ZvbiModel.Ttx.SerialChain1
/-!
# C02, magazine-serial cycles, part 2: the induction over a cycle of transmissions of several magazines

A cycle is a list of `STx`; `ClaimsS cT s xs`, by recursion over the cycle (`s` = the state in which the transmission's
header arrives): the page is stored as `Fetched` says, its page type is not "clock page", and the final cache chain `cT`
finds under every predicate `f` that no LATER transmission disturbs (`UndistS`) what the chain found right after the
page was stored (`q :: rest`).  `schain_ind` / `schain_from`: the induction; `sclaims_split`: the claim at a position;
`sknown_of_claim`: exact and wildcard look-ups return the stored page when no later transmission carries its number.
-/
namespace Zvbi.Ttx
open Zvbi.Hamm Zvbi.Gen Zvbi.Ttx.Spec

/-- neighbours differ -/
def AltS : List Nat → Prop
  | a :: b :: r => a ≠ b ∧ AltS (b :: r)
  | _ => True

def ClaimsS (cT : List Page) : St → List STx → Prop
  | _, [] => True
  | s, x :: xs =>
    (∃ q rest pt, Fetched q x.1 (s1S s x.1) x.2.1 x.rows pt ∧ pt ≠ PT_CLOCK
      ∧ ∀ f, (∀ y ∈ xs, UndistS f y.1) → cT.find? f = (q :: rest).find? f)
    ∧ ClaimsS cT (run s x.pkts).1 xs

/-- the induction: `s` = the state after the packets of `x0` (slot `x0.1.m` is `Assembled`), `xs` = the rest of the
    cycle, terminated by a header of magazine `mF` with page number `pgnoF` (only its termination block is looked at) -/
theorem schain_ind {tmpl : List Nat} {off : Nat} (mF pgnoF pageF : Nat) (hmF : mF < 8) :
    ∀ (xs : List STx) (s s1 : St) (x0 : STx),
    SInv tmpl off s → SSegOk tmpl off x0 → Assembled s s1 x0.1 x0.2.1 x0.rows → s1.mask = true → s1.chswcd = 0 →
    (s1.rp x0.1.m).lopRaw.length = 26 → (∀ r ∈ x0.rows, 1 ≤ r.1 ∧ r.1 ≤ 25 ∧ GoodRow r.2) →
    (∀ x ∈ xs, SSegOk tmpl off x) → AltS ((x0 :: xs).map (·.1.pgno) ++ [pgnoF]) →
    (∃ q rest pt, Fetched q x0.1 s1 x0.2.1 x0.rows pt ∧ pt ≠ PT_CLOCK
        ∧ ∀ f, (∀ y ∈ xs, UndistS f y.1) →
          (terminatePage (tick (run s (sstream xs)).1) mF pgnoF pageF).1.net.cache.find? f = (q :: rest).find? f)
    ∧ ClaimsS (terminatePage (tick (run s (sstream xs)).1) mF pgnoF pageF).1.net.cache s xs
    ∧ (∀ f, (∀ y ∈ x0 :: xs, UndistS f y.1) →
        (terminatePage (tick (run s (sstream xs)).1) mF pgnoF pageF).1.net.cache.find? f = s.net.cache.find? f)
    ∧ ttxPages ((run s (sstream xs)).2 ++ (terminatePage (tick (run s (sstream xs)).1) mF pgnoF pageF).2)
        = (x0 :: xs).map STx.key
    ∧ SInv tmpl off (run s (sstream xs)).1 := by
  intro xs
  induction xs with
  | nil =>
    intro s s1 x0 h h0 ha hmask1 hcd1 hL hrows _ halt
    have hne : pgnoF ≠ x0.1.pgno := fun e => halt.1 e.symm
    obtain ⟨q, rest, pt, c1, c2, c3, c4, c5⟩ := seg_close_serial s s1 h x0.1 x0.2.1 x0.rows ha hmask1 hcd1 h0.hdr h0.dec
      h0.ser hL hrows mF pgnoF pageF hmF hne
    simp only [sstream_nil, run_nil, List.nil_append]
    refine ⟨⟨q, rest, pt, c2, c3, fun f _ => by rw [c1]⟩, trivial, ?_, ?_, h⟩
    · intro f hu
      exact c5 f (hu _ List.mem_cons_self).put
    · rw [c4]; rfl
  | cons x1 xs ih =>
    intro s s1 x0 h h0 ha hmask1 hcd1 hL hrows hxs halt
    have h1 := hxs _ List.mem_cons_self
    have hne : x1.1.pgno ≠ x0.1.pgno := fun e => halt.1 e.symm
    -- closing x0 by the header of x1
    obtain ⟨q, rest, pt, c1, c2, c3, c4, c5⟩ := seg_close_serial s s1 h x0.1 x0.2.1 x0.rows ha hmask1 hcd1 h0.hdr h0.dec
      h0.ser hL hrows x1.1.m x1.1.pgno x1.1.page h1.hdr.mag hne
    -- opening x1
    obtain ⟨o1, o2, o3, o4, o5, o6, o7⟩ := seg_open_serial s h x1 h1
    have hs1 : s1S s x1.1 = (terminatePage (tick s) x1.1.m x1.1.pgno x1.1.page).1 := rfl
    have hopen : ∀ f, GetKeepsS f x1.1.pgno x1.1.subpage x1.1.fl →
        (run s x1.pkts).1.net.cache.find? f = (terminatePage (tick s) x1.1.m x1.1.pgno x1.1.page).1.net.cache.find? f := by
      intro f hg
      rw [o2.net, hs1]
      exact hg _
    -- the rest of the cycle
    obtain ⟨r1, r2, r3, r4, r5⟩ := ih (run s x1.pkts).1 (s1S s x1.1) x1 o1 h1 o2 o3 o4 o5 o6
      (fun x hx => hxs x (List.mem_cons_of_mem _ hx)) halt.2
    rw [sstream_cons, run_append]
    simp only []
    refine ⟨⟨q, rest, pt, c2, c3, ?_⟩, ⟨r1, r2⟩, ?_, ?_, r5⟩
    · intro f hu
      rw [r3 f hu, hopen f (hu _ List.mem_cons_self).get, c1]
    · intro f hu
      rw [r3 f (fun y hy => hu y (List.mem_cons_of_mem _ hy)),
        hopen f (hu _ (List.mem_cons_of_mem _ List.mem_cons_self)).get]
      exact c5 f (hu _ List.mem_cons_self).put
    · rw [List.append_assoc, ttxPages_append, r4, o7, c4]
      rfl

/-- **a whole magazine-serial cycle from any state of a text-only decoder**: the first header closes whatever page
    was in progress, then every transmission is claimed -/
theorem schain_from {tmpl : List Nat} {off : Nat} (mF pgnoF pageF : Nat) (hmF : mF < 8) (s : St) (h : SInv tmpl off s)
    (x0 : STx) (xs : List STx) (hx : ∀ x ∈ x0 :: xs, SSegOk tmpl off x)
    (halt : AltS ((x0 :: xs).map (·.1.pgno) ++ [pgnoF])) :
    ClaimsS (terminatePage (tick (run s (sstream (x0 :: xs))).1) mF pgnoF pageF).1.net.cache s (x0 :: xs)
    ∧ ttxPages ((run s (sstream (x0 :: xs))).2
        ++ (terminatePage (tick (run s (sstream (x0 :: xs))).1) mF pgnoF pageF).2)
      = ttxPages (terminatePage (tick s) x0.1.m x0.1.pgno x0.1.page).2 ++ (x0 :: xs).map STx.key
    ∧ SInv tmpl off (run s (sstream (x0 :: xs))).1 := by
  have h0 := hx _ List.mem_cons_self
  obtain ⟨o1, o2, o3, o4, o5, o6, o7⟩ := seg_open_serial s h x0 h0
  obtain ⟨r1, r2, _, r4, r5⟩ := schain_ind mF pgnoF pageF hmF xs (run s x0.pkts).1 (s1S s x0.1) x0 o1 h0 o2 o3 o4 o5 o6
    (fun x hx' => hx x (List.mem_cons_of_mem _ hx')) halt
  rw [sstream_cons, run_append]
  simp only []
  refine ⟨⟨r1, r2⟩, ?_, r5⟩
  rw [List.append_assoc, ttxPages_append, r4, o7]

theorem sclaims_split (cT : List Page) : ∀ (pre : List STx) (s : St) (x : STx) (post : List STx),
    ClaimsS cT s (pre ++ x :: post) →
    ∃ q rest pt, Fetched q x.1 (s1S (run s (sstream pre)).1 x.1) x.2.1 x.rows pt ∧ pt ≠ PT_CLOCK
      ∧ ∀ f, (∀ y ∈ post, UndistS f y.1) → cT.find? f = (q :: rest).find? f := by
  intro pre
  induction pre with
  | nil =>
    intro s x post h
    simp only [List.nil_append, ClaimsS] at h
    simpa [sstream, run_nil] using h.1
  | cons p pre ih =>
    intro s x post h
    simp only [List.cons_append, ClaimsS] at h
    rw [sstream_cons, run_append]
    exact ih _ x post h.2

/-- exact and wildcard look-ups return the stored page when no later transmission carries its page number -/
theorem sknown_of_claim (cT : List Page) (x : STx) (post : List STx) (q : Page) (rest : List Page)
    (hq : q.pgno = x.1.pgno) (hpost : ∀ y ∈ post, y.1.pgno ≠ x.1.pgno)
    (h : ∀ f, (∀ y ∈ post, UndistS f y.1) → cT.find? f = (q :: rest).find? f) :
    ∀ subno mask, subno = q.subno ∨ subno = ANY_SUBNO →
      cT.find? (keyMatch x.1.pgno subno (if subno == ANY_SUBNO then 0 else mask)) = some q := by
  intro subno mask hs
  rw [h _ (fun y hy => undistS_other _ _ _ y.1 (hpost y hy)), ← hq]
  exact find_head q rest subno mask hs

theorem sstream_append (a b : List STx) : sstream (a ++ b) = sstream a ++ sstream b := by
  unfold sstream; simp

end Zvbi.Ttx
