import ZvbiModel.Ttx.Chain4
/-!
# C02, magazine-serial cycles, part 1: the invariant, opening and closing one transmission

Magazine-serial transmission: every page header carries C11, a page is terminated by the next header of ANY magazine
with another page number, and the packets between two headers all belong to the page of the first header.

* `GoodS tmpl off p` = `GoodHdr ∧ TextOnly` (nothing is asked about C11 of the history);
  `SInv` = `HInv` (with `Shape`) ∧ handler registered ∧ `TInv`; kept by every `GoodS` packet, no channel switch.
* `STx` = `Tx × Packet × List RowPkt` (decoded header fields, header packet, rows 1..25); `SSegOk`: sender conditions.
* `seg_open_serial`: header + rows from an `SInv` state: slot `t.m` is `Assembled`.
* `seg_close_serial`: the next header (any magazine, another page number) stores it: `Fetched` at the head of the
  chain, one event, `find?` frame under `PutKeeps`.
* `header_events_s`, `header_find_s`: a whole header packet vs. its termination block (no parallel-mode invariant).
-/
namespace Zvbi.Ttx
open Zvbi.Hamm Zvbi.Gen Zvbi.Ttx.Spec

/-- sender-side conditions on a packet of a text-only network with one header template: consistent page header, page
    headers carry decimal or time-filling page numbers.  Nothing about C11. -/
def GoodS (tmpl : List Nat) (off : Nat) (p : Packet) : Prop := GoodHdr tmpl off p ∧ TextOnly p

structure SInv (tmpl : List Nat) (off : Nat) (s : St) : Prop where
  h : HInv tmpl off s
  mask : s.mask = true
  t : TInv s

theorem SInv.shape {tmpl : List Nat} {off : Nat} {s : St} (h : SInv tmpl off s) : Shape s := h.h.shape

theorem step_sinv {tmpl : List Nat} {off : Nat} (s : St) (p : Packet) (h : SInv tmpl off s) (g : GoodS tmpl off p) :
    SInv tmpl off (step s p).1 ∧ Event.chsw ∉ (step s p).2 := by
  obtain ⟨h1, n1⟩ := step_hinv tmpl off s p h.h g.1
  obtain ⟨_, hm⟩ := step_shape s p h.shape
  exact ⟨⟨h1, by rw [hm]; exact h.mask, step_tinv s p h.shape h.mask h.t g.2⟩, n1⟩

theorem run_sinv {tmpl : List Nat} {off : Nat} (ps : List Packet) : ∀ (s : St), SInv tmpl off s →
    (∀ p ∈ ps, GoodS tmpl off p) → SInv tmpl off (run s ps).1 ∧ Event.chsw ∉ (run s ps).2 := by
  induction ps with
  | nil => intro s h _; exact ⟨h, fun h => (by cases h)⟩
  | cons p ps ih =>
    intro s h hg
    rw [run_cons]
    obtain ⟨h1, n1⟩ := step_sinv s p h (hg p List.mem_cons_self)
    obtain ⟨h2, n2⟩ := ih (step s p).1 h1 (fun q hq => hg q (List.mem_cons_of_mem _ hq))
    refine ⟨h2, ?_⟩
    intro hx
    rw [List.mem_append] at hx
    rcases hx with hx | hx
    · exact n1 hx
    · exact n2 hx

theorem init_sinv (tmpl : List Nat) (off : Nat) : SInv tmpl off (init.enable true) :=
  ⟨init_hinv tmpl off true, rfl, init_tinv⟩

theorem SInv.tick {tmpl : List Nat} {off : Nat} {s : St} (h : SInv tmpl off s) : SInv tmpl off (tick s) :=
  ⟨h.h.tick, h.mask, h.t.tick⟩

/-- a packet with number `k ≥ 1` is no page header: `GoodS` holds trivially -/
theorem goodS_row (tmpl : List Nat) (off : Nat) (p : Packet) (m k : Nat) (hp : IsPacket p m k) (hk : 1 ≤ k) :
    GoodS tmpl off p := by
  have hrow : ∀ pmag, a16 p 0 = some pmag → pmag >>> 3 = 0 → False := by
    intro pmag ha h0
    obtain ⟨hm8, hk32, ha'⟩ := hp
    rw [ha'] at ha; injection ha with ha
    rw [← ha, (addr_split m hm8 k hk32).2] at h0
    omega
  exact ⟨fun pmag page ha h0 _ => (hrow pmag ha h0).elim, fun pmag page ha h0 _ => (hrow pmag ha h0).elim⟩

/-! ## look-ups undisturbed by a header look-up -/

/-- a predicate that is undisturbed by the header look-up of (`pgno`, sub-code word `sp`, control bits `fl`) -/
def GetKeepsS (f : Page → Bool) (pgno sp fl : Nat) : Prop :=
  ∀ n : Net, (lookupPrev n pgno sp fl).2.1.cache.find? f = n.cache.find? f

theorem getKeepsS_other (P key mask pgno sp fl : Nat) (hne : pgno ≠ P) : GetKeepsS (keyMatch P key mask) pgno sp fl :=
  fun n => lookupPrev_find n pgno sp fl P key mask hne

/-- `f` is disturbed neither by the header look-up nor by the store of transmission `t` -/
structure UndistS (f : Page → Bool) (t : Tx) : Prop where
  put : PutKeeps f t.pgno t.subno
  get : GetKeepsS f t.pgno t.subpage t.fl

theorem undistS_other (P key mask : Nat) (t : Tx) (hne : t.pgno ≠ P) : UndistS (keyMatch P key mask) t :=
  ⟨putKeeps_other P key mask t.pgno t.subno hne, getKeepsS_other P key mask t.pgno t.subpage t.fl hne⟩

/-! ## a whole header packet vs. its termination block (text-only decoder, any transmission mode) -/

theorem hdrAbandon_net_s (s1 : St) (mag0 pgno : Nat) : (hdrAbandon s1 mag0 pgno).net = s1.net := rfl

theorem header_events_s {tmpl : List Nat} {off : Nat} (s : St) (p : Packet) (m' page : Nat) (hm' : m' < 8)
    (ha : a16 p 0 = some m') (hpage : a16 p 2 = some page) (h : SInv tmpl off s) (ht : TextOnly p) :
    ttxPages (step s p).2 = ttxPages (terminatePage (tick s) m' (mag8Of m' * 256 + page) page).2 := by
  obtain ⟨a1, a2⟩ := addr_split m' hm' 0 (by omega)
  simp only [Nat.mul_zero, Nat.add_zero] at a1 a2
  rw [step_eq_of_shape s p h.shape]
  simp only []
  have hT := h.tick
  generalize tick s = s0 at hT
  have hgl := terminatePage_glob s0 m' (mag8Of m' * 256 + page) page
  have hTt := terminatePage_tinv s0 m' (mag8Of m' * 256 + page) page hm' hT.shape hT.t
  cases hrej : hdrRejected page ((view Kind.hdr p).g16i 2) ((view Kind.hdr p).g16i 4) ((view Kind.hdr p).g16i 6) with
  | true =>
    rw [decode_hdr_rejected s0 p m' page ha a2 hT.mask hpage hrej]
    simp only [a1]
    rfl
  | false =>
    have hne' := hdrRejected_page hrej
    have hdec : decimalPage page := by
      rcases ht m' page ha a2 hpage with d | d
      · exact d
      · exact absurd d hne'
    obtain ⟨s12, s34, fl, e1, e2, e3, _, _⟩ := hdrRejected_fields p page hrej rfl
    have hp' : IsHeader p m' page s12 s34 fl := ⟨hm', ha, hpage, e1, e2, e3⟩
    obtain ⟨_, he, _⟩ := decode_header_text s0 p m' page s12 s34 fl hp' hdec hT.mask
      (terminatePage s0 m' (mag8Of m' * 256 + page) page).1
      (terminatePage s0 m' (mag8Of m' * 256 + page) page).2 rfl (by rw [hgl.len]; exact hT.shape.len)
      (hTt.net.textPage _ _ _ _ hdec)
    exact he

theorem header_find_s {tmpl : List Nat} {off : Nat} (s : St) (p : Packet) (m' page : Nat) (hm' : m' < 8)
    (ha : a16 p 0 = some m') (hpage : a16 p 2 = some page) (h : SInv tmpl off s) (ht : TextOnly p)
    (f : Page → Bool) (hf : ∀ x : Page, x.pgno = mag8Of m' * 256 + page → f x = false) :
    (step s p).1.net.cache.find? f
      = (terminatePage (tick s) m' (mag8Of m' * 256 + page) page).1.net.cache.find? f := by
  obtain ⟨a1, a2⟩ := addr_split m' hm' 0 (by omega)
  simp only [Nat.mul_zero, Nat.add_zero] at a1 a2
  rw [step_eq_of_shape s p h.shape]
  simp only []
  have hT := h.tick
  generalize tick s = s0 at hT
  have hgl := terminatePage_glob s0 m' (mag8Of m' * 256 + page) page
  have hTt := terminatePage_tinv s0 m' (mag8Of m' * 256 + page) page hm' hT.shape hT.t
  cases hrej : hdrRejected page ((view Kind.hdr p).g16i 2) ((view Kind.hdr p).g16i 4) ((view Kind.hdr p).g16i 6) with
  | true =>
    rw [decode_hdr_rejected s0 p m' page ha a2 hT.mask hpage hrej]
    simp only [a1]
    rw [show (if (m' == 0) = true then 8 else m') = mag8Of m' from rfl, hdrAbandon_net_s]
  | false =>
    have hne' := hdrRejected_page hrej
    have hdec : decimalPage page := by
      rcases ht m' page ha a2 hpage with d | d
      · exact d
      · exact absurd d hne'
    obtain ⟨s12, s34, fl, e1, e2, e3, _, _⟩ := hdrRejected_fields p page hrej rfl
    have hp' : IsHeader p m' page s12 s34 fl := ⟨hm', ha, hpage, e1, e2, e3⟩
    obtain ⟨ho, _, _⟩ := decode_header_text s0 p m' page s12 s34 fl hp' hdec hT.mask
      (terminatePage s0 m' (mag8Of m' * 256 + page) page).1
      (terminatePage s0 m' (mag8Of m' * 256 + page) page).2 rfl (by rw [hgl.len]; exact hT.shape.len)
      (hTt.net.textPage _ _ _ _ hdec)
    rw [ho.net, lookupPrev_find_gen _ _ _ _ f hf]

/-! ## one magazine-serial transmission -/

/-- a transmission: the decoded header fields, the header packet, the row packets (number, packet) -/
abbrev STx := Tx × Packet × List RowPkt

def STx.pkts (x : STx) : List Packet := x.2.1 :: x.2.2.map (·.2)
def STx.rows (x : STx) : List (Nat × List Nat) := rowsOf x.2.2
def STx.key (x : STx) : Nat × Nat := (x.1.pgno, x.1.subno)
def sstream (xs : List STx) : List Packet := xs.flatMap STx.pkts

theorem sstream_cons (x : STx) (xs : List STx) : sstream (x :: xs) = x.pkts ++ sstream xs := by
  unfold sstream; simp

theorem sstream_nil : sstream [] = [] := rfl

/-- sender conditions on one magazine-serial transmission: header of a decimal page of magazine `x.1.m` with C11 set
    (any sub-code, other control bits, erase flag on/off), consistent header text, then rows 1..25 of that magazine
    (any subset / order / repeats) with odd-parity bytes -/
structure SSegOk (tmpl : List Nat) (off : Nat) (x : STx) : Prop where
  hdr : IsHeader x.2.1 x.1.m x.1.page x.1.s12 x.1.s34 x.1.fl
  dec : decimalPage x.1.page
  ser : x.1.fl &&& 0x10 = 0x10
  good : GoodHdr tmpl off x.2.1
  rows : ∀ r ∈ x.2.2, IsPacket r.2 x.1.m r.1 ∧ 1 ≤ r.1 ∧ r.1 ≤ 25 ∧ GoodRow (payload r.2)

theorem SSegOk.textOnly {tmpl : List Nat} {off : Nat} {x : STx} (h : SSegOk tmpl off x) : TextOnly x.2.1 := by
  intro pmag page _ _ hp
  rw [h.hdr.page] at hp; injection hp with hp
  rw [← hp]; exact Or.inl h.dec

theorem ssegOk_good {tmpl : List Nat} {off : Nat} (x : STx) (h : SSegOk tmpl off x) : ∀ p ∈ x.pkts, GoodS tmpl off p := by
  intro p hp
  unfold STx.pkts at hp
  rcases List.mem_cons.mp hp with rfl | hp
  · exact ⟨h.good, h.textOnly⟩
  · rw [List.mem_map] at hp
    obtain ⟨r, hr, rfl⟩ := hp
    exact goodS_row tmpl off r.2 x.1.m r.1 (h.rows r hr).1 (h.rows r hr).2.1

theorem sstream_good {tmpl : List Nat} {off : Nat} (xs : List STx) (h : ∀ x ∈ xs, SSegOk tmpl off x) :
    ∀ p ∈ sstream xs, GoodS tmpl off p := by
  intro p hp
  unfold sstream at hp
  rw [List.mem_flatMap] at hp
  obtain ⟨x, hx, hp⟩ := hp
  exact ssegOk_good x (h x hx) p hp

/-- the state after the header of `t` closed the page in progress -/
def s1S (s : St) (t : Tx) : St := (terminatePage (tick s) t.m t.pgno t.page).1

/-- **opening** (serial mode): header of a decimal text page of magazine `t.m` and its rows, from any `SInv` state -/
theorem seg_open_serial {tmpl : List Nat} {off : Nat} (s : St) (h : SInv tmpl off s) (x : STx) (hx : SSegOk tmpl off x) :
    SInv tmpl off (run s x.pkts).1
    ∧ Assembled (run s x.pkts).1 (s1S s x.1) x.1 x.2.1 x.rows
    ∧ (s1S s x.1).mask = true ∧ (s1S s x.1).chswcd = 0
    ∧ ((s1S s x.1).rp x.1.m).lopRaw.length = 26
    ∧ (∀ r ∈ x.rows, 1 ≤ r.1 ∧ r.1 ≤ 25 ∧ GoodRow r.2)
    ∧ ttxPages (run s x.pkts).2 = ttxPages (terminatePage (tick s) x.1.m x.1.pgno x.1.page).2 := by
  obtain ⟨t, hdr, rp⟩ := x
  have hm : t.m < 8 := hx.hdr.mag
  have hT := h.tick
  obtain ⟨hH1, _⟩ := terminatePage_hinv tmpl off (tick s) t.m t.pgno t.page hm hT.h
  have hTt := terminatePage_tinv (tick s) t.m t.pgno t.page hm hT.shape hT.t
  have hL : ((s1S s t).rp t.m).lopRaw.length = 26 := (hH1.shape.slots t.m hm).1
  have hrp' : ∀ r ∈ rp, IsPacket r.2 t.m r.1 ∧ 1 ≤ r.1 ∧ r.1 ≤ 25 :=
    fun r hr => ⟨(hx.rows r hr).1, (hx.rows r hr).2.1, (hx.rows r hr).2.2.1⟩
  obtain ⟨ha, hev, _, hmask1, hcd1⟩ := page_assembled s h.shape.cd h.mask t hdr hx.hdr hx.dec (s1S s t)
    (terminatePage (tick s) t.m t.pgno t.page).2 rfl h.shape.len (hTt.net.textPage _ _ _ _ hx.dec) rp hrp'
  have hrows : ∀ r ∈ rowsOf rp, 1 ≤ r.1 ∧ r.1 ≤ 25 ∧ GoodRow r.2 := by
    intro r hr
    unfold rowsOf at hr
    rw [List.mem_map] at hr
    obtain ⟨y, hy, rfl⟩ := hr
    exact ⟨(hx.rows y hy).2.1, (hx.rows y hy).2.2.1, (hx.rows y hy).2.2.2⟩
  exact ⟨(run_sinv _ s h (ssegOk_good (t, hdr, rp) hx)).1, ha, hmask1, hcd1, hL, hrows, hev⟩

/-- **closing** (serial mode): the page assembled in slot `t.m` with C11 is terminated by a header of ANY magazine `mQ`
    with another page number -/
theorem seg_close_serial {tmpl : List Nat} {off : Nat} (sR s1 : St) (h : SInv tmpl off sR) (t : Tx) (hdr : Packet)
    (rows : List (Nat × List Nat)) (ha : Assembled sR s1 t hdr rows) (hmask1 : s1.mask = true) (hcd1 : s1.chswcd = 0)
    (hh : IsHeader hdr t.m t.page t.s12 t.s34 t.fl) (hdec : decimalPage t.page) (hser : t.fl &&& 0x10 = 0x10)
    (hL : (s1.rp t.m).lopRaw.length = 26) (hrows : ∀ r ∈ rows, 1 ≤ r.1 ∧ r.1 ≤ 25 ∧ GoodRow r.2)
    (mQ pgnoQ pageQ : Nat) (hmQ : mQ < 8) (hne : pgnoQ ≠ t.pgno) :
    ∃ q rest pt, (terminatePage (tick sR) mQ pgnoQ pageQ).1.net.cache = q :: rest
      ∧ Fetched q t s1 hdr rows pt ∧ pt ≠ PT_CLOCK
      ∧ ttxPages (terminatePage (tick sR) mQ pgnoQ pageQ).2 = [(t.pgno, t.subno)]
      ∧ (∀ f, PutKeeps f t.pgno t.subno →
          (terminatePage (tick sR) mQ pgnoQ pageQ).1.net.cache.find? f = sR.net.cache.find? f) := by
  have hm := hh.mag
  have hT := h.tick
  have hn := (terminatePage_hinv tmpl off (tick sR) mQ pgnoQ pageQ hmQ hT.h).2
  have hsmall : t.s12 < 256 ∧ t.s34 < 256 ∧ t.fl < 256 :=
    ⟨a16_lt hdr 4 _ hh.s12, a16_lt hdr 6 _ hh.s34, a16_lt hdr 8 _ hh.fl⟩
  obtain ⟨q, rest, pt, h1, h2, h3, h4⟩ := page_stored_serial sR s1 t hdr rows ha hmask1 hcd1 hm hdec hsmall hser hL hrows
    mQ pgnoQ pageQ hne hn
  refine ⟨q, rest, pt, h1, h2, ?_, h4, ?_⟩
  · intro hpt
    have := h3 hpt
    rcases h.t.net.stat t.pgno with e | e <;> rw [e] at this <;> revert this <;> decide
  · intro f hf
    have hsp : t.subpage < 65536 := by unfold Tx.subpage; omega
    obtain ⟨c1, c2⟩ := c11_set t.fl t.subpage hsmall.2.2 hsp hser
    have hrpm : (tick sR).rp t.m = sR.rp t.m := rfl
    have hserial : ((tick sR).rp t.m).page.flags &&& C11_MAGAZINE_SERIAL ≠ 0 := by
      rw [hrpm, ha.flags]
      unfold Tx.flags
      cases t.prev s1 <;> simp only [] <;> assumption
    have hts := terminatedSlot_serial (tick sR) t.m mQ pgnoQ pageQ ha.cur hserial
      (by rw [hrpm, ha.pg]; exact fun e => hne e.symm) rfl
    exact terminatePage_find (tick sR) mQ pgnoQ pageQ f hmQ hT.shape hT.t hn
      (by
        intro curr hcurr _
        rw [hts] at hcurr
        injection hcurr with hcurr
        subst hcurr
        show PutKeeps f (sR.rp t.m).page.pgno (sR.rp t.m).page.subno
        rw [ha.pg, ha.sub]; exact hf)

end Zvbi.Ttx
