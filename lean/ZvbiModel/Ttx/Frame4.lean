import ZvbiModel.Ttx.Frame3
/-!
# Frame lemmas for C02 (round 4), part 4: the page header branch

`headerPage_*`: what "Prepare for new page" (packet.c:2321-2516) does for ANY accepted header (not only a text
page): flags, array shapes, where a text page gets its rows from, no page enters the cache.
`decode_header_frame`: a header packet of magazine `mag0` through `vbi_decode_teletext` = `vbi_teletext_desync`
(page number uncorrectable, interference E1) or `terminatePage` followed by a change of slot `mag0` only
(`HdrStep`).
-/
namespace Zvbi.Ttx
open Zvbi.Hamm Zvbi.Gen Zvbi.Ttx.Spec

theorem convertPage_fields (n : Net) (vtp cv' : Page) (fn : Int) (n' : Net) (e : List Aux)
    (h : convertPage n vtp fn = (some cv', n', e)) : cv'.flags = vtp.flags ∧ cv'.raw = vtp.raw := by
  unfold convertPage at h
  simp only [] at h
  repeat' (split at h)
  all_goals (first | (injection h with h1 _; injection h1 with h1; subst h1; exact ⟨rfl, rfl⟩) | (simp at h))

theorem headerConvert_fields (n : Net) (cv : Page) (page : Nat) :
    (headerConvert n cv page).1.flags = cv.flags ∧ (headerConvert n cv page).1.raw = cv.raw
    ∧ ((headerConvert n cv page).1.function = cv.function ∨ cv.function = FN_UNKNOWN)
    ∧ CacheSub n (headerConvert n cv page).2.1 := by
  unfold headerConvert
  split
  · rename_i hu
    have hu' : cv.function = FN_UNKNOWN := by simpa using hu
    simp only []
    split
    · have hs := convertPage_sub n cv (functionOfType n (n.getStat cv.pgno).pageType cv.pgno page)
      split
      · rename_i cv' hc
        have := convertPage_fields n cv cv' _ (convertPage n cv _).2.1 (convertPage n cv _).2.2 (by rw [← hc])
        exact ⟨this.1, this.2, Or.inr hu', hs⟩
      · exact ⟨rfl, rfl, Or.inl rfl, hs⟩
    · exact ⟨rfl, rfl, Or.inl rfl, CacheSub.refl n⟩
  · exact ⟨rfl, rfl, Or.inl rfl, CacheSub.refl n⟩

/-- the page built from scratch: one of the special pages (never a text page, header not copied), or a page of
    unknown function with the header row and 25 blank rows -/
theorem headerFresh_fields (n : Net) (cv0 : Page) (page : Nat) (row0 : List Nat) :
    (headerFresh n cv0 page row0).1.flags = cv0.flags ||| C4_ERASE_PAGE
    ∧ CacheSub n (headerFresh n cv0 page row0).2.1
    ∧ (((headerFresh n cv0 page row0).1.function ≠ FN_LOP ∧ (headerFresh n cv0 page row0).1.function ≠ FN_UNKNOWN
        ∧ ((headerFresh n cv0 page row0).1.raw.length = cv0.raw.length ∨ (headerFresh n cv0 page row0).1.raw.length = 26))
      ∨ ((headerFresh n cv0 page row0).1.function = FN_UNKNOWN
        ∧ (headerFresh n cv0 page row0).1.raw = row0 :: List.replicate 25 blankRow
        ∧ (headerFresh n cv0 page row0).2.2.2 = true)) := by
  unfold headerFresh
  simp only []
  repeat' split
  all_goals first
    | exact ⟨rfl, CacheSub.refl _, Or.inr ⟨rfl, rfl, rfl⟩⟩
    | (refine ⟨rfl, setStat_sub _ _ _, Or.inl ⟨?_, ?_, ?_⟩⟩
       · intro h; dsimp only at h; revert h; decide
       · intro h; dsimp only at h; revert h; decide
       · first | exact Or.inl rfl | exact Or.inr (by simp))

theorem headerLookup_sub (n : Net) (cv : Page) : CacheSub n (headerLookup n cv).2.1 := by
  unfold headerLookup
  split
  · exact get_sub _ _ _ _
  · exact CacheSub.refl n

theorem headerLookup_mem (n : Net) (cv q : Page) (h : (headerLookup n cv).1 = some q) : q ∈ n.cache := by
  unfold headerLookup at h
  split at h
  · exact get_mem _ _ _ _ _ h
  · cases h

/-- **"Prepare for new page", any accepted header** -/
theorem headerPage_fields (n : Net) (cv0 : Page) (page subpage fl : Nat) (row0 : List Nat) :
    ((headerPage n cv0 page subpage fl row0).1.flags = (fl <<< 16) + subpage
      ∨ (headerPage n cv0 page subpage fl row0).1.flags = ((fl <<< 16) + subpage) ||| C4_ERASE_PAGE)
    ∧ CacheSub n (headerPage n cv0 page subpage fl row0).2.1
    ∧ ((∃ q ∈ n.cache, (headerPage n cv0 page subpage fl row0).1.raw.length = q.raw.length)
      ∨ (headerPage n cv0 page subpage fl row0).1.raw.length = 26
      ∨ (headerPage n cv0 page subpage fl row0).1.raw.length = cv0.raw.length)
    ∧ ((headerPage n cv0 page subpage fl row0).1.function = FN_LOP →
        (headerPage n cv0 page subpage fl row0).2.2.2 = true
        ∧ ((∃ q ∈ n.cache, (headerPage n cv0 page subpage fl row0).1.raw = q.raw.set 0 row0)
          ∨ (headerPage n cv0 page subpage fl row0).1.raw = row0 :: List.replicate 25 blankRow)) := by
  have hcv : ({ cv0 with subno := subpage &&& 0x3F7F, national := rev8 fl &&& 7, flags := (fl <<< 16) + subpage } : Page)
      = hdrFields cv0 subpage fl := rfl
  unfold headerPage
  simp only [hcv]
  have hls := headerLookup_sub n (hdrFields cv0 subpage fl)
  cases hlk : (headerLookup n (hdrFields cv0 subpage fl)).1 with
  | some q =>
    simp only []
    have hq := headerLookup_mem n _ q hlk
    obtain ⟨c1, c2, c3, c4⟩ := headerConvert_fields (headerLookup n (hdrFields cv0 subpage fl)).2.1
      (headerFromCache (hdrFields cv0 subpage fl) q row0).1 page
    refine ⟨Or.inl (by rw [c1]; rfl), hls.trans c4, Or.inl ⟨q, hq, ?_⟩, ?_⟩
    · rw [c2]; unfold headerFromCache; simp only []; split <;> simp
    · intro hlop
      have hfq : q.function = FN_LOP ∨ q.function = FN_UNKNOWN := by
        rcases c3 with h | h
        · left; rw [h] at hlop; exact hlop
        · right; exact h
      obtain ⟨_, _, _, _, _, g6, g7⟩ := headerFromCache_text (hdrFields cv0 subpage fl) q row0 hfq
      exact ⟨g7, Or.inl ⟨q, hq, by rw [c2, g6]⟩⟩
  | none =>
    simp only []
    obtain ⟨f1, f2, f3⟩ := headerFresh_fields (headerLookup n (hdrFields cv0 subpage fl)).2.1 (hdrFields cv0 subpage fl) page row0
    obtain ⟨c1, c2, c3, c4⟩ := headerConvert_fields (headerFresh (headerLookup n (hdrFields cv0 subpage fl)).2.1 (hdrFields cv0 subpage fl) page row0).2.1
      (headerFresh (headerLookup n (hdrFields cv0 subpage fl)).2.1 (hdrFields cv0 subpage fl) page row0).1 page
    refine ⟨Or.inr (by rw [c1, f1]; rfl), (hls.trans f2).trans c4, ?_, ?_⟩
    · rw [c2]
      rcases f3 with ⟨_, _, h | h⟩ | ⟨_, h, _⟩
      · exact Or.inr (Or.inr (by rw [h]; rfl))
      · exact Or.inr (Or.inl h)
      · exact Or.inr (Or.inl (by rw [h]; simp))
    · intro hlop
      rcases f3 with ⟨g1, g2, _⟩ | ⟨_, h, g3⟩
      · exfalso
        rcases c3 with h | h
        · rw [h] at hlop; exact g1 hlop
        · exact g2 h
      · exact ⟨g3, Or.inr (by rw [c2, h])⟩

/-! ## a header packet through `vbi_decode_teletext` -/

/-- `s'` = the state after the header of (`mag0`, `pgno`) carried by packet `p`, `t` = the state after that
    header terminated the page in progress -/
structure HdrStep (t s' : St) (mag0 pgno : Nat) (p : Packet) : Prop where
  len : s'.raw.length = t.raw.length
  mask : s'.mask = t.mask
  cd : s'.chswcd = t.chswcd
  cur : s'.current = some mag0
  hdr : s'.header = t.header ∧ s'.hdrPgno = t.hdrPgno
  other : ∀ c, c ≠ mag0 → s'.rp c = t.rp c
  pgno : (s'.rp mag0).page.pgno = pgno
  lr : (s'.rp mag0).lopRaw = (t.rp mag0).lopRaw
  /-- refused header: slot discarded, flags unchanged; accepted: the transmitted control bits -/
  flags : ((s'.rp mag0).page.function = FN_DISCARD ∧ (s'.rp mag0).page.flags = (t.rp mag0).page.flags
      ∧ (s'.rp mag0).page.raw.length = (t.rp mag0).page.raw.length) ∨
    (∃ s12 s34 fl, a16 p 4 = some s12 ∧ a16 p 6 = some s34 ∧ a16 p 8 = some fl ∧
      ((s'.rp mag0).page.flags = (fl <<< 16) + (s12 + s34 * 256)
        ∨ (s'.rp mag0).page.flags = ((fl <<< 16) + (s12 + s34 * 256)) ||| C4_ERASE_PAGE)
      ∧ ((∃ q ∈ t.net.cache, (s'.rp mag0).page.raw.length = q.raw.length)
        ∨ (s'.rp mag0).page.raw.length = 26 ∨ (s'.rp mag0).page.raw.length = (t.rp mag0).page.raw.length)
      ∧ ((s'.rp mag0).page.function = FN_LOP →
          (∃ q ∈ t.net.cache, (s'.rp mag0).page.raw = q.raw.set 0 (payload p))
          ∨ (s'.rp mag0).page.raw = payload p :: List.replicate 25 blankRow))
  cache : CacheSub t.net s'.net

theorem g16i_some (p : Packet) (r : Nat) (hr : r + 1 < 8) (h : 0 ≤ (view Kind.hdr p).g16i r) :
    ∃ v, a16 p (2 + r) = some v ∧ (view Kind.hdr p).g16i r = (v : Int) := by
  rw [view_hdr_g16i p r hr] at h ⊢
  unfold a16 unham16p
  unfold a8 at h ⊢
  cases ha : unham8 (byte p (2 + r)) with
  | none => rw [ha] at h; simp at h
  | some a =>
    cases hb : unham8 (byte p (2 + r + 1)) with
    | none =>
      rw [ha, hb] at h
      simp only [] at h
      exfalso
      have : a < 16 := by
        have hx := unham8_range (byte p (2 + r) % 256) (Nat.mod_lt _ (by decide)) a
        apply hx
        have : unham8 (byte p (2 + r) % 256) = unham8 (byte p (2 + r)) := by
          unfold unham8; simp
        rw [this]; exact ha
      omega
    | some b => exact ⟨a ||| (b <<< 4), by simp, rfl⟩

theorem hdrRejected_fields (p : Packet) (page : Nat)
    (h : hdrRejected page ((view Kind.hdr p).g16i 2) ((view Kind.hdr p).g16i 4) ((view Kind.hdr p).g16i 6) = false)
    (hf : ttxFixF21 = true) :
    ∃ s12 s34 fl, a16 p 4 = some s12 ∧ a16 p 6 = some s34 ∧ a16 p 8 = some fl
      ∧ ((view Kind.hdr p).g16i 2 + (view Kind.hdr p).g16i 4 * 256).toNat = s12 + s34 * 256
      ∧ ((view Kind.hdr p).g16i 6).toNat = fl := by
  obtain ⟨hfl, hfix, _⟩ := hdrRejected_false h
  obtain ⟨h12, h34⟩ := hfix hf
  obtain ⟨a, ha, ea⟩ := g16i_some p 2 (by omega) h12
  obtain ⟨b, hb, eb⟩ := g16i_some p 4 (by omega) h34
  obtain ⟨c, hc, ec⟩ := g16i_some p 6 (by omega) hfl
  refine ⟨a, b, c, ha, hb, hc, ?_, ?_⟩
  · rw [ea, eb]; omega
  · rw [ec]; omega

theorem finish_ev (r : Res × Bool) (m : Nat) (h8 : List Nat) : (finish r m h8).ev = r.1.ev := by
  unfold finish; split <;> rfl

theorem decode_header_frame (s : St) (p : Packet) (pmag : Nat) (ha : a16 p 0 = some pmag) (h0 : pmag >>> 3 = 0)
    (hm : s.mask = true) (hl : pmag &&& 7 < s.raw.length) (hf : ttxFixF21 = true) :
    (a16 p 2 = none ∧ decodeTeletext s p = ⟨desync s, [], false⟩) ∨
    (∃ page, a16 p 2 = some page ∧
      HdrStep (terminatePage s (pmag &&& 7) ((if (pmag &&& 7) == 0 then 8 else pmag &&& 7) * 256 + page) page).1
        (decodeTeletext s p).st (pmag &&& 7) ((if (pmag &&& 7) == 0 then 8 else pmag &&& 7) * 256 + page) p
      ∧ ∃ l, (decodeTeletext s p).ev =
          (terminatePage s (pmag &&& 7) ((if (pmag &&& 7) == 0 then 8 else pmag &&& 7) * 256 + page) page).2 ++ liftAux l) := by
  cases hpg : a16 p 2 with
  | none => exact Or.inl ⟨rfl, decode_hdr_bad_pageno s p pmag ha h0 hm hpg⟩
  | some page =>
    right
    refine ⟨page, rfl, ?_⟩
    generalize hmag0 : pmag &&& 7 = mag0 at *
    generalize hmag8 : (if mag0 == 0 then 8 else mag0) = mag8
    have hgl := terminatePage_glob s mag0 (mag8 * 256 + page) page
    cases hrej : hdrRejected page ((view Kind.hdr p).g16i 2) ((view Kind.hdr p).g16i 4) ((view Kind.hdr p).g16i 6) with
    | true =>
      have hd := decode_hdr_rejected s p pmag page ha h0 hm hpg hrej
      simp only [hmag0, hmag8] at hd
      rw [hd]
      generalize terminatePage s mag0 (mag8 * 256 + page) page = T at hgl ⊢
      obtain ⟨t, ev⟩ := T
      simp only [] at hgl ⊢
      have hlt : mag0 < t.raw.length := by rw [hgl.len]; exact hl
      refine ⟨?_, [], by simp [liftAux]⟩
      unfold hdrAbandon
      simp only []
      have hrp : ((({ t.setPage mag0 { (t.rp mag0).page with pgno := mag8 * 256 + page } with current := some mag0 } : St).setPage mag0
          { (t.rp mag0).page with pgno := mag8 * 256 + page, function := FN_DISCARD }).rp mag0)
          = { t.rp mag0 with page := { (t.rp mag0).page with pgno := mag8 * 256 + page, function := FN_DISCARD } } := by
        rw [rp_setPage_same _ mag0 _ (by show mag0 < (t.setPage mag0 _).raw.length; rw [setPage_length]; exact hlt)]
        have : ({ t.setPage mag0 { (t.rp mag0).page with pgno := mag8 * 256 + page } with current := some mag0 } : St).rp mag0
            = { t.rp mag0 with page := { (t.rp mag0).page with pgno := mag8 * 256 + page } } := rp_setPage_same t mag0 _ hlt
        rw [this]
      refine ⟨?_, rfl, rfl, rfl, ⟨rfl, rfl⟩, ?_, ?_, ?_, ?_, CacheSub.refl _⟩
      · rw [setPage_length]; show (t.setPage mag0 _).raw.length = _; rw [setPage_length]
      · intro c hc
        rw [rp_setPage_other _ mag0 c _ hc]
        exact rp_setPage_other t mag0 c _ hc
      · rw [hrp]
      · rw [hrp]
      · left; rw [hrp]; exact ⟨rfl, rfl, rfl⟩
    | false =>
      have hp0 : (view Kind.hdr p).g16 0 = some page := by rw [view_hdr_g16 p 0 (by omega)]; exact hpg
      obtain ⟨s12, s34, fl, e1, e2, e3, e4, e5⟩ := hdrRejected_fields p page hrej hf
      unfold decodeTeletext
      rw [ha]
      simp only []
      rw [kindOf_hdr s pmag _ h0 hm]
      have hproc : process s pmag (view Kind.hdr p) = processHeader s mag0 mag8 (view Kind.hdr p) := by
        unfold process
        simp only [h0, hm, hmag0, hmag8]
        simp
      rw [hproc, hmag0]
      generalize hT : terminatePage s mag0 (mag8 * 256 + page) page = T at hgl ⊢
      obtain ⟨t, ev⟩ := T
      simp only [] at hgl ⊢
      have hlt : mag0 < t.raw.length := by rw [hgl.len]; exact hl
      rw [processHeader_accept s mag0 mag8 _ page hp0 hrej t ev hT, e4, e5]
      obtain ⟨F1, F2, F3, F4⟩ := headerPage_fields t.net { (t.rp mag0).page with pgno := mag8 * 256 + page } page
        (s12 + s34 * 256) fl (zeroRow.take 8 ++ (view Kind.hdr p).raw.drop 8)
      have hk := headerPage_keys t.net { (t.rp mag0).page with pgno := mag8 * 256 + page } page
        (s12 + s34 * 256) fl (zeroRow.take 8 ++ (view Kind.hdr p).raw.drop 8)
      generalize headerPage t.net { (t.rp mag0).page with pgno := mag8 * 256 + page } page
        (s12 + s34 * 256) fl (zeroRow.take 8 ++ (view Kind.hdr p).raw.drop 8) = h at F1 F2 F3 F4 hk ⊢
      obtain ⟨f1, f2, f3, f4, f5, f6, f7⟩ := openedSt_fields t mag0 { (t.rp mag0).page with pgno := mag8 * 256 + page } h
      have hrpO := openedSt_rp t mag0 { (t.rp mag0).page with pgno := mag8 * 256 + page } h hlt
      have hoth := fun c (hc : c ≠ mag0) => openedSt_rp_other t mag0 c { (t.rp mag0).page with pgno := mag8 * 256 + page } h hc
      generalize openedSt t mag0 { (t.rp mag0).page with pgno := mag8 * 256 + page } h = O at *
      refine ⟨?_, _, by rw [finish_ev]⟩
      unfold finish
      simp only []
      by_cases hcp : h.2.2.2 = true
      · rw [if_pos hcp]
        simp only []
        obtain ⟨g1, g2, g3, g4, g5, g6, g7⟩ := patchHdr8_fields O mag0 (hdr8 p)
        have hlO : mag0 < O.raw.length := by rw [f1]; exact hlt
        have hrp : (patchHdr8 O mag0 (hdr8 p)).rp mag0 = patchedRp (O.rp mag0) (hdr8 p) := by
          unfold patchHdr8; exact rp_setPage_same O mag0 _ hlO
        refine ⟨by rw [g1, f1], by rw [g2, f2], by rw [g3, f3], by rw [g4, f4], ⟨by rw [g5, f5], by rw [g6, f6]⟩, ?_, ?_, ?_, ?_,
          by rw [g7, f7]; exact F2⟩
        · intro c hc
          unfold patchHdr8
          rw [rp_setPage_other O mag0 c _ hc]; exact hoth c hc
        · rw [hrp, hrpO]; exact hk.1
        · rw [hrp, hrpO]; rfl
        · right
          refine ⟨s12, s34, fl, e1, e2, e3, ?_, ?_, ?_⟩
          · rw [hrp, hrpO]; exact F1
          · rw [hrp, hrpO]
            unfold patchedRp openedRp
            simp only [List.length_set]
            exact F3
          · rw [hrp, hrpO]
            unfold patchedRp openedRp
            simp only []
            intro hlop
            rcases (F4 hlop).2 with ⟨q, hq, hr⟩ | hr
            · left; refine ⟨q, hq, ?_⟩
              rw [hr, patch_raw, hdr_row]
            · right
              rw [hr]
              simp only [List.set_cons_zero, List.getD_cons_zero]
              have : (List.take 8 zeroRow ++ List.drop 8 (view Kind.hdr p).raw).drop 8 = List.drop 8 (view Kind.hdr p).raw := by
                rw [List.drop_append]; simp [zeroRow]
              rw [this, hdr_row]
      · rw [if_neg hcp]
        simp only []
        refine ⟨f1, f2, f3, f4, ⟨f5, f6⟩, hoth, ?_, ?_, ?_, by rw [f7]; exact F2⟩
        · rw [hrpO]; exact hk.1
        · rw [hrpO]; rfl
        · right
          refine ⟨s12, s34, fl, e1, e2, e3, ?_, ?_, ?_⟩
          · rw [hrpO]; exact F1
          · rw [hrpO]; exact F3
          · rw [hrpO]
            intro hlop
            exact absurd (F4 hlop).1 hcp

end Zvbi.Ttx
