import ZvbiModel.Ttx.Chain8
/-!
# C02 round 5, part 9: decidable forms of the sender conditions (`Good` = `GoodHdr ∧ TextOnly ∧ ParHdr`), used to
discharge the hypotheses of the cycle theorem on concrete packets (non-vacuity examples)
-/
namespace Zvbi.Ttx
open Zvbi.Hamm Zvbi.Gen Zvbi.Ttx.Spec

def hdrOkB (tmpl : List Nat) (off pgno : Nat) (row : List Nat) : Bool :=
  decide (8 ≤ off) && decide (off ≤ 28)
  && (row.getD off 0 == (pgDigits pgno).1 && row.getD (off + 1) 0 == (pgDigits pgno).2.1
      && row.getD (off + 2) 0 == (pgDigits pgno).2.2)
  && (List.range 32).all (fun k => !(decide (8 ≤ k) && decide (k < off)) ||
      !(row.getD k 0 == (pgDigits pgno).1 && row.getD (k + 1) 0 == (pgDigits pgno).2.1
        && row.getD (k + 2) 0 == (pgDigits pgno).2.2))
  && (List.range 32).all (fun k => !(decide (8 ≤ k) && (decide (k < off) || decide (off + 4 ≤ k))) ||
      (oddPar (row.getD k 0) && row.getD k 0 == tmpl.getD k 0))

theorem hdrOk_of_dec (tmpl : List Nat) (off pgno : Nat) (row : List Nat) (h : hdrOkB tmpl off pgno row = true) :
    HdrOk tmpl off pgno row := by
  unfold hdrOkB at h
  simp only [Bool.and_eq_true, decide_eq_true_eq, beq_iff_eq, List.all_eq_true, List.mem_range, Bool.or_eq_true,
    Bool.not_eq_true', Bool.and_eq_false_iff, decide_eq_false_iff_not] at h
  obtain ⟨⟨⟨⟨h1, h2⟩, h3⟩, h4⟩, h5⟩ := h
  refine ⟨h1, h2, ⟨h3.1.1, h3.1.2, h3.2⟩, ?_, ?_⟩
  · intro k hk1 hk2
    rcases h4 k (by omega) with h | h
    · rcases h with h | h <;> omega
    · simp only [Bool.and_eq_false_iff, beq_eq_false_iff_ne, ne_eq]
      simp only [beq_eq_false_iff_ne, ne_eq] at h
      exact h
  · intro k hk1 hk2 hk3
    rcases h5 k hk2 with h | h
    · rcases h with h | h
      · omega
      · exfalso
        simp only [Bool.or_eq_false_iff, decide_eq_false_iff_not] at h
        omega
    · exact h

def goodB (tmpl : List Nat) (off : Nat) (p : Packet) : Bool :=
  match a16 p 0 with
  | none => true
  | some pmag =>
    pmag >>> 3 != 0 ||
    ((match a16 p 2 with
      | none => true
      | some page =>
        hdrOkB tmpl off ((if (pmag &&& 7) == 0 then 8 else pmag &&& 7) * 256 + page) (payload p)
        && ((decide (page ≤ 0x99) && decide (page &&& 15 ≤ 9)) || page == 0xFF))
     && (match a16 p 8 with
      | none => true
      | some fl => fl &&& 0x10 == 0))

theorem good_of_dec (tmpl : List Nat) (off : Nat) (p : Packet) (h : goodB tmpl off p = true) : Good tmpl off p := by
  unfold goodB at h
  refine ⟨?_, ?_, ?_⟩
  · intro pmag page ha h0 hp
    rw [ha] at h
    simp only [h0, bne_self_eq_false, Bool.false_or, hp, Bool.and_eq_true] at h
    exact hdrOk_of_dec _ _ _ _ h.1.1
  · intro pmag page ha h0 hp
    rw [ha] at h
    simp only [h0, bne_self_eq_false, Bool.false_or, hp, Bool.and_eq_true, Bool.or_eq_true, decide_eq_true_eq,
      beq_iff_eq] at h
    exact h.1.2
  · intro pmag ha h0 fl hfl
    rw [ha] at h
    simp only [h0, bne_self_eq_false, Bool.false_or, hfl, Bool.and_eq_true, beq_iff_eq] at h
    exact h.2

/-- decidable form of `TextOnly` (for concrete packets) -/
def textOnlyB (p : Packet) : Bool :=
  match a16 p 2 with
  | some page => (decide (page ≤ 0x99) && decide (page &&& 15 ≤ 9)) || page == 0xFF
  | none => true

theorem textOnly_of_dec (p : Packet) (h : textOnlyB p = true) : TextOnly p := by
  intro pmag page _ _ hp
  unfold textOnlyB at h
  rw [hp] at h
  simp only [Bool.or_eq_true, Bool.and_eq_true, decide_eq_true_eq, beq_iff_eq] at h
  exact h


/-! ## the transmissions of `page_roundtrip_chain_full` as segments -/

/-- a transmission of `page_roundtrip_chain_full` as a segment without foreign items -/
def segOf (x : Tx × Packet × List RowPkt) : Seg := ⟨x.1, x.2.1, x.2.2.map (fun r => Item.own r.1 r.2)⟩

theorem ownRows_own (rows : List RowPkt) : ownRows (rows.map (fun r => Item.own r.1 r.2)) = rows := by
  induction rows with
  | nil => rfl
  | cons r rows ih => simp only [List.map_cons, ownRows, ih]

theorem pkts_own (rows : List RowPkt) : (rows.map (fun r => Item.own r.1 r.2)).map Item.pkt = rows.map (·.2) := by
  induction rows with
  | nil => rfl
  | cons r rows ih => simp only [List.map_cons, Item.pkt, ih]

theorem stream_segOf (txs : List (Tx × Packet × List RowPkt)) :
    stream (txs.map segOf) = txs.flatMap (fun x => x.2.1 :: x.2.2.map (·.2)) := by
  induction txs with
  | nil => rfl
  | cons x txs ih =>
    rw [List.map_cons, stream_cons, ih, List.flatMap_cons]
    unfold Seg.pkts segOf
    simp only [pkts_own]

theorem alt_txs : ∀ (txs : List (Tx × Packet × List RowPkt)), (∀ x ∈ txs, decimalPage x.1.page) →
    (∀ pre a b post, txs = pre ++ a :: b :: post → a.1.page ≠ b.1.page) →
    Alt ((txs.map segOf).map (·.t.page) ++ [0xFF])
  | [], _, _ => trivial
  | [a], hd, _ => by
    refine ⟨?_, trivial⟩
    have := (hd a (by simp)).1
    show a.1.page ≠ 0xFF
    omega
  | a :: b :: r, hd, h => by
    refine ⟨h [] a b r rfl, ?_⟩
    exact alt_txs (b :: r) (fun x hx => hd x (List.mem_cons_of_mem _ hx))
      (fun pre a' b' post e => h (a :: pre) a' b' post (by rw [e]; rfl))

/-- sender conditions of `page_roundtrip_chain_full` make every packet `Good` -/
theorem segOk_of (tmpl : List Nat) (off m : Nat) (x : Tx × Packet × List RowPkt)
    (h : x.1.m = m ∧ IsHeader x.2.1 m x.1.page x.1.s12 x.1.s34 x.1.fl ∧ decimalPage x.1.page
      ∧ x.1.fl &&& 0x10 = 0 ∧ GoodHdr tmpl off x.2.1
      ∧ ∀ r ∈ x.2.2, IsPacket r.2 m r.1 ∧ 1 ≤ r.1 ∧ r.1 ≤ 25 ∧ GoodRow (payload r.2)) :
    SegOk tmpl off m (segOf x) := by
  obtain ⟨hm, hh, hdec, hpar, hg, hrows⟩ := h
  have hh' : IsHeader x.2.1 x.1.m x.1.page x.1.s12 x.1.s34 x.1.fl := by rw [hm]; exact hh
  refine ⟨hm, hh', hdec, ⟨hg, ?_, ?_⟩, ?_⟩
  · intro pmag page ha _ hp
    change a16 x.2.1 2 = some page at hp
    rw [hh.page] at hp; injection hp with hp
    rw [← hp]; exact Or.inl hdec
  · intro pmag _ _ fl hfl
    change a16 x.2.1 8 = some fl at hfl
    rw [hh.fl] at hfl; injection hfl with hfl; rw [← hfl]; exact hpar
  · intro it hit
    unfold segOf at hit
    simp only [List.mem_map] at hit
    obtain ⟨r, hr, rfl⟩ := hit
    obtain ⟨hp, h1, h2, hgr⟩ := hrows r hr
    have hrow : ∀ pmag, a16 r.2 0 = some pmag → pmag >>> 3 = 0 → False := by
      intro pmag ha h0
      obtain ⟨hm8, hk32, ha'⟩ := hp
      rw [ha'] at ha; injection ha with ha
      rw [← ha, (addr_split m hm8 r.1 hk32).2] at h0
      omega
    refine ⟨⟨by show IsPacket r.2 x.1.m r.1; rw [hm]; exact hp, h1, h2, hgr⟩, ?_, ?_, ?_⟩
    · intro pmag page ha h0 _; exact (hrow pmag ha h0).elim
    · intro pmag page ha h0 _; exact (hrow pmag ha h0).elim
    · intro pmag ha h0; exact (hrow pmag ha h0).elim

theorem ownPkt_of (m : Nat) (x : Tx × Packet × List RowPkt)
    (hh : IsHeader x.2.1 m x.1.page x.1.s12 x.1.s34 x.1.fl)
    (hrows : ∀ r ∈ x.2.2, IsPacket r.2 m r.1 ∧ 1 ≤ r.1 ∧ r.1 ≤ 25 ∧ GoodRow (payload r.2)) :
    ∀ p ∈ (segOf x).pkts, OwnPkt m p := by
  intro p hp
  unfold Seg.pkts segOf at hp
  simp only [pkts_own] at hp
  rcases List.mem_cons.mp hp with rfl | hp
  · exact ⟨0, ⟨hh.mag, by omega, by simpa using hh.addr⟩, fun _ => ⟨_, hh.page⟩⟩
  · rw [List.mem_map] at hp
    obtain ⟨r, hr, rfl⟩ := hp
    exact ⟨r.1, (hrows r hr).1, fun h0 => by have := (hrows r hr).2.1; omega⟩


/-! ## decidable form of `SegOk` -/

def itemB (m : Nat) : Item → Bool
  | .own k p => decide (m < 8) && decide (k < 32) && (a16 p 0 == some (m + 8 * k)) && decide (1 ≤ k) && decide (k ≤ 25)
      && (payload p).all (fun b => decide (b < 256) && oddPar b)
  | .foreign m' k p => (m' != m) && decide (m' < 8) && decide (k < 32) && (a16 p 0 == some (m' + 8 * k))
      && (k != 0 || (a16 p 2).isSome)
  | .ownx k p => decide (m < 8) && decide (k < 32) && (a16 p 0 == some (m + 8 * k)) && decide (26 ≤ k) && decide (k ≤ 29)
      && (k != 28 || a8 p 2 != some 3)

theorem itemPlain_of_dec (m : Nat) (it : Item) (h : itemB m it = true) : ItemPlain m it := by
  cases it with
  | own k p =>
    simp only [itemB, Bool.and_eq_true, decide_eq_true_eq, beq_iff_eq, List.all_eq_true] at h
    obtain ⟨⟨⟨⟨⟨h1, h2⟩, h3⟩, h4⟩, h5⟩, h6⟩ := h
    exact ⟨⟨h1, h2, h3⟩, h4, h5, fun b hb => h6 b hb⟩
  | foreign m' k p =>
    simp only [itemB, Bool.and_eq_true, decide_eq_true_eq, beq_iff_eq, bne_iff_ne, ne_eq, Bool.or_eq_true] at h
    obtain ⟨⟨⟨⟨h1, h2⟩, h3⟩, h4⟩, h5⟩ := h
    refine ⟨h1, ⟨h2, h3, h4⟩, ?_⟩
    intro hk
    rcases h5 with h5 | h5
    · exact absurd hk h5
    · exact Option.isSome_iff_exists.mp h5
  | ownx k p =>
    simp only [itemB, Bool.and_eq_true, decide_eq_true_eq, beq_iff_eq, bne_iff_ne, ne_eq, Bool.or_eq_true] at h
    obtain ⟨⟨⟨⟨⟨h1, h2⟩, h3⟩, h4⟩, h5⟩, h6⟩ := h
    refine ⟨⟨h1, h2, h3⟩, h4, h5, ?_⟩
    intro hk
    rcases h6 with h6 | h6
    · exact absurd hk h6
    · exact h6

def segOkB (tmpl : List Nat) (off m : Nat) (x : Seg) : Bool :=
  (x.t.m == m) && decide (x.t.m < 8) && (a16 x.hdr 0 == some x.t.m) && (a16 x.hdr 2 == some x.t.page)
  && (a16 x.hdr 4 == some x.t.s12) && (a16 x.hdr 6 == some x.t.s34) && (a16 x.hdr 8 == some x.t.fl)
  && decide (x.t.page ≤ 0x99) && decide (x.t.page &&& 15 ≤ 9) && goodB tmpl off x.hdr
  && x.items.all (fun it => itemB x.t.m it && goodB tmpl off it.pkt)

theorem segOk_of_dec (tmpl : List Nat) (off m : Nat) (x : Seg) (h : segOkB tmpl off m x = true) : SegOk tmpl off m x := by
  simp only [segOkB, Bool.and_eq_true, decide_eq_true_eq, beq_iff_eq, List.all_eq_true] at h
  obtain ⟨⟨⟨⟨⟨⟨⟨⟨⟨⟨h1, h2⟩, h3⟩, h4⟩, h5⟩, h6⟩, h7⟩, h8⟩, h9⟩, h10⟩, h11⟩ := h
  exact ⟨h1, ⟨h2, h3, h4, h5, h6, h7⟩, ⟨h8, h9⟩, good_of_dec _ _ _ h10,
    fun it hit => ⟨itemPlain_of_dec _ it (h11 it hit).1, good_of_dec _ _ _ (h11 it hit).2⟩⟩

end Zvbi.Ttx
