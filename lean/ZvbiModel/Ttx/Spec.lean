import ZvbiModel.Ttx.Model
/-!
# Abstract notions the C03 theorems talk about (fault model, sender side)
-/
namespace Zvbi.Ttx.Spec
open Zvbi.Ttx Zvbi.Hamm

/-- bit `b` of byte `i` of the packet inverted by the transmission channel -/
def flipBit (p : Packet) (i b : Nat) : Packet := p.set i (byte p i ^^^ (1 <<< b))

/-- a received packet: 42 bytes -/
def WellFormed (p : Packet) : Prop := p.length = 42 ∧ ∀ i, byte p i < 256

/-- a Hamming 8/4 codeword -/
def IsHam8 (c : Nat) : Prop := ∃ n, n < 16 ∧ c = ham8 n

/-- a Hamming 24/18 codeword (zero syndrome) -/
def IsHam24 (a b c : Nat) : Prop := triSyn a b c = 0

/-- Position `i` (0..41) of packet `p` is, in decoder state `s`, read through a Hamming accessor
    and holds a valid codeword: the two address bytes; the bytes of `Kind.isH8`; the three bytes of
    each triplet counted by `Kind.nTrip` - where the kind is the one `decodeTeletext` uses. -/
inductive Protected (s : St) (p : Packet) : Nat → Prop
  | addr (i : Nat) (hi : i < 2) (hv : IsHam8 (byte p i)) : Protected s p i
  | h8 (pmag r : Nat) (ha : a16 p 0 = some pmag)
      (hk : (kindOf s pmag (a8 p 2)).isH8 r = true) (hv : IsHam8 (byte p (2 + r))) : Protected s p (2 + r)
  | h24 (pmag j o : Nat) (ha : a16 p 0 = some pmag)
      (hj : j < (kindOf s pmag (a8 p 2)).nTrip) (ho : o < 3)
      (hv : IsHam24 (byte p (3 + 3 * j)) (byte p (4 + 3 * j)) (byte p (5 + 3 * j))) :
      Protected s p (3 + 3 * j + o)

/-- the position is one of the 8 header bytes which `memcpy (raw[0], p, 40)` also stores verbatim -/
def IsHdr8 (s : St) (p : Packet) (i : Nat) : Prop :=
  2 ≤ i ∧ i < 10 ∧ ∃ pmag, a16 p 0 = some pmag ∧ kindOf s pmag (a8 p 2) = Kind.hdr

/-- state with the verbatim copy of the 8 header Hamming bytes of magazine `m` blanked -/
def eraseHdr8 (s : St) (m : Nat) : St := patchHdr8 s m (List.replicate 8 0)

/-- the decoded header fields as the decoder computes them: (magazine 0..7, pgno, subno) of an
    accepted header, `none` for every other packet -/
def hdrKey (p : Packet) : Option (Nat × Nat × Nat) :=
  match a16 p 0 with
  | none => none
  | some pmag =>
    if pmag >>> 3 != 0 then none else
    let v := view Kind.hdr p
    match v.g16 0 with
    | none => none
    | some page =>
      if hdrRejected page (v.g16i 2) (v.g16i 4) (v.g16i 6) then none
      else
        let mag0 := pmag &&& 7
        some (mag0, (if mag0 == 0 then 8 else mag0) * 256 + page, ((v.g16i 2 + v.g16i 4 * 256).toNat) &&& 0x3F7F)

end Zvbi.Ttx.Spec
