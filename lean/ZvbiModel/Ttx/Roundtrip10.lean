import ZvbiModel.Ttx.Roundtrip9
import ZvbiModel.Ttx.OwnAux1
/-!
# C02 round 4, part 10: one transmission with packets of other magazines interleaved

* `decode_iinv` / `step_iinv` / `run_iinv`: `IInv` is kept by EVERY packet whose header (if it is one) does
  not carry C11: a network in parallel mode stays in `IInv` whatever else it sends (reachability);
* `Item`, `ItemsOk`, `run_items`: own rows and benign foreign packets in any order (`Mid`);
* `Ready`, `page_stored'`, `fetched_after_text`, `fetched_after_filler`: the terminating header.
-/
namespace Zvbi.Ttx
open Zvbi.Hamm Zvbi.Gen Zvbi.Ttx.Spec

/-! ## `IInv` is an invariant of parallel-mode traffic -/

/-- if the packet is a page header whose control byte C7..C14 decodes, C11 (magazine serial) is clear -/
def ParHdr (p : Packet) : Prop :=
  ∀ pmag, a16 p 0 = some pmag → pmag >>> 3 = 0 → ∀ fl, a16 p 8 = some fl → fl &&& 0x10 = 0

theorem IInv.desync {s : St} (h : IInv s) : IInv (desync s) := by
  refine ⟨h.shape.desync, h.mask, ?_, ?_⟩
  · intro c hc; rw [(slotKept_desync s c).id.1]; exact h.par c hc
  · intro c hc hf
    exfalso; apply hf
    exact desync_fn s c (by rw [h.shape.len]; exact hc)

theorem decode_iinv (s : St) (p : Packet) (hi : IInv s) (hpar : ParHdr p) : IInv (decodeTeletext s p).st := by
  cases ha : a16 p 0 with
  | none =>
    have : decodeTeletext s p = ⟨s, [], false⟩ := by unfold decodeTeletext; rw [ha]
    rw [this]; exact hi
  | some pmag =>
    by_cases h0 : pmag >>> 3 = 0
    · have hl : pmag &&& 7 < s.raw.length := by rw [hi.shape.len]; exact and7_lt pmag
      obtain ⟨sh, hmask⟩ := decode_shape s p hi.shape
      rcases decode_header_frame s p pmag ha h0 hi.mask hl rfl with ⟨_, hd⟩ | ⟨page, hpage, hs, _⟩
      · rw [hd]; exact hi.desync
      · have hcl := terminatePage_closed s (pmag &&& 7) ((if (pmag &&& 7) == 0 then 8 else pmag &&& 7) * 256 + page) page
        have hm8 := and7_lt pmag
        generalize pmag &&& 7 = m' at hs hcl hm8
        have hmag8 : (if (m' == 0) = true then 8 else m') = mag8Of m' := rfl
        rw [hmag8] at hs hcl
        generalize terminatePage s m' (mag8Of m' * 256 + page) page = T at hs hcl
        obtain ⟨t, evt⟩ := T
        simp only [] at hs hcl
        refine ⟨sh, by rw [hmask]; exact hi.mask, ?_, ?_⟩
        · intro c hc
          by_cases e : c = m'
          · subst e
            rcases hs.flags with ⟨_, hfl, _⟩ | ⟨s12, s34, fl, e1, e2, e3, hfl, _⟩
            · rw [hfl, (hcl.slots c).id.1]; exact hi.par c hc
            · have b1 := a16_lt p 4 s12 e1
              have b2 := a16_lt p 6 s34 e2
              have b3 := a16_lt p 8 fl e3
              obtain ⟨c1, c2⟩ := c11_clear fl (s12 + s34 * 256) b3 (by omega) (hpar pmag ha h0 fl e3)
              rcases hfl with hfl | hfl <;> rw [hfl] <;> assumption
          · rw [hs.other c e, (hcl.slots c).id.1]; exact hi.par c hc
        · intro c hc hf
          by_cases e : c = m'
          · subst e; exact ⟨page, a16_lt p 2 page hpage, hs.pgno⟩
          · rw [hs.other c e] at hf ⊢
            rcases hcl.slots c with h | ⟨h, _⟩
            · rw [h] at hf ⊢; exact hi.own c hc hf
            · exact absurd h hf
    · rcases (decode_quiet s p pmag ha h0).1 with hq | ⟨hd, _⟩
      · exact hi.quiet hq
      · rw [hd]; exact hi.desync

theorem step_iinv (s : St) (p : Packet) (hi : IInv s) (hpar : ParHdr p) : IInv (step s p).1 := by
  rw [step_eq_of_shape s p hi.shape]
  exact decode_iinv (tick s) p hi.tick hpar

/-- **reachability**: any packet history without C11 headers keeps `IInv` -/
theorem run_iinv (ps : List Packet) : ∀ (s : St), IInv s → (∀ p ∈ ps, ParHdr p) → IInv (run s ps).1 := by
  induction ps with
  | nil => intro s h _; exact h
  | cons p ps ih =>
    intro s h hp
    rw [run_cons]
    exact ih _ (step_iinv s p h (hp p List.mem_cons_self)) (fun q hq => hp q (List.mem_cons_of_mem _ hq))

theorem init_iinv : IInv (init.enable true) := by
  refine ⟨init_shape true, rfl, ?_, ?_⟩
  · have : ∀ c < 8, ((init.enable true).rp c).page.flags &&& C11_MAGAZINE_SERIAL = 0 := by decide +kernel
    exact this
  · intro c hc hf
    exfalso; apply hf
    have : ∀ m < 8, slotFn (init.enable true) m = FN_DISCARD := by decide +kernel
    exact this c hc

/-! ## own rows and benign foreign packets, in any order -/

/-- what is sent between the header of page P (magazine `m`) and its terminating header -/
inductive Item
  /-- a row (packet number `k`) of P -/
  | own (k : Nat) (p : Packet)
  /-- any packet (number `k`) of another magazine `m'` -/
  | foreign (m' k : Nat) (p : Packet)
  /-- (round 6) a packet of P that is not a row: X/26, X/27, X/28 (not X/28/3), or M/29 of its magazine (`IsAux`) -/
  | ownx (k : Nat) (p : Packet)

def Item.pkt : Item → Packet
  | .own _ p => p
  | .foreign _ _ p => p
  | .ownx _ p => p

/-- the rows of P among the items, in the order sent -/
def ownRows : List Item → List RowPkt
  | [] => []
  | .own k p :: xs => (k, p) :: ownRows xs
  | .foreign _ _ _ :: xs => ownRows xs
  | .ownx _ _ :: xs => ownRows xs

/-- along the run from `s`: own items are rows 1..25 of magazine `m`; foreign items belong to another
    magazine and are `Benign` in the state they arrive in -/
def ItemsOk (m : Nat) : St → List Item → Prop
  | _, [] => True
  | s, .own k p :: xs => (IsPacket p m k ∧ 1 ≤ k ∧ k ≤ 25) ∧ ItemsOk m (step s p).1 xs
  | s, .foreign m' k p :: xs => (m' ≠ m ∧ IsPacket p m' k ∧ Benign s p m' k) ∧ ItemsOk m (step s p).1 xs
  | s, .ownx k p :: xs => (IsPacket p m k ∧ IsAux p k) ∧ ItemsOk m (step s p).1 xs

/-- slot `m` while the items arrive: page record as the header left it - apart from the enhancement / link / extension
    data written by the page's own X/26, X/27, X/28 packets (`SameText`) -, rows collected -/
structure Mid (s2 s' : St) (m : Nat) (rows : List (Nat × List Nat)) : Prop where
  inv : IInv s'
  cur : ∃ c, s'.current = some c
  page : SameText (s2.rp m).page (s'.rp m).page
  lr : (s'.rp m).lopRaw = mergeRows (s2.rp m).lopRaw rows
  lp : (s'.rp m).lopPackets = rowBits (s2.rp m).lopPackets rows

theorem run_items (s2 : St) (m : Nat) (hm : m < 8) (hfn : (s2.rp m).page.function = FN_LOP) (pgnoP : Nat)
    (hpg : ∃ page, page < 256 ∧ pgnoP = mag8Of m * 256 + page) :
    ∀ (items : List Item) (s' : St) (rows : List (Nat × List Nat)), Mid s2 s' m rows → ItemsOk m s' items →
      Mid s2 (run s' (items.map Item.pkt)).1 m (rows ++ rowsOf (ownRows items))
      ∧ (∀ x ∈ ttxPages (run s' (items.map Item.pkt)).2, x.1 ≠ pgnoP)
      ∧ Event.chsw ∉ (run s' (items.map Item.pkt)).2 := by
  obtain ⟨pageP, hpP, rfl⟩ := hpg
  intro items
  induction items with
  | nil =>
    intro s' rows h _
    simp only [List.map_nil, run_nil, ownRows, rowsOf, List.append_nil]
    exact ⟨h, fun x hx => (by cases hx), fun h => (by cases h)⟩
  | cons it items ih =>
    intro s' rows h hok
    cases it with
    | own k p =>
      obtain ⟨⟨hp, hk1, hk2⟩, hrest⟩ := hok
      have hfn' : (s'.rp m).page.function = FN_LOP := by rw [h.page.fn]; exact hfn
      have hst := step_row s' p m k hp ⟨hk1, hk2⟩ h.inv.shape.cd h.inv.mask hfn'
      have hlen : m < (tick s').raw.length := by show m < s'.raw.length; rw [h.inv.shape.len]; exact hm
      have hq : ∀ x : RawPage, x.page = (s'.rp m).page → x.lopRaw.length = (s'.rp m).lopRaw.length →
          Quiet (tick s') ((tick s').setRp m x) m := fun x h1 h2 => quiet_setRp_page (tick s') m x h1 h2
      have hmid : Mid s2 (step s' p).1 m (rows ++ [(k, payload p)]) := by
        rw [hst]
        refine ⟨h.inv.tick.quiet (hq _ rfl (by simp)), ?_, ?_, ?_, ?_⟩
        · obtain ⟨c, hc⟩ := h.cur; exact ⟨c, hc⟩
        · show SameText _ (((tick s').setRp m _).rp m).page
          rw [rp_setRp_same _ m _ hlen]; exact h.page
        · show (((tick s').setRp m _).rp m).lopRaw = _
          rw [rp_setRp_same _ m _ hlen, mergeRows_append, ← h.lr]; rfl
        · show (((tick s').setRp m _).rp m).lopPackets = _
          rw [rp_setRp_same _ m _ hlen, rowBits_append, ← h.lp]; rfl
      have hev : (step s' p).2 = [] := by rw [hst]
      obtain ⟨r1, r2, r3⟩ := ih (step s' p).1 _ hmid hrest
      simp only [List.map_cons, Item.pkt, run_cons, hev, List.nil_append]
      refine ⟨?_, r2, r3⟩
      have : rows ++ rowsOf (ownRows (Item.own k p :: items)) = rows ++ [(k, payload p)] ++ rowsOf (ownRows items) := by
        simp [ownRows, rowsOf]
      rw [this]; exact r1
    | foreign m' k p =>
      obtain ⟨⟨hne, hp, hb⟩, hrest⟩ := hok
      obtain ⟨f1, f2, f3, f4⟩ := foreign_step s' p m m' k hne hp h.inv hb
      have hmid : Mid s2 (step s' p).1 m rows :=
        ⟨f1, f4 h.cur, by rw [f2]; exact h.page, by rw [f2]; exact h.lr, by rw [f2]; exact h.lp⟩
      obtain ⟨r1, r2, r3⟩ := ih (step s' p).1 _ hmid hrest
      simp only [List.map_cons, Item.pkt, run_cons]
      refine ⟨r1, ?_, ?_⟩
      · intro x hx
        rw [ttxPages_append, List.mem_append] at hx
        rcases hx with hx | hx
        · obtain ⟨pg, hpg1, hpg2⟩ := f3 x hx
          rw [hpg2]
          exact pgno_ne m m' pageP pg hm hp.1 hne hpP hpg1
        · exact r2 x hx
      · intro hx
        rw [List.mem_append] at hx
        rcases hx with hx | hx
        · exact hb.nosw hx
        · exact r3 hx
    | ownx k p =>
      obtain ⟨⟨hp, hk⟩, hrest⟩ := hok
      have hfn' : (s'.rp m).page.function = FN_LOP := by rw [h.page.fn]; exact hfn
      have hlen : m < s'.raw.length := by rw [h.inv.shape.len]; exact hm
      obtain ⟨a1, _, a3, a4⟩ := own_aux_step s' p m k hp hk h.inv.shape.cd h.inv.mask hfn' hlen
      have hmid : Mid s2 (step s' p).1 m rows :=
        ⟨h.inv.tick.quiet a3, by obtain ⟨c, hc⟩ := h.cur; exact ⟨c, by rw [a3.cur]; exact hc⟩,
          h.page.trans a1.text, by rw [a1.lr]; exact h.lr, by rw [a1.lp]; exact h.lp⟩
      obtain ⟨r1, r2, r3⟩ := ih (step s' p).1 _ hmid hrest
      simp only [List.map_cons, Item.pkt, run_cons]
      refine ⟨r1, ?_, ?_⟩
      · intro x hx
        rw [ttxPages_append, a4.pages, List.nil_append] at hx
        exact r2 x hx
      · intro hx
        rw [List.mem_append] at hx
        rcases hx with hx | hx
        · exact a4.nochsw hx
        · exact r3 hx

/-! ## the terminating header (slot `m` ready, decoder in parallel mode) -/

/-- slot `t.m` holds transmission `t` complete, and the last header received was a parallel-mode one -/
structure Ready (sR s1 : St) (t : Tx) (hdr : Packet) (rows : List (Nat × List Nat)) : Prop where
  len : sR.raw.length = 8
  mask : sR.mask = true
  cd : sR.chswcd = 0
  par : ParallelCur sR
  fn : (sR.rp t.m).page.function = FN_LOP
  pg : (sR.rp t.m).page.pgno = t.pgno
  sub : (sR.rp t.m).page.subno = t.subno
  nat : (sR.rp t.m).page.national = rev8 t.fl &&& 7
  flags : (sR.rp t.m).page.flags = t.flags s1
  raw : (sR.rp t.m).page.raw = t.base s1 hdr
  lr : (sR.rp t.m).lopRaw = mergeRows (s1.rp t.m).lopRaw rows
  lp : (sR.rp t.m).lopPackets = rowBits 0 rows

theorem page_stored' (sR s1 : St) (t : Tx) (hdr : Packet) (rows : List (Nat × List Nat))
    (ha : Ready sR s1 t hdr rows) (hm : t.m < 8) (hdec : decimalPage t.page) (hL : (s1.rp t.m).lopRaw.length = 26)
    (hrows : ∀ r ∈ rows, 1 ≤ r.1 ∧ r.1 ≤ 25 ∧ GoodRow r.2)
    (pgnoQ pageQ : Nat) (hne : pageQ ≠ t.page)
    (hn : Event.chsw ∉ (terminatePage (tick sR) t.m pgnoQ pageQ).2) :
    ∃ q rest pt, (terminatePage (tick sR) t.m pgnoQ pageQ).1.net.cache = q :: rest
      ∧ Fetched q t s1 hdr rows pt
      ∧ (pt = PT_CLOCK → (sR.net.getStat t.pgno).pageType = PT_CLOCK)
      ∧ ttxPages (terminatePage (tick sR) t.m pgnoQ pageQ).2 = [(t.pgno, t.subno)] := by
  obtain ⟨hv, hand⟩ := pgno_facts t.m t.page hm hdec
  have hrp : (tick sR).rp t.m = sR.rp t.m := rfl
  obtain ⟨q, rest, pt, h1, h2, h3, h4⟩ := close_text (tick sR) t.m pgnoQ pageQ
    (by show t.m < sR.raw.length; rw [ha.len]; exact hm) ha.cd ha.mask ha.par (by rw [hrp]; exact ha.fn)
    (by rw [hrp, ha.pg]; show (mag8Of t.m * 256 + t.page) &&& 0xFF ≠ pageQ; rw [hand]; exact fun h => hne h.symm)
    (by rw [hrp, ha.pg]; exact hv) (s1.rp t.m).lopRaw rows (by rw [hrp]; exact ha.lr) hL (by rw [hrp]; exact ha.lp) hrows hn
  rw [hrp] at h2 h3 h4
  refine ⟨q, rest, pt, h1, ⟨h2.fn, h2.pgno.trans ha.pg, ?_, h2.national.trans ha.nat, h2.flags.trans ha.flags, ?_⟩, ?_, ?_⟩
  · intro key mask hk
    apply h2.subno key mask
    rw [ha.pg, ha.sub]; exact hk
  · rw [h2.raw, ha.raw]
  · intro hpt; have := h3 hpt; rw [ha.pg] at this; exact this
  · rw [h4, ha.pg, ha.sub]

/-- terminated by the header of another decimal text page of the magazine -/
theorem fetched_after_text (sR s1 : St) (t : Tx) (hdr : Packet) (rows : List (Nat × List Nat))
    (ha : Ready sR s1 t hdr rows) (hm : t.m < 8) (hdec : decimalPage t.page) (hL : (s1.rp t.m).lopRaw.length = 26)
    (hrows : ∀ r ∈ rows, 1 ≤ r.1 ∧ r.1 ≤ 25 ∧ GoodRow r.2)
    (hq : Packet) (upage us12 us34 ufl : Nat) (hu : IsHeader hq t.m upage us12 us34 ufl) (hune : upage ≠ t.page)
    (hudec : decimalPage upage)
    (hutext : TextPage (terminatePage (tick sR) t.m (mag8Of t.m * 256 + upage) upage).1.net (mag8Of t.m * 256 + upage) upage
      (lookupPrev (terminatePage (tick sR) t.m (mag8Of t.m * 256 + upage) upage).1.net (mag8Of t.m * 256 + upage)
        (us12 + us34 * 256) ufl).1)
    (hnosw : Event.chsw ∉ (step sR hq).2) :
    ∃ q pt, Fetched q t s1 hdr rows pt
      ∧ (pt = PT_CLOCK → (sR.net.getStat t.pgno).pageType = PT_CLOCK)
      ∧ (∀ subno mask, subno = q.subno ∨ subno = ANY_SUBNO →
          (cacheGet (step sR hq).1.net.cache t.pgno subno mask).map (·.1) = some q)
      ∧ ttxPages (step sR hq).2 = [(t.pgno, t.subno)] := by
  have hvp := (pgno_facts t.m t.page hm hdec).1
  rw [step_eq_decode sR hq ha.cd] at hnosw ⊢
  simp only [] at hnosw ⊢
  obtain ⟨ho, he, hc⟩ := decode_header_text (tick sR) hq t.m upage us12 us34 ufl hu hudec ha.mask
    (terminatePage (tick sR) t.m (mag8Of t.m * 256 + upage) upage).1
    (terminatePage (tick sR) t.m (mag8Of t.m * 256 + upage) upage).2 rfl
    ((terminatePage_glob (tick sR) t.m (mag8Of t.m * 256 + upage) upage).len.trans ha.len) hutext
  have hn : Event.chsw ∉ (terminatePage (tick sR) t.m (mag8Of t.m * 256 + upage) upage).2 := by
    intro h; apply hnosw; exact hc.mpr h
  obtain ⟨q, rest, pt, h1, h2, h3, h4⟩ := page_stored' sR s1 t hdr rows ha hm hdec hL hrows
    (mag8Of t.m * 256 + upage) upage hune hn
  refine ⟨q, pt, h2, h3, ?_, ?_⟩
  · intro subno mask hs
    apply cacheGet_of_find _ _ _ _ _ hvp
    rw [ho.net]
    have hpq : mag8Of t.m * 256 + upage ≠ mag8Of t.m * 256 + t.page := by omega
    rw [lookupPrev_find _ (mag8Of t.m * 256 + upage) _ _ (mag8Of t.m * 256 + t.page) _ _ hpq, h1,
      show mag8Of t.m * 256 + t.page = q.pgno from h2.pgno.symm]
    exact find_head q rest subno mask hs
  · rw [he, h4]

/-- terminated by a time-filling header (page number FF) of the magazine -/
theorem fetched_after_filler (sR s1 : St) (t : Tx) (hdr : Packet) (rows : List (Nat × List Nat))
    (ha : Ready sR s1 t hdr rows) (hm : t.m < 8) (hdec : decimalPage t.page) (hL : (s1.rp t.m).lopRaw.length = 26)
    (hrows : ∀ r ∈ rows, 1 ≤ r.1 ∧ r.1 ≤ 25 ∧ GoodRow r.2)
    (hq : Packet) (haQ : a16 hq 0 = some t.m) (hpQ : a16 hq 2 = some 0xFF)
    (hnosw : Event.chsw ∉ (step sR hq).2) :
    ∃ q pt, Fetched q t s1 hdr rows pt
      ∧ (pt = PT_CLOCK → (sR.net.getStat t.pgno).pageType = PT_CLOCK)
      ∧ (∀ subno mask, subno = q.subno ∨ subno = ANY_SUBNO →
          (cacheGet (step sR hq).1.net.cache t.pgno subno mask).map (·.1) = some q)
      ∧ ttxPages (step sR hq).2 = [(t.pgno, t.subno)] := by
  have hvp := (pgno_facts t.m t.page hm hdec).1
  rw [step_eq_decode sR hq ha.cd] at hnosw ⊢
  simp only [] at hnosw ⊢
  have h0 : t.m >>> 3 = 0 := (addr_split t.m hm 0 (by omega)).2
  have h7 : t.m &&& 7 = t.m := (addr_split t.m hm 0 (by omega)).1
  have hrej : hdrRejected 0xFF ((view Kind.hdr hq).g16i 2) ((view Kind.hdr hq).g16i 4) ((view Kind.hdr hq).g16i 6) = true := by
    unfold hdrRejected; simp
  have hd := decode_hdr_rejected (tick sR) hq t.m 0xFF haQ h0 ha.mask hpQ hrej
  simp only [h7] at hd
  rw [hd] at hnosw ⊢
  simp only [] at hnosw ⊢
  have hne : (0xFF : Nat) ≠ t.page := by have := hdec.1; omega
  obtain ⟨q, rest, pt, h1, h2, h3, h4⟩ := page_stored' sR s1 t hdr rows ha hm hdec hL hrows
    (mag8Of t.m * 256 + 0xFF) 0xFF hne hnosw
  refine ⟨q, pt, h2, h3, ?_, ?_⟩
  · intro subno mask hs
    apply cacheGet_of_find _ _ _ _ _ hvp
    have : (hdrAbandon (terminatePage (tick sR) t.m (mag8Of t.m * 256 + 0xFF) 0xFF).1 t.m
        (mag8Of t.m * 256 + 0xFF)).net = (terminatePage (tick sR) t.m (mag8Of t.m * 256 + 0xFF) 0xFF).1.net := rfl
    rw [show (if (t.m == 0) = true then 8 else t.m) = mag8Of t.m from rfl, this, h1,
      show mag8Of t.m * 256 + t.page = q.pgno from h2.pgno.symm]
    exact find_head q rest subno mask hs
  · rw [show (if (t.m == 0) = true then 8 else t.m) = mag8Of t.m from rfl, h4]

end Zvbi.Ttx
