import ZvbiModel.Ttx.Frame2
/-!
# Frame lemmas for C02 (round 4), part 3: page termination (`terminatePage`, `store_lop`)

`Closed s s' ev ts`: what the "Store page terminated by new header" block does when the terminated slot is
`ts`: every slot is untouched or discarded with its identity and array shapes kept (`SlotKept`); unless
the rolling-header test signalled a channel switch (`Event.chsw`) all slots but `ts` are untouched; slot
`ts` ends up discarded; the only TTX_PAGE event carries the numbers of slot `ts`, which then was a text
page; pages enter the cache only as copies of a slot's page.
-/
namespace Zvbi.Ttx
open Zvbi.Hamm Zvbi.Gen Zvbi.Ttx.Spec

theorem rp_congr {a b : St} (h : a.raw = b.raw) (c : Nat) : a.rp c = b.rp c := by
  unfold St.rp; rw [h]

/-- slot content after a step: untouched, or discarded with the same identity and array shapes -/
def SlotKept (a b : RawPage) : Prop :=
  b = a ∨ (b.page.function = FN_DISCARD ∧ b.page.flags = a.page.flags ∧ b.page.pgno = a.page.pgno
    ∧ b.page.subno = a.page.subno ∧ b.lopRaw.length = a.lopRaw.length ∧ b.page.raw.length = a.page.raw.length)

theorem SlotKept.refl (a : RawPage) : SlotKept a a := Or.inl rfl

theorem SlotKept.trans {a b c : RawPage} (h1 : SlotKept a b) (h2 : SlotKept b c) : SlotKept a c := by
  rcases h2 with rfl | ⟨f, g1, g2, g3, g4, g5⟩
  · exact h1
  · rcases h1 with rfl | ⟨_, k1, k2, k3, k4, k5⟩
    · exact Or.inr ⟨f, g1, g2, g3, g4, g5⟩
    · exact Or.inr ⟨f, g1.trans k1, g2.trans k2, g3.trans k3, g4.trans k4, g5.trans k5⟩

theorem slotKept_desync (s : St) (c : Nat) : SlotKept (s.rp c) ((desync s).rp c) := by
  by_cases h : c < s.raw.length
  · rw [rp_desync s c h]; exact Or.inr ⟨rfl, rfl, rfl, rfl, rfl, rfl⟩
  · left
    unfold desync St.rp
    simp [List.getD_eq_getElem?_getD, h]

theorem desync_fn (s : St) (c : Nat) (h : c < s.raw.length) : ((desync s).rp c).page.function = FN_DISCARD := by
  rw [rp_desync s c h]

/-- `setRp` seen from any slot -/
theorem slotKept_setRp (s : St) (m : Nat) (x : RawPage) (h : SlotKept (s.rp m) x) (c : Nat) :
    SlotKept (s.rp c) ((s.setRp m x).rp c) := by
  by_cases e : c = m
  · subst e
    by_cases hl : c < s.raw.length
    · rw [rp_setRp_same s c x hl]; exact h
    · rw [setRp_ge s c x hl]; exact SlotKept.refl _
  · rw [rp_setRp_other s m c x e]; exact SlotKept.refl _

/-! ## `store_lop` -/

/-- what `store_lop` does to the decoder state -/
structure StoreShape (s s' : St) (ev : List Event) (vtp : Page) : Prop where
  raw : s'.raw = s.raw ∨ (s'.raw = (desync s).raw ∧ Event.chsw ∈ ev)
  keep : Event.chsw ∉ ev → s'.raw = s.raw
  mask : s'.mask = s.mask
  cd : s.chswcd = 0 → s'.chswcd = 0
  cur : s'.current = s.current
  hlen : 8 ≤ s.header.length → 8 ≤ s'.header.length
  cache : ∀ x ∈ s'.net.cache, x ∈ s.net.cache ∨ x.raw = vtp.raw
  pages : ∀ x ∈ ttxPages ev, x = (vtp.pgno, vtp.subno)

/-- both source shapes of `_vbi_cache_put_page` (`fix`): nothing enters the chain but the page stored -/
theorem cachePutF_mem (fix : Bool) (c : List Page) (pt : Nat) (p : Page) :
    ∀ c', cachePutF fix c pt p = some c' → ∀ x ∈ c', x ∈ c ∨ x.raw = p.raw := by
  unfold cachePutF
  split
  · intro c' h; cases h
  · generalize putKey pt p.pgno p.subno = k
    obtain ⟨a, b⟩ := k
    intro c' h
    simp only [Option.some.injEq] at h
    subst h
    intro x hx
    rcases List.mem_cons.mp hx with rfl | hx
    · right; exact truncate_raw p
    · left
      cases hf : cacheFind c p.pgno (a &&& b) b with
      | none => rw [hf] at hx; exact hx
      | some r =>
        obtain ⟨old, c1⟩ := r
        rw [hf] at hx
        simp only at hx
        split at hx
        · exact (cacheFind_sub _ _ _ _ _ _ hf).2 x (List.mem_of_mem_erase (List.mem_filter.1 hx).1)
        · exact (cacheFind_sub _ _ _ _ _ _ hf).2 x (List.mem_of_mem_erase hx)

theorem cachePut_mem (c : List Page) (pt : Nat) (p : Page) :
    ∀ c', cachePut c pt p = some c' → ∀ x ∈ c', x ∈ c ∨ x.raw = p.raw :=
  cachePutF_mem _ c pt p

theorem put_cache (n : Net) (p : Page) : ∀ x ∈ (n.put p).cache, x ∈ n.cache ∨ x.raw = p.raw := by
  unfold Net.put
  cases hc : cachePut n.cache (n.getStat p.pgno).pageType p with
  | none => intro x hx; exact Or.inl hx
  | some c => exact cachePut_mem _ _ _ c hc

theorem ttxPages_ite_mem (P : Prop) [Decidable P] (a b : Nat) (c d : Bool) (e : Option Bool) (f : Int)
    (g : Option (List Nat)) (x : Nat × Nat)
    (h : x ∈ ttxPages (if P then [Event.ttxPage a b c d e f g] else [])) : x = (a, b) := by
  split at h
  · exact List.mem_singleton.mp h
  · cases h

theorem ttxPages_single (a b : Nat) (c d : Bool) (e : Option Bool) (f : Int) (g : Option (List Nat)) :
    ttxPages [Event.ttxPage a b c d e f g] = [(a, b)] := rfl

theorem storeLop_shape (s : St) (vtp : Page) : StoreShape s (storeLop s vtp).1 (storeLop s vtp).2 vtp := by
  unfold storeLop
  split
  · refine ⟨Or.inr ⟨chswReset_raw s, by simp⟩, fun h => absurd (by simp) h, rfl, fun _ => rfl, rfl, fun h => h, ?_, ?_⟩
    · intro x hx; exact absurd hx (by simp [chswReset])
    · intro x hx; simp [ttxPages] at hx
  · exact ⟨Or.inl rfl, fun _ => rfl, rfl, id, rfl, id, fun x hx => Or.inl hx, fun x hx => by simp [ttxPages] at hx⟩
  · rename_i copy clearCd roll hdrUpd clock pn _
    simp only []
    refine ⟨Or.inl ?_, fun _ => ?_, ?_, ?_, ?_, ?_, ?_, ?_⟩
    · cases copy <;> cases clearCd <;> rfl
    · cases copy <;> cases clearCd <;> rfl
    · cases copy <;> cases clearCd <;> rfl
    · cases copy <;> cases clearCd <;> intro h <;> first | exact h | rfl
    · cases copy <;> cases clearCd <;> rfl
    · intro h
      cases copy <;> cases clearCd <;> simp only [Bool.false_eq_true, if_false, if_true] <;>
        first
          | exact h
          | (simp only [List.length_append, List.length_take]; omega)
    · intro x hx
      have := put_cache _ vtp x hx
      rcases this with h | h
      · left
        rw [setStat_cache] at h
        cases copy <;> cases clearCd <;> exact h
      · exact Or.inr h
    · intro x hx
      rw [ttxPages_append, ttxPages_append, ttxPages_liftAux] at hx
      have e : ttxPages [Event.put vtp] = [] := rfl
      rw [e] at hx
      simp only [List.nil_append] at hx
      exact ttxPages_ite_mem _ _ _ _ _ _ _ _ _ hx

/-! ## `terminatePage` -/

structure Closed (s s' : St) (ev : List Event) (ts : Option Nat) : Prop where
  len : s'.raw.length = s.raw.length
  mask : s'.mask = s.mask
  cd : s.chswcd = 0 → s'.chswcd = 0
  cur : s'.current = s.current
  hlen : 8 ≤ s.header.length → 8 ≤ s'.header.length
  slots : ∀ c, SlotKept (s.rp c) (s'.rp c)
  other : Event.chsw ∉ ev → ∀ c, ts ≠ some c → s'.rp c = s.rp c
  closed : ∀ c, ts = some c → c < s.raw.length → (s'.rp c).page.function = FN_DISCARD
  pages : ∀ x ∈ ttxPages ev, ∃ c, ts = some c ∧ x = ((s.rp c).page.pgno, (s.rp c).page.subno)
    ∧ (s.rp c).page.function = FN_LOP
  cache : ∀ x ∈ s'.net.cache, x ∈ s.net.cache ∨ ∃ c, ts = some c ∧ x.raw.length = (s.rp c).page.raw.length

theorem Closed.nop (s : St) : Closed s s [] none :=
  ⟨rfl, rfl, id, rfl, id, fun _ => SlotKept.refl _, fun _ _ _ => rfl, fun _ h => (by cases h),
    fun x hx => (by cases hx), fun x hx => Or.inl hx⟩

theorem lopParityCheck_lens (cv : Page) (rv : RawPage) :
    (lopParityCheck cv rv).1.raw.length = cv.raw.length ∧ (lopParityCheck cv rv).1.flags = cv.flags
    ∧ (lopParityCheck cv rv).2.lopRaw.length = rv.lopRaw.length := by
  refine ⟨?_, ?_, (lopParityCheck_fix cv rv).1⟩
  · rw [lopParityCheck_fst]; exact (parityFold_fields _ _ _ _).2.2.2.2.2
  · rw [lopParityCheck_fst]; exact (parityFold_fields _ _ _ _).2.2.2.1

/-- identity and array shapes of a slot kept -/
def SlotId (a b : RawPage) : Prop :=
  b.page.flags = a.page.flags ∧ b.page.pgno = a.page.pgno ∧ b.page.subno = a.page.subno
    ∧ b.lopRaw.length = a.lopRaw.length ∧ b.page.raw.length = a.page.raw.length

theorem SlotId.refl (a : RawPage) : SlotId a a := ⟨rfl, rfl, rfl, rfl, rfl⟩
theorem SlotId.trans {a b c : RawPage} (h1 : SlotId a b) (h2 : SlotId b c) : SlotId a c :=
  ⟨h2.1.trans h1.1, h2.2.1.trans h1.2.1, h2.2.2.1.trans h1.2.2.1, h2.2.2.2.1.trans h1.2.2.2.1,
    h2.2.2.2.2.trans h1.2.2.2.2⟩
theorem SlotKept.id {a b : RawPage} (h : SlotKept a b) : SlotId a b := by
  rcases h with rfl | ⟨_, h1, h2, h3, h4, h5⟩
  · exact SlotId.refl _
  · exact ⟨h1, h2, h3, h4, h5⟩

theorem rp_ge (s : St) (c : Nat) (h : ¬ c < s.raw.length) : s.rp c = default := by
  unfold St.rp
  have : s.raw[c]? = none := by simp; omega
  simp [List.getD_eq_getElem?_getD, this]

/-- the final `cvtp->function = PAGE_FUNCTION_DISCARD` of the terminated slot -/
theorem closed_fin (s x : St) (ev : List Event) (curr : Nat)
    (hlen : x.raw.length = s.raw.length) (hmask : x.mask = s.mask) (hcd : s.chswcd = 0 → x.chswcd = 0)
    (hcur : x.current = s.current) (hh : 8 ≤ s.header.length → 8 ≤ x.header.length)
    (hslots : ∀ c, c ≠ curr → SlotKept (s.rp c) (x.rp c)) (hcurr : SlotId (s.rp curr) (x.rp curr))
    (hother : Event.chsw ∉ ev → ∀ c, c ≠ curr → x.rp c = s.rp c)
    (hpages : ∀ y ∈ ttxPages ev, y = ((s.rp curr).page.pgno, (s.rp curr).page.subno) ∧ (s.rp curr).page.function = FN_LOP)
    (hcache : ∀ y ∈ x.net.cache, y ∈ s.net.cache ∨ y.raw.length = (s.rp curr).page.raw.length) :
    Closed s (x.setPage curr { (x.rp curr).page with function := FN_DISCARD }) ev (some curr) := by
  refine ⟨(setPage_length _ _ _).trans hlen, hmask, hcd, hcur, hh, ?_, ?_, ?_, ?_,
    fun y hy => (hcache y hy).imp id (fun h => ⟨curr, rfl, h⟩)⟩
  · intro c
    by_cases e : c = curr
    · subst e
      by_cases hl : c < x.raw.length
      · rw [rp_setPage_same _ c _ hl]
        obtain ⟨a1, a2, a3, a4, a5⟩ := hcurr
        exact Or.inr ⟨rfl, a1, a2, a3, a4, a5⟩
      · unfold St.setPage
        rw [setRp_ge x c _ hl, rp_ge x c hl, rp_ge s c (by rw [← hlen]; exact hl)]
        exact SlotKept.refl _
    · rw [rp_setPage_other _ curr c _ e]; exact hslots c e
  · intro hn c hc
    have hne : c ≠ curr := fun e => hc (by rw [e])
    rw [rp_setPage_other _ curr c _ hne]
    exact hother hn c hne
  · intro c hc hl
    have : c = curr := by injection hc with hc; exact hc.symm
    subst this
    rw [rp_setPage_same _ c _ (by rw [hlen]; exact hl)]
  · intro y hy
    exact ⟨curr, rfl, hpages y hy⟩

theorem terminatePage_closed (s : St) (mag0 pgno page : Nat) :
    Closed s (terminatePage s mag0 pgno page).1 (terminatePage s mag0 pgno page).2 (terminatedSlot s mag0 pgno page) := by
  unfold terminatePage
  split
  · rename_i h; rw [h]; exact Closed.nop s
  · rename_i curr hcurr
    rw [hcurr]
    simp only []
    have hnil : ∀ (y : Nat × Nat), y ∈ ttxPages ([] : List Event) →
        y = ((s.rp curr).page.pgno, (s.rp curr).page.subno) ∧ (s.rp curr).page.function = FN_LOP := by
      intro y hy; cases hy
    -- the cases that leave the slots alone
    have hsame : ∀ (x : St) (ev : List Event), x.raw = s.raw → x.mask = s.mask → x.chswcd = s.chswcd →
        x.current = s.current → x.header = s.header → ttxPages ev = [] →
        (∀ y ∈ x.net.cache, y ∈ s.net.cache ∨ y.raw.length = (s.rp curr).page.raw.length) →
        Closed s (x.setPage curr { (x.rp curr).page with function := FN_DISCARD }) ev (some curr) := by
      intro x ev hx hm hc hcu hh hev hca
      refine closed_fin s x ev curr (by rw [hx]) hm (fun h => by rw [hc]; exact h) hcu (fun h => by rw [hh]; exact h)
        (fun c _ => by rw [rp_congr hx c]; exact SlotKept.refl _) (by rw [rp_congr hx curr]; exact SlotId.refl _)
        (fun _ c _ => rp_congr hx c) (fun y hy => by rw [hev] at hy; cases hy) hca
    have hput : ∀ (p : Page), p = (s.rp curr).page → ∀ y ∈ (s.put p).1.net.cache,
        y ∈ s.net.cache ∨ y.raw.length = (s.rp curr).page.raw.length := by
      intro p hp y hy
      rcases put_cache s.net p y hy with h | h
      · exact Or.inl h
      · exact Or.inr (by rw [h, hp])
    have hputev : ∀ (p : Page), ttxPages (s.put p).2 = [] := fun p => rfl
    by_cases h1 : ((s.rp curr).page.function == FN_DISCARD || (s.rp curr).page.function == FN_EPG) = true
    · rw [if_pos h1]
      exact hsame s [] rfl rfl rfl rfl rfl rfl (fun y hy => Or.inl hy)
    rw [if_neg h1]
    by_cases h2 : ((s.rp curr).page.function == FN_LOP) = true
    · rw [if_pos h2]
      have hfn : (s.rp curr).page.function = FN_LOP := by simpa using h2
      obtain ⟨l1, l2, l3⟩ := lopParityCheck_lens (s.rp curr).page (s.rp curr)
      obtain ⟨k1, k2, k3⟩ := lopParityCheck_keys (s.rp curr).page (s.rp curr)
      generalize hLP : lopParityCheck (s.rp curr).page (s.rp curr) = LP at *
      obtain ⟨cv, rv⟩ := LP
      simp only [] at l1 l2 l3 k1 k2 k3 ⊢
      have hS := storeLop_shape (s.setRp curr { rv with page := cv }) cv
      generalize storeLop (s.setRp curr { rv with page := cv }) cv = SL at hS
      obtain ⟨x, ev⟩ := SL
      simp only [] at hS ⊢
      have hid0 : SlotId (s.rp curr) ((s.setRp curr { rv with page := cv }).rp curr) := by
        by_cases hl : curr < s.raw.length
        · rw [rp_setRp_same s curr _ hl]; exact ⟨l2, k1, k2, l3, l1⟩
        · rw [setRp_ge s curr _ hl]; exact SlotId.refl _
      refine closed_fin s x ev curr ?_ hS.mask hS.cd hS.cur hS.hlen ?_ ?_ ?_ ?_ ?_
      · rcases hS.raw with h | ⟨h, _⟩
        · rw [h]; exact setRp_length s curr _
        · rw [h, desync_length]; exact setRp_length s curr _
      · intro c hc
        rcases hS.raw with h | ⟨h, _⟩
        · rw [rp_congr h c, rp_setRp_other s curr c _ hc]; exact SlotKept.refl _
        · have : x.rp c = (desync (s.setRp curr { rv with page := cv })).rp c := rp_congr h c
          rw [this]
          have := slotKept_desync (s.setRp curr { rv with page := cv }) c
          rw [rp_setRp_other s curr c _ hc] at this
          exact this
      · rcases hS.raw with h | ⟨h, _⟩
        · rw [rp_congr h curr]; exact hid0
        · have : x.rp curr = (desync (s.setRp curr { rv with page := cv })).rp curr := rp_congr h curr
          rw [this]
          exact hid0.trans (slotKept_desync _ curr).id
      · intro hn c hc
        rw [rp_congr (hS.keep hn) c, rp_setRp_other s curr c _ hc]
      · intro y hy
        rw [hS.pages y hy, k1, k2]
        exact ⟨rfl, hfn⟩
      · intro y hy
        rcases hS.cache y hy with h | h
        · exact Or.inl h
        · exact Or.inr (by rw [h, l1])
    rw [if_neg h2]
    by_cases h3 : ((s.rp curr).page.function == FN_DRCS || (s.rp curr).page.function == FN_GDRCS) = true
    · rw [if_pos h3]
      refine hsame _ _ rfl rfl rfl rfl rfl ?_ (hput _ rfl)
      rw [ttxPages_append, ttxPages_liftAux, hputev]; rfl
    rw [if_neg h3]
    by_cases h4 : ((s.rp curr).page.function == FN_MIP) = true
    · rw [if_pos h4]
      have hsub := parseMip_sub s.net (s.rp curr).page
      generalize parseMip s.net (s.rp curr).page = PM at hsub
      obtain ⟨n', l'⟩ := PM
      exact hsame { s with net := n' } (liftAux l') rfl rfl rfl rfl rfl (ttxPages_liftAux _) (fun y hy => Or.inl (hsub y hy))
    rw [if_neg h4]
    by_cases h5 : ((s.rp curr).page.function == FN_EACEM) = true
    · rw [if_pos h5]
      exact hsame s [] rfl rfl rfl rfl rfl rfl (fun y hy => Or.inl hy)
    rw [if_neg h5]
    exact hsame _ _ rfl rfl rfl rfl rfl (hputev _) (hput _ rfl)

end Zvbi.Ttx
