import ZvbiModel.Ttx.CacheSent
/-!
# Lemmas for C03 x C10 (round 5): the decoder's page list evolves by cache operations ONLY

`CacheSent` proves what the cache HOLDS (`CacheOk`).  Here: HOW it changes.  Over every branch of
`vbi_decode_teletext` / `vbi_decode` the list `Net.cache` of the state afterwards is the list before with a
sequence of the three operations of the cache interface applied (`CacheOp`, `applyOp`):

* `.get pgno subno mask`: `_vbi_cache_get_page` (`cacheGet`, move to front) - `Net.get`, reached from
  `headerLookup`, the BTT parser (subtitle pages) and the MIP parser (`mipClassify`),
* `.put pt p`: `_vbi_cache_put_page` with the page type `pt` of the statistics (`cachePut`) - `Net.put`, reached
  from `St.put` and `storeLop`, each of which emits `Event.put p`,
* `.clear`: `vbi_chsw_reset` recycling the network record (`chswReset`).

`Reach P c c'`: `c'` is reached from `c` by such operations, the stores all being of pages satisfying `P`.
`Looks n n'` (= `Reach (fun _ => False)`): look-ups only - the twin of every `CacheSub` lemma of Frame1..4.
`run_reach`: over every history, with `P p := Event.put p ∈ events of the history`.
The single-operation simulation lemmas of Props/C10Ttx.lean (`sim_get`, `sim_put`) then cover every change of
the list.
-/
namespace Zvbi.Ttx
open Zvbi.Hamm Zvbi.Gen Zvbi.Ttx.Spec

/-- one call of the cache interface on behalf of the current network -/
inductive CacheOp
  | get (pgno subno mask : Nat)
  | put (pt : Nat) (p : Page)
  | clear

/-- what the call does to the most recently used list (a refused call leaves it as it is) -/
def applyOp (c : List Page) : CacheOp → List Page
  | .get pgno subno mask => match cacheGet c pgno subno mask with | some r => r.2 | none => c
  | .put pt p => match cachePut c pt p with | some c' => c' | none => c
  | .clear => []

/-- `c'` is reached from `c` by cache operations whose stores are all of pages satisfying `P` -/
def Reach (P : Page → Prop) (c c' : List Page) : Prop :=
  ∃ ops : List CacheOp, c' = ops.foldl applyOp c ∧ ∀ pt p, CacheOp.put pt p ∈ ops → P p

theorem Reach.refl (P : Page → Prop) (c : List Page) : Reach P c c :=
  ⟨[], rfl, fun _ _ h => by cases h⟩

theorem Reach.of_eq {P : Page → Prop} {c c' : List Page} (h : c' = c) : Reach P c c' := by
  rw [h]; exact Reach.refl P c

theorem Reach.trans {P : Page → Prop} {a b c : List Page} (h1 : Reach P a b) (h2 : Reach P b c) : Reach P a c := by
  obtain ⟨o1, e1, p1⟩ := h1
  obtain ⟨o2, e2, p2⟩ := h2
  refine ⟨o1 ++ o2, by rw [List.foldl_append, ← e1, e2], ?_⟩
  intro pt p hp
  rcases List.mem_append.mp hp with h | h
  · exact p1 pt p h
  · exact p2 pt p h

theorem Reach.mono {P Q : Page → Prop} {c c' : List Page} (h : Reach P c c') (hpq : ∀ p, P p → Q p) : Reach Q c c' := by
  obtain ⟨o, e, p⟩ := h
  exact ⟨o, e, fun pt q hq => hpq q (p pt q hq)⟩

theorem Reach.clear (P : Page → Prop) (c : List Page) : Reach P c [] :=
  ⟨[.clear], rfl, fun _ _ h => by simp at h⟩

theorem Reach.get (P : Page → Prop) (c : List Page) (pgno subno mask : Nat) :
    Reach P c (applyOp c (.get pgno subno mask)) :=
  ⟨[.get pgno subno mask], rfl, fun _ _ h => by simp at h⟩

theorem Reach.put (c : List Page) (pt : Nat) (p : Page) : Reach (fun q => q = p) c (applyOp c (.put pt p)) :=
  ⟨[.put pt p], rfl, fun _ q h => by simp at h; exact h.2⟩

/-! ## look-ups only: the twin of `CacheSub` -/

/-- the cache of `n'` is the one of `n` after look-ups (`_vbi_cache_get_page`) only -/
def Looks (n n' : Net) : Prop := Reach (fun _ => False) n.cache n'.cache

theorem Looks.refl (n : Net) : Looks n n := Reach.refl _ _
theorem Looks.trans {a b c : Net} (h1 : Looks a b) (h2 : Looks b c) : Looks a c := Reach.trans h1 h2
theorem looks_of_eq {n n' : Net} (h : n'.cache = n.cache) : Looks n n' := Reach.of_eq h
theorem Looks.reach {n n' : Net} (h : Looks n n') (P : Page → Prop) : Reach P n.cache n'.cache :=
  Reach.mono h (fun _ hf => hf.elim)

theorem setStat_looks (n : Net) (pgno : Nat) (f : PageStat → PageStat) : Looks n (n.setStat pgno f).1 :=
  looks_of_eq (setStat_cache n pgno f)

theorem setMag_looks (n : Net) (mag8 : Nat) (m : Magazine) : Looks n (n.setMag mag8 m) := Looks.refl n

/-- `Net.get` is one `.get` -/
theorem get_apply (n : Net) (pgno subno mask : Nat) :
    (n.get pgno subno mask).2.1.cache = applyOp n.cache (.get pgno subno mask) := by
  show _ = (match cacheGet n.cache pgno subno mask with | some r => r.2 | none => n.cache)
  unfold Net.get
  cases cacheGet n.cache pgno subno mask with
  | none => rfl
  | some r => rfl

theorem get_looks (n : Net) (pgno subno mask : Nat) : Looks n (n.get pgno subno mask).2.1 := by
  unfold Looks
  rw [get_apply]
  exact Reach.get _ _ _ _ _

/-- `Net.put` is one `.put`, with the page type of the statistics -/
theorem put_apply (n : Net) (p : Page) :
    (n.put p).cache = applyOp n.cache (.put (n.getStat p.pgno).pageType p) := by
  show _ = (match cachePut n.cache (n.getStat p.pgno).pageType p with | some c' => c' | none => n.cache)
  unfold Net.put
  cases cachePut n.cache (n.getStat p.pgno).pageType p with
  | none => rfl
  | some r => rfl

theorem put_reach (n : Net) (p : Page) : Reach (fun q => q = p) n.cache (n.put p).cache := by
  rw [put_apply]
  exact Reach.put _ _ _

/-- folding a step that only looks up -/
theorem fold_looks {α β : Type} (f : β → α → β) (proj : β → Net) (hstep : ∀ b a, Looks (proj b) (proj (f b a)))
    (l : List α) : ∀ b, Looks (proj b) (proj (l.foldl f b)) := by
  induction l with
  | nil => intro b; exact Looks.refl _
  | cons a l ih => intro b; exact (hstep b a).trans (ih (f b a))

/-! ## the table parsers (twins of Frame1) -/

theorem mptStep_looks (g : Nat → Option Nat) (acc : Net × List Aux) (it : Nat × Nat) :
    Looks acc.1 (mptStep g acc it).1 := by
  unfold mptStep
  simp only []
  repeat' split
  all_goals first | exact Looks.refl _ | exact setStat_looks _ _ _

theorem parseMpt_looks (n : Net) (g : Nat → Option Nat) (packet : Nat) : Looks n (parseMpt n g packet).1 := by
  unfold parseMpt
  exact fold_looks (mptStep g) (·.1) (mptStep_looks g) _ (n, [])

theorem mptExStep_looks (lk : Nat → Option Link) (acc : (Net × Bool) × List Aux) (i : Nat) :
    Looks acc.1.1 (mptExStep lk acc i).1.1 := by
  unfold mptExStep
  simp only []
  repeat' split
  all_goals first | exact Looks.refl _ | exact setStat_looks _ _ _

theorem parseMptEx_looks (n : Net) (lk : Nat → Option Link) (packet : Nat) : Looks n (parseMptEx n lk packet).1 := by
  unfold parseMptEx
  split
  · exact fold_looks (mptExStep lk) (·.1.1) (mptExStep_looks lk) _ ((n, false), [])
  · exact Looks.refl n

theorem bttEntry_looks (v : View) (index rawPos : Nat) (acc : (Net × Nat × Bool) × List Aux) (k : Nat) :
    Looks acc.1.1 (bttEntry v index rawPos acc k).1.1 := by
  unfold bttEntry
  simp only []
  split
  · exact Looks.refl _
  · split
    · exact Looks.refl _
    · split
      · -- BTT_SUBTITLE: setStat, get, setStat?, setStat
        simp only []
        apply Looks.trans ?_ (setStat_looks _ _ _)
        apply Looks.trans (setStat_looks _ _ _)
        apply Looks.trans (get_looks _ _ _ _)
        split
        · exact setStat_looks _ _ _
        · exact Looks.refl _
      · split
        · exact setStat_looks _ _ _
        · exact setStat_looks _ _ _

theorem bttGroup_looks (v : View) (acc : (Net × Nat × Nat) × List Aux) (g : Nat) :
    Looks acc.1.1 (bttGroup v acc g).1.1 := by
  unfold bttGroup
  simp only []
  exact fold_looks (bttEntry v acc.1.2.1 acc.1.2.2) (·.1.1) (bttEntry_looks v _ _) _ ((acc.1.1, 0, false), acc.2)

theorem bttLinkStep_looks (v : View) (packet : Nat) (acc : Net × List Aux) (i : Nat) :
    Looks acc.1 (bttLinkStep v packet acc i).1 := by
  unfold bttLinkStep
  simp only []
  repeat' split
  all_goals first
    | exact Looks.refl _
    | exact Looks.trans (b := { acc.1 with bttLink := _ }) (looks_of_eq rfl) (setStat_looks _ _ _)
    | exact looks_of_eq rfl

theorem parseBtt_looks (n : Net) (v : View) (packet : Nat) : Looks n (parseBtt n v packet).1 := by
  unfold parseBtt
  split
  · exact fold_looks (bttGroup v) (·.1.1) (bttGroup_looks v) _ ((n, _, 0), [])
  · split
    · exact (looks_of_eq (n := n) (n' := { n with haveTop := true }) rfl).trans
        (fold_looks (bttLinkStep v packet) (·.1) (bttLinkStep_looks v packet) _ ({ n with haveTop := true }, []))
    · exact Looks.refl n

theorem mipClassify_looks (n : Net) (vtp : Page) (pgno code spi : Nat) (r : Net × List Aux × Nat × Nat × Nat)
    (h : mipClassify n vtp pgno code spi = some r) : Looks n r.1 := by
  unfold mipClassify at h
  split at h
  · cases h; exact Looks.refl _
  · split at h
    · cases h; exact (get_looks _ _ _ _).trans (setStat_looks _ _ _)
    · split at h
      · split at h
        · cases h
        · simp only [] at h
          generalize (rowView Kind.rowH8 _).g16 _ = A at h
          generalize (rowView Kind.rowH8 _).g8 _ = B at h
          cases A <;> cases B <;> simp only [] at h
          · cases h
          · cases h
          · cases h
          · repeat' (split at h)
            all_goals first | (cases h; done) | (cases h; exact Looks.refl _)
      · cases h; exact Looks.refl _

theorem parseMipPage_looks (n : Net) (vtp : Page) (pgno : Nat) (code : Option Nat) (spi : Nat) :
    Looks n (parseMipPage n vtp pgno code spi).1 := by
  unfold parseMipPage
  split
  · exact Looks.refl n
  · split
    · exact Looks.refl n
    · split
      · exact Looks.refl n
      · rename_i r hr
        exact (mipClassify_looks n vtp pgno _ spi r hr).trans (setStat_looks _ _ _)

theorem mipStep_looks (vtp : Page) (base : Nat) (acc : (Net × Nat × Bool) × List Aux) (it : Nat × Nat × Nat) :
    Looks acc.1.1 (mipStep vtp base acc it).1.1 := by
  unfold mipStep
  split
  · exact Looks.refl _
  · split
    · exact Looks.refl _
    · exact parseMipPage_looks _ _ _ _ _

theorem parseMip_looks (n : Net) (vtp : Page) : Looks n (parseMip n vtp).1 := by
  unfold parseMip
  generalize mipOffsets = l
  exact fold_looks (mipStep vtp (vtp.pgno &&& 0xF00)) (·.1.1) (mipStep_looks vtp _) l ((n, 0, false), [])

theorem convMptStep_looks (vtp : Page) (acc : Net × List Aux) (k : Nat) : Looks acc.1 (convMptStep vtp acc k).1 := by
  unfold convMptStep
  split
  · exact Looks.refl _
  · exact parseMpt_looks _ _ _

theorem convMptExStep_looks (vtp : Page) (acc : Net × List Aux) (k : Nat) : Looks acc.1 (convMptExStep vtp acc k).1 := by
  unfold convMptExStep
  split
  · exact Looks.refl _
  · exact parseMptEx_looks _ _ _

theorem convertPage_looks (n : Net) (vtp : Page) (fn : Int) : Looks n (convertPage n vtp fn).2.1 := by
  unfold convertPage
  simp only []
  repeat' split
  all_goals first
    | exact Looks.refl _
    | exact fold_looks (convMptStep vtp) (·.1) (convMptStep_looks vtp) _ (n, [])
    | exact fold_looks (convMptExStep vtp) (·.1) (convMptExStep_looks vtp) _ (n, [])

/-! ## the header branch helpers (twins of Frame4) -/

theorem headerConvert_looks (n : Net) (cv : Page) (page : Nat) : Looks n (headerConvert n cv page).2.1 := by
  unfold headerConvert
  split
  · simp only []
    split
    · have hs := convertPage_looks n cv (functionOfType n (n.getStat cv.pgno).pageType cv.pgno page)
      split
      · exact hs
      · exact hs
    · exact Looks.refl n
  · exact Looks.refl n

theorem headerFresh_looks (n : Net) (cv0 : Page) (page : Nat) (row0 : List Nat) :
    Looks n (headerFresh n cv0 page row0).2.1 := by
  unfold headerFresh
  simp only []
  repeat' split
  all_goals first | exact Looks.refl _ | exact setStat_looks _ _ _

theorem headerLookup_looks (n : Net) (cv : Page) : Looks n (headerLookup n cv).2.1 := by
  unfold headerLookup
  split
  · exact get_looks _ _ _ _
  · exact Looks.refl n

/-- "Prepare for new page": one look-up of the new page at most, then statistics and table conversion -/
theorem headerPage_looks (n : Net) (cv0 : Page) (page subpage fl : Nat) (row0 : List Nat) :
    Looks n (headerPage n cv0 page subpage fl row0).2.1 := by
  unfold headerPage
  simp only []
  generalize ({ cv0 with subno := subpage &&& 0x3F7F, national := rev8 fl &&& 7, flags := (fl <<< 16) + subpage } : Page) = cv
  have hls := headerLookup_looks n cv
  cases hlk : (headerLookup n cv).1 with
  | some q =>
    simp only []
    exact hls.trans (headerConvert_looks _ _ _)
  | none =>
    simp only []
    exact (hls.trans (headerFresh_looks _ _ _ _)).trans (headerConvert_looks _ _ _)

/-! ## every packet but a page header (twins of Frame2) -/

theorem processRow_looks (s : St) (mag0 mag8 packet : Nat) (v : View) :
    Looks s.net (processRow s mag0 mag8 packet v).st.net := by
  unfold processRow
  simp only []
  by_cases h1 : ((s.rp mag0).page.function == FN_DISCARD) = true
  · rw [if_pos h1]; exact Looks.refl _
  rw [if_neg h1]
  by_cases h2 : ((s.rp mag0).page.function == FN_MOT) = true
  · rw [if_pos h2]; exact Looks.refl _
  rw [if_neg h2]
  by_cases h3 : ((s.rp mag0).page.function == FN_GPOP || (s.rp mag0).page.function == FN_POP) = true
  · rw [if_pos h3]
    split
    · exact Looks.refl _
    · exact Looks.refl _
  rw [if_neg h3]
  by_cases h4 : ((s.rp mag0).page.function == FN_GDRCS || (s.rp mag0).page.function == FN_DRCS) = true
  · rw [if_pos h4]; exact Looks.refl _
  rw [if_neg h4]
  by_cases h5 : ((s.rp mag0).page.function == FN_BTT) = true
  · rw [if_pos h5]; exact parseBtt_looks _ _ _
  rw [if_neg h5]
  by_cases h6 : ((s.rp mag0).page.function == FN_AIT) = true
  · rw [if_pos h6]; exact Looks.refl _
  rw [if_neg h6]
  by_cases h7 : ((s.rp mag0).page.function == FN_MPT) = true
  · rw [if_pos h7]; exact parseMpt_looks _ _ _
  rw [if_neg h7]
  by_cases h8 : ((s.rp mag0).page.function == FN_MPT_EX) = true
  · rw [if_pos h8]; exact parseMptEx_looks _ _ _
  rw [if_neg h8]
  by_cases h9 : ((s.rp mag0).page.function == FN_EPG) = true
  · rw [if_pos h9]; exact Looks.refl _
  rw [if_neg h9]
  by_cases h10 : ((s.rp mag0).page.function == FN_LOP) = true
  · rw [if_pos h10]; exact Looks.refl _
  rw [if_neg h10]
  by_cases h11 : ((s.rp mag0).page.function == FN_EACEM) = true
  · rw [if_pos h11]
    split
    · exact Looks.refl _
    · exact Looks.refl _
  rw [if_neg h11]
  exact Looks.refl _

theorem process26_looks (s : St) (mag0 : Nat) (v : View) : Looks s.net (process26 s mag0 v).st.net := by
  unfold process26
  simp only []
  split
  · exact Looks.refl _
  · split
    · exact Looks.refl _
    · split
      · exact Looks.refl _
      · split
        · exact Looks.refl _
        · split
          · exact Looks.refl _
          · exact Looks.refl _

theorem storeExt_looks (s : St) (mag0 mag8 packet : Nat) (cv : Page) (ext : Ext) :
    Looks s.net (storeExt s mag0 mag8 packet cv ext).net := by
  unfold storeExt
  split
  · exact Looks.refl _
  · exact Looks.refl _

theorem parse2829_looks (s : St) (mag0 mag8 packet : Nat) (v : View) :
    Looks s.net (parse2829 s mag0 mag8 packet v).1.net := by
  unfold parse2829
  simp only []
  split
  · exact Looks.refl _
  · exact storeExt_looks _ _ _ _ _ _
  · exact storeExt_looks _ _ _ _ _ _
  · exact Looks.refl _
  · exact Looks.refl _
  · exact Looks.refl _

theorem parse830_looks (s : St) (v : View) : Looks s.net (parse830 s v).1.net := by
  unfold parse830
  repeat' split
  all_goals first | exact Looks.refl _ | exact looks_of_eq rfl

/-! ## `store_lop`, `terminatePage` -/

theorem stPut_reach (s : St) (p : Page) :
    Reach (fun q => Event.put q ∈ (s.put p).2) s.net.cache (s.put p).1.net.cache :=
  (put_reach s.net p).mono (fun q hq => by rw [hq]; exact List.mem_singleton.mpr rfl)

/-- `store_lop`: `.clear` (channel switch), nothing, or one `.put` of the page - announced by `Event.put` -/
theorem storeLop_reach (s : St) (vtp : Page) :
    Reach (fun q => Event.put q ∈ (storeLop s vtp).2) s.net.cache (storeLop s vtp).1.net.cache := by
  unfold storeLop
  split
  · exact Reach.clear _ _
  · exact Reach.refl _ _
  · rename_i copy clearCd roll hdrUpd clock pn _
    simp only []
    refine Reach.trans (Reach.of_eq ?_) ((put_reach _ vtp).mono ?_)
    · rw [setStat_cache]
      cases copy <;> cases clearCd <;> rfl
    · intro q hq
      rw [hq]
      simp

/-- "Store page terminated by new header": look-ups of the MIP parser, `.clear`, or one `.put` - of the page of
    the terminated slot (after the parity check of a text page), announced by `Event.put` -/
theorem terminatePage_reach (s : St) (mag0 pgno page : Nat) :
    Reach (fun q => Event.put q ∈ (terminatePage s mag0 pgno page).2) s.net.cache
      (terminatePage s mag0 pgno page).1.net.cache := by
  unfold terminatePage
  split
  · exact Reach.refl _ _
  · rename_i curr hcurr
    simp only []
    by_cases h1 : ((s.rp curr).page.function == FN_DISCARD || (s.rp curr).page.function == FN_EPG) = true
    · rw [if_pos h1]; exact Reach.refl _ _
    rw [if_neg h1]
    by_cases h2 : ((s.rp curr).page.function == FN_LOP) = true
    · rw [if_pos h2]
      exact storeLop_reach (s.setRp curr { (lopParityCheck (s.rp curr).page (s.rp curr)).2 with
          page := (lopParityCheck (s.rp curr).page (s.rp curr)).1 }) (lopParityCheck (s.rp curr).page (s.rp curr)).1
    rw [if_neg h2]
    by_cases h3 : ((s.rp curr).page.function == FN_DRCS || (s.rp curr).page.function == FN_GDRCS) = true
    · rw [if_pos h3]
      exact (stPut_reach s (s.rp curr).page).mono (fun q hq => List.mem_append_right _ hq)
    rw [if_neg h3]
    by_cases h4 : ((s.rp curr).page.function == FN_MIP) = true
    · rw [if_pos h4]
      have hsub := parseMip_looks s.net (s.rp curr).page
      generalize parseMip s.net (s.rp curr).page = r at hsub ⊢
      exact hsub.reach _
    rw [if_neg h4]
    by_cases h5 : ((s.rp curr).page.function == FN_EACEM) = true
    · rw [if_pos h5]; exact Reach.refl _ _
    rw [if_neg h5]
    exact stPut_reach s (s.rp curr).page

/-! ## `vbi_decode_teletext`, `vbi_decode` -/

theorem processHeader_reach (s : St) (mag0 mag8 : Nat) (v : View) :
    Reach (fun q => Event.put q ∈ (processHeader s mag0 mag8 v).1.ev) s.net.cache
      (processHeader s mag0 mag8 v).1.st.net.cache := by
  unfold processHeader
  cases hpg : v.g16 0 with
  | none =>
    simp only []
    exact Reach.refl _ _
  | some page =>
    simp only []
    have hT := terminatePage_reach s mag0 (mag8 * 256 + page) page
    generalize terminatePage s mag0 (mag8 * 256 + page) page = t at hT
    split
    · exact hT
    · refine Reach.trans (hT.mono (fun q hq => List.mem_append_left _ hq)) ?_
      exact (headerPage_looks
        ({ t.1.setPage mag0 { (t.1.rp mag0).page with pgno := mag8 * 256 + page } with current := some mag0 } : St).net
        { (t.1.rp mag0).page with pgno := mag8 * 256 + page } page
        (v.g16i 2 + v.g16i 4 * 256).toNat (v.g16i 6).toNat
        (zeroRow.take 8 ++ v.raw.drop 8)).reach _

theorem process_reach (s : St) (pmag : Nat) (v : View) :
    Reach (fun q => Event.put q ∈ (process s pmag v).1.ev) s.net.cache (process s pmag v).1.st.net.cache := by
  unfold process
  simp only []
  by_cases c1 : (decide (pmag >>> 3 < 30) && !s.mask) = true
  · rw [if_pos c1]; exact Reach.refl _ _
  rw [if_neg c1]
  by_cases c2 : (pmag >>> 3 == 0) = true
  · rw [if_pos c2]; exact processHeader_reach s _ _ v
  rw [if_neg c2]
  by_cases c3 : pmag >>> 3 ≤ 25
  · rw [if_pos c3]; exact (processRow_looks s _ _ _ v).reach _
  rw [if_neg c3]
  by_cases c4 : (pmag >>> 3 == 26) = true
  · rw [if_pos c4]; exact (process26_looks s _ v).reach _
  rw [if_neg c4]
  by_cases c5 : (pmag >>> 3 == 27) = true
  · rw [if_pos c5]; exact Reach.refl _ _
  rw [if_neg c5]
  by_cases c6 : (pmag >>> 3 == 28 && (s.rp (pmag &&& 7)).page.function == FN_DISCARD) = true
  · rw [if_pos c6]; exact Reach.refl _ _
  rw [if_neg c6]
  by_cases c7 : pmag >>> 3 ≤ 29
  · rw [if_pos c7]; exact (parse2829_looks s (pmag &&& 7) _ (pmag >>> 3) v).reach _
  rw [if_neg c7]
  by_cases c8 : (pmag &&& 15 == 0) = true
  · rw [if_pos c8]; exact (parse830_looks s v).reach _
  rw [if_neg c8]
  exact Reach.refl _ _

theorem decode_reach (s : St) (p : Packet) :
    Reach (fun q => Event.put q ∈ (decodeTeletext s p).ev) s.net.cache (decodeTeletext s p).st.net.cache := by
  unfold decodeTeletext
  cases ha : a16 p 0 with
  | none => exact Reach.refl _ _
  | some pmag =>
    simp only []
    have h := process_reach s pmag (view (kindOf s pmag (a8 p 2)) p)
    unfold finish
    split
    · exact h
    · exact h

/-- the frame tick: `.clear` when the channel switch countdown expires -/
theorem frameTick_reach (s : St) : Reach (fun _ => False) s.net.cache (frameTick s).1.net.cache := by
  unfold frameTick
  simp only []
  split
  · split
    · exact Reach.clear _ _
    · exact Reach.refl _ _
  · exact Reach.refl _ _

theorem step_reach (s : St) (p : Packet) :
    Reach (fun q => Event.put q ∈ (step s p).2) s.net.cache (step s p).1.net.cache := by
  unfold step
  simp only []
  exact Reach.trans ((frameTick_reach s).mono (fun _ hf => hf.elim))
    ((decode_reach (frameTick s).1 p).mono (fun q hq => List.mem_append_right _ hq))

/-- over every history: the page list is the initial one with cache operations applied, every store being one
    announced by `Event.put` in the events of the history -/
theorem run_reach (s : St) (ps : List Packet) :
    Reach (fun p => Event.put p ∈ (run s ps).2) s.net.cache (run s ps).1.net.cache := by
  unfold run
  have gen : ∀ (ps : List Packet) (s : St) (ev : List Event),
      Reach (fun q => Event.put q ∈
          (ps.foldl (fun (acc : St × List Event) p => ((step acc.1 p).1, acc.2 ++ (step acc.1 p).2)) (s, ev)).2)
        s.net.cache
        (ps.foldl (fun (acc : St × List Event) p => ((step acc.1 p).1, acc.2 ++ (step acc.1 p).2)) (s, ev)).1.net.cache ∧
      ∀ e ∈ ev, e ∈ (ps.foldl (fun (acc : St × List Event) p => ((step acc.1 p).1, acc.2 ++ (step acc.1 p).2)) (s, ev)).2 := by
    intro ps
    induction ps with
    | nil => intro s ev; exact ⟨Reach.refl _ _, fun e he => he⟩
    | cons p ps ih =>
      intro s ev
      simp only [List.foldl_cons]
      obtain ⟨h1, h2⟩ := ih (step s p).1 (ev ++ (step s p).2)
      refine ⟨Reach.trans ((step_reach s p).mono ?_) h1, fun e he => h2 e (List.mem_append_left _ he)⟩
      intro q hq
      exact h2 _ (List.mem_append_right _ hq)
  exact (gen ps s []).1

end Zvbi.Ttx
