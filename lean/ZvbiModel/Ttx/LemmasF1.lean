import ZvbiModel.Ttx.Lemmas8
/-!
# Fault freedom (C01 obligations of the Teletext decoder), part 1: per-site index lemmas
`Aux.fault site` marks an index outside its array or a failing `assert`; this file shows for each
site that the index stays inside the extent regenerated from the C headers.
-/
namespace Zvbi.Ttx
open Zvbi.Hamm Zvbi.Gen Zvbi.Ttx.Spec

/-- no fault mark in a list of auxiliary events -/
def NoFault (l : List Aux) : Prop := ∀ site, Aux.fault site ∉ l
/-- no fault mark in an event list -/
def NoFaultE (l : List Event) : Prop := ∀ site, Event.aux (Aux.fault site) ∉ l

theorem NoFault.nil : NoFault [] := fun _ h => by cases h
theorem NoFaultE.nil : NoFaultE [] := fun _ h => by cases h

theorem NoFault.append {a b : List Aux} (ha : NoFault a) (hb : NoFault b) : NoFault (a ++ b) := by
  intro site h
  rw [List.mem_append] at h
  rcases h with h | h
  · exact ha site h
  · exact hb site h

theorem NoFaultE.append {a b : List Event} (ha : NoFaultE a) (hb : NoFaultE b) : NoFaultE (a ++ b) := by
  intro site h
  rw [List.mem_append] at h
  rcases h with h | h
  · exact ha site h
  · exact hb site h

theorem NoFault.of_eq_nil {l : List Aux} (h : l = []) : NoFault l := by rw [h]; exact NoFault.nil

theorem NoFault.touch (a b c : Nat) : NoFault [Aux.touch a b c] := by
  intro site h; simp at h

theorem NoFaultE.lift {l : List Aux} (h : NoFault l) : NoFaultE (liftAux l) := by
  intro site hm
  unfold liftAux at hm
  rw [List.mem_map] at hm
  obtain ⟨a, ha, he⟩ := hm
  injection he with he
  subst he
  exact h site ha

/-- generic: a fold whose accumulator is (state, events) stays fault free if every step does,
    given an invariant `I` of the state and a property `P` of the elements -/
theorem fold_nofault {α β : Type} (f : α × List Aux → β → α × List Aux) (P : β → Prop) (I : α → Prop)
    (hstep : ∀ a ev b, I a → P b → NoFault ev → I (f (a, ev) b).1 ∧ NoFault (f (a, ev) b).2) :
    ∀ (l : List β) (a : α) (ev : List Aux), (∀ b, b ∈ l → P b) → I a → NoFault ev →
      I (l.foldl f (a, ev)).1 ∧ NoFault (l.foldl f (a, ev)).2 := by
  intro l
  induction l with
  | nil => intro a ev _ ha hev; exact ⟨ha, hev⟩
  | cons b l ih =>
    intro a ev hP ha hev
    simp only [List.foldl_cons]
    have h := hstep a ev b ha (hP b (List.mem_cons_self ..)) hev
    have := ih (f (a, ev) b).1 (f (a, ev) b).2 (fun x hx => hP x (List.mem_cons_of_mem _ hx)) h.1 h.2
    simpa using this

/-! ## `cache_network_page_stat` -/
def PgnoOk (pgno : Nat) : Prop := 0x100 ≤ pgno ∧ pgno ≤ 0x8FF

theorem statIdx_some {pgno : Nat} (h : PgnoOk pgno) : statIdx pgno = some (pgno - 0x100) := by
  unfold statIdx
  have : (decide (pgno ≥ 0x100) && decide (pgno ≤ 0x8FF)) = true := by simp; exact h
  rw [if_pos this]

theorem setStat_nofault (n : Net) (pgno : Nat) (f : PageStat → PageStat) (h : PgnoOk pgno) :
    (n.setStat pgno f).2 = [] := by
  unfold Net.setStat; rw [statIdx_some h]

theorem statAssert_nofault (pgno : Nat) (h : PgnoOk pgno) : statAssert pgno = [] := by
  unfold statAssert; rw [statIdx_some h]; rfl

theorem get_nofault (n : Net) (a b c : Nat) : NoFault (n.get a b c).2.2 := by
  unfold Net.get
  split <;> exact NoFault.touch _ _ _

/-- **page_stat_pgno_in_range** (decoder side): the page number of an accepted header, and of
    every slot, is `mag8 * 256 + page` with `1 ≤ mag8 ≤ 8`, `page ≤ 255` -/
theorem page_stat_pgno_in_range (mag0 page : Nat) (hm : mag0 < 8) (hp : page < 256) :
    PgnoOk ((if mag0 == 0 then 8 else mag0) * 256 + page) := by
  unfold PgnoOk
  by_cases h : mag0 = 0
  · subst h; simp; omega
  · have : (mag0 == 0) = false := by simpa using h
    rw [this]; simp only [Bool.false_eq_true, if_false]; omega

end Zvbi.Ttx
