import ZvbiModel.Ttx.Lemmas6
/-!
# Lemmas for C03, part 7: every stored page carries the numbers of a received, accepted header
(invariant over all packet histories)
-/
namespace Zvbi.Ttx
open Zvbi.Hamm Zvbi.Gen Zvbi.Ttx.Spec

theorem headerFresh_keys (n : Net) (cv0 : Page) (page : Nat) (row0 : List Nat) :
    (headerFresh n cv0 page row0).1.pgno = cv0.pgno ∧ (headerFresh n cv0 page row0).1.subno = cv0.subno := by
  unfold headerFresh
  simp only []
  repeat' split
  all_goals exact ⟨rfl, rfl⟩

theorem headerConvert_keys (n : Net) (cv : Page) (page : Nat) :
    (headerConvert n cv page).1.pgno = cv.pgno ∧ (headerConvert n cv page).1.subno = cv.subno := by
  unfold headerConvert
  split
  · simp only []
    split
    · split
      · rename_i cv' hc
        have := convertPage_keys n cv cv' _ (convertPage n cv _).2.1 (convertPage n cv _).2.2
          (by rw [← hc])
        exact this
      · exact ⟨rfl, rfl⟩
    · exact ⟨rfl, rfl⟩
  · exact ⟨rfl, rfl⟩

theorem headerPage_keys (n : Net) (cv0 : Page) (page subpage fl : Nat) (row0 : List Nat) :
    (headerPage n cv0 page subpage fl row0).1.pgno = cv0.pgno ∧
    (headerPage n cv0 page subpage fl row0).1.subno = subpage &&& 0x3F7F := by
  unfold headerPage
  simp only []
  split
  · have h := headerConvert_keys
    simp only [h]
    exact ⟨rfl, rfl⟩
  · have h := headerConvert_keys
    have h2 := headerFresh_keys
    simp only [h, h2]
    exact ⟨trivial, trivial⟩

/-- (pgno, subno) is what the decoder computed from some accepted header of the history -/
def Sent (H : List Packet) (pgno subno : Nat) : Prop :=
  ∃ p, p ∈ H ∧ ∃ m, hdrKey p = some (m, pgno, subno)

theorem Sent.mono {H : List Packet} {a b : Nat} (h : Sent H a b) (p : Packet) : Sent (H ++ [p]) a b := by
  obtain ⟨x, hx, m, hm⟩ := h
  exact ⟨x, List.mem_append_left _ hx, m, hm⟩

/-- invariant: every assembly slot that is not discarded holds the numbers of an accepted header -/
structure AsmOk (s : St) (H : List Packet) : Prop where
  len : s.raw.length = 8
  cur : ∀ c, s.current = some c → c < 8
  slot : ∀ m, m < 8 → slotFn s m ≠ FN_DISCARD → Sent H (slotPg s m) (slotSub s m)

theorem AsmOk.frame {s s' : St} {H : List Packet} (h : AsmOk s H) (f : Frame s s') : AsmOk s' H := by
  refine ⟨f.len.trans h.len, fun c hc => h.cur c (by rw [← f.cur]; exact hc), ?_⟩
  intro m hm hf
  obtain ⟨f1, p1, s1⟩ := f.slot m (by rw [h.len]; exact hm) hf
  rw [p1, s1]
  exact h.slot m hm f1

theorem AsmOk.mono {s : St} {H : List Packet} (h : AsmOk s H) (p : Packet) : AsmOk s (H ++ [p]) :=
  ⟨h.len, h.cur, fun m hm hf => (h.slot m hm hf).mono p⟩

theorem terminatedSlot_lt (s : St) (mag0 pgno page curr : Nat) (hm : mag0 < 8)
    (hc : ∀ c, s.current = some c → c < 8) (h : terminatedSlot s mag0 pgno page = some curr) : curr < 8 := by
  unfold terminatedSlot at h
  split at h
  · cases h
  · rename_i cmag hcm
    simp only [] at h
    repeat' (split at h)
    all_goals (first | (cases h; done) | (injection h with h; subst h; first | exact hc _ hcm | exact hm))

theorem and7_lt (pmag : Nat) : pmag &&& 7 < 8 := Nat.lt_succ_of_le Nat.and_le_right

/-- the header branch keeps the invariant and stores only pages whose numbers were received -/
theorem processHeader_ok (s : St) (H : List Packet) (p : Packet) (pmag : Nat) (hok : AsmOk s H)
    (ha : a16 p 0 = some pmag) (h0 : pmag >>> 3 = 0) :
    AsmOk (processHeader s (pmag &&& 7) (if (pmag &&& 7) == 0 then 8 else pmag &&& 7) (view Kind.hdr p)).1.st (H ++ [p]) ∧
    ∀ q, Event.put q ∈ (processHeader s (pmag &&& 7) (if (pmag &&& 7) == 0 then 8 else pmag &&& 7) (view Kind.hdr p)).1.ev →
      Sent H q.pgno q.subno := by
  have hm8 := and7_lt pmag
  generalize hmag0 : pmag &&& 7 = mag0 at *
  generalize hmag8 : (if mag0 == 0 then 8 else mag0) = mag8
  unfold processHeader
  cases hpg : (view Kind.hdr p).g16 0 with
  | none =>
    simp only []
    exact ⟨(hok.frame (frame_desync s)).mono p, fun q h => by cases h⟩
  | some page =>
    simp only []
    have hT := terminatePage_frame s mag0 (mag8 * 256 + page) page
    generalize terminatePage s mag0 (mag8 * 256 + page) page = t at hT
    have hok1 : AsmOk t.1 H := hok.frame hT.1
    have hputs : ∀ q, Event.put q ∈ t.2 → Sent H q.pgno q.subno := by
      intro q hq
      obtain ⟨curr, hc, hnd, hf, hp, hs⟩ := hT.2 q hq
      have hlt := terminatedSlot_lt s mag0 _ page curr hm8 hok.cur hc
      rw [hp, hs]
      exact hok.slot curr hlt (by rw [← hf]; exact hnd)
    have hlen : mag0 < t.1.raw.length := by rw [hok1.len]; exact hm8
    split
    · -- refused: the slot gets the page number and is discarded
      refine ⟨⟨?_, ?_, ?_⟩, hputs⟩
      · rw [setPage_length]; show (t.1.setPage mag0 _).raw.length = 8; rw [setPage_length]; exact hok1.len
      · intro c hc
        have : c = mag0 := by
          have : (some mag0 : Option Nat) = some c := hc
          exact (Option.some.inj this).symm
        rw [this]; exact hm8
      · intro m hm hf
        by_cases e : m = mag0
        · subst e
          simp only [slotFn] at hf
          rw [rp_setPage_same _ m _ (by show m < (t.1.setPage m _).raw.length; rw [setPage_length]; exact hlen)] at hf
          exact absurd rfl hf
        · simp only [slotFn, slotPg, slotSub] at hf ⊢
          rw [rp_setPage_other _ mag0 m _ e] at hf ⊢
          have e1 : ∀ pg, ({ t.1.setPage mag0 pg with current := some mag0 } : St).rp m = t.1.rp m :=
            fun pg => rp_setPage_other t.1 mag0 m pg e
          rw [e1] at hf ⊢
          exact (hok1.slot m hm hf).mono p
    · -- accepted
      rename_i hacc
      have hkeys := headerPage_keys
        ({ t.1.setPage mag0 { (t.1.rp mag0).page with pgno := mag8 * 256 + page } with current := some mag0 } : St).net
        { (t.1.rp mag0).page with pgno := mag8 * 256 + page } page
        ((view Kind.hdr p).g16i 2 + (view Kind.hdr p).g16i 4 * 256).toNat ((view Kind.hdr p).g16i 6).toNat
        (zeroRow.take 8 ++ (view Kind.hdr p).raw.drop 8)
      have hsent : Sent (H ++ [p]) (mag8 * 256 + page)
          (((view Kind.hdr p).g16i 2 + (view Kind.hdr p).g16i 4 * 256).toNat &&& 0x3F7F) := by
        refine ⟨p, List.mem_append_right _ (List.mem_singleton.mpr rfl), mag0, ?_⟩
        unfold hdrKey
        rw [ha]
        simp only [h0, hpg]
        simp only [hmag0, hmag8]
        simp [hacc]
      refine ⟨⟨?_, ?_, ?_⟩, ?_⟩
      · rw [setRp_length]; show (t.1.setPage mag0 _).raw.length = 8; rw [setPage_length]; exact hok1.len
      · intro c hc
        have : c = mag0 := by
          have : (some mag0 : Option Nat) = some c := hc
          exact (Option.some.inj this).symm
        rw [this]; exact hm8
      · intro m hm hf
        by_cases e : m = mag0
        · subst e
          simp only [slotFn, slotPg, slotSub] at hf ⊢
          rw [rp_setRp_same _ m _ (by show m < (t.1.setPage m _).raw.length; rw [setPage_length]; exact hlen)]
          simp only []
          rw [hkeys.1, hkeys.2]
          exact hsent
        · simp only [slotFn, slotPg, slotSub] at hf ⊢
          rw [rp_setRp_other _ mag0 m _ e] at hf ⊢
          have e1 : ∀ (pg : Page) (n : Net),
              ({ ({ t.1.setPage mag0 pg with current := some mag0 } : St) with net := n } : St).rp m = t.1.rp m :=
            fun pg _ => rp_setPage_other t.1 mag0 m pg e
          rw [e1] at hf ⊢
          exact (hok1.slot m hm hf).mono p
      · intro q hq
        rw [List.mem_append] at hq
        rcases hq with hq | hq
        · exact hputs q hq
        · exact absurd hq (put_not_mem_liftAux _ q)

theorem process_ok (s : St) (H : List Packet) (p : Packet) (pmag : Nat) (d : Option Nat) (hok : AsmOk s H)
    (ha : a16 p 0 = some pmag) :
    AsmOk (process s pmag (view (kindOf s pmag d) p)).1.st (H ++ [p]) ∧
    ∀ q, Event.put q ∈ (process s pmag (view (kindOf s pmag d) p)).1.ev → Sent H q.pgno q.subno := by
  have hnil : ∀ q, Event.put q ∈ ([] : List Event) → Sent H q.pgno q.subno := fun q h => by cases h
  have hfr : ∀ (x : St), Frame s x → AsmOk x (H ++ [p]) := fun x hx => (hok.frame hx).mono p
  unfold process
  simp only []
  by_cases c1 : (decide (pmag >>> 3 < 30) && !s.mask) = true
  · rw [if_pos c1]; exact ⟨hfr s (Frame.refl s), hnil⟩
  rw [if_neg c1]
  by_cases c2 : (pmag >>> 3 == 0) = true
  · rw [if_pos c2]
    have h0 : pmag >>> 3 = 0 := by simpa using c2
    have hm : s.mask = true := by
      rw [h0] at c1; simpa using c1
    rw [kindOf_hdr s pmag d h0 hm]
    exact processHeader_ok s H p pmag hok ha h0
  rw [if_neg c2]
  by_cases c3 : pmag >>> 3 ≤ 25
  · rw [if_pos c3]
    have := processRow_frame s (pmag &&& 7) (if (pmag &&& 7) == 0 then 8 else pmag &&& 7) (pmag >>> 3)
      (view (kindOf s pmag d) p)
    exact ⟨hfr _ this.1, fun q hq => absurd hq (this.2 q)⟩
  rw [if_neg c3]
  by_cases c4 : (pmag >>> 3 == 26) = true
  · rw [if_pos c4]
    have := process26_frame s (pmag &&& 7) (view (kindOf s pmag d) p)
    exact ⟨hfr _ this.1, fun q hq => absurd hq (this.2 q)⟩
  rw [if_neg c4]
  by_cases c5 : (pmag >>> 3 == 27) = true
  · rw [if_pos c5]
    have hk := parse27_keys (s.rp (pmag &&& 7)).page (view (kindOf s pmag d) p) (pmag &&& 7)
    exact ⟨hfr _ (frame_setPage_upd s (pmag &&& 7) _ hk), hnil⟩
  rw [if_neg c5]
  by_cases c6 : (pmag >>> 3 == 28 && (s.rp (pmag &&& 7)).page.function == FN_DISCARD) = true
  · rw [if_pos c6]; exact ⟨hfr s (Frame.refl s), hnil⟩
  rw [if_neg c6]
  by_cases c7 : pmag >>> 3 ≤ 29
  · rw [if_pos c7]
    have := parse2829_frame s (pmag &&& 7) (if (pmag &&& 7) == 0 then 8 else pmag &&& 7) (pmag >>> 3)
      (view (kindOf s pmag d) p)
    refine ⟨hfr _ this, ?_⟩
    intro q hq
    exfalso
    dsimp only at hq
    generalize (parse2829 s (pmag &&& 7) (if (pmag &&& 7) == 0 then 8 else pmag &&& 7) (pmag >>> 3)
      (view (kindOf s pmag d) p)).2.1 = l at hq
    exact put_not_mem_liftAux l q hq
  rw [if_neg c7]
  by_cases c8 : (pmag &&& 15 == 0) = true
  · rw [if_pos c8]
    exact ⟨hfr _ (parse830_frame s _), hnil⟩
  rw [if_neg c8]
  exact ⟨hfr s (Frame.refl s), hnil⟩


theorem decode_ok (s : St) (H : List Packet) (p : Packet) (hok : AsmOk s H) :
    AsmOk (decodeTeletext s p).st (H ++ [p]) ∧
    ∀ q, Event.put q ∈ (decodeTeletext s p).ev → Sent H q.pgno q.subno := by
  unfold decodeTeletext
  cases ha : a16 p 0 with
  | none => exact ⟨hok.mono p, fun q h => by cases h⟩
  | some pmag =>
    simp only []
    have h := process_ok s H p pmag (a8 p 2) hok ha
    unfold finish
    split
    · exact ⟨h.1.frame (patchHdr8_frame _ _ _), h.2⟩
    · exact h

theorem frameTick_ok (s : St) (H : List Packet) (hok : AsmOk s H) :
    AsmOk (frameTick s).1 H ∧ ∀ q, Event.put q ∉ (frameTick s).2 := by
  unfold frameTick
  simp only []
  have hst : Frame s { s with started := true } := frame_raw_eq _ _ rfl rfl
  split
  · split
    · exact ⟨hok.frame (hst.trans (frame_chswReset _)), fun q h => by simp at h⟩
    · exact ⟨hok.frame (hst.trans (frame_raw_eq _ _ rfl rfl)), fun q h => by cases h⟩
  · exact ⟨hok.frame hst, fun q h => by cases h⟩

theorem step_ok (s : St) (H : List Packet) (p : Packet) (hok : AsmOk s H) :
    AsmOk (step s p).1 (H ++ [p]) ∧ ∀ q, Event.put q ∈ (step s p).2 → Sent H q.pgno q.subno := by
  unfold step
  simp only []
  have h1 := frameTick_ok s H hok
  have h2 := decode_ok (frameTick s).1 H p h1.1
  refine ⟨h2.1, ?_⟩
  intro q hq
  rw [List.mem_append] at hq
  rcases hq with hq | hq
  · exact absurd hq (h1.2 q)
  · exact h2.2 q hq

/-- over every history: the invariant holds and every `put` carries received header numbers -/
theorem run_ok (s : St) (H ps : List Packet) (hok : AsmOk s H) :
    AsmOk (run s ps).1 (H ++ ps) ∧
    ∀ q, Event.put q ∈ (run s ps).2 → Sent (H ++ ps) q.pgno q.subno := by
  unfold run
  have gen : ∀ (ps : List Packet) (s : St) (H : List Packet) (ev : List Event), AsmOk s H →
      (∀ q, Event.put q ∈ ev → Sent H q.pgno q.subno) →
      AsmOk (ps.foldl (fun (acc : St × List Event) p => ((step acc.1 p).1, acc.2 ++ (step acc.1 p).2)) (s, ev)).1 (H ++ ps) ∧
      ∀ q, Event.put q ∈ (ps.foldl (fun (acc : St × List Event) p => ((step acc.1 p).1, acc.2 ++ (step acc.1 p).2)) (s, ev)).2 →
        Sent (H ++ ps) q.pgno q.subno := by
    intro ps
    induction ps with
    | nil => intro s H ev hok hev; simpa using ⟨hok, hev⟩
    | cons p ps ih =>
      intro s H ev hok hev
      simp only [List.foldl_cons]
      have hs := step_ok s H p hok
      have := ih (step s p).1 (H ++ [p]) (ev ++ (step s p).2) hs.1 (by
        intro q hq
        rw [List.mem_append] at hq
        rcases hq with hq | hq
        · exact (hev q hq).mono p
        · exact (hs.2 q hq).mono p)
      simpa [List.append_assoc] using this
  exact gen ps s H [] hok (fun q h => by cases h)

theorem init_ok (on : Bool) : AsmOk (init.enable on) [] := by
  refine ⟨by cases on <;> decide, ?_, ?_⟩
  · intro c hc
    have : (init.enable on).current = none := by cases on <;> rfl
    rw [this] at hc; cases hc
  · intro m hm hf
    exfalso
    apply hf
    have : ∀ m < 8, slotFn (init.enable on) m = FN_DISCARD := by cases on <;> decide +kernel
    exact this m hm

end Zvbi.Ttx
