import ZvbiModel.Ttx.OwnAux1
/-!
# C02 round 6, part 2: what an own X/27/0..3 packet does to the page in progress, as one equation

`own_x27_step`: one `vbi_decode` frame with a packet X/27 (designation 0..3) of magazine `m`, while the page in progress of
`m` is a text page: the new state is the old one with slot `m`'s page record replaced by `parse27` of it on the
Hamming 8/4 view of the packet.  (What `parse27` files: `Props.C02Flof.x27_links_filed`.)
-/
namespace Zvbi.Ttx
open Zvbi.Hamm Zvbi.Gen Zvbi.Ttx.Spec

theorem own_x27_decode (s : St) (p : Packet) (m d : Nat) (hp : IsPacket p m 27) (hmask : s.mask = true)
    (hfn : (s.rp m).page.function = FN_LOP) (hd : a8 p 2 = some d) (hd3 : d ≤ 3) :
    (decodeTeletext s p).st = s.setPage m (parse27 (s.rp m).page (view Kind.x27a p) m).1 := by
  obtain ⟨hm, hk32, ha⟩ := hp
  obtain ⟨a1, a2⟩ := addr_split m hm 27 hk32
  have h0 : (m + 8 * 27) >>> 3 ≠ 0 := by rw [a2]; decide
  have d3 : ((s.rp m).page.function == FN_DISCARD) = false := by rw [hfn]; decide
  have hkind : kindOf s (m + 8 * 27) (a8 p 2) = Kind.x27a := by
    unfold kindOf
    simp only [a1, a2, hmask, d3, hd]
    simp [hd3]
  unfold decodeTeletext
  rw [ha]
  simp only []
  obtain ⟨_, _, h3⟩ := process_quiet s (m + 8 * 27) (view (kindOf s (m + 8 * 27) (a8 p 2)) p) h0
  unfold finish
  rw [h3]
  simp only [Bool.false_eq_true, if_false]
  rw [hkind]
  unfold process
  simp only [a1, a2, hmask]
  first
    | rfl
    | simp

theorem own_x27_step (s : St) (p : Packet) (m d : Nat) (hp : IsPacket p m 27) (hcd : s.chswcd = 0)
    (hmask : s.mask = true) (hfn : (s.rp m).page.function = FN_LOP) (hd : a8 p 2 = some d) (hd3 : d ≤ 3) :
    (step s p).1 = (tick s).setPage m (parse27 ((tick s).rp m).page (view Kind.x27a p) m).1 := by
  rw [step_eq_decode s p hcd]
  exact own_x27_decode (tick s) p m d hp hmask hfn hd hd3

theorem view_x27a_g8 (p : Packet) : (view Kind.x27a p).g8 0 = a8 p 2 := rfl

end Zvbi.Ttx
