import ZvbiModel.Ttx.Chain5
/-!
# C02 round 5, part 6: the induction over a cycle of transmissions of one magazine (`chain_ind`, `chain_from`)

A cycle is a list of `Seg`ments: header of a decimal text page of magazine `m`, then the items up to the next header of
`m` (own rows and packets of other magazines).  `Claims m cT s segs`, by recursion over the cycle (`s` = the state in
which the segment's header arrives): the page is stored as `Fetched` says, its page type is not "clock page", and the
final cache chain `cT` finds under every predicate `f` of magazine `m` that no LATER transmission disturbs (`Undist`)
what the chain found right after the page was stored (`q :: rest`).
-/
namespace Zvbi.Ttx
open Zvbi.Hamm Zvbi.Gen Zvbi.Ttx.Spec

structure Seg where
  t : Tx
  hdr : Packet
  items : List Item

def Seg.pkts (x : Seg) : List Packet := x.hdr :: x.items.map Item.pkt
def Seg.rows (x : Seg) : List (Nat × List Nat) := rowsOf (ownRows x.items)
def Seg.key (x : Seg) : Nat × Nat := (x.t.pgno, x.t.subno)
def stream (segs : List Seg) : List Packet := segs.flatMap Seg.pkts

theorem stream_cons (x : Seg) (xs : List Seg) : stream (x :: xs) = x.pkts ++ stream xs := by
  unfold stream; simp

structure SegOk (tmpl : List Nat) (off m : Nat) (x : Seg) : Prop where
  mag : x.t.m = m
  hdr : IsHeader x.hdr x.t.m x.t.page x.t.s12 x.t.s34 x.t.fl
  dec : decimalPage x.t.page
  good : Good tmpl off x.hdr
  items : ∀ it ∈ x.items, ItemPlain x.t.m it ∧ Good tmpl off it.pkt

/-- neighbours differ -/
def Alt : List Nat → Prop
  | a :: b :: r => a ≠ b ∧ Alt (b :: r)
  | _ => True

/-- `f` is disturbed neither by the header look-up nor by the store of transmission `t` -/
structure Undist (f : Page → Bool) (t : Tx) : Prop where
  put : PutKeeps f t.pgno t.subno
  get : GetKeeps f t.pgno t.subpage t.fl

def Claims (m : Nat) (cT : List Page) : St → List Seg → Prop
  | _, [] => True
  | s, x :: xs =>
    (∃ q rest pt, Fetched q x.t (s1Of s x.t) x.hdr x.rows pt ∧ pt ≠ PT_CLOCK
      ∧ (∀ f, OfMag m f → (∀ y ∈ xs, Undist f y.t) → cT.find? f = (q :: rest).find? f)
      -- (round 6) FLOF links / X/28 record of the page in progress when its terminating header arrives
      ∧ CarriesAux q ((run s x.pkts).1.rp m).page)
    ∧ Claims m cT (run s x.pkts).1 xs

/-- the induction: `s` = the state after the packets of `x0` (slot `m` is `Ready`), `xs` = the rest of the cycle,
    terminated by a header of magazine `m` with page number `finPage` (only its termination block is looked at) -/
theorem chain_ind {tmpl : List Nat} {off : Nat} (m finPage : Nat) (hm : m < 8) : ∀ (xs : List Seg) (s s1 : St) (x0 : Seg),
    CInv tmpl off s → SegOk tmpl off m x0 → Ready s s1 x0.t x0.hdr x0.rows → (s1.rp m).lopRaw.length = 26 →
    (∀ r ∈ x0.rows, 1 ≤ r.1 ∧ r.1 ≤ 25 ∧ GoodRow r.2) →
    (∀ x ∈ xs, SegOk tmpl off m x) → Alt ((x0 :: xs).map (·.t.page) ++ [finPage]) →
    (∃ q rest pt, Fetched q x0.t s1 x0.hdr x0.rows pt ∧ pt ≠ PT_CLOCK
        ∧ (∀ f, OfMag m f → (∀ y ∈ xs, Undist f y.t) →
          (terminatePage (tick (run s (stream xs)).1) m (mag8Of m * 256 + finPage) finPage).1.net.cache.find? f
            = (q :: rest).find? f)
        ∧ CarriesAux q (s.rp m).page)
    ∧ Claims m (terminatePage (tick (run s (stream xs)).1) m (mag8Of m * 256 + finPage) finPage).1.net.cache s xs
    ∧ (∀ f, OfMag m f → (∀ y ∈ x0 :: xs, Undist f y.t) →
        (terminatePage (tick (run s (stream xs)).1) m (mag8Of m * 256 + finPage) finPage).1.net.cache.find? f
          = s.net.cache.find? f)
    ∧ magPages m ((run s (stream xs)).2
        ++ (terminatePage (tick (run s (stream xs)).1) m (mag8Of m * 256 + finPage) finPage).2) = (x0 :: xs).map Seg.key
    ∧ CInv tmpl off (run s (stream xs)).1 := by
  intro xs
  induction xs with
  | nil =>
    intro s s1 x0 h h0 hr hL hrows _ halt
    obtain ⟨⟨m0, page0, s120, s340, fl0⟩, hdr0, items0⟩ := x0
    have hm0 : m0 = m := h0.mag
    subst hm0
    have hne : finPage ≠ page0 := fun e => halt.1 e.symm
    obtain ⟨q, rest, pt, c1, c2, c3, c4, c5, c6⟩ := seg_close s s1 h _ hdr0 _ hr hm h0.dec hL hrows
      (mag8Of m0 * 256 + finPage) finPage hne
    simp only [stream, List.flatMap_nil, run_nil, List.nil_append]
    refine ⟨⟨q, rest, pt, c2, c3, fun f _ _ => by rw [c1], c6⟩, trivial, ?_, ?_, h⟩
    · intro f _ hu
      exact c5 f (hu _ List.mem_cons_self).put
    · exact magPages_own m0 page0 _ (a16_lt hdr0 2 _ h0.hdr.page) _ c4
  | cons x1 xs ih =>
    intro s s1 x0 h h0 hr hL hrows hxs halt
    obtain ⟨⟨m0, page0, s120, s340, fl0⟩, hdr0, items0⟩ := x0
    have hm0 : m0 = m := h0.mag
    subst hm0
    obtain ⟨⟨m1, page1, s121, s341, fl1⟩, hdr1, items1⟩ := x1
    have h1 := hxs _ List.mem_cons_self
    have hm1 : m1 = m0 := h1.mag
    subst hm1
    have hne : page1 ≠ page0 := fun e => halt.1 e.symm
    -- closing x0 by the header of x1
    obtain ⟨q, rest, pt, c1, c2, c3, c4, c5, c6⟩ := seg_close s s1 h _ hdr0 _ hr hm h0.dec hL hrows
      (mag8Of m1 * 256 + page1) page1 hne
    -- opening x1
    obtain ⟨o1, o2, o3, o4, o5, o6⟩ := seg_open s h ⟨m1, page1, s121, s341, fl1⟩ hdr1 h1.hdr h1.dec h1.good items1 h1.items
    have hs1 : s1Of s ⟨m1, page1, s121, s341, fl1⟩ = (terminatePage (tick s) m1 (mag8Of m1 * 256 + page1) page1).1 := rfl
    -- the rest of the cycle
    obtain ⟨r1, r2, r3, r4, r5⟩ := ih (run s (Seg.pkts ⟨⟨m1, page1, s121, s341, fl1⟩, hdr1, items1⟩)).1
      (s1Of s ⟨m1, page1, s121, s341, fl1⟩) ⟨⟨m1, page1, s121, s341, fl1⟩, hdr1, items1⟩ o1 h1 o2 o3 o4
      (fun x hx => hxs x (List.mem_cons_of_mem _ hx)) halt.2
    rw [stream_cons, run_append]
    simp only []
    refine ⟨⟨q, rest, pt, c2, c3, ?_, c6⟩, ⟨r1, r2⟩, ?_, ?_, r5⟩
    · intro f hf hu
      rw [r3 f hf hu]
      show (run s (hdr1 :: items1.map Item.pkt)).1.net.cache.find? f = _
      rw [o5 f hf (hu _ List.mem_cons_self).get, hs1, c1]
    · intro f hf hu
      rw [r3 f hf (fun y hy => hu y (List.mem_cons_of_mem _ hy))]
      show (run s (hdr1 :: items1.map Item.pkt)).1.net.cache.find? f = _
      rw [o5 f hf (hu _ (List.mem_cons_of_mem _ List.mem_cons_self)).get, hs1]
      exact c5 f (hu _ List.mem_cons_self).put
    · rw [List.append_assoc, magPages_append, r4]
      show magPages m1 (run s (hdr1 :: items1.map Item.pkt)).2 ++ _ = _
      rw [o6]
      show magPages m1 (terminatePage (tick s) m1 (mag8Of m1 * 256 + page1) page1).2 ++ _ = _
      rw [magPages_own m1 page0 _ (a16_lt hdr0 2 _ h0.hdr.page) _ c4]
      rfl

/-- **a whole cycle from any state of a text-only parallel-mode decoder**: the first header closes whatever page of
    the magazine was in progress (events `ev1`), then every transmission is claimed -/
theorem chain_from {tmpl : List Nat} {off : Nat} (m finPage : Nat) (hm : m < 8) (s : St) (h : CInv tmpl off s)
    (x0 : Seg) (xs : List Seg) (hx : ∀ x ∈ x0 :: xs, SegOk tmpl off m x)
    (halt : Alt ((x0 :: xs).map (·.t.page) ++ [finPage])) :
    Claims m (terminatePage (tick (run s (stream (x0 :: xs))).1) m (mag8Of m * 256 + finPage) finPage).1.net.cache s
      (x0 :: xs)
    ∧ magPages m ((run s (stream (x0 :: xs))).2
        ++ (terminatePage (tick (run s (stream (x0 :: xs))).1) m (mag8Of m * 256 + finPage) finPage).2)
      = magPages m (terminatePage (tick s) m x0.t.pgno x0.t.page).2 ++ (x0 :: xs).map Seg.key
    ∧ CInv tmpl off (run s (stream (x0 :: xs))).1 := by
  have h0 := hx _ List.mem_cons_self
  obtain ⟨⟨m0, page0, s120, s340, fl0⟩, hdr0, items0⟩ := x0
  have hm0 : m0 = m := h0.mag
  subst hm0
  obtain ⟨o1, o2, o3, o4, _, o6⟩ := seg_open s h ⟨m0, page0, s120, s340, fl0⟩ hdr0 h0.hdr h0.dec h0.good items0 h0.items
  obtain ⟨r1, r2, _, r4, r5⟩ := chain_ind m0 finPage hm xs
    (run s (Seg.pkts ⟨⟨m0, page0, s120, s340, fl0⟩, hdr0, items0⟩)).1 (s1Of s ⟨m0, page0, s120, s340, fl0⟩)
    ⟨⟨m0, page0, s120, s340, fl0⟩, hdr0, items0⟩ o1 h0 o2 o3 o4 (fun x hx' => hx x (List.mem_cons_of_mem _ hx')) halt
  rw [stream_cons, run_append]
  simp only []
  refine ⟨⟨r1, r2⟩, ?_, r5⟩
  rw [List.append_assoc, magPages_append, r4]
  show magPages m0 (run s (hdr0 :: items0.map Item.pkt)).2 ++ _ = _
  rw [o6]

end Zvbi.Ttx
