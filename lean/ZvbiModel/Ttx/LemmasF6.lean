import ZvbiModel.Ttx.LemmasF5
/-!
# Fault freedom, part 6: page conversion, page termination, header
-/
namespace Zvbi.Ttx
open Zvbi.Hamm Zvbi.Gen Zvbi.Ttx.Spec

/-- the only fault mark that can occur is the DRCS one, and only while the "last PTU" repair is missing -/
def OnlyDrcsE (l : List Event) : Prop :=
  ∀ site, Event.aux (Aux.fault site) ∈ l → site = "drcs:chars" ∧ ttxFixDrcsLastPtu = false

theorem OnlyDrcsE.of_noFault {l : List Event} (h : NoFaultE l) : OnlyDrcsE l := fun site hs => absurd hs (h site)

theorem OnlyDrcsE.append {a b : List Event} (ha : OnlyDrcsE a) (hb : OnlyDrcsE b) : OnlyDrcsE (a ++ b) := by
  intro site h
  rw [List.mem_append] at h
  rcases h with h | h
  · exact ha site h
  · exact hb site h

theorem OnlyDrcsE.nil : OnlyDrcsE [] := OnlyDrcsE.of_noFault NoFaultE.nil

theorem convertDrcsBounds_only (modes : List Nat) : OnlyDrcsE (liftAux (convertDrcsBounds modes)) := by
  by_cases hf : ttxFixDrcsLastPtu = true
  · rw [drcs_offsets_in_range hf]; exact OnlyDrcsE.nil
  · have hf' : ttxFixDrcsLastPtu = false := by simpa using hf
    intro site hs
    unfold convertDrcsBounds at hs
    split at hs
    · simp [liftAux] at hs
      exact ⟨hs, hf'⟩
    · simp [liftAux] at hs

theorem viewOk_g16 (v : View) (hv : ViewOk v) (i x : Nat) (h : v.g16 i = some x) : x < 256 := by
  unfold View.g16 at h
  cases h1 : v.g8 i with
  | none => rw [h1] at h; simp at h
  | some a =>
    cases h2 : v.g8 (i + 1) with
    | none => rw [h1, h2] at h; simp at h
    | some b =>
      rw [h1, h2] at h
      injection h with h
      have ha := hv i a h1
      have hb := hv (i + 1) b h2
      subst h
      have e1 : a < 2 ^ 8 := by omega
      have e2 : b <<< 4 < 2 ^ 8 := by rw [Nat.shiftLeft_eq]; omega
      exact Nat.or_lt_two_pow e1 e2

theorem rowView_ok (k : Kind) (row : List Nat) : ViewOk (rowView k row) := view_ok _ _

/-! ## vbi_convert_page -/
theorem convPopFold_nofault (vtp : Page) : NoFault ((List.range 25).foldl (convPopStep vtp) (true, [])).2 :=
  (fold_nofault (convPopStep vtp) (fun k => k < 25) (fun _ => True)
    (fun a ev b _ hb hev => by
      refine ⟨trivial, ?_⟩
      unfold convPopStep
      simp only []
      repeat' split
      all_goals first | exact hev | exact NoFault.append hev (parsePop_nofault _ _ (rowView_ok _ _) (by omega)))
    (List.range 25) true [] (fun b hb => List.mem_range.mp hb) trivial NoFault.nil).2

theorem convAitFold_nofault (vtp : Page) : NoFault ((List.range 23).foldl (convAitStep vtp) ((), [])).2 :=
  (fold_nofault (convAitStep vtp) (fun _ => True) (fun _ => True)
    (fun a ev b _ _ hev => by
      refine ⟨trivial, ?_⟩
      unfold convAitStep
      split
      · exact hev
      · exact NoFault.append hev (parseAitBounds_nofault _))
    (List.range 23) () [] (fun _ _ => trivial) trivial NoFault.nil).2

theorem convMptFold_nofault (vtp : Page) (n : Net) : NoFault ((List.range 20).foldl (convMptStep vtp) (n, [])).2 :=
  (fold_nofault (convMptStep vtp) (fun _ => True) (fun _ => True)
    (fun a ev b _ _ hev => by
      refine ⟨trivial, ?_⟩
      unfold convMptStep
      split
      · exact hev
      · exact NoFault.append hev (parseMpt_nofault _ _ _))
    (List.range 20) n [] (fun _ _ => trivial) trivial NoFault.nil).2

theorem convMptExFold_nofault (vtp : Page) (n : Net) : NoFault ((List.range 20).foldl (convMptExStep vtp) (n, [])).2 :=
  (fold_nofault (convMptExStep vtp) (fun _ => True) (fun _ => True)
    (fun a ev b _ _ hev => by
      refine ⟨trivial, ?_⟩
      unfold convMptExStep
      split
      · exact hev
      · exact NoFault.append hev (parseMptEx_nofault _ _ (unhamTopPageLink_range _) _))
    (List.range 20) n [] (fun _ _ => trivial) trivial NoFault.nil).2

theorem convertPage_nofault (n : Net) (vtp : Page) (fn : Int) : NoFault (convertPage n vtp fn).2.2 := by
  unfold convertPage
  repeat' split
  all_goals
    first
    | exact NoFault.nil
    | (simp only []; split <;> exact convPopFold_nofault vtp)
    | exact convPopFold_nofault vtp
    | exact convAitFold_nofault vtp
    | exact convMptFold_nofault vtp n
    | exact convMptExFold_nofault vtp n

end Zvbi.Ttx

namespace Zvbi.Ttx
open Zvbi.Hamm Zvbi.Gen Zvbi.Ttx.Spec

/-! ## store_lop, page termination -/
theorem storeLop_nofault (s : St) (vtp : Page) (hp : PgnoOk vtp.pgno) : NoFaultE (storeLop s vtp).2 := by
  unfold storeLop
  split
  · intro site h; simp at h
  · exact NoFaultE.nil
  · simp only []
    rw [setStat_nofault _ _ _ hp]
    intro site h
    simp only [liftAux, List.map_nil, List.nil_append, List.cons_append, List.mem_cons] at h
    rcases h with h | h
    · cases h
    · split at h <;> simp at h

theorem terminatePage_only (s : St) (mag0 pgno page : Nat)
    (hslot : ∀ curr, terminatedSlot s mag0 pgno page = some curr →
      slotFn s curr ≠ FN_DISCARD → PgnoOk (slotPg s curr)) :
    OnlyDrcsE (terminatePage s mag0 pgno page).2 := by
  unfold terminatePage
  split
  · exact OnlyDrcsE.nil
  · rename_i curr hcurr
    have hs := hslot curr hcurr
    simp only [slotFn, slotPg] at hs
    simp only []
    by_cases h1 : ((s.rp curr).page.function == FN_DISCARD || (s.rp curr).page.function == FN_EPG) = true
    · rw [if_pos h1]; exact OnlyDrcsE.nil
    rw [if_neg h1]
    have hnd : (s.rp curr).page.function ≠ FN_DISCARD := by
      intro e; apply h1; simp [e]
    have hpg := hs hnd
    by_cases h2 : ((s.rp curr).page.function == FN_LOP) = true
    · rw [if_pos h2]
      apply OnlyDrcsE.of_noFault
      apply storeLop_nofault
      rw [(lopParityCheck_keys _ _).1]; exact hpg
    rw [if_neg h2]
    by_cases h3 : ((s.rp curr).page.function == FN_DRCS || (s.rp curr).page.function == FN_GDRCS) = true
    · rw [if_pos h3]
      simp only [St.put]
      apply OnlyDrcsE.append (convertDrcsBounds_only _)
      intro site h; simp at h
    rw [if_neg h3]
    by_cases h4 : ((s.rp curr).page.function == FN_MIP) = true
    · rw [if_pos h4]
      apply OnlyDrcsE.of_noFault
      dsimp only
      have := parseMip_nofault s.net (s.rp curr).page hpg
      generalize (parseMip s.net (s.rp curr).page).2 = l at this ⊢
      exact NoFaultE.lift this
    rw [if_neg h4]
    by_cases h5 : ((s.rp curr).page.function == FN_EACEM) = true
    · rw [if_pos h5]; exact OnlyDrcsE.nil
    rw [if_neg h5]
    simp only [St.put]
    intro site h; simp at h

/-! ## accepted header -/
theorem headerLookup_nofault (n : Net) (cv : Page) : NoFault (headerLookup n cv).2.2 := by
  unfold headerLookup
  split
  · exact get_nofault _ _ _ _
  · exact NoFault.nil

theorem headerFresh_nofault (n : Net) (cv0 : Page) (page : Nat) (row0 : List Nat) (hp : PgnoOk cv0.pgno) :
    NoFault (headerFresh n cv0 page row0).2.2.1 := by
  unfold headerFresh
  simp only []
  repeat' split
  all_goals first | exact NoFault.nil | (simp only [setStat_nofault _ _ _ hp]; exact NoFault.nil)

theorem headerConvert_nofault (n : Net) (cv : Page) (page : Nat) : NoFault (headerConvert n cv page).2.2 := by
  unfold headerConvert
  split
  · simp only []
    split
    · split <;> exact convertPage_nofault _ _ _
    · exact NoFault.nil
  · exact NoFault.nil

theorem headerPage_nofault (n : Net) (cv0 : Page) (page subpage fl : Nat) (row0 : List Nat)
    (hp : PgnoOk cv0.pgno) : NoFault (headerPage n cv0 page subpage fl row0).2.2.1 := by
  unfold headerPage
  simp only []
  refine NoFault.append (NoFault.append (headerLookup_nofault _ _) ?_) (headerConvert_nofault _ _ _)
  split
  · exact NoFault.nil
  · exact headerFresh_nofault _ _ _ _ hp

end Zvbi.Ttx
