import ZvbiModel.Ttx.Frame1
/-!
# Frame lemmas for C02 (round 4), part 2: every packet other than a page header is `Quiet`

... except packet 26 arriving while the magazine's page in progress has function
(G)DRCS / BTT / AIT / MPT / MPT-EX, which calls `vbi_teletext_desync` (packet.c:2642; interference E2).
One lemma per branch of `process`: rows 1..25, X/26, X/27, X/28 + M/29, 8/30.
-/
namespace Zvbi.Ttx
open Zvbi.Hamm Zvbi.Gen Zvbi.Ttx.Spec

/-- the common tail of `processRow`: mark the packet as received -/
theorem quiet_done (s x : St) (mag0 bit : Nat) (hx : Quiet s x mag0) :
    Quiet s (x.setPage mag0 { (x.rp mag0).page with lopPackets := (x.rp mag0).page.lopPackets ||| bit }) mag0 :=
  hx.trans (quiet_setPage x mag0 _ rfl rfl rfl rfl rfl (fun _ => rfl))

theorem quiet_setMag (s : St) (mag0 mag8 : Nat) (m : Magazine) : Quiet s { s with net := s.net.setMag mag8 m } mag0 :=
  quiet_net s _ mag0 (cacheSub_of_eq rfl)

/-- storing the received bytes as row `packet` of a page that is not a text page -/
theorem quiet_setRow (s : St) (mag0 packet : Nat) (row : List Nat) (hn : (s.rp mag0).page.function ≠ FN_LOP) :
    Quiet s (s.setPage mag0 { (s.rp mag0).page with raw := (s.rp mag0).page.raw.set packet row }) mag0 :=
  quiet_setPage s mag0 _ rfl rfl rfl (by simp) rfl (fun e => absurd e hn)

/-- **rows 1..25** of magazine `mag0` -/
theorem processRow_quiet (s : St) (mag0 mag8 packet : Nat) (v : View) :
    Quiet s (processRow s mag0 mag8 packet v).st mag0 ∧ Silent (processRow s mag0 mag8 packet v).ev := by
  unfold processRow
  simp only []
  by_cases h1 : ((s.rp mag0).page.function == FN_DISCARD) = true
  · rw [if_pos h1]; exact ⟨Quiet.refl s _, silent_nil⟩
  rw [if_neg h1]
  by_cases h2 : ((s.rp mag0).page.function == FN_MOT) = true
  · rw [if_pos h2]
    exact ⟨quiet_done s _ mag0 _ (quiet_setMag s mag0 mag8 _), silent_lift _⟩
  rw [if_neg h2]
  by_cases h3 : ((s.rp mag0).page.function == FN_GPOP || (s.rp mag0).page.function == FN_POP) = true
  · rw [if_pos h3]
    split
    · exact ⟨quiet_done s _ mag0 _ (Quiet.refl s _), silent_lift _⟩
    · exact ⟨Quiet.refl s _, silent_lift _⟩
  rw [if_neg h3]
  by_cases h4 : ((s.rp mag0).page.function == FN_GDRCS || (s.rp mag0).page.function == FN_DRCS) = true
  · rw [if_pos h4]
    refine ⟨quiet_done s _ mag0 _ (quiet_setRow s mag0 packet v.raw ?_), silent_lift _⟩
    intro e; rw [e] at h4; exact absurd h4 (by decide)
  rw [if_neg h4]
  by_cases h5 : ((s.rp mag0).page.function == FN_BTT) = true
  · rw [if_pos h5]
    exact ⟨quiet_done s _ mag0 _ (quiet_net s _ mag0 (parseBtt_sub _ _ _)), silent_lift _⟩
  rw [if_neg h5]
  by_cases h6 : ((s.rp mag0).page.function == FN_AIT) = true
  · rw [if_pos h6]
    exact ⟨quiet_done s _ mag0 _ (Quiet.refl s _), silent_lift _⟩
  rw [if_neg h6]
  by_cases h7 : ((s.rp mag0).page.function == FN_MPT) = true
  · rw [if_pos h7]
    exact ⟨quiet_done s _ mag0 _ (quiet_net s _ mag0 (parseMpt_sub _ _ _)), silent_lift _⟩
  rw [if_neg h7]
  by_cases h8 : ((s.rp mag0).page.function == FN_MPT_EX) = true
  · rw [if_pos h8]
    exact ⟨quiet_done s _ mag0 _ (quiet_net s _ mag0 (parseMptEx_sub _ _ _)), silent_lift _⟩
  rw [if_neg h8]
  by_cases h9 : ((s.rp mag0).page.function == FN_EPG) = true
  · rw [if_pos h9]
    exact ⟨quiet_done s _ mag0 _ (Quiet.refl s _), silent_lift _⟩
  rw [if_neg h9]
  by_cases h10 : ((s.rp mag0).page.function == FN_LOP) = true
  · rw [if_pos h10]
    exact ⟨quiet_setRp_page s mag0 _ rfl (by simp), silent_nil⟩
  rw [if_neg h10]
  have hnl : (s.rp mag0).page.function ≠ FN_LOP := fun e => h10 (by rw [e]; decide)
  by_cases h11 : ((s.rp mag0).page.function == FN_EACEM) = true
  · rw [if_pos h11]
    split
    · exact ⟨quiet_done s _ mag0 _ (quiet_setRow s mag0 packet v.raw hnl), silent_lift _⟩
    · exact ⟨Quiet.refl s _, silent_nil⟩
  rw [if_neg h11]
  exact ⟨quiet_done s _ mag0 _ (quiet_setRow s mag0 packet v.raw hnl), silent_lift _⟩

/-- page functions on which packet 26 makes packet.c call `vbi_teletext_desync` (all magazines) -/
def X26Desync (fn : Int) : Prop :=
  fn = FN_GDRCS ∨ fn = FN_DRCS ∨ fn = FN_BTT ∨ fn = FN_AIT ∨ fn = FN_MPT ∨ fn = FN_MPT_EX

instance (fn : Int) : Decidable (X26Desync fn) := by unfold X26Desync; infer_instance

theorem x26Desync_iff (fn : Int) :
    (fn == FN_GDRCS || fn == FN_DRCS || fn == FN_BTT || fn == FN_AIT || fn == FN_MPT || fn == FN_MPT_EX) = true
      ↔ X26Desync fn := by
  unfold X26Desync
  simp only [Bool.or_eq_true, beq_iff_eq, or_assoc]

/-- **X/26** of magazine `mag0`: quiet, or the `vbi_teletext_desync` of interference E2 -/
theorem process26_quiet (s : St) (mag0 : Nat) (v : View) :
    (Quiet s (process26 s mag0 v).st mag0 ∨
      ((process26 s mag0 v).st = desync s ∧ X26Desync (s.rp mag0).page.function))
    ∧ Silent (process26 s mag0 v).ev := by
  unfold process26
  simp only []
  split
  · exact ⟨Or.inl (Quiet.refl s _), silent_nil⟩
  · split
    · exact ⟨Or.inl (Quiet.refl s _), silent_lift _⟩
    · split
      · rename_i hd
        exact ⟨Or.inr ⟨rfl, (x26Desync_iff _).mp hd⟩, silent_nil⟩
      · split
        · exact ⟨Or.inl (Quiet.refl s _), silent_nil⟩
        · split
          · exact ⟨Or.inl (quiet_setRp_page s mag0 _ rfl rfl), silent_nil⟩
          · exact ⟨Or.inl (quiet_setRp s mag0 _ rfl rfl rfl rfl rfl (fun h => ⟨h, rfl⟩) id), silent_lift _⟩

theorem parse27_same (cv : Page) (v : View) (m : Nat) :
    (parse27 cv v m).1.function = cv.function ∧ (parse27 cv v m).1.pgno = cv.pgno
    ∧ (parse27 cv v m).1.subno = cv.subno ∧ (parse27 cv v m).1.flags = cv.flags ∧ (parse27 cv v m).1.raw = cv.raw := by
  unfold parse27
  simp only []
  repeat' split
  all_goals exact ⟨rfl, rfl, rfl, rfl, rfl⟩

/-- **X/27** of magazine `mag0` -/
theorem parse27_quiet (s : St) (mag0 : Nat) (v : View) :
    Quiet s (s.setPage mag0 (parse27 (s.rp mag0).page v mag0).1) mag0 := by
  obtain ⟨a, b, c, d, e⟩ := parse27_same (s.rp mag0).page v mag0
  exact quiet_setPage s mag0 _ d b c (by rw [e]) a (fun _ => e)

theorem selectExt_same (s : St) (mag0 mag8 packet d : Nat) :
    (selectExt s mag0 mag8 packet d).2.function = (s.rp mag0).page.function
    ∧ (selectExt s mag0 mag8 packet d).2.pgno = (s.rp mag0).page.pgno
    ∧ (selectExt s mag0 mag8 packet d).2.subno = (s.rp mag0).page.subno
    ∧ (selectExt s mag0 mag8 packet d).2.flags = (s.rp mag0).page.flags
    ∧ (selectExt s mag0 mag8 packet d).2.raw = (s.rp mag0).page.raw := by
  unfold selectExt
  simp only []
  split
  · split <;> exact ⟨rfl, rfl, rfl, rfl, rfl⟩
  · exact ⟨rfl, rfl, rfl, rfl, rfl⟩

theorem storeExt_quiet (s : St) (mag0 mag8 packet : Nat) (cv : Page) (ext : Ext)
    (h : cv.function = (s.rp mag0).page.function ∧ cv.pgno = (s.rp mag0).page.pgno
      ∧ cv.subno = (s.rp mag0).page.subno ∧ cv.flags = (s.rp mag0).page.flags ∧ cv.raw = (s.rp mag0).page.raw) :
    Quiet s (storeExt s mag0 mag8 packet cv ext) mag0 := by
  unfold storeExt
  obtain ⟨a, b, c, d, e⟩ := h
  split
  · exact quiet_setPage s mag0 _ d b c (by show cv.raw.length = _; rw [e]) a (fun _ => e)
  · exact quiet_setMag s mag0 mag8 _

/-- X/28/3 turns only a page of unknown function into a (G)DRCS page -/
theorem x28Decide_becomeDrcs (f : Int) (packet : Nat) (v : View) (function : Nat) (modes : List Nat) (fl : List Aux)
    (h : x28Decide f packet v = .becomeDrcs function modes fl) :
    f = FN_UNKNOWN ∧ ((function : Int) = FN_GDRCS ∨ (function : Int) = FN_DRCS) := by
  unfold x28Decide at h
  simp only [] at h
  repeat' (split at h)
  all_goals first
    | (cases h; done)
    | (injection h with h1 h2 h3
       subst h1
       rename_i hne hf
       refine ⟨by simpa using hf, ?_⟩
       simp only [bne_iff_ne, ne_eq, Bool.and_eq_true, not_and, Decidable.not_not] at hne
       by_cases e : ((getBits { rest := v.u24, buffer := 0, left := 0, underrun := false } 4).1 : Int) = FN_GDRCS
       · exact Or.inl e
       · exact Or.inr (hne e))

/-- **X/28 and M/29** of magazine `mag0` -/
theorem parse2829_quiet (s : St) (mag0 mag8 packet : Nat) (v : View) :
    Quiet s (parse2829 s mag0 mag8 packet v).1 mag0 := by
  unfold parse2829
  simp only []
  split
  · exact Quiet.refl s _
  · exact storeExt_quiet s mag0 mag8 packet _ _ (selectExt_same s mag0 mag8 packet _)
  · exact storeExt_quiet s mag0 mag8 packet _ _ (selectExt_same s mag0 mag8 packet _)
  · rename_i function modes f hdec
    obtain ⟨hu, hfn⟩ := x28Decide_becomeDrcs _ _ _ _ _ _ hdec
    unfold St.setPage
    refine quiet_setRp s mag0 _ rfl rfl rfl rfl rfl ?_ ?_
    · intro h
      exfalso
      rcases hfn with e | e
      · rw [show (({ (s.rp mag0) with page := { (s.rp mag0).page with function := (function : Int), drcsMode := modes } } : RawPage).page.function) = (function : Int) from rfl, e] at h
        exact absurd h (by decide)
      · rw [show (({ (s.rp mag0) with page := { (s.rp mag0).page with function := (function : Int), drcsMode := modes } } : RawPage).page.function) = (function : Int) from rfl, e] at h
        exact absurd h (by decide)
    · intro _; rw [hu]; decide
  · exact quiet_setPage s mag0 _ rfl rfl rfl rfl rfl (fun _ => rfl)
  · unfold St.setPage
    exact quiet_setRp s mag0 _ rfl rfl rfl rfl rfl (fun h => absurd (show FN_DISCARD = FN_LOP from h) (by decide))
      (fun h => absurd rfl h)

/-- **8/30** -/
theorem parse830_quiet (s : St) (v : View) (m : Nat) : Quiet s (parse830 s v).1 m := by
  unfold parse830
  repeat' split
  all_goals first | exact Quiet.refl s _ | exact quiet_net s _ m (cacheSub_of_eq rfl)

/-- **every packet but a page header** (`packet ≠ 0` in the decoded address `pmag`) -/
theorem process_quiet (s : St) (pmag : Nat) (v : View) (h0 : pmag >>> 3 ≠ 0) :
    (Quiet s (process s pmag v).1.st (pmag &&& 7) ∨
      ((process s pmag v).1.st = desync s ∧ pmag >>> 3 = 26 ∧ s.mask = true ∧ X26Desync (s.rp (pmag &&& 7)).page.function))
    ∧ Silent (process s pmag v).1.ev ∧ (process s pmag v).2 = false := by
  unfold process
  simp only []
  by_cases c1 : (decide (pmag >>> 3 < 30) && !s.mask) = true
  · rw [if_pos c1]; exact ⟨Or.inl (Quiet.refl s _), silent_nil, rfl⟩
  rw [if_neg c1]
  have c2 : ¬ (pmag >>> 3 == 0) = true := by simpa using h0
  rw [if_neg c2]
  by_cases c3 : pmag >>> 3 ≤ 25
  · rw [if_pos c3]
    have := processRow_quiet s (pmag &&& 7) (if (pmag &&& 7) == 0 then 8 else pmag &&& 7) (pmag >>> 3) v
    exact ⟨Or.inl this.1, this.2, rfl⟩
  rw [if_neg c3]
  by_cases c4 : (pmag >>> 3 == 26) = true
  · rw [if_pos c4]
    have h26 : pmag >>> 3 = 26 := by simpa using c4
    have hm : s.mask = true := by rw [h26] at c1; simpa using c1
    have := process26_quiet s (pmag &&& 7) v
    refine ⟨?_, this.2, rfl⟩
    rcases this.1 with h | ⟨h, h'⟩
    · exact Or.inl h
    · exact Or.inr ⟨h, h26, hm, h'⟩
  rw [if_neg c4]
  by_cases c5 : (pmag >>> 3 == 27) = true
  · rw [if_pos c5]
    exact ⟨Or.inl (parse27_quiet s (pmag &&& 7) v), silent_nil, rfl⟩
  rw [if_neg c5]
  by_cases c6 : (pmag >>> 3 == 28 && (s.rp (pmag &&& 7)).page.function == FN_DISCARD) = true
  · rw [if_pos c6]; exact ⟨Or.inl (Quiet.refl s _), silent_nil, rfl⟩
  rw [if_neg c6]
  by_cases c7 : pmag >>> 3 ≤ 29
  · rw [if_pos c7]
    exact ⟨Or.inl (parse2829_quiet s (pmag &&& 7) _ (pmag >>> 3) v), silent_lift _, rfl⟩
  rw [if_neg c7]
  by_cases c8 : (pmag &&& 15 == 0) = true
  · rw [if_pos c8]
    exact ⟨Or.inl (parse830_quiet s v _), silent_nil, rfl⟩
  rw [if_neg c8]
  exact ⟨Or.inl (Quiet.refl s _), silent_nil, rfl⟩

/-- ... through `vbi_decode_teletext` -/
theorem decode_quiet (s : St) (p : Packet) (pmag : Nat) (ha : a16 p 0 = some pmag) (h0 : pmag >>> 3 ≠ 0) :
    (Quiet s (decodeTeletext s p).st (pmag &&& 7) ∨
      ((decodeTeletext s p).st = desync s ∧ pmag >>> 3 = 26 ∧ s.mask = true ∧ X26Desync (s.rp (pmag &&& 7)).page.function))
    ∧ Silent (decodeTeletext s p).ev := by
  unfold decodeTeletext
  rw [ha]
  simp only []
  obtain ⟨h1, h2, h3⟩ := process_quiet s pmag (view (kindOf s pmag (a8 p 2)) p) h0
  unfold finish
  rw [h3]
  simp only [Bool.false_eq_true, if_false]
  exact ⟨h1, h2⟩

end Zvbi.Ttx
