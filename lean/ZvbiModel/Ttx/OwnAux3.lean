import ZvbiModel.Ttx.Roundtrip12
/-!
# C02 round 6, part 3: the page stored at termination carries the FLOF links and the X/28 record of the page in progress

`CarriesAux q p`: the cache entry `q` has the `link[]` array, `have_flof`, `x28_designations` of `p`, and - when the
page received X/28/0, X/28/1 or X/28/4 (`x28_designations & 0x13`, the test of `cache_page_size`) - its extension record.
`close_carries`: the entry a page termination puts at the head of the cache chain (the `q` of `close_text` /
`close_text_at`, hence of `Fetched`) `CarriesAux` the page in progress: `lop_parity_check` touches rows only, `store_lop`
passes the page to `_vbi_cache_put_page`, which copies it up to `cache_page_size`.
-/
namespace Zvbi.Ttx
open Zvbi.Hamm Zvbi.Gen Zvbi.Ttx.Spec

structure CarriesAux (q p : Page) : Prop where
  link : q.link = p.link
  flof : q.haveFlof = p.haveFlof
  x28 : q.x28 = p.x28
  ext : p.x28 &&& 0x13 ≠ 0 → q.ext = p.ext

theorem truncate_carries (p : Page) (hfn : p.function = FN_LOP) : CarriesAux p.truncate p := by
  unfold Page.truncate
  have c : (p.function == FN_UNKNOWN || p.function == FN_LOP) = true := by rw [hfn]; decide
  rw [if_pos c]
  by_cases h : (p.x28 &&& 0x13 != 0) = true
  · rw [if_pos h]; exact ⟨rfl, rfl, rfl, fun _ => rfl⟩
  · rw [if_neg h]
    have h' : p.x28 &&& 0x13 = 0 := by simpa using h
    split
    · exact ⟨rfl, rfl, rfl, fun hx => absurd h' hx⟩
    · exact ⟨rfl, rfl, rfl, fun hx => absurd h' hx⟩

theorem cachePutF_head_carries (fix : Bool) (c : List Page) (pt : Nat) (p : Page) (h : p.pgno &&& 0xFF ≠ 0xFF)
    (hfn : p.function = FN_LOP) :
    ∃ q rest, cachePutF fix c pt p = some (q :: rest) ∧ CarriesAux q p := by
  unfold cachePutF
  rw [if_neg (by simpa using h)]
  generalize putKey pt p.pgno p.subno = k
  obtain ⟨a, b⟩ := k
  obtain ⟨t1, t2, t3, t4⟩ := truncate_carries p hfn
  exact ⟨{ p.truncate with subno := a }, _, rfl, ⟨t1, t2, t3, t4⟩⟩

theorem storeLop_carries (s : St) (vtp : Page) (h0 : s.chswcd = 0) (hv : validPgno vtp.pgno) (hfn : vtp.function = FN_LOP)
    (hn : Event.chsw ∉ (storeLop s vtp).2) :
    ∃ q rest, (storeLop s vtp).1.net.cache = q :: rest ∧ CarriesAux q vtp := by
  rcases hdrVerdict_cases s vtp h0 with hr | ⟨copy, clearCd, roll, hdrUpd, clock, pn, hst⟩
  · exfalso; apply hn; unfold storeLop; rw [hr]; simp
  · unfold storeLop
    rw [hst]
    simp only []
    have hput : ∀ (n : Net), ∃ q rest, (n.put vtp).cache = q :: rest ∧ CarriesAux q vtp := by
      intro n
      unfold Net.put
      obtain ⟨q, rest, hrest, hq⟩ := cachePutF_head_carries Zvbi.Gen.Cache.putReplacesAllVersions n.cache
        (n.getStat vtp.pgno).pageType vtp hv.2.2 hfn
      unfold cachePut
      rw [hrest]
      exact ⟨q, rest, rfl, hq⟩
    cases copy <;> cases clearCd <;> simp only [Bool.false_eq_true, if_false, if_true]
    all_goals exact hput _

theorem lopParityCheck_carries (cv : Page) (rv : RawPage) :
    (lopParityCheck cv rv).1.link = cv.link ∧ (lopParityCheck cv rv).1.haveFlof = cv.haveFlof
    ∧ (lopParityCheck cv rv).1.x28 = cv.x28 ∧ (lopParityCheck cv rv).1.ext = cv.ext := by
  rw [lopParityCheck_fst]
  generalize (lopParityCheck cv rv).2.lopRaw = lr
  generalize List.range 25 = ks
  induction ks generalizing cv with
  | nil => exact ⟨rfl, rfl, rfl, rfl⟩
  | cons k ks ih =>
    simp only [List.foldl_cons]
    obtain ⟨a, b, c, d⟩ := ih (parityRow lr rv.lopPackets cv k)
    have step : (parityRow lr rv.lopPackets cv k).link = cv.link ∧ (parityRow lr rv.lopPackets cv k).haveFlof = cv.haveFlof
        ∧ (parityRow lr rv.lopPackets cv k).x28 = cv.x28 ∧ (parityRow lr rv.lopPackets cv k).ext = cv.ext := by
      unfold parityRow; simp only []
      repeat' split
      all_goals exact ⟨rfl, rfl, rfl, rfl⟩
    exact ⟨a.trans step.1, b.trans step.2.1, c.trans step.2.2.1, d.trans step.2.2.2⟩

/-- **the entry a page termination files carries the link / extension data of the page in progress** -/
theorem close_carries (s : St) (m mQ pgnoQ pageQ : Nat) (hcd : s.chswcd = 0)
    (hts : terminatedSlot s mQ pgnoQ pageQ = some m) (hfn : (s.rp m).page.function = FN_LOP)
    (hv : validPgno (s.rp m).page.pgno)
    (hn : Event.chsw ∉ (terminatePage s mQ pgnoQ pageQ).2) :
    ∃ q rest, (terminatePage s mQ pgnoQ pageQ).1.net.cache = q :: rest ∧ CarriesAux q (s.rp m).page := by
  unfold terminatePage at hn ⊢
  rw [hts] at hn ⊢
  simp only [] at hn ⊢
  have c1 : ((s.rp m).page.function == FN_DISCARD || (s.rp m).page.function == FN_EPG) = false := by
    rw [hfn]; decide
  have c2 : ((s.rp m).page.function == FN_LOP) = true := by rw [hfn]; decide
  simp only [c1, c2, Bool.false_eq_true, if_false, if_true] at hn ⊢
  obtain ⟨k1, k2, k3, k4⟩ := lopParityCheck_carries (s.rp m).page (s.rp m)
  have m2 : (lopParityCheck (s.rp m).page (s.rp m)).1.function = (s.rp m).page.function := by
    rw [lopParityCheck_fst]; exact (parityFold_fields _ _ _ _).1
  have m3 : (lopParityCheck (s.rp m).page (s.rp m)).1.pgno = (s.rp m).page.pgno := by
    rw [lopParityCheck_fst]; exact (parityFold_fields _ _ _ _).2.1
  generalize hLP : lopParityCheck (s.rp m).page (s.rp m) = LP at *
  obtain ⟨cv, rv⟩ := LP
  simp only [] at hn ⊢ k1 k2 k3 k4 m2 m3
  have hv' : validPgno cv.pgno := by rw [m3]; exact hv
  have hfn' : cv.function = FN_LOP := by rw [m2]; exact hfn
  have key := storeLop_carries (s.setRp m { rv with page := cv }) cv hcd hv' hfn'
  generalize storeLop (s.setRp m { rv with page := cv }) cv = SL at key hn ⊢
  obtain ⟨s2, ev2⟩ := SL
  simp only [] at key hn ⊢
  obtain ⟨q, rest, hc, hq⟩ := key hn
  refine ⟨q, rest, ?_, ⟨hq.link.trans k1, hq.flof.trans k2, hq.x28.trans k3, ?_⟩⟩
  · rw [setPage_net]; exact hc
  · intro hx
    rw [← k3] at hx
    exact (hq.ext hx).trans k4

end Zvbi.Ttx
