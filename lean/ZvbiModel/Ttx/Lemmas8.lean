import ZvbiModel.Ttx.Lemmas7
/-!
# Lemmas for C03, part 8: with at most two bit errors per Hamming 8/4 byte an accepted header
carries the transmitted magazine and page number (and, with repair F21, the transmitted subcode)
-/
namespace Zvbi.Ttx
open Zvbi.Hamm Zvbi.Gen Zvbi.Ttx.Spec

/-- error pattern of at most two inverted bits in a byte -/
def FewFlips (e : Nat) : Prop :=
  e = 0 ∨ (∃ j, j < 8 ∧ e = 1 <<< j) ∨ (∃ j k, j < 8 ∧ k < 8 ∧ j ≠ k ∧ e = 1 <<< j ^^^ 1 <<< k)

/-- Hamming 8/4: up to two bit errors are corrected or detected, never miscorrected -/
theorem unham8_few (c e : Nat) (hc : IsHam8 c) (he : FewFlips e) :
    unham8 (c ^^^ e) = none ∨ unham8 (c ^^^ e) = unham8 c := by
  obtain ⟨n, hn, rfl⟩ := hc
  rcases he with rfl | ⟨j, hj, rfl⟩ | ⟨j, k, hj, hk, hjk, rfl⟩
  · right; simp
  · right; rw [unham8_single n hn j hj, unham8_ham8 n hn]
  · left; rw [← Nat.xor_assoc]; exact unham8_double n hn j hj k hk hjk

/-- the received packet differs from the transmitted one by at most two bit errors in each of
    the ten Hamming 8/4 bytes of a header (address, page number, subcode, control) -/
def HdrChannel (tx rx : Packet) : Prop :=
  ∀ i, i < 10 → IsHam8 (byte tx i) ∧ ∃ e, FewFlips e ∧ byte rx i = byte tx i ^^^ e

theorem a8_channel {tx rx : Packet} (h : HdrChannel tx rx) (i : Nat) (hi : i < 10) :
    (a8 rx i = none ∨ a8 rx i = a8 tx i) ∧ ∃ n, a8 tx i = some n := by
  obtain ⟨hc, e, he, hb⟩ := h i hi
  refine ⟨?_, ?_⟩
  · unfold a8; rw [hb]; exact unham8_few _ e hc he
  · obtain ⟨n, hn, hcn⟩ := hc
    exact ⟨n, by unfold a8; rw [hcn]; exact unham8_ham8 n hn⟩

theorem view_hdr_g16i (p : Packet) (r : Nat) (hr : r + 1 < 8) :
    (view Kind.hdr p).g16i r =
      match a8 p (2 + r), a8 p (2 + r + 1) with
      | some a, some b => ((a ||| (b <<< 4) : Nat) : Int)
      | none, _ => -1
      | some a, none => (a : Int) - 16 := by
  unfold View.g16i
  rw [view_g8 _ p r (by omega), view_g8 _ p (r + 1) (by omega)]
  have h1 : Kind.hdr.isH8 r = true := by simp [Kind.isH8]; omega
  have h2 : Kind.hdr.isH8 (r + 1) = true := by simp [Kind.isH8]; omega
  simp only [h1, h2, if_true]
  rw [show 2 + (r + 1) = 2 + r + 1 by omega]
  cases a8 p (2 + r) <;> cases a8 p (2 + r + 1) <;> rfl

/-- a pair that decodes in the received packet decodes to the transmitted value -/
theorem a16_channel {tx rx : Packet} (h : HdrChannel tx rx) (i v : Nat) (hi : i + 1 < 10)
    (hv : a16 rx i = some v) : a16 tx i = some v := by
  unfold a16 unham16p at hv ⊢
  have h0 := (a8_channel h i (by omega)).1
  have h1 := (a8_channel h (i + 1) (by omega)).1
  unfold a8 at h0 h1
  cases hr0 : unham8 (byte rx i) with
  | none => rw [hr0] at hv; simp at hv
  | some a =>
    cases hr1 : unham8 (byte rx (i + 1)) with
    | none => rw [hr0, hr1] at hv; simp at hv
    | some b =>
      rw [hr0] at h0; rw [hr1] at h1
      rcases h0 with h0 | h0
      · cases h0
      rcases h1 with h1 | h1
      · cases h1
      rw [← h0, ← h1]
      rw [hr0, hr1] at hv
      exact hv

/-- the C `int` of a pair: non-negative in the received packet implies equal to the transmitted one -/
theorem g16i_channel {tx rx : Packet} (h : HdrChannel tx rx) (r : Nat) (hr : r + 1 < 8)
    (hv : 0 ≤ (view Kind.hdr rx).g16i r) : (view Kind.hdr tx).g16i r = (view Kind.hdr rx).g16i r := by
  rw [view_hdr_g16i rx r hr] at hv ⊢
  rw [view_hdr_g16i tx r hr]
  have h0 := (a8_channel h (2 + r) (by omega)).1
  have h1 := (a8_channel h (2 + r + 1) (by omega)).1
  cases hr0 : a8 rx (2 + r) with
  | none => rw [hr0] at hv; simp at hv
  | some a =>
    cases hr1 : a8 rx (2 + r + 1) with
    | none =>
      rw [hr0, hr1] at hv
      simp only [] at hv
      have := a8_lt16 rx (2 + r) a
      exfalso
      have ha : a < 16 := by
        have hx := unham8_range (byte rx (2 + r) % 256) (Nat.mod_lt _ (by decide)) a
        apply hx
        have : unham8 (byte rx (2 + r) % 256) = unham8 (byte rx (2 + r)) := by
          unfold unham8; simp [Nat.mod_mod]
        rw [this]; exact hr0
      omega
    | some b =>
      rw [hr0] at h0; rw [hr1] at h1
      rcases h0 with h0 | h0
      · cases h0
      rcases h1 with h1 | h1
      · cases h1
      rw [← h0, ← h1]

/-- the transmitted header always decodes (all ten bytes are codewords): its pairs are non-negative -/
theorem g16i_tx_nonneg {tx rx : Packet} (h : HdrChannel tx rx) (r : Nat) (hr : r + 1 < 8) :
    0 ≤ (view Kind.hdr tx).g16i r := by
  rw [view_hdr_g16i tx r hr]
  obtain ⟨a, ha⟩ := (a8_channel h (2 + r) (by omega)).2
  obtain ⟨b, hb⟩ := (a8_channel h (2 + r + 1) (by omega)).2
  rw [ha, hb]
  simp only []
  omega

end Zvbi.Ttx

namespace Zvbi.Ttx
open Zvbi.Hamm Zvbi.Gen Zvbi.Ttx.Spec

theorem hdrRejected_false {page : Nat} {s12 s34 fl : Int} (h : hdrRejected page s12 s34 fl = false) :
    0 ≤ fl ∧ (ttxFixF21 = true → 0 ≤ s12 ∧ 0 ≤ s34) ∧ (ttxFixF21 = false → 0 ≤ s12 + s34 * 256) := by
  unfold hdrRejected at h
  simp only [Bool.or_eq_false_iff, decide_eq_false_iff_not, Int.not_lt] at h
  refine ⟨h.2, ?_, ?_⟩
  · intro hf; rw [hf] at h; simp at h; omega
  · intro hf; rw [hf] at h; simp at h; omega

theorem hdrRejected_congr_page (page : Nat) (a b c a' b' c' : Int) (ha : a = a') (hb : b = b') (hc : c = c') :
    hdrRejected page a b c = hdrRejected page a' b' c' := by rw [ha, hb, hc]

/-- an accepted received header carries the transmitted magazine and page number; with repair
    F21 also the transmitted subcode -/
theorem hdrKey_channel (tx rx : Packet) (hw : WellFormed rx) (hch : HdrChannel tx rx) (m pg sub : Nat)
    (h : hdrKey rx = some (m, pg, sub)) :
    ∃ sub', hdrKey tx = some (m, pg, sub') ∧ (ttxFixF21 = true → sub' = sub) := by
  unfold hdrKey at h
  cases ha : a16 rx 0 with
  | none => rw [ha] at h; simp at h
  | some pmag =>
    rw [ha] at h
    simp only [] at h
    have hat := a16_channel hch 0 pmag (by omega) ha
    by_cases hp : (pmag >>> 3 != 0) = true
    · rw [if_pos hp] at h; cases h
    rw [if_neg hp] at h
    cases hg : (view Kind.hdr rx).g16 0 with
    | none => rw [hg] at h; simp at h
    | some page =>
      rw [hg] at h
      simp only [] at h
      have hgt : (view Kind.hdr tx).g16 0 = some page := by
        rw [view_hdr_g16 tx 0 (by omega)]
        rw [view_hdr_g16 rx 0 (by omega)] at hg
        exact a16_channel hch 2 page (by omega) hg
      by_cases hr : hdrRejected page ((view Kind.hdr rx).g16i 2) ((view Kind.hdr rx).g16i 4) ((view Kind.hdr rx).g16i 6) = true
      · rw [if_pos hr] at h; cases h
      rw [if_neg hr] at h
      have hr' : hdrRejected page ((view Kind.hdr rx).g16i 2) ((view Kind.hdr rx).g16i 4) ((view Kind.hdr rx).g16i 6) = false := by
        simpa using hr
      obtain ⟨hfl, hfix, hunfix⟩ := hdrRejected_false hr'
      have efl := g16i_channel hch 6 (by omega) hfl
      have h12le := view_g16i_le Kind.hdr rx 2 hw (by omega)
      have h34 : 0 ≤ (view Kind.hdr rx).g16i 4 := by
        by_cases hf : ttxFixF21 = true
        · exact (hfix hf).2
        · have := hunfix (by simpa using hf); omega
      have e34 := g16i_channel hch 4 (by omega) h34
      have h12t := g16i_tx_nonneg hch 2 (by omega)
      injection h with h
      injection h with hm hrest
      injection hrest with hpgno hsub
      by_cases hf : ttxFixF21 = true
      · have e12 := g16i_channel hch 2 (by omega) (hfix hf).1
        refine ⟨sub, ?_, fun _ => rfl⟩
        unfold hdrKey
        rw [hat]
        simp only [hp, hgt, e12, e34, efl, hr]
        subst hm hpgno hsub
        simp
      · have hf' : ttxFixF21 = false := by simpa using hf
        refine ⟨((view Kind.hdr tx).g16i 2 + (view Kind.hdr tx).g16i 4 * 256).toNat &&& 0x3F7F, ?_, fun h => absurd h hf⟩
        have hnr : hdrRejected page ((view Kind.hdr tx).g16i 2) ((view Kind.hdr tx).g16i 4) ((view Kind.hdr tx).g16i 6) = false := by
          have hpage : (page == 0xFF) = false := by
            unfold hdrRejected at hr'
            simp only [Bool.or_eq_false_iff] at hr'
            exact hr'.1.1
          unfold hdrRejected
          rw [hf', hpage, e34, efl]
          simp only [Bool.false_eq_true, if_false, Bool.false_or, Bool.or_eq_false_iff, decide_eq_false_iff_not, Int.not_lt]
          exact ⟨by omega, hfl⟩
        unfold hdrKey
        rw [hat]
        simp only [hp, hgt, hnr]
        subst hm hpgno
        simp

end Zvbi.Ttx
