import ZvbiModel.Ttx.Chain7
/-!
# C02 round 5, part 8: events of the final header, the first header on a fresh decoder, events of one magazine

* `header_events`: the TTX_PAGE events of a whole header packet are those of its termination block.
* `terminatePage_fresh`: no page in progress (`vt.current` unset) - the termination block does nothing.
* `last_close`: the header that ends a cycle announces exactly the last transmission.
* `run_own_events`: a stream of packets of ONE magazine announces pages of that magazine only.
* `exists_last`: the last element of a list with a property.
-/
namespace Zvbi.Ttx
open Zvbi.Hamm Zvbi.Gen Zvbi.Ttx.Spec

theorem header_events {tmpl : List Nat} {off : Nat} (s : St) (p : Packet) (m' page : Nat) (hm' : m' < 8)
    (ha : a16 p 0 = some m') (hpage : a16 p 2 = some page) (h : CInv tmpl off s) (ht : TextOnly p) :
    ttxPages (step s p).2 = ttxPages (terminatePage (tick s) m' (mag8Of m' * 256 + page) page).2 := by
  obtain ⟨a1, a2⟩ := addr_split m' hm' 0 (by omega)
  simp only [Nat.mul_zero, Nat.add_zero] at a1 a2
  rw [step_eq_of_shape s p h.i.shape]
  simp only []
  have hT := h.tick
  generalize tick s = s0 at hT
  have hgl := terminatePage_glob s0 m' (mag8Of m' * 256 + page) page
  have hTt := terminatePage_tinv s0 m' (mag8Of m' * 256 + page) page hm' hT.i.shape hT.t
  cases hrej : hdrRejected page ((view Kind.hdr p).g16i 2) ((view Kind.hdr p).g16i 4) ((view Kind.hdr p).g16i 6) with
  | true =>
    rw [decode_hdr_rejected s0 p m' page ha a2 hT.i.mask hpage hrej]
    simp only [a1]
    rfl
  | false =>
    have hne' := hdrRejected_page hrej
    have hdec : decimalPage page := by
      rcases ht m' page ha a2 hpage with d | d
      · exact d
      · exact absurd d hne'
    obtain ⟨s12, s34, fl, e1, e2, e3, _, _⟩ := hdrRejected_fields p page hrej rfl
    have hp' : IsHeader p m' page s12 s34 fl := ⟨hm', ha, hpage, e1, e2, e3⟩
    obtain ⟨_, he, _⟩ := decode_header_text s0 p m' page s12 s34 fl hp' hdec hT.i.mask
      (terminatePage s0 m' (mag8Of m' * 256 + page) page).1
      (terminatePage s0 m' (mag8Of m' * 256 + page) page).2 rfl (by rw [hgl.len]; exact hT.i.shape.len)
      (hTt.net.textPage _ _ _ _ hdec)
    exact he

theorem terminatePage_fresh (s : St) (mag0 pgno page : Nat) (h : s.current = none) :
    terminatePage s mag0 pgno page = (s, []) := by
  unfold terminatePage terminatedSlot
  rw [h]

theorem init_current : (tick (init.enable true)).current = none := by decide

/-! ## the packets of a cycle are `Good` -/

theorem stream_append (a b : List Seg) : stream (a ++ b) = stream a ++ stream b := by
  unfold stream; simp

theorem segOk_good {tmpl : List Nat} {off m : Nat} (x : Seg) (h : SegOk tmpl off m x) : ∀ p ∈ x.pkts, Good tmpl off p := by
  intro p hp
  unfold Seg.pkts at hp
  rcases List.mem_cons.mp hp with rfl | hp
  · exact h.good
  · rw [List.mem_map] at hp
    obtain ⟨it, hit, rfl⟩ := hp
    exact (h.items it hit).2

theorem stream_good {tmpl : List Nat} {off m : Nat} (xs : List Seg) (h : ∀ x ∈ xs, SegOk tmpl off m x) :
    ∀ p ∈ stream xs, Good tmpl off p := by
  intro p hp
  unfold stream at hp
  rw [List.mem_flatMap] at hp
  obtain ⟨x, hx, hp⟩ := hp
  exact segOk_good x (h x hx) p hp

/-- the header that ends a cycle (page number `finPage` of magazine `m`, different from the last page's) announces
    exactly the last transmission -/
theorem last_close {tmpl : List Nat} {off : Nat} (m : Nat) (hm : m < 8) (s : St) (h : CInv tmpl off s)
    (pre : List Seg) (x : Seg) (hpre : ∀ y ∈ pre, SegOk tmpl off m y) (hx : SegOk tmpl off m x)
    (pgnoQ finPage : Nat) (hne : finPage ≠ x.t.page) :
    ttxPages (terminatePage (tick (run s (stream (pre ++ [x]))).1) m pgnoQ finPage).2 = [x.key] := by
  obtain ⟨h1, _⟩ := run_cinv (stream pre) s h (stream_good pre hpre)
  rw [stream_append, run_append]
  simp only []
  generalize (run s (stream pre)).1 = sP at h1
  obtain ⟨t, hdr, items⟩ := x
  have hmm : t.m = m := hx.mag
  subst hmm
  obtain ⟨o1, o2, o3, o4, _, _⟩ := seg_open sP h1 t hdr hx.hdr hx.dec hx.good items hx.items
  have e : stream [(⟨t, hdr, items⟩ : Seg)] = hdr :: items.map Item.pkt := by
    unfold stream Seg.pkts; simp
  rw [e]
  obtain ⟨q, rest, pt, _, _, _, c4, _⟩ := seg_close _ _ o1 t hdr _ o2 hm hx.dec o3 o4 pgnoQ finPage hne
  exact c4

/-! ## a stream of packets of one magazine announces pages of that magazine only -/

/-- packet of magazine `m` (any packet number); a header's page number decodes -/
def OwnPkt (m : Nat) (p : Packet) : Prop := ∃ k, IsPacket p m k ∧ (k = 0 → ∃ page, a16 p 2 = some page)

theorem run_own_events {tmpl : List Nat} {off : Nat} (m : Nat) (hm : m < 8) : ∀ (ps : List Packet) (s : St),
    CInv tmpl off s → (∀ p ∈ ps, Good tmpl off p ∧ OwnPkt m p) →
    ∀ x ∈ ttxPages (run s ps).2, ∃ page, page < 256 ∧ x.1 = mag8Of m * 256 + page := by
  intro ps
  induction ps with
  | nil => intro s _ _ x hx; cases hx
  | cons p ps ih =>
    intro s h hall x hx
    obtain ⟨hg, k, hp, hpg⟩ := hall p List.mem_cons_self
    rw [run_cons] at hx
    simp only [] at hx
    rw [ttxPages_append, List.mem_append] at hx
    rcases hx with hx | hx
    · have hb := benign_of s p m k h hp hg hpg
      have hne : m ≠ (m + 1) % 8 := by omega
      exact (foreign_step s p ((m + 1) % 8) m k hne hp h.i hb).2.2.1 x hx
    · exact ih (step s p).1 (step_cinv s p h hg).1 (fun q hq => hall q (List.mem_cons_of_mem _ hq)) x hx

theorem magPages_all (m : Nat) (ev : List Event)
    (h : ∀ x ∈ ttxPages ev, ∃ page, page < 256 ∧ x.1 = mag8Of m * 256 + page) : magPages m ev = ttxPages ev := by
  unfold magPages
  rw [List.filter_eq_self]
  intro x hx
  obtain ⟨page, hp, e⟩ := h x hx
  have : (mag8Of m * 256 + page) / 256 = mag8Of m := by omega
  rw [e, this]
  simp

/-! ## the last element with a property -/

theorem exists_last {α : Type} (P : α → Prop) : ∀ (l : List α) (x : α), x ∈ l → P x →
    ∃ pre y post, l = pre ++ y :: post ∧ P y ∧ ∀ z ∈ post, ¬ P z := by
  intro l
  induction l with
  | nil => intro x hx; cases hx
  | cons a l ih =>
    intro x hx hpx
    by_cases hex : ∃ z ∈ l, P z
    · obtain ⟨z, hz, hpz⟩ := hex
      obtain ⟨pre, y, post, e, hy, hpost⟩ := ih z hz hpz
      exact ⟨a :: pre, y, post, by rw [e]; rfl, hy, hpost⟩
    · have hpa : P a := by
        rcases List.mem_cons.mp hx with rfl | hx
        · exact hpx
        · exact absurd ⟨x, hx, hpx⟩ hex
      exact ⟨[], a, l, rfl, hpa, fun z hz hpz => hex ⟨z, hz, hpz⟩⟩

end Zvbi.Ttx
