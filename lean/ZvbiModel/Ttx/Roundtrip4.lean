import ZvbiModel.Ttx.Roundtrip3
import ZvbiModel.Ttx.Lemmas8
/-!
# Lemmas for C02 `page_roundtrip`, part 4: header and row packets through `vbi_decode`

`IsHeader` / `IsPacket`: packets given by what the decoder reads out of them (decoded address and
header fields), so that the theorems cover every received packet that decodes - including ones with
corrected single-bit errors - not only the sender's encoding.
(iii) `step_row`: a row packet of the magazine whose page in progress is a text page.
-/
namespace Zvbi.Ttx
open Zvbi.Hamm Zvbi.Gen Zvbi.Ttx.Spec

/-! ## packets as the decoder reads them -/

/-- a received header packet of magazine `m` (0 = magazine 8) whose ten Hamming 8/4 bytes all decode
    (after correction): page number byte, S1S2, S3S4 (with C4..C6), control bits C7..C14 -/
structure IsHeader (p : Packet) (m page s12 s34 fl : Nat) : Prop where
  mag : m < 8
  addr : a16 p 0 = some m
  page : a16 p 2 = some page
  s12 : a16 p 4 = some s12
  s34 : a16 p 6 = some s34
  fl : a16 p 8 = some fl

/-- a received packet of magazine `m` with packet number `k` -/
def IsPacket (p : Packet) (m k : Nat) : Prop := m < 8 ∧ k < 32 ∧ a16 p 0 = some (m + 8 * k)

/-- the 40 bytes after the address -/
def payload (p : Packet) : List Nat := (List.range 40).map fun i => byte p (2 + i)

def mag8Of (m : Nat) : Nat := if m == 0 then 8 else m

theorem addr_split : ∀ m < 8, ∀ k < 32, (m + 8 * k) &&& 7 = m ∧ (m + 8 * k) >>> 3 = k := by decide

theorem frameTick_idle (s : St) (h : s.chswcd = 0) : frameTick s = ({ s with started := true }, []) := by
  unfold frameTick
  simp [h]

theorem view_rowRaw_raw (p : Packet) : (view Kind.rowRaw p).raw = payload p := by
  unfold view payload
  apply List.map_congr_left
  intro i hi
  rw [List.mem_range] at hi
  simp [Kind.isRaw, hi]

/-- the header row as `memcpy (raw[0], p, 40)` stores it -/
theorem hdr_row (p : Packet) : hdr8 p ++ (view Kind.hdr p).raw.drop 8 = payload p := by
  unfold hdr8 view payload
  apply List.ext_getElem?
  intro i
  simp only [List.getElem?_append, List.length_map, List.length_range, List.getElem?_map, List.getElem?_range,
    List.getElem?_drop]
  by_cases h8 : i < 8
  · have : i < 40 := by omega
    simp [h8, this]
  · by_cases h40 : i < 40
    · have e : 8 + (i - 8) = i := by omega
      simp [h8, h40, e, Kind.isRaw]
    · have : ¬ 8 + (i - 8) < 40 := by omega
      simp [h8, h40, this]

/-! ### (iii, first half) a row of the page in progress -/

theorem processRow_lop (s : St) (m mag8 k : Nat) (v : View) (hfn : (s.rp m).page.function = FN_LOP) :
    processRow s m mag8 k v =
      ⟨s.setRp m { s.rp m with lopRaw := (s.rp m).lopRaw.set k v.raw, lopPackets := (s.rp m).lopPackets ||| (1 <<< k) },
       [], true⟩ := by
  unfold processRow
  simp only [hfn]
  simp [FN_LOP, FN_DISCARD, FN_MOT, FN_GPOP, FN_POP, FN_GDRCS, FN_DRCS, FN_BTT, FN_AIT, FN_MPT, FN_MPT_EX, FN_EPG]

theorem kindOf_row_lop (s : St) (m k : Nat) (d : Option Nat) (hm : m < 8) (hk : 1 ≤ k ∧ k ≤ 25) (hmask : s.mask = true)
    (hfn : (s.rp m).page.function = FN_LOP) : kindOf s (m + 8 * k) d = Kind.rowRaw := by
  obtain ⟨a1, a2⟩ := addr_split m hm k (by omega)
  unfold kindOf
  simp only [a1, a2, hfn, hmask]
  have h0 : (k == 0) = false := by simp; omega
  have h1 : decide (k ≤ 25) = true := by simp; omega
  have h2 : decide (k < 30) = true := by simp; omega
  simp [h0, h2, hk.2, FN_LOP, FN_DISCARD, FN_MOT, FN_GPOP, FN_POP, FN_BTT, FN_AIT, FN_MPT, FN_MPT_EX, FN_EPG]

/-- **(iii)** one row packet (1..25) of the magazine whose page in progress is a text page: the 40
    bytes go to `lop_raw[packet]`, the packet bit is set, nothing else changes, no event -/
theorem decode_row (s : St) (p : Packet) (m k : Nat) (hp : IsPacket p m k) (hk : 1 ≤ k ∧ k ≤ 25)
    (hmask : s.mask = true) (hfn : (s.rp m).page.function = FN_LOP) :
    decodeTeletext s p = ⟨s.setRp m
        { s.rp m with lopRaw := (s.rp m).lopRaw.set k (payload p), lopPackets := (s.rp m).lopPackets ||| (1 <<< k) },
        [], true⟩ := by
  obtain ⟨hm, hk32, ha⟩ := hp
  obtain ⟨a1, a2⟩ := addr_split m hm k hk32
  unfold decodeTeletext
  rw [ha]
  simp only []
  rw [kindOf_row_lop s m k _ hm hk hmask hfn]
  unfold process
  simp only [a1, a2]
  have h0 : (k == 0) = false := by simp; omega
  have h1 : decide (k ≤ 25) = true := by simp; omega
  have h2 : decide (k < 30) = true := by simp; omega
  simp only [h0, h2, hmask, Bool.not_true, Bool.and_false, Bool.false_eq_true, if_false, hk.2, if_true]
  rw [processRow_lop _ _ _ _ _ hfn, view_rowRaw_raw]
  unfold finish
  simp only [Bool.false_eq_true, if_false]

theorem step_row (s : St) (p : Packet) (m k : Nat) (hp : IsPacket p m k) (hk : 1 ≤ k ∧ k ≤ 25)
    (hcd : s.chswcd = 0) (hmask : s.mask = true) (hfn : (s.rp m).page.function = FN_LOP) :
    step s p = (({ s with started := true } : St).setRp m
        { s.rp m with lopRaw := (s.rp m).lopRaw.set k (payload p), lopPackets := (s.rp m).lopPackets ||| (1 <<< k) }, []) := by
  unfold step
  rw [frameTick_idle s hcd]
  simp only []
  rw [decode_row ({ s with started := true } : St) p m k hp hk hmask hfn]
  rfl


/-! ### (i) the header packet -/

/-- `vbi_decode` before the line when no channel-switch countdown runs -/
def tick (s : St) : St := { s with started := true }

theorem a16_some (p : Packet) (i v : Nat) (h : a16 p i = some v) :
    ∃ a b, a8 p i = some a ∧ a8 p (i + 1) = some b ∧ v = a ||| (b <<< 4) := by
  unfold a16 unham16p at h
  unfold a8
  cases ha : unham8 (byte p i) with
  | none => simp [ha] at h
  | some a =>
    cases hb : unham8 (byte p (i + 1)) with
    | none => simp [ha, hb] at h
    | some b => simp [ha, hb] at h; exact ⟨a, b, rfl, rfl, h.symm⟩

theorem hdr_g16i (p : Packet) (r v : Nat) (hr : r + 1 < 8) (h : a16 p (2 + r) = some v) :
    (view Kind.hdr p).g16i r = (v : Int) := by
  obtain ⟨a, b, ha, hb, hv⟩ := a16_some p (2 + r) v h
  rw [view_hdr_g16i p r hr, ha, hb, hv]

theorem hdrRejected_ok (page s12 s34 fl : Nat) (h : page ≠ 0xFF) :
    hdrRejected page (s12 : Int) (s34 : Int) (fl : Int) = false := by
  unfold hdrRejected
  have h1 : (page == 0xFF) = false := by simpa using h
  have a : ¬ ((s12 : Int) < 0) := by omega
  have b : ¬ ((s34 : Int) < 0) := by omega
  have c : ¬ ((fl : Int) < 0) := by omega
  have d : ¬ ((s12 : Int) + (s34 : Int) * 256 < 0) := by omega
  split <;> simp [h1, a, b, c, d]

/-- the cache look-up of the header branch as a function of the header fields -/
def lookupPrev (n : Net) (pgno subpage fl : Nat) : Option Page × Net × List Aux :=
  if pgno != 0x1E7 && ((fl <<< 16) + subpage) &&& C4_ERASE_PAGE == 0 then n.get pgno (subpage &&& 0x3F7F) 0xFFFFFFFF
  else (none, n, [])

theorem headerLookup_eq (n : Net) (cv0 : Page) (subpage fl : Nat) :
    headerLookup n (hdrFields cv0 subpage fl) = lookupPrev n cv0.pgno subpage fl := rfl

theorem patch_raw (raw : List (List Nat)) (h8 X : List Nat) :
    (raw.set 0 (zeroRow.take 8 ++ X)).set 0 (h8 ++ ((raw.set 0 (zeroRow.take 8 ++ X)).getD 0 zeroRow).drop 8)
      = raw.set 0 (h8 ++ X) := by
  cases raw with
  | nil => rfl
  | cons x xs =>
    simp only [List.set_cons_zero, List.getD_cons_zero]
    have : (List.take 8 zeroRow ++ X).drop 8 = X := by
      rw [List.drop_append]
      simp [zeroRow]
    rw [this]

theorem decode_header (s : St) (p : Packet) (m page s12 s34 fl : Nat) (hp : IsHeader p m page s12 s34 fl)
    (hmask : s.mask = true) :
    decodeTeletext s p = finish (processHeader s m (mag8Of m) (view Kind.hdr p)) m (hdr8 p) := by
  obtain ⟨a1, a2⟩ := addr_split m hp.mag 0 (by omega)
  simp only [Nat.mul_zero, Nat.add_zero] at a1 a2
  unfold decodeTeletext
  rw [hp.addr]
  simp only []
  rw [kindOf_hdr s m _ a2 hmask]
  unfold process
  simp only [a1, a2, hmask]
  simp [mag8Of]

end Zvbi.Ttx
