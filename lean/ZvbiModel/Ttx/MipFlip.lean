import ZvbiModel.Ttx.Lemmas5
/-!
# Lemmas for C03: a MIP page is stored raw and read back only through `vbi_unham8`

`processRow` stores rows 1..25 of a page of function FN_MIP verbatim; `parse_mip` (run when the next
header terminates the page) reads them through `rowView .rowH8`, i.e. through `vbi_unham8`.  Hence
the decoded MIP depends on the stored rows only through their Hamming 8/4 views (`parseMip_congr`),
and one flipped bit in a valid codeword of a stored row does not change that view (`rowView_flip`).
-/
namespace Zvbi.Ttx
open Zvbi.Hamm Zvbi.Gen Zvbi.Ttx.Spec

/-- the rows of two pages look the same through the Hamming 8/4 accessors -/
def RowsH8Eq (raw raw' : List (List Nat)) : Prop :=
  ∀ k, rowView .rowH8 (raw.getD k zeroRow) = rowView .rowH8 (raw'.getD k zeroRow)

theorem RowsH8Eq.refl (raw : List (List Nat)) : RowsH8Eq raw raw := fun _ => rfl
theorem RowsH8Eq.symm {a b : List (List Nat)} (h : RowsH8Eq a b) : RowsH8Eq b a := fun k => (h k).symm
theorem RowsH8Eq.trans {a b c : List (List Nat)} (h : RowsH8Eq a b) (h' : RowsH8Eq b c) : RowsH8Eq a c :=
  fun k => (h k).trans (h' k)

/-! ## (a) congruence of `parse_mip` -/

theorem mipClassify_congr (n : Net) (vtp vtp' : Page) (pgno code spi : Nat) (H : RowsH8Eq vtp.raw vtp'.raw) :
    mipClassify n vtp pgno code spi = mipClassify n vtp' pgno code spi := by
  unfold mipClassify
  simp only [H (spi / 13 + 15)]

theorem parseMipPage_congr (n : Net) (vtp vtp' : Page) (pgno : Nat) (code : Option Nat) (spi : Nat)
    (H : RowsH8Eq vtp.raw vtp'.raw) :
    parseMipPage n vtp pgno code spi = parseMipPage n vtp' pgno code spi := by
  unfold parseMipPage
  cases code with
  | none => rfl
  | some c => simp only [mipClassify_congr n vtp vtp' pgno c spi H]

theorem mipStep_congr (vtp vtp' : Page) (hl : vtp.lopPackets = vtp'.lopPackets) (H : RowsH8Eq vtp.raw vtp'.raw) :
    mipStep vtp = mipStep vtp' := by
  funext base acc it
  unfold mipStep
  simp only [hl, H it.1, parseMipPage_congr acc.1.1 vtp vtp' _ _ _ H]

/-- `parse_mip` reads the page only through its number, the mask of received packets and the
    Hamming 8/4 views of its rows -/
theorem parseMip_congr (n : Net) (vtp vtp' : Page) (hp : vtp.pgno = vtp'.pgno)
    (hl : vtp.lopPackets = vtp'.lopPackets)
    (H : ∀ k, rowView .rowH8 (vtp.raw.getD k zeroRow) = rowView .rowH8 (vtp'.raw.getD k zeroRow)) :
    parseMip n vtp = parseMip n vtp' := by
  unfold parseMip
  simp only [mipStep_congr vtp vtp' hl H, hp]

/-! ## (b) a single bit error in a stored Hamming 8/4 byte -/

theorem rowView_flip (r : List Nat) (i b : Nat) (hl : r.length = 40) (hr : ∀ j, r.getD j 0 < 256)
    (hi : i < 40) (hv : IsHam8 (r.getD i 0)) (hb : b < 8) :
    rowView .rowH8 (r.set i (r.getD i 0 ^^^ (1 <<< b))) = rowView .rowH8 r := by
  unfold rowView
  have hbyte : ∀ j, byte ([0, 0] ++ r) (2 + j) = r.getD j 0 := by
    intro j
    unfold byte
    rw [show 2 + j = j + 1 + 1 by omega]
    simp [List.getD_eq_getElem?_getD]
  have e : [0, 0] ++ r.set i (r.getD i 0 ^^^ (1 <<< b)) = flipBit ([0, 0] ++ r) (2 + i) b := by
    unfold flipBit
    rw [hbyte i, show 2 + i = i + 1 + 1 by omega]
    simp
  have hw : WellFormed ([0, 0] ++ r) := by
    refine ⟨by simp [hl], ?_⟩
    intro j
    match j with
    | 0 => simp [byte]
    | 1 => simp [byte]
    | j + 2 =>
      rw [show j + 2 = 2 + j by omega, hbyte j]; exact hr j
  rw [e]
  exact view_flip .rowH8 _ (2 + i) b hw hb
    (ViewProt.h8 i (by simp [Kind.isH8, hi]) (by rw [hbyte i]; exact hv))

/-- replacing one stored row by a row with the same Hamming 8/4 view -/
theorem rowsH8Eq_set (raw : List (List Nat)) (k : Nat) (r r' : List Nat)
    (h : rowView .rowH8 r' = rowView .rowH8 r) : RowsH8Eq (raw.set k r') (raw.set k r) := by
  intro k'
  simp only [List.getD_eq_getElem?_getD, List.getElem?_set]
  by_cases hk : k = k'
  · subst hk
    by_cases hlen : k < raw.length
    · simp [hlen, h]
    · simp [hlen]
  · simp [hk]

/-- one flipped bit in a valid codeword of stored row `k` -/
theorem rowsH8Eq_flip (raw : List (List Nat)) (k : Nat) (r : List Nat) (i b : Nat) (hl : r.length = 40)
    (hr : ∀ j, r.getD j 0 < 256) (hi : i < 40) (hv : IsHam8 (r.getD i 0)) (hb : b < 8) :
    RowsH8Eq (raw.set k (r.set i (r.getD i 0 ^^^ (1 <<< b)))) (raw.set k r) :=
  rowsH8Eq_set raw k r _ (rowView_flip r i b hl hr hi hv hb)

/-! ## the page-terminating header: `terminatePage` on a MIP page -/

/-- slot `m` with the stored rows replaced -/
def St.setRawRows (s : St) (m : Nat) (raw' : List (List Nat)) : St :=
  s.setPage m { (s.rp m).page with raw := raw' }

theorem rp_setRawRows (s : St) (m x : Nat) (raw' : List (List Nat)) (hm : m < s.raw.length) :
    (s.setRawRows m raw').rp x = if x = m then { s.rp m with page := { (s.rp m).page with raw := raw' } } else s.rp x := by
  unfold St.setRawRows
  by_cases h : x = m
  · subst h; rw [if_pos rfl]; exact rp_setPage_same s x _ hm
  · rw [if_neg h]; exact rp_setPage_other s m x _ h

theorem terminatedSlot_setRawRows (s : St) (m : Nat) (raw' : List (List Nat)) (hm : m < s.raw.length)
    (mag0 pgno page : Nat) :
    terminatedSlot (s.setRawRows m raw') mag0 pgno page = terminatedSlot s mag0 pgno page := by
  have hc : (s.setRawRows m raw').current = s.current := rfl
  have hfl : ∀ x, ((s.setRawRows m raw').rp x).page.flags = (s.rp x).page.flags := by
    intro x; rw [rp_setRawRows s m x raw' hm]; by_cases h : x = m
    · subst h; simp
    · simp [h]
  have hpg : ∀ x, ((s.setRawRows m raw').rp x).page.pgno = (s.rp x).page.pgno := by
    intro x; rw [rp_setRawRows s m x raw' hm]; by_cases h : x = m
    · subst h; simp
    · simp [h]
  unfold terminatedSlot
  rw [hc]
  cases s.current with
  | none => rfl
  | some cmag => simp only [hfl, hpg]

/-- the FN_MIP branch of `terminatePage`: nothing but `parse_mip`; the page is NOT handed to the cache -/
theorem terminatePage_mip (s : St) (curr mag0 pgno page : Nat)
    (hts : terminatedSlot s mag0 pgno page = some curr) (hf : (s.rp curr).page.function = FN_MIP) :
    terminatePage s mag0 pgno page =
      (({ s with net := (parseMip s.net (s.rp curr).page).1 } : St).setPage curr
          { (s.rp curr).page with function := FN_DISCARD },
       liftAux (parseMip s.net (s.rp curr).page).2) := by
  unfold terminatePage
  rw [hts]
  have h1 : (FN_MIP == FN_DISCARD || FN_MIP == FN_EPG) = false := by decide
  have h2 : (FN_MIP == FN_LOP) = false := by decide
  have h3 : (FN_MIP == FN_DRCS || FN_MIP == FN_GDRCS) = false := by decide
  have h4 : (FN_MIP == FN_MIP) = true := by decide
  simp only [hf, h1, h2, h3, h4, Bool.false_eq_true, if_false, if_true]
  simp only [St.rp]

/-- state level: the header that terminates a MIP page whose stored rows were replaced by rows with
    the same Hamming 8/4 view produces the same events and the same state up to those rows -/
theorem terminatePage_setRawRows (s : St) (curr : Nat) (raw' : List (List Nat)) (mag0 pgno page : Nat)
    (hm : curr < s.raw.length) (hts : terminatedSlot s mag0 pgno page = some curr)
    (hf : (s.rp curr).page.function = FN_MIP) (H : RowsH8Eq raw' (s.rp curr).page.raw) :
    (terminatePage (s.setRawRows curr raw') mag0 pgno page).2 = (terminatePage s mag0 pgno page).2 ∧
    (terminatePage (s.setRawRows curr raw') mag0 pgno page).1
      = (terminatePage s mag0 pgno page).1.setRawRows curr raw' := by
  have hts' := (terminatedSlot_setRawRows s curr raw' hm mag0 pgno page).trans hts
  have hrp : (s.setRawRows curr raw').rp curr = { s.rp curr with page := { (s.rp curr).page with raw := raw' } } := by
    rw [rp_setRawRows s curr curr raw' hm, if_pos rfl]
  have hf' : ((s.setRawRows curr raw').rp curr).page.function = FN_MIP := by rw [hrp]; exact hf
  have hnet : (s.setRawRows curr raw').net = s.net := rfl
  have hpm : parseMip s.net ((s.setRawRows curr raw').rp curr).page = parseMip s.net (s.rp curr).page := by
    apply parseMip_congr
    · rw [hrp]
    · rw [hrp]
    · rw [hrp]; exact H
  rw [terminatePage_mip _ curr mag0 pgno page hts' hf', terminatePage_mip s curr mag0 pgno page hts hf, hnet, hpm]
  refine ⟨rfl, ?_⟩
  rw [hrp]
  unfold St.setRawRows St.setPage St.setRp St.rp
  simp [List.getD_eq_getElem?_getD, hm]

/-! ## the row packet: `processRow` on a MIP page stores the 40 bytes verbatim -/

/-- a row stored verbatim, seen through the Hamming 8/4 accessors later, is the Hamming 8/4 view of
    the packet itself -/
theorem rowView_rowRaw (p : Packet) : rowView .rowH8 (view .rowRaw p).raw = view .rowH8 p := by
  unfold rowView
  conv => lhs; unfold view
  conv => rhs; unfold view
  congr 1

theorem processRow_mip (s : St) (mag0 mag8 packet : Nat) (v : View) (hm : mag0 < s.raw.length)
    (hf : (s.rp mag0).page.function = FN_MIP) :
    processRow s mag0 mag8 packet v =
      ⟨s.setPage mag0 { (s.rp mag0).page with
          raw := (s.rp mag0).page.raw.set packet v.raw
          lopPackets := (s.rp mag0).page.lopPackets ||| 1 <<< packet }, [], true⟩ := by
  have h1 : (FN_MIP == FN_DISCARD) = false := by decide
  have h2 : (FN_MIP == FN_MOT) = false := by decide
  have h3 : (FN_MIP == FN_GPOP || FN_MIP == FN_POP) = false := by decide
  have h4 : (FN_MIP == FN_GDRCS || FN_MIP == FN_DRCS) = false := by decide
  have h5 : (FN_MIP == FN_BTT) = false := by decide
  have h6 : (FN_MIP == FN_AIT) = false := by decide
  have h7 : (FN_MIP == FN_MPT) = false := by decide
  have h8 : (FN_MIP == FN_MPT_EX) = false := by decide
  have h9 : (FN_MIP == FN_EPG) = false := by decide
  have h10 : (FN_MIP == FN_LOP) = false := by decide
  have h11 : (FN_MIP == FN_EACEM) = false := by decide
  unfold processRow
  simp only [hf, h1, h2, h3, h4, h5, h6, h7, h8, h9, h10, h11, Bool.false_eq_true, if_false]
  rw [rp_setPage_same s mag0 _ hm]
  unfold St.setPage St.setRp St.rp
  simp [List.getD_eq_getElem?_getD, hm, liftAux]

/-- row twin: the packet with one bit of a valid Hamming 8/4 byte flipped leaves the MIP slot with
    rows of the same Hamming 8/4 view, everything else identical -/
theorem processRow_mip_flip (s : St) (mag0 mag8 packet : Nat) (p : Packet) (j b : Nat) (hw : WellFormed p)
    (hm : mag0 < s.raw.length) (hf : (s.rp mag0).page.function = FN_MIP)
    (hj : j < 40) (hv : IsHam8 (byte p (2 + j))) (hb : b < 8) :
    ∃ raw', RowsH8Eq raw' ((processRow s mag0 mag8 packet (view .rowRaw p)).st.rp mag0).page.raw ∧
      processRow s mag0 mag8 packet (view .rowRaw (flipBit p (2 + j) b)) =
        { processRow s mag0 mag8 packet (view .rowRaw p) with
          st := (processRow s mag0 mag8 packet (view .rowRaw p)).st.setRawRows mag0 raw' } := by
  refine ⟨(s.rp mag0).page.raw.set packet (view .rowRaw (flipBit p (2 + j) b)).raw, ?_, ?_⟩
  · rw [processRow_mip s mag0 mag8 packet _ hm hf, rp_setPage_same s mag0 _ hm]
    apply rowsH8Eq_set
    rw [rowView_rowRaw, rowView_rowRaw]
    exact view_flip .rowH8 p (2 + j) b hw hb (ViewProt.h8 j (by simp [Kind.isH8, hj]) hv)
  · rw [processRow_mip s mag0 mag8 packet _ hm hf, processRow_mip s mag0 mag8 packet _ hm hf]
    unfold St.setRawRows
    rw [rp_setPage_same s mag0 _ hm]
    unfold St.setPage St.setRp St.rp
    simp [List.getD_eq_getElem?_getD, hm]

/-- the byte condition in its decidable form -/
theorem getD_lt_of_all (r : List Nat) (h : ∀ x ∈ r, x < 256) (j : Nat) : r.getD j 0 < 256 := by
  rw [List.getD_eq_getElem?_getD]
  cases e : r[j]? with
  | none => simp
  | some x => exact h x (List.mem_of_getElem? e)

/-- `processRow` on a MIP slot keeps the slot a MIP slot -/
theorem processRow_mip_slot (s : St) (mag0 mag8 packet : Nat) (v : View) (hm : mag0 < s.raw.length)
    (hf : (s.rp mag0).page.function = FN_MIP) :
    mag0 < (processRow s mag0 mag8 packet v).st.raw.length ∧
    ((processRow s mag0 mag8 packet v).st.rp mag0).page.function = FN_MIP := by
  rw [processRow_mip s mag0 mag8 packet v hm hf]
  refine ⟨by simp only [setPage_length]; exact hm, ?_⟩
  rw [rp_setPage_same s mag0 _ hm]
  exact hf

/-! ## the same at the entry point `decodeTeletext` -/

theorem kindOf_mip (s : St) (pmag : Nat) (d : Option Nat) (hmask : s.mask = true)
    (h1 : 1 ≤ pmag >>> 3) (h25 : pmag >>> 3 ≤ 25) (hf : (s.rp (pmag &&& 7)).page.function = FN_MIP) :
    kindOf s pmag d = Kind.rowRaw := by
  have e1 : (FN_MIP == FN_DISCARD || FN_MIP == FN_EPG) = false := by decide
  have e2 : (FN_MIP == FN_MOT || FN_MIP == FN_BTT || FN_MIP == FN_MPT || FN_MIP == FN_MPT_EX) = false := by decide
  have e3 : (FN_MIP == FN_GPOP || FN_MIP == FN_POP) = false := by decide
  have e4 : (FN_MIP == FN_AIT) = false := by decide
  have e5 : (pmag >>> 3 == 0) = false := by
    cases h : pmag >>> 3 == 0
    · rfl
    · have := beq_iff_eq.mp h; omega
  unfold kindOf
  simp only [hmask, hf, e1, e2, e3, e4, e5, h25, Bool.not_true, Bool.and_false, Bool.false_eq_true, if_false,
    if_true]

theorem decode_mip_row (s : St) (p : Packet) (pmag : Nat) (ha : a16 p 0 = some pmag) (hmask : s.mask = true)
    (h1 : 1 ≤ pmag >>> 3) (h25 : pmag >>> 3 ≤ 25) (hf : (s.rp (pmag &&& 7)).page.function = FN_MIP) :
    decodeTeletext s p =
      processRow s (pmag &&& 7) (if (pmag &&& 7) == 0 then 8 else pmag &&& 7) (pmag >>> 3) (view .rowRaw p) := by
  have e5 : (pmag >>> 3 == 0) = false := by
    cases h : pmag >>> 3 == 0
    · rfl
    · have := beq_iff_eq.mp h; omega
  unfold decodeTeletext
  rw [ha]
  simp only [kindOf_mip s pmag _ hmask h1 h25 hf]
  unfold process finish
  simp only [hmask, e5, h25, Bool.not_true, Bool.and_false, Bool.false_eq_true, if_false, if_true]

/-- a row packet addressed to a magazine that assembles a MIP page, with one bit of a valid
    Hamming 8/4 data byte inverted: same events, same return value, the states differ only in the
    stored rows of that slot, which have the same Hamming 8/4 view -/
theorem decode_mip_row_flip (s : St) (p : Packet) (pmag j b : Nat) (hw : WellFormed p) (ha : a16 p 0 = some pmag)
    (hmask : s.mask = true) (h1 : 1 ≤ pmag >>> 3) (h25 : pmag >>> 3 ≤ 25)
    (hm : pmag &&& 7 < s.raw.length) (hf : (s.rp (pmag &&& 7)).page.function = FN_MIP)
    (hj : j < 40) (hv : IsHam8 (byte p (2 + j))) (hb : b < 8) :
    ∃ raw', RowsH8Eq raw' ((decodeTeletext s p).st.rp (pmag &&& 7)).page.raw ∧
      decodeTeletext s (flipBit p (2 + j) b) =
        { decodeTeletext s p with st := (decodeTeletext s p).st.setRawRows (pmag &&& 7) raw' } := by
  have ha' : a16 (flipBit p (2 + j) b) 0 = some pmag := by
    rw [a16_flip p (2 + j) b hw hb (fun h => absurd h (by omega))]; exact ha
  rw [decode_mip_row s p pmag ha hmask h1 h25 hf, decode_mip_row s _ pmag ha' hmask h1 h25 hf]
  exact processRow_mip_flip s _ _ _ p j b hw hm hf hj hv hb

end Zvbi.Ttx
