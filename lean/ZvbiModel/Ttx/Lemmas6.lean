import ZvbiModel.Ttx.Lemmas5
/-!
# Lemmas for C03, part 6: page and subpage numbers of the assembly slots change only in the header
branch; every stored page comes from a slot
-/
namespace Zvbi.Ttx
open Zvbi.Hamm Zvbi.Gen Zvbi.Ttx.Spec

/-- the identity of the page in an assembly slot -/
def slotFn (s : St) (m : Nat) : Int := (s.rp m).page.function
def slotPg (s : St) (m : Nat) : Nat := (s.rp m).page.pgno
def slotSub (s : St) (m : Nat) : Nat := (s.rp m).page.subno

/-- `s'` has the same slots as `s` as far as page identity goes, except that slots may have been
    discarded -/
structure Frame (s s' : St) : Prop where
  len : s'.raw.length = s.raw.length
  cur : s'.current = s.current
  slot : ∀ m, m < s.raw.length → slotFn s' m ≠ FN_DISCARD →
    slotFn s m ≠ FN_DISCARD ∧ slotPg s' m = slotPg s m ∧ slotSub s' m = slotSub s m

theorem Frame.refl (s : St) : Frame s s := ⟨rfl, rfl, fun _ _ h => ⟨h, rfl, rfl⟩⟩

theorem Frame.trans {a b c : St} (h1 : Frame a b) (h2 : Frame b c) : Frame a c := by
  refine ⟨h2.len.trans h1.len, h2.cur.trans h1.cur, ?_⟩
  intro m hm hf
  obtain ⟨f2, p2, s2⟩ := h2.slot m (by rw [h1.len]; exact hm) hf
  obtain ⟨f1, p1, s1⟩ := h1.slot m hm f2
  exact ⟨f1, p2.trans p1, s2.trans s1⟩

/-- replacing the page of slot `m` by one with the same identity (or a discarded one) -/
theorem frame_setRp (s : St) (m : Nat) (x : RawPage)
    (h : x.page.function ≠ FN_DISCARD →
      slotFn s m ≠ FN_DISCARD ∧ x.page.pgno = slotPg s m ∧ x.page.subno = slotSub s m) :
    Frame s (s.setRp m x) := by
  refine ⟨setRp_length s m x, rfl, ?_⟩
  intro m' hm' hf
  by_cases e : m' = m
  · subst e
    simp only [slotFn, slotPg, slotSub] at hf ⊢
    rw [rp_setRp_same s m' x hm'] at hf ⊢
    exact h hf
  · simp only [slotFn, slotPg, slotSub] at hf ⊢
    rw [rp_setRp_other s m m' x e] at hf ⊢
    exact ⟨hf, rfl, rfl⟩

theorem frame_setPage (s : St) (m : Nat) (pg : Page)
    (h : pg.function ≠ FN_DISCARD →
      slotFn s m ≠ FN_DISCARD ∧ pg.pgno = slotPg s m ∧ pg.subno = slotSub s m) :
    Frame s (s.setPage m pg) := by
  unfold St.setPage
  exact frame_setRp s m _ h

theorem frame_raw_eq (s s' : St) (hr : s'.raw = s.raw) (hc : s'.current = s.current) : Frame s s' := by
  refine ⟨by rw [hr], hc, ?_⟩
  intro m _ hf
  simp only [slotFn, slotPg, slotSub, St.rp] at hf ⊢
  rw [hr] at hf ⊢
  exact ⟨hf, rfl, rfl⟩

theorem frame_desync (s : St) : Frame s (desync s) := by
  refine ⟨desync_length s, rfl, ?_⟩
  intro m hm hf
  unfold slotFn at hf
  rw [rp_desync s m hm] at hf
  exact absurd rfl hf

theorem chswReset_raw (s : St) : (chswReset s).raw = (desync s).raw := rfl
theorem chswReset_current (s : St) : (chswReset s).current = s.current := rfl

theorem frame_chswReset (s : St) : Frame s (chswReset s) :=
  (frame_desync s).trans (frame_raw_eq (desync s) (chswReset s) (chswReset_raw s) rfl)

/-! ### events -/
theorem put_not_mem_liftAux (l : List Aux) (q : Page) : Event.put q ∉ liftAux l := by
  unfold liftAux
  intro h
  rw [List.mem_map] at h
  obtain ⟨a, _, ha⟩ := h
  cases ha

/-! ### identity of pages through the page builders -/
theorem convertPage_keys (n : Net) (vtp cv' : Page) (fn : Int) (n' : Net) (e : List Aux)
    (h : convertPage n vtp fn = (some cv', n', e)) : cv'.pgno = vtp.pgno ∧ cv'.subno = vtp.subno := by
  unfold convertPage at h
  simp only [] at h
  repeat' (split at h)
  all_goals (first | (injection h with h1 _; injection h1 with h1; subst h1; exact ⟨rfl, rfl⟩) | (simp at h))

/-! ### the branches of `process` other than the header -/
theorem frame_setPage_upd (s : St) (m : Nat) (pg : Page)
    (h : pg.function = slotFn s m ∧ pg.pgno = slotPg s m ∧ pg.subno = slotSub s m) :
    Frame s (s.setPage m pg) :=
  frame_setPage s m pg (fun hf => ⟨by rw [← h.1]; exact hf, h.2.1, h.2.2⟩)

theorem frame_setRp_upd (s : St) (m : Nat) (x : RawPage)
    (h : x.page.function = slotFn s m ∧ x.page.pgno = slotPg s m ∧ x.page.subno = slotSub s m) :
    Frame s (s.setRp m x) :=
  frame_setRp s m x (fun hf => ⟨by rw [← h.1]; exact hf, h.2.1, h.2.2⟩)

theorem frame_net (s : St) (n : Net) : Frame s { s with net := n } := frame_raw_eq _ _ rfl rfl

/-- the common tail of `processRow`: mark the packet as received -/
theorem frame_done (s x : St) (mag0 bit : Nat) (hx : Frame s x) :
    Frame s (x.setPage mag0 { (x.rp mag0).page with lopPackets := (x.rp mag0).page.lopPackets ||| bit }) :=
  hx.trans (frame_setPage_upd x mag0 _ ⟨rfl, rfl, rfl⟩)

theorem processRow_frame (s : St) (mag0 mag8 packet : Nat) (v : View) :
    Frame s (processRow s mag0 mag8 packet v).st ∧ ∀ q, Event.put q ∉ (processRow s mag0 mag8 packet v).ev := by
  have hnil : ∀ q, Event.put q ∉ ([] : List Event) := fun q h => by cases h
  unfold processRow
  simp only []
  by_cases h1 : ((s.rp mag0).page.function == FN_DISCARD) = true
  · rw [if_pos h1]; exact ⟨Frame.refl s, hnil⟩
  rw [if_neg h1]
  by_cases h2 : ((s.rp mag0).page.function == FN_MOT) = true
  · rw [if_pos h2]
    exact ⟨frame_done s _ mag0 _ (frame_net s _), fun q => put_not_mem_liftAux _ q⟩
  rw [if_neg h2]
  by_cases h3 : ((s.rp mag0).page.function == FN_GPOP || (s.rp mag0).page.function == FN_POP) = true
  · rw [if_pos h3]
    split
    · exact ⟨frame_done s _ mag0 _ (Frame.refl s), fun q => put_not_mem_liftAux _ q⟩
    · exact ⟨Frame.refl s, fun q => put_not_mem_liftAux _ q⟩
  rw [if_neg h3]
  by_cases h4 : ((s.rp mag0).page.function == FN_GDRCS || (s.rp mag0).page.function == FN_DRCS) = true
  · rw [if_pos h4]
    exact ⟨frame_done s _ mag0 _ (frame_setPage_upd s mag0 _ ⟨rfl, rfl, rfl⟩), fun q => put_not_mem_liftAux _ q⟩
  rw [if_neg h4]
  by_cases h5 : ((s.rp mag0).page.function == FN_BTT) = true
  · rw [if_pos h5]
    exact ⟨frame_done s _ mag0 _ (frame_net s _), fun q => put_not_mem_liftAux _ q⟩
  rw [if_neg h5]
  by_cases h6 : ((s.rp mag0).page.function == FN_AIT) = true
  · rw [if_pos h6]
    exact ⟨frame_done s _ mag0 _ (Frame.refl s), fun q => put_not_mem_liftAux _ q⟩
  rw [if_neg h6]
  by_cases h7 : ((s.rp mag0).page.function == FN_MPT) = true
  · rw [if_pos h7]
    exact ⟨frame_done s _ mag0 _ (frame_net s _), fun q => put_not_mem_liftAux _ q⟩
  rw [if_neg h7]
  by_cases h8 : ((s.rp mag0).page.function == FN_MPT_EX) = true
  · rw [if_pos h8]
    exact ⟨frame_done s _ mag0 _ (frame_net s _), fun q => put_not_mem_liftAux _ q⟩
  rw [if_neg h8]
  by_cases h9 : ((s.rp mag0).page.function == FN_EPG) = true
  · rw [if_pos h9]
    exact ⟨frame_done s _ mag0 _ (Frame.refl s), fun q => put_not_mem_liftAux _ q⟩
  rw [if_neg h9]
  by_cases h10 : ((s.rp mag0).page.function == FN_LOP) = true
  · rw [if_pos h10]
    exact ⟨frame_setRp_upd s mag0 _ ⟨rfl, rfl, rfl⟩, hnil⟩
  rw [if_neg h10]
  by_cases h11 : ((s.rp mag0).page.function == FN_EACEM) = true
  · rw [if_pos h11]
    split
    · exact ⟨frame_done s _ mag0 _ (frame_setPage_upd s mag0 _ ⟨rfl, rfl, rfl⟩), fun q => put_not_mem_liftAux _ q⟩
    · exact ⟨Frame.refl s, hnil⟩
  rw [if_neg h11]
  exact ⟨frame_done s _ mag0 _ (frame_setPage_upd s mag0 _ ⟨rfl, rfl, rfl⟩), fun q => put_not_mem_liftAux _ q⟩

theorem process26_frame (s : St) (mag0 : Nat) (v : View) :
    Frame s (process26 s mag0 v).st ∧ ∀ q, Event.put q ∉ (process26 s mag0 v).ev := by
  have hnil : ∀ q, Event.put q ∉ ([] : List Event) := fun q h => by cases h
  unfold process26
  simp only []
  split
  · exact ⟨Frame.refl s, hnil⟩
  · split
    · exact ⟨Frame.refl s, fun q => put_not_mem_liftAux _ q⟩
    · split
      · exact ⟨frame_desync s, hnil⟩
      · split
        · exact ⟨Frame.refl s, hnil⟩
        · split
          · exact ⟨frame_setRp_upd s mag0 _ ⟨rfl, rfl, rfl⟩, hnil⟩
          · exact ⟨frame_setRp_upd s mag0 _ ⟨rfl, rfl, rfl⟩, fun q => put_not_mem_liftAux _ q⟩

theorem parse27_keys (cv : Page) (v : View) (m : Nat) :
    (parse27 cv v m).1.function = cv.function ∧ (parse27 cv v m).1.pgno = cv.pgno
    ∧ (parse27 cv v m).1.subno = cv.subno := by
  unfold parse27
  simp only []
  repeat' split
  all_goals exact ⟨rfl, rfl, rfl⟩

theorem parse830_frame (s : St) (v : View) : Frame s (parse830 s v).1 := by
  unfold parse830
  repeat' split
  all_goals first | exact Frame.refl s | exact frame_net s _

theorem patchHdr8_frame (s : St) (m : Nat) (h8 : List Nat) : Frame s (patchHdr8 s m h8) := by
  unfold patchHdr8
  exact frame_setPage_upd s m _ ⟨rfl, rfl, rfl⟩


theorem selectExt_keys (s : St) (mag0 mag8 packet d : Nat) :
    (selectExt s mag0 mag8 packet d).2.function = slotFn s mag0 ∧ (selectExt s mag0 mag8 packet d).2.pgno = slotPg s mag0
    ∧ (selectExt s mag0 mag8 packet d).2.subno = slotSub s mag0 := by
  unfold selectExt
  simp only []
  split
  · split <;> exact ⟨rfl, rfl, rfl⟩
  · exact ⟨rfl, rfl, rfl⟩

theorem storeExt_frame (s : St) (mag0 mag8 packet : Nat) (cv : Page) (ext : Ext)
    (h : cv.function = slotFn s mag0 ∧ cv.pgno = slotPg s mag0 ∧ cv.subno = slotSub s mag0) :
    Frame s (storeExt s mag0 mag8 packet cv ext) := by
  unfold storeExt
  split
  · exact frame_setPage_upd s mag0 _ h
  · exact frame_net s _

theorem parse2829_frame (s : St) (mag0 mag8 packet : Nat) (v : View) :
    Frame s (parse2829 s mag0 mag8 packet v).1 := by
  unfold parse2829
  simp only []
  split
  · exact Frame.refl s
  · exact storeExt_frame s mag0 mag8 packet _ _ (selectExt_keys s mag0 mag8 packet _)
  · exact storeExt_frame s mag0 mag8 packet _ _ (selectExt_keys s mag0 mag8 packet _)
  · rename_i function modes f hdec
    -- becoming a DRCS page: only possible from function UNKNOWN, which is not DISCARD
    apply frame_setPage s mag0
    intro _
    refine ⟨?_, rfl, rfl⟩
    intro hd
    unfold x28Decide at hdec
    simp only [] at hdec
    simp only [slotFn] at hd
    rw [hd] at hdec
    repeat' (split at hdec)
    all_goals (first | (simp at hdec; done) | (exfalso; revert ‹(FN_DISCARD == FN_UNKNOWN) = true›; decide))
  · exact frame_setPage_upd s mag0 _ ⟨rfl, rfl, rfl⟩
  · exact frame_setPage s mag0 _ (fun hf => absurd rfl hf)

/-! ### the header branch -/
theorem mem_put_singleton {q vtp : Page} (h : Event.put q ∈ [Event.put vtp]) : q = vtp := by
  simp at h; exact h

/-- `store_lop`: slots keep their identity (or are all discarded); the only page stored is `vtp` -/
theorem storeLop_frame (s : St) (vtp : Page) :
    Frame s (storeLop s vtp).1 ∧ ∀ q, Event.put q ∈ (storeLop s vtp).2 → q = vtp := by
  unfold storeLop
  split
  · exact ⟨frame_chswReset s, fun q h => by simp at h⟩
  · exact ⟨Frame.refl s, fun q h => by cases h⟩
  · rename_i copy clearCd roll hdrUpd clock pn _
    simp only []
    refine ⟨frame_raw_eq _ _ ?_ ?_, ?_⟩
    · cases copy <;> cases clearCd <;> rfl
    · cases copy <;> cases clearCd <;> rfl
    · intro q h
      rw [List.mem_append, List.mem_append] at h
      rcases h with (h | h) | h
      · exact absurd h (put_not_mem_liftAux _ q)
      · exact mem_put_singleton h
      · split at h <;> simp at h


theorem put_frame (s : St) (p : Page) : Frame s (s.put p).1 := frame_net s _

theorem ne_of_beq_false {a b : Int} (h : ¬ (a == b) = true) : a ≠ b := by
  intro e; apply h; simp [e]

/-- the page terminated by a header: slots keep their identity (the terminated one is discarded);
    every stored page is the page of the terminated slot -/
theorem terminatePage_frame (s : St) (mag0 pgno page : Nat) :
    Frame s (terminatePage s mag0 pgno page).1 ∧
    ∀ q, Event.put q ∈ (terminatePage s mag0 pgno page).2 →
      ∃ curr, terminatedSlot s mag0 pgno page = some curr ∧ q.function ≠ FN_DISCARD ∧
        q.function = slotFn s curr ∧ q.pgno = slotPg s curr ∧ q.subno = slotSub s curr := by
  have hnil : ∀ q, Event.put q ∉ ([] : List Event) := fun q h => by cases h
  unfold terminatePage
  split
  · exact ⟨Frame.refl s, fun q h => absurd h (hnil q)⟩
  · rename_i curr hcurr
    simp only []
    have hfin : ∀ (x : St), Frame s x →
        Frame s (x.setPage curr { (x.rp curr).page with function := FN_DISCARD }) :=
      fun x hx => hx.trans (frame_setPage x curr _ (fun hf => absurd rfl hf))
    by_cases h1 : ((s.rp curr).page.function == FN_DISCARD || (s.rp curr).page.function == FN_EPG) = true
    · rw [if_pos h1]
      exact ⟨hfin s (Frame.refl s), fun q h => absurd h (hnil q)⟩
    rw [if_neg h1]
    have hnd : (s.rp curr).page.function ≠ FN_DISCARD := by
      intro e; apply h1; simp [e]
    by_cases h2 : ((s.rp curr).page.function == FN_LOP) = true
    · rw [if_pos h2]
      have hk := lopParityCheck_keys (s.rp curr).page (s.rp curr)
      have hf1 : Frame s (s.setRp curr { (lopParityCheck (s.rp curr).page (s.rp curr)).2 with
          page := (lopParityCheck (s.rp curr).page (s.rp curr)).1 }) :=
        frame_setRp_upd s curr _ ⟨hk.2.2, hk.1, hk.2.1⟩
      have hs := storeLop_frame (s.setRp curr { (lopParityCheck (s.rp curr).page (s.rp curr)).2 with
          page := (lopParityCheck (s.rp curr).page (s.rp curr)).1 }) (lopParityCheck (s.rp curr).page (s.rp curr)).1
      refine ⟨hfin _ (hf1.trans hs.1), ?_⟩
      intro q hq
      have := hs.2 q hq
      subst this
      exact ⟨curr, hcurr, by rw [hk.2.2]; exact hnd, hk.2.2, hk.1, hk.2.1⟩
    rw [if_neg h2]
    by_cases h3 : ((s.rp curr).page.function == FN_DRCS || (s.rp curr).page.function == FN_GDRCS) = true
    · rw [if_pos h3]
      refine ⟨hfin _ (put_frame s _), ?_⟩
      intro q hq
      simp only [St.put] at hq
      rw [List.mem_append] at hq
      rcases hq with hq | hq
      · exact absurd hq (put_not_mem_liftAux _ q)
      · have := mem_put_singleton hq
        subst this
        exact ⟨curr, hcurr, hnd, rfl, rfl, rfl⟩
    rw [if_neg h3]
    by_cases h4 : ((s.rp curr).page.function == FN_MIP) = true
    · rw [if_pos h4]
      refine ⟨hfin _ (frame_net s _), ?_⟩
      intro q h
      exfalso
      dsimp only at h
      generalize (parseMip s.net (s.rp curr).page).2 = l at h
      exact put_not_mem_liftAux l q h
    rw [if_neg h4]
    by_cases h5 : ((s.rp curr).page.function == FN_EACEM) = true
    · rw [if_pos h5]
      exact ⟨hfin s (Frame.refl s), fun q h => absurd h (hnil q)⟩
    rw [if_neg h5]
    refine ⟨hfin _ (put_frame s _), ?_⟩
    intro q hq
    simp only [St.put] at hq
    have := mem_put_singleton hq
    subst this
    exact ⟨curr, hcurr, hnd, rfl, rfl, rfl⟩


end Zvbi.Ttx
