import ZvbiModel.Ttx.Lemmas7
import ZvbiModel.Ttx.X26Fix
/-!
# The enhancement array after a header; `vbi_teletext_desync` closes every magazine

* an accepted header leaves in the magazine's assembly page either an enhancement array of unused
  entries (page built from scratch) or the array of the cached copy of that very page number
  (page continued from the cache) - never the array of the page that used the slot before;
* after `vbi_teletext_desync` every magazine's page in progress is closed: rows and X/26 packets are
  dropped and the next header stores nothing.
-/
namespace Zvbi.Ttx
open Zvbi.Hamm Zvbi.Gen Zvbi.Ttx.Spec

/-- an enhancement array of unused entries (`memset (enh, 0xFF, sizeof enh)`) -/
def enhUnused : List Triplet := List.replicate ENH_SIZE Triplet.ff

theorem liveTriplets_enhUnused : liveTriplets enhUnused = [] := by
  unfold liveTriplets enhUnused ENH_SIZE
  have : ∀ n, (List.replicate n Triplet.ff).takeWhile (fun t => decide (t.address ≤ 63)) = [] := by
    intro n; cases n <;> simp [List.replicate, Triplet.ff]
  exact this _

theorem convertPage_keeps (n : Net) (vtp : Page) (newFn : Int) (cv' : Page)
    (h : (convertPage n vtp newFn).1 = some cv') : cv'.enh = vtp.enh ∧ cv'.x26 = vtp.x26 := by
  revert h
  unfold convertPage
  repeat' split
  all_goals
    intro h
    first
      | (have h' := Option.some.inj h; subst h'; exact ⟨rfl, rfl⟩)
      | (simp at h; done)
      | (dsimp only at h; split at h <;> first | (have h' := Option.some.inj h; subst h'; exact ⟨rfl, rfl⟩) | (simp at h; done))

theorem headerConvert_keeps (n : Net) (cv : Page) (page : Nat) :
    (headerConvert n cv page).1.enh = cv.enh ∧ (headerConvert n cv page).1.x26 = cv.x26 ∧
    (cv.function ≠ FN_UNKNOWN → (headerConvert n cv page).1.function = cv.function) := by
  unfold headerConvert
  by_cases hu : (cv.function == FN_UNKNOWN) = true
  · have hu' : cv.function = FN_UNKNOWN := by simpa using hu
    simp only [hu, if_true]
    split
    · split
      · rename_i cv' hc
        have := convertPage_keeps _ _ _ _ hc
        exact ⟨this.1, this.2, fun h => absurd hu' h⟩
      · exact ⟨rfl, rfl, fun _ => rfl⟩
    · exact ⟨rfl, rfl, fun _ => rfl⟩
  · simp only [hu]
    exact ⟨rfl, rfl, fun _ => rfl⟩

/-! ## the enhancement array after an accepted header -/

/-- a page found by the header's cache look-up is a cached page with the header's page number -/
theorem headerLookup_some (n : Net) (cv q : Page) (h : (headerLookup n cv).1 = some q) :
    q ∈ n.cache ∧ q.pgno = cv.pgno := by
  unfold headerLookup at h
  split at h
  · unfold Net.get at h
    split at h
    · rename_i q' c hg
      have hq : q' = q := Option.some.inj h
      subst hq
      unfold cacheGet at hg
      split at hg
      · cases hg
      · unfold cacheFind at hg
        split at hg
        · rename_i q'' hf
          have := Option.some.inj hg
          have hq : q'' = q' := congrArg Prod.fst this
          subst hq
          have hm := List.mem_of_find?_eq_some hf
          have hp := List.find?_some hf
          simp only [Bool.and_eq_true, beq_iff_eq] at hp
          exact ⟨hm, hp.1⟩
        · cases hg
    · cases h
  · cases h

/-- "rebuilding from scratch": no X/26 designation is marked as received, and unless the page is a
    BTT / MIP / MOT page (never handed to `lop_parity_check`) its enhancement array is wiped -/
theorem headerFresh_enh (n : Net) (cv0 : Page) (page : Nat) (row0 : List Nat) :
    (headerFresh n cv0 page row0).1.x26 = 0 ∧
    ((headerFresh n cv0 page row0).1.function = FN_UNKNOWN → (headerFresh n cv0 page row0).1.enh = enhUnused) ∧
    ((headerFresh n cv0 page row0).1.function ≠ FN_UNKNOWN → (headerFresh n cv0 page row0).1.function ≠ FN_LOP) := by
  unfold headerFresh
  dsimp only
  repeat' split
  all_goals refine ⟨rfl, ?_, ?_⟩
  all_goals dsimp only
  all_goals first
    | (intro _; rfl)
    | (intro h; exact absurd h (by decide))
    | (intro _; decide)
    | (intro h; exact absurd rfl h)

/-- continuing the cached copy `q`: the array is `q`'s - or, in the repaired source shape
    (fixes/C03-enh-zero-filler.diff, `ttxFixEnhFiller`), all entries unused when `q` was stored without X/26 data
    (and so came back from the cache without its array) -/
theorem headerFromCache_enh (cv q : Page) (row0 : List Nat) :
    (headerFromCache cv q row0).1.enh = q.enh ∨
    (ttxFixEnhFiller = true ∧ q.x26 = 0 ∧ (headerFromCache cv q row0).1.enh = enhUnused) := by
  unfold headerFromCache
  dsimp only
  split
  · rename_i h
    right
    simp only [Bool.and_eq_true, beq_iff_eq] at h
    exact ⟨h.1.1.1, h.1.2, rfl⟩
  · left; rfl

/-- `headerPage` after the page record got its subpage number and flags -/
def headerPageCore (n : Net) (cv : Page) (page : Nat) (row0 : List Nat) : Page × Net × List Aux × Bool :=
  let lk := headerLookup n cv
  let b : Page × Net × List Aux × Bool :=
    match lk.1 with
    | some q => ((headerFromCache cv q row0).1, lk.2.1, [], (headerFromCache cv q row0).2)
    | none => headerFresh lk.2.1 cv page row0
  let c := headerConvert b.2.1 b.1 page
  (c.1, c.2.1, lk.2.2 ++ b.2.2.1 ++ c.2.2, b.2.2.2)

theorem headerPage_core (n : Net) (cv0 : Page) (page subpage fl : Nat) (row0 : List Nat) :
    headerPage n cv0 page subpage fl row0 =
      headerPageCore n { cv0 with subno := subpage &&& 0x3F7F, national := rev8 fl &&& 7, flags := (fl <<< 16) + subpage }
        page row0 := rfl

theorem headerPageCore_enh (n : Net) (cv : Page) (page : Nat) (row0 : List Nat) :
    (∃ q, q ∈ n.cache ∧ q.pgno = cv.pgno ∧
          ((headerPageCore n cv page row0).1.enh = q.enh ∨
           (ttxFixEnhFiller = true ∧ q.x26 = 0 ∧ (headerPageCore n cv page row0).1.enh = enhUnused)) ∧
          (headerPageCore n cv page row0).1.x26 = q.x26) ∨
    ((headerPageCore n cv page row0).1.x26 = 0 ∧
      ((headerPageCore n cv page row0).1.function = FN_LOP → (headerPageCore n cv page row0).1.enh = enhUnused)) := by
  unfold headerPageCore
  dsimp only
  cases hl : (headerLookup n cv).1 with
  | some q =>
    left
    have hq := headerLookup_some _ _ _ hl
    refine ⟨q, hq.1, hq.2, ?_, ?_⟩
    · rw [(headerConvert_keeps _ _ _).1]; exact headerFromCache_enh cv q row0
    · rw [(headerConvert_keeps _ _ _).2.1]; rfl
  | none =>
    right
    dsimp only
    have hf := headerFresh_enh (headerLookup n cv).2.1 cv page row0
    have hk := headerConvert_keeps (headerFresh (headerLookup n cv).2.1 cv page row0).2.1
                 (headerFresh (headerLookup n cv).2.1 cv page row0).1 page
    refine ⟨?_, ?_⟩
    · rw [hk.2.1]; exact hf.1
    · intro hfn
      rw [hk.1]
      by_cases hu : (headerFresh (headerLookup n cv).2.1 cv page row0).1.function = FN_UNKNOWN
      · exact hf.2.1 hu
      · rw [hk.2.2 hu] at hfn
        exact absurd hfn (hf.2.2 hu)

/-- an accepted header: the assembly page continues the cached copy `q` of that very page number
    (then `enh` and the received-designations mask are `q`'s - in the repaired source shape `ttxFixEnhFiller` a
    copy stored without X/26 data gives an array of unused entries instead of zeros), or it is built from scratch (then no
    designation is marked and, if the page is a Level one page, every `enh` entry is unused).
    In no case does anything of the page that occupied the magazine's slot before survive in `enh`. -/
theorem headerPage_enh (n : Net) (cv0 : Page) (page subpage fl : Nat) (row0 : List Nat) :
    (∃ q, q ∈ n.cache ∧ q.pgno = cv0.pgno ∧
          ((headerPage n cv0 page subpage fl row0).1.enh = q.enh ∨
           (ttxFixEnhFiller = true ∧ q.x26 = 0 ∧ (headerPage n cv0 page subpage fl row0).1.enh = enhUnused)) ∧
          (headerPage n cv0 page subpage fl row0).1.x26 = q.x26) ∨
    ((headerPage n cv0 page subpage fl row0).1.x26 = 0 ∧
      ((headerPage n cv0 page subpage fl row0).1.function = FN_LOP →
        (headerPage n cv0 page subpage fl row0).1.enh = enhUnused)) := by
  rw [headerPage_core]
  exact headerPageCore_enh n
    { cv0 with subno := subpage &&& 0x3F7F, national := rev8 fl &&& 7, flags := (fl <<< 16) + subpage } page row0

/-! ## `vbi_teletext_desync` closes every magazine -/

theorem desync_function (s : St) (m : Nat) (h : m < s.raw.length) :
    ((desync s).rp m).page.function = FN_DISCARD := by
  rw [rp_desync s m h]

/-- a row 1..25 for a magazine whose page in progress is closed is dropped -/
theorem processRow_discard (s : St) (m mag8 packet : Nat) (v : View)
    (h : (s.rp m).page.function = FN_DISCARD) : processRow s m mag8 packet v = ⟨s, [], true⟩ := by
  unfold processRow
  simp [h]

/-- so is an X/26 packet -/
theorem process26_discard (s : St) (m : Nat) (v : View)
    (h : (s.rp m).page.function = FN_DISCARD) : process26 s m v = ⟨s, [], true⟩ := by
  unfold process26
  simp [h]

/-- the next header finds nothing to store and nothing to announce -/
theorem terminatePage_discard (s : St) (mag0 pgno page : Nat)
    (h : ∀ c, terminatedSlot s mag0 pgno page = some c → (s.rp c).page.function = FN_DISCARD) :
    (terminatePage s mag0 pgno page).2 = [] := by
  unfold terminatePage
  cases ht : terminatedSlot s mag0 pgno page with
  | none => rfl
  | some curr =>
    have := h curr ht
    simp [this]

end Zvbi.Ttx
