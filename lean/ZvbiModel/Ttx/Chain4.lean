import ZvbiModel.Ttx.Chain3
/-!
# C02 round 5, part 4: what a look-up finds is kept (`find?` frame lemmas for an arbitrary predicate)

`cachePutF_find_gen`: `_vbi_cache_put_page` (either source shape) keeps `c.find? f` when `f` is false on the page
stored, on the version it replaces and - repaired shape, single-version key - on every version of the page number.
`storeLop_find`, `terminatePage_find`: page termination on a text-only decoder keeps `find? f` under the same condition
on the page of the terminated slot.  `decode_find_foreign`: a packet of magazine `m'` keeps `find? f` for every `f`
that is true only on pages of another magazine.
-/
namespace Zvbi.Ttx
open Zvbi.Hamm Zvbi.Gen Zvbi.Ttx.Spec

theorem keyMatch_true {pgno key mask : Nat} {q : Page} (h : keyMatch pgno key mask q = true) :
    q.pgno = pgno ∧ q.subno &&& mask = key &&& mask := by
  unfold keyMatch at h
  simpa using h

/-- `_vbi_cache_put_page`, both source shapes, any predicate `f` -/
theorem cachePutF_find_gen (fix : Bool) (c : List Page) (pt : Nat) (p : Page) (f : Page → Bool) (key mask : Nat)
    (hk : putKey pt p.pgno p.subno = (key, mask))
    (hnew : f { p.truncate with subno := key } = false)
    (hold : ∀ old ∈ c, old.pgno = p.pgno → old.subno &&& mask = (key &&& mask) &&& mask → f old = false)
    (hall : fix = true → mask = 0 → ∀ x, x.pgno = p.pgno → f x = false) :
    ∀ c', cachePutF fix c pt p = some c' → c'.find? f = c.find? f := by
  unfold cachePutF
  split
  · intro c' h; cases h
  · rw [hk]
    intro c' h
    simp only [Option.some.injEq] at h
    subst h
    rw [List.find?_cons, hnew]
    simp only []
    rw [cacheFind_eq]
    cases hf : c.find? (keyMatch p.pgno (key &&& mask) mask) with
    | none => rfl
    | some old =>
      simp only []
      have hmem := List.mem_of_find?_eq_some hf
      obtain ⟨o1, o2⟩ := keyMatch_true (List.find?_some hf)
      have hfo : f old = false := hold old hmem o1 o2
      rw [List.erase_cons_head]
      split
      · rename_i hc
        simp only [Bool.and_eq_true, beq_iff_eq] at hc
        rw [find?_filter_of_false f _ _ (c.erase old)]
        · exact find?_erase_of_false f old hfo c
        · intro x hx
          exact hall hc.1 hc.2 x (by simpa using hx)
      · exact find?_erase_of_false f old hfo c

/-- a predicate that is undisturbed by a store of (`pgno`, `subno`) when the page type is not "clock page" -/
def PutKeeps (f : Page → Bool) (pgno subno : Nat) : Prop :=
  ∀ (c : List Page) (pt : Nat) (p : Page) (c' : List Page), p.pgno = pgno → p.subno = subno → pt ≠ PT_CLOCK →
    cachePut c pt p = some c' → c'.find? f = c.find? f

/-- a look-up key of another page number: undisturbed by every store of (`pgno`, ..) -/
theorem putKeeps_other (P key mask pgno subno : Nat) (hne : pgno ≠ P) : PutKeeps (keyMatch P key mask) pgno subno := by
  intro c pt p c' hp _ _ hc
  exact cachePut_find_other c pt p P key mask (by rw [hp]; exact hne) c' hc

theorem storeLop_find (s : St) (vtp : Page) (f : Page → Bool) (h : TNet s.net) (hn : Event.chsw ∉ (storeLop s vtp).2)
    (hput : PutKeeps f vtp.pgno vtp.subno) : (storeLop s vtp).1.net.cache.find? f = s.net.cache.find? f := by
  unfold storeLop at hn ⊢
  split
  · rename_i hv
    rw [hv] at hn
    exact absurd (by simp) hn
  · rfl
  · rename_i copy clearCd roll hdrUpd clock pn hv
    have fin : ∀ (n1 : Net), TNet n1 → n1.cache = s.net.cache → (n1.put vtp).cache.find? f = s.net.cache.find? f := by
      intro n1 h1 hc
      unfold Net.put
      cases hp : cachePut n1.cache (n1.getStat vtp.pgno).pageType vtp with
      | none => simp only []; rw [hc]
      | some c' =>
        simp only []
        rw [← hc]
        apply hput n1.cache _ vtp c' rfl rfl _ hp
        rcases h1.stat vtp.pgno with e | e <;> rw [e] <;> decide
    have hT : ∀ (x : St), x.net = s.net → ∀ ps : PageStat, (ps.pageType = PT_UNKNOWN ∨ ps.pageType = PT_NORMAL) →
        ((x.net.setStat vtp.pgno (fun _ => ps)).1.put vtp).cache.find? f = s.net.cache.find? f := by
      intro x hx ps hps
      rw [hx]
      exact fin _ (h.setStat _ _ hps) (setStat_cache _ _ _)
    cases copy <;> cases clearCd <;>
      exact hT _ rfl _ (Or.inr (statAtPut_type2 _ _ (statAtPut_type1 _ _ (h.stat _))))

/-- page termination on a text-only decoder keeps `find? f` when `f` is undisturbed by a store of the terminated page -/
theorem terminatePage_find (s : St) (mag0 pgno page : Nat) (f : Page → Bool) (hm : mag0 < 8) (hs : Shape s) (h : TInv s)
    (hn : Event.chsw ∉ (terminatePage s mag0 pgno page).2)
    (hput : ∀ curr, terminatedSlot s mag0 pgno page = some curr → (s.rp curr).page.function = FN_LOP →
      PutKeeps f (s.rp curr).page.pgno (s.rp curr).page.subno) :
    (terminatePage s mag0 pgno page).1.net.cache.find? f = s.net.cache.find? f := by
  unfold terminatePage at hn ⊢
  split
  · rfl
  · rename_i curr hcurr
    rw [hcurr] at hn
    have hc8 : curr < 8 := terminatedSlot_lt s mag0 pgno page curr hm hs.cur hcurr
    simp only [] at hn ⊢
    rcases h.slots curr hc8 with hf | hf
    · have h2 : ((s.rp curr).page.function == FN_LOP) = true := by rw [hf]; rfl
      have h1 : ((s.rp curr).page.function == FN_DISCARD || (s.rp curr).page.function == FN_EPG) = false := by
        rw [hf]; rfl
      rw [h1, h2] at hn ⊢
      simp only [Bool.false_eq_true, if_false, if_true] at hn ⊢
      have hk := lopParityCheck_keys (s.rp curr).page (s.rp curr)
      generalize lopParityCheck (s.rp curr).page (s.rp curr) = LP at hk hn ⊢
      obtain ⟨cv, rv⟩ := LP
      simp only [] at hk hn ⊢
      rw [setPage_net]
      have := storeLop_find (s.setRp curr { rv with page := cv }) cv f h.net hn
        (by rw [hk.1, hk.2.1]; exact hput curr hcurr hf)
      rw [this]; rfl
    · have h1 : ((s.rp curr).page.function == FN_DISCARD || (s.rp curr).page.function == FN_EPG) = true := by
        rw [hf]; rfl
      rw [h1]
      simp only [if_true]
      rfl

/-- `f` is true only on pages of magazine `m` -/
def OfMag (m : Nat) (f : Page → Bool) : Prop :=
  ∀ x, f x = true → ∃ page, page < 256 ∧ x.pgno = mag8Of m * 256 + page

theorem ofMag_keyMatch (m page key mask : Nat) (hp : page < 256) : OfMag m (keyMatch (mag8Of m * 256 + page) key mask) :=
  fun _ hx => ⟨page, hp, (keyMatch_true hx).1⟩

theorem find?_congr_false (f g : Page → Bool) (l : List Page) (h : ∀ x ∈ l, f x = g x) : l.find? f = l.find? g := by
  induction l with
  | nil => rfl
  | cons y ys ih =>
    rw [List.find?_cons, List.find?_cons, h y List.mem_cons_self, ih (fun x hx => h x (List.mem_cons_of_mem _ hx))]

/-- a store of a page of magazine `m'` keeps `find? f` for `f` of magazine `m ≠ m'` -/
theorem putKeeps_ofMag (m m' : Nat) (hm : m < 8) (hm' : m' < 8) (hne : m' ≠ m) (f : Page → Bool) (hf : OfMag m f)
    (pgno subno page' : Nat) (hp : page' < 256) (hpg : pgno = mag8Of m' * 256 + page') : PutKeeps f pgno subno := by
  intro c pt p c' hpp _ _ hc
  have hfalse : ∀ x : Page, x.pgno = p.pgno → f x = false := by
    intro x hx
    cases hfx : f x with
    | false => rfl
    | true =>
      exfalso
      obtain ⟨pg, h1, h2⟩ := hf x hfx
      rw [hx, hpp, hpg] at h2
      exact pgno_ne m m' pg page' hm hm' hne h1 hp h2
  cases hkk : putKey pt p.pgno p.subno with
  | mk key mask =>
    exact cachePutF_find_gen _ c pt p f key mask hkk (hfalse _ (truncate_pgno p)) (fun old _ ho _ => hfalse old ho)
      (fun _ _ x hx => hfalse x hx) c' hc

/-- a look-up of another magazine's page number keeps `find? f` -/
theorem lookupPrev_find_gen (n : Net) (pgnoQ sp fl : Nat) (f : Page → Bool) (hf : ∀ x : Page, x.pgno = pgnoQ → f x = false) :
    (lookupPrev n pgnoQ sp fl).2.1.cache.find? f = n.cache.find? f := by
  unfold lookupPrev
  split
  · unfold Net.get
    cases hg : cacheGet n.cache pgnoQ (sp &&& 0x3F7F) 0xFFFFFFFF with
    | none => rfl
    | some r =>
      obtain ⟨q', c2⟩ := r
      show c2.find? f = _
      unfold cacheGet at hg
      split at hg
      · cases hg
      · rw [cacheFind_eq] at hg
        cases hfo : n.cache.find? (keyMatch pgnoQ (sp &&& 0x3F7F) (if (sp &&& 0x3F7F == ANY_SUBNO) = true then 0 else 0xFFFFFFFF)) with
        | none => rw [hfo] at hg; cases hg
        | some q =>
          rw [hfo] at hg
          simp only [Option.some.injEq, Prod.mk.injEq] at hg
          obtain ⟨rfl, rfl⟩ := hg
          exact find?_moveFront f q (hf q (keyMatch_true (List.find?_some hfo)).1) n.cache
  · rfl

end Zvbi.Ttx
