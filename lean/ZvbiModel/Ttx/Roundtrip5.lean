import ZvbiModel.Ttx.Roundtrip4
/-!
# Lemmas for C02 `page_roundtrip`, part 5: (i) an accepted header of a decimal page through
`vbi_decode_teletext`

`decode_header_text`: `processHeader` on a header all of whose Hamming bytes decode = `terminatePage`
(whatever page was in progress is closed: state `s1`), then slot `m` holds a text page set up from
the cached copy found by `lookupPrev s1.net` (header row replaced) or from blanks (`Opened`).
-/
namespace Zvbi.Ttx
open Zvbi.Hamm Zvbi.Gen Zvbi.Ttx.Spec

theorem setRp_net (s : St) (m : Nat) (x : RawPage) : (s.setRp m x).net = s.net := rfl
theorem setPage_net (s : St) (m : Nat) (x : Page) : (s.setPage m x).net = s.net := rfl

/-- the state right after an accepted header opened a text page in slot `m`; `s1` = the state after
    the header terminated the page in progress -/
structure Opened (s' s1 : St) (m pgno subpage fl : Nat) (row : List Nat) : Prop where
  len : s'.raw.length = 8
  mask : s'.mask = s1.mask
  cd : s'.chswcd = s1.chswcd
  cur : s'.current = some m
  header : s'.header = s1.header ∧ s'.hdrPgno = s1.hdrPgno
  net : s'.net = (lookupPrev s1.net pgno subpage fl).2.1
  fn : (s'.rp m).page.function = FN_LOP
  pg : (s'.rp m).page.pgno = pgno
  sub : (s'.rp m).page.subno = subpage &&& 0x3F7F
  nat : (s'.rp m).page.national = rev8 fl &&& 7
  flags : (s'.rp m).page.flags = (match (lookupPrev s1.net pgno subpage fl).1 with
      | some _ => (fl <<< 16) + subpage
      | none => ((fl <<< 16) + subpage) ||| C4_ERASE_PAGE)
  raw : (s'.rp m).page.raw = (match (lookupPrev s1.net pgno subpage fl).1 with
      | some q => q.raw.set 0 row
      | none => row :: List.replicate 25 blankRow)
  lp : (s'.rp m).lopPackets = 0
  lr : (s'.rp m).lopRaw = (s1.rp m).lopRaw
  other : ∀ m', m' ≠ m → s'.rp m' = s1.rp m'

/-- the state an accepted header leaves: slot `m` holds the page `h.1` built by `headerPage` -/
def openedSt (s1 : St) (m : Nat) (cv : Page) (h : Page × Net × List Aux × Bool) : St :=
  ({ ({ s1.setPage m cv with current := some m } : St) with net := h.2.1 }).setRp m
    { ({ s1.setPage m cv with current := some m } : St).rp m with
      page := { h.1 with ext := { h.1.ext with designations := 0 } }, lopPackets := 0, numTriplets := 0 }

def openedRp (s1 : St) (m : Nat) (h : Page × Net × List Aux × Bool) : RawPage :=
  { page := { h.1 with ext := { h.1.ext with designations := 0 } }, lopRaw := (s1.rp m).lopRaw,
    lopPackets := 0, numTriplets := 0 }

theorem openedSt_rp (s1 : St) (m : Nat) (cv : Page) (h : Page × Net × List Aux × Bool) (hl : m < s1.raw.length) :
    (openedSt s1 m cv h).rp m = openedRp s1 m h := by
  unfold openedSt
  rw [rp_setRp_same _ m _ (by show m < (s1.setPage m cv).raw.length; rw [setPage_length]; exact hl)]
  have hx : ({ s1.setPage m cv with current := some m } : St).rp m = { s1.rp m with page := cv } :=
    rp_setPage_same s1 m cv hl
  rw [hx]
  rfl

theorem openedSt_rp_other (s1 : St) (m m' : Nat) (cv : Page) (h : Page × Net × List Aux × Bool) (hne : m' ≠ m) :
    (openedSt s1 m cv h).rp m' = s1.rp m' := by
  unfold openedSt
  rw [rp_setRp_other _ m m' _ hne]
  have : ({ ({ s1.setPage m cv with current := some m } : St) with net := h.2.1 } : St).rp m' = (s1.setPage m cv).rp m' := rfl
  rw [this, rp_setPage_other s1 m m' cv hne]

theorem openedSt_fields (s1 : St) (m : Nat) (cv : Page) (h : Page × Net × List Aux × Bool) :
    (openedSt s1 m cv h).raw.length = s1.raw.length ∧ (openedSt s1 m cv h).mask = s1.mask
    ∧ (openedSt s1 m cv h).chswcd = s1.chswcd ∧ (openedSt s1 m cv h).current = some m
    ∧ (openedSt s1 m cv h).header = s1.header ∧ (openedSt s1 m cv h).hdrPgno = s1.hdrPgno
    ∧ (openedSt s1 m cv h).net = h.2.1 := by
  refine ⟨?_, rfl, rfl, rfl, rfl, rfl, rfl⟩
  unfold openedSt
  rw [setRp_length]
  show (s1.setPage m cv).raw.length = _
  rw [setPage_length]

def patchedRp (x : RawPage) (h8 : List Nat) : RawPage :=
  { x with page := { x.page with raw := x.page.raw.set 0 (h8 ++ (x.page.raw.getD 0 zeroRow).drop 8) } }

theorem patchHdr8_fields (s : St) (m : Nat) (h8 : List Nat) :
    (patchHdr8 s m h8).raw.length = s.raw.length ∧ (patchHdr8 s m h8).mask = s.mask
    ∧ (patchHdr8 s m h8).chswcd = s.chswcd ∧ (patchHdr8 s m h8).current = s.current
    ∧ (patchHdr8 s m h8).header = s.header ∧ (patchHdr8 s m h8).hdrPgno = s.hdrPgno
    ∧ (patchHdr8 s m h8).net = s.net := by
  refine ⟨?_, rfl, rfl, rfl, rfl, rfl, rfl⟩
  unfold patchHdr8
  rw [setPage_length]

theorem processHeader_accept (s : St) (m mag8 : Nat) (v : View) (page : Nat) (hpg : v.g16 0 = some page)
    (hrej : hdrRejected page (v.g16i 2) (v.g16i 4) (v.g16i 6) = false) (s1 : St) (ev1 : List Event)
    (ht : terminatePage s m (mag8 * 256 + page) page = (s1, ev1)) :
    processHeader s m mag8 v =
      (⟨openedSt s1 m { (s1.rp m).page with pgno := mag8 * 256 + page }
          (headerPage s1.net { (s1.rp m).page with pgno := mag8 * 256 + page } page
            (v.g16i 2 + v.g16i 4 * 256).toNat (v.g16i 6).toNat (zeroRow.take 8 ++ v.raw.drop 8)),
        ev1 ++ liftAux (headerPage s1.net { (s1.rp m).page with pgno := mag8 * 256 + page } page
            (v.g16i 2 + v.g16i 4 * 256).toNat (v.g16i 6).toNat (zeroRow.take 8 ++ v.raw.drop 8)).2.2.1, true⟩,
       (headerPage s1.net { (s1.rp m).page with pgno := mag8 * 256 + page } page
            (v.g16i 2 + v.g16i 4 * 256).toNat (v.g16i 6).toNat (zeroRow.take 8 ++ v.raw.drop 8)).2.2.2) := by
  unfold processHeader
  rw [hpg]
  simp only [ht, hrej]
  rfl

theorem decode_header_text (s : St) (p : Packet) (m page s12 s34 fl : Nat) (hp : IsHeader p m page s12 s34 fl)
    (hdec : decimalPage page) (hmask : s.mask = true)
    (s1 : St) (ev1 : List Event)
    (ht : terminatePage s m (mag8Of m * 256 + page) page = (s1, ev1)) (hlen1 : s1.raw.length = 8)
    (htext : TextPage s1.net (mag8Of m * 256 + page) page (lookupPrev s1.net (mag8Of m * 256 + page) (s12 + s34 * 256) fl).1) :
    Opened (decodeTeletext s p).st s1 m (mag8Of m * 256 + page) (s12 + s34 * 256) fl (payload p)
    ∧ ttxPages (decodeTeletext s p).ev = ttxPages ev1
    ∧ (Event.chsw ∈ (decodeTeletext s p).ev ↔ Event.chsw ∈ ev1) := by
  have hm := hp.mag
  have hne : page ≠ 0xFF := by have := hdec.1; omega
  have hrej : hdrRejected page ((view Kind.hdr p).g16i 2) ((view Kind.hdr p).g16i 4) ((view Kind.hdr p).g16i 6) = false := by
    rw [hdr_g16i p 2 s12 (by omega) hp.s12, hdr_g16i p 4 s34 (by omega) hp.s34, hdr_g16i p 6 fl (by omega) hp.fl]
    exact hdrRejected_ok page s12 s34 fl hne
  rw [decode_header s p m page s12 s34 fl hp hmask,
    processHeader_accept s m (mag8Of m) _ page (by rw [view_hdr_g16 p 0 (by omega)]; exact hp.page) hrej s1 ev1 ht]
  rw [hdr_g16i p 2 s12 (by omega) hp.s12, hdr_g16i p 4 s34 (by omega) hp.s34, hdr_g16i p 6 fl (by omega) hp.fl]
  have e1 : ((s12 : Int) + (s34 : Int) * 256).toNat = s12 + s34 * 256 := by omega
  have e2 : (fl : Int).toNat = fl := by omega
  rw [e1, e2]
  have H := headerPage_text s1.net { (s1.rp m).page with pgno := mag8Of m * 256 + page } (mag8Of m) page
    (s12 + s34 * 256) fl (zeroRow.take 8 ++ (view Kind.hdr p).raw.drop 8) rfl hdec
    (by rw [headerLookup_eq]; exact htext)
  rw [headerLookup_eq] at H
  generalize headerPage s1.net { (s1.rp m).page with pgno := mag8Of m * 256 + page } page
    (s12 + s34 * 256) fl (zeroRow.take 8 ++ (view Kind.hdr p).raw.drop 8) = h at H ⊢
  obtain ⟨H1, H2, H3, H4, H5, H6, H7, H8⟩ := H
  unfold finish
  simp only [H7, if_true]
  simp only [] at H2 H5 H6 H8
  obtain ⟨f1, f2, f3, f4, f5, f6, f7⟩ := openedSt_fields s1 m { (s1.rp m).page with pgno := mag8Of m * 256 + page } h
  generalize hO : openedSt s1 m { (s1.rp m).page with pgno := mag8Of m * 256 + page } h = O at *
  obtain ⟨g1, g2, g3, g4, g5, g6, g7⟩ := patchHdr8_fields O m (hdr8 p)
  have hlO : m < O.raw.length := by rw [f1, hlen1]; exact hm
  have hrpO : O.rp m = openedRp s1 m h := by
    rw [← hO]; exact openedSt_rp s1 m _ h (by rw [hlen1]; exact hm)
  have hrp : (patchHdr8 O m (hdr8 p)).rp m = patchedRp (O.rp m) (hdr8 p) := by
    unfold patchHdr8
    exact rp_setPage_same O m _ hlO
  refine ⟨⟨by rw [g1, f1, hlen1], by rw [g2, f2], by rw [g3, f3], by rw [g4, f4], ⟨by rw [g5, f5], by rw [g6, f6]⟩,
    by rw [g7, f7, H8], ?_, ?_, ?_, ?_, ?_, ?_, ?_, ?_, ?_⟩, ?_, ?_⟩
  · rw [hrp, hrpO]; unfold openedRp patchedRp; exact H1
  · rw [hrp, hrpO]; unfold openedRp patchedRp; exact H2
  · rw [hrp, hrpO]; unfold openedRp patchedRp; exact H3
  · rw [hrp, hrpO]; unfold openedRp patchedRp; exact H4
  · rw [hrp, hrpO]; unfold openedRp patchedRp; exact H5
  · rw [hrp, hrpO]; unfold openedRp patchedRp
    simp only [H6]
    cases (lookupPrev s1.net (mag8Of m * 256 + page) (s12 + s34 * 256) fl).1 with
    | some q => simp only []; rw [patch_raw, hdr_row]
    | none =>
      simp only []
      simp only [List.set_cons_zero, List.getD_cons_zero]
      have : (List.take 8 zeroRow ++ List.drop 8 (view Kind.hdr p).raw).drop 8 = List.drop 8 (view Kind.hdr p).raw := by
        rw [List.drop_append]; simp [zeroRow]
      rw [this, hdr_row]
  · rw [hrp, hrpO]; rfl
  · rw [hrp, hrpO]; rfl
  · intro m' hne
    unfold patchHdr8
    rw [rp_setPage_other O m m' _ hne, ← hO]
    exact openedSt_rp_other s1 m m' _ h hne
  · rw [ttxPages_append, ttxPages_liftAux, List.append_nil]
  · rw [List.mem_append]
    constructor
    · rintro (h1 | h1)
      · exact h1
      · exact absurd h1 (chsw_not_mem_liftAux _)
    · exact Or.inl

end Zvbi.Ttx
