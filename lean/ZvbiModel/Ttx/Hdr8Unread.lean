import ZvbiModel.Ttx.Lemmas8
/-!
# `raw[0][0..7]` - the verbatim copy of the 8 Hamming bytes of a header - is not read by `store_lop`

`memcpy (raw[0], p, 40)` stores the header's 8 Hamming protected bytes as received.  The readers of
`raw[0]` in the decoder are `same_header` (columns 8..33), `same_clock` (columns 32..39 as intended;
columns 0..7 as written, finding F24 - compared with `vt.header[0..7]`, which is never written and
stays 0, a byte of even parity, so the comparison never fires) and the header copy (columns 8..39).
-/
namespace Zvbi.Ttx
open Zvbi.Hamm Zvbi.Gen

/-- two rows that agree from column 8 on -/
def Tail8Eq (a b : List Nat) : Prop := ∀ i, 8 ≤ i → a.getD i 0 = b.getD i 0

theorem sameHeader_go_congr (cur cur' ref ref' : List Nat) (hc : Tail8Eq cur cur') (hr : Tail8Eq ref ref')
    (b0 b1 b2 : Nat) : ∀ fuel i j err neq, 8 ≤ i →
    sameHeader.go cur ref b0 b1 b2 fuel i j err neq = sameHeader.go cur' ref' b0 b1 b2 fuel i j err neq := by
  intro fuel
  induction fuel with
  | zero => intro i j err neq _; rfl
  | succ n ih =>
    intro i j err neq hi
    unfold sameHeader.go
    rw [hc i hi, hc (i + 1) (by omega), hc (i + 2) (by omega), hr i hi]
    split
    · rfl
    · split
      · exact ih _ _ _ _ (by omega)
      · exact ih _ _ _ _ (by omega)

theorem sameHeader_congr (pg : Nat) (cur cur' ref ref' : List Nat) (hc : Tail8Eq cur cur') (hr : Tail8Eq ref ref') :
    sameHeader pg cur ref = sameHeader pg cur' ref' := by
  unfold sameHeader
  simp only []
  rw [sameHeader_go_congr cur cur' ref ref' hc hr _ _ _ 32 8 29 false false (Nat.le_refl 8)]

/-- the reference header's first 8 bytes never have odd parity (`vt.header[0..7]` is never written: 0) -/
def RefHdrQuiet (ref : List Nat) : Prop := ∀ i, i < 8 → oddPar (ref.getD i 0) = false

theorem sameClock_congr (cur cur' ref : List Nat) (hc : Tail8Eq cur cur') (hq : RefHdrQuiet ref) :
    sameClock cur ref = sameClock cur' ref := by
  unfold sameClock
  have gen : ∀ l : List Nat, (∀ i ∈ l, i < 8) →
      (l.all fun i =>
        let k := if ttxFixF24 then 32 + i else i
        let c := cur.getD k 0
        let r := ref.getD k 0
        !(c != r && (oddPar c && oddPar r))) =
      (l.all fun i =>
        let k := if ttxFixF24 then 32 + i else i
        let c := cur'.getD k 0
        let r := ref.getD k 0
        !(c != r && (oddPar c && oddPar r))) := by
    intro l
    induction l with
    | nil => intro _; rfl
    | cons i l ih =>
      intro hl
      have hi8 : i < 8 := hl i List.mem_cons_self
      simp only [List.all_cons]
      rw [ih (fun j hj => hl j (List.mem_cons_of_mem _ hj))]
      congr 1
      by_cases hf : ttxFixF24 = true
      · simp only [hf, if_true]
        rw [hc (32 + i) (by omega)]
      · have hf' : ttxFixF24 = false := by simpa using hf
        simp only [hf', Bool.false_eq_true, if_false]
        rw [hq i hi8]
        simp
  exact gen (List.range 8) (fun i hi => by simpa using hi)

/-- the page with other bytes `h8` in `raw[0][0..7]` (what `patchHdr8` writes) -/
def withHdr8 (vtp : Page) (h8 : List Nat) : Page :=
  { vtp with raw := vtp.raw.set 0 (h8 ++ (vtp.raw.getD 0 zeroRow).drop 8) }

theorem getD_patch8 (h8 l : List Nat) (hl : h8.length = 8) (i : Nat) (hi : 8 ≤ i) :
    (h8 ++ l.drop 8).getD i 0 = l.getD i 0 := by
  simp only [List.getD_eq_getElem?_getD]
  rw [List.getElem?_append_right (by omega), hl, List.getElem?_drop]
  congr 2
  omega

theorem withHdr8_row0 (vtp : Page) (h8 : List Nat) (hne : vtp.raw ≠ []) :
    (withHdr8 vtp h8).raw.getD 0 zeroRow = h8 ++ (vtp.raw.getD 0 zeroRow).drop 8 := by
  unfold withHdr8
  cases hr : vtp.raw with
  | nil => exact absurd hr hne
  | cons a l => simp

theorem withHdr8_tail (vtp : Page) (h8 : List Nat) (hl : h8.length = 8) (hne : vtp.raw ≠ []) :
    Tail8Eq ((withHdr8 vtp h8).raw.getD 0 zeroRow) (vtp.raw.getD 0 zeroRow) := by
  intro i hi
  rw [withHdr8_row0 vtp h8 hne]
  exact getD_patch8 h8 _ hl i hi

theorem hdrVerdict_withHdr8 (s : St) (vtp : Page) (h8 : List Nat) (hl : h8.length = 8) (hne : vtp.raw ≠ [])
    (hq : RefHdrQuiet s.header) : hdrVerdict s (withHdr8 vtp h8) = hdrVerdict s vtp := by
  have ht := withHdr8_tail vtp h8 hl hne
  have hself : Tail8Eq s.header s.header := fun _ _ => rfl
  unfold hdrVerdict
  have e1 : (withHdr8 vtp h8).flags = vtp.flags := rfl
  have e2 : (withHdr8 vtp h8).pgno = vtp.pgno := rfl
  simp only [e1, e2]
  rw [sameHeader_congr vtp.pgno _ _ _ _ ht ht, sameHeader_congr vtp.pgno _ _ s.header s.header ht hself,
    sameClock_congr _ _ s.header ht hq]

end Zvbi.Ttx
