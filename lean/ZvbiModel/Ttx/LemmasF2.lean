import ZvbiModel.Ttx.LemmasF1
/-!
# Fault freedom, part 2: MOT, POP, AIT, X/26, bit stream reader
-/
namespace Zvbi.Ttx
open Zvbi.Hamm Zvbi.Gen Zvbi.Ttx.Spec

/-! ## MOT -/

/-- **mot_indices_in_range**: every index of the `pop_lut[]` / `drcs_lut[]` loops of `parse_mot`
    lies inside the look-up arrays (256 entries), for every packet number -/
theorem mot_indices_in_range (packet : Nat) : ∀ it, it ∈ motItems packet → it.2 < ttxLutSize := by
  by_cases h : packet < 15
  · have : ∀ packet < 15, ∀ it ∈ motItems packet, it.2 < ttxLutSize := by decide +kernel
    exact this packet h
  · intro it hit
    have : motItems packet = [] := by
      unfold motItems
      have h1 : (decide (1 ≤ packet) && decide (packet ≤ 8)) = false := by simp; omega
      have h2 : (decide (9 ≤ packet) && decide (packet ≤ 14)) = false := by simp; omega
      simp [h1, h2]
    rw [this] at hit; cases hit

theorem setLut_nofault (l : List Int) (extent idx : Nat) (val : Int) (site : String) (h : idx < extent) :
    (setLut l extent idx val site).2 = [] := by
  unfold setLut; rw [if_pos h]

theorem motLutStep_nofault (v : View) (m : Magazine) (ev : List Aux) (it : Nat × Nat)
    (hi : it.2 < ttxLutSize) (hev : NoFault ev) : NoFault (motLutStep v (m, ev) it).2 := by
  unfold motLutStep
  split
  · simp only []
    rw [setLut_nofault _ _ _ _ _ hi, setLut_nofault _ _ _ _ _ hi]
    simpa using hev
  · exact hev

theorem motPopLinkStep_nofault (v : View) (pk : Nat) (m : Magazine) (ev : List Aux) (i : Nat)
    (hpk : pk ≤ 22) (hi : i < 4) (hev : NoFault ev) : NoFault (motPopLinkStep v pk (m, ev) i).2 := by
  unfold motPopLinkStep
  simp only []
  split
  · exact hev
  · have : (pk - 19) * 4 + i < ttxPopLinks := by
      have : ttxPopLinks = 16 := by decide
      omega
    rw [if_pos this]
    exact hev

theorem motDrcsLinkStep_nofault (v : View) (packet : Nat) (m : Magazine) (ev : List Aux) (i : Nat)
    (hi : i < 8) (hev : NoFault ev) : NoFault (motDrcsLinkStep v packet (m, ev) i).2 := by
  unfold motDrcsLinkStep
  simp only []
  split
  · exact hev
  · have : (if (packet == 21) = true then 0 else 8) + i < ttxDrcsLinks := by
      have : ttxDrcsLinks = 16 := by decide
      split <;> omega
    rw [setLut_nofault _ _ _ _ _ this]
    simpa using hev

theorem parseMot_nofault (m : Magazine) (v : View) (packet : Nat) : NoFault (parseMot m v packet).2 := by
  unfold parseMot
  split
  · exact (fold_nofault (motLutStep v) (fun it => it.2 < ttxLutSize) (fun _ => True)
      (fun a ev b _ hb hev => ⟨trivial, motLutStep_nofault v a ev b hb hev⟩)
      (motItems packet) m [] (mot_indices_in_range packet) trivial NoFault.nil).2
  · split
    · rename_i _ hp
      have hpk : (if packet ≥ 22 then packet - 1 else packet) ≤ 22 := by
        simp only [Bool.or_eq_true, beq_iff_eq] at hp
        split <;> omega
      exact (fold_nofault (motPopLinkStep v _) (fun i => i < 4) (fun _ => True)
        (fun a ev b _ hb hev => ⟨trivial, motPopLinkStep_nofault v _ a ev b hpk hb hev⟩)
        (List.range 4) m [] (fun b hb => List.mem_range.mp hb) trivial NoFault.nil).2
    · split
      · exact (fold_nofault (motDrcsLinkStep v packet) (fun i => i < 8) (fun _ => True)
          (fun a ev b _ hb hev => ⟨trivial, motDrcsLinkStep_nofault v packet a ev b hb hev⟩)
          (List.range 8) m [] (fun b hb => List.mem_range.mp hb) trivial NoFault.nil).2
      · exact NoFault.nil

/-! ## POP -/
/-- decoded nibbles of a view are nibbles -/
def ViewOk (v : View) : Prop := ∀ i x, v.g8 i = some x → x < 16

theorem unham8_lt16 (c v : Nat) (h : unham8 c = some v) : v < 16 := by
  have h' : unham8 (c % 256) = some v := by
    unfold unham8 at h ⊢; simpa [Nat.mod_mod] using h
  exact unham8_range (c % 256) (Nat.mod_lt _ (by decide)) v h'

theorem view_ok (k : Kind) (p : Packet) : ViewOk (view k p) := by
  intro i x h
  unfold View.g8 view at h
  simp only [List.getD_eq_getElem?_getD, List.getElem?_map, List.getElem?_range] at h
  by_cases hi : i < 40
  · simp [hi] at h
    obtain ⟨_, h⟩ := h
    exact unham8_lt16 _ x h
  · simp [hi] at h

theorem fold_keep_nil {β : Type} (step : List Aux → β → List Aux) (l : List β)
    (h : ∀ b, b ∈ l → step [] b = []) : l.foldl step [] = [] := by
  induction l with
  | nil => rfl
  | cons b l ih =>
    simp only [List.foldl_cons]
    rw [h b (List.mem_cons_self ..)]
    exact ih (fun x hx => h x (List.mem_cons_of_mem _ hx))

/-- **pop_pointer_index_in_range** -/
theorem pop_pointer_index_in_range (packet i : Nat) (hp : 1 ≤ packet ∧ packet ≤ 4) (hi : 1 ≤ i ∧ i ≤ 12) :
    (packet - 1) * (if ttxFixF23 then 24 else 26) + 2 * i + 1 < POP_POINTER_SIZE := by
  have h1 : ttxFixF23 = true := by decide
  have h2 : POP_POINTER_SIZE = 98 := by decide
  rw [h1, h2]; simp only [if_true]; omega

/-- **pop_triplet_index_in_range** -/
theorem pop_triplet_index_in_range (packet i : Nat) (hp : packet ≤ 41) (hi : i < 13) :
    (packet - 3) * 13 + i < POP_TRIPLET_SIZE := by
  have h2 : POP_TRIPLET_SIZE = 508 := by decide
  rw [h2]; omega

theorem popPointerFaults_nil (v : View) (pk : Nat) (h : 1 ≤ pk ∧ pk ≤ 4) :
    popPointerFaults v ((pk - 1) * (if ttxFixF23 then 24 else 26)) = [] := by
  unfold popPointerFaults
  apply fold_keep_nil
  intro k hk
  rw [List.mem_range] at hk
  split
  · rw [if_pos (by have := pop_pointer_index_in_range pk (k + 1) h ⟨by omega, by omega⟩; omega)]
  · rfl

theorem popTripletFaults_nil (v : View) (pk : Nat) (h : pk ≤ 41) : popTripletFaults v ((pk - 3) * 13) = [] := by
  unfold popTripletFaults
  apply fold_keep_nil
  intro i hi
  rw [List.mem_range] at hi
  split
  · rw [if_pos (pop_triplet_index_in_range pk i h hi)]
  · rfl

theorem parsePop_nofault (v : View) (packet : Nat) (hv : ViewOk v) (hp : packet ≤ 26) :
    NoFault (parsePop v packet).2 := by
  unfold parsePop
  cases hd : v.g8 0 with
  | none => exact NoFault.nil
  | some designation =>
    have hdl := hv 0 designation hd
    simp only []
    generalize hpk : (if (packet == 26) = true then packet + designation else packet) = pk
    have hpk41 : pk ≤ 41 := by
      rw [← hpk]; split
      · rename_i h; have : packet = 26 := by simpa using h
        omega
      · omega
    by_cases c1 : (decide (1 ≤ pk) && decide (pk ≤ 2)) = true
    · rw [if_pos c1]
      split
      · exact NoFault.nil
      · have : 1 ≤ pk ∧ pk ≤ 4 := by simp at c1; omega
        simp only []; rw [popPointerFaults_nil v pk this]; exact NoFault.nil
    rw [if_neg c1]
    by_cases c2 : (decide (3 ≤ pk) && decide (pk ≤ 4)) = true
    · rw [if_pos c2]
      split
      · have : 1 ≤ pk ∧ pk ≤ 4 := by simp at c2; omega
        simp only []; rw [popPointerFaults_nil v pk this]; exact NoFault.nil
      · simp only []; rw [popTripletFaults_nil v pk hpk41]; exact NoFault.nil
    rw [if_neg c2]
    split
    · simp only []; rw [popTripletFaults_nil v pk hpk41]; exact NoFault.nil
    · exact NoFault.nil


/-! ## AIT -/
theorem parseAitBounds_nofault (packet : Nat) : NoFault (parseAitBounds packet) := by
  unfold parseAitBounds
  split
  · exact NoFault.nil
  · rename_i h
    have : (packet - 1) * 2 + 1 < AIT_TITLES := by
      have : AIT_TITLES = 46 := by decide
      simp at h; omega
    rw [if_pos this]; exact NoFault.nil

/-! ## X/26 -/
theorem x26Step_nofault (v : View) (acc : List Triplet × Nat × List Aux × Bool) (i : Nat)
    (h : acc.2.1 < ENH_SIZE) (hev : NoFault acc.2.2.1) : NoFault (x26Step v acc i).2.2.1 := by
  obtain ⟨enh, nt, ev, brk⟩ := acc
  unfold x26Step
  simp only []
  split
  · exact hev
  · split
    · exact hev
    · first
      | exact hev
      | (split
         · exact hev
         · rename_i hn; exact absurd h hn)

theorem x26Fold_nofault (v : View) (is : List Nat) (acc : List Triplet × Nat × List Aux × Bool)
    (h : acc.2.1 + is.length ≤ ENH_SIZE) (hev : NoFault acc.2.2.1) :
    NoFault (is.foldl (x26Step v) acc).2.2.1 := by
  induction is generalizing acc with
  | nil => exact hev
  | cons i is ih =>
    simp only [List.foldl_cons, List.length_cons] at h ⊢
    have hf := x26Step_frame v acc i Triplet.zero
    exact ih (x26Step v acc i) (by omega) (x26Step_nofault v acc i (by omega) hev)

/-- **x26_enh_index_in_range**: an accepted X/26 packet (fill level `13 d < 16 * 13`) stores its
    thirteen triplets below `enh[16 * 13 + 1]` -/
theorem x26_enh_index_in_range (v : View) (enh : List Triplet) (nt : Nat) (h : nt < 16 * 13) (d : Nat)
    (hd : nt = d * 13) : NoFault (x26Triplets v enh nt).2.2 := by
  unfold x26Triplets
  simp only []
  apply x26Fold_nofault v (List.range 13) (enh, nt, [], false)
  · have : ENH_SIZE = 209 := by decide
    simp only [List.length_range]; omega
  · exact NoFault.nil

end Zvbi.Ttx
