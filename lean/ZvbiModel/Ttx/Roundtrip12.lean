import ZvbiModel.Ttx.Roundtrip11
/-!
# C02 round 4, part 12: serial mode (C11 set) - termination by a header of ANY magazine

`terminatedSlot_serial`: the page in progress carries C11 and the new header has another page number: it is the
page terminated, whatever magazine the header belongs to (commit 53b7b09: also when it carries the erase flag).
`close_text_at`: `close_text` with the terminated slot given instead of derived from parallel mode.
`cachePut_find_other`, `storeLop_find_other`: storing a page does not change what a look-up of ANOTHER page number
finds (used for "pages stored earlier stay fetchable").
-/
namespace Zvbi.Ttx
open Zvbi.Hamm Zvbi.Gen Zvbi.Ttx.Spec

theorem fl_bit4_set : ∀ fl < 256, fl &&& 0x10 = 0x10 → fl / 16 % 2 = 1 := by decide +kernel

theorem c11_set (fl sp : Nat) (hfl : fl < 256) (hsp : sp < 65536) (h : fl &&& 0x10 = 0x10) :
    ((fl <<< 16) + sp) &&& C11_MAGAZINE_SERIAL ≠ 0
    ∧ (((fl <<< 16) + sp) ||| C4_ERASE_PAGE) &&& C11_MAGAZINE_SERIAL ≠ 0 := by
  have hb := fl_bit4_set fl hfl h
  have e20 : C11_MAGAZINE_SERIAL = 1 <<< 20 := by decide
  have t1 : ((fl <<< 16) + sp).testBit 20 = true := by
    rw [Nat.testBit_eq_decide_div_mod_eq, Nat.shiftLeft_eq]
    simp only [show (2:Nat)^16 = 65536 by decide, show (2:Nat)^20 = 1048576 by decide]
    have : (fl * 65536 + sp) / 1048576 = fl / 16 := by omega
    rw [this, hb]; decide
  have t2 : (((fl <<< 16) + sp) ||| C4_ERASE_PAGE).testBit 20 = true := by
    rw [Nat.testBit_or, t1]; decide
  constructor
  · have := bit_test ((fl <<< 16) + sp) 20
    rw [t1, ← e20] at this
    simpa using this
  · have := bit_test (((fl <<< 16) + sp) ||| C4_ERASE_PAGE) 20
    rw [t2, ← e20] at this
    simpa using this

/-- serial mode: the page of the magazine that sent the last header carries C11; a header with ANOTHER page number
    (any magazine `mQ`) terminates it -/
theorem terminatedSlot_serial (s : St) (m mQ pgnoQ pageQ : Nat) (hc : s.current = some m)
    (hser : (s.rp m).page.flags &&& C11_MAGAZINE_SERIAL ≠ 0) (hdiff : (s.rp m).page.pgno ≠ pgnoQ)
    (hfix : ttxFixSerialErase = true) : terminatedSlot s mQ pgnoQ pageQ = some m := by
  unfold terminatedSlot
  rw [hc]
  simp only [hfix]
  have h1 : ((s.rp m).page.flags &&& C11_MAGAZINE_SERIAL != 0) = true := by simpa using hser
  have h2 : ((s.rp m).page.pgno == pgnoQ) = false := by simpa using hdiff
  simp [h1, h2]

/-- page termination of a text page in slot `m`, by a header of magazine `mQ` (`close_text` generalised) -/
theorem close_text_at (s : St) (m mQ pgnoQ pageQ : Nat) (hlen : m < s.raw.length) (hcd : s.chswcd = 0) (hmask : s.mask = true)
    (hts : terminatedSlot s mQ pgnoQ pageQ = some m) (hfn : (s.rp m).page.function = FN_LOP)
    (hv : validPgno (s.rp m).page.pgno)
    (L0 : List (List Nat)) (rows : List (Nat × List Nat))
    (hL : (s.rp m).lopRaw = mergeRows L0 rows) (hL0 : L0.length = 26) (hlp : (s.rp m).lopPackets = rowBits 0 rows)
    (hrows : ∀ r ∈ rows, 1 ≤ r.1 ∧ r.1 ≤ 25 ∧ GoodRow r.2)
    (hn : Event.chsw ∉ (terminatePage s mQ pgnoQ pageQ).2) :
    ∃ q rest pt, (terminatePage s mQ pgnoQ pageQ).1.net.cache = q :: rest
      ∧ Stored q (s.rp m).page rows pt
      ∧ (pt = PT_CLOCK → (s.net.getStat (s.rp m).page.pgno).pageType = PT_CLOCK)
      ∧ ttxPages (terminatePage s mQ pgnoQ pageQ).2 = [((s.rp m).page.pgno, (s.rp m).page.subno)] := by
  unfold terminatePage at hn ⊢
  rw [hts] at hn ⊢
  simp only [] at hn ⊢
  have c1 : ((s.rp m).page.function == FN_DISCARD || (s.rp m).page.function == FN_EPG) = false := by
    rw [hfn]; decide
  have c2 : ((s.rp m).page.function == FN_LOP) = true := by rw [hfn]; decide
  simp only [c1, c2, Bool.false_eq_true, if_false, if_true] at hn ⊢
  obtain ⟨m1, m2, m3, m4, m5, m6⟩ := lopParityCheck_merge (s.rp m).page (s.rp m) L0 rows hL hL0 hlp hrows
  generalize hLP : lopParityCheck (s.rp m).page (s.rp m) = LP at *
  obtain ⟨cv, rv⟩ := LP
  simp only [] at hn ⊢ m1 m2 m3 m4 m5 m6
  have hv' : validPgno cv.pgno := by rw [m3]; exact hv
  have key := storeLop_stores (s.setRp m { rv with page := cv }) cv hcd hmask hv'
  generalize storeLop (s.setRp m { rv with page := cv }) cv = SL at key hn ⊢
  obtain ⟨s2, ev2⟩ := SL
  simp only [] at key hn ⊢
  obtain ⟨_, _, _, _, ⟨q, rest, hc, hq⟩, hev⟩ := key hn
  rw [setRp_net] at hq
  refine ⟨q, rest, typeAtPut s.net cv, ?_, ?_, ?_, ?_⟩
  · rw [setPage_net]; exact hc
  · refine ⟨?_, ?_, ?_, ?_, ?_, ?_⟩
    · rw [hq.fn, m2]; exact hfn
    · rw [hq.pgno, m3]
    · intro key mask hk
      rw [← m3, ← m4] at hk
      exact hq.subno key mask hk
    · rw [hq.national, m6]
    · rw [hq.flags, m5]
    · rw [hq.raw, m1]
  · intro h
    have := typeAtPut_clock s.net cv h
    rw [m3] at this; exact this
  · rw [hev, m3, m4]

/-! ## pages stored earlier stay fetchable -/

theorem find?_filter_of_false (f g : Page → Bool) (hg : ∀ x, g x = false → f x = false) (l : List Page) :
    (l.filter g).find? f = l.find? f := by
  induction l with
  | nil => rfl
  | cons y ys ih =>
    by_cases hy : g y = true
    · rw [List.filter_cons_of_pos hy]
      simp only [List.find?_cons]
      cases f y <;> simp [ih]
    · have hy' : g y = false := by simpa using hy
      rw [List.filter_cons_of_neg hy, List.find?_cons, hg y hy']
      exact ih

/-- `_vbi_cache_put_page` (either source shape, `fix`) of a page with another page number does not change what a
    look-up of `pgno` finds: the version replaced AND - repaired shape, single-version key - the other versions removed
    all have the page number stored -/
theorem cachePutF_find_other (fix : Bool) (c : List Page) (pt : Nat) (p : Page) (pgno key mask : Nat) (hne : p.pgno ≠ pgno) :
    ∀ c', cachePutF fix c pt p = some c' → c'.find? (keyMatch pgno key mask) = c.find? (keyMatch pgno key mask) := by
  unfold cachePutF
  split
  · intro c' h; cases h
  · generalize putKey pt p.pgno p.subno = k
    obtain ⟨a, b⟩ := k
    intro c' h
    simp only [Option.some.injEq] at h
    subst h
    have hnew : keyMatch pgno key mask { p.truncate with subno := a } = false := by
      unfold keyMatch
      have : ((({ p.truncate with subno := a } : Page).pgno) == pgno) = false := by
        show (p.truncate.pgno == pgno) = false
        rw [truncate_pgno]; simpa using hne
      rw [this]; rfl
    rw [List.find?_cons, hnew]
    simp only []
    cases hf : cacheFind c p.pgno (a &&& b) b with
    | none => rfl
    | some r =>
      obtain ⟨old, c1⟩ := r
      simp only []
      rw [cacheFind_eq] at hf
      cases hfo : c.find? (keyMatch p.pgno (a &&& b) b) with
      | none => rw [hfo] at hf; cases hf
      | some o =>
        rw [hfo] at hf
        simp only [Option.some.injEq, Prod.mk.injEq] at hf
        obtain ⟨rfl, rfl⟩ := hf
        have hold : keyMatch pgno key mask o = false := by
          have := List.find?_some hfo
          unfold keyMatch at this ⊢
          simp only [Bool.and_eq_true, beq_iff_eq] at this
          have : (o.pgno == pgno) = false := by rw [this.1]; simpa using hne
          rw [this]; rfl
        rw [List.erase_cons_head]
        split
        · rw [find?_filter_of_false]
          · exact find?_erase_of_false _ o hold c
          · intro x hx
            unfold keyMatch
            have hxp : x.pgno = p.pgno := by simpa using hx
            have : (x.pgno == pgno) = false := by rw [hxp]; simpa using hne
            rw [this]; rfl
        · exact find?_erase_of_false _ o hold c

theorem cachePut_find_other (c : List Page) (pt : Nat) (p : Page) (pgno key mask : Nat) (hne : p.pgno ≠ pgno) :
    ∀ c', cachePut c pt p = some c' → c'.find? (keyMatch pgno key mask) = c.find? (keyMatch pgno key mask) :=
  cachePutF_find_other _ c pt p pgno key mask hne

/-! ## repaired shape: a store under a single-version key leaves ONE version of the page number -/

theorem filter_erase_false (g : Page → Bool) (x : Page) (hx : g x = false) (l : List Page) :
    (l.erase x).filter g = l.filter g := by
  induction l with
  | nil => rfl
  | cons y ys ih =>
    by_cases e : y = x
    · subst e
      rw [List.erase_cons_head, List.filter_cons_of_neg (by simp [hx])]
    · rw [List.erase_cons_tail (by simpa using e)]
      simp only [List.filter_cons, ih]

/-- `_vbi_cache_put_page` with fixes/C10-put-replaces-all-versions.diff, key class "one version" (`subno_mask = 0`): the
    new chain is the page stored followed by the pages of all OTHER page numbers, in their old order - whether or not a
    version was cached, however many there were -/
theorem cachePutF_single (c : List Page) (pt : Nat) (p : Page) (key : Nat) (hk : putKey pt p.pgno p.subno = (key, 0)) :
    ∀ c', cachePutF true c pt p = some c' →
      c' = ({ p.truncate with subno := key } : Page) :: c.filter (fun q => q.pgno != p.pgno) := by
  unfold cachePutF
  split
  · intro c' h; cases h
  · rw [hk]
    intro c' h
    simp only [Option.some.injEq] at h
    subst h
    congr 1
    rw [cacheFind_eq]
    cases hfo : c.find? (keyMatch p.pgno (key &&& 0) 0) with
    | none =>
      simp only []
      symm
      apply List.filter_eq_self.2
      intro q hq
      have := List.find?_eq_none.1 hfo q hq
      unfold keyMatch at this
      simp only [Nat.and_zero, beq_self_eq_true, Bool.and_true, beq_iff_eq] at this
      simpa using this
    | some o =>
      simp only [Bool.true_and, beq_self_eq_true, if_true, List.erase_cons_head]
      have ho := List.find?_some hfo
      unfold keyMatch at ho
      simp only [Bool.and_eq_true, beq_iff_eq] at ho
      exact filter_erase_false _ o (by simp [ho.1]) c

end Zvbi.Ttx
