import ZvbiModel.Ttx.CacheJoin3
import ZvbiModel.Props.C10Evict
/-!
# C03 x C10: the mirrored cache.c states are histories of the C10 line protocol (lemmas for Props/C03Refine.lean)

Every `mirrorOp` is one or more `Op`s of the cache.c model (`.get` + `.unref`; `.ptype` + `.put` + `.unref`; `.chsw`), so a
mirrored state is `runF putReplacesAllVersions init l` for an explicit `l` and every C10 theorem about reachable states
applies to it (the look-up needs the decoder's network to be on the list: `J`).
-/
namespace Zvbi.CacheJoin
open Zvbi.Cache Zvbi.Gen.Cache
open Zvbi.Props.C03Join (mirrorOp mirror)

/-- the state is reached from `vbi_cache_new` by a sequence of API calls of the current source -/
def OpRun (s : State) : Prop := ∃ l : List Op, s = runF putReplacesAllVersions init l

theorem OpRun.step {s : State} (h : OpRun s) (op : Op) : OpRun (stepF putReplacesAllVersions s op).1 := by
  obtain ⟨l, rfl⟩ := h
  exact ⟨l ++ [op], by unfold runF; rw [List.foldl_append]; rfl⟩

theorem unref_eq (fix : Bool) (s : State) (id : Nat) : (stepF fix s (.unref id)).1 = s.pageUnref id := by
  show (step s (.unref id)).1 = _
  cases hf : s.findPage id with
  | none =>
    have e : s.pageUnref id = s := by unfold State.pageUnref; rw [hf]
    rw [e]; unfold step; simp only [hf]
  | some p =>
    by_cases hr : p.ref = 0
    · have e : s.pageUnref id = s := by unfold State.pageUnref; rw [hf]; simp only [hr, if_true]
      rw [e]; unfold step; simp only [hf, hr, if_true]
    · unfold step; simp only [hf, hr, if_false]

theorem get_eq (fix : Bool) {s : State} {nid : Nat} {cn : Net} (hf : s.findNet nid = some cn) (pgno subno mask : Nat) :
    (stepF fix s (.get nid pgno subno mask)).1 = (s.getPage nid pgno subno mask).1 := by
  show (step s (.get nid pgno subno mask)).1 = _
  unfold step
  simp only [hf]

theorem put_eq (fix : Bool) (s : State) (nid : Nat) (a : PutArg) :
    (stepF fix s (.put nid a)).1 = match s.putPageF fix nid a with | .ok (s', _) => s' | .error _ => s := by
  unfold stepF
  simp only
  split <;> simp_all

/-- one mirrored decoder operation is a sequence of API calls -/
theorem mirrorOp_opRun (enc : Ttx.Page → Nat) {acc : State × Nat} {c : List Ttx.Page} (j : J enc acc c) (h : OpRun acc.1)
    (op : Ttx.CacheOp) : OpRun (mirrorOp enc acc op).1 := by
  cases op with
  | get pgno subno mask =>
    obtain ⟨cn, hf, _⟩ := j.held.find j.good.1
    have h1 := h.step (.get acc.2 pgno subno mask)
    rw [get_eq _ hf] at h1
    show OpRun (match acc.1.getPage acc.2 pgno subno mask with
      | (s, some q) => (s.pageUnref q.id, acc.2)
      | (s, none) => (s, acc.2)).1
    generalize acc.1.getPage acc.2 pgno subno mask = r at h1
    obtain ⟨s', o⟩ := r
    cases o with
    | none => exact h1
    | some q =>
      have h2 := OpRun.step h1 (.unref q.id)
      rw [unref_eq] at h2
      exact h2
  | put pt p =>
    have h0 : OpRun (stepCur acc.1 (.ptype acc.2 p.pgno pt)).1 := h.step _
    show OpRun (match (stepCur acc.1 (.ptype acc.2 p.pgno pt)).1.putPageF putReplacesAllVersions acc.2
          ⟨p.pgno, p.subno, p.function, p.x26, p.x28, enc (tstored pt p)⟩ with
      | .ok (s', some q) => (s'.pageUnref q.id, acc.2)
      | .ok (s', none) => (s', acc.2)
      | .error _ => ((stepCur acc.1 (.ptype acc.2 p.pgno pt)).1, acc.2)).1
    generalize (stepCur acc.1 (.ptype acc.2 p.pgno pt)).1 = s0 at h0
    have h1 := h0.step (.put acc.2 ⟨p.pgno, p.subno, p.function, p.x26, p.x28, enc (tstored pt p)⟩)
    rw [put_eq] at h1
    generalize s0.putPageF putReplacesAllVersions acc.2 ⟨p.pgno, p.subno, p.function, p.x26, p.x28, enc (tstored pt p)⟩ = x at h1
    cases x with
    | error e => exact h0
    | ok sr =>
      obtain ⟨s', r⟩ := sr
      cases r with
      | none => exact h1
      | some q =>
        have h2 := OpRun.step h1 (.unref q.id)
        rw [unref_eq] at h2
        exact h2
  | clear =>
    have h1 : OpRun (stepCur acc.1 (.chsw acc.2)).1 := h.step _
    show OpRun (match stepCur acc.1 (.chsw acc.2) with
      | (s, .net nid') => (s, nid')
      | (s, _) => (s, acc.2)).1
    generalize stepCur acc.1 (.chsw acc.2) = r at h1
    obtain ⟨S, o⟩ := r
    cases o <;> exact h1

/-- the joint invariant and `OpRun` along a whole trace -/
theorem J_trace_run (enc : Ttx.Page → Nat) (ops : List Ttx.CacheOp) :
    ∀ (acc : State × Nat) (c : List Ttx.Page), J enc acc c → OpRun acc.1 →
      (∀ pt p, Ttx.CacheOp.put pt p ∈ ops → pt < 256 ∧ 0x100 ≤ p.pgno ∧ p.pgno ≤ 0x8FF) →
      MemNeverShort enc acc ops →
      OpRun (ops.foldl (mirrorOp enc) acc).1 := by
  induction ops with
  | nil => intro acc c _ h _ _; exact h
  | cons op rest ih =>
    intro acc c j h hp hok
    have hp' : ∀ pt p, Ttx.CacheOp.put pt p ∈ rest → pt < 256 ∧ 0x100 ≤ p.pgno ∧ p.pgno ≤ 0x8FF :=
      fun pt p h => hp pt p (List.mem_cons_of_mem _ h)
    have hr := mirrorOp_opRun enc j h op
    rw [List.foldl_cons]
    cases op with
    | get pgno subno mask => exact ih _ _ (step_get enc j pgno subno mask) hr hp' hok
    | put pt p =>
      obtain ⟨h1, h2⟩ := hp pt p List.mem_cons_self
      exact ih _ _ (step_put enc j pt p (storeOk_of_room enc j pt p h1 h2 hok.1)) hr hp' hok.2
    | clear => exact ih _ _ (step_clear enc j) hr hp' hok

theorem opRun_init : OpRun init.addNetwork.1 := ⟨[.addNet], rfl⟩

end Zvbi.CacheJoin
