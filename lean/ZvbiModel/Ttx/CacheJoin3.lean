import ZvbiModel.Ttx.CacheJoin2
import ZvbiModel.Ttx.LemmasF6
/-!
# C03 x C10: `_vbi_cache_put_page` when memory is not short (lemmas for Props/C03Refine.lean)

With room for the new page (`memory_used + cache_page_size <= memory_limit`) the call does not fail (the death row holds
at most the replaced version, the struct of the victim is not reused), every network stays on the list with its client
reference count, and the page handed out is the newly inserted non-zombie page: `CacheJoin.AfterOk` follows from `Held`.
-/
namespace Zvbi.Cache
open Zvbi.Gen.Cache

theorem refKept_of_key {s s' : State} (hk : s'.nets.map netKey = s.nets.map netKey) : RefKept s s' := by
  intro n hn
  obtain ⟨m, hm, e⟩ := net_of_key hk hn
  simp only [netKey, Prod.mk.injEq] at e
  exact ⟨m, hm, e.1, e.2.1⟩

theorem ids_of_key {l l' : List Net} (hk : l'.map netKey = l.map netKey) : l'.map (·.id) = l.map (·.id) := by
  have := congrArg (List.map (fun k : Nat × Nat × Nat × Bool => k.1)) hk
  simpa [List.map_map, Function.comp_def, netKey] using this

theorem size_pos (p : Page) : 0 < p.size := by
  have := pageSize_ge p.func p.x26 p.x28
  have h0 : 0 < hdrSize + aitSize := by decide
  unfold Page.size; omega

/-- what the part of `_vbi_cache_put_page` after the choice of the key does, seen from the state `s` -/
def AfterPut (s : State) : Except Err (State × Option Page) → Prop
  | .ok (s', some q) => RefKept s s' ∧ s'.findPage q.id = some q ∧ q.pri ≠ .zombie
  | .ok (s', none) => RefKept s s'
  | .error _ => False

theorem AfterPut.mono {s s1 : State} (k : RefKept s s1) {x : Except Err (State × Option Page)} (h : AfterPut s1 x) :
    AfterPut s x := by
  cases x with
  | error e => exact h
  | ok sr =>
    obtain ⟨s', r⟩ := sr
    cases r with
    | none => exact k.trans h
    | some q => exact ⟨k.trans h.1, h.2⟩

/-- from the label `replace:` on, no reuse of the victim's struct, at most one victim -/
theorem putReplace_after {s : State} (hnd : NidsNodup s.nets) {nid : Nat} (hn : ∃ n ∈ s.nets, n.id = nid) (a : PutArg)
    (subno : Nat) (avail : Int) (row : List Nat) (hrow : row.Nodup)
    (hc : ¬ (avail = (pageSize a.func a.x26 a.x28 : Int) ∧ row.length = 1)) :
    AfterPut s (s.putReplace nid a subno avail row) := by
  have key : ∀ S : State, RefKept s S → NidsNodup S.nets →
      AfterPut s (.ok ((S.insertNew nid a subno).1, some (S.insertNew nid a subno).2)) := by
    intro S k hndS
    obtain ⟨n0, hn0, e0⟩ := hn
    obtain ⟨n', hn', e', _⟩ := k n0 hn0
    have eid : n'.id = nid := e'.trans e0
    have he := insertNew_eq hndS hn' a subno
    rw [eid] at he
    refine ⟨k.trans (refKept_updNid (x := nid) (f := addPageNet a.pgno subno) (by rw [he]) (fun m => ⟨addPageNet_id _ _ m, addPageNet_ref _ _ m⟩)), ?_, ?_⟩
    · unfold State.findPage
      rw [insertNew_pages]
      simp
    · rw [(insertNew_page S nid a subno).2.2.2.2.2.2.2.2.2]
      exact putPri_ne_zombie _ _ _
  unfold State.putReplace
  simp only
  rw [if_neg hc, if_neg (fun hx => hx hrow)]
  have sh := foldDelete_shrinks row s
  exact key _ (refKept_of_key sh.key) (by show (List.map _ _).Nodup; rw [ids_of_key sh.key]; exact hnd)

/-- after the look-up of the version to replace, with room for the new page -/
theorem putRest_after {s : State} (hnd : NidsNodup s.nets) {nid : Nat} (hn : ∃ n ∈ s.nets, n.id = nid) (a : PutArg)
    (k1 : Nat) (old : Option Page) (avail0 : Int) (hav : avail0 ≥ (pageSize a.func a.x26 a.x28 : Int)) :
    AfterPut s (s.putRest nid a k1 old avail0) := by
  unfold State.putRest
  simp only
  rcases putVictim_cases s old avail0 with ⟨_, e⟩ | ⟨o, _, _, e⟩ | ⟨o, _, _, e⟩
  · rw [e]; simp only
    rw [collectAll_room hav]; simp only
    exact putReplace_after hnd hn a k1 avail0 [] List.nodup_nil (by simp)
  · rw [e]; simp only
    rw [collectAll_room hav]; simp only
    exact AfterPut.mono (refKept_of_nets rfl)
      (putReplace_after (s := s.updPage o.id (fun p => { p with pri := .zombie })) hnd hn a k1 avail0 [] List.nodup_nil (by simp))
  · rw [e]; simp only
    have hav' : avail0 + (o.size : Int) ≥ (pageSize a.func a.x26 a.x28 : Int) := by omega
    rw [collectAll_room hav']; simp only
    have := size_pos o
    exact putReplace_after hnd hn a k1 _ [o.id] (by simp) (by omega)

/-- `_vbi_cache_put_page`, both source shapes, memory not short: the call returns, keeps the networks and hands out a
    cached page -/
theorem putPageF_after (fix : Bool) {s : State} (h : InvW s) {nid : Nat} {cn : Net} (hf : s.findNet nid = some cn)
    (a : PutArg) (hrange : 0x100 ≤ a.pgno ∧ a.pgno ≤ 0x8FF)
    (hroom : s.memUsed + pageSize a.func a.x26 a.x28 ≤ s.memLimit) :
    AfterPut s (s.putPageF fix nid a) := by
  obtain ⟨hcn, hid⟩ := findNet_some' hf
  have hn : ∃ n ∈ s.nets, n.id = nid := ⟨cn, hcn, hid⟩
  unfold State.putPageF
  rw [hf]
  simp only
  split
  · exact RefKept.refl s
  · rw [if_neg (by omega)]
    have hav : ((s.memLimit : Int) - s.memUsed) ≥ (pageSize a.func a.x26 a.x28 : Int) := by omega
    generalize (putKey (cn.getStat a.pgno).ptype a.pgno a.subno).1 = k1
    generalize (putKey (cn.getStat a.pgno).ptype a.pgno a.subno).2 = k2
    obtain ⟨a1, a2, _, a4, a5, _⟩ := pageByPgno_all h nid a.pgno (k1 &&& k2) k2
    have hnd0 : NidsNodup (s.pageByPgno nid a.pgno (k1 &&& k2) k2).1.nets := a1.nidNodup
    have hn0 : ∃ n ∈ (s.pageByPgno nid a.pgno (k1 &&& k2) k2).1.nets, n.id = nid := by rw [a2]; exact hn
    unfold State.putTailF
    cases fix with
    | false =>
      rw [if_neg (by simp), putTail_rest]
      exact AfterPut.mono (refKept_of_nets a2) (putRest_after hnd0 hn0 a k1 _ _ hav)
    | true =>
      rw [if_pos rfl]
      unfold State.putTailR
      simp only
      generalize s.pageByPgno nid a.pgno (k1 &&& k2) k2 = r0 at a1 a2 a4 a5 hnd0 hn0
      split
      · rename_i o _
        split
        · have sh := dropOthers_shrinks r0.1 nid a.pgno o.id
          have hnd1 : NidsNodup (r0.1.dropOthers nid a.pgno o.id).nets := by
            show (List.map _ _).Nodup; rw [ids_of_key sh.key]; exact hnd0
          have k1' : RefKept r0.1 (r0.1.dropOthers nid a.pgno o.id) := refKept_of_key sh.key
          have hn1 : ∃ n ∈ (r0.1.dropOthers nid a.pgno o.id).nets, n.id = nid := by
            obtain ⟨n, hn', e⟩ := hn0
            obtain ⟨m, hm, em, _⟩ := k1' n hn'
            exact ⟨m, hm, em.trans e⟩
          have m1 := sh.mem
          have m2 := sh.limit
          exact AfterPut.mono ((refKept_of_nets a2).trans k1')
            (putRest_after hnd1 hn1 a k1 _ _ (by rw [m2, a5]; rw [a4] at m1; omega))
        · exact AfterPut.mono (refKept_of_nets a2) (putRest_after hnd0 hn0 a k1 _ _ hav)
      · exact AfterPut.mono (refKept_of_nets a2) (putRest_after hnd0 hn0 a k1 _ _ hav)

end Zvbi.Cache

namespace Zvbi.CacheJoin
open Zvbi.Cache Zvbi.Gen.Cache
open Zvbi.Props.C03Join (mirrorOp mirror)

/-- every page number the decoder computes from an accepted header (`mag8 * 256 + page`) is in 0x100..0x8FF -/
theorem hdrKey_range {pk : Ttx.Packet} {m pgno subno : Nat} (h : Ttx.Spec.hdrKey pk = some (m, pgno, subno)) :
    0x100 ≤ pgno ∧ pgno ≤ 0x8FF := by
  unfold Ttx.Spec.hdrKey at h
  split at h
  · cases h
  · rename_i pmag _
    split at h
    · cases h
    · simp only at h
      split at h
      · cases h
      · rename_i page hp
        split at h
        · cases h
        · simp only [Option.some.injEq, Prod.mk.injEq] at h
          obtain ⟨_, rfl, _⟩ := h
          have := Ttx.viewOk_g16 _ (Ttx.view_ok Ttx.Kind.hdr pk) 0 page hp
          have hm : pmag &&& 7 ≤ 7 := Nat.and_le_right
          by_cases h0 : pmag &&& 7 = 0
          · simp [h0]; omega
          · simp [h0]; omega

/-- MEMORY NEVER SHORT along the trace `ops` mirrored from the state `acc` on: at every store `_vbi_cache_put_page (p)`
    the cache.c state in which it happens has room for the page, `memory_used + cache_page_size (p) <= memory_limit` -/
def MemNeverShort (enc : Ttx.Page → Nat) : State × Nat → List Ttx.CacheOp → Prop
  | _, [] => True
  | acc, .put pt p :: rest =>
    acc.1.memUsed + pageSize p.function p.x26 p.x28 ≤ acc.1.memLimit ∧ MemNeverShort enc (mirrorOp enc acc (.put pt p)) rest
  | acc, .get pgno subno mask :: rest => MemNeverShort enc (mirrorOp enc acc (.get pgno subno mask)) rest
  | acc, .clear :: rest => MemNeverShort enc (mirrorOp enc acc .clear) rest

instance decMemNeverShort (enc : Ttx.Page → Nat) :
    (acc : State × Nat) → (ops : List Ttx.CacheOp) → Decidable (MemNeverShort enc acc ops)
  | _, [] => isTrue trivial
  | acc, .put pt p :: rest =>
    have := decMemNeverShort enc (mirrorOp enc acc (.put pt p)) rest
    inferInstanceAs (Decidable (acc.1.memUsed + pageSize p.function p.x26 p.x28 ≤ acc.1.memLimit
      ∧ MemNeverShort enc (mirrorOp enc acc (.put pt p)) rest))
  | acc, .get pgno subno mask :: rest => decMemNeverShort enc (mirrorOp enc acc (.get pgno subno mask)) rest
  | acc, .clear :: rest => decMemNeverShort enc (mirrorOp enc acc .clear) rest

/-- in a state of the joint invariant a store of a `uint8_t` page type and a page number in range, with room for the page,
    meets all of `StoreOk` -/
theorem storeOk_of_room (enc : Ttx.Page → Nat) {acc : State × Nat} {c : List Ttx.Page} (j : J enc acc c) (pt : Nat) (p : Ttx.Page)
    (hpt : pt < 256) (hrange : 0x100 ≤ p.pgno ∧ p.pgno ≤ 0x8FF)
    (hroom : acc.1.memUsed + pageSize p.function p.x26 p.x28 ≤ acc.1.memLimit) : StoreOk enc acc pt p := by
  refine ⟨hpt, hrange, hroom, ?_⟩
  obtain ⟨cn, hf, _⟩ := j.held.find j.good.1
  obtain ⟨_, a2, a3, a4, cn0, hf0, _⟩ := ptype_step j.good hf p.pgno pt hrange
  have g0 : Good (stepCur acc.1 (.ptype acc.2 p.pgno pt)).1 := good_stepF _ j.good _
  have hh0 : Held (stepCur acc.1 (.ptype acc.2 p.pgno pt)).1 acc.2 := j.held.of_kept a4
  have := putPageF_after putReplacesAllVersions g0.1 hf0
    ⟨p.pgno, p.subno, p.function, p.x26, p.x28, enc (tstored pt p)⟩ hrange (by rw [a2, a3]; exact hroom)
  generalize (stepCur acc.1 (.ptype acc.2 p.pgno pt)).1 = s0 at hh0 this ⊢
  generalize s0.putPageF putReplacesAllVersions acc.2 ⟨p.pgno, p.subno, p.function, p.x26, p.x28, enc (tstored pt p)⟩ = x at this ⊢
  cases x with
  | error e => exact this
  | ok sr =>
    obtain ⟨s', r⟩ := sr
    cases r with
    | none => exact hh0.of_kept this
    | some q => exact ⟨hh0.of_kept this.1, this.2⟩

/-- the joint invariant along a whole trace: page types `uint8_t`, page numbers in range, memory never short -/
theorem J_trace_room (enc : Ttx.Page → Nat) (ops : List Ttx.CacheOp) :
    ∀ (acc : State × Nat) (c : List Ttx.Page), J enc acc c →
      (∀ pt p, Ttx.CacheOp.put pt p ∈ ops → pt < 256 ∧ 0x100 ≤ p.pgno ∧ p.pgno ≤ 0x8FF) →
      MemNeverShort enc acc ops →
      J enc (ops.foldl (mirrorOp enc) acc) (ops.foldl Ttx.applyOp c) := by
  induction ops with
  | nil => intro acc c j _ _; exact j
  | cons op rest ih =>
    intro acc c j hp hok
    have hp' : ∀ pt p, Ttx.CacheOp.put pt p ∈ rest → pt < 256 ∧ 0x100 ≤ p.pgno ∧ p.pgno ≤ 0x8FF :=
      fun pt p h => hp pt p (List.mem_cons_of_mem _ h)
    rw [List.foldl_cons, List.foldl_cons]
    cases op with
    | get pgno subno mask => exact ih _ _ (step_get enc j pgno subno mask) hp' hok
    | put pt p =>
      obtain ⟨h1, h2⟩ := hp pt p List.mem_cons_self
      exact ih _ _ (step_put enc j pt p (storeOk_of_room enc j pt p h1 h2 hok.1)) hp' hok.2
    | clear => exact ih _ _ (step_clear enc j) hp' hok

end Zvbi.CacheJoin
