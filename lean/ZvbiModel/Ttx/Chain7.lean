import ZvbiModel.Ttx.Chain6
/-!
# C02 round 5, part 7: reading the claims of a cycle; the final header; keys of rotating subpages

* `claims_split`: the claim for the transmission at any position of the cycle.
* `Known`, `known_of_claim`: exact and wildcard look-ups return the stored page when no later transmission of the
  cycle carries the same page number.
* `header_find`: a whole header packet (refused, time-filling, or opening a decimal text page) changes what a look-up
  finds only through its termination block and the look-up of its own page number.
* `putKeeps_sub`, `getKeeps_sub`: a store / header look-up of sub-code `s1` (01..79) of the SAME page number keeps what
  the exact look-up (mask -1) of another sub-code `s2` finds: rotating subpages do not displace each other.
-/
namespace Zvbi.Ttx
open Zvbi.Hamm Zvbi.Gen Zvbi.Ttx.Spec

theorem claims_split (m : Nat) (cT : List Page) : ∀ (pre : List Seg) (s : St) (x : Seg) (post : List Seg),
    Claims m cT s (pre ++ x :: post) →
    ∃ q rest pt, Fetched q x.t (s1Of (run s (stream pre)).1 x.t) x.hdr x.rows pt ∧ pt ≠ PT_CLOCK
      ∧ (∀ f, OfMag m f → (∀ y ∈ post, Undist f y.t) → cT.find? f = (q :: rest).find? f)
      ∧ CarriesAux q ((run (run s (stream pre)).1 x.pkts).1.rp m).page := by
  intro pre
  induction pre with
  | nil =>
    intro s x post h
    simp only [List.nil_append, Claims] at h
    simpa [stream, run_nil] using h.1
  | cons p pre ih =>
    intro s x post h
    simp only [List.cons_append, Claims] at h
    rw [stream_cons, run_append]
    exact ih _ x post h.2

/-- exact and wildcard look-ups of page number `P` in chain `c` return `q` -/
def Known (c : List Page) (P : Nat) (q : Page) : Prop :=
  ∀ subno mask, subno = q.subno ∨ subno = ANY_SUBNO →
    c.find? (keyMatch P subno (if subno == ANY_SUBNO then 0 else mask)) = some q

theorem tx_pgno_ne (m page page' : Nat) (h : page ≠ page') : mag8Of m * 256 + page ≠ mag8Of m * 256 + page' := by omega

/-- a key of page number `P` is undisturbed by a transmission of another page number -/
theorem undist_other (P key mask : Nat) (t : Tx) (hne : t.pgno ≠ P) : Undist (keyMatch P key mask) t :=
  ⟨putKeeps_other P key mask t.pgno t.subno hne, getKeeps_other P key mask t.pgno t.subpage t.fl hne⟩

theorem known_of_claim (m : Nat) (cT : List Page) (x : Seg) (post : List Seg) (q : Page) (rest : List Page)
    (hx : x.t.m = m) (hpage : x.t.page < 256) (hq : q.pgno = x.t.pgno)
    (hpost : ∀ y ∈ post, y.t.m = m ∧ y.t.page ≠ x.t.page)
    (h : ∀ f, OfMag m f → (∀ y ∈ post, Undist f y.t) → cT.find? f = (q :: rest).find? f) :
    Known cT x.t.pgno q := by
  intro subno mask hs
  have hf : OfMag m (keyMatch x.t.pgno subno (if subno == ANY_SUBNO then 0 else mask)) := by
    unfold Tx.pgno; rw [hx]; exact ofMag_keyMatch m x.t.page _ _ hpage
  rw [h _ hf, ← hq]
  · exact find_head q rest subno mask hs
  · intro y hy
    obtain ⟨ym, yp⟩ := hpost y hy
    apply undist_other
    unfold Tx.pgno
    rw [ym, hx]
    exact tx_pgno_ne m _ _ yp

/-! ## the whole final header -/

/-- a header packet of magazine `m'` whose page number decodes, on a text-only decoder: what a look-up finds after the
    packet = what it finds after the packet's termination block, for every predicate that is false on the pages with the
    header's own page number -/
theorem header_find {tmpl : List Nat} {off : Nat} (s : St) (p : Packet) (m' page : Nat) (hm' : m' < 8)
    (ha : a16 p 0 = some m') (hpage : a16 p 2 = some page) (h : CInv tmpl off s) (ht : TextOnly p)
    (f : Page → Bool) (hf : ∀ x : Page, x.pgno = mag8Of m' * 256 + page → f x = false) :
    (step s p).1.net.cache.find? f
      = (terminatePage (tick s) m' (mag8Of m' * 256 + page) page).1.net.cache.find? f := by
  obtain ⟨a1, a2⟩ := addr_split m' hm' 0 (by omega)
  simp only [Nat.mul_zero, Nat.add_zero] at a1 a2
  rw [step_eq_of_shape s p h.i.shape]
  simp only []
  have hT := h.tick
  generalize tick s = s0 at hT
  have hgl := terminatePage_glob s0 m' (mag8Of m' * 256 + page) page
  have hTt := terminatePage_tinv s0 m' (mag8Of m' * 256 + page) page hm' hT.i.shape hT.t
  cases hrej : hdrRejected page ((view Kind.hdr p).g16i 2) ((view Kind.hdr p).g16i 4) ((view Kind.hdr p).g16i 6) with
  | true =>
    rw [decode_hdr_rejected s0 p m' page ha a2 hT.i.mask hpage hrej]
    simp only [a1]
    rw [show (if (m' == 0) = true then 8 else m') = mag8Of m' from rfl, hdrAbandon_net]
  | false =>
    have hne' := hdrRejected_page hrej
    have hdec : decimalPage page := by
      rcases ht m' page ha a2 hpage with d | d
      · exact d
      · exact absurd d hne'
    obtain ⟨s12, s34, fl, e1, e2, e3, _, _⟩ := hdrRejected_fields p page hrej rfl
    have hp' : IsHeader p m' page s12 s34 fl := ⟨hm', ha, hpage, e1, e2, e3⟩
    obtain ⟨ho, _, _⟩ := decode_header_text s0 p m' page s12 s34 fl hp' hdec hT.i.mask
      (terminatePage s0 m' (mag8Of m' * 256 + page) page).1
      (terminatePage s0 m' (mag8Of m' * 256 + page) page).2 rfl (by rw [hgl.len]; exact hT.i.shape.len)
      (hTt.net.textPage _ _ _ _ hdec)
    rw [ho.net, lookupPrev_find_gen _ _ _ _ f hf]

/-! ## rotating subpages: sub-codes 01..79 of one page number -/

/-- a sub-code 01..79 (BCD) -/
def SubCode (s : Nat) : Prop := 1 ≤ s ∧ s ≤ 0x79 ∧ s &&& 15 ≤ 9

theorem putKey_sub (pt pgno s : Nat) (hb : isBcd pgno = true) (hs : SubCode s) (hpt : pt ≠ PT_CLOCK) :
    putKey pt pgno s = (s, 0xFF) := by
  obtain ⟨h1, h2, h3⟩ := hs
  have a := putKey_plain_aux1 s (by omega) h3
  unfold putKey
  simp only [hb, if_true]
  have h0 : (s == 0) = false := by simp; omega
  have hc : (pt == PT_CLOCK) = false := by simpa using hpt
  have h100 : ¬ s ≥ 0x100 := by omega
  simp [h0, hc, h100, a]

theorem and_mask32 (s : Nat) (h : s < 4294967296) : s &&& 0xFFFFFFFF = s := by
  have := Nat.and_two_pow_sub_one_eq_mod s 32
  simp only [show (2:Nat) ^ 32 - 1 = 0xFFFFFFFF from rfl, show (2:Nat) ^ 32 = 4294967296 from rfl] at this
  rw [this]; exact Nat.mod_eq_of_lt h

theorem and_ff (s : Nat) (h : s < 256) : s &&& 0xFF = s := by
  have := Nat.and_two_pow_sub_one_eq_mod s 8
  simp only [show (2:Nat) ^ 8 - 1 = 0xFF from rfl, show (2:Nat) ^ 8 = 256 from rfl] at this
  rw [this]; exact Nat.mod_eq_of_lt h

/-- an entry found under the exact key `s2` has low byte `s2` -/
theorem exact_low (x s2 : Nat) (h2 : s2 < 256) (h : x &&& 0xFFFFFFFF = s2 &&& 0xFFFFFFFF) : x &&& 0xFF = s2 := by
  rw [and_mask32 s2 (by omega)] at h
  have : x &&& 0xFF = (x &&& 0xFFFFFFFF) &&& 0xFF := by
    rw [Nat.and_assoc]; rfl
  rw [this, h]; exact and_ff s2 h2

/-- storing sub-code `s1` keeps what the exact look-up of sub-code `s2 ≠ s1` of the same page number finds -/
theorem putKeeps_sub (P s1 s2 : Nat) (hb : isBcd P = true) (h1 : SubCode s1) (h2 : s2 < 256) (hne : s1 ≠ s2) :
    PutKeeps (keyMatch P s2 0xFFFFFFFF) P s1 := by
  intro c pt p c' hp hs hpt hc
  have hk : putKey pt p.pgno p.subno = (s1, 0xFF) := by rw [hp, hs]; exact putKey_sub pt P s1 hb h1 hpt
  have hs1 : s1 < 256 := by have := h1.2.1; omega
  refine cachePutF_find_gen _ c pt p _ s1 0xFF hk ?_ ?_ ?_ c' hc
  · cases hx : keyMatch P s2 0xFFFFFFFF { p.truncate with subno := s1 } with
    | false => rfl
    | true =>
      exfalso
      have := (keyMatch_true hx).2
      simp only [] at this
      rw [and_mask32 s1 (by omega), and_mask32 s2 (by omega)] at this
      exact hne this
  · intro old _ _ ho
    cases hx : keyMatch P s2 0xFFFFFFFF old with
    | false => rfl
    | true =>
      exfalso
      have e := exact_low old.subno s2 h2 (keyMatch_true hx).2
      rw [e, and_ff s1 hs1, and_ff s1 hs1] at ho
      exact hne ho.symm
  · intro _ h0; exact absurd h0 (by decide)

/-- the header look-up of sub-code `s1` keeps what the exact look-up of sub-code `s2 ≠ s1` of the same page finds -/
theorem getKeeps_sub (P sp fl s1 s2 : Nat) (hsp : sp &&& 0x3F7F = s1) (h1 : s1 ≤ 0x79) (h2 : s2 < 256) (hne : s1 ≠ s2) :
    GetKeeps (keyMatch P s2 0xFFFFFFFF) P sp fl := by
  intro n
  unfold lookupPrev
  split
  · unfold Net.get
    cases hg : cacheGet n.cache P (sp &&& 0x3F7F) 0xFFFFFFFF with
    | none => rfl
    | some r =>
      obtain ⟨q', c2⟩ := r
      show c2.find? _ = _
      unfold cacheGet at hg
      split at hg
      · cases hg
      · rw [cacheFind_eq, hsp] at hg
        have hany : (s1 == ANY_SUBNO) = false := by
          have : s1 ≠ ANY_SUBNO := by unfold ANY_SUBNO; omega
          simpa using this
        simp only [hany, Bool.false_eq_true, if_false] at hg
        cases hfo : n.cache.find? (keyMatch P s1 0xFFFFFFFF) with
        | none => rw [hfo] at hg; cases hg
        | some q =>
          rw [hfo] at hg
          simp only [Option.some.injEq, Prod.mk.injEq] at hg
          obtain ⟨rfl, rfl⟩ := hg
          apply find?_moveFront
          cases hx : keyMatch P s2 0xFFFFFFFF q with
          | false => rfl
          | true =>
            exfalso
            have e1 := exact_low q.subno s1 (by omega) (keyMatch_true (List.find?_some hfo)).2
            have e2 := exact_low q.subno s2 h2 (keyMatch_true hx).2
            exact hne (e1.symm.trans e2)
  · rfl

end Zvbi.Ttx
