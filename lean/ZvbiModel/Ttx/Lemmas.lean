import ZvbiModel.Ttx.Spec
import ZvbiModel.Hamm.Lemmas
import ZvbiModel.Hamm.Hamm24
/-!
# Lemmas for C03, part 1: the accessor view of a packet does not see a corrected bit error
-/
namespace Zvbi.Ttx
open Zvbi.Hamm Zvbi.Gen Zvbi.Ttx.Spec

theorem byte_flip (p : Packet) (i b j : Nat) (hi : i < p.length) :
    byte (flipBit p i b) j = if j = i then byte p i ^^^ (1 <<< b) else byte p j := by
  unfold flipBit byte
  simp only [List.getD_eq_getElem?_getD, List.getElem?_set]
  by_cases hji : j = i
  · subst hji; simp [hi]
  · have : i ≠ j := fun h => hji h.symm
    simp [this, hji]

theorem byte_flip_ne (p : Packet) (i b j : Nat) (h : j ≠ i) : byte (flipBit p i b) j = byte p j := by
  unfold flipBit byte
  simp only [List.getD_eq_getElem?_getD, List.getElem?_set]
  have : i ≠ j := fun h' => h h'.symm
  simp [this]

/-- one corrected bit error is invisible to `vbi_unham8` -/
theorem unham8_flip (c b : Nat) (hc : IsHam8 c) (hb : b < 8) : unham8 (c ^^^ (1 <<< b)) = unham8 c := by
  obtain ⟨n, hn, rfl⟩ := hc
  rw [unham8_single n hn b hb, unham8_ham8 n hn]

theorem a24u_of_unham24p {a b c v : Nat} (h : unham24p a b c = some v) :
    (triD a b c ^^^ hamm24InvErr (triSyn a b c)) % 4294967296 = v % 4294967296 := by
  by_cases he : (hamm24InvErr (triSyn a b c) &&& 2147483648 != 0) = true
  · simp [unham24p, he] at h
  · simp [unham24p, he] at h; rw [h]

/-- all three single-byte flipBit lemmas of Hamm24 in one: position `o` of a valid triplet -/
theorem unham24p_flip (a b c o k : Nat) (ha : a < 256) (hb : b < 256) (hc : c < 256)
    (hv : triSyn a b c = 0) (ho : o < 3) (hk : k < 8) :
    unham24p (if o = 0 then a ^^^ 1 <<< k else a) (if o = 1 then b ^^^ 1 <<< k else b)
      (if o = 2 then c ^^^ 1 <<< k else c) = unham24p a b c := by
  rw [unham24p_valid a b c hv]
  match o, ho with
  | 0, _ => simpa using unham24p_single0 a b c ha hv k hk
  | 1, _ => simpa using unham24p_single1 a b c ha hb hv k hk
  | 2, _ => simpa using unham24p_single2 a b c ha hc hv k hk

theorem wf_flip {p : Packet} (h : WellFormed p) (i b : Nat) : (flipBit p i b).length = 42 := by
  unfold flipBit; simp [h.1]

/-- address: a valid address byte with one flipped bit decodes as before -/
theorem a16_flip (p : Packet) (i b : Nat) (hw : WellFormed p) (hb : b < 8)
    (hv : i < 2 → IsHam8 (byte p i)) : a16 (flipBit p i b) 0 = a16 p 0 := by
  have hlen : ∀ j, j < 42 → j < p.length := fun j hj => by rw [hw.1]; exact hj
  unfold a16
  by_cases h0 : i = 0
  · subst h0
    rw [byte_flip p 0 b 0 (hlen 0 (by omega)), byte_flip_ne p 0 b 1 (by omega)]
    simp only [if_true]
    unfold unham16p
    rw [unham8_flip _ b (hv (by omega)) hb]
  · by_cases h1 : i = 1
    · subst h1
      rw [byte_flip p 1 b 1 (hlen 1 (by omega)), byte_flip_ne p 1 b 0 (by omega)]
      simp only [if_true]
      unfold unham16p
      rw [unham8_flip _ b (hv (by omega)) hb]
    · rw [byte_flip_ne p i b 0 (by omega), byte_flip_ne p i b 1 (by omega)]


open Zvbi.Hamm Zvbi.Gen Zvbi.Ttx.Spec

/-- `Protected` without the state: relative to a fixed accessor kind -/
inductive ViewProt (k : Kind) (p : Packet) : Nat → Prop
  | addr (i : Nat) (hi : i < 2) : ViewProt k p i
  | h8 (r : Nat) (hk : k.isH8 r = true) (hv : IsHam8 (byte p (2 + r))) : ViewProt k p (2 + r)
  | h24 (j o : Nat) (hj : j < k.nTrip) (ho : o < 3)
      (hv : IsHam24 (byte p (3 + 3 * j)) (byte p (4 + 3 * j)) (byte p (5 + 3 * j))) : ViewProt k p (3 + 3 * j + o)

theorem kind_trip_h8 (k : Kind) (r : Nat) (h : 0 < k.nTrip) (hk : k.isH8 r = true) : r = 0 := by
  cases k <;> simp [Kind.nTrip, Kind.isH8] at h hk ⊢ <;> exact hk

theorem kind_trip_raw (k : Kind) (r : Nat) (h : 0 < k.nTrip) : k.isRaw r = false := by
  cases k <;> simp [Kind.nTrip, Kind.isRaw] at h ⊢

theorem kind_h8_raw (k : Kind) (r : Nat) (hk : k.isH8 r = true) : k.isRaw r = false := by
  cases k <;> simp [Kind.isH8, Kind.isRaw] at hk ⊢ <;> omega

theorem kind_nTrip_le (k : Kind) : k.nTrip ≤ 13 := by cases k <;> simp [Kind.nTrip]

/-- a byte the flip does not touch -/
theorem a8_flip_ne (p : Packet) (i b j : Nat) (h : j ≠ i) : a8 (flipBit p i b) j = a8 p j := by
  unfold a8; rw [byte_flip_ne p i b j h]

theorem a24_flip_ne (p : Packet) (i b j : Nat) (h : i < j ∨ j + 2 < i) : a24 (flipBit p i b) j = a24 p j := by
  unfold a24
  rw [byte_flip_ne p i b j (by omega), byte_flip_ne p i b (j + 1) (by omega), byte_flip_ne p i b (j + 2) (by omega)]

theorem a24u_flip_ne (p : Packet) (i b j : Nat) (h : i < j ∨ j + 2 < i) : a24u (flipBit p i b) j = a24u p j := by
  unfold a24u
  rw [byte_flip_ne p i b j (by omega), byte_flip_ne p i b (j + 1) (by omega), byte_flip_ne p i b (j + 2) (by omega)]

/-- the flipped byte lies in a valid triplet starting at `t` -/
theorem a24_flip_in (p : Packet) (t o b : Nat) (hw : WellFormed p) (ht : t + 2 < 42) (ho : o < 3) (hb : b < 8)
    (hv : IsHam24 (byte p t) (byte p (t + 1)) (byte p (t + 2))) :
    a24 (flipBit p (t + o) b) t = a24 p t ∧ a24u (flipBit p (t + o) b) t = a24u p t := by
  have hlen : t + o < p.length := by rw [hw.1]; omega
  have h := unham24p_flip (byte p t) (byte p (t + 1)) (byte p (t + 2)) o b (hw.2 _) (hw.2 _) (hw.2 _) hv ho hb
  have e0 : byte (flipBit p (t + o) b) t = if o = 0 then byte p t ^^^ 1 <<< b else byte p t := by
    rw [byte_flip p (t + o) b t hlen]
    by_cases h0 : o = 0
    · subst h0; simp
    · have : t ≠ t + o := by omega
      rw [if_neg this, if_neg h0]
  have e1 : byte (flipBit p (t + o) b) (t + 1) = if o = 1 then byte p (t + 1) ^^^ 1 <<< b else byte p (t + 1) := by
    rw [byte_flip p (t + o) b (t + 1) hlen]
    by_cases h0 : o = 1
    · subst h0; simp
    · have : t + 1 ≠ t + o := by omega
      rw [if_neg this, if_neg h0]
  have e2 : byte (flipBit p (t + o) b) (t + 2) = if o = 2 then byte p (t + 2) ^^^ 1 <<< b else byte p (t + 2) := by
    rw [byte_flip p (t + o) b (t + 2) hlen]
    by_cases h0 : o = 2
    · subst h0; simp
    · have : t + 2 ≠ t + o := by omega
      rw [if_neg this, if_neg h0]
  have ha : a24 (flipBit p (t + o) b) t = a24 p t := by
    unfold a24; rw [e0, e1, e2]; exact h
  refine ⟨ha, ?_⟩
  have hs : a24 p t = some (triD (byte p t) (byte p (t + 1)) (byte p (t + 2))) := by
    unfold a24; exact unham24p_valid _ _ _ hv
  have h1 := a24u_of_unham24p (a := byte (flipBit p (t + o) b) t) (b := byte (flipBit p (t + o) b) (t + 1))
    (c := byte (flipBit p (t + o) b) (t + 2)) (by have := ha; unfold a24 at this; rw [this]; exact hs)
  have h2 := a24u_of_unham24p (a := byte p t) (b := byte p (t + 1)) (c := byte p (t + 2)) (by unfold a24 at hs; exact hs)
  unfold a24u
  rw [h1, h2]

/-- **view factoring**: a single bit error in a position which the kind reads through a Hamming
    accessor and which held a valid codeword leaves the whole accessor view unchanged -/
theorem view_flip (k : Kind) (p : Packet) (i b : Nat) (hw : WellFormed p) (hb : b < 8)
    (hp : ViewProt k p i) : view k (flipBit p i b) = view k p := by
  have hk13 := kind_nTrip_le k
  unfold view
  congr 1
  · -- Hamming 8/4 decodes
    apply List.map_congr_left
    intro r hr
    rw [List.mem_range] at hr
    by_cases hkr : k.isH8 r = true
    · simp only [hkr, if_true]
      cases hp with
      | addr i hi => exact a8_flip_ne p i b (2 + r) (by omega)
      | h8 r0 hk0 hv =>
        by_cases e : r = r0
        · subst e
          have hlen : 2 + r < p.length := by rw [hw.1]; omega
          unfold a8
          rw [byte_flip p (2 + r) b (2 + r) hlen]
          simp only [if_true]
          exact unham8_flip _ b hv hb
        · exact a8_flip_ne p (2 + r0) b (2 + r) (by omega)
      | h24 j o hj ho hv =>
        have := kind_trip_h8 k r (by omega) hkr
        subst this
        exact a8_flip_ne p _ b 2 (by omega)
    · simp [hkr]
  · -- Hamming 24/18 decodes
    apply List.map_congr_left
    intro j' hj'
    rw [List.mem_range] at hj'
    by_cases hjn : j' < k.nTrip
    · simp only [hjn, if_true]
      cases hp with
      | addr i hi => exact a24_flip_ne p i b _ (by omega)
      | h8 r0 hk0 hv =>
        have := kind_trip_h8 k r0 (by omega) hk0
        subst this
        exact a24_flip_ne p _ b _ (by omega)
      | h24 j o hj ho hv =>
        by_cases e : j' = j
        · subst e
          exact (a24_flip_in p (3 + 3 * j') o b hw (by omega) ho hb
            (by rwa [show 4 + 3 * j' = 3 + 3 * j' + 1 by omega, show 5 + 3 * j' = 3 + 3 * j' + 2 by omega] at hv)).1
        · exact a24_flip_ne p _ b _ (by omega)
    · simp [hjn]
  · -- the same triplets as unsigned ints
    apply List.map_congr_left
    intro j' hj'
    rw [List.mem_range] at hj'
    by_cases hjn : j' < k.nTrip
    · simp only [hjn, if_true]
      cases hp with
      | addr i hi => exact a24u_flip_ne p i b _ (by omega)
      | h8 r0 hk0 hv =>
        have := kind_trip_h8 k r0 (by omega) hk0
        subst this
        exact a24u_flip_ne p _ b _ (by omega)
      | h24 j o hj ho hv =>
        by_cases e : j' = j
        · subst e
          exact (a24_flip_in p (3 + 3 * j') o b hw (by omega) ho hb
            (by rwa [show 4 + 3 * j' = 3 + 3 * j' + 1 by omega, show 5 + 3 * j' = 3 + 3 * j' + 2 by omega] at hv)).2
        · exact a24u_flip_ne p _ b _ (by omega)
    · simp [hjn]
  · -- raw bytes
    apply List.map_congr_left
    intro r hr
    rw [List.mem_range] at hr
    by_cases hkr : k.isRaw r = true
    · simp only [hkr, if_true]
      cases hp with
      | addr i hi => exact byte_flip_ne p i b (2 + r) (by omega)
      | h8 r0 hk0 hv =>
        have hne : r ≠ r0 := by
          intro e; subst e
          have := kind_h8_raw k r hk0
          rw [this] at hkr; exact absurd hkr (by simp)
        exact byte_flip_ne p _ b _ (by omega)
      | h24 j o hj ho hv =>
        have := kind_trip_raw k r (by omega)
        rw [this] at hkr; exact absurd hkr (by simp)
    · simp [hkr]

end Zvbi.Ttx
