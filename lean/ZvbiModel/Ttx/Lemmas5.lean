import ZvbiModel.Ttx.Lemmas4
/-!
# Lemmas for C03, part 5: frame lemmas for the page assembly slots; X/26 continuity on `process26`
-/
namespace Zvbi.Ttx
open Zvbi.Hamm Zvbi.Gen Zvbi.Ttx.Spec

theorem rp_setRp_same (s : St) (m : Nat) (x : RawPage) (h : m < s.raw.length) : (s.setRp m x).rp m = x := by
  unfold St.setRp St.rp
  simp [List.getD_eq_getElem?_getD, List.getElem?_set, h]

theorem rp_setRp_other (s : St) (m m' : Nat) (x : RawPage) (h : m' ≠ m) : (s.setRp m x).rp m' = s.rp m' := by
  unfold St.setRp St.rp
  have : m ≠ m' := fun e => h e.symm
  simp [List.getD_eq_getElem?_getD, List.getElem?_set, this]

theorem setRp_length (s : St) (m : Nat) (x : RawPage) : (s.setRp m x).raw.length = s.raw.length := by
  unfold St.setRp; simp

theorem rp_setPage_same (s : St) (m : Nat) (pg : Page) (h : m < s.raw.length) :
    (s.setPage m pg).rp m = { s.rp m with page := pg } := by
  unfold St.setPage; exact rp_setRp_same s m _ h

theorem rp_setPage_other (s : St) (m m' : Nat) (pg : Page) (h : m' ≠ m) : (s.setPage m pg).rp m' = s.rp m' := by
  unfold St.setPage; exact rp_setRp_other s m m' _ h

theorem setPage_length (s : St) (m : Nat) (pg : Page) : (s.setPage m pg).raw.length = s.raw.length := by
  unfold St.setPage; exact setRp_length s m _

theorem rp_desync (s : St) (m : Nat) (h : m < s.raw.length) :
    (desync s).rp m = { s.rp m with page := { (s.rp m).page with function := FN_DISCARD } } := by
  unfold desync St.rp
  simp [List.getD_eq_getElem?_getD, List.getElem?_map, h]

theorem desync_length (s : St) : (desync s).raw.length = s.raw.length := by
  unfold desync; simp

/-- **X/26 continuity**: packet 26 changes entry `idx` of the enhancement array of the page in
    progress only if its designation `d` decodes, the fill level is exactly `13 d` (all earlier
    designations were received, in order, since the header), and `13 d ≤ idx < 13 d + 13` -/
theorem process26_enh (s : St) (mag0 : Nat) (v : View) (hm : mag0 < s.raw.length) (idx : Nat) (t0 : Triplet)
    (hne : ((process26 s mag0 v).st.rp mag0).page.enh.getD idx t0 ≠ (s.rp mag0).page.enh.getD idx t0) :
    ∃ d, v.g8 0 = some d ∧ (s.rp mag0).numTriplets = ((d * 13 : Nat) : Int) ∧ d * 13 ≤ idx ∧ idx < d * 13 + 13 := by
  unfold process26 at hne
  simp only [] at hne
  split at hne
  · exact absurd rfl hne
  · split at hne
    · exact absurd rfl hne
    · split at hne
      · rw [rp_desync s mag0 hm] at hne; exact absurd rfl hne
      · split at hne
        · exact absurd rfl hne
        · rename_i d hd
          split at hne
          · rw [rp_setRp_same s mag0 _ hm] at hne; exact absurd rfl hne
          · rename_i hcond
            rw [rp_setRp_same s mag0 _ hm] at hne
            simp only [] at hne
            have hnt : (s.rp mag0).numTriplets = ((d * 13 : Nat) : Int) := by
              simp only [Bool.or_eq_true, decide_eq_true_eq, bne_iff_ne, ne_eq, not_or, Decidable.not_not] at hcond
              exact hcond.2
            refine ⟨d, hd, hnt, ?_⟩
            have hf := (x26Triplets_frame v (s.rp mag0).page.enh (d * 13) t0).2.2 idx
            by_cases hin : d * 13 ≤ idx ∧ idx < d * 13 + 13
            · exact hin
            · exact absurd (hf (by omega)) hne

end Zvbi.Ttx
