import ZvbiModel.Ttx.Roundtrip12
/-!
# C02 round 4, part 13: serial mode, the state after the terminating header

`page_stored_serial`: the termination block of a header of ANY magazine with another page number stores the page
assembled in serial mode; `fetched_after_text_serial`: if that header opens a decimal text page (any magazine),
look-ups of P in the state after it return the stored entry, and the step's only TTX_PAGE event is P's.
-/
namespace Zvbi.Ttx
open Zvbi.Hamm Zvbi.Gen Zvbi.Ttx.Spec

theorem page_stored_serial (sR s1 : St) (t : Tx) (hdr : Packet) (rows : List (Nat × List Nat))
    (ha : Assembled sR s1 t hdr rows) (hmask1 : s1.mask = true) (hcd1 : s1.chswcd = 0)
    (hm : t.m < 8) (hdec : decimalPage t.page) (hsmall : t.s12 < 256 ∧ t.s34 < 256 ∧ t.fl < 256)
    (hser : t.fl &&& 0x10 = 0x10) (hL : (s1.rp t.m).lopRaw.length = 26)
    (hrows : ∀ r ∈ rows, 1 ≤ r.1 ∧ r.1 ≤ 25 ∧ GoodRow r.2)
    (mQ pgnoQ pageQ : Nat) (hne : pgnoQ ≠ t.pgno)
    (hn : Event.chsw ∉ (terminatePage (tick sR) mQ pgnoQ pageQ).2) :
    ∃ q rest pt, (terminatePage (tick sR) mQ pgnoQ pageQ).1.net.cache = q :: rest
      ∧ Fetched q t s1 hdr rows pt
      ∧ (pt = PT_CLOCK → (sR.net.getStat t.pgno).pageType = PT_CLOCK)
      ∧ ttxPages (terminatePage (tick sR) mQ pgnoQ pageQ).2 = [(t.pgno, t.subno)] := by
  obtain ⟨hv, _⟩ := pgno_facts t.m t.page hm hdec
  have hsp : t.subpage < 65536 := by unfold Tx.subpage; omega
  obtain ⟨c1, c2⟩ := c11_set t.fl t.subpage hsmall.2.2 hsp hser
  have hrpm : (tick sR).rp t.m = sR.rp t.m := rfl
  have hserial : ((tick sR).rp t.m).page.flags &&& C11_MAGAZINE_SERIAL ≠ 0 := by
    rw [hrpm, ha.flags]
    unfold Tx.flags
    cases t.prev s1 <;> simp only [] <;> assumption
  have hts := terminatedSlot_serial (tick sR) t.m mQ pgnoQ pageQ ha.cur hserial
    (by rw [hrpm, ha.pg]; exact fun h => hne h.symm) rfl
  obtain ⟨q, rest, pt, h1, h2, h3, h4⟩ := close_text_at (tick sR) t.m mQ pgnoQ pageQ
    (by show t.m < sR.raw.length; rw [ha.len]; exact hm) (by show sR.chswcd = 0; rw [ha.cd]; exact hcd1)
    (by show sR.mask = true; rw [ha.mask]; exact hmask1) hts (by rw [hrpm]; exact ha.fn)
    (by rw [hrpm, ha.pg]; exact hv) (s1.rp t.m).lopRaw rows (by rw [hrpm]; exact ha.lr) hL (by rw [hrpm]; exact ha.lp)
    hrows hn
  rw [hrpm] at h2 h3 h4
  refine ⟨q, rest, pt, h1, ⟨h2.fn, h2.pgno.trans ha.pg, ?_, h2.national.trans ha.nat, h2.flags.trans ha.flags, ?_⟩, ?_, ?_⟩
  · intro key mask hk
    apply h2.subno key mask
    rw [ha.pg, ha.sub]; exact hk
  · rw [h2.raw, ha.raw]
  · intro hpt; have := h3 hpt; rw [ha.pg] at this; exact this
  · rw [h4, ha.pg, ha.sub]

/-- serial mode, terminated by the header of a decimal text page of ANY magazine `um` -/
theorem fetched_after_text_serial (sR s1 : St) (t : Tx) (hdr : Packet) (rows : List (Nat × List Nat))
    (ha : Assembled sR s1 t hdr rows) (hmask1 : s1.mask = true) (hcd1 : s1.chswcd = 0)
    (hm : t.m < 8) (hdec : decimalPage t.page) (hsmall : t.s12 < 256 ∧ t.s34 < 256 ∧ t.fl < 256)
    (hser : t.fl &&& 0x10 = 0x10) (hL : (s1.rp t.m).lopRaw.length = 26)
    (hrows : ∀ r ∈ rows, 1 ≤ r.1 ∧ r.1 ≤ 25 ∧ GoodRow r.2)
    (hq : Packet) (um upage us12 us34 ufl : Nat) (hu : IsHeader hq um upage us12 us34 ufl)
    (hne : mag8Of um * 256 + upage ≠ t.pgno) (hudec : decimalPage upage)
    (hutext : TextPage (terminatePage (tick sR) um (mag8Of um * 256 + upage) upage).1.net (mag8Of um * 256 + upage) upage
      (lookupPrev (terminatePage (tick sR) um (mag8Of um * 256 + upage) upage).1.net (mag8Of um * 256 + upage)
        (us12 + us34 * 256) ufl).1)
    (hnosw : Event.chsw ∉ (step sR hq).2) :
    ∃ q pt, Fetched q t s1 hdr rows pt
      ∧ (pt = PT_CLOCK → (sR.net.getStat t.pgno).pageType = PT_CLOCK)
      ∧ (∀ subno mask, subno = q.subno ∨ subno = ANY_SUBNO →
          (cacheGet (step sR hq).1.net.cache t.pgno subno mask).map (·.1) = some q)
      ∧ ttxPages (step sR hq).2 = [(t.pgno, t.subno)] := by
  have hvp := (pgno_facts t.m t.page hm hdec).1
  have hcdR : sR.chswcd = 0 := by rw [ha.cd]; exact hcd1
  have hmaskR : sR.mask = true := by rw [ha.mask]; exact hmask1
  rw [step_eq_decode sR hq hcdR] at hnosw ⊢
  simp only [] at hnosw ⊢
  obtain ⟨ho, he, hc⟩ := decode_header_text (tick sR) hq um upage us12 us34 ufl hu hudec hmaskR
    (terminatePage (tick sR) um (mag8Of um * 256 + upage) upage).1
    (terminatePage (tick sR) um (mag8Of um * 256 + upage) upage).2 rfl
    ((terminatePage_glob (tick sR) um (mag8Of um * 256 + upage) upage).len.trans ha.len) hutext
  have hn : Event.chsw ∉ (terminatePage (tick sR) um (mag8Of um * 256 + upage) upage).2 := by
    intro h; apply hnosw; exact hc.mpr h
  obtain ⟨q, rest, pt, h1, h2, h3, h4⟩ := page_stored_serial sR s1 t hdr rows ha hmask1 hcd1 hm hdec hsmall hser hL hrows
    um (mag8Of um * 256 + upage) upage hne hn
  refine ⟨q, pt, h2, h3, ?_, ?_⟩
  · intro subno mask hs
    apply cacheGet_of_find _ _ _ _ _ hvp
    rw [ho.net]
    have hne' : mag8Of um * 256 + upage ≠ mag8Of t.m * 256 + t.page := hne
    rw [lookupPrev_find _ (mag8Of um * 256 + upage) _ _ (mag8Of t.m * 256 + t.page) _ _ hne', h1,
      show mag8Of t.m * 256 + t.page = q.pgno from h2.pgno.symm]
    exact find_head q rest subno mask hs
  · rw [he, h4]

end Zvbi.Ttx
