import ZvbiModel.Ttx.Chain1
/-!
# C02 round 5, part 2: the invariant "only text pages were announced" (`TInv`)

`TextOnly p`: IF `p` is a page header whose page number decodes THEN the page number is decimal (00..99) or the
time-filling FF.  This excludes exactly the headers of hexadecimal page numbers, i.e. the pages that are not for display:
the magazine inventory page xFD (MIP), the magazine organisation table xFE (MOT), the basic TOP table 1F0 (BTT) and the
TOP tables it links (AIT, MPT, MPT-EX), 1E7 (EACEM trigger), POP / DRCS / data pages.  Nothing else is excluded:
rows, X/26, X/27, X/28, M/29, 8/30, undecodable packets, refused headers, C11, erase flag are all admitted.

Why: `parse_mip` (run when a page xFD is terminated), `parse_btt` (rows of 1F0) and the BTT link table write
`page_stat.page_type`; the header branch of packet.c derives the function of a page that is not cached yet from that
type (`functionOfType`), and a decimal page announced as, say, DRCS download page (0xE5) is not assembled as text.
Hexadecimal pages other than these would be harmless but are cached with function UNKNOWN / (G)DRCS; excluding them
keeps the invariant small: every cached page and every page in progress is a Level 1 text page.

`TInv s`: every page type in the statistics is UNKNOWN or NORMAL, every cached page has function LOP, every slot is
LOP or DISCARD.  `run_tinv`: kept by every history of `TextOnly` packets from a fresh decoder; it discharges the
`TextPage` hypothesis of the round-trip theorems (`TInv.textPage`).
-/
namespace Zvbi.Ttx
open Zvbi.Hamm Zvbi.Gen Zvbi.Ttx.Spec

/-- if `p` is a page header whose page number decodes, that number is decimal or FF (time filling) -/
def TextOnly (p : Packet) : Prop :=
  ∀ pmag page, a16 p 0 = some pmag → pmag >>> 3 = 0 → a16 p 2 = some page → decimalPage page ∨ page = 0xFF

def TextTypes (n : Net) : Prop :=
  ∀ pgno, (n.getStat pgno).pageType = PT_UNKNOWN ∨ (n.getStat pgno).pageType = PT_NORMAL

/-- the network record of a text-only network -/
structure TNet (n : Net) : Prop where
  stat : TextTypes n
  cache : ∀ q ∈ n.cache, q.function = FN_LOP

structure TInv (s : St) : Prop where
  net : TNet s.net
  slots : ∀ c, c < 8 → TextSlot (s.rp c).page.function

theorem textType_of (n : Net) (pgno page : Nat) (h : TextTypes n) (hdec : decimalPage page) : TextType n pgno page := by
  unfold TextType functionOfType
  obtain ⟨d1, d2⟩ := hdec
  rcases h pgno with e | e
  · rw [e]
    simp [PT_UNKNOWN, PT_TOP_BLOCK, PT_TOP_GROUP, PT_SYSTEM, PT_TOP_PAGE, PT_TRIGGER, PT_EPG_DATA, PT_ACI, PT_NOT_PUBLIC,
      d1, d2]
  · rw [e]
    simp [PT_NORMAL]

/-- `TInv` discharges the `TextPage` hypothesis of the round-trip theorems -/
theorem TNet.textPage {n : Net} (h : TNet n) (pgno page sp fl : Nat) (hdec : decimalPage page) :
    TextPage n pgno page (lookupPrev n pgno sp fl).1 := by
  unfold TextPage
  cases hp : (lookupPrev n pgno sp fl).1 with
  | none => exact textType_of n pgno page h.stat hdec
  | some q =>
    left
    apply h.cache
    unfold lookupPrev at hp
    split at hp
    · exact get_mem _ _ _ _ _ hp
    · cases hp

theorem getStat_setStat (n : Net) (pgno : Nat) (f : PageStat → PageStat) (pgno' : Nat) :
    (n.setStat pgno f).1.getStat pgno' = n.getStat pgno'
    ∨ (n.setStat pgno f).1.getStat pgno' = f (n.getStat pgno) := by
  unfold Net.setStat
  cases hi : statIdx pgno with
  | none => left; rfl
  | some i =>
    simp only []
    unfold Net.getStat
    rw [hi]
    cases hj : statIdx pgno' with
    | none => left; rfl
    | some j =>
      simp only []
      by_cases e : i = j
      · subst e
        by_cases hl : i < n.stat.length
        · right; simp [List.getD_eq_getElem?_getD, hl]
        · left; rw [List.set_eq_of_length_le (by omega)]
      · left; simp [List.getD_eq_getElem?_getD, List.getElem?_set, e]

/-- both source shapes of `_vbi_cache_put_page`: what enters the chain is the page stored (function kept) -/
theorem cachePutF_mem_fn (fix : Bool) (c : List Page) (pt : Nat) (p : Page) :
    ∀ c', cachePutF fix c pt p = some c' → ∀ x ∈ c', x ∈ c ∨ x.function = p.function := by
  unfold cachePutF
  split
  · intro c' h; cases h
  · generalize putKey pt p.pgno p.subno = k
    obtain ⟨a, b⟩ := k
    intro c' h
    simp only [Option.some.injEq] at h
    subst h
    intro x hx
    rcases List.mem_cons.mp hx with rfl | hx
    · right; exact truncate_function p
    · left
      cases hf : cacheFind c p.pgno (a &&& b) b with
      | none => rw [hf] at hx; exact hx
      | some r =>
        obtain ⟨old, c1⟩ := r
        rw [hf] at hx
        simp only at hx
        split at hx
        · exact (cacheFind_sub _ _ _ _ _ _ hf).2 x (List.mem_of_mem_erase (List.mem_filter.1 hx).1)
        · exact (cacheFind_sub _ _ _ _ _ _ hf).2 x (List.mem_of_mem_erase hx)

theorem TNet.put {n : Net} (h : TNet n) (p : Page) (hp : p.function = FN_LOP) : TNet (n.put p) := by
  unfold Net.put
  cases hc : cachePut n.cache (n.getStat p.pgno).pageType p with
  | none => exact h
  | some c =>
    refine ⟨h.stat, ?_⟩
    intro q hq
    rcases cachePutF_mem_fn _ _ _ _ c hc q hq with h1 | h1
    · exact h.cache q h1
    · rw [h1, hp]

theorem TNet.setStat {n : Net} (h : TNet n) (pgno : Nat) (f : PageStat → PageStat)
    (hf : (f (n.getStat pgno)).pageType = PT_UNKNOWN ∨ (f (n.getStat pgno)).pageType = PT_NORMAL) :
    TNet (n.setStat pgno f).1 := by
  refine ⟨?_, by rw [setStat_cache]; exact h.cache⟩
  intro pgno'
  rcases getStat_setStat n pgno f pgno' with e | e
  · rw [e]; exact h.stat pgno'
  · rw [e]; exact hf

theorem TNet.sub {n n' : Net} (h : TNet n) (hs : n'.stat = n.stat) (hc : CacheSub n n') : TNet n' :=
  ⟨fun pgno => by rw [getStat_congr n n' pgno hs]; exact h.stat pgno, fun q hq => h.cache q (hc q hq)⟩

theorem chswReset_tnet (s : St) : TNet (chswReset s).net := by
  refine ⟨?_, ?_⟩
  · intro pgno
    left
    have hs : (chswReset s).net.stat = List.replicate 0x800 PageStat.init := rfl
    unfold Net.getStat
    rw [hs]
    cases statIdx pgno with
    | none => rfl
    | some i =>
      simp only [List.getD_eq_getElem?_getD, List.getElem?_replicate]
      split <;> rfl
  · intro q hq
    have : (chswReset s).net.cache = [] := rfl
    rw [this] at hq; cases hq

theorem statAtPut_type1 (ps : PageStat) (x : Nat) (h : ps.pageType = PT_UNKNOWN ∨ ps.pageType = PT_NORMAL) :
    (if ps.pageType == PT_SUBTITLE then (if ps.charset == 0xFF then { ps with charset := x } else ps)
        else if ps.pageType == PT_NO_PAGE || ps.pageType == PT_UNKNOWN then { ps with pageType := PT_NORMAL } else ps).pageType
        = PT_NORMAL := by
  rcases h with e | e
  · rw [e]; rfl
  · rw [e]; simp only [show (PT_NORMAL == PT_SUBTITLE) = false from rfl, show (PT_NORMAL == PT_NO_PAGE) = false from rfl,
      show (PT_NORMAL == PT_UNKNOWN) = false from rfl, Bool.false_eq_true, if_false, Bool.or_self]
    exact e

theorem statAtPut_type2 (ps1 : PageStat) (sub : Nat) (h : ps1.pageType = PT_NORMAL) :
    (if ps1.subcode ≥ 0xFFFE || sub > ps1.subcode then { ps1 with subcode := sub % 65536 } else ps1).pageType = PT_NORMAL := by
  split
  · exact h
  · exact h

/-- `store_lop` of a text page on a text-only network -/
theorem storeLop_tnet (s : St) (vtp : Page) (h : TNet s.net) (hv : vtp.function = FN_LOP) :
    TNet (storeLop s vtp).1.net := by
  unfold storeLop
  split
  · exact chswReset_tnet s
  · exact h
  · rename_i copy clearCd roll hdrUpd clock pn _
    have fin : ∀ (x : St), x.net = s.net →
        TNet ((x.net.setStat vtp.pgno (fun _ =>
          if (if (x.net.getStat vtp.pgno).pageType == PT_SUBTITLE then
                if (x.net.getStat vtp.pgno).charset == 0xFF then
                  { x.net.getStat vtp.pgno with charset := intToU8 (pageLanguage x.net (some vtp) 0 0) }
                else x.net.getStat vtp.pgno
              else if (x.net.getStat vtp.pgno).pageType == PT_NO_PAGE || (x.net.getStat vtp.pgno).pageType == PT_UNKNOWN then
                { x.net.getStat vtp.pgno with pageType := PT_NORMAL }
              else x.net.getStat vtp.pgno).subcode ≥ 0xFFFE
              || vtp.subno > (if (x.net.getStat vtp.pgno).pageType == PT_SUBTITLE then
                if (x.net.getStat vtp.pgno).charset == 0xFF then
                  { x.net.getStat vtp.pgno with charset := intToU8 (pageLanguage x.net (some vtp) 0 0) }
                else x.net.getStat vtp.pgno
              else if (x.net.getStat vtp.pgno).pageType == PT_NO_PAGE || (x.net.getStat vtp.pgno).pageType == PT_UNKNOWN then
                { x.net.getStat vtp.pgno with pageType := PT_NORMAL }
              else x.net.getStat vtp.pgno).subcode
          then { (if (x.net.getStat vtp.pgno).pageType == PT_SUBTITLE then
                if (x.net.getStat vtp.pgno).charset == 0xFF then
                  { x.net.getStat vtp.pgno with charset := intToU8 (pageLanguage x.net (some vtp) 0 0) }
                else x.net.getStat vtp.pgno
              else if (x.net.getStat vtp.pgno).pageType == PT_NO_PAGE || (x.net.getStat vtp.pgno).pageType == PT_UNKNOWN then
                { x.net.getStat vtp.pgno with pageType := PT_NORMAL }
              else x.net.getStat vtp.pgno) with subcode := vtp.subno % 65536 }
          else (if (x.net.getStat vtp.pgno).pageType == PT_SUBTITLE then
                if (x.net.getStat vtp.pgno).charset == 0xFF then
                  { x.net.getStat vtp.pgno with charset := intToU8 (pageLanguage x.net (some vtp) 0 0) }
                else x.net.getStat vtp.pgno
              else if (x.net.getStat vtp.pgno).pageType == PT_NO_PAGE || (x.net.getStat vtp.pgno).pageType == PT_UNKNOWN then
                { x.net.getStat vtp.pgno with pageType := PT_NORMAL }
              else x.net.getStat vtp.pgno))).1.put vtp) := by
      intro x hx
      rw [hx]
      refine TNet.put (TNet.setStat h _ _ ?_) vtp hv
      right
      exact statAtPut_type2 _ _ (statAtPut_type1 _ _ (h.stat _))
    cases copy <;> cases clearCd <;> exact fin _ rfl

theorem TextSlot.desync (s : St) (c : Nat) (hl : c < s.raw.length) : TextSlot ((desync s).rp c).page.function :=
  Or.inr (desync_fn s c hl)

theorem TInv.desync {s : St} (h : TInv s) (hs : Shape s) : TInv (desync s) :=
  ⟨h.net, fun c hc => TextSlot.desync s c (by rw [hs.len]; exact hc)⟩

theorem TInv.tick {s : St} (h : TInv s) : TInv (tick s) := ⟨h.net, h.slots⟩

/-- page termination on a text-only decoder -/
theorem terminatePage_tinv (s : St) (mag0 pgno page : Nat) (hm : mag0 < 8) (hs : Shape s) (h : TInv s) :
    TInv (terminatePage s mag0 pgno page).1 := by
  have hcl := terminatePage_closed s mag0 pgno page
  have hslots : ∀ c, c < 8 → TextSlot ((terminatePage s mag0 pgno page).1.rp c).page.function := by
    intro c hc
    rcases hcl.slots c with e | ⟨e, _⟩
    · rw [e]; exact h.slots c hc
    · exact Or.inr e
  refine ⟨?_, hslots⟩
  unfold terminatePage
  split
  · exact h.net
  · rename_i curr hcurr
    have hc8 : curr < 8 := terminatedSlot_lt s mag0 pgno page curr hm hs.cur hcurr
    simp only []
    rcases h.slots curr hc8 with hf | hf
    · have h2 : ((s.rp curr).page.function == FN_LOP) = true := by rw [hf]; rfl
      have h1 : ((s.rp curr).page.function == FN_DISCARD || (s.rp curr).page.function == FN_EPG) = false := by
        rw [hf]; rfl
      rw [h1, h2]
      simp only [Bool.false_eq_true, if_false, if_true]
      have hk := lopParityCheck_keys (s.rp curr).page (s.rp curr)
      generalize lopParityCheck (s.rp curr).page (s.rp curr) = LP at hk
      obtain ⟨cv, rv⟩ := LP
      simp only [] at hk ⊢
      exact storeLop_tnet (s.setRp curr { rv with page := cv }) cv h.net (by rw [hk.2.2]; exact hf)
    · have h1 : ((s.rp curr).page.function == FN_DISCARD || (s.rp curr).page.function == FN_EPG) = true := by
        rw [hf]; rfl
      rw [h1]
      simp only [if_true]
      exact h.net

end Zvbi.Ttx
