import ZvbiModel.Ttx.Lemmas2
/-!
# Lemmas for C03, part 3: headers with uncorrectable fields
-/
namespace Zvbi.Ttx
open Zvbi.Hamm Zvbi.Gen Zvbi.Ttx.Spec

theorem view_g8 (k : Kind) (p : Packet) (r : Nat) (hr : r < 40) :
    (view k p).g8 r = if k.isH8 r then a8 p (2 + r) else none := by
  unfold View.g8 view
  simp [List.getD_eq_getElem?_getD, List.getElem?_map, List.getElem?_range, hr]

theorem view_hdr_g16 (p : Packet) (r : Nat) (hr : r + 1 < 8) : (view Kind.hdr p).g16 r = a16 p (2 + r) := by
  unfold View.g16
  rw [view_g8 _ p r (by omega), view_g8 _ p (r + 1) (by omega)]
  have h1 : Kind.hdr.isH8 r = true := by simp [Kind.isH8]; omega
  have h2 : Kind.hdr.isH8 (r + 1) = true := by simp [Kind.isH8]; omega
  simp only [h1, h2, if_true]
  unfold a16 a8 unham16p
  rw [show 2 + (r + 1) = 2 + r + 1 by omega]
  cases unham8 (byte p (2 + r)) <;> cases unham8 (byte p (2 + r + 1)) <;> rfl

/-- the state a rejected header leaves behind: the page in progress (if any) was terminated, the
    magazine's assembly page got the new page number and is discarded -/
def hdrAbandon (s1 : St) (mag0 pgno : Nat) : St :=
  let cv := { (s1.rp mag0).page with pgno := pgno }
  let s2 := { s1.setPage mag0 cv with current := some mag0 }
  s2.setPage mag0 { cv with function := FN_DISCARD }

/-- header whose page number pair is uncorrectable: `vbi_teletext_desync`, nothing else -/
theorem decode_hdr_bad_pageno (s : St) (p : Packet) (pmag : Nat) (ha : a16 p 0 = some pmag)
    (h0 : pmag >>> 3 = 0) (hm : s.mask = true) (hpg : a16 p 2 = none) :
    decodeTeletext s p = ⟨desync s, [], false⟩ := by
  unfold decodeTeletext
  rw [ha]
  simp only []
  rw [kindOf_hdr s pmag _ h0 hm]
  have hv : (view Kind.hdr p).g16 0 = none := by rw [view_hdr_g16 p 0 (by omega)]; exact hpg
  unfold process
  simp only [h0, hm]
  unfold processHeader
  rw [hv]
  simp [finish]

/-- header whose page number decodes but whose subcode / control bits are refused -/
theorem decode_hdr_rejected (s : St) (p : Packet) (pmag page : Nat) (ha : a16 p 0 = some pmag)
    (h0 : pmag >>> 3 = 0) (hm : s.mask = true) (hpg : a16 p 2 = some page)
    (hrej : hdrRejected page ((view Kind.hdr p).g16i 2) ((view Kind.hdr p).g16i 4) ((view Kind.hdr p).g16i 6) = true) :
    decodeTeletext s p =
      let mag0 := pmag &&& 7
      let pgno := (if mag0 == 0 then 8 else mag0) * 256 + page
      let t := terminatePage s mag0 pgno page
      ⟨hdrAbandon t.1 mag0 pgno, t.2, false⟩ := by
  unfold decodeTeletext
  rw [ha]
  simp only []
  rw [kindOf_hdr s pmag _ h0 hm]
  have hv : (view Kind.hdr p).g16 0 = some page := by rw [view_hdr_g16 p 0 (by omega)]; exact hpg
  unfold process
  simp only [h0, hm]
  unfold processHeader
  rw [hv]
  simp only [hrej]
  simp [finish, hdrAbandon]

end Zvbi.Ttx

namespace Zvbi.Ttx
open Zvbi.Hamm Zvbi.Gen Zvbi.Ttx.Spec

theorem a8_lt16 (p : Packet) (i v : Nat) (hw : WellFormed p) (h : a8 p i = some v) : v < 16 :=
  unham8_range (byte p i) (hw.2 i) v h

theorem view_g8_lt16 (k : Kind) (p : Packet) (r x : Nat) (hw : WellFormed p) (hr : r < 40)
    (h : (view k p).g8 r = some x) : x < 16 := by
  rw [view_g8 k p r hr] at h
  split at h
  · exact a8_lt16 p _ x hw h
  · simp at h

/-- the C `int` of `vbi_unham16p` is at most 255 -/
theorem view_g16i_le (k : Kind) (p : Packet) (r : Nat) (hw : WellFormed p) (hr : r + 1 < 40) :
    (view k p).g16i r ≤ 255 := by
  unfold View.g16i
  cases h1 : (view k p).g8 r with
  | none => simp
  | some a =>
    have ha := view_g8_lt16 k p r a hw (by omega) h1
    cases h2 : (view k p).g8 (r + 1) with
    | none => simp only []; omega
    | some b =>
      have hb := view_g8_lt16 k p (r + 1) b hw (by omega) h2
      simp only []
      have : a ||| b <<< 4 < 256 := by
        have e1 : a < 2 ^ 8 := by omega
        have e2 : b <<< 4 < 2 ^ 8 := by rw [Nat.shiftLeft_eq]; omega
        exact Nat.or_lt_two_pow e1 e2
      omega

end Zvbi.Ttx
