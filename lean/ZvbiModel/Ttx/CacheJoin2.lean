import ZvbiModel.Ttx.CacheJoin1
/-!
# C03 x C10: the joint invariant along the mirrored trace (lemmas for Props/C03Refine.lean)

`J`: the cache.c state run next to the decoder is `Good` (the C10 invariant), the decoder's network is on its list and
held (`Held`), and its retrievable entries of that network are the decoder's page list (`C10Ttx.Sim`).  `J` is kept by
every `mirrorOp`: look-up + release and channel switch unconditionally, a store under `StoreOk`, which
`Ttx/CacheJoin3.lean` derives from: page type below 256, page number in range, memory not short.
-/
namespace Zvbi.CacheJoin
open Zvbi.Cache Zvbi.Gen.Cache
open Zvbi.Props.C03Join (mirrorOp mirror)
open Zvbi.Props.C10Ttx (Sim)

/-- what is asked of the result of the store call: it returns (no failed assertion), leaves the decoder's network on the
    list and held, and the page it hands out (if any) is a cached page of the state after the call -/
def AfterOk (nid : Nat) : Except Err (State × Option Page) → Prop
  | .ok (s', some q) => Held s' nid ∧ s'.findPage q.id = some q ∧ q.pri ≠ .zombie
  | .ok (s', none) => Held s' nid
  | .error _ => False

/-- The side conditions of ONE store `_vbi_cache_put_page (p)` with page type `pt` of the mirrored trace, in the
    cache.c state `acc.1` (decoder's network `acc.2`) in which it happens:
    * the page type fits the `uint8_t` member of the statistics (`pt < 256`) and the page number is in 0x100..0x8FF;
    * memory is not short: `memory_used + cache_page_size (p) <= memory_limit`;
    * `AfterOk` of the result of the call. -/
def StoreOk (enc : Ttx.Page → Nat) (acc : State × Nat) (pt : Nat) (p : Ttx.Page) : Prop :=
  pt < 256 ∧ (0x100 ≤ p.pgno ∧ p.pgno ≤ 0x8FF)
  ∧ acc.1.memUsed + pageSize p.function p.x26 p.x28 ≤ acc.1.memLimit
  ∧ AfterOk acc.2 ((stepCur acc.1 (.ptype acc.2 p.pgno pt)).1.putPageF putReplacesAllVersions acc.2
        ⟨p.pgno, p.subno, p.function, p.x26, p.x28, enc (tstored pt p)⟩)

/-- `StoreOk` at every store of the trace `ops` mirrored from the state `acc` on -/
def TraceOk (enc : Ttx.Page → Nat) : State × Nat → List Ttx.CacheOp → Prop
  | _, [] => True
  | acc, .put pt p :: rest => StoreOk enc acc pt p ∧ TraceOk enc (mirrorOp enc acc (.put pt p)) rest
  | acc, .get pgno subno mask :: rest => TraceOk enc (mirrorOp enc acc (.get pgno subno mask)) rest
  | acc, .clear :: rest => TraceOk enc (mirrorOp enc acc .clear) rest

instance (s : State) (nid : Nat) : Decidable (Held s nid) := by unfold Held; infer_instance

instance (nid : Nat) : (x : Except Err (State × Option Page)) → Decidable (AfterOk nid x)
  | .ok (s', some q) => inferInstanceAs (Decidable (Held s' nid ∧ s'.findPage q.id = some q ∧ q.pri ≠ .zombie))
  | .ok (s', none) => inferInstanceAs (Decidable (Held s' nid))
  | .error _ => inferInstanceAs (Decidable False)

instance (enc : Ttx.Page → Nat) (acc : State × Nat) (pt : Nat) (p : Ttx.Page) : Decidable (StoreOk enc acc pt p) := by
  unfold StoreOk; infer_instance

instance decTraceOk (enc : Ttx.Page → Nat) : (acc : State × Nat) → (ops : List Ttx.CacheOp) → Decidable (TraceOk enc acc ops)
  | _, [] => isTrue trivial
  | acc, .put pt p :: rest =>
    have := decTraceOk enc (mirrorOp enc acc (.put pt p)) rest
    inferInstanceAs (Decidable (StoreOk enc acc pt p ∧ TraceOk enc (mirrorOp enc acc (.put pt p)) rest))
  | acc, .get pgno subno mask :: rest => decTraceOk enc (mirrorOp enc acc (.get pgno subno mask)) rest
  | acc, .clear :: rest => decTraceOk enc (mirrorOp enc acc .clear) rest

/-- the joint invariant -/
structure J (enc : Ttx.Page → Nat) (acc : State × Nat) (c : List Ttx.Page) : Prop where
  good : Good acc.1
  held : Held acc.1 acc.2
  sim : Sim acc.2 enc c acc.1

/-- look-up on both sides, any cache.c state satisfying the invariant (`C10Ttx.sim_get` is for reachable states) -/
theorem sim_get' {s : State} (h : InvW s) (nid : Nat) (enc : Ttx.Page → Nat) (c : List Ttx.Page)
    (hsim : Sim nid enc c s) (pgno subno mask : Nat) :
    Sim nid enc (Ttx.applyOp c (.get pgno subno mask)) (s.getPage nid pgno subno mask).1 := by
  show Sim nid enc (match Ttx.cacheGet c pgno subno mask with | some r => r.2 | none => c) _
  cases hv : validPgno pgno with
  | true =>
    obtain ⟨_, g2⟩ := getPage_abs h nid pgno subno mask hv
    obtain ⟨_, t2⟩ := tcacheGet_abs nid enc c pgno subno mask hv
    unfold Sim at hsim ⊢
    rw [g2, atouch_filter, hsim]; exact t2.symm
  | false =>
    have hg : Ttx.cacheGet c pgno subno mask = none := by
      unfold Ttx.cacheGet
      rw [if_pos]
      unfold validPgno at hv
      simp only [decide_eq_false_iff_not, not_and, Decidable.not_not, ne_eq] at hv
      simp only [Bool.or_eq_true, decide_eq_true_eq, beq_iff_eq]
      by_cases h1 : pgno < 0x100
      · exact Or.inl (Or.inl h1)
      · by_cases h2 : pgno > 0x8FF
        · exact Or.inl (Or.inr h2)
        · exact Or.inr (hv (by omega) (by omega))
    have hc : State.getPage s nid pgno subno mask = (s, none) := by
      unfold State.getPage
      rw [if_pos (by rw [hv]; rfl)]
    rw [hc, hg]
    exact hsim

/-- store on both sides, any cache.c state satisfying the invariant (`C10Ttx.sim_put` is for reachable states) -/
theorem sim_put' (fix : Bool) {s : State} (h : InvW s) (nid : Nat) (enc : Ttx.Page → Nat) (c : List Ttx.Page)
    (hsim : Sim nid enc c s) (cn : Net) (hf : s.findNet nid = some cn)
    (p : Ttx.Page) (hrange : 0x100 ≤ p.pgno ∧ p.pgno ≤ 0x8FF)
    (a : PutArg) (ha : a = ⟨p.pgno, p.subno, p.function, p.x26, p.x28, enc (tstored (cn.getStat p.pgno).ptype p)⟩)
    (hroom : s.memUsed + pageSize a.func a.x26 a.x28 ≤ s.memLimit)
    (c' : List Ttx.Page) (hc : Ttx.cachePutF fix c (cn.getStat p.pgno).ptype p = some c')
    (s' : State) (r : Option Page) (hres : s.putPageF fix nid a = .ok (s', r)) :
    r.map Page.entry = some (putEntry nid a (putKey (cn.getStat a.pgno).ptype a.pgno a.subno).1) ∧ Sim nid enc c' s' := by
  have hp : p.pgno < 4294967296 := by omega
  obtain ⟨hlow, t⟩ := tcachePutF_abs fix nid enc c (cn.getStat p.pgno).ptype p hp hc
  have hlow' : a.pgno &&& 0xFF ≠ 0xFF := by rw [ha]; exact hlow
  have hrange' : 0x100 ≤ a.pgno ∧ a.pgno ≤ 0x8FF := by rw [ha]; exact hrange
  obtain ⟨g1, g2⟩ := putPageF_abs fix h hf a hlow' hrange' hroom hres
  have he : putEntry nid a (putKey (cn.getStat a.pgno).ptype a.pgno a.subno).1
      = tentry nid enc (tstored (cn.getStat p.pgno).ptype p) := by
    rw [ha, tstored_eq]
    exact putEntry_tentry nid enc p (putKey (cn.getStat p.pgno).ptype p.pgno p.subno) _ rfl
  have hk : (putKey (cn.getStat a.pgno).ptype a.pgno a.subno).2 = (putKey (cn.getStat p.pgno).ptype p.pgno p.subno).2 := by
    rw [ha]
  unfold Sim at hsim ⊢
  refine ⟨g2, ?_⟩
  rw [g1, he, hk]
  have hnet : (tentry nid enc (tstored (cn.getStat p.pgno).ptype p)).net = nid := rfl
  have := aputF_filter fix s.abs (tentry nid enc (tstored (cn.getStat p.pgno).ptype p))
    (putKey (cn.getStat p.pgno).ptype p.pgno p.subno).2
  rw [hnet] at this
  rw [this, hsim, t]

/-- look-up and release keep the joint invariant -/
theorem step_get (enc : Ttx.Page → Nat) {acc : State × Nat} {c : List Ttx.Page} (j : J enc acc c) (pgno subno mask : Nat) :
    J enc (mirrorOp enc acc (.get pgno subno mask)) (Ttx.applyOp c (.get pgno subno mask)) := by
  have hG : Good (acc.1.getPage acc.2 pgno subno mask).1 := good_getPage j.good acc.2 pgno subno mask
  have hS := sim_get' j.good.1 acc.2 enc c j.sim pgno subno mask
  have hK := getPage_kept j.good (nid := acc.2) (pgno := pgno) (subno := (subno : Int)) (mask := mask)
  show J enc (match acc.1.getPage acc.2 pgno subno mask with
    | (s, some q) => (s.pageUnref q.id, acc.2)
    | (s, none) => (s, acc.2)) _
  generalize hr : acc.1.getPage acc.2 pgno subno mask = r at hG hS hK
  obtain ⟨s', o⟩ := r
  cases o with
  | none => exact ⟨hG, j.held.of_kept hK, hS⟩
  | some q =>
    obtain ⟨hf, hnz, hnet, hroom, _⟩ := getPage_some j.good hr
    have hh : Held s' q.net := by rw [hnet]; exact j.held.of_kept hK
    obtain ⟨ea, ek⟩ := pageUnref_abs hG.1 hf hnz hh hroom
    refine ⟨good_pageUnref hG q.id, (j.held.of_kept hK).of_kept ek, ?_⟩
    show Sim acc.2 enc _ (s'.pageUnref q.id)
    unfold Sim at hS ⊢
    rw [ea]; exact hS

/-- `vbi_chsw_reset` keeps the joint invariant (the decoder continues on the network handed out, with no page) -/
theorem step_clear (enc : Ttx.Page → Nat) {acc : State × Nat} {c : List Ttx.Page} (j : J enc acc c) :
    J enc (mirrorOp enc acc .clear) (Ttx.applyOp c .clear) := by
  obtain ⟨cn, hf, _⟩ := j.held.find j.good.1
  obtain ⟨S, nid', e, g, hh, hp⟩ := chsw_step j.good hf
  show J enc (match stepCur acc.1 (.chsw acc.2) with
    | (s, .net nid') => (s, nid')
    | (s, _) => (s, acc.2)) []
  rw [e]
  refine ⟨g, hh, ?_⟩
  show Sim nid' enc [] S
  unfold Sim
  show _ = tstore nid' enc []
  unfold State.abs tstore
  rw [List.map_nil, List.filter_eq_nil_iff]
  intro x hx
  obtain ⟨q, hq, rfl⟩ := List.mem_map.mp hx
  have := hp q (List.mem_filter.mp hq).1
  simp [Page.entry, this]

/-- page type write, store and release keep the joint invariant under `StoreOk` -/
theorem step_put (enc : Ttx.Page → Nat) {acc : State × Nat} {c : List Ttx.Page} (j : J enc acc c) (pt : Nat) (p : Ttx.Page)
    (hok : StoreOk enc acc pt p) :
    J enc (mirrorOp enc acc (.put pt p)) (Ttx.applyOp c (.put pt p)) := by
  obtain ⟨hpt, hrange, hroom, hput⟩ := hok
  obtain ⟨cn, hf, _⟩ := j.held.find j.good.1
  obtain ⟨a1, a2, a3, a4, cn0, hf0, hty⟩ := ptype_step j.good hf p.pgno pt hrange
  have g0 : Good (stepCur acc.1 (.ptype acc.2 p.pgno pt)).1 := good_stepF _ j.good _
  rw [Nat.mod_eq_of_lt hpt] at hty
  have hS0 : Sim acc.2 enc c (stepCur acc.1 (.ptype acc.2 p.pgno pt)).1 := by
    have := j.sim
    unfold Sim at this ⊢
    rw [a1]; exact this
  show J enc (match (stepCur acc.1 (.ptype acc.2 p.pgno pt)).1.putPageF putReplacesAllVersions acc.2
        ⟨p.pgno, p.subno, p.function, p.x26, p.x28, enc (tstored pt p)⟩ with
    | .ok (s', some q) => (s'.pageUnref q.id, acc.2)
    | .ok (s', none) => (s', acc.2)
    | .error _ => ((stepCur acc.1 (.ptype acc.2 p.pgno pt)).1, acc.2))
    (match Ttx.cachePut c pt p with | some c' => c' | none => c)
  generalize (stepCur acc.1 (.ptype acc.2 p.pgno pt)).1 = s0 at a1 a2 a3 a4 hf0 g0 hS0 hput ⊢
  generalize hres : s0.putPageF putReplacesAllVersions acc.2
        ⟨p.pgno, p.subno, p.function, p.x26, p.x28, enc (tstored pt p)⟩ = res at hput ⊢
  cases res with
  | error e => exact absurd hput id
  | ok sr =>
    obtain ⟨s', r⟩ := sr
    have hheld : Held s' acc.2 := by
      cases r with
      | none => exact hput
      | some q => exact hput.1
    have hq : ∀ q, r = some q → s'.findPage q.id = some q ∧ q.pri ≠ .zombie := by
      intro q e; subst e; exact hput.2
    obtain ⟨i1, i2, i3, i4, _⟩ := putPageF_all putReplacesAllVersions g0.1 g0.2.1 acc.2 _ hres
    have hm : s'.memUsed ≤ s'.memLimit := by
      have := j.good.2.2
      omega
    have gS : Good s' := ⟨i1, i2, hm⟩
    cases hc : Ttx.cachePut c pt p with
    | none =>
      have hlow : p.pgno &&& 0xFF = 0xFF := by
        revert hc
        unfold Ttx.cachePut Ttx.cachePutF
        split
        · rename_i h; intro _; simpa using h
        · generalize Ttx.putKey pt p.pgno p.subno = k
          obtain ⟨x, y⟩ := k
          intro h; cases h
      have hp0 : s0.putPageF putReplacesAllVersions acc.2
            ⟨p.pgno, p.subno, p.function, p.x26, p.x28, enc (tstored pt p)⟩ = .ok (s0, none) := by
        unfold State.putPageF
        rw [hf0]
        exact if_pos hlow
      rw [hp0] at hres
      injection hres with hres
      injection hres with h1 h2
      subst h1; subst h2
      exact ⟨gS, hheld, hS0⟩
    | some c' =>
      have hroom0 : s0.memUsed + pageSize p.function p.x26 p.x28 ≤ s0.memLimit := by omega
      obtain ⟨b1, b2⟩ := sim_put' putReplacesAllVersions g0.1 acc.2 enc c hS0 cn0 hf0 p hrange
        ⟨p.pgno, p.subno, p.function, p.x26, p.x28, enc (tstored pt p)⟩ (by rw [hty]) hroom0 c' (by rw [hty]; exact hc) s' r hres
      cases r with
      | none => exact ⟨gS, hheld, b2⟩
      | some q =>
        obtain ⟨hfq, hnz⟩ := hq q rfl
        simp only [Option.map_some, Option.some.injEq] at b1
        have hnet : q.net = acc.2 := congrArg Entry.net b1
        have hsz : q.size = pageSize p.function p.x26 p.x28 := by
          have e1 : q.func = p.function := congrArg Entry.func b1
          have e2 : q.x26 = p.x26 := congrArg Entry.x26 b1
          have e3 : q.x28 = p.x28 := congrArg Entry.x28 b1
          unfold Page.size
          rw [e1, e2, e3]
        have hh : Held s' q.net := by rw [hnet]; exact hheld
        obtain ⟨ea, ek⟩ := pageUnref_abs i1 hfq hnz hh (fun _ => by rw [hsz]; omega)
        refine ⟨good_pageUnref gS q.id, hheld.of_kept ek, ?_⟩
        show Sim acc.2 enc c' (s'.pageUnref q.id)
        unfold Sim at b2 ⊢
        rw [ea]; exact b2

/-- the joint invariant along a whole trace -/
theorem J_trace (enc : Ttx.Page → Nat) (ops : List Ttx.CacheOp) :
    ∀ (acc : State × Nat) (c : List Ttx.Page), J enc acc c → TraceOk enc acc ops →
      J enc (ops.foldl (mirrorOp enc) acc) (ops.foldl Ttx.applyOp c) := by
  induction ops with
  | nil => intro acc c j _; exact j
  | cons op rest ih =>
    intro acc c j hok
    rw [List.foldl_cons, List.foldl_cons]
    cases op with
    | get pgno subno mask => exact ih _ _ (step_get enc j pgno subno mask) hok
    | put pt p => exact ih _ _ (step_put enc j pt p hok.1) hok.2
    | clear => exact ih _ _ (step_clear enc j) hok

/-- the start: `vbi_cache_new`, then the decoder's first network -/
theorem J_init (enc : Ttx.Page → Nat) : J enc init.addNetwork [] := by
  refine ⟨?_, ?_, ?_⟩
  · have := good_stepF putReplacesAllVersions good_init .addNet
    exact this
  · exact ⟨_, List.mem_cons_self, rfl, Nat.succ_pos _⟩
  · unfold Sim; rfl

end Zvbi.CacheJoin
