import ZvbiModel.Ttx.Roundtrip13
/-!
# C02 round 5, part 1: packets other than page headers on a text-only decoder

`TextSlot fn`: the page in progress of a magazine is a Level 1 text page (`PAGE_FUNCTION_LOP`) or discarded.
`Plain s s' m`: the step from `s` to `s'` left the cache chain (content AND order), the page statistics and the
TOP link table alone, and slot `m` is still a text page or discarded.

`process_plain`: EVERY packet other than a page header (rows 1..25, X/26, X/27, X/28, M/29, 8/30, anything else),
arriving for a magazine whose page in progress is a text page or discarded, is `Plain`: no look-up, no store, no
page type is written.  (The table parsers `parse_btt`, `parse_mpt`, `parse_mpt_ex`, `parse_mip` and the
`BTT_SUBTITLE` look-up are reached only from pages of function BTT / MPT / MPT-EX / MIP.)
-/
namespace Zvbi.Ttx
open Zvbi.Hamm Zvbi.Gen Zvbi.Ttx.Spec

/-- the page in progress is a Level 1 text page or discarded -/
def TextSlot (fn : Int) : Prop := fn = FN_LOP ∨ fn = FN_DISCARD

/-- cache chain, page statistics, TOP links untouched; slot `m` still text / discarded -/
structure Plain (s s' : St) (m : Nat) : Prop where
  cache : s'.net.cache = s.net.cache
  stat : s'.net.stat = s.net.stat
  btt : s'.net.bttLink = s.net.bttLink
  fn : TextSlot (s'.rp m).page.function

theorem Plain.refl (s : St) (m : Nat) (h : TextSlot (s.rp m).page.function) : Plain s s m := ⟨rfl, rfl, rfl, h⟩

theorem plain_setRp (s : St) (m : Nat) (x : RawPage) (h : TextSlot (s.rp m).page.function)
    (hx : TextSlot x.page.function) : Plain s (s.setRp m x) m := by
  refine ⟨rfl, rfl, rfl, ?_⟩
  by_cases hl : m < s.raw.length
  · rw [rp_setRp_same s m x hl]; exact hx
  · rw [setRp_ge s m x hl]; exact h

theorem plain_setPage (s : St) (m : Nat) (pg : Page) (h : TextSlot (s.rp m).page.function)
    (hx : TextSlot pg.function) : Plain s (s.setPage m pg) m := by
  unfold St.setPage
  exact plain_setRp s m _ h hx

/-- rows 1..25 -/
theorem processRow_plain (s : St) (mag0 mag8 packet : Nat) (v : View) (h : TextSlot (s.rp mag0).page.function) :
    Plain s (processRow s mag0 mag8 packet v).st mag0 := by
  rcases h with hf | hf
  · rw [processRow_lop s mag0 mag8 packet v hf]
    exact plain_setRp s mag0 _ (Or.inl hf) (Or.inl hf)
  · have : processRow s mag0 mag8 packet v = ⟨s, [], true⟩ := by
      unfold processRow
      simp only [hf]
      simp
    rw [this]
    exact Plain.refl s mag0 (Or.inr hf)

/-- X/26 -/
theorem process26_plain (s : St) (mag0 : Nat) (v : View) (h : TextSlot (s.rp mag0).page.function) :
    Plain s (process26 s mag0 v).st mag0 := by
  unfold process26
  simp only []
  split
  · exact Plain.refl s mag0 h
  · split
    · exact Plain.refl s mag0 h
    · split
      · rename_i hd
        exfalso
        have := (x26Desync_iff _).mp hd
        rcases h with hf | hf <;> rw [hf] at this <;> revert this <;> decide
      · split
        · exact Plain.refl s mag0 h
        · split
          · exact plain_setRp s mag0 _ h h
          · exact plain_setRp s mag0 _ h h

/-- X/27 -/
theorem parse27_plain (s : St) (mag0 : Nat) (v : View) (h : TextSlot (s.rp mag0).page.function) :
    Plain s (s.setPage mag0 (parse27 (s.rp mag0).page v mag0).1) mag0 := by
  obtain ⟨a, _⟩ := parse27_same (s.rp mag0).page v mag0
  exact plain_setPage s mag0 _ h (by rw [a]; exact h)

theorem storeExt_plain (s : St) (mag0 mag8 packet : Nat) (cv : Page) (ext : Ext)
    (h : TextSlot (s.rp mag0).page.function) (hc : cv.function = (s.rp mag0).page.function) :
    Plain s (storeExt s mag0 mag8 packet cv ext) mag0 := by
  unfold storeExt
  split
  · exact plain_setPage s mag0 _ h (by show TextSlot cv.function; rw [hc]; exact h)
  · exact ⟨rfl, rfl, rfl, h⟩

/-- X/28, M/29 -/
theorem parse2829_plain (s : St) (mag0 mag8 packet : Nat) (v : View) (h : TextSlot (s.rp mag0).page.function) :
    Plain s (parse2829 s mag0 mag8 packet v).1 mag0 := by
  unfold parse2829
  simp only []
  split
  · exact Plain.refl s mag0 h
  · exact storeExt_plain s mag0 mag8 packet _ _ h (selectExt_same s mag0 mag8 packet _).1
  · exact storeExt_plain s mag0 mag8 packet _ _ h (selectExt_same s mag0 mag8 packet _).1
  · rename_i function modes f hdec
    obtain ⟨hu, _⟩ := x28Decide_becomeDrcs _ _ _ _ _ _ hdec
    exfalso
    rcases h with hf | hf <;> rw [hf] at hu <;> revert hu <;> decide
  · exact plain_setPage s mag0 _ h h
  · exact plain_setPage s mag0 _ h (Or.inr rfl)

/-- 8/30 -/
theorem parse830_plain (s : St) (v : View) (m : Nat) (h : TextSlot (s.rp m).page.function) :
    Plain s (parse830 s v).1 m := by
  unfold parse830
  repeat' split
  all_goals exact ⟨rfl, rfl, rfl, h⟩

/-- **every packet but a page header**, for a magazine whose page in progress is a text page or discarded -/
theorem process_plain (s : St) (pmag : Nat) (v : View) (h0 : pmag >>> 3 ≠ 0)
    (h : TextSlot (s.rp (pmag &&& 7)).page.function) : Plain s (process s pmag v).1.st (pmag &&& 7) := by
  unfold process
  simp only []
  by_cases c1 : (decide (pmag >>> 3 < 30) && !s.mask) = true
  · rw [if_pos c1]; exact Plain.refl s _ h
  rw [if_neg c1]
  have c2 : ¬ (pmag >>> 3 == 0) = true := by simpa using h0
  rw [if_neg c2]
  by_cases c3 : pmag >>> 3 ≤ 25
  · rw [if_pos c3]; exact processRow_plain s _ _ _ v h
  rw [if_neg c3]
  by_cases c4 : (pmag >>> 3 == 26) = true
  · rw [if_pos c4]; exact process26_plain s _ v h
  rw [if_neg c4]
  by_cases c5 : (pmag >>> 3 == 27) = true
  · rw [if_pos c5]; exact parse27_plain s _ v h
  rw [if_neg c5]
  by_cases c6 : (pmag >>> 3 == 28 && (s.rp (pmag &&& 7)).page.function == FN_DISCARD) = true
  · rw [if_pos c6]; exact Plain.refl s _ h
  rw [if_neg c6]
  by_cases c7 : pmag >>> 3 ≤ 29
  · rw [if_pos c7]; exact parse2829_plain s _ _ _ v h
  rw [if_neg c7]
  by_cases c8 : (pmag &&& 15 == 0) = true
  · rw [if_pos c8]; exact parse830_plain s v _ h
  rw [if_neg c8]
  exact Plain.refl s _ h

/-- ... through `vbi_decode_teletext` -/
theorem decode_plain (s : St) (p : Packet) (pmag : Nat) (ha : a16 p 0 = some pmag) (h0 : pmag >>> 3 ≠ 0)
    (h : TextSlot (s.rp (pmag &&& 7)).page.function) : Plain s (decodeTeletext s p).st (pmag &&& 7) := by
  unfold decodeTeletext
  rw [ha]
  simp only []
  obtain ⟨_, _, h3⟩ := process_quiet s pmag (view (kindOf s pmag (a8 p 2)) p) h0
  unfold finish
  rw [h3]
  simp only [Bool.false_eq_true, if_false]
  exact process_plain s pmag _ h0 h

end Zvbi.Ttx
