import ZvbiModel.Ttx.Roundtrip9
/-!
# C02 round 6, part 1: the page's OWN packets X/26, X/27, X/28 (and M/29 of its magazine) between its rows

`AuxKept a b`: the `raw_page` slot `b` differs from `a` at most in the enhancement triplets (`enh`, `x26_designations`,
`num_triplets`), the FLOF links (`link`, `have_flof`, `x27_designations`) and the extension record (`ext`,
`x28_designations`): page function, numbers, national option, control bits, the stored rows, the rows collected in
`lop_raw` and the `lop_packets` bits are the same.

`own_aux_decode`: a packet number 26..29 of magazine `m`, arriving while the page in progress of `m` is a Level 1 text
page, is `AuxKept` for slot `m`, `Quiet` for everything else, leaves the cache chain alone and emits table-parser
diagnostics only - with ONE sender-side condition: an X/28 packet must not carry designation 3 (X/28/3 declares the
page a DRCS page: packet.c `parse_28_29` then DISCARDS a page that was opened as text, `x28Decide .. = .discard`).
-/
namespace Zvbi.Ttx
open Zvbi.Hamm Zvbi.Gen Zvbi.Ttx.Spec

/-- the slot keeps everything the round trip talks about; only enhancement / link / extension data may differ -/
structure AuxKept (a b : RawPage) : Prop where
  fn : b.page.function = a.page.function
  pgno : b.page.pgno = a.page.pgno
  subno : b.page.subno = a.page.subno
  national : b.page.national = a.page.national
  flags : b.page.flags = a.page.flags
  raw : b.page.raw = a.page.raw
  lr : b.lopRaw = a.lopRaw
  lp : b.lopPackets = a.lopPackets

theorem AuxKept.refl (a : RawPage) : AuxKept a a := ⟨rfl, rfl, rfl, rfl, rfl, rfl, rfl, rfl⟩

/-- two page records that agree in everything the round trip talks about (function, numbers, national option, control
    bits, rows); enhancement / link / extension data are free -/
structure SameText (a b : Page) : Prop where
  fn : b.function = a.function
  pgno : b.pgno = a.pgno
  subno : b.subno = a.subno
  national : b.national = a.national
  flags : b.flags = a.flags
  raw : b.raw = a.raw

theorem SameText.refl (a : Page) : SameText a a := ⟨rfl, rfl, rfl, rfl, rfl, rfl⟩

theorem SameText.trans {a b c : Page} (h1 : SameText a b) (h2 : SameText b c) : SameText a c :=
  ⟨h2.fn.trans h1.fn, h2.pgno.trans h1.pgno, h2.subno.trans h1.subno, h2.national.trans h1.national,
    h2.flags.trans h1.flags, h2.raw.trans h1.raw⟩

theorem AuxKept.text {a b : RawPage} (h : AuxKept a b) : SameText a.page b.page :=
  ⟨h.fn, h.pgno, h.subno, h.national, h.flags, h.raw⟩

theorem AuxKept.trans {a b c : RawPage} (h1 : AuxKept a b) (h2 : AuxKept b c) : AuxKept a c :=
  ⟨h2.fn.trans h1.fn, h2.pgno.trans h1.pgno, h2.subno.trans h1.subno, h2.national.trans h1.national,
    h2.flags.trans h1.flags, h2.raw.trans h1.raw, h2.lr.trans h1.lr, h2.lp.trans h1.lp⟩

/-- **X/26** on a text page: triplets appended to `enh`, designation bit set in `x26_designations`, or `num_triplets`
    invalidated; nothing else -/
theorem process26_kept (s : St) (m : Nat) (v : View) (hfn : (s.rp m).page.function = FN_LOP) (hl : m < s.raw.length) :
    AuxKept (s.rp m) ((process26 s m v).st.rp m) ∧ (process26 s m v).st.net = s.net := by
  unfold process26
  simp only []
  have c1 : ((s.rp m).page.function == FN_DISCARD) = false := by rw [hfn]; decide
  have c2 : ((s.rp m).page.function == FN_GPOP || (s.rp m).page.function == FN_POP) = false := by rw [hfn]; decide
  have c3 : ((s.rp m).page.function == FN_GDRCS || (s.rp m).page.function == FN_DRCS || (s.rp m).page.function == FN_BTT
      || (s.rp m).page.function == FN_AIT || (s.rp m).page.function == FN_MPT || (s.rp m).page.function == FN_MPT_EX) = false := by
    rw [hfn]; decide
  simp only [c1, c2, c3, Bool.false_eq_true, if_false]
  split
  · exact ⟨AuxKept.refl _, rfl⟩
  · split
    · refine ⟨?_, rfl⟩
      rw [rp_setRp_same s m _ hl]
      exact ⟨rfl, rfl, rfl, rfl, rfl, rfl, rfl, rfl⟩
    · refine ⟨?_, rfl⟩
      rw [rp_setRp_same s m _ hl]
      exact ⟨rfl, rfl, rfl, rfl, rfl, rfl, rfl, rfl⟩

theorem parse27_national (cv : Page) (v : View) (m : Nat) : (parse27 cv v m).1.national = cv.national := by
  unfold parse27
  simp only []
  repeat' split
  all_goals rfl

/-- **X/27** on a text page: `link[]` / `have_flof` only -/
theorem parse27_kept (s : St) (m : Nat) (v : View) (hl : m < s.raw.length) :
    AuxKept (s.rp m) ((s.setPage m (parse27 (s.rp m).page v m).1).rp m) := by
  obtain ⟨a, b, c, d, e⟩ := parse27_same (s.rp m).page v m
  rw [rp_setPage_same s m _ hl]
  exact ⟨a, b, c, parse27_national _ _ _, d, e, rfl, rfl⟩

/-- without designation 3 (or as M/29) `parse_28_29` returns, updates an extension record or a DRCS CLUT -/
theorem x28Decide_safe (f : Int) (packet : Nat) (v : View) (h : packet = 29 ∨ v.g8 0 ≠ some 3) :
    (∃ r, x28Decide f packet v = .nop r) ∨ (∃ d bs, x28Decide f packet v = .ext04 d bs)
      ∨ (∃ bs, x28Decide f packet v = .clut bs) := by
  unfold x28Decide
  cases hg : v.g8 0 with
  | none => exact Or.inl ⟨_, rfl⟩
  | some d =>
    simp only []
    by_cases h1 : (d == 0 || d == 4) = true
    · rw [if_pos h1]
      repeat' split
      all_goals first
        | exact Or.inl ⟨_, rfl⟩
        | exact Or.inr (Or.inl ⟨_, _, rfl⟩)
    rw [if_neg h1]
    by_cases h2 : (d == 1) = true
    · rw [if_pos h2]
      split
      · exact Or.inl ⟨_, rfl⟩
      · exact Or.inr (Or.inr ⟨_, rfl⟩)
    rw [if_neg h2]
    by_cases h3 : (d == 3) = true
    · rw [if_pos h3]
      have hd : d = 3 := by simpa using h3
      rcases h with h | h
      · have : (packet == 29) = true := by rw [h]; rfl
        rw [if_pos this]
        exact Or.inl ⟨_, rfl⟩
      · rw [hg, hd] at h
        exact absurd rfl h
    rw [if_neg h3]
    exact Or.inl ⟨_, rfl⟩

theorem selectExt_national (s : St) (mag0 mag8 packet d : Nat) :
    (selectExt s mag0 mag8 packet d).2.national = (s.rp mag0).page.national := by
  unfold selectExt
  simp only []
  split
  · split <;> rfl
  · rfl

theorem storeExt_kept (s : St) (mag0 mag8 packet : Nat) (cv : Page) (ext : Ext) (hl : mag0 < s.raw.length)
    (h : cv.function = (s.rp mag0).page.function ∧ cv.pgno = (s.rp mag0).page.pgno
      ∧ cv.subno = (s.rp mag0).page.subno ∧ cv.flags = (s.rp mag0).page.flags ∧ cv.raw = (s.rp mag0).page.raw)
    (hn : cv.national = (s.rp mag0).page.national) :
    AuxKept (s.rp mag0) ((storeExt s mag0 mag8 packet cv ext).rp mag0)
      ∧ (storeExt s mag0 mag8 packet cv ext).net.cache = s.net.cache := by
  unfold storeExt
  obtain ⟨a, b, c, d, e⟩ := h
  split
  · refine ⟨?_, rfl⟩
    rw [rp_setPage_same s mag0 _ hl]
    exact ⟨a, b, c, hn, d, e, rfl, rfl⟩
  · exact ⟨AuxKept.refl _, rfl⟩

/-- **X/28 (designation ≠ 3) and M/29** on a text page: the page's / the magazine's extension record only -/
theorem parse2829_kept (s : St) (mag0 mag8 packet : Nat) (v : View) (hl : mag0 < s.raw.length)
    (h : packet = 29 ∨ v.g8 0 ≠ some 3) :
    AuxKept (s.rp mag0) ((parse2829 s mag0 mag8 packet v).1.rp mag0)
      ∧ (parse2829 s mag0 mag8 packet v).1.net.cache = s.net.cache := by
  unfold parse2829
  simp only []
  rcases x28Decide_safe (s.rp mag0).page.function packet v h with ⟨r, e⟩ | ⟨d, bs, e⟩ | ⟨bs, e⟩
  · rw [e]; exact ⟨AuxKept.refl _, rfl⟩
  · rw [e]
    exact storeExt_kept s mag0 mag8 packet _ _ hl (selectExt_same s mag0 mag8 packet _) (selectExt_national s mag0 mag8 packet _)
  · rw [e]
    exact storeExt_kept s mag0 mag8 packet _ _ hl (selectExt_same s mag0 mag8 packet _) (selectExt_national s mag0 mag8 packet _)

theorem view_trip_g8 (p : Packet) : (view Kind.trip p).g8 0 = a8 p 2 := rfl

/-- the packets of a page that are not rows: X/26, X/27, X/28 and the magazine's M/29; an X/28 must not be X/28/3 -/
def IsAux (p : Packet) (k : Nat) : Prop := 26 ≤ k ∧ k ≤ 29 ∧ (k = 28 → a8 p 2 ≠ some 3)

instance (p : Packet) (k : Nat) : Decidable (IsAux p k) := by unfold IsAux; infer_instance

/-- **an own packet 26..29** through `process` -/
theorem process_aux_kept (s : St) (p : Packet) (m k : Nat) (hm : m < 8) (hk : IsAux p k) (hmask : s.mask = true)
    (hfn : (s.rp m).page.function = FN_LOP) (hl : m < s.raw.length) :
    let r := process s (m + 8 * k) (view (kindOf s (m + 8 * k) (a8 p 2)) p)
    AuxKept (s.rp m) (r.1.st.rp m) ∧ r.1.st.net.cache = s.net.cache := by
  obtain ⟨k1, k2, k3⟩ := hk
  obtain ⟨a1, a2⟩ := addr_split m hm k (by omega)
  intro r
  show AuxKept (s.rp m) ((process s (m + 8 * k) (view (kindOf s (m + 8 * k) (a8 p 2)) p)).1.st.rp m)
    ∧ (process s (m + 8 * k) (view (kindOf s (m + 8 * k) (a8 p 2)) p)).1.st.net.cache = s.net.cache
  unfold process
  simp only [a1, a2, hmask]
  have c0 : (decide (k < 30) && !true) = false := by simp
  have c1 : (k == 0) = false := by
    have : k ≠ 0 := by omega
    simpa using this
  have c2 : ¬ k ≤ 25 := by omega
  simp only [c0, c1, c2, Bool.false_eq_true, if_false]
  by_cases e26 : k = 26
  · subst e26
    simp only [show ((26 : Nat) == 26) = true from rfl, if_true]
    obtain ⟨h1, h2⟩ := process26_kept s m (view (kindOf s (m + 8 * 26) (a8 p 2)) p) hfn hl
    exact ⟨h1, by rw [h2]⟩
  by_cases e27 : k = 27
  · subst e27
    simp only [show ((27 : Nat) == 26) = false from rfl, show ((27 : Nat) == 27) = true from rfl, Bool.false_eq_true,
      if_false, if_true]
    exact ⟨parse27_kept s m _ hl, rfl⟩
  have d1 : (k == 26) = false := by simpa using e26
  have d2 : (k == 27) = false := by simpa using e27
  have d3 : ((s.rp m).page.function == FN_DISCARD) = false := by rw [hfn]; decide
  have d4 : k ≤ 29 := k2
  simp only [d1, d2, d3, d4, Bool.false_eq_true, Bool.and_false, if_false, if_true]
  apply parse2829_kept s m _ k _ hl
  by_cases e29 : k = 29
  · exact Or.inl e29
  · right
    have e28 : k = 28 := by omega
    have hkind : kindOf s (m + 8 * k) (a8 p 2) = Kind.trip := by
      unfold kindOf
      simp only [a1, a2, hmask, d3]
      rw [e28]
      simp
    rw [hkind, view_trip_g8]
    exact k3 e28

/-- **an own packet 26..29** through `vbi_decode_teletext` -/
theorem own_aux_decode (s : St) (p : Packet) (m k : Nat) (hp : IsPacket p m k) (hk : IsAux p k) (hmask : s.mask = true)
    (hfn : (s.rp m).page.function = FN_LOP) (hl : m < s.raw.length) :
    AuxKept (s.rp m) ((decodeTeletext s p).st.rp m) ∧ (decodeTeletext s p).st.net.cache = s.net.cache
      ∧ Quiet s (decodeTeletext s p).st m ∧ Silent (decodeTeletext s p).ev := by
  obtain ⟨hm, hk32, ha⟩ := hp
  obtain ⟨a1, a2⟩ := addr_split m hm k hk32
  have h0 : (m + 8 * k) >>> 3 ≠ 0 := by rw [a2]; have := hk.1; omega
  obtain ⟨hq, hs⟩ := decode_quiet s p (m + 8 * k) ha h0
  rw [a1] at hq
  have hquiet : Quiet s (decodeTeletext s p).st m := by
    rcases hq with hq | ⟨_, _, _, hx⟩
    · exact hq
    · exfalso; rw [hfn] at hx; revert hx; decide
  refine ⟨?_, ?_, hquiet, hs⟩
  all_goals
    have key := process_aux_kept s p m k hm hk hmask hfn hl
    simp only [] at key
    unfold decodeTeletext
    rw [ha]
    simp only []
    obtain ⟨_, _, h3⟩ := process_quiet s (m + 8 * k) (view (kindOf s (m + 8 * k) (a8 p 2)) p) h0
    unfold finish
    rw [h3]
    simp only [Bool.false_eq_true, if_false]
  · exact key.1
  · exact key.2

/-- ... and through one `vbi_decode` frame -/
theorem own_aux_step (s : St) (p : Packet) (m k : Nat) (hp : IsPacket p m k) (hk : IsAux p k) (hcd : s.chswcd = 0)
    (hmask : s.mask = true) (hfn : (s.rp m).page.function = FN_LOP) (hl : m < s.raw.length) :
    AuxKept (s.rp m) ((step s p).1.rp m) ∧ (step s p).1.net.cache = s.net.cache
      ∧ Quiet (tick s) (step s p).1 m ∧ Silent (step s p).2 := by
  rw [step_eq_decode s p hcd]
  exact own_aux_decode (tick s) p m k hp hk hmask hfn hl

end Zvbi.Ttx
