import ZvbiModel.Ttx.Lemmas3
/-!
# Lemmas for C03, part 4: the row-wise parity gate and X/26 placement
-/
namespace Zvbi.Ttx
open Zvbi.Hamm Zvbi.Gen Zvbi.Ttx.Spec

theorem getD_set_rows (l : List (List Nat)) (i n : Nat) (row d : List Nat) :
    (l.set i row).getD n d = l.getD n d ∨ (n = i ∧ (l.set i row).getD n d = row) := by
  simp only [List.getD_eq_getElem?_getD, List.getElem?_set]
  by_cases h : i = n
  · subst h
    by_cases hl : i < l.length
    · right; simp [hl]
    · left
      have : l[i]? = none := by simp; omega
      simp [hl, this]
  · left; simp [h]

/-- one iteration of the parity loop: row `n` is untouched, or it is row `k + 1`, now equal to
    the received row, all of whose bytes have odd parity -/
theorem parityRow_row (lr : List (List Nat)) (lp : Nat) (cv : Page) (k n : Nat) :
    (parityRow lr lp cv k).raw.getD n zeroRow = cv.raw.getD n zeroRow ∨
    (n = k + 1 ∧ (parityRow lr lp cv k).raw.getD n zeroRow = lr.getD n zeroRow
      ∧ (lr.getD n zeroRow).all oddPar = true) := by
  unfold parityRow
  simp only []
  split
  · left; rfl
  · split
    · rename_i hodd
      rcases getD_set_rows cv.raw (k + 1) n (lr.getD (k + 1) zeroRow) zeroRow with h | ⟨hn, h⟩
      · left; exact h
      · right; subst hn; exact ⟨rfl, h, hodd⟩
    · left; rfl

theorem parityRow_keys (lr : List (List Nat)) (lp : Nat) (cv : Page) (k : Nat) :
    (parityRow lr lp cv k).pgno = cv.pgno ∧ (parityRow lr lp cv k).subno = cv.subno
    ∧ (parityRow lr lp cv k).function = cv.function := by
  unfold parityRow
  simp only []
  split
  · exact ⟨rfl, rfl, rfl⟩
  · split <;> exact ⟨rfl, rfl, rfl⟩

theorem parityFold_row (lr : List (List Nat)) (lp : Nat) (ks : List Nat) (cv : Page) (n : Nat) :
    (ks.foldl (parityRow lr lp) cv).raw.getD n zeroRow = cv.raw.getD n zeroRow ∨
    (1 ≤ n ∧ (n - 1) ∈ ks ∧ (ks.foldl (parityRow lr lp) cv).raw.getD n zeroRow = lr.getD n zeroRow
      ∧ (lr.getD n zeroRow).all oddPar = true) := by
  induction ks generalizing cv with
  | nil => left; rfl
  | cons k ks ih =>
    simp only [List.foldl_cons]
    rcases ih (parityRow lr lp cv k) with h | ⟨h1, hm, he, ho⟩
    · rcases parityRow_row lr lp cv k n with h' | ⟨hn, he, ho⟩
      · left; rw [h, h']
      · right
        refine ⟨by omega, ?_, by rw [h, he], ho⟩
        subst hn; simp
    · right
      exact ⟨h1, List.mem_cons_of_mem _ hm, he, ho⟩

theorem parityFold_keys (lr : List (List Nat)) (lp : Nat) (ks : List Nat) (cv : Page) :
    (ks.foldl (parityRow lr lp) cv).pgno = cv.pgno ∧ (ks.foldl (parityRow lr lp) cv).subno = cv.subno
    ∧ (ks.foldl (parityRow lr lp) cv).function = cv.function := by
  induction ks generalizing cv with
  | nil => exact ⟨rfl, rfl, rfl⟩
  | cons k ks ih =>
    simp only [List.foldl_cons]
    obtain ⟨a, b, c⟩ := ih (parityRow lr lp cv k)
    obtain ⟨a', b', c'⟩ := parityRow_keys lr lp cv k
    exact ⟨a.trans a', b.trans b', c.trans c'⟩

/-- **parity gate** on `lop_parity_check`: every row of the page that goes to the cache is the row
    the page had before, or (rows 1..25 only) the received row after the X/26 column fix-ups, and
    then all 40 bytes of it have odd parity -/
theorem lopParityCheck_row (cv : Page) (rv : RawPage) (n : Nat) :
    (lopParityCheck cv rv).1.raw.getD n zeroRow = cv.raw.getD n zeroRow ∨
    (1 ≤ n ∧ n ≤ 25 ∧ (lopParityCheck cv rv).1.raw.getD n zeroRow = (lopParityCheck cv rv).2.lopRaw.getD n zeroRow
      ∧ ((lopParityCheck cv rv).2.lopRaw.getD n zeroRow).all oddPar = true) := by
  unfold lopParityCheck
  simp only []
  rcases parityFold_row _ rv.lopPackets (List.range 25) cv n with h | ⟨h1, hm, he, ho⟩
  · left; exact h
  · right
    rw [List.mem_range] at hm
    exact ⟨h1, by omega, he, ho⟩

theorem lopParityCheck_keys (cv : Page) (rv : RawPage) :
    (lopParityCheck cv rv).1.pgno = cv.pgno ∧ (lopParityCheck cv rv).1.subno = cv.subno
    ∧ (lopParityCheck cv rv).1.function = cv.function := by
  unfold lopParityCheck
  simp only []
  exact parityFold_keys _ _ _ _

end Zvbi.Ttx

namespace Zvbi.Ttx
open Zvbi.Hamm Zvbi.Gen Zvbi.Ttx.Spec

theorem x26Step_frame (v : View) (acc : List Triplet × Nat × List Aux × Bool) (i : Nat) (d : Triplet) :
    acc.2.1 ≤ (x26Step v acc i).2.1 ∧ (x26Step v acc i).2.1 ≤ acc.2.1 + 1 ∧
    ∀ idx, idx ≠ acc.2.1 → (x26Step v acc i).1.getD idx d = acc.1.getD idx d := by
  obtain ⟨enh, nt, ev, brk⟩ := acc
  unfold x26Step
  simp only []
  split
  · exact ⟨Nat.le_refl _, Nat.le_succ _, fun _ _ => rfl⟩
  · split
    · exact ⟨Nat.le_refl _, Nat.le_succ _, fun _ _ => rfl⟩
    · split
      · refine ⟨Nat.le_succ _, Nat.le_refl _, ?_⟩
        intro idx hne
        simp only [List.getD_eq_getElem?_getD, List.getElem?_set]
        have : nt ≠ idx := fun h => hne h.symm
        simp [this]
      · exact ⟨Nat.le_succ _, Nat.le_refl _, fun _ _ => rfl⟩

theorem x26Fold_frame (v : View) (is : List Nat) (acc : List Triplet × Nat × List Aux × Bool) (d : Triplet) :
    acc.2.1 ≤ (is.foldl (x26Step v) acc).2.1 ∧ (is.foldl (x26Step v) acc).2.1 ≤ acc.2.1 + is.length ∧
    ∀ idx, (idx < acc.2.1 ∨ acc.2.1 + is.length ≤ idx) →
      (is.foldl (x26Step v) acc).1.getD idx d = acc.1.getD idx d := by
  induction is generalizing acc with
  | nil => exact ⟨Nat.le_refl _, Nat.le_refl _, fun _ _ => rfl⟩
  | cons i is ih =>
    simp only [List.foldl_cons, List.length_cons]
    obtain ⟨a1, a2, a3⟩ := x26Step_frame v acc i d
    obtain ⟨b1, b2, b3⟩ := ih (x26Step v acc i)
    refine ⟨by omega, by omega, ?_⟩
    intro idx hidx
    rw [b3 idx (by omega), a3 idx (by omega)]

/-- **X/26 placement**: the triplets of an accepted packet with designation `d` go to
    `enh[13 d .. 13 d + 12]`; every other entry of `enh` is untouched and the fill level ends
    between `13 d` and `13 d + 13` -/
theorem x26Triplets_frame (v : View) (enh : List Triplet) (nt : Nat) (d : Triplet) :
    nt ≤ (x26Triplets v enh nt).2.1 ∧ (x26Triplets v enh nt).2.1 ≤ nt + 13 ∧
    ∀ idx, (idx < nt ∨ nt + 13 ≤ idx) → (x26Triplets v enh nt).1.getD idx d = enh.getD idx d := by
  unfold x26Triplets
  simp only []
  have := x26Fold_frame v (List.range 13) (enh, nt, [], false) d
  simpa using this

end Zvbi.Ttx
