import ZvbiModel.Ttx.Roundtrip6
/-!
# Lemmas for C02 `page_roundtrip`, part 7: one transmission from header to cache

`Tx` (the decoded header fields), `page_assembled` (header + rows => `Assembled`), `page_stored`
(the header of another page of the magazine, parallel mode => `Fetched` entry at the head of the
cache chain, one TTX_PAGE event), (iv) `lookupPrev_find`, `cacheGet_of_find`, `find_head`.
-/
namespace Zvbi.Ttx
open Zvbi.Hamm Zvbi.Gen Zvbi.Ttx.Spec

/-! ## arithmetic of page numbers and flags -/

theorem pgno_facts (m page : Nat) (hm : m < 8) (hdec : decimalPage page) :
    validPgno (mag8Of m * 256 + page) ∧ (mag8Of m * 256 + page) &&& 0xFF = page := by
  have h8 : 1 ≤ mag8Of m ∧ mag8Of m ≤ 8 := by
    unfold mag8Of; by_cases h : m = 0
    · subst h; decide
    · have : (m == 0) = false := by simpa using h
      rw [this]; simp; omega
  obtain ⟨d1, _⟩ := hdec
  have hand : (mag8Of m * 256 + page) &&& 0xFF = page := by
    have := Nat.and_two_pow_sub_one_eq_mod (mag8Of m * 256 + page) 8
    simp only [show (2:Nat) ^ 8 - 1 = 0xFF by decide, show (2:Nat)^8 = 256 by decide] at this
    rw [this]; omega
  refine ⟨⟨by omega, by omega, ?_⟩, hand⟩
  rw [hand]; omega

theorem isBcd_pgno : ∀ m < 8, ∀ page < 256, page ≤ 0x99 → page &&& 15 ≤ 9 → isBcd (mag8Of m * 256 + page) = true := by
  decide +kernel

theorem fl_bit4 : ∀ fl < 256, fl &&& 0x10 = 0 → fl / 16 % 2 = 0 := by decide +kernel

theorem c11_clear (fl sp : Nat) (hfl : fl < 256) (hsp : sp < 65536) (h : fl &&& 0x10 = 0) :
    ((fl <<< 16) + sp) &&& C11_MAGAZINE_SERIAL = 0
    ∧ (((fl <<< 16) + sp) ||| C4_ERASE_PAGE) &&& C11_MAGAZINE_SERIAL = 0 := by
  have hb := fl_bit4 fl hfl h
  have e20 : C11_MAGAZINE_SERIAL = 1 <<< 20 := by decide
  have t1 : ((fl <<< 16) + sp).testBit 20 = false := by
    rw [Nat.testBit_eq_decide_div_mod_eq, Nat.shiftLeft_eq]
    simp only [show (2:Nat)^16 = 65536 by decide, show (2:Nat)^20 = 1048576 by decide]
    have : (fl * 65536 + sp) / 1048576 = fl / 16 := by omega
    rw [this, hb]; decide
  have t2 : (((fl <<< 16) + sp) ||| C4_ERASE_PAGE).testBit 20 = false := by
    rw [Nat.testBit_or, t1]; decide
  constructor
  · have := bit_test ((fl <<< 16) + sp) 20
    rw [t1, ← e20] at this
    simpa using this
  · have := bit_test (((fl <<< 16) + sp) ||| C4_ERASE_PAGE) 20
    rw [t2, ← e20] at this
    simpa using this


theorem step_eq_decode (s : St) (p : Packet) (hcd : s.chswcd = 0) :
    step s p = ((decodeTeletext (tick s) p).st, (decodeTeletext (tick s) p).ev) := by
  unfold step
  rw [frameTick_idle s hcd]
  simp [tick]

/-! ## one transmission: header, rows -/

/-- the page number, sub-code word and flags a header carries -/
structure Tx where
  m : Nat
  page : Nat
  s12 : Nat
  s34 : Nat
  fl : Nat

def Tx.pgno (t : Tx) : Nat := mag8Of t.m * 256 + t.page
def Tx.subpage (t : Tx) : Nat := t.s12 + t.s34 * 256
def Tx.subno (t : Tx) : Nat := t.subpage &&& 0x3F7F

/-- the previous version the header finds in the cache (none with the erase flag C4) -/
def Tx.prev (t : Tx) (s1 : St) : Option Page := (lookupPrev s1.net t.pgno t.subpage t.fl).1

/-- the rows the new transmission starts from: the cached version's, or blanks; row 0 = the header -/
def Tx.base (t : Tx) (s1 : St) (hdr : Packet) : List (List Nat) :=
  match t.prev s1 with
  | some q => q.raw.set 0 (payload hdr)
  | none => payload hdr :: List.replicate 25 blankRow

def Tx.flags (t : Tx) (s1 : St) : Nat :=
  match t.prev s1 with
  | some _ => (t.fl <<< 16) + t.subpage
  | none => ((t.fl <<< 16) + t.subpage) ||| C4_ERASE_PAGE

/-- slot `m` after header and rows of transmission `t`: ready to be stored -/
structure Assembled (sR s1 : St) (t : Tx) (hdr : Packet) (rows : List (Nat × List Nat)) : Prop where
  len : sR.raw.length = 8
  mask : sR.mask = s1.mask
  cd : sR.chswcd = s1.chswcd
  cur : sR.current = some t.m
  header : sR.header = s1.header ∧ sR.hdrPgno = s1.hdrPgno
  net : sR.net = (lookupPrev s1.net t.pgno t.subpage t.fl).2.1
  fn : (sR.rp t.m).page.function = FN_LOP
  pg : (sR.rp t.m).page.pgno = t.pgno
  sub : (sR.rp t.m).page.subno = t.subno
  nat : (sR.rp t.m).page.national = rev8 t.fl &&& 7
  flags : (sR.rp t.m).page.flags = t.flags s1
  raw : (sR.rp t.m).page.raw = t.base s1 hdr
  lr : (sR.rp t.m).lopRaw = mergeRows (s1.rp t.m).lopRaw rows
  lp : (sR.rp t.m).lopPackets = rowBits 0 rows
  other : ∀ m', m' ≠ t.m → sR.rp m' = s1.rp m'

/-- header + rows (any subset, any order) of a text page, from any state with a handler registered and
    no channel-switch countdown: slot `m` is `Assembled`; the only events are those of closing the
    page that was in progress before -/
theorem page_assembled (s : St) (hcd : s.chswcd = 0) (hmask : s.mask = true)
    (t : Tx) (hdr : Packet) (hh : IsHeader hdr t.m t.page t.s12 t.s34 t.fl) (hdec : decimalPage t.page)
    (s1 : St) (ev1 : List Event) (ht : terminatePage (tick s) t.m t.pgno t.page = (s1, ev1))
    (hlen : s.raw.length = 8) (htext : TextPage s1.net t.pgno t.page (t.prev s1))
    (rp : List RowPkt) (hrp : ∀ x ∈ rp, IsPacket x.2 t.m x.1 ∧ 1 ≤ x.1 ∧ x.1 ≤ 25) :
    Assembled (run s (hdr :: rp.map (·.2))).1 s1 t hdr (rowsOf rp)
    ∧ ttxPages (run s (hdr :: rp.map (·.2))).2 = ttxPages ev1
    ∧ (Event.chsw ∈ (run s (hdr :: rp.map (·.2))).2 ↔ Event.chsw ∈ ev1)
    ∧ s1.mask = true ∧ s1.chswcd = 0 := by
  have hg := terminatePage_glob (tick s) t.m t.pgno t.page
  rw [ht] at hg
  have hlen1 : s1.raw.length = 8 := by rw [hg.len]; exact hlen
  have hmask1 : s1.mask = true := by rw [hg.mask]; exact hmask
  have hcd1 : s1.chswcd = 0 := hg.cd hcd
  obtain ⟨ho, he, hc⟩ := decode_header_text (tick s) hdr t.m t.page t.s12 t.s34 t.fl hh hdec hmask s1 ev1 ht hlen1 htext
  rw [run_cons, step_eq_decode s hdr hcd]
  simp only []
  generalize (decodeTeletext (tick s) hdr).st = s2 at ho ⊢
  generalize (decodeTeletext (tick s) hdr).ev = ev2 at he hc ⊢
  have hm2 : t.m < s2.raw.length := by rw [ho.len]; exact hh.mag
  obtain ⟨hr, hre⟩ := run_rows s2 t.m hm2 (by rw [ho.cd]; exact hcd1) (by rw [ho.mask]; exact hmask1) ho.fn rp hrp
  rw [hre, List.append_nil]
  refine ⟨⟨?_, ?_, ?_, ?_, ?_, ?_, ?_, ?_, ?_, ?_, ?_, ?_, ?_, ?_, ?_⟩, he, hc, hmask1, hcd1⟩
  · rw [hr.len]; exact ho.len
  · rw [hr.mask]; exact ho.mask
  · rw [hr.cd]; exact ho.cd
  · rw [hr.cur]; exact ho.cur
  · exact ⟨hr.header.1.trans ho.header.1, hr.header.2.trans ho.header.2⟩
  · rw [hr.net]; exact ho.net
  · rw [hr.page]; exact ho.fn
  · rw [hr.page]; exact ho.pg
  · rw [hr.page]; exact ho.sub
  · rw [hr.page]; exact ho.nat
  · rw [hr.page]; exact ho.flags
  · rw [hr.page]; exact ho.raw
  · rw [hr.lr, ho.lr]
  · rw [hr.lp, ho.lp]
  · intro m' hne; rw [hr.other m' hne]; exact ho.other m' hne


/-! ## the terminating header -/

/-- the cache entry a completed transmission `t` leaves: text page, transmitted numbers / national
    option / flags, rows = rows of the previous version (or blanks) replaced by the rows received -/
structure Fetched (q : Page) (t : Tx) (s1 : St) (hdr : Packet) (rows : List (Nat × List Nat)) (pt : Nat) : Prop where
  fn : q.function = FN_LOP
  pgno : q.pgno = t.pgno
  subno : ∀ key mask, putKey pt t.pgno t.subno = (key, mask) → q.subno = key
  national : q.national = rev8 t.fl &&& 7
  flags : q.flags = t.flags s1
  raw : q.raw = mergeRows (t.base s1 hdr) rows

theorem page_stored (sR s1 : St) (t : Tx) (hdr : Packet) (rows : List (Nat × List Nat))
    (ha : Assembled sR s1 t hdr rows) (hmask1 : s1.mask = true) (hcd1 : s1.chswcd = 0)
    (hm : t.m < 8) (hdec : decimalPage t.page) (hsmall : t.s12 < 256 ∧ t.s34 < 256 ∧ t.fl < 256)
    (hpar : t.fl &&& 0x10 = 0) (hL : (s1.rp t.m).lopRaw.length = 26)
    (hrows : ∀ r ∈ rows, 1 ≤ r.1 ∧ r.1 ≤ 25 ∧ GoodRow r.2)
    (pgnoQ pageQ : Nat) (hne : pageQ ≠ t.page)
    (hn : Event.chsw ∉ (terminatePage (tick sR) t.m pgnoQ pageQ).2) :
    ∃ q rest pt, (terminatePage (tick sR) t.m pgnoQ pageQ).1.net.cache = q :: rest
      ∧ Fetched q t s1 hdr rows pt
      ∧ (pt = PT_CLOCK → (sR.net.getStat t.pgno).pageType = PT_CLOCK)
      ∧ ttxPages (terminatePage (tick sR) t.m pgnoQ pageQ).2 = [(t.pgno, t.subno)] := by
  obtain ⟨hv, hand⟩ := pgno_facts t.m t.page hm hdec
  have hsp : t.subpage < 65536 := by unfold Tx.subpage; omega
  obtain ⟨c1, c2⟩ := c11_clear t.fl t.subpage hsmall.2.2 hsp hpar
  have hrp : (tick sR).rp t.m = sR.rp t.m := rfl
  have hparc : ParallelCur (tick sR) := by
    refine ⟨t.m, ha.cur, ?_⟩
    rw [hrp, ha.flags]
    unfold Tx.flags
    cases t.prev s1 <;> simp only [] <;> assumption
  obtain ⟨q, rest, pt, h1, h2, h3, h4⟩ := close_text (tick sR) t.m pgnoQ pageQ
    (by show t.m < sR.raw.length; rw [ha.len]; exact hm) (by show sR.chswcd = 0; rw [ha.cd]; exact hcd1)
    (by show sR.mask = true; rw [ha.mask]; exact hmask1) hparc (by rw [hrp]; exact ha.fn)
    (by rw [hrp, ha.pg]; show (mag8Of t.m * 256 + t.page) &&& 0xFF ≠ pageQ; rw [hand]; exact fun h => hne h.symm)
    (by rw [hrp, ha.pg]; exact hv) (s1.rp t.m).lopRaw rows (by rw [hrp]; exact ha.lr) hL (by rw [hrp]; exact ha.lp) hrows hn
  rw [hrp] at h2 h3 h4
  refine ⟨q, rest, pt, h1, ⟨h2.fn, h2.pgno.trans ha.pg, ?_, h2.national.trans ha.nat, h2.flags.trans ha.flags, ?_⟩, ?_, ?_⟩
  · intro key mask hk
    apply h2.subno key mask
    rw [ha.pg, ha.sub]; exact hk
  · rw [h2.raw, ha.raw]
  · intro hpt; have := h3 hpt; rw [ha.pg] at this; exact this
  · rw [h4, ha.pg, ha.sub]

/-! ## fetching -/

theorem lookupPrev_find (n : Net) (pgnoQ sp fl pgno key mask : Nat) (hne : pgnoQ ≠ pgno) :
    (lookupPrev n pgnoQ sp fl).2.1.cache.find? (keyMatch pgno key mask) = n.cache.find? (keyMatch pgno key mask) := by
  unfold lookupPrev
  split
  · unfold Net.get
    cases hg : cacheGet n.cache pgnoQ (sp &&& 0x3F7F) 0xFFFFFFFF with
    | none => rfl
    | some r =>
      obtain ⟨q', c2⟩ := r
      show c2.find? (keyMatch pgno key mask) = _
      unfold cacheGet at hg
      split at hg
      · cases hg
      · have := find?_after_get n.cache pgno key mask pgnoQ (sp &&& 0x3F7F)
          (if (sp &&& 0x3F7F == ANY_SUBNO) = true then 0 else 0xFFFFFFFF) hne
        rw [hg] at this
        exact this
  · rfl

/-- a look-up in a chain whose first match for (pgno, ..) is `q` returns `q` -/
theorem cacheGet_of_find (c : List Page) (pgno subno mask : Nat) (q : Page) (hv : validPgno pgno)
    (h : c.find? (keyMatch pgno subno (if subno == ANY_SUBNO then 0 else mask)) = some q) :
    (cacheGet c pgno subno mask).map (·.1) = some q := by
  rw [cacheGet_valid _ _ _ _ hv, cacheFind_eq, h]
  rfl

theorem find_head (q : Page) (rest : List Page) (subno mask : Nat) (hs : subno = q.subno ∨ subno = ANY_SUBNO) :
    (q :: rest).find? (keyMatch q.pgno subno (if subno == ANY_SUBNO then 0 else mask)) = some q := by
  have hm : keyMatch q.pgno subno (if subno == ANY_SUBNO then 0 else mask) q = true := by
    unfold keyMatch
    rcases hs with hs | hs
    · subst hs; simp
    · subst hs; simp
  rw [List.find?_cons, hm]

end Zvbi.Ttx
