import ZvbiModel.Ttx.LemmasF2
/-!
# Fault freedom, part 3: `get_bits` never consumes more than the 13 triplets of a packet
-/
namespace Zvbi.Ttx
open Zvbi.Hamm Zvbi.Gen Zvbi.Ttx.Spec

/-- bits still available in a bit stream -/
def avail (bs : BitStream) : Nat := 18 * bs.rest.length + bs.left

/-- no triplet was requested beyond the end, and the bit counter is sane -/
def BsOk (bs : BitStream) : Prop := bs.underrun = false ∧ bs.left < 18

/-- `get_bits` takes `count` bits if they are there (`count ≤ left + 18`: at most one new triplet) -/
theorem getBits_ok (bs : BitStream) (count : Nat) (hok : BsOk bs) (hc : count ≤ avail bs)
    (hl : count ≤ bs.left + 18) :
    BsOk (getBits bs count).2 ∧ avail (getBits bs count).2 = avail bs - count := by
  unfold getBits
  simp only []
  unfold BsOk avail at *
  split
  · rename_i hgt
    have hne : bs.rest ≠ [] := by
      intro e; rw [e] at hc; simp at hc; omega
    obtain ⟨t, r, hr⟩ := List.exists_cons_of_ne_nil hne
    simp only [hr, List.tail_cons, List.isEmpty_cons, Bool.or_false, List.length_cons] at hc ⊢
    exact ⟨⟨hok.1, by omega⟩, by omega⟩
  · simp only []
    exact ⟨⟨hok.1, by omega⟩, by omega⟩

theorem getBitsFold_ok (count : Nat) (hcnt : count ≤ 18) (l : List Nat) (acc : List Nat × BitStream)
    (hok : BsOk acc.2) (hc : l.length * count ≤ avail acc.2) :
    BsOk (l.foldl (getBitsStep count) acc).2 ∧
    avail (l.foldl (getBitsStep count) acc).2 = avail acc.2 - l.length * count := by
  induction l generalizing acc with
  | nil => simp [hok]
  | cons k l ih =>
    simp only [List.foldl_cons, List.length_cons] at hc ⊢
    have hmul : (l.length + 1) * count = l.length * count + count := by rw [Nat.add_mul, Nat.one_mul]
    have h1 := getBits_ok acc.2 count hok (by omega) (by omega)
    have := ih (getBitsStep count acc k) (by unfold getBitsStep; exact h1.1)
      (by unfold getBitsStep; simp only []; rw [h1.2]; omega)
    refine ⟨this.1, ?_⟩
    rw [this.2]; unfold getBitsStep; simp only []; rw [h1.2]; omega

theorem getBitsN_ok (bs : BitStream) (count n : Nat) (hcnt : count ≤ 18) (hok : BsOk bs)
    (hc : n * count ≤ avail bs) :
    BsOk (getBitsN bs count n).2 ∧ avail (getBitsN bs count n).2 = avail bs - n * count := by
  unfold getBitsN
  have := getBitsFold_ok count hcnt (List.range n) ([], bs) hok (by simpa using hc)
  simpa using this

theorem colorFold_ok (j : Nat) (l : List Nat) (acc : List Nat × BitStream)
    (hok : BsOk acc.2) (hc : l.length * 12 ≤ avail acc.2) :
    BsOk (l.foldl (colorStep j) acc).2 ∧
    avail (l.foldl (colorStep j) acc).2 = avail acc.2 - l.length * 12 := by
  induction l generalizing acc with
  | nil => simp [hok]
  | cons k l ih =>
    simp only [List.foldl_cons, List.length_cons] at hc ⊢
    have hmul : (l.length + 1) * 12 = l.length * 12 + 12 := by rw [Nat.add_mul, Nat.one_mul]
    have h1 := getBits_ok acc.2 12 hok (by omega) (by omega)
    have e : (colorStep j acc k).2 = (getBits acc.2 12).2 := by
      unfold colorStep; simp only []; split <;> rfl
    have := ih (colorStep j acc k) (by rw [e]; exact h1.1) (by rw [e, h1.2]; omega)
    refine ⟨this.1, ?_⟩
    rw [this.2, e, h1.2]; omega

theorem bsFaults_nil (bs : BitStream) (h : BsOk bs) : bsFaults bs = [] := by
  unfold bsFaults; rw [h.1]; rfl

/-- chaining form of `getBits_ok` for counts of at most 18 bits -/
theorem getBits_ok' (bs : BitStream) (count a : Nat) (hok : BsOk bs) (ha : avail bs = a) (hc : count ≤ a)
    (h18 : count ≤ 18) : BsOk (getBits bs count).2 ∧ avail (getBits bs count).2 = a - count := by
  have := getBits_ok bs count hok (by omega) (by omega)
  rw [ha] at this; exact this

theorem ext04_ok (ext : Ext) (d : Nat) (bs : BitStream) (hok : BsOk bs) (ha : avail bs = 227) :
    BsOk (ext04 ext d bs).2 := by
  unfold ext04
  simp only []
  by_cases hs : (d == 4 && ext.designations &&& 1 != 0) = true
  · simp only [hs, if_true]
    have h1 := getBits_ok bs 21 hok (by omega) (by unfold avail BsOk at *; omega)
    rw [ha] at h1
    have h2 := colorFold_ok (if (d == 4) = true then 16 else 32) (List.range 16) (ext.colorMap, (getBits bs 21).2)
      h1.1 (by simp only [List.length_range]; rw [h1.2]; omega)
    simp only [List.length_range] at h2
    rw [h1.2] at h2
    exact (getBits_ok' _ 14 14 h2.1 h2.2 (by omega) (by omega)).1
  · simp only [hs, Bool.false_eq_true, if_false]
    have a1 := getBits_ok' bs 7 227 hok ha (by omega) (by omega)
    have a2 := getBits_ok' _ 7 220 a1.1 a1.2 (by omega) (by omega)
    have a3 := getBits_ok' _ 1 213 a2.1 a2.2 (by omega) (by omega)
    have a4 := getBits_ok' _ 1 212 a3.1 a3.2 (by omega) (by omega)
    have a5 := getBits_ok' _ 1 211 a4.1 a4.2 (by omega) (by omega)
    have a6 := getBits_ok' _ 4 210 a5.1 a5.2 (by omega) (by omega)
    have h2 := colorFold_ok (if (d == 4) = true then 16 else 32) (List.range 16)
      (ext.colorMap, (getBits (getBits (getBits (getBits (getBits (getBits bs 7).2 7).2 1).2 1).2 1).2 4).2)
      a6.1 (by simp only [List.length_range]; rw [a6.2]; omega)
    simp only [List.length_range] at h2
    rw [a6.2] at h2
    have b1 := getBits_ok' _ 5 14 h2.1 h2.2 (by omega) (by omega)
    have b2 := getBits_ok' _ 5 9 b1.1 b1.2 (by omega) (by omega)
    have b3 := getBits_ok' _ 1 4 b2.1 b2.2 (by omega) (by omega)
    have b4 := getBits_ok' _ 3 3 b3.1 b3.2 (by omega) (by omega)
    exact b4.1

theorem clutFrom_ok (ext : Ext) (bs : BitStream) (hok : BsOk bs) (ha : avail bs = 216) :
    BsOk (clutFrom ext bs).2 := by
  unfold clutFrom
  simp only []
  have h1 := getBitsN_ok bs 5 8 (by omega) hok (by omega)
  have h2 := getBitsN_ok (getBitsN bs 5 8).2 5 32 (by omega) h1.1 (by rw [h1.2]; omega)
  exact h2.1


theorem view_u24_length (k : Kind) (p : Packet) : (view k p).u24.length = 13 := by
  unfold view; simp

/-- what `x28Decide` hands on: bit streams with exactly the bits the consumer will take -/
def X28Good : X28Out → Prop
  | .ext04 _ bs => BsOk bs ∧ avail bs = 227
  | .clut bs => BsOk bs ∧ avail bs = 216
  | .becomeDrcs _ _ f => f = []
  | .drcsModes _ f => f = []
  | _ => True

theorem x28Decide_good (cf : Int) (packet : Nat) (v : View) (hu : v.u24.length = 13) :
    X28Good (x28Decide cf packet v) := by
  have hok0 : BsOk (⟨v.u24, 0, 0, false⟩ : BitStream) := ⟨rfl, by simp⟩
  have ha0 : avail (⟨v.u24, 0, 0, false⟩ : BitStream) = 234 := by unfold avail; simp only []; omega
  have f1 := getBits_ok' _ 4 234 hok0 ha0 (by omega) (by omega)
  have f2 := getBits_ok' _ 3 230 f1.1 f1.2 (by omega) (by omega)
  have f3 := getBits_ok' _ 11 227 f2.1 f2.2 (by omega) (by omega)
  have f4 := getBitsN_ok _ 4 DRCS_PTUS (by omega) f3.1 (by rw [f3.2]; decide)
  have hclut : BsOk ({ (⟨v.u24, 0, 0, false⟩ : BitStream) with rest := v.u24.drop 1 }) ∧
      avail ({ (⟨v.u24, 0, 0, false⟩ : BitStream) with rest := v.u24.drop 1 }) = 216 := by
    refine ⟨⟨rfl, by simp⟩, ?_⟩
    unfold avail; simp only [List.length_drop]; omega
  unfold x28Decide
  cases hd : v.g8 0 with
  | none => trivial
  | some designation =>
    simp only []
    by_cases c0 : (designation == 0 || designation == 4) = true
    · rw [if_pos c0]
      by_cases c0a : ((List.range 13).any fun j => (v.g24 j).isNone) = true
      · rw [if_pos c0a]; trivial
      rw [if_neg c0a]
      split
      · trivial
      · split
        · trivial
        · exact ⟨f2.1, f2.2⟩
    rw [if_neg c0]
    by_cases c1 : (designation == 1) = true
    · rw [if_pos c1]
      split
      · trivial
      · exact hclut
    rw [if_neg c1]
    by_cases c3 : (designation == 3) = true
    · rw [if_pos c3]
      split
      · trivial
      · split
        · trivial
        · split
          · trivial
          · split
            · exact bsFaults_nil _ f4.1
            · split
              · trivial
              · exact bsFaults_nil _ f4.1
    rw [if_neg c3]
    trivial

/-- **x28_bits_within_13_triplets**: on every path of `parse_28_29` the bit stream reader asks for
    at most the 13 x 18 bits of the packet -/
theorem x28_bits_within_13_triplets (s : St) (mag0 mag8 packet : Nat) (v : View) (hu : v.u24.length = 13) :
    NoFault (parse2829 s mag0 mag8 packet v).2.1 := by
  have hg := x28Decide_good (s.rp mag0).page.function packet v hu
  unfold parse2829
  simp only []
  generalize x28Decide (s.rp mag0).page.function packet v = out at hg
  cases out with
  | nop r => exact NoFault.nil
  | ext04 d bs =>
    simp only [X28Good] at hg
    simp only []
    rw [bsFaults_nil _ (ext04_ok _ d bs hg.1 hg.2)]; exact NoFault.nil
  | clut bs =>
    simp only [X28Good] at hg
    simp only []
    rw [bsFaults_nil _ (clutFrom_ok _ bs hg.1 hg.2)]; exact NoFault.nil
  | becomeDrcs f m fl => simp only [X28Good] at hg; simp only []; rw [hg]; exact NoFault.nil
  | drcsModes m fl => simp only [X28Good] at hg; simp only []; rw [hg]; exact NoFault.nil
  | discard => exact NoFault.nil

end Zvbi.Ttx
