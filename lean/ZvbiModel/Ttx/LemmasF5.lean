import ZvbiModel.Ttx.LemmasF4
/-!
# Fault freedom, part 5: `convert_drcs` offsets for every mode sequence; `vbi_convert_page`
-/
namespace Zvbi.Ttx
open Zvbi.Hamm Zvbi.Gen Zvbi.Ttx.Spec

theorem drcsPtu_spec (m i : Nat) (hi : i < DRCS_PTUS) :
    60 * i + (drcsPtu true true m i).2.1 ≤ DRCS_CHARS_BYTES ∧ 20 * i + (drcsPtu true true m i).2.2.1 ≤ DRCS_RAW_BYTES ∧
    (drcsPtu true true m i).2.2.2.1 = 60 * (drcsPtu true true m i).1 ∧
    (drcsPtu true true m i).2.2.2.2 = 20 * (drcsPtu true true m i).1 := by
  have e1 : DRCS_CHARS_BYTES = 2880 := by decide
  have e2 : DRCS_RAW_BYTES = 1000 := by decide
  have e3 : DRCS_PTUS = 48 := by decide
  rw [e3] at hi
  unfold drcsPtu
  rw [e1, e2, e3]
  simp only [Bool.true_and, if_true]
  repeat' split
  all_goals (simp only [decide_eq_true_eq] at *; first | (simp; done) | (simp; omega))

theorem drcsWalk_false (modes : List Nat) (fuel i : Nat) :
    drcsWalk true true modes fuel i (60 * i) (20 * i) = false := by
  induction fuel generalizing i with
  | zero => rfl
  | succ fuel ih =>
    unfold drcsWalk
    by_cases hi : i ≥ DRCS_PTUS
    · rw [if_pos hi]
    · rw [if_neg hi]
      have hs := drcsPtu_spec (modes.getD i 0) i (by omega)
      generalize drcsPtu true true (modes.getD i 0) i = q at hs
      obtain ⟨n, w, r, dd, dp⟩ := q
      simp only [] at hs ⊢
      have hd : 60 * i + dd = 60 * (i + n) := by omega
      have hp : 20 * i + dp = 20 * (i + n) := by omega
      rw [hd, hp, ih (i + n)]
      simp only [Bool.or_false, Bool.or_eq_false_iff, decide_eq_false_iff_not, Nat.not_lt]
      omega

/-- **drcs_offsets_in_range**: with the repairs F22 (regenerated flag, checked here by `decide`)
    and "last PTU" in place, `convert_drcs` stays inside `drcs.chars[]` (writes) and `raw[1..25]`
    (reads) for EVERY sequence of 48 PTU modes -/
theorem drcs_offsets_in_range (hfix : ttxFixDrcsLastPtu = true) (modes : List Nat) :
    convertDrcsBounds modes = [] := by
  have h22 : ttxFixF22 = true := by decide
  unfold convertDrcsBounds
  rw [h22, hfix]
  have := drcsWalk_false modes DRCS_PTUS 0
  simp only [Nat.mul_zero] at this
  rw [this]; rfl

/-- ... and without the "last PTU" repair a 12x10x4 character in PTU 47 reads `p[j + 60]`, i.e.
    20 bytes behind `raw[25]` (into `link[]`): replay fixes/drcs-last-ptu-overread.ttx.ops -/
theorem drcs_last_ptu_counterexample (hf : ttxFixDrcsLastPtu = false) :
    convertDrcsBounds (List.replicate 47 0 ++ [2]) = [Aux.fault "drcs:chars"] := by
  have h22 : ttxFixF22 = true := by decide
  unfold convertDrcsBounds
  rw [h22, hf]
  have : drcsWalk true false (List.replicate 47 0 ++ [2]) DRCS_PTUS 0 0 0 = true := by decide +kernel
  rw [this]; rfl

end Zvbi.Ttx
