import ZvbiModel.Ttx.LemmasF3
/-!
# Fault freedom, part 4: page numbers handed to `cache_network_page_stat` by the TOP / MIP parsers,
BTT link indices
-/
namespace Zvbi.Ttx
open Zvbi.Hamm Zvbi.Gen Zvbi.Ttx.Spec

/-! ## MPT -/
theorem mpt_pgnos_in_range (packet : Nat) : ∀ it, it ∈ mptItems packet → PgnoOk it.2 := by
  by_cases h : packet < 21
  · have : ∀ packet < 21, ∀ it ∈ mptItems packet, 0x100 ≤ it.2 ∧ it.2 ≤ 0x8FF := by decide +kernel
    exact this packet h
  · intro it hit
    have : mptItems packet = [] := by
      unfold mptItems
      have h1 : (decide (1 ≤ packet) && decide (packet ≤ 20)) = false := by simp; omega
      simp [h1]
    rw [this] at hit; cases hit

theorem mptStep_nofault (g : Nat → Option Nat) (n : Net) (ev : List Aux) (it : Nat × Nat)
    (hi : PgnoOk it.2) (hev : NoFault ev) : NoFault (mptStep g (n, ev) it).2 := by
  unfold mptStep
  split
  · exact hev
  · simp only []
    repeat' split
    all_goals (simp only [setStat_nofault _ _ _ hi, statAssert_nofault _ hi, List.append_nil]; exact hev)

theorem parseMpt_nofault (n : Net) (g : Nat → Option Nat) (packet : Nat) : NoFault (parseMpt n g packet).2 := by
  unfold parseMpt
  exact (fold_nofault (mptStep g) (fun it => PgnoOk it.2) (fun _ => True)
    (fun a ev b _ hb hev => ⟨trivial, mptStep_nofault g a ev b hb hev⟩)
    (mptItems packet) n [] (mpt_pgnos_in_range packet) trivial NoFault.nil).2

/-! ## TOP page links (BTT 21..23, MPT-EX) -/
theorem unhamTopPageLink_range (v : View) (i : Nat) (l : Link) (h : unhamTopPageLink v i = some l) :
    PgnoOk l.pgno.toNat := by
  unfold unhamTopPageLink at h
  simp only [] at h
  split at h
  · cases h
  · split at h
    · cases h
    · rename_i hr
      injection h with h
      subst h
      simp only [Int.toNat_natCast]
      unfold PgnoOk
      simp only [Bool.or_eq_true, decide_eq_true_eq, not_or, Nat.not_lt, Nat.not_lt] at hr
      omega

theorem mptExStep_nofault (lk : Nat → Option Link) (hlk : ∀ i l, lk i = some l → PgnoOk l.pgno.toNat)
    (a : Net × Bool) (ev : List Aux) (i : Nat) (hev : NoFault ev) : NoFault (mptExStep lk (a, ev) i).2 := by
  unfold mptExStep
  simp only []
  split
  · exact hev
  · split
    · exact hev
    · rename_i p hp
      split
      · exact hev
      · split
        · rw [setStat_nofault _ _ _ (hlk _ p hp)]; simpa using hev
        · exact hev

theorem parseMptEx_nofault (n : Net) (lk : Nat → Option Link)
    (hlk : ∀ i l, lk i = some l → PgnoOk l.pgno.toNat) (packet : Nat) :
    NoFault (parseMptEx n lk packet).2 := by
  unfold parseMptEx
  split
  · exact (fold_nofault (mptExStep lk) (fun _ => True) (fun _ => True)
      (fun a ev b _ _ hev => ⟨trivial, mptExStep_nofault lk hlk a ev b hev⟩)
      (List.range 5) (n, false) [] (fun _ _ => trivial) trivial NoFault.nil).2
  · exact NoFault.nil

/-- **btt_link_index_in_range**: BTT packets 21..23 address `btt_link[(packet - 21) * 5 + i]`, i < 5,
    inside the array (15 entries since commit 3806eea) -/
theorem btt_link_index_in_range (packet i : Nat) (hp : packet ≤ 23) (hi : i < 5) :
    (packet - 21) * 5 + i < BTT_LINKS := by
  have : BTT_LINKS = 15 := by decide
  omega

theorem bttLinkStep_nofault (v : View) (packet : Nat) (hp : packet ≤ 23) (n : Net) (ev : List Aux) (i : Nat)
    (hi : i < 5) (hev : NoFault ev) : NoFault (bttLinkStep v packet (n, ev) i).2 := by
  unfold bttLinkStep
  split
  · exact hev
  · rename_i l hl
    simp only []
    rw [if_pos (btt_link_index_in_range packet i hp hi)]
    split
    · rw [setStat_nofault _ _ _ (unhamTopPageLink_range v _ l hl)]; simpa using hev
    · exact hev

/-! ## BTT rows 1..20 -/

/-- where the next group of ten can start after a group started at `i` handled `j ≤ 10` entries -/
def bttNext (i : Nat) : List Nat :=
  (List.range 11).map fun j => i + j + (if (i + j) &&& 0xFF == 0x9A then 0x66 else 0x06)

/-- all indices at which group `g` of a BTT row can start, whatever bytes were uncorrectable -/
def bttReach (start : Nat) : Nat → List Nat
  | 0 => [start]
  | g + 1 => (bttReach start g).flatMap bttNext

/-- every reachable group start leaves room for ten page numbers below 0x900 -/
theorem btt_reach_in_range : ∀ packet < 21, ∀ g < 4, ∀ i ∈ bttReach (dec2bcdp.getD (packet - 1) 0) g,
    i + 9 < 0x800 := by decide +kernel

theorem bttEntry_ok (v : View) (index rawPos : Nat) (hidx : index + 9 < 0x800)
    (acc : (Net × Nat × Bool) × List Aux) (k : Nat) (hj : acc.1.2.1 ≤ 9) (hev : NoFault acc.2) :
    NoFault (bttEntry v index rawPos acc k).2 ∧ (bttEntry v index rawPos acc k).1.2.1 ≤ acc.1.2.1 + 1 := by
  have hp : PgnoOk (0x100 + index + acc.1.2.1) := by unfold PgnoOk; omega
  unfold bttEntry
  simp only []
  split
  · exact ⟨hev, by omega⟩
  · split
    · rw [statAssert_nofault _ hp]; exact ⟨by simpa using hev, by simp⟩
    · split
      · refine ⟨?_, by simp⟩
        simp only [setStat_nofault _ _ _ hp, List.append_nil]
        refine NoFault.append (NoFault.append hev (get_nofault _ _ _ _)) ?_
        split
        · rw [setStat_nofault _ _ _ hp]; exact NoFault.nil
        · exact NoFault.nil
      · split
        · rw [setStat_nofault _ _ _ hp]; exact ⟨by simpa using hev, by simp⟩
        · rw [setStat_nofault _ _ _ hp]; exact ⟨by simpa using hev, by simp⟩

theorem bttEntryFold_ok (v : View) (index rawPos : Nat) (hidx : index + 9 < 0x800) (l : List Nat)
    (acc : (Net × Nat × Bool) × List Aux) (hj : acc.1.2.1 + l.length ≤ 10) (hev : NoFault acc.2) :
    NoFault (l.foldl (bttEntry v index rawPos) acc).2 ∧
    (l.foldl (bttEntry v index rawPos) acc).1.2.1 ≤ acc.1.2.1 + l.length := by
  induction l generalizing acc with
  | nil => exact ⟨hev, by simp⟩
  | cons k l ih =>
    simp only [List.foldl_cons, List.length_cons] at hj ⊢
    have h1 := bttEntry_ok v index rawPos hidx acc k (by omega) hev
    have h2 := ih (bttEntry v index rawPos acc k) (by omega) h1.1
    exact ⟨h2.1, by omega⟩

/-- one group: fault free if it starts low enough; the next group starts at a `bttNext` index -/
theorem bttGroup_ok (v : View) (acc : (Net × Nat × Nat) × List Aux) (g : Nat)
    (hidx : acc.1.2.1 + 9 < 0x800) (hev : NoFault acc.2) :
    NoFault (bttGroup v acc g).2 ∧ (bttGroup v acc g).1.2.1 ∈ bttNext acc.1.2.1 := by
  have h := bttEntryFold_ok v acc.1.2.1 acc.1.2.2 hidx (List.range 10) ((acc.1.1, 0, false), acc.2)
    (by simp) hev
  simp only [List.length_range, Nat.zero_add] at h
  unfold bttGroup
  simp only []
  refine ⟨h.1, ?_⟩
  unfold bttNext
  rw [List.mem_map]
  exact ⟨_, List.mem_range.mpr (Nat.lt_succ_of_le h.2), rfl⟩

theorem bttGroupFold_ok (v : View) (packet : Nat) (hp : packet < 21) (l : List Nat) (g : Nat)
    (acc : (Net × Nat × Nat) × List Aux) (hg : g + l.length ≤ 4)
    (hr : acc.1.2.1 ∈ bttReach (dec2bcdp.getD (packet - 1) 0) g) (hev : NoFault acc.2) :
    NoFault (l.foldl (bttGroup v) acc).2 := by
  induction l generalizing acc g with
  | nil => exact hev
  | cons k l ih =>
    simp only [List.foldl_cons, List.length_cons] at hg ⊢
    have hidx := btt_reach_in_range packet hp g (by omega) _ hr
    have h1 := bttGroup_ok v acc k hidx hev
    apply ih (g + 1) (bttGroup v acc k) (by omega) _ h1.1
    show _ ∈ (bttReach _ g).flatMap bttNext
    rw [List.mem_flatMap]
    exact ⟨_, hr, h1.2⟩

theorem parseBtt_nofault (n : Net) (v : View) (packet : Nat) (hp : packet ≤ 25) : NoFault (parseBtt n v packet).2 := by
  unfold parseBtt
  split
  · rename_i h
    have hp21 : packet < 21 := by simp at h; omega
    simp only []
    exact bttGroupFold_ok v packet hp21 (List.range 4) 0 _ (by simp) (by simp [bttReach]) NoFault.nil
  · split
    · rename_i _ h
      have hp23 : packet ≤ 23 := by simp at h; omega
      exact (fold_nofault (bttLinkStep v packet) (fun i => i < 5) (fun _ => True)
        (fun a ev b _ hb hev => ⟨trivial, bttLinkStep_nofault v packet hp23 a ev b hb hev⟩)
        (List.range 5) _ [] (fun b hb => List.mem_range.mp hb) trivial NoFault.nil).2
    · exact NoFault.nil


/-! ## MIP -/
theorem mip_offsets_in_range : ∀ it ∈ mipOffsets, it.2.2 ≤ 0xFF := by decide +kernel

theorem mip_base_in_range : ∀ pgno < 0x900, 0x100 ≤ pgno →
    0x100 ≤ pgno &&& 0xF00 ∧ (pgno &&& 0xF00) + 0xFF ≤ 0x8FF := by decide +kernel

theorem mipClassify_nofault (n : Net) (vtp : Page) (pgno code spi : Nat) (hp : PgnoOk pgno)
    (r : Net × List Aux × Nat × Nat × Nat) (h : mipClassify n vtp pgno code spi = some r) : NoFault r.2.1 := by
  unfold mipClassify at h
  simp only [] at h
  repeat' (split at h)
  all_goals
    first
    | (cases h; done)
    | (injection h with h; subst h; first | exact NoFault.nil | skip)
  all_goals
    simp only [setStat_nofault _ _ _ hp, List.append_nil]
    exact get_nofault _ _ _ _

theorem parseMipPage_nofault (n : Net) (vtp : Page) (pgno : Nat) (code : Option Nat) (spi : Nat)
    (hp : PgnoOk pgno) : NoFault (parseMipPage n vtp pgno code spi).2.1 := by
  unfold parseMipPage
  split
  · exact NoFault.nil
  · split
    · rw [statAssert_nofault _ hp]; exact NoFault.nil
    · split
      · rw [statAssert_nofault _ hp]; exact NoFault.nil
      · rename_i r hr
        simp only [setStat_nofault _ _ _ hp, List.append_nil]
        exact mipClassify_nofault n vtp pgno _ spi hp r hr

theorem mipStep_nofault (vtp : Page) (base : Nat) (hb : 0x100 ≤ base ∧ base + 0xFF ≤ 0x8FF)
    (a : Net × Nat × Bool) (ev : List Aux) (it : Nat × Nat × Nat) (hi : it.2.2 ≤ 0xFF) (hev : NoFault ev) :
    NoFault (mipStep vtp base (a, ev) it).2 := by
  unfold mipStep
  simp only []
  split
  · exact hev
  · split
    · exact hev
    · exact NoFault.append hev (parseMipPage_nofault _ vtp _ _ _ ⟨by omega, by omega⟩)

theorem parseMip_nofault (n : Net) (vtp : Page) (hp : PgnoOk vtp.pgno) : NoFault (parseMip n vtp).2 := by
  unfold parseMip
  simp only []
  have hb := mip_base_in_range vtp.pgno (by unfold PgnoOk at hp; omega) hp.1
  exact (fold_nofault (mipStep vtp (vtp.pgno &&& 0xF00)) (fun it => it.2.2 ≤ 0xFF) (fun _ => True)
    (fun a ev b _ hb' hev => ⟨trivial, mipStep_nofault vtp _ hb a ev b hb' hev⟩)
    mipOffsets _ [] mip_offsets_in_range trivial NoFault.nil).2


end Zvbi.Ttx
