import ZvbiModel.Ttx.Roundtrip1
/-!
# Lemmas for C02 `page_roundtrip`, part 2: `store_lop` stores, `lop_parity_check` merges

* `storeLop_stores`: with no channel-switch countdown running and no channel switch signalled by the
  rolling-header test, `store_lop` puts the page at the head of the cache chain and sends exactly one
  TTX_PAGE event;
* `mergeRows`, `lastRowFrom`, `rowBits`: the sender-side description of "rows received replace";
* (iii) `lopParityCheck_merge`: on rows all of whose bytes have odd parity `lop_parity_check` yields
  exactly `mergeRows` of the page's rows (the X/26 column fix-ups are the identity on such rows).
-/
namespace Zvbi.Ttx
open Zvbi.Hamm Zvbi.Gen Zvbi.Ttx.Spec

/-- the (pgno, subno) of the VBI_EVENT_TTX_PAGE events in an event list -/
def ttxPages (l : List Event) : List (Nat × Nat) :=
  l.filterMap fun e => match e with
    | .ttxPage pg sub _ _ _ _ _ => some (pg, sub)
    | _ => none

theorem ttxPages_append (a b : List Event) : ttxPages (a ++ b) = ttxPages a ++ ttxPages b := by
  unfold ttxPages; exact List.filterMap_append

theorem ttxPages_liftAux (l : List Aux) : ttxPages (liftAux l) = [] := by
  unfold ttxPages liftAux
  induction l with
  | nil => rfl
  | cons a l ih => simp [ih]

theorem chsw_not_mem_liftAux (l : List Aux) : Event.chsw ∉ liftAux l := by
  unfold liftAux
  intro h
  rw [List.mem_map] at h
  obtain ⟨a, _, ha⟩ := h
  cases ha

/-- with `chswcd = 0` `store_lop` either resets the network or stores -/
theorem hdrVerdict_cases (s : St) (vtp : Page) (h0 : s.chswcd = 0) :
    hdrVerdict s vtp = .reset ∨ ∃ a b c d e f, hdrVerdict s vtp = .store a b c d e f := by
  unfold hdrVerdict
  simp only [h0]
  have hlt : ¬ (0 > 0) := by omega
  repeat' split
  all_goals first
    | (left; rfl)
    | (right; exact ⟨_, _, _, _, _, _, rfl⟩)
    | (exfalso; omega)

/-- the page statistics entry `store_lop` writes -/
def statAtPut (n : Net) (vtp : Page) : PageStat :=
  let ps := n.getStat vtp.pgno
  let ps :=
    if ps.pageType == PT_SUBTITLE then
      if ps.charset == 0xFF then { ps with charset := intToU8 (pageLanguage n (some vtp) 0 0) } else ps
    else if ps.pageType == PT_NO_PAGE || ps.pageType == PT_UNKNOWN then { ps with pageType := PT_NORMAL }
    else ps
  if ps.subcode ≥ 0xFFFE || vtp.subno > ps.subcode then { ps with subcode := vtp.subno % 65536 } else ps

/-- the page type `_vbi_cache_put_page` sees when `store_lop` stores `vtp` -/
def typeAtPut (n : Net) (vtp : Page) : Nat :=
  (((n.setStat vtp.pgno (fun _ => statAtPut n vtp)).1).getStat vtp.pgno).pageType

theorem setStat_cache (n : Net) (pgno : Nat) (f : PageStat → PageStat) : (n.setStat pgno f).1.cache = n.cache := by
  unfold Net.setStat; split <;> rfl

/-- **store_lop stores**: no channel-switch countdown running, a handler registered, the page number
    valid, and the rolling-header test did not signal a channel switch (no `Event.chsw`): the page
    is at the head of the cache chain and exactly one TTX_PAGE event was sent -/
theorem storeLop_stores (s : St) (vtp : Page) (h0 : s.chswcd = 0) (hm : s.mask = true) (hv : validPgno vtp.pgno)
    (hn : Event.chsw ∉ (storeLop s vtp).2) :
    (storeLop s vtp).1.raw = s.raw ∧ (storeLop s vtp).1.current = s.current ∧ (storeLop s vtp).1.mask = true
    ∧ (storeLop s vtp).1.chswcd = 0
    ∧ (∃ q rest, (storeLop s vtp).1.net.cache = q :: rest ∧ StoredAs q (typeAtPut s.net vtp) vtp)
    ∧ ttxPages (storeLop s vtp).2 = [(vtp.pgno, vtp.subno)] := by
  rcases hdrVerdict_cases s vtp h0 with hr | ⟨copy, clearCd, roll, hdrUpd, clock, pn, hst⟩
  · exfalso; apply hn; unfold storeLop; rw [hr]; simp
  · unfold storeLop
    rw [hst]
    simp only []
    have hput : ∀ (n : Net), n.cache = s.net.cache → (n.getStat vtp.pgno).pageType = typeAtPut s.net vtp →
        ∃ q rest, (n.put vtp).cache = q :: rest ∧ StoredAs q (typeAtPut s.net vtp) vtp := by
      intro n hc ht
      unfold Net.put
      rw [ht]
      obtain ⟨q, rest, hrest, hq⟩ := cachePut_head n.cache (typeAtPut s.net vtp) vtp hv.2.2
      rw [hrest]
      exact ⟨q, rest, rfl, hq⟩
    have hstored : (vtp.pgno &&& 0xFF != 0xFF) = true := by simpa using hv.2.2
    cases copy <;> cases clearCd <;> simp only [Bool.false_eq_true, if_false, if_true]
    all_goals
      refine ⟨?_, ?_, ?_, ?_, ?_, ?_⟩
      · first | trivial | rfl
      · first | trivial | rfl
      · first | trivial | exact hm
      · first | trivial | rfl | exact h0
      · apply hput
        · exact setStat_cache _ _ _
        · rfl
      · simp only [ttxPages_append, ttxPages_liftAux, hstored, hm, Bool.and_self, if_true]
        rfl

/-! ## rows -/

/-- rows received replace the rows of `base`, in the order received (a row sent twice: the later
    one wins); rows never received keep the content of `base` -/
def mergeRows (base : List (List Nat)) (rows : List (Nat × List Nat)) : List (List Nat) :=
  rows.foldl (fun acc r => acc.set r.1 r.2) base

/-- the last row numbered `n` among `rows` (starting from `init`) -/
def lastRowFrom (init : Option (List Nat)) (rows : List (Nat × List Nat)) (n : Nat) : Option (List Nat) :=
  rows.foldl (fun a r => if r.1 = n then some r.2 else a) init

theorem mergeRows_length (base : List (List Nat)) (rows : List (Nat × List Nat)) :
    (mergeRows base rows).length = base.length := by
  unfold mergeRows
  induction rows generalizing base with
  | nil => rfl
  | cons r rows ih => simp only [List.foldl_cons]; rw [ih]; simp

theorem mergeRows_getElem? (rows : List (Nat × List Nat)) (n : Nat) : ∀ (base : List (List Nat)),
    (mergeRows base rows)[n]? = if n < base.length then lastRowFrom base[n]? rows n else none := by
  unfold mergeRows lastRowFrom
  induction rows with
  | nil => intro base; by_cases h : n < base.length <;> simp [h]
  | cons r rows ih =>
    intro base
    simp only [List.foldl_cons]
    rw [ih (base.set r.1 r.2)]
    simp only [List.length_set, List.getElem?_set]
    by_cases hn : n < base.length
    · simp only [hn, if_true]
      by_cases e : r.1 = n
      · simp [e, hn]
      · simp [e]
    · simp [hn]

theorem lastRowFrom_none_isSome (rows : List (Nat × List Nat)) (n : Nat) (init : Option (List Nat)) :
    (lastRowFrom init rows n).isSome = (init.isSome || rows.any (fun r => r.1 == n)) := by
  unfold lastRowFrom
  induction rows generalizing init with
  | nil => simp
  | cons r rows ih =>
    simp only [List.foldl_cons, List.any_cons]
    rw [ih]
    by_cases e : r.1 = n
    · simp [e]
    · have : (r.1 == n) = false := by simpa using e
      simp [e, this]

/-- if some row `n` was received the result does not depend on what was there before -/
theorem lastRowFrom_indep (rows : List (Nat × List Nat)) (n : Nat) (a b : Option (List Nat))
    (h : rows.any (fun r => r.1 == n) = true) : lastRowFrom a rows n = lastRowFrom b rows n := by
  unfold lastRowFrom
  induction rows generalizing a b with
  | nil => simp at h
  | cons r rows ih =>
    simp only [List.foldl_cons]
    by_cases e : r.1 = n
    · simp only [e, if_true]
    · simp only [e, if_false]
      apply ih
      simpa [e] using h

theorem lastRowFrom_absent (rows : List (Nat × List Nat)) (n : Nat) (a : Option (List Nat))
    (h : rows.any (fun r => r.1 == n) = false) : lastRowFrom a rows n = a := by
  unfold lastRowFrom
  induction rows generalizing a with
  | nil => rfl
  | cons r rows ih =>
    simp only [List.foldl_cons]
    have : ¬ r.1 = n := by intro e; simp [e] at h
    simp only [this, if_false]
    apply ih
    simpa [this] using h

/-- the row found is one of the received rows -/
theorem lastRowFrom_mem (rows : List (Nat × List Nat)) (n : Nat) (a : Option (List Nat)) (x : List Nat)
    (h : lastRowFrom a rows n = some x) : a = some x ∨ (n, x) ∈ rows := by
  unfold lastRowFrom at h
  induction rows generalizing a with
  | nil => left; exact h
  | cons r rows ih =>
    simp only [List.foldl_cons] at h
    rcases ih _ h with h1 | h1
    · by_cases e : r.1 = n
      · simp only [e, if_true] at h1
        right; rw [← e]; simp at h1; rw [← h1]; simp
      · simp only [e, if_false] at h1
        left; exact h1
    · right; exact List.mem_cons_of_mem _ h1

/-- the `lop_packets` bits of the rows received -/
def rowBits (lp : Nat) (rows : List (Nat × List Nat)) : Nat :=
  rows.foldl (fun a r => a ||| (1 <<< r.1)) lp

theorem bit_test (x n : Nat) : (x &&& (1 <<< n) == 0) = !x.testBit n := by
  rw [Nat.one_shiftLeft]
  cases h : x.testBit n
  · have : x &&& 2 ^ n = 0 := by
      apply Nat.eq_of_testBit_eq
      intro i
      rw [Nat.testBit_and, Nat.testBit_two_pow, Nat.zero_testBit]
      by_cases e : n = i
      · subst e; simp [h]
      · simp [e]
    simp [this]
  · have : x &&& 2 ^ n ≠ 0 := by
      intro e
      have := congrArg (fun y => y.testBit n) e
      simp [Nat.testBit_and, h] at this
    simpa using this

theorem rowBits_testBit (rows : List (Nat × List Nat)) (n : Nat) : ∀ lp,
    (rowBits lp rows).testBit n = (lp.testBit n || rows.any (fun r => r.1 == n)) := by
  unfold rowBits
  induction rows with
  | nil => intro lp; simp
  | cons r rows ih =>
    intro lp
    simp only [List.foldl_cons, List.any_cons]
    rw [ih, Nat.testBit_or, Nat.one_shiftLeft, Nat.testBit_two_pow]
    by_cases e : r.1 = n
    · simp [e]
    · have : (r.1 == n) = false := by simpa using e
      simp [e, this]

/-! ## (iii, second half) `lop_parity_check` on rows that all have odd parity -/

/-- a received row: 40 bytes, all with odd parity -/
def GoodRow (row : List Nat) : Prop := ∀ b ∈ row, b < 256 ∧ oddPar b = true

theorem GoodRow.all {row : List Nat} (h : GoodRow row) : row.all oddPar = true := by
  rw [List.all_eq_true]; exact fun b hb => (h b hb).2

theorem par8_of_odd (b : Nat) (h1 : b < 256) (h2 : oddPar b = true) : par8 b = b := by
  unfold par8
  simp only [Nat.mod_eq_of_lt h1, h2, if_true]

/-- the X/26 fix-up `raw[address] = vbi_par8 (raw[address])` leaves a good row as it is -/
theorem GoodRow.set_par8 {row : List Nat} (h : GoodRow row) (a : Nat) :
    row.set a (par8 (row.getD a 0)) = row := by
  by_cases ha : a < row.length
  · have : row.getD a 0 = row[a] := by simp [List.getD_eq_getElem?_getD, ha]
    rw [this, par8_of_odd _ (h _ (List.getElem_mem ha)).1 (h _ (List.getElem_mem ha)).2]
    exact List.set_getElem_self ha
  · exact List.set_eq_of_length_le (by omega)

/-- what the fix-up fold keeps: good rows of the original `L` -/
def FixInv (L lr : List (List Nat)) : Prop :=
  lr.length = L.length ∧ ∀ n, GoodRow (L.getD n zeroRow) → lr[n]? = L[n]?

theorem FixInv.set {L lr : List (List Nat)} (h : FixInv L lr) (row a : Nat) :
    FixInv L (lr.set row ((lr.getD row zeroRow).set a (par8 ((lr.getD row zeroRow).getD a 0)))) := by
  refine ⟨by rw [List.length_set]; exact h.1, ?_⟩
  intro n hg
  rw [List.getElem?_set]
  by_cases e : row = n
  · subst e
    simp only [if_true]
    by_cases hl : row < lr.length
    · simp only [hl, if_true]
      have h2 := h.2 row hg
      have e1 : lr.getD row zeroRow = L.getD row zeroRow := by
        simp only [List.getD_eq_getElem?_getD, h2]
      rw [e1, hg.set_par8]
      have : row < L.length := by rw [← h.1]; exact hl
      simp [List.getD_eq_getElem?_getD, this]
    · simp only [hl, if_false]
      have : ¬ row < L.length := by rw [← h.1]; exact hl
      simp [this]
  · simp only [e, if_false]; exact h.2 n hg

/-- `lop_parity_check`: the X/26 fix-ups do not alter rows all of whose bytes have odd parity -/
theorem lopParityCheck_fix (cv : Page) (rv : RawPage) :
    FixInv rv.lopRaw (lopParityCheck cv rv).2.lopRaw := by
  unfold lopParityCheck
  simp only []
  split
  · -- invariant over the enhancement fold
    have gen : ∀ (enh : List Triplet) (acc : Bool × Nat × List (List Nat)), FixInv rv.lopRaw acc.2.2 →
        FixInv rv.lopRaw (enh.foldl (fun (acc : Bool × Nat × List (List Nat)) (t : Triplet) =>
          let (stop, row, lr) := acc
          if stop then acc
          else if t.address < 40 then
            if t.mode == 1 || t.mode == 2 || t.mode == 0x0B || t.mode == 8 || t.mode == 9 || t.mode == 0x0D
               || t.mode == 0x0F || (0x10 ≤ t.mode && t.mode ≤ 0x1F) then
              let r := lr.getD row zeroRow
              (false, row, lr.set row (r.set t.address (par8 (r.getD t.address 0))))
            else acc
          else if t.address > 63 then (true, row, lr)
          else if t.mode == 1 || t.mode == 4 then
            let r := t.address - 40
            (false, if r == 0 then 24 else r, lr)
          else if t.mode == 7 then (false, 0, lr)
          else acc) acc).2.2 := by
      intro enh
      induction enh with
      | nil => intro acc h; exact h
      | cons t enh ih =>
        intro acc h
        simp only [List.foldl_cons]
        apply ih
        obtain ⟨stop, row, lr⟩ := acc
        simp only []
        repeat' split
        all_goals first | exact h | exact h.set _ _
    have := gen cv.enh (false, 0, rv.lopRaw) ⟨rfl, fun _ _ => rfl⟩
    revert this
    generalize (cv.enh.foldl _ (false, 0, rv.lopRaw)) = res
    obtain ⟨a, b, c⟩ := res
    exact id
  · exact ⟨rfl, fun _ _ => rfl⟩


/-! ### the parity loop -/

theorem parityRow_length (lr : List (List Nat)) (lp : Nat) (cv : Page) (k : Nat) :
    (parityRow lr lp cv k).raw.length = cv.raw.length := by
  unfold parityRow; simp only []
  repeat' split
  all_goals simp

theorem parityRow_raw (lr : List (List Nat)) (lp : Nat) (cv : Page) (k n : Nat) :
    (parityRow lr lp cv k).raw[n]? =
      if n = k + 1 ∧ lp.testBit n = true ∧ (lr.getD n zeroRow).all oddPar = true ∧ n < cv.raw.length
      then some (lr.getD n zeroRow) else cv.raw[n]? := by
  unfold parityRow
  simp only [bit_test]
  cases hb : lp.testBit (k + 1) <;> cases ho : (lr.getD (k + 1) zeroRow).all oddPar <;>
    simp only [Bool.not_true, Bool.not_false, Bool.false_eq_true, if_false, if_true]
  · rw [if_neg]; rintro ⟨e, h, -⟩; subst e; rw [hb] at h; cases h
  · rw [if_neg]; rintro ⟨e, h, -⟩; subst e; rw [hb] at h; cases h
  · rw [if_neg]; rintro ⟨e, -, h, -⟩; subst e; rw [ho] at h; cases h
  · by_cases e : n = k + 1
    · subst e
      by_cases hl : k + 1 < cv.raw.length
      · rw [if_pos ⟨rfl, hb, ho, hl⟩]; simp [hl]
      · rw [if_neg (fun h => hl h.2.2.2)]
        have : cv.raw[k + 1]? = none := by simp; omega
        simp [hl, this]
    · rw [if_neg (fun h => e h.1)]
      have : ¬ k + 1 = n := fun h => e h.symm
      simp [List.getElem?_set, this]

theorem parityRow_fields (lr : List (List Nat)) (lp : Nat) (cv : Page) (k : Nat) :
    (parityRow lr lp cv k).function = cv.function ∧ (parityRow lr lp cv k).pgno = cv.pgno
    ∧ (parityRow lr lp cv k).subno = cv.subno ∧ (parityRow lr lp cv k).flags = cv.flags
    ∧ (parityRow lr lp cv k).national = cv.national := by
  unfold parityRow; simp only []
  repeat' split
  all_goals exact ⟨rfl, rfl, rfl, rfl, rfl⟩

theorem parityFold_fields (lr : List (List Nat)) (lp : Nat) (ks : List Nat) (cv : Page) :
    (ks.foldl (parityRow lr lp) cv).function = cv.function ∧ (ks.foldl (parityRow lr lp) cv).pgno = cv.pgno
    ∧ (ks.foldl (parityRow lr lp) cv).subno = cv.subno ∧ (ks.foldl (parityRow lr lp) cv).flags = cv.flags
    ∧ (ks.foldl (parityRow lr lp) cv).national = cv.national
    ∧ (ks.foldl (parityRow lr lp) cv).raw.length = cv.raw.length := by
  induction ks generalizing cv with
  | nil => exact ⟨rfl, rfl, rfl, rfl, rfl, rfl⟩
  | cons k ks ih =>
    simp only [List.foldl_cons]
    obtain ⟨a, b, c, d, e, f⟩ := ih (parityRow lr lp cv k)
    obtain ⟨a', b', c', d', e'⟩ := parityRow_fields lr lp cv k
    exact ⟨a.trans a', b.trans b', c.trans c', d.trans d', e.trans e', f.trans (parityRow_length lr lp cv k)⟩

theorem parityFold_raw (lr : List (List Nat)) (lp : Nat) (n : Nat) (ks : List Nat) : ∀ (cv : Page),
    (ks.foldl (parityRow lr lp) cv).raw[n]? =
      if (1 ≤ n ∧ n - 1 ∈ ks) ∧ lp.testBit n = true ∧ (lr.getD n zeroRow).all oddPar = true ∧ n < cv.raw.length
      then some (lr.getD n zeroRow) else cv.raw[n]? := by
  induction ks with
  | nil => intro cv; simp
  | cons k ks ih =>
    intro cv
    simp only [List.foldl_cons]
    rw [ih, parityRow_raw, parityRow_length]
    by_cases hB : lp.testBit n = true ∧ (lr.getD n zeroRow).all oddPar = true ∧ n < cv.raw.length
    · obtain ⟨b1, b2, b3⟩ := hB
      simp only [b1, b2, b3, and_true, List.mem_cons]
      by_cases e : n = k + 1
      · subst e; simp
      · by_cases hn1 : 1 ≤ n
        · have : ¬ n - 1 = k := by omega
          simp [e, this]
        · simp [e, hn1]
    · have h1 : ¬ ((1 ≤ n ∧ n - 1 ∈ ks) ∧ lp.testBit n = true ∧ (lr.getD n zeroRow).all oddPar = true ∧ n < cv.raw.length) :=
        fun h => hB h.2
      have h2 : ¬ (n = k + 1 ∧ lp.testBit n = true ∧ (lr.getD n zeroRow).all oddPar = true ∧ n < cv.raw.length) :=
        fun h => hB h.2
      have h3 : ¬ ((1 ≤ n ∧ n - 1 ∈ k :: ks) ∧ lp.testBit n = true ∧ (lr.getD n zeroRow).all oddPar = true ∧ n < cv.raw.length) :=
        fun h => hB h.2
      rw [if_neg h1, if_neg h2, if_neg h3]

theorem lopParityCheck_fst (cv : Page) (rv : RawPage) :
    (lopParityCheck cv rv).1 =
      (List.range 25).foldl (parityRow (lopParityCheck cv rv).2.lopRaw rv.lopPackets) cv := by
  unfold lopParityCheck
  rfl

/-- **(iii)** `lop_parity_check` on rows received with odd parity: the received rows replace the
    rows of the page, all other rows and the identity of the page stay -/
theorem lopParityCheck_merge (cv : Page) (rv : RawPage) (L0 : List (List Nat)) (rows : List (Nat × List Nat))
    (hL : rv.lopRaw = mergeRows L0 rows) (hL0 : L0.length = 26) (hlp : rv.lopPackets = rowBits 0 rows)
    (hrows : ∀ r ∈ rows, 1 ≤ r.1 ∧ r.1 ≤ 25 ∧ GoodRow r.2) :
    (lopParityCheck cv rv).1.raw = mergeRows cv.raw rows
    ∧ (lopParityCheck cv rv).1.function = cv.function ∧ (lopParityCheck cv rv).1.pgno = cv.pgno
    ∧ (lopParityCheck cv rv).1.subno = cv.subno ∧ (lopParityCheck cv rv).1.flags = cv.flags
    ∧ (lopParityCheck cv rv).1.national = cv.national := by
  rw [lopParityCheck_fst]
  have hfix := lopParityCheck_fix cv rv
  generalize (lopParityCheck cv rv).2.lopRaw = lr at hfix
  obtain ⟨f1, f2, f3, f4, f5, f6⟩ := parityFold_fields lr rv.lopPackets (List.range 25) cv
  refine ⟨?_, f1, f2, f3, f4, f5⟩
  apply List.ext_getElem?
  intro n
  rw [parityFold_raw, mergeRows_getElem?, hlp, rowBits_testBit, Nat.zero_testBit, Bool.false_or]
  cases hany : rows.any (fun r => r.1 == n)
  · -- row n not received
    rw [lastRowFrom_absent _ _ _ hany]
    simp only [Bool.false_eq_true, false_and, and_false, if_false]
    by_cases hl : n < cv.raw.length
    · simp [hl]
    · have : cv.raw[n]? = none := by simp; omega
      simp [hl, this]
  · -- row n received: the assembled row is the last one sent, it is good, the fix-ups kept it
    have hsome : (lastRowFrom (L0[n]?) rows n).isSome = true := by
      rw [lastRowFrom_none_isSome, hany]; simp
    obtain ⟨x, hx⟩ := Option.isSome_iff_exists.mp hsome
    have hx' : lastRowFrom (none : Option (List Nat)) rows n = some x := by
      rw [lastRowFrom_indep rows n none (L0[n]?) hany]; exact hx
    have hmem : (n, x) ∈ rows := by
      rcases lastRowFrom_mem rows n none x hx' with h | h
      · cases h
      · exact h
    obtain ⟨r1, r2, rg⟩ := hrows _ hmem
    simp only [] at r1 r2 rg
    have hLn : rv.lopRaw[n]? = some x := by
      rw [hL, mergeRows_getElem?, hL0, if_pos (by omega)]; exact hx
    have hgetD : rv.lopRaw.getD n zeroRow = x := by simp [List.getD_eq_getElem?_getD, hLn]
    have hlr : lr[n]? = some x := by rw [hfix.2 n (by rw [hgetD]; exact rg)]; exact hLn
    have hlrD : lr.getD n zeroRow = x := by simp [List.getD_eq_getElem?_getD, hlr]
    rw [hlrD, rg.all]
    have hmemr : n - 1 ∈ List.range 25 := by rw [List.mem_range]; omega
    simp only [r1, hmemr, and_self, true_and]
    by_cases hl : n < cv.raw.length
    · simp only [hl, if_true]
      rw [lastRowFrom_indep rows n (cv.raw[n]?) none hany, hx']
    · simp [hl]

end Zvbi.Ttx
