import ZvbiModel.Ttx.Chain9
/-!
# C02 round 5: the sender side - packets built by the Hamming 8/4 / odd-parity encoder satisfy the receiver-side
hypotheses of the cycle theorems (`IsHeader`, `IsPacket`, `GoodHdr`, `GoodRow`)

`encHeader t text`: packet address (magazine, packet 0), page units / tens, S1 S2+C4, S3 S4+C5+C6, C7-C10, C11-C14 -
each pair as the byte the decoder reads through `vbi_unham16p` (`Tx.page`, `Tx.s12`, `Tx.s34`, `Tx.fl`) - then the 32
text bytes of columns 8..39.  `senderText tmpl clock off pgno`: the network's header template with the three page
number digits (odd parity) at columns `off..off+2` and the clock in columns 32..39.
-/
namespace Zvbi.Ttx
open Zvbi.Hamm Zvbi.Gen Zvbi.Ttx.Spec

def encAddr (m k : Nat) : List Nat := [ham8 (m ||| ((k &&& 1) <<< 3)), ham8 (k >>> 1)]
def enc16 (v : Nat) : List Nat := [ham8 (v &&& 15), ham8 (v >>> 4)]

theorem dec_addr : ∀ m < 8, ∀ k < 32, unham16p (ham8 (m ||| ((k &&& 1) <<< 3))) (ham8 (k >>> 1)) = some (m + 8 * k) := by
  decide +kernel
theorem dec16 : ∀ v < 256, unham16p (ham8 (v &&& 15)) (ham8 (v >>> 4)) = some v := by decide +kernel

def encHeader (t : Tx) (text : List Nat) : Packet :=
  encAddr t.m 0 ++ enc16 t.page ++ enc16 t.s12 ++ enc16 t.s34 ++ enc16 t.fl ++ text
def encRow (m k : Nat) (bytes : List Nat) : Packet := encAddr m k ++ bytes

theorem encHeader_isHeader (t : Tx) (text : List Nat) (hm : t.m < 8) (hp : t.page < 256) (h12 : t.s12 < 256)
    (h34 : t.s34 < 256) (hfl : t.fl < 256) : IsHeader (encHeader t text) t.m t.page t.s12 t.s34 t.fl := by
  refine ⟨hm, ?_, ?_, ?_, ?_, ?_⟩
  · have := dec_addr t.m hm 0 (by omega)
    simpa [encHeader, encAddr, enc16, a16, byte] using this
  · simpa [encHeader, encAddr, enc16, a16, byte] using dec16 t.page hp
  · simpa [encHeader, encAddr, enc16, a16, byte] using dec16 t.s12 h12
  · simpa [encHeader, encAddr, enc16, a16, byte] using dec16 t.s34 h34
  · simpa [encHeader, encAddr, enc16, a16, byte] using dec16 t.fl hfl

theorem encRow_isPacket (m k : Nat) (bytes : List Nat) (hm : m < 8) (hk : k < 32) : IsPacket (encRow m k bytes) m k := by
  refine ⟨hm, hk, ?_⟩
  simpa [encRow, encAddr, a16, byte] using dec_addr m hm k hk

theorem payload_encRow (m k : Nat) (bytes : List Nat) (hl : bytes.length = 40) : payload (encRow m k bytes) = bytes := by
  apply List.ext_getElem?
  intro i
  unfold payload encRow encAddr byte
  by_cases hi : i < 40
  · simp [hi, List.getD_eq_getElem?_getD, List.getElem?_cons]
    rw [List.getElem?_eq_getElem (by omega)]; rfl
  · rw [List.getElem?_eq_none (by simp; omega), List.getElem?_eq_none (by omega)]

/-- text bytes of a header: columns 8..39 -/
def senderText (tmpl clock : List Nat) (off pgno : Nat) : List Nat :=
  (List.range 32).map fun j =>
    if j + 8 = off then (pgDigits pgno).1 else if j + 8 = off + 1 then (pgDigits pgno).2.1
    else if j + 8 = off + 2 then (pgDigits pgno).2.2 else if j + 8 < 32 then tmpl.getD (j + 8) 0 else clock.getD (j + 8 - 32) 0

theorem payload_encHeader (t : Tx) (text : List Nat) (k : Nat) (h8 : 8 ≤ k) (h40 : k < 40) :
    (payload (encHeader t text)).getD k 0 = text.getD (k - 8) 0 := by
  unfold payload byte
  rw [List.getD_eq_getElem?_getD, List.getElem?_map, List.getElem?_range h40]
  simp only [Option.map_some, Option.getD_some]
  unfold encHeader
  have hl : (encAddr t.m 0 ++ enc16 t.page ++ enc16 t.s12 ++ enc16 t.s34 ++ enc16 t.fl).length = 10 := by
    simp [encAddr, enc16]
  rw [List.getD_eq_getElem?_getD, List.getD_eq_getElem?_getD, List.getElem?_append_right (by omega), hl]
  congr 2
  omega

theorem senderText_getD (tmpl clock : List Nat) (off pgno j : Nat) (hj : j < 32) :
    (senderText tmpl clock off pgno).getD j 0 =
      if j + 8 = off then (pgDigits pgno).1 else if j + 8 = off + 1 then (pgDigits pgno).2.1
      else if j + 8 = off + 2 then (pgDigits pgno).2.2 else if j + 8 < 32 then tmpl.getD (j + 8) 0 else clock.getD (j + 8 - 32) 0 := by
  unfold senderText
  rw [List.getD_eq_getElem?_getD, List.getElem?_map, List.getElem?_range hj]
  rfl

/-- the network's header template: odd parity in the compared columns, no magazine digit before the page number -/
structure TmplOk (tmpl : List Nat) (off : Nat) : Prop where
  lo : 8 ≤ off
  hi : off ≤ 28
  par : ∀ k, 8 ≤ k → k < 32 → oddPar (tmpl.getD k 0) = true
  nodigit : ∀ k, 8 ≤ k → k < off → ∀ d, 1 ≤ d → d ≤ 8 → tmpl.getD k 0 ≠ par8 (d + 0x30)

theorem encHeader_goodHdr (tmpl clock : List Nat) (off : Nat) (t : Tx) (hm : t.m < 8) (hp : t.page < 256)
    (h12 : t.s12 < 256) (h34 : t.s34 < 256) (hfl : t.fl < 256) (ht : TmplOk tmpl off) :
    GoodHdr tmpl off (encHeader t (senderText tmpl clock off t.pgno)) := by
  have hh := encHeader_isHeader t (senderText tmpl clock off t.pgno) hm hp h12 h34 hfl
  intro pmag page ha h0 hpg
  rw [hh.addr] at ha; injection ha with ha; subst ha
  rw [hh.page] at hpg; injection hpg with hpg; subst hpg
  have e7 : t.m &&& 7 = t.m := (addr_split t.m hm 0 (by omega)).1
  rw [e7]
  show HdrOk tmpl off t.pgno _
  have hget : ∀ k, 8 ≤ k → k < 40 → (payload (encHeader t (senderText tmpl clock off t.pgno))).getD k 0
      = (if k = off then (pgDigits t.pgno).1 else if k = off + 1 then (pgDigits t.pgno).2.1
         else if k = off + 2 then (pgDigits t.pgno).2.2 else if k < 32 then tmpl.getD k 0 else clock.getD (k - 32) 0) := by
    intro k h8 h40
    rw [payload_encHeader t _ k h8 h40, senderText_getD _ _ _ _ _ (by omega)]
    have e : k - 8 + 8 = k := by omega
    rw [e]
  have hlo := ht.lo
  have hhi := ht.hi
  have hd0 : (pgDigits t.pgno).1 = par8 (mag8Of t.m + 0x30) := by
    unfold pgDigits Tx.pgno
    have : (mag8Of t.m * 256 + t.page) >>> 8 = mag8Of t.m := by
      rw [Nat.shiftRight_eq_div_pow]; omega
    rw [this]
  have hm8 : 1 ≤ mag8Of t.m ∧ mag8Of t.m ≤ 8 := by
    unfold mag8Of; split <;> rename_i h <;> simp at h <;> omega
  refine ⟨hlo, hhi, ⟨?_, ?_, ?_⟩, ?_, ?_⟩
  · rw [hget off (by omega) (by omega)]; simp
  · rw [hget (off + 1) (by omega) (by omega)]; simp
  · rw [hget (off + 2) (by omega) (by omega)]; simp
  · intro k h8 hk
    have hne : (payload (encHeader t (senderText tmpl clock off t.pgno))).getD k 0 ≠ (pgDigits t.pgno).1 := by
      rw [hget k h8 (by omega), hd0]
      have n1 : k ≠ off := by omega
      have n2 : k ≠ off + 1 := by omega
      have n3 : k ≠ off + 2 := by omega
      have n4 : k < 32 := by omega
      simp only [n1, n2, n3, n4, if_false, if_true]
      exact ht.nodigit k h8 hk _ hm8.1 hm8.2
    have : (((payload (encHeader t (senderText tmpl clock off t.pgno))).getD k 0) == (pgDigits t.pgno).1) = false := by
      simpa using hne
    rw [this]; rfl
  · intro k h8 h32 hout
    rw [hget k h8 (by omega)]
    have n1 : k ≠ off := by omega
    have n2 : k ≠ off + 1 := by omega
    have n3 : k ≠ off + 2 := by omega
    simp only [n1, n2, n3, h32, if_false, if_true]
    exact ⟨ht.par k h8 h32, trivial⟩

/-- adjacent elements of a mapped list come from adjacent elements -/
theorem adj_map {α β : Type} (f : α → β) (R : α → α → Prop) : ∀ (l : List α),
    (∀ pre a b post, l = pre ++ a :: b :: post → R a b) →
    ∀ pre a b post, l.map f = pre ++ a :: b :: post → ∃ a' b', a = f a' ∧ b = f b' ∧ R a' b' := by
  intro l
  induction l with
  | nil => intro _ pre a b post h; cases pre <;> cases h
  | cons x l ih =>
    intro hR pre a b post h
    cases pre with
    | nil =>
      cases l with
      | nil => cases h
      | cons y l' =>
        simp only [List.map_cons, List.nil_append, List.cons.injEq] at h
        exact ⟨x, y, h.1.symm, h.2.1.symm, hR [] x y l' rfl⟩
    | cons p pre' =>
      simp only [List.map_cons, List.cons_append, List.cons.injEq] at h
      exact ih (fun pre a b post e => hR (x :: pre) a b post (by rw [e]; rfl)) pre' a b post h.2

end Zvbi.Ttx
