import ZvbiModel.Ttx.Roundtrip7
/-!
# Frame lemmas for C02 (round 4), part 1: `Quiet`, cache containment through the table parsers

`Quiet s s' mag0`: `s'` differs from `s` at most in the *content* of assembly slot `mag0` (never its
page number, sub-code, flags, array shapes; a text page keeps its rows) and in the network record,
where no page was added to the cache.  Every branch of `process` other than the header branch and
the `vbi_teletext_desync` of packet 26 is `Quiet` (Frame2); this one relation carries
* magazine isolation (slot `m ≠ mag0` is untouched),
* the shape invariants (array extents) of Roundtrip8,
* the header-row invariant behind "consistent headers => no channel switch" (Roundtrip10).
-/
namespace Zvbi.Ttx
open Zvbi.Hamm Zvbi.Gen Zvbi.Ttx.Spec

/-! ## the cache only loses or reorders pages outside `put` -/

/-- every cached page of `n'` was already cached in `n` -/
def CacheSub (n n' : Net) : Prop := ∀ x ∈ n'.cache, x ∈ n.cache

theorem CacheSub.refl (n : Net) : CacheSub n n := fun _ h => h
theorem CacheSub.trans {a b c : Net} (h1 : CacheSub a b) (h2 : CacheSub b c) : CacheSub a c :=
  fun x hx => h1 x (h2 x hx)
theorem cacheSub_of_eq {n n' : Net} (h : n'.cache = n.cache) : CacheSub n n' := fun x hx => by rw [← h]; exact hx

theorem setStat_sub (n : Net) (pgno : Nat) (f : PageStat → PageStat) : CacheSub n (n.setStat pgno f).1 :=
  cacheSub_of_eq (setStat_cache n pgno f)

theorem cacheFind_sub (c : List Page) (pgno key mask : Nat) (q : Page) (c' : List Page)
    (h : cacheFind c pgno key mask = some (q, c')) : q ∈ c ∧ ∀ x ∈ c', x ∈ c := by
  rw [cacheFind_eq] at h
  cases hf : c.find? (keyMatch pgno key mask) with
  | none => rw [hf] at h; cases h
  | some q' =>
    rw [hf] at h
    simp only [Option.some.injEq, Prod.mk.injEq] at h
    obtain ⟨rfl, rfl⟩ := h
    have hq := List.mem_of_find?_eq_some hf
    refine ⟨hq, ?_⟩
    intro x hx
    rcases List.mem_cons.mp hx with rfl | hx
    · exact hq
    · exact List.mem_of_mem_erase hx

theorem cacheGet_sub (c : List Page) (pgno subno mask : Nat) (q : Page) (c' : List Page)
    (h : cacheGet c pgno subno mask = some (q, c')) : q ∈ c ∧ ∀ x ∈ c', x ∈ c := by
  unfold cacheGet at h
  split at h
  · cases h
  · exact cacheFind_sub _ _ _ _ _ _ h

theorem get_sub (n : Net) (pgno subno mask : Nat) : CacheSub n (n.get pgno subno mask).2.1 := by
  unfold Net.get
  cases hg : cacheGet n.cache pgno subno mask with
  | none => exact CacheSub.refl n
  | some r =>
    obtain ⟨q, c'⟩ := r
    exact (cacheGet_sub _ _ _ _ _ _ hg).2

/-- the page a look-up returns is a cached page -/
theorem get_mem (n : Net) (pgno subno mask : Nat) (q : Page) (h : (n.get pgno subno mask).1 = some q) :
    q ∈ n.cache := by
  unfold Net.get at h
  cases hg : cacheGet n.cache pgno subno mask with
  | none => rw [hg] at h; cases h
  | some r =>
    obtain ⟨q', c'⟩ := r
    rw [hg] at h
    simp only [Option.some.injEq] at h
    subst h
    exact (cacheGet_sub _ _ _ _ _ _ hg).1

theorem setMag_sub (n : Net) (mag8 : Nat) (m : Magazine) : CacheSub n (n.setMag mag8 m) := CacheSub.refl n

/-- folding a step that only loses cached pages -/
theorem fold_sub {α β : Type} (f : β → α → β) (proj : β → Net) (hstep : ∀ b a, CacheSub (proj b) (proj (f b a)))
    (l : List α) : ∀ b, CacheSub (proj b) (proj (l.foldl f b)) := by
  induction l with
  | nil => intro b; exact CacheSub.refl _
  | cons a l ih => intro b; exact (hstep b a).trans (ih (f b a))

theorem mptStep_sub (g : Nat → Option Nat) (acc : Net × List Aux) (it : Nat × Nat) :
    CacheSub acc.1 (mptStep g acc it).1 := by
  unfold mptStep
  simp only []
  repeat' split
  all_goals first | exact CacheSub.refl _ | exact setStat_sub _ _ _

theorem parseMpt_sub (n : Net) (g : Nat → Option Nat) (packet : Nat) : CacheSub n (parseMpt n g packet).1 := by
  unfold parseMpt
  exact fold_sub (mptStep g) (·.1) (mptStep_sub g) _ (n, [])

theorem mptExStep_sub (lk : Nat → Option Link) (acc : (Net × Bool) × List Aux) (i : Nat) :
    CacheSub acc.1.1 (mptExStep lk acc i).1.1 := by
  unfold mptExStep
  simp only []
  repeat' split
  all_goals first | exact CacheSub.refl _ | exact setStat_sub _ _ _

theorem parseMptEx_sub (n : Net) (lk : Nat → Option Link) (packet : Nat) : CacheSub n (parseMptEx n lk packet).1 := by
  unfold parseMptEx
  split
  · exact fold_sub (mptExStep lk) (·.1.1) (mptExStep_sub lk) _ ((n, false), [])
  · exact CacheSub.refl n

theorem bttEntry_sub (v : View) (index rawPos : Nat) (acc : (Net × Nat × Bool) × List Aux) (k : Nat) :
    CacheSub acc.1.1 (bttEntry v index rawPos acc k).1.1 := by
  unfold bttEntry
  simp only []
  split
  · exact CacheSub.refl _
  · split
    · exact CacheSub.refl _
    · split
      · -- BTT_SUBTITLE: setStat, get, setStat?, setStat
        simp only []
        apply CacheSub.trans ?_ (setStat_sub _ _ _)
        apply CacheSub.trans (setStat_sub _ _ _)
        apply CacheSub.trans (get_sub _ _ _ _)
        split
        · exact setStat_sub _ _ _
        · exact CacheSub.refl _
      · split
        · exact setStat_sub _ _ _
        · exact setStat_sub _ _ _

theorem bttGroup_sub (v : View) (acc : (Net × Nat × Nat) × List Aux) (g : Nat) :
    CacheSub acc.1.1 (bttGroup v acc g).1.1 := by
  unfold bttGroup
  simp only []
  exact fold_sub (bttEntry v acc.1.2.1 acc.1.2.2) (·.1.1) (bttEntry_sub v _ _) _ ((acc.1.1, 0, false), acc.2)

theorem bttLinkStep_sub (v : View) (packet : Nat) (acc : Net × List Aux) (i : Nat) :
    CacheSub acc.1 (bttLinkStep v packet acc i).1 := by
  unfold bttLinkStep
  simp only []
  repeat' split
  all_goals first
    | exact CacheSub.refl _
    | exact CacheSub.trans (b := { acc.1 with bttLink := _ }) (cacheSub_of_eq rfl) (setStat_sub _ _ _)
    | exact cacheSub_of_eq rfl

theorem parseBtt_sub (n : Net) (v : View) (packet : Nat) : CacheSub n (parseBtt n v packet).1 := by
  unfold parseBtt
  split
  · exact fold_sub (bttGroup v) (·.1.1) (bttGroup_sub v) _ ((n, _, 0), [])
  · split
    · exact (cacheSub_of_eq (n := n) (n' := { n with haveTop := true }) rfl).trans
        (fold_sub (bttLinkStep v packet) (·.1) (bttLinkStep_sub v packet) _ ({ n with haveTop := true }, []))
    · exact CacheSub.refl n

theorem mipClassify_sub (n : Net) (vtp : Page) (pgno code spi : Nat) (r : Net × List Aux × Nat × Nat × Nat)
    (h : mipClassify n vtp pgno code spi = some r) : CacheSub n r.1 := by
  unfold mipClassify at h
  split at h
  · cases h; exact CacheSub.refl _
  · split at h
    · cases h; exact (get_sub _ _ _ _).trans (setStat_sub _ _ _)
    · split at h
      · split at h
        · cases h
        · simp only [] at h
          generalize (rowView Kind.rowH8 _).g16 _ = A at h
          generalize (rowView Kind.rowH8 _).g8 _ = B at h
          cases A <;> cases B <;> simp only [] at h
          · cases h
          · cases h
          · cases h
          · repeat' (split at h)
            all_goals first | (cases h; done) | (cases h; exact CacheSub.refl _)
      · cases h; exact CacheSub.refl _

theorem parseMipPage_sub (n : Net) (vtp : Page) (pgno : Nat) (code : Option Nat) (spi : Nat) :
    CacheSub n (parseMipPage n vtp pgno code spi).1 := by
  unfold parseMipPage
  split
  · exact CacheSub.refl n
  · split
    · exact CacheSub.refl n
    · split
      · exact CacheSub.refl n
      · rename_i r hr
        exact (mipClassify_sub n vtp pgno _ spi r hr).trans (setStat_sub _ _ _)

theorem mipStep_sub (vtp : Page) (base : Nat) (acc : (Net × Nat × Bool) × List Aux) (it : Nat × Nat × Nat) :
    CacheSub acc.1.1 (mipStep vtp base acc it).1.1 := by
  unfold mipStep
  split
  · exact CacheSub.refl _
  · split
    · exact CacheSub.refl _
    · exact parseMipPage_sub _ _ _ _ _

theorem parseMip_sub (n : Net) (vtp : Page) : CacheSub n (parseMip n vtp).1 := by
  unfold parseMip
  generalize mipOffsets = l
  exact fold_sub (mipStep vtp (vtp.pgno &&& 0xF00)) (·.1.1) (mipStep_sub vtp _) l ((n, 0, false), [])

theorem convMptStep_sub (vtp : Page) (acc : Net × List Aux) (k : Nat) : CacheSub acc.1 (convMptStep vtp acc k).1 := by
  unfold convMptStep
  split
  · exact CacheSub.refl _
  · exact parseMpt_sub _ _ _

theorem convMptExStep_sub (vtp : Page) (acc : Net × List Aux) (k : Nat) : CacheSub acc.1 (convMptExStep vtp acc k).1 := by
  unfold convMptExStep
  split
  · exact CacheSub.refl _
  · exact parseMptEx_sub _ _ _

theorem convertPage_sub (n : Net) (vtp : Page) (fn : Int) : CacheSub n (convertPage n vtp fn).2.1 := by
  unfold convertPage
  simp only []
  repeat' split
  all_goals first
    | exact CacheSub.refl _
    | exact fold_sub (convMptStep vtp) (·.1) (convMptStep_sub vtp) _ (n, [])
    | exact fold_sub (convMptExStep vtp) (·.1) (convMptExStep_sub vtp) _ (n, [])

/-! ## `Quiet` -/

/-- `s'` differs from `s` at most in the content of slot `mag0` and in the network record -/
structure Quiet (s s' : St) (mag0 : Nat) : Prop where
  len : s'.raw.length = s.raw.length
  mask : s'.mask = s.mask
  cd : s'.chswcd = s.chswcd
  cur : s'.current = s.current
  hdr : s'.header = s.header ∧ s'.hdrPgno = s.hdrPgno
  other : ∀ c, c ≠ mag0 → s'.rp c = s.rp c
  flags : (s'.rp mag0).page.flags = (s.rp mag0).page.flags
  pgno : (s'.rp mag0).page.pgno = (s.rp mag0).page.pgno
  subno : (s'.rp mag0).page.subno = (s.rp mag0).page.subno
  lrlen : (s'.rp mag0).lopRaw.length = (s.rp mag0).lopRaw.length
  rawlen : (s'.rp mag0).page.raw.length = (s.rp mag0).page.raw.length
  /-- a slot that holds a text page held it before, with the same rows (and the same page record apart from
      enhancement / link / extension data) -/
  lop : (s'.rp mag0).page.function = FN_LOP →
    (s.rp mag0).page.function = FN_LOP ∧ (s'.rp mag0).page.raw = (s.rp mag0).page.raw
  disc : (s'.rp mag0).page.function ≠ FN_DISCARD → (s.rp mag0).page.function ≠ FN_DISCARD
  cache : CacheSub s.net s'.net

theorem Quiet.refl (s : St) (m : Nat) : Quiet s s m :=
  ⟨rfl, rfl, rfl, rfl, ⟨rfl, rfl⟩, fun _ _ => rfl, rfl, rfl, rfl, rfl, rfl, fun h => ⟨h, rfl⟩, id, CacheSub.refl _⟩

theorem Quiet.trans {a b c : St} {m : Nat} (h1 : Quiet a b m) (h2 : Quiet b c m) : Quiet a c m := by
  refine ⟨h2.len.trans h1.len, h2.mask.trans h1.mask, h2.cd.trans h1.cd, h2.cur.trans h1.cur,
    ⟨h2.hdr.1.trans h1.hdr.1, h2.hdr.2.trans h1.hdr.2⟩, fun x hx => (h2.other x hx).trans (h1.other x hx),
    h2.flags.trans h1.flags, h2.pgno.trans h1.pgno, h2.subno.trans h1.subno, h2.lrlen.trans h1.lrlen,
    h2.rawlen.trans h1.rawlen, ?_, fun h => h1.disc (h2.disc h), h1.cache.trans h2.cache⟩
  intro h
  obtain ⟨f2, r2⟩ := h2.lop h
  obtain ⟨f1, r1⟩ := h1.lop f2
  exact ⟨f1, r2.trans r1⟩

theorem setRp_ge (s : St) (m : Nat) (x : RawPage) (h : ¬ m < s.raw.length) : s.setRp m x = s := by
  unfold St.setRp
  rw [List.set_eq_of_length_le (by omega)]

theorem quiet_setRp (s : St) (m : Nat) (x : RawPage)
    (h1 : x.page.flags = (s.rp m).page.flags) (h2 : x.page.pgno = (s.rp m).page.pgno)
    (h3 : x.page.subno = (s.rp m).page.subno) (h4 : x.lopRaw.length = (s.rp m).lopRaw.length)
    (h5 : x.page.raw.length = (s.rp m).page.raw.length)
    (h6 : x.page.function = FN_LOP → (s.rp m).page.function = FN_LOP ∧ x.page.raw = (s.rp m).page.raw)
    (h7 : x.page.function ≠ FN_DISCARD → (s.rp m).page.function ≠ FN_DISCARD) : Quiet s (s.setRp m x) m := by
  by_cases hm : m < s.raw.length
  · refine ⟨setRp_length s m x, rfl, rfl, rfl, ⟨rfl, rfl⟩, fun c hc => rp_setRp_other s m c x hc, ?_, ?_, ?_, ?_, ?_, ?_, ?_,
      CacheSub.refl _⟩
    all_goals rw [rp_setRp_same s m x hm]
    all_goals assumption
  · rw [setRp_ge s m x hm]; exact Quiet.refl s m

/-- the page record of slot `m` replaced by one with the same identity and function; rows kept if it is a
    text page -/
theorem quiet_setPage (s : St) (m : Nat) (pg : Page)
    (h1 : pg.flags = (s.rp m).page.flags) (h2 : pg.pgno = (s.rp m).page.pgno)
    (h3 : pg.subno = (s.rp m).page.subno) (h5 : pg.raw.length = (s.rp m).page.raw.length)
    (hf : pg.function = (s.rp m).page.function)
    (hr : (s.rp m).page.function = FN_LOP → pg.raw = (s.rp m).page.raw) : Quiet s (s.setPage m pg) m := by
  unfold St.setPage
  exact quiet_setRp s m _ h1 h2 h3 rfl h5 (fun h => ⟨hf ▸ h, hr (hf ▸ h)⟩) (fun h => hf ▸ h)

/-- only `lop_raw`, `lop_packets`, `num_triplets` of slot `m` change -/
theorem quiet_setRp_page (s : St) (m : Nat) (x : RawPage) (hp : x.page = (s.rp m).page)
    (h4 : x.lopRaw.length = (s.rp m).lopRaw.length) : Quiet s (s.setRp m x) m :=
  quiet_setRp s m x (by rw [hp]) (by rw [hp]) (by rw [hp]) h4 (by rw [hp]) (fun h => by rw [hp] at h ⊢; exact ⟨h, rfl⟩)
    (fun h => by rw [hp] at h; exact h)

theorem quiet_net (s : St) (n : Net) (m : Nat) (h : CacheSub s.net n) : Quiet s { s with net := n } m :=
  ⟨rfl, rfl, rfl, rfl, ⟨rfl, rfl⟩, fun _ _ => rfl, rfl, rfl, rfl, rfl, rfl, fun h => ⟨h, rfl⟩, id, h⟩

/-- the events of the branches that store nothing: table parser diagnostics only -/
def Silent (ev : List Event) : Prop := ∃ l, ev = liftAux l

theorem silent_nil : Silent [] := ⟨[], rfl⟩
theorem silent_lift (l : List Aux) : Silent (liftAux l) := ⟨l, rfl⟩

theorem Silent.pages {ev : List Event} (h : Silent ev) : ttxPages ev = [] := by
  obtain ⟨l, rfl⟩ := h; exact ttxPages_liftAux l
theorem Silent.nochsw {ev : List Event} (h : Silent ev) : Event.chsw ∉ ev := by
  obtain ⟨l, rfl⟩ := h; exact chsw_not_mem_liftAux l
theorem Silent.noput {ev : List Event} (h : Silent ev) (q : Page) : Event.put q ∉ ev := by
  obtain ⟨l, rfl⟩ := h; exact put_not_mem_liftAux l q

end Zvbi.Ttx
