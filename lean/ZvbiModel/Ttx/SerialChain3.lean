import ZvbiModel.Ttx.SerialChain2
import ZvbiModel.Ttx.Chain9
/-!
# C02, magazine-serial cycles, part 3: decidable forms of the sender conditions (`GoodS`, `SSegOk`), used to discharge
the hypotheses of the serial cycle theorem on concrete packets (non-vacuity examples)
-/
namespace Zvbi.Ttx
open Zvbi.Hamm Zvbi.Gen Zvbi.Ttx.Spec

def goodSB (tmpl : List Nat) (off : Nat) (p : Packet) : Bool :=
  match a16 p 0 with
  | none => true
  | some pmag =>
    pmag >>> 3 != 0 ||
    (match a16 p 2 with
      | none => true
      | some page =>
        hdrOkB tmpl off ((if (pmag &&& 7) == 0 then 8 else pmag &&& 7) * 256 + page) (payload p)
        && ((decide (page ≤ 0x99) && decide (page &&& 15 ≤ 9)) || page == 0xFF))

theorem goodS_of_dec (tmpl : List Nat) (off : Nat) (p : Packet) (h : goodSB tmpl off p = true) : GoodS tmpl off p := by
  unfold goodSB at h
  refine ⟨?_, ?_⟩
  · intro pmag page ha h0 hp
    rw [ha] at h
    simp only [h0, bne_self_eq_false, Bool.false_or, hp, Bool.and_eq_true] at h
    exact hdrOk_of_dec _ _ _ _ h.1
  · intro pmag page ha h0 hp
    rw [ha] at h
    simp only [h0, bne_self_eq_false, Bool.false_or, hp, Bool.and_eq_true, Bool.or_eq_true, decide_eq_true_eq,
      beq_iff_eq] at h
    exact h.2

def rowB (m : Nat) (r : RowPkt) : Bool :=
  decide (m < 8) && decide (r.1 < 32) && (a16 r.2 0 == some (m + 8 * r.1)) && decide (1 ≤ r.1) && decide (r.1 ≤ 25)
    && (payload r.2).all (fun b => decide (b < 256) && oddPar b)

def ssegOkB (tmpl : List Nat) (off : Nat) (x : STx) : Bool :=
  decide (x.1.m < 8) && (a16 x.2.1 0 == some x.1.m) && (a16 x.2.1 2 == some x.1.page)
  && (a16 x.2.1 4 == some x.1.s12) && (a16 x.2.1 6 == some x.1.s34) && (a16 x.2.1 8 == some x.1.fl)
  && decide (x.1.page ≤ 0x99) && decide (x.1.page &&& 15 ≤ 9) && (x.1.fl &&& 0x10 == 0x10) && goodSB tmpl off x.2.1
  && x.2.2.all (rowB x.1.m)

theorem ssegOk_of_dec (tmpl : List Nat) (off : Nat) (x : STx) (h : ssegOkB tmpl off x = true) : SSegOk tmpl off x := by
  simp only [ssegOkB, Bool.and_eq_true, decide_eq_true_eq, beq_iff_eq, List.all_eq_true] at h
  obtain ⟨⟨⟨⟨⟨⟨⟨⟨⟨⟨h1, h2⟩, h3⟩, h4⟩, h5⟩, h6⟩, h7⟩, h8⟩, h9⟩, h10⟩, h11⟩ := h
  refine ⟨⟨h1, h2, h3, h4, h5, h6⟩, ⟨h7, h8⟩, h9, (goodS_of_dec _ _ _ h10).1, ?_⟩
  intro r hr
  have := h11 r hr
  simp only [rowB, Bool.and_eq_true, decide_eq_true_eq, beq_iff_eq, List.all_eq_true] at this
  obtain ⟨⟨⟨⟨⟨a1, a2⟩, a3⟩, a4⟩, a5⟩, a6⟩ := this
  exact ⟨⟨a1, a2, a3⟩, a4, a5, fun b hb => a6 b hb⟩

end Zvbi.Ttx
