import ZvbiModel.Ttx.Lemmas7
/-!
# Lemmas for C02 `page_roundtrip`, part 1: the cache abstraction and the rolling-header test

(iv) `cacheGet` after `cachePut` finds the page just stored (exact key and wildcard), also after
     other pages were looked up / moved to the front of the chain;
(ii) `sameHeader` returns TRUE for a header that agrees with the reference header outside the page
     number, hence `storeLop` stores (`hdrVerdict` is never `.reset` for a consistent header).
-/
namespace Zvbi.Ttx
open Zvbi.Hamm Zvbi.Gen Zvbi.Ttx.Spec

/-! ## list helpers -/

theorem find?_erase_of_false (f : Page → Bool) (x : Page) (hx : f x = false) (l : List Page) :
    (l.erase x).find? f = l.find? f := by
  induction l with
  | nil => rfl
  | cons y ys ih =>
    by_cases e : y = x
    · subst e; simp [hx]
    · rw [List.erase_cons_tail (by simpa using e)]
      simp only [List.find?_cons]
      cases f y <;> simp [ih]

/-- moving a page that does not match to the front does not change what a look-up finds -/
theorem find?_moveFront (f : Page → Bool) (x : Page) (hx : f x = false) (l : List Page) :
    (x :: l.erase x).find? f = l.find? f := by
  rw [List.find?_cons, hx]
  exact find?_erase_of_false f x hx l

/-! ## (iv) the cache -/

/-- the look-up predicate of `page_by_pgno` -/
def keyMatch (pgno key mask : Nat) (q : Page) : Bool :=
  q.pgno == pgno && (q.subno &&& mask) == (key &&& mask)

theorem cacheFind_eq (c : List Page) (pgno key mask : Nat) :
    cacheFind c pgno key mask =
      match c.find? (keyMatch pgno key mask) with
      | some q => some (q, q :: c.erase q)
      | none => none := rfl

theorem truncate_pgno (p : Page) : p.truncate.pgno = p.pgno := by
  unfold Page.truncate; repeat' split
  all_goals rfl

theorem truncate_raw (p : Page) : p.truncate.raw = p.raw := by
  unfold Page.truncate; repeat' split
  all_goals rfl

theorem truncate_function (p : Page) : p.truncate.function = p.function := by
  unfold Page.truncate; repeat' split
  all_goals rfl

theorem truncate_flags (p : Page) : p.truncate.flags = p.flags := by
  unfold Page.truncate; repeat' split
  all_goals rfl

theorem truncate_national (p : Page) : p.truncate.national = p.national := by
  unfold Page.truncate; repeat' split
  all_goals rfl

theorem truncate_lopPackets (p : Page) : p.truncate.lopPackets = p.lopPackets := by
  unfold Page.truncate; repeat' split
  all_goals rfl

/-- the page `_vbi_cache_put_page pageType p` files: a copy of `p` (the unused tail of the union cut
    off) under the subpage number chosen by the key rule `putKey` -/
structure StoredAs (q : Page) (pageType : Nat) (p : Page) : Prop where
  fn : q.function = p.function
  pgno : q.pgno = p.pgno
  national : q.national = p.national
  flags : q.flags = p.flags
  raw : q.raw = p.raw
  subno : ∀ key mask, putKey pageType p.pgno p.subno = (key, mask) → q.subno = key

theorem cachePutF_head_aux (fix : Bool) (c : List Page) (pt : Nat) (p : Page) (h : p.pgno &&& 0xFF ≠ 0xFF) :
    ∃ q rest, cachePutF fix c pt p = some (q :: rest) ∧ q.function = p.function ∧ q.pgno = p.pgno
      ∧ q.national = p.national ∧ q.flags = p.flags ∧ q.raw = p.raw
      ∧ ∀ key mask, putKey pt p.pgno p.subno = (key, mask) → q.subno = key := by
  unfold cachePutF
  rw [if_neg (by simpa using h)]
  generalize putKey pt p.pgno p.subno = k
  obtain ⟨a, b⟩ := k
  refine ⟨{ p.truncate with subno := a }, _, rfl, truncate_function p, truncate_pgno p, truncate_national p,
    truncate_flags p, truncate_raw p, ?_⟩
  intro key mask hkm
  cases hkm
  rfl

theorem cachePut_head_aux (c : List Page) (pt : Nat) (p : Page) (h : p.pgno &&& 0xFF ≠ 0xFF) :
    ∃ q rest, cachePut c pt p = some (q :: rest) ∧ q.function = p.function ∧ q.pgno = p.pgno
      ∧ q.national = p.national ∧ q.flags = p.flags ∧ q.raw = p.raw
      ∧ ∀ key mask, putKey pt p.pgno p.subno = (key, mask) → q.subno = key :=
  cachePutF_head_aux _ c pt p h

/-- `cachePut` puts the stored page at the head of the chain -/
theorem cachePut_head (c : List Page) (pt : Nat) (p : Page) (h : p.pgno &&& 0xFF ≠ 0xFF) :
    ∃ q rest, cachePut c pt p = some (q :: rest) ∧ StoredAs q pt p := by
  obtain ⟨q, rest, h1, h2, h3, h4, h5, h6, h7⟩ := cachePut_head_aux c pt p h
  exact ⟨q, rest, h1, ⟨h2, h3, h4, h5, h6, h7⟩⟩

/-- a valid page number for `_vbi_cache_get_page` -/
def validPgno (pgno : Nat) : Prop := 0x100 ≤ pgno ∧ pgno ≤ 0x8FF ∧ pgno &&& 0xFF ≠ 0xFF

theorem cacheGet_valid (c : List Page) (pgno subno mask : Nat) (h : validPgno pgno) :
    cacheGet c pgno subno mask = cacheFind c pgno subno (if subno == ANY_SUBNO then 0 else mask) := by
  unfold cacheGet
  obtain ⟨h1, h2, h3⟩ := h
  have a : decide (pgno < 0x100) = false := by simp; omega
  have b : decide (pgno > 0x8FF) = false := by simp; omega
  have d : (pgno &&& 0xFF == 0xFF) = false := by simpa using h3
  simp [a, b, d]

/-- **(iv)** exact-key look-up of a chain whose head is the page: the page is returned, the chain
    is unchanged -/
theorem cacheGet_head (q : Page) (rest : List Page) (subno mask : Nat) (hv : validPgno q.pgno)
    (hs : subno = q.subno ∨ subno = ANY_SUBNO) :
    cacheGet (q :: rest) q.pgno subno mask = some (q, q :: rest) := by
  rw [cacheGet_valid _ _ _ _ hv, cacheFind_eq]
  have hm : keyMatch q.pgno subno (if subno == ANY_SUBNO then 0 else mask) q = true := by
    unfold keyMatch
    rcases hs with hs | hs
    · subst hs; simp
    · subst hs; simp
  rw [List.find?_cons, hm]
  simp

/-- look-ups of another page number (`Net.get` moves the page found to the front) do not change
    what a look-up of `pgno` finds -/
theorem find?_after_get (c : List Page) (pgno key mask pgno' key' mask' : Nat) (hne : pgno' ≠ pgno) :
    (match cacheFind c pgno' key' mask' with | some r => r.2 | none => c).find? (keyMatch pgno key mask)
      = c.find? (keyMatch pgno key mask) := by
  rw [cacheFind_eq]
  cases hf : c.find? (keyMatch pgno' key' mask') with
  | none => rfl
  | some q =>
    simp only []
    apply find?_moveFront
    have := List.find?_some hf
    unfold keyMatch at this ⊢
    simp only [Bool.and_eq_true, beq_iff_eq] at this
    have : (q.pgno == pgno) = false := by
      simp only [beq_eq_false_iff_ne]; rw [this.1]; exact hne
    simp [this]

/-! ### `putKey`: ordinary subpages are stored under their own number -/

/-- "subpages 01-79" (and 0 = page without subpages), the cases the property names; on a page the
    network declared a clock page (`VBI_CLOCK_PAGE`, subcode = time) only 00..59: cache.c folds
    "minutes" above 59 to subcode 0 -/
def plainSubno (pt subno : Nat) : Prop :=
  subno ≤ 0x79 ∧ subno &&& 15 ≤ 9 ∧ (pt ≠ PT_CLOCK ∨ subno ≤ 0x59)

theorem putKey_plain_aux1 : ∀ subno, subno < 0x80 → subno &&& 15 ≤ 9 →
    bcdDigitsGreater subno 0x79 = false := by decide +kernel
theorem putKey_plain_aux2 : ∀ subno, subno < 0x60 → subno &&& 15 ≤ 9 →
    bcdDigitsGreater subno 0x2959 = false := by decide +kernel

/-- a decimal page with subcode 0 or 01..79 is stored under exactly that subcode -/
theorem putKey_plain (pt pgno subno : Nat) (hb : isBcd pgno = true) (hs : plainSubno pt subno) :
    ∃ mask, putKey pt pgno subno = (subno, mask) := by
  obtain ⟨h1, h2, h3⟩ := hs
  have a := putKey_plain_aux1 subno (by omega) h2
  unfold putKey
  simp only [hb, if_true]
  by_cases h0 : subno = 0
  · subst h0; exact ⟨0, rfl⟩
  · have : (subno == 0) = false := by simpa using h0
    simp only [this]
    have h100 : ¬ subno ≥ 0x100 := by omega
    have h23 : ¬ subno > 0x2300 := by omega
    by_cases hc : pt = PT_CLOCK
    · subst hc
      have b := putKey_plain_aux2 subno (by rcases h3 with h3 | h3; exact absurd rfl h3; omega) h2
      exact ⟨0, by simp [b, h23]⟩
    · have : (pt == PT_CLOCK) = false := by simpa using hc
      exact ⟨0xFF, by simp [this, h100, a]⟩

/-! ## (ii) the rolling-header test -/

theorem sameHeader_go_tail (cur ref : List Nat) (b0 b1 b2 j : Nat) :
    ∀ (n fuel i : Nat), i + n = 32 → n ≤ fuel → j < i →
      (∀ k, i ≤ k → k < 32 → oddPar (cur.getD k 0) = true ∧ oddPar (ref.getD k 0) = true
        ∧ cur.getD k 0 = ref.getD k 0) →
      sameHeader.go cur ref b0 b1 b2 fuel i j false false = (j, false, false) := by
  intro n
  induction n with
  | zero =>
    intro fuel i hi _ _ _
    cases fuel with
    | zero => rw [sameHeader.go.eq_1]
    | succ f => rw [sameHeader.go.eq_2, if_pos (by omega)]
  | succ n ih =>
    intro fuel i hi hf hj hk
    cases fuel with
    | zero => omega
    | succ f =>
      rw [sameHeader.go.eq_2, if_neg (by omega)]
      have h1 : decide (i < j) = false := by simp; omega
      obtain ⟨o1, o2, e⟩ := hk i (Nat.le_refl _) (by omega)
      simp only [h1, Bool.false_and, Bool.false_eq_true, if_false, o2, e, Bool.not_true, Bool.or_false,
        bne_self_eq_false]
      exact ih f (i + 1) (by omega) (by omega) (by omega) (fun k hk1 hk2 => hk k (by omega) hk2)

theorem sameHeader_go_head (cur ref : List Nat) (b0 b1 b2 off : Nat) :
    ∀ (n f i : Nat), i + n = off → off < 32 →
      (∀ k, i ≤ k → k < off → (cur.getD k 0 == b0 && cur.getD (k + 1) 0 == b1 && cur.getD (k + 2) 0 == b2) = false
        ∧ oddPar (cur.getD k 0) = true ∧ oddPar (ref.getD k 0) = true ∧ cur.getD k 0 = ref.getD k 0) →
      sameHeader.go cur ref b0 b1 b2 (n + f) i 29 false false = sameHeader.go cur ref b0 b1 b2 f off 29 false false := by
  intro n
  induction n with
  | zero => intro f i hi _ _; simp at hi; subst hi; simp
  | succ n ih =>
    intro f i hi ho hk
    rw [show n + 1 + f = (n + f) + 1 by omega, sameHeader.go.eq_2, if_neg (by omega)]
    obtain ⟨d, o1, o2, e⟩ := hk i (Nat.le_refl _) (by omega)
    have hc : (decide (i < 29) && cur.getD i 0 == b0 && cur.getD (i + 1) 0 == b1 && cur.getD (i + 2) 0 == b2) = false := by
      rw [Bool.and_assoc, Bool.and_assoc, ← Bool.and_assoc (cur.getD i 0 == b0), d]; simp
    rw [hc]
    simp only [Bool.false_eq_true, if_false, o2, e, Bool.not_true, Bool.or_false, bne_self_eq_false]
    exact ih f (i + 1) (by omega) ho (fun k hk1 hk2 => hk k (by omega) hk2)

/-- the page number digits of `pgno` as `same_header` looks for them -/
def pgDigits (pgno : Nat) : Nat × Nat × Nat :=
  (par8 ((pgno >>> 8) + 0x30), par8 (((pgno >>> 4) &&& 15) + 0x30), par8 ((pgno &&& 15) + 0x30))

/-- "consistent page header" as `same_header` needs it: in columns 8..31 the page number of `cur`
    first occurs at column `off`, and outside these three columns and the one after (which the loop
    also skips) both headers have odd parity and are equal -/
structure HeaderAgrees (pgno : Nat) (cur ref : List Nat) (off : Nat) : Prop where
  lo : 8 ≤ off
  hi : off ≤ 28
  digits : cur.getD off 0 = (pgDigits pgno).1 ∧ cur.getD (off + 1) 0 = (pgDigits pgno).2.1
    ∧ cur.getD (off + 2) 0 = (pgDigits pgno).2.2
  first : ∀ k, 8 ≤ k → k < off →
    (cur.getD k 0 == (pgDigits pgno).1 && cur.getD (k + 1) 0 == (pgDigits pgno).2.1
      && cur.getD (k + 2) 0 == (pgDigits pgno).2.2) = false
  same : ∀ k, 8 ≤ k → k < 32 → (k < off ∨ off + 4 ≤ k) →
    oddPar (cur.getD k 0) = true ∧ oddPar (ref.getD k 0) = true ∧ cur.getD k 0 = ref.getD k 0

/-- **(ii)** `same_header` returns TRUE (and the page number offset) for a consistent header -/
theorem sameHeader_agrees (pgno : Nat) (cur ref : List Nat) (off : Nat) (h : HeaderAgrees pgno cur ref off) :
    sameHeader pgno cur ref = (1, off) := by
  have hlo := h.lo
  have hhi := h.hi
  unfold sameHeader
  simp only []
  have h1 := sameHeader_go_head cur ref (pgDigits pgno).1 (pgDigits pgno).2.1 (pgDigits pgno).2.2 off
    (off - 8) (32 - (off - 8)) 8 (by omega) (by omega)
    (fun k hk1 hk2 => ⟨h.first k hk1 hk2, h.same k hk1 (by omega) (Or.inl hk2)⟩)
  have e32 : off - 8 + (32 - (off - 8)) = 32 := by omega
  rw [e32] at h1
  unfold pgDigits at h1
  simp only [] at h1
  rw [h1]
  obtain ⟨f, hf⟩ : ∃ f, 32 - (off - 8) = f + 1 := ⟨32 - (off - 8) - 1, by omega⟩
  rw [hf, sameHeader.go.eq_2]
  have hn : ¬ off ≥ 32 := by omega
  rw [if_neg hn]
  have hd := h.digits
  unfold pgDigits at hd
  simp only [] at hd
  have hc : (decide (off < 29) && cur.getD off 0 == par8 ((pgno >>> 8) + 0x30)
      && cur.getD (off + 1) 0 == par8 (((pgno >>> 4) &&& 15) + 0x30)
      && cur.getD (off + 2) 0 == par8 ((pgno &&& 15) + 0x30)) = true := by
    rw [hd.1, hd.2.1, hd.2.2]
    have : decide (off < 29) = true := by simp; omega
    simp [this]
  rw [if_pos hc]
  rw [sameHeader_go_tail cur ref _ _ _ off (32 - (off + 4)) f (off + 4) (by omega)
    (by omega) (by omega)
    (fun k hk1 hk2 => h.same k (by omega) hk2 (Or.inr hk1))]
  have : decide (off ≥ 29) = false := by simp; omega
  simp [this]

end Zvbi.Ttx
