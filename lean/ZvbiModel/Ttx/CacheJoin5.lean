import ZvbiModel.Ttx.CacheJoin4
/-!
# C03 x C10: the memory limit along the mirrored trace (lemmas for Props/C03Refine.lean)

Every `mirrorOp` keeps the C10 invariant and the memory limit of `vbi_cache_new` (1 GiB) - unconditionally; hence memory
is not short at a store as long as the cache holds at most 0x800 x 80 pages (`Cache.mem_room_0_2`).
-/
namespace Zvbi.CacheJoin
open Zvbi.Cache Zvbi.Gen.Cache
open Zvbi.Props.C03Join (mirrorOp mirror)

/-- C10 invariant, memory limit as set by `vbi_cache_new` -/
def G (s : State) : Prop := Good s ∧ s.memLimit = memoryLimit0

theorem ptype_limit (s : State) (nid pgno t : Nat) : (stepCur s (.ptype nid pgno t)).1.memLimit = s.memLimit := by
  show (step s (.ptype nid pgno t)).1.memLimit = _
  unfold step
  simp only
  split
  · rfl
  · split <;> rfl

theorem chsw_limit {s : State} (g : Good s) (nid : Nat) : (stepCur s (.chsw nid)).1.memLimit = s.memLimit := by
  show (step s (.chsw nid)).1.memLimit = _
  unfold step
  simp only
  split
  · rfl
  · obtain ⟨h, hz, _⟩ := g
    obtain ⟨a, b, c, _⟩ := netUnref_all h hz nid
    obtain ⟨_, _, d, _⟩ := addNetwork_all a b
    show (s.netUnref nid).addNetwork.1.memLimit = _
    rw [d.limit, c.limit]

/-- every mirrored decoder operation keeps the C10 invariant and the memory limit -/
theorem mirrorOp_G (enc : Ttx.Page → Nat) {acc : State × Nat} (g : G acc.1) (op : Ttx.CacheOp) : G (mirrorOp enc acc op).1 := by
  cases op with
  | get pgno subno mask =>
    have h1 : G (acc.1.getPage acc.2 pgno subno mask).1 :=
      ⟨good_getPage g.1 acc.2 pgno subno mask, (getPage_all g.1.1 g.1.2.1 acc.2 pgno subno mask).2.2.2.trans g.2⟩
    show G (match acc.1.getPage acc.2 pgno subno mask with
      | (s, some q) => (s.pageUnref q.id, acc.2)
      | (s, none) => (s, acc.2)).1
    generalize acc.1.getPage acc.2 pgno subno mask = r at h1
    obtain ⟨s', o⟩ := r
    cases o with
    | none => exact h1
    | some q => exact ⟨good_pageUnref h1.1 q.id, (pageUnref_all h1.1.1 h1.1.2.1 q.id).2.2.trans h1.2⟩
  | put pt p =>
    have h0 : G (stepCur acc.1 (.ptype acc.2 p.pgno pt)).1 :=
      ⟨good_stepF _ g.1 _, (ptype_limit acc.1 acc.2 p.pgno pt).trans g.2⟩
    show G (match (stepCur acc.1 (.ptype acc.2 p.pgno pt)).1.putPageF putReplacesAllVersions acc.2
          ⟨p.pgno, p.subno, p.function, p.x26, p.x28, enc (tstored pt p)⟩ with
      | .ok (s', some q) => (s'.pageUnref q.id, acc.2)
      | .ok (s', none) => (s', acc.2)
      | .error _ => ((stepCur acc.1 (.ptype acc.2 p.pgno pt)).1, acc.2)).1
    generalize (stepCur acc.1 (.ptype acc.2 p.pgno pt)).1 = s0 at h0
    generalize hx : s0.putPageF putReplacesAllVersions acc.2 ⟨p.pgno, p.subno, p.function, p.x26, p.x28, enc (tstored pt p)⟩ = x
    cases x with
    | error e => exact h0
    | ok sr =>
      obtain ⟨s', r⟩ := sr
      obtain ⟨i1, i2, i3, i4, _⟩ := putPageF_all putReplacesAllVersions h0.1.1 h0.1.2.1 acc.2 _ hx
      have h1 : G s' := ⟨⟨i1, i2, by have := h0.1.2.2; omega⟩, i4.trans h0.2⟩
      cases r with
      | none => exact h1
      | some q => exact ⟨good_pageUnref h1.1 q.id, (pageUnref_all h1.1.1 h1.1.2.1 q.id).2.2.trans h1.2⟩
  | clear =>
    have h1 : G (stepCur acc.1 (.chsw acc.2)).1 := ⟨good_stepF _ g.1 _, (chsw_limit g.1 acc.2).trans g.2⟩
    show G (match stepCur acc.1 (.chsw acc.2) with
      | (s, .net nid') => (s, nid')
      | (s, _) => (s, acc.2)).1
    generalize stepCur acc.1 (.chsw acc.2) = r at h1
    obtain ⟨S, o⟩ := r
    cases o <;> exact h1

/-- at every store of the trace mirrored from `acc` on the cache holds at most 0x800 x 80 pages -/
def PagesFew (enc : Ttx.Page → Nat) : State × Nat → List Ttx.CacheOp → Prop
  | _, [] => True
  | acc, .put pt p :: rest => acc.1.pages.length ≤ 0x800 * 80 ∧ PagesFew enc (mirrorOp enc acc (.put pt p)) rest
  | acc, .get pgno subno mask :: rest => PagesFew enc (mirrorOp enc acc (.get pgno subno mask)) rest
  | acc, .clear :: rest => PagesFew enc (mirrorOp enc acc .clear) rest

instance decPagesFew (enc : Ttx.Page → Nat) : (acc : State × Nat) → (ops : List Ttx.CacheOp) → Decidable (PagesFew enc acc ops)
  | _, [] => isTrue trivial
  | acc, .put pt p :: rest =>
    have := decPagesFew enc (mirrorOp enc acc (.put pt p)) rest
    inferInstanceAs (Decidable (acc.1.pages.length ≤ 0x800 * 80 ∧ PagesFew enc (mirrorOp enc acc (.put pt p)) rest))
  | acc, .get pgno subno mask :: rest => decPagesFew enc (mirrorOp enc acc (.get pgno subno mask)) rest
  | acc, .clear :: rest => decPagesFew enc (mirrorOp enc acc .clear) rest

theorem memNeverShort_of_few (enc : Ttx.Page → Nat) (ops : List Ttx.CacheOp) :
    ∀ acc : State × Nat, G acc.1 → PagesFew enc acc ops → MemNeverShort enc acc ops := by
  induction ops with
  | nil => intro _ _ _; trivial
  | cons op rest ih =>
    intro acc g hf
    have g' := mirrorOp_G enc g op
    cases op with
    | get pgno subno mask => exact ih _ g' hf
    | put pt p => exact ⟨mem_room_0_2 (inv_iff_good.2 g.1) g.2 hf.1 _ _ _, ih _ g' hf.2⟩
    | clear => exact ih _ g' hf

theorem G_init : G init.addNetwork.1 :=
  ⟨good_stepF putReplacesAllVersions good_init .addNet, rfl⟩

end Zvbi.CacheJoin
