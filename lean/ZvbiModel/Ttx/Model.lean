import ZvbiModel.Hamm.Model
import ZvbiModel.Generated.TtxLayout
import ZvbiModel.Generated.CacheLayout
/-!
# Model of the Teletext packet decoder: src/packet.c `vbi_decode_teletext` and what it dispatches to

## Public names (imported by C02 formatting, C01 safety, C17 search, C03 theorems)

* `Packet` (`List Nat`, 42 bytes) and the accessors `byte`, `a8`, `a16`, `a24`
* `Kind`, `kindOf`, `View`, `view` - the *only* way the model looks at a packet: `view k p` exposes,
  per packet kind, the Hamming 8/4 decodes, the Hamming 24/18 decodes and the raw (parity protected)
  bytes of exactly those positions which the C code reads with that accessor; everything else is
  masked.  `decodeTeletext s p = finish (process s pmag k (view k p))`.
* `Link`, `Triplet`, `Ext`, `Page` (= `cache_page`, LOP variant of the union + header fields),
  `RawPage` (= `struct raw_page`), `PageStat`, `Magazine`, `Net` (= `cache_network` Teletext part
  + the cached pages of that network), `St` (decoder state: `raw : List RawPage` page assembly per
  magazine, `current`, `header`, `chswcd`, `mask`, `net : Net`)
* `Aux` (`touch`, `fault`: all a table parser can emit), `Event` (`ttxPage`, `put`, `chsw`, `aux`),
  `Res` (state, events, return value)
* `init`, `St.enable` (handler registration), `frameTick` (the per-frame part of `vbi_decode`),
  `gap` (frame dropped), `decodeTeletext` (= `vbi_decode_teletext`), `step` (= one Teletext line
  through `vbi_decode`), `run` (a history), `desync`, `chswReset`
* cache abstraction: `Net.cache : List Page` in hash-chain (most recently used first) order,
  `cacheFind`, `cacheGet`, `cachePut`, `putKey`, `Net.get`, `Net.put`; `St.put` is the only place
  where a page is stored and emits `Event.put page`, every look-up emits `Aux.touch`, so the list
  can later be replaced by the C10 cache model (`ZvbiModel.Cache`) by replaying these events.
* `Zvbi.Gen.ttx*` (Generated/TtxLayout.lean): array extents and the flags `ttxFixF21..F25` saying
  which proposed repairs the current packet.c contains (the model follows them;
  also `ttxFixSerialErase` for commit 53b7b09 of the C02 builder).
* `lopParityCheck`, `storeLop`, `sameHeader`, `sameClock`, `pageLanguage`, `unhamPageLink`,
  `parseMot`, `parsePop`, `parseBtt`, `parseMip`, `parseMpt`, `parseMptEx`, `parseAitBounds`,
  `convertDrcsBounds`, `convertPage`, `terminatedSlot`, `terminatePage`, `hdrRejected`,
  `processHeader`, `processRow`, `x26Triplets`, `process26`, `parse27`, `parse2829`, `parse830`,
  `getBits`, `process`, `finish`, `hdr8`, `patchHdr8`
* `fmtRaw` - the character code the Level 1 formatter (`vbi_format_vt_page`) feeds into its
  attribute machine for one cell (parity failure -> 0x20)

## What is abstracted

* `cache_page.data` is a C union.  The model keeps the LOP variant (`raw`, `link`, `haveFlof`,
  `enh`, `ext`) as separate fields and does not model the *contents* of the POP / DRCS / AIT
  variants (which alias the same memory); for those only index arithmetic is modelled, every
  out-of-range index is reported as `Event.fault site`.  Contents of pages whose function is not
  UNKNOWN/LOP are therefore not compared with the C code.
* The cache is a finite list; reference counts, memory limit (2^30, unreachable) and page
  statistics maintained by cache.c (`n_subpages`, `subno_min` ...) belong to the C10 model.
* Only the event mask bit VBI_EVENT_TTX_PAGE is modelled (`St.mask`): no network / PDC / local
  time / trigger events (those are C12/C13).
* `header[0..7]` of `struct teletext` is never written by the library and stays 0 (calloc).
-/
namespace Zvbi.Ttx
open Zvbi.Hamm Zvbi.Gen

/-! ## constants -/
def FN_ACI : Int := -5
def FN_EPG : Int := -4
def FN_EACEM : Int := -3
def FN_DISCARD : Int := -2
def FN_UNKNOWN : Int := -1
def FN_LOP : Int := 0
def FN_DATA : Int := 1
def FN_GPOP : Int := 2
def FN_POP : Int := 3
def FN_GDRCS : Int := 4
def FN_DRCS : Int := 5
def FN_MOT : Int := 6
def FN_MIP : Int := 7
def FN_BTT : Int := 8
def FN_AIT : Int := 9
def FN_MPT : Int := 10
def FN_MPT_EX : Int := 11
def FN_IEC : Int := 12

def C4_ERASE_PAGE : Nat := 0x000080
def C5_NEWSFLASH : Nat := 0x004000
def C6_SUBTITLE : Nat := 0x008000
def C7_SUPPRESS_HEADER : Nat := 0x010000
def C9_INTERRUPTED : Nat := 0x040000
def C10_INHIBIT_DISPLAY : Nat := 0x080000
def C11_MAGAZINE_SERIAL : Nat := 0x100000

def PT_NO_PAGE : Nat := 0x00
def PT_NORMAL : Nat := 0x01
def PT_SUBTITLE : Nat := 0x70
def PT_CLOCK : Nat := 0x79
def PT_CURRENT_PROGR : Nat := 0x7C
def PT_PROGR_SCHEDULE : Nat := 0x81
def PT_UNKNOWN : Nat := 0xFF
def PT_NOT_PUBLIC : Nat := 0x80
def PT_CA_DATA : Nat := 0xE0
def PT_EPG_DATA : Nat := 0xE3
def PT_SYSTEM : Nat := 0xE7
def PT_DISP_SYSTEM : Nat := 0xF7
def PT_KEYWORD : Nat := 0xF9
def PT_TOP_BLOCK : Nat := 0xFA
def PT_TOP_GROUP : Nat := 0xFB
def PT_TRIGGER : Nat := 0xFC
def PT_ACI : Nat := 0xFD
def PT_TOP_PAGE : Nat := 0xFE

def ANY_SUBNO : Nat := 0x3F7F
/-! array extents: regenerated from /repo's headers by translate/gen_ttx.py on every run -/
def ENH_SIZE : Nat := ttxEnhSize               -- ttx_enhancement, 16 * 13 + 1
def POP_POINTER_SIZE : Nat := ttxPopPointerSize -- 4 * 12 * 2
def POP_TRIPLET_SIZE : Nat := ttxPopTripletSize -- 39 * 13 + 1
def AIT_TITLES : Nat := ttxAitTitles
def BTT_LINKS : Nat := ttxBttLinks
def LINKS : Nat := ttxLinks
def DRCS_PTUS : Nat := ttxDrcsPtus
def DRCS_CHARS_BYTES : Nat := ttxDrcsCharsBytes

/-- `VALID_CHARACTER_SET(n)`: `n < 88 && vbi_font_descriptors[n].G0` (cross-checked by the harness op `charsets`) -/
def validCharsetBits : String :=
  "1111111111111111111111111111111111111110000000000000001100000000100010010000000000000101"
def validCharset (n : Nat) : Bool := validCharsetBits.toList.getD n '0' == '1'

/-! ## packets and the accessor view -/
abbrev Packet := List Nat

def byte (p : Packet) (i : Nat) : Nat := p.getD i 0
/-- `vbi_unham8 (p[i])` -/
def a8 (p : Packet) (i : Nat) : Option Nat := unham8 (byte p i)
/-- `vbi_unham16p (p + i)` -/
def a16 (p : Packet) (i : Nat) : Option Nat := unham16p (byte p i) (byte p (i + 1))
/-- `vbi_unham24p (p + i)` -/
def a24 (p : Packet) (i : Nat) : Option Nat := unham24p (byte p i) (byte p (i + 1)) (byte p (i + 2))
/-- the C `int` returned by `vbi_unham24p` seen as `unsigned int` (what `get_bits` loads): on an
    uncorrectable triplet this is the uncorrected data with bit 31 set -/
def a24u (p : Packet) (i : Nat) : Nat :=
  (triD (byte p i) (byte p (i + 1)) (byte p (i + 2))
    ^^^ hamm24InvErr (triSyn (byte p i) (byte p (i + 1)) (byte p (i + 2)))) % 4294967296

/-- How the decoder reads the 40 bytes after the address (positions relative to `p + 2`). -/
inductive Kind
  | ignored   -- nothing read
  | hdr       -- 0..7 Hamming 8/4 (page, subcode, control), 8..39 raw; 0..7 also copied raw
  | rowRaw    -- 0..39 raw (parity protected text, or stored for later decoding)
  | rowH8     -- 0..39 Hamming 8/4 (MOT, BTT, MPT, MPT-EX)
  | rowAit    -- 0..7 and 20..27 Hamming 8/4, 8..19 and 28..39 raw
  | trip      -- 0 Hamming 8/4, 1..39 thirteen Hamming 24/18 triplets (X/26, X/28, M/29, POP)
  | x27a      -- X/27/0..3: 0..37 Hamming 8/4
  | x27b      -- X/27/4..5: 0 Hamming 8/4, 1..36 twelve triplets
  | desig     -- only the designation byte 0 (Hamming 8/4)
  | p830      -- 8/30: 0..6 Hamming 8/4
deriving DecidableEq, Repr, Inhabited

/-- is relative position `i` (0..39) read through `vbi_unham8` for this kind -/
def Kind.isH8 : Kind → Nat → Bool
  | .hdr, i => i < 8
  | .rowH8, i => i < 40
  | .rowAit, i => i < 8 || (20 ≤ i && i < 28)
  | .trip, i => i == 0
  | .x27a, i => i < 38
  | .x27b, i => i == 0
  | .desig, i => i == 0
  | .p830, i => i < 7
  | _, _ => false

/-- number of Hamming 24/18 triplets read (at relative positions 1 + 3 j) -/
def Kind.nTrip : Kind → Nat
  | .trip => 13
  | .x27b => 12
  | _ => 0

/-- is relative position `i` read as a plain byte -/
def Kind.isRaw : Kind → Nat → Bool
  | .hdr, i => 8 ≤ i && i < 40
  | .rowRaw, i => i < 40
  | .rowAit, i => (8 ≤ i && i < 20) || (28 ≤ i && i < 40)
  | _, _ => false

/-- the decoded view of a packet; masked positions hold `none` / 0 -/
structure View where
  h8 : List (Option Nat)    -- 40
  h24 : List (Option Nat)   -- 13
  u24 : List Nat            -- 13, `a24u`
  raw : List Nat            -- 40
deriving DecidableEq, Repr, Inhabited

def view (k : Kind) (p : Packet) : View :=
  { h8 := (List.range 40).map fun i => if k.isH8 i then a8 p (2 + i) else none
    h24 := (List.range 13).map fun j => if j < k.nTrip then a24 p (3 + 3 * j) else none
    u24 := (List.range 13).map fun j => if j < k.nTrip then a24u p (3 + 3 * j) else 0
    raw := (List.range 40).map fun i => if k.isRaw i then byte p (2 + i) else 0 }

def View.g8 (v : View) (i : Nat) : Option Nat := (v.h8.getD i none)
def View.g24 (v : View) (j : Nat) : Option Nat := (v.h24.getD j none)
/-- `vbi_unham16p` from two decoded nibbles -/
def View.g16 (v : View) (i : Nat) : Option Nat :=
  match v.g8 i, v.g8 (i + 1) with
  | some a, some b => some (a ||| (b <<< 4))
  | _, _ => none
/-- the C `int` value of `vbi_unham16p`: `inv[p0] | inv[p1] << 4` with -1 for an uncorrectable
    byte, i.e. -1 if the first fails, `a - 16` if only the second fails -/
def View.g16i (v : View) (i : Nat) : Int :=
  match v.g8 i, v.g8 (i + 1) with
  | some a, some b => ((a ||| (b <<< 4) : Nat) : Int)
  | none, _ => -1
  | some a, none => (a : Int) - 16

/-! ## data structures -/
structure Link where
  function : Int
  pgno : Int
  subno : Int
deriving DecidableEq, Repr, Inhabited
def Link.ff : Link := ⟨-1, -1, -1⟩     -- memset 0xFF
def Link.zero : Link := ⟨0, 0, 0⟩

structure Triplet where
  address : Nat
  mode : Nat
  data : Nat
deriving DecidableEq, Repr, Inhabited
def Triplet.ff : Triplet := ⟨255, 255, 255⟩
def Triplet.zero : Triplet := ⟨0, 0, 0⟩

/-- `struct ttx_extension` -/
structure Ext where
  designations : Nat
  charset0 : Nat
  charset1 : Nat
  defScreen : Nat
  defRow : Nat
  fgClut : Nat
  bgClut : Nat
  blackBg : Nat
  leftCols : Nat
  rightCols : Nat
  drcsClut : List Nat     -- 42
  colorMap : List Nat     -- 40
deriving DecidableEq, Repr, Inhabited

def defaultColorMap : List Nat :=
  [0xFF000000, 0xFF0000FF, 0xFF00FF00, 0xFF00FFFF, 0xFFFF0000, 0xFFFF00FF, 0xFFFFFF00, 0xFFFFFFFF,
   0xFF000000, 0xFF000077, 0xFF007700, 0xFF007777, 0xFF770000, 0xFF770077, 0xFF777700, 0xFF777777,
   0xFF5500FF, 0xFF0077FF, 0xFF77FF00, 0xFFBBFFFF, 0xFFAACC00, 0xFF000055, 0xFF225566, 0xFF7777CC,
   0xFF333333, 0xFF7777FF, 0xFF77FF77, 0xFF77FFFF, 0xFFFF7777, 0xFFFF77FF, 0xFFFFFF77, 0xFFDDDDDD,
   0xFF000000, 0xFF99AAFF, 0xFF00EE44, 0xFF00DDFF, 0xFF99AAFF, 0xFFFF00FF, 0xFFFFFF00, 0xFFEEEEEE]

def Ext.zero : Ext := ⟨0, 0, 0, 0, 0, 0, 0, 0, 0, 0, List.replicate 42 0, List.replicate 40 0⟩
/-- `ttx_extension_init` followed by `vbi_teletext_set_default_region (16)` -/
def Ext.init (region : Nat) : Ext :=
  { Ext.zero with
    charset0 := region
    drcsClut := [0, 0] ++ (List.range 8).map (· &&& 3) ++ (List.range 32).map (· &&& 15)
    colorMap := defaultColorMap }

def blankRow : List Nat := List.replicate 40 0x20
def zeroRow : List Nat := List.replicate 40 0

/-- `cache_page` (header fields + LOP variant of the union) -/
structure Page where
  function : Int
  pgno : Nat
  subno : Nat
  national : Nat
  flags : Nat
  lopPackets : Nat
  x26 : Nat
  x27 : Nat
  x28 : Nat
  raw : List (List Nat)     -- 26 x 40
  link : List Link          -- 36
  haveFlof : Nat
  enh : List Triplet        -- 209
  ext : Ext
  /-- `data.drcs.mode[48]` (does not overlap the LOP fields) -/
  drcsMode : List Nat
deriving DecidableEq, Repr, Inhabited

/-- calloc'ed page (function 0 = LOP; `vbi_teletext_desync` turns it into DISCARD) -/
def Page.zero : Page :=
  { function := 0, pgno := 0, subno := 0, national := 0, flags := 0, lopPackets := 0, x26 := 0, x27 := 0,
    x28 := 0, raw := List.replicate 26 zeroRow, link := List.replicate LINKS Link.zero, haveFlof := 0,
    enh := List.replicate ENH_SIZE Triplet.zero, ext := Ext.zero, drcsMode := List.replicate DRCS_PTUS 0 }

/-- `struct raw_page` -/
structure RawPage where
  page : Page
  lopRaw : List (List Nat)  -- 26 x 40
  lopPackets : Nat
  numTriplets : Int
deriving DecidableEq, Repr, Inhabited

structure PageStat where
  pageType : Nat
  charset : Nat
  subcode : Nat
deriving DecidableEq, Repr, Inhabited
def PageStat.init : PageStat := ⟨PT_UNKNOWN, 0xFF, 0xFFFF⟩

structure PopLink where
  pgno : Int
  blackBg : Int
  left : Int
  right : Int
  type0 : Int
  addr0 : Int
  type1 : Int
  addr1 : Int
deriving DecidableEq, Repr, Inhabited
def PopLink.ff : PopLink := ⟨-1, -1, -1, -1, -1, -1, -1, -1⟩

/-- `struct ttx_magazine` -/
structure Magazine where
  ext : Ext
  popLut : List Int      -- 256, int8_t
  drcsLut : List Int     -- 256
  popLink : List PopLink -- 2 x 8
  drcsLink : List Int    -- 2 x 8
deriving DecidableEq, Repr, Inhabited
def Magazine.init (region : Nat) : Magazine :=
  ⟨Ext.init region, List.replicate 256 (-1), List.replicate 256 (-1), List.replicate 16 PopLink.ff,
   List.replicate 16 (-1)⟩

/-- what the table parsers can emit: they never store pages -/
inductive Aux
  /-- `_vbi_cache_get_page (pgno, subno, mask)` -/
  | touch (pgno subno mask : Nat)
  /-- an index left its array / an `assert` would fail (site name) -/
  | fault (site : String)
deriving DecidableEq, Repr, Inhabited

inductive Event
  /-- VBI_EVENT_TTX_PAGE; `clock` is only defined when `roll` was computed (else uninitialised in C) -/
  | ttxPage (pgno subno : Nat) (roll hdrUpd : Bool) (clock : Option Bool) (pnOffset : Int)
      (rawHeader : Option (List Nat))
  /-- `_vbi_cache_put_page` was called with this page (stored unless pgno & 0xFF = 0xFF) -/
  | put (p : Page)
  /-- `vbi_chsw_reset` -/
  | chsw
  | aux (a : Aux)
deriving DecidableEq, Repr, Inhabited

def liftAux (l : List Aux) : List Event := l.map Event.aux

/-- `cache_network` (Teletext part) plus the cached pages of that network.  The table parsers
    (MOT, MIP, BTT, MPT ...) work on this record only, so they cannot touch page assembly state. -/
structure Net where
  stat : List PageStat        -- cn->_pages[0x800]
  mags : List Magazine        -- cn->_magazines[8]
  initialPage : Link
  bttLink : List Link         -- cn->btt_link[]
  haveTop : Bool
  cache : List Page           -- pages of the current network, hash chain order (MRU first)
deriving DecidableEq, Repr, Inhabited

structure St where
  /-- a handler for VBI_EVENT_TTX_PAGE is registered -/
  mask : Bool
  /-- `vbi->time > 0`: a frame has been decoded before (frame timing is only checked then) -/
  started : Bool
  chswcd : Nat
  hdrPgno : Nat               -- vt.header_page.pgno
  header : List Nat           -- vt.header[40]
  raw : List RawPage          -- vt.raw_page[8]
  current : Option Nat        -- vt.current as magazine index
  net : Net                   -- vbi->cn and the pages of vbi->ca belonging to it
deriving DecidableEq, Repr, Inhabited

/-- result of a decoding step -/
structure Res where
  st : St
  ev : List Event
  ret : Bool
deriving DecidableEq, Repr, Inhabited

def REGION : Nat := 16

/-- `vbi_teletext_desync` -/
def desync (s : St) : St :=
  { s with raw := s.raw.map fun r => { r with page := { r.page with function := FN_DISCARD } } }

/-- `vbi_teletext_channel_switched` -/
def channelSwitched (s : St) : St :=
  desync { s with net := { s.net with
    initialPage := { s.net.initialPage with pgno := 0x100, subno := ANY_SUBNO }
    haveTop := false
    stat := List.replicate 0x800 PageStat.init
    mags := List.replicate 8 (Magazine.init REGION) } }

/-- `vbi_decoder_new` (calloc + `vbi_teletext_init`) -/
def init : St :=
  channelSwitched
    { mask := false, started := false, chswcd := 0, hdrPgno := 0, header := zeroRow,
      raw := List.replicate 8 ⟨Page.zero, List.replicate 26 zeroRow, 0, 0⟩,
      current := none,
      net := { stat := [], mags := [], initialPage := Link.zero,
               bttLink := List.replicate BTT_LINKS Link.zero, haveTop := false, cache := [] } }

/-- `vbi_event_handler_register (.., VBI_EVENT_TTX_PAGE, ..)` / unregister -/
def St.enable (s : St) (on : Bool) : St :=
  if on && !s.mask then { channelSwitched s with mask := true } else { s with mask := on }

/-- `vbi_chsw_reset (vbi, 0)`: the network record is recycled (n_networks_limit = 1): all its
    pages are deleted, `btt_link` survives (the record is not cleared in libzvbi 0.2) -/
def chswReset (s : St) : St :=
  let s := channelSwitched s
  { s with net := { s.net with cache := [] }, hdrPgno := 0, chswcd := 0 }

/-! ## cache abstraction (cache.c `page_by_pgno`, `_vbi_cache_get_page`, `_vbi_cache_put_page`) -/
def isBcd (n : Nat) : Bool :=
  ((((n % 4294967296) + 0x06666666) % 4294967296) ^^^ ((n % 4294967296) ^^^ 0x06666666)) &&& 0x11111110 == 0

/-- `vbi_bcd_digits_greater` on 32-bit unsigned -/
def bcdDigitsGreater (bcd maximum : Nat) : Bool :=
  let m := maximum ^^^ 0xFFFFFFFF
  ((((bcd + m) % 4294967296) ^^^ bcd ^^^ m) &&& 0x11111110) != 0

/-- first page in chain order with this pgno and `(subno & mask) == (key & mask)`; returns it and
    the chain with the page moved to the front ("find faster next time") -/
def cacheFind (c : List Page) (pgno key mask : Nat) : Option (Page × List Page) :=
  match c.find? (fun q => q.pgno == pgno && (q.subno &&& mask) == (key &&& mask)) with
  | some q => some (q, q :: c.erase q)
  | none => none

/-- `_vbi_cache_get_page (ca, cn, pgno, subno, mask)`; `mask = 0xFFFFFFFF` is the C `-1` -/
def cacheGet (c : List Page) (pgno subno mask : Nat) : Option (Page × List Page) :=
  if pgno < 0x100 || pgno > 0x8FF || pgno &&& 0xFF == 0xFF then none
  else cacheFind c pgno subno (if subno == ANY_SUBNO then 0 else mask)

/-- (stored subno, subno_mask) chosen by `_vbi_cache_put_page` -/
def putKey (pageType : Nat) (pgno subno : Nat) : Nat × Nat :=
  if isBcd pgno then
    if subno == 0 then (0, 0)
    else if pageType == PT_CLOCK || subno ≥ 0x100 then
      (if bcdDigitsGreater subno 0x2959 || subno > 0x2300 then 0 else subno, 0)
    else if bcdDigitsGreater subno 0x79 then (0, 0)
    else (subno, 0xFF)
  else (subno, 0xF)

/-- `cache_page_size`: which parts of the union are copied (rest reads back as zero) -/
def Page.truncate (p : Page) : Page :=
  if p.function == FN_UNKNOWN || p.function == FN_LOP then
    if p.x28 &&& 0x13 != 0 then p
    else if p.x26 != 0 then { p with ext := Ext.zero }
    else { p with ext := Ext.zero, enh := List.replicate ENH_SIZE Triplet.zero }
  else p

/-- `_vbi_cache_put_page` of source shape `fix`: returns the new chain, or `none` when the page is refused.
    `fix = false`: the source as it was when finding F17 was made - the version the look-up finds is replaced.
    `fix = true`: with fixes/C10-put-replaces-all-versions.diff - when the key class is "one version" (`0 == subno_mask`)
    and a version was found, `FOR_ALL_NODES ... if (cp2 != old_cp && cp2->pgno == cp->pgno && cp2->network == cn)
    delete_page (ca, cp2)` removes every other cached version of the page number as well (the list holds the pages of
    one network; `c1.erase old` = the chain without the node found, the filter = that loop). -/
def cachePutF (fix : Bool) (c : List Page) (pageType : Nat) (p : Page) : Option (List Page) :=
  if p.pgno &&& 0xFF == 0xFF then none
  else
    let (subno, mask) := putKey pageType p.pgno p.subno
    let c' := match cacheFind c p.pgno (subno &&& mask) mask with
      | some (old, c1) =>
        if fix && mask == 0 then (c1.erase old).filter (fun q => q.pgno != p.pgno)
        else c1.erase old
      | none => c
    some ({ p.truncate with subno := subno } :: c')

/-- `_vbi_cache_put_page` of the CURRENT source: which of the two shapes /repo has is read from src/cache.c by
    translate/gen_cache.py on every run (`Zvbi.Gen.Cache.putReplacesAllVersions`).  Every lemma about `cachePut` is
    proved about `cachePutF fix` for an arbitrary `fix` and instantiated. -/
def cachePut (c : List Page) (pageType : Nat) (p : Page) : Option (List Page) :=
  cachePutF Zvbi.Gen.Cache.putReplacesAllVersions c pageType p

def statIdx (pgno : Nat) : Option Nat :=
  if pgno ≥ 0x100 && pgno ≤ 0x8FF then some (pgno - 0x100) else none

def Net.getStat (s : Net) (pgno : Nat) : PageStat :=
  match statIdx pgno with
  | some i => s.stat.getD i PageStat.init
  | none => PageStat.init

/-- write through `cache_network_page_stat` (an `assert` guards the range) -/
def Net.setStat (s : Net) (pgno : Nat) (f : PageStat → PageStat) : Net × List Aux :=
  match statIdx pgno with
  | some i => ({ s with stat := s.stat.set i (f (s.stat.getD i PageStat.init)) }, [])
  | none => (s, [Aux.fault "assert:cache_network_page_stat"])

/-- `_vbi_cache_put_page` -/
def Net.put (s : Net) (p : Page) : Net :=
  match cachePut s.cache (s.getStat p.pgno).pageType p with
  | some c => { s with cache := c }
  | none => s

def Net.get (s : Net) (pgno subno mask : Nat) : Option Page × Net × List Aux :=
  match cacheGet s.cache pgno subno mask with
  | some (q, c) => (some q, { s with cache := c }, [Aux.touch pgno subno mask])
  | none => (none, s, [Aux.touch pgno subno mask])

def Net.mag (s : Net) (mag8 : Nat) : Magazine := s.mags.getD (mag8 - 1) (Magazine.init REGION)
def Net.setMag (s : Net) (mag8 : Nat) (m : Magazine) : Net := { s with mags := s.mags.set (mag8 - 1) m }

/-- the only place where a page enters the cache -/
def St.put (s : St) (p : Page) : St × List Event := ({ s with net := s.net.put p }, [Event.put p])
def St.rp (s : St) (mag0 : Nat) : RawPage := s.raw.getD mag0 default
def St.setRp (s : St) (mag0 : Nat) (r : RawPage) : St := { s with raw := s.raw.set mag0 r }
def St.setPage (s : St) (mag0 : Nat) (p : Page) : St := s.setRp mag0 { s.rp mag0 with page := p }

/-! ## store_lop and friends -/

/-- `page_language` with `max_level = VBI_WST_LEVEL_2p5` (network magazine); -1 = none -/
def pageLanguage (s : Net) (vtp : Option Page) (pgno national : Nat) : Int :=
  match vtp with
  | some q =>
    if q.function != FN_LOP then -1 else
    let ext := if q.x28 != 0 then q.ext else (s.mag (q.pgno >>> 8)).ext
    let cs := ext.charset0
    let lang : Int := if validCharset cs then cs else -1
    let cs2 := (cs - cs % 8) + q.national
    if validCharset cs2 then cs2 else lang
  | none =>
    let ext := (s.mag (pgno >>> 8)).ext
    let cs := ext.charset0
    let lang : Int := if validCharset cs then cs else -1
    let cs2 := (cs - cs % 8) + national
    if validCharset cs2 then cs2 else lang

def intToU8 (i : Int) : Nat := (i % 256).toNat

/-- `same_header (cur_pgno, cur = raw0 + 8, ref_pgno, ref = refHdr + 8, &pn_offset)`.
    Returns (r, j): r = 1 TRUE, 0 FALSE, -2 inconclusive.  The date-rollover test reads `ref[32..33]`
    after `ref` was advanced by 24, i.e. bytes 64..65 of a 40 byte header (candidate F8): for
    `ref = vbi->vt.header` that is `vt.default_magazine.extension.background_clut` (= 0), so the
    -1 branch is dead; for `ref = cur` (first page) `neq = 0` and the test is not reached. -/
def sameHeader (curPgno : Nat) (cur ref : List Nat) : Int × Nat :=
  let b0 := par8 ((curPgno >>> 8) + 0x30)
  let b1 := par8 (((curPgno >>> 4) &&& 15) + 0x30)
  let b2 := par8 ((curPgno &&& 15) + 0x30)
  -- loop over i = 8..31 with fuel; state (i, j, err, neq)
  let rec go (fuel i j : Nat) (err neq : Bool) : Nat × Bool × Bool :=
    match fuel with
    | 0 => (j, err, neq)
    | fuel + 1 =>
      if i ≥ 32 then (j, err, neq)
      else if i < j && cur.getD i 0 == b0 && cur.getD (i + 1) 0 == b1 && cur.getD (i + 2) 0 == b2 then
        go fuel (i + 4) i err neq
      else
        let c := cur.getD i 0
        let r := ref.getD i 0
        go fuel (i + 1) j (err || !oddPar c || !oddPar r) (neq || c != r)
  let (j, err, neq) := go 32 8 29 false false
  if err || j ≥ 29 then (-2, j)
  else if !neq then (1, j)
  else (0, j)

/-- `same_clock (raw[0], vbi->vt.header)`: the loop counts i = 32..39 but the pointers start at
    offset 0, so it compares `raw[0][0..7]` with `header[0..7]` -/
def sameClock (cur ref : List Nat) : Bool :=
  (List.range 8).all fun i =>
    let k := if ttxFixF24 then 32 + i else i      -- finding F24
    let c := cur.getD k 0
    let r := ref.getD k 0
    !(c != r && (oddPar c && oddPar r))

/-- one iteration (`packet = k + 1`) of the "Level 1 parity check" loop of `lop_parity_check`:
    the received row replaces the cached one only if all 40 bytes have odd parity -/
def parityRow (lopRaw : List (List Nat)) (lopPackets : Nat) (cv : Page) (k : Nat) : Page :=
  let packet := k + 1
  if lopPackets &&& (1 <<< packet) == 0 then cv
  else
    let row := lopRaw.getD packet zeroRow
    if row.all oddPar then
      { cv with raw := cv.raw.set packet row, lopPackets := cv.lopPackets ||| (1 <<< packet) }
    else cv

/-- `lop_parity_check (cvtp, rvtp)` -/
def lopParityCheck (cv : Page) (rv : RawPage) : Page × RawPage :=
  -- X/26 fix-ups: set odd parity on columns overridden by enhancement triplets
  let lopRaw :=
    if cv.x26 != 0 then
      let (_, _, lr) := cv.enh.foldl (fun (acc : Bool × Nat × List (List Nat)) (t : Triplet) =>
        let (stop, row, lr) := acc
        if stop then acc
        else if t.address < 40 then
          if t.mode == 1 || t.mode == 2 || t.mode == 0x0B || t.mode == 8 || t.mode == 9 || t.mode == 0x0D
             || t.mode == 0x0F || (0x10 ≤ t.mode && t.mode ≤ 0x1F) then
            let r := lr.getD row zeroRow
            (false, row, lr.set row (r.set t.address (par8 (r.getD t.address 0))))
          else acc
        else if t.address > 63 then (true, row, lr)
        else if t.mode == 1 || t.mode == 4 then
          let r := t.address - 40
          (false, if r == 0 then 24 else r, lr)
        else if t.mode == 7 then (false, 0, lr)
        else acc) (false, 0, rv.lopRaw)
      lr
    else rv.lopRaw
  let rv := { rv with lopRaw := lopRaw }
  -- Level 1 parity check, rows 1..25
  let cv := (List.range 25).foldl (parityRow lopRaw rv.lopPackets) cv
  (cv, rv)

def hdrText (row0 : List Nat) : List Nat := row0.drop 8

/-- what `store_lop` decides from the rolling header comparison -/
inductive HdrVerdict
  /-- `vbi_chsw_reset (vbi, 0); return TRUE` -/
  | reset
  /-- `chswcd > 0`: return without storing -/
  | skip
  /-- store the page; `copy`: the header becomes the reference header (and is passed as
      `raw_header`), `clearCd`: `chswcd = 0` -/
  | store (copy clearCd roll hdrUpd : Bool) (clock : Option Bool) (pnOffset : Int)
deriving DecidableEq, Repr, Inhabited

def hdrVerdict (s : St) (vtp : Page) : HdrVerdict :=
  let roll0 := (vtp.flags &&& (C5_NEWSFLASH ||| C6_SUBTITLE ||| C7_SUPPRESS_HEADER ||| C9_INTERRUPTED
                  ||| C10_INHIBIT_DISPLAY)) == 0
               && (vtp.pgno ≤ 0x199 || vtp.flags &&& C11_MAGAZINE_SERIAL != 0)
               && isBcd vtp.pgno
  let raw0 := vtp.raw.getD 0 zeroRow
  if roll0 then
    let first := s.hdrPgno == 0
    let (res, j) := if first then sameHeader vtp.pgno raw0 raw0 else sameHeader vtp.pgno raw0 s.header
    let pn : Int := if res == -2 then -1 else j
    let hdrUpd := first
    let clock := if first then true else !sameClock raw0 s.header
    if res == 1 then .store true true true hdrUpd (some clock) pn
    else if res == 0 && ((vtp.pgno ^^^ s.hdrPgno) &&& 0xF00) == 0 then .reset
    else if s.chswcd > 0 then .skip
    else if res == -1 then .store true false true hdrUpd (some clock) pn
    else .store false false false hdrUpd (some false) pn
  else .store false false false false none (-1)

/-- `store_lop (vbi, vtp)` -/
def storeLop (s : St) (vtp : Page) : St × List Event :=
  match hdrVerdict s vtp with
  | .reset => (chswReset s, [Event.chsw])
  | .skip => (s, [])
  | .store copy clearCd roll hdrUpd clock pn =>
    let s := if clearCd then { s with chswcd := 0 } else s
    let s := if copy then
        { s with hdrPgno := vtp.pgno, header := s.header.take 8 ++ hdrText (vtp.raw.getD 0 zeroRow) }
      else s
    -- page statistics
    let ps := s.net.getStat vtp.pgno
    let ps :=
      if ps.pageType == PT_SUBTITLE then
        if ps.charset == 0xFF then { ps with charset := intToU8 (pageLanguage s.net (some vtp) 0 0) } else ps
      else if ps.pageType == PT_NO_PAGE || ps.pageType == PT_UNKNOWN then { ps with pageType := PT_NORMAL }
      else ps
    let ps := if ps.subcode ≥ 0xFFFE || vtp.subno > ps.subcode then { ps with subcode := vtp.subno % 65536 } else ps
    let st := s.net.setStat vtp.pgno (fun _ => ps)
    let s := { s with net := st.1 }
    let stored := vtp.pgno &&& 0xFF != 0xFF
    let ev := if stored && s.mask then
        [Event.ttxPage vtp.pgno vtp.subno roll hdrUpd clock pn (if copy then some s.header else none)]
      else []
    ({ s with net := s.net.put vtp }, liftAux st.2 ++ [Event.put vtp] ++ ev)

/-! ## link and table parsers -/

/-- `unham_page_link`: (pgno, subno) or none -/
def unhamPageLink (v : View) (i : Nat) (magazine : Nat) : Option (Nat × Nat) :=
  match v.g16 i, v.g16 (i + 2), v.g16 (i + 4) with
  | some b1, some b2, some b3 =>
    let m := ((b3 >>> 5) &&& 6) + (b2 >>> 7)
    let x := magazine ^^^ m
    some ((if x == 0 then 8 else x) * 256 + b1, (b3 * 256 + b2) &&& 0x3F7F)
  | _, _, _ => none

/-- store into a look-up array of `extent` entries (extent regenerated from the C headers) -/
def setLut (l : List Int) (extent idx : Nat) (val : Int) (site : String) : List Int × List Aux :=
  if idx < extent then (l.set idx val, []) else (l, [Aux.fault site])

/-- The (pair number i, table index) sequence of the look-up table loops of `parse_mot`
    (packets 1..8 and 9..14); it does not depend on the packet contents. -/
def motItems (packet : Nat) : List (Nat × Nat) :=
  if 1 ≤ packet && packet ≤ 8 then
    (List.range 20).map fun i => (i, ((packet - 1) <<< 5) + i + (if i ≥ 10 then 6 else 0))
  else if 9 ≤ packet && packet ≤ 14 then
    -- `if (i == 6 || i == 12) { if (index == 0x100) break; else index += 10; }`
    ((List.range 20).foldl (fun (acc : List (Nat × Nat) × Nat × Bool) i =>
      let (l, index, stop) := acc
      if stop then acc else
      if (i == 6 || i == 12) && index == 0x100 then (l, index, true) else
      let index := if i == 6 || i == 12 then index + 10 else index
      (l ++ [(i, index)], index + 1, false)) ([], (packet - 9) * 0x30 + 10, false)).1
  else []

/-- one pair of `parse_mot`'s look-up table loops -/
def motLutStep (v : View) (acc : Magazine × List Aux) (it : Nat × Nat) : Magazine × List Aux :=
  match v.g8 (2 * it.1), v.g8 (2 * it.1 + 1) with
  | some n0, some n1 =>
    let r1 := setLut acc.1.popLut ttxLutSize it.2 ((n0 &&& 7 : Nat) : Int) "mot:pop_lut"
    let r2 := setLut acc.1.drcsLut ttxLutSize it.2 ((n1 &&& 7 : Nat) : Int) "mot:drcs_lut"
    ({ acc.1 with popLut := r1.1, drcsLut := r2.1 }, acc.2 ++ r1.2 ++ r2.2)
  | _, _ => acc

/-- one POP link of `parse_mot` packets 19, 20, 22, 23 (`pk` = packet, 22/23 already decremented) -/
def motPopLinkStep (v : View) (pk : Nat) (acc : Magazine × List Aux) (i : Nat) : Magazine × List Aux :=
  let m := acc.1
  let n := (List.range 10).map fun j => v.g8 (10 * i + j)
  if n.any Option.isNone then acc else
  let g := fun j => (n.getD j none).getD 0
  let idx := (pk - 19) * 4 + i
  let old := m.popLink.getD idx PopLink.ff
  let n4 := g 4
  let x := (n4 >>> 1) &&& 3
  let pl : PopLink :=
    { old with
      pgno := ((if g 0 &&& 7 == 0 then 8 else g 0 &&& 7) <<< 8) + (g 1 <<< 4) + g 2
      blackBg := if n4 &&& 1 != 0 then 0 else (n4 >>> 3 : Nat)
      left := if n4 &&& 1 != 0 then 0 else ([0, 16, 0, 8].getD x 0 : Nat)
      right := if n4 &&& 1 != 0 then 0 else ([0, 0, 16, 8].getD x 0 : Nat)
      type0 := (g 5 &&& 3 : Nat)
      addr0 := ((g 7 <<< 4) + g 6 : Nat)
      type1 := (g 5 >>> 2 : Nat)
      addr1 := ((g 9 <<< 4) + g 8 : Nat) }
  if idx < ttxPopLinks then ({ m with popLink := m.popLink.set idx pl }, acc.2)
  else (m, acc.2 ++ [Aux.fault "mot:pop_link"])

/-- one DRCS link of `parse_mot` packets 21, 24 -/
def motDrcsLinkStep (v : View) (packet : Nat) (acc : Magazine × List Aux) (i : Nat) : Magazine × List Aux :=
  let m := acc.1
  let n := (List.range 4).map fun j => v.g8 (4 * i + j)
  if n.any Option.isNone then acc else
  let g := fun j => (n.getD j none).getD 0
  let idx := (if packet == 21 then 0 else 8) + i
  let val : Int := (((if g 0 &&& 7 == 0 then 8 else g 0 &&& 7) <<< 8) + (g 1 <<< 4) + g 2 : Nat)
  let r := setLut m.drcsLink ttxDrcsLinks idx val "mot:drcs_link"
  ({ m with drcsLink := r.1 }, acc.2 ++ r.2)

/-- `parse_mot (mag, raw, packet)`; always TRUE -/
def parseMot (m : Magazine) (v : View) (packet : Nat) : Magazine × List Aux :=
  if 1 ≤ packet && packet ≤ 14 then (motItems packet).foldl (motLutStep v) (m, [])
  else if packet == 19 || packet == 20 || packet == 22 || packet == 23 then
    (List.range 4).foldl (motPopLinkStep v (if packet ≥ 22 then packet - 1 else packet)) (m, [])
  else if packet == 21 || packet == 24 then (List.range 8).foldl (motDrcsLinkStep v packet) (m, [])
  else (m, [])

/-- `pointer[index0 + 2 i + 0..1]`, i = 1..12, for the triplets that decoded: index check only -/
def popPointerFaults (v : View) (index0 : Nat) : List Aux :=
  (List.range 12).foldl (fun ev k =>
    match v.g24 (k + 1) with
    | some _ => if index0 + 2 * (k + 1) + 1 < POP_POINTER_SIZE then ev else
        if ev.isEmpty then [Aux.fault "pop:pointer"] else ev
    | none => ev) []

/-- `triplet[base + i]`, i = 0..12, for the triplets that decoded: index check only -/
def popTripletFaults (v : View) (base : Nat) : List Aux :=
  (List.range 13).foldl (fun ev i =>
    match v.g24 i with
    | some _ => if base + i < POP_TRIPLET_SIZE then ev else
        if ev.isEmpty then [Aux.fault "pop:triplet"] else ev
    | none => ev) []

/-- `parse_pop (vtp, raw, packet)`: return value and bounds of the indices written
    (contents of `data.pop` are not modelled) -/
def parsePop (v : View) (packet : Nat) : Bool × List Aux :=
  match v.g8 0 with
  | none => (false, [])
  | some designation =>
    let packet := if packet == 26 then packet + designation else packet
    let pointers : Bool × List Aux :=
      (true, popPointerFaults v ((packet - 1) * (if ttxFixF23 then 24 else 26)))   -- finding F23
    let triplets : Bool × List Aux := (true, popTripletFaults v ((packet - 3) * 13))
    if 1 ≤ packet && packet ≤ 2 then
      if designation &&& 1 == 0 then (false, []) else pointers
    else if 3 ≤ packet && packet ≤ 4 then
      if designation &&& 1 != 0 then pointers else triplets
    else if 5 ≤ packet && packet ≤ 42 then triplets
    else (false, [])

/-- what one PTU of `convert_drcs`'s second loop does: (PTUs consumed, bytes written at `d`,
    bytes read at `p`, advance of `d`, advance of `p`).  `i` = index of the PTU.
    * DRCS_MODE_6_5_4 wrote 120 and read 80 bytes for a single PTU before repair F22.
    * DRCS_MODE_12_10_2 / _4 look at the following 1 / 3 PTUs (`p[j + 20]`, ... `p[j + 60]`); for
      the last PTU of a page these lie behind `raw[]` unless the repair `ttxFixDrcsLastPtu` is in.
    (An `invalid` PTU is not read in C; the model does not track `invalid` and assumes the access.)
    The two repair flags are parameters so that both code versions can be reasoned about. -/
def drcsPtu (fixF22 fixLastPtu : Bool) (m i : Nat) : Nat × Nat × Nat × Nat × Nat :=
  if m == 0 then (1, 60, 20, 60, 20)
  else if m == 1 then
    if fixLastPtu && i + 1 ≥ DRCS_PTUS then (2, 0, 0, 120, 40) else (2, 60, 40, 120, 40)
  else if m == 2 then
    if fixLastPtu && i + 3 ≥ DRCS_PTUS then (4, 0, 0, 240, 80) else (4, 60, 80, 240, 80)
  else if m == 3 then (if fixF22 then (1, 60, 20, 60, 20) else (1, 120, 80, 120, 80))
  else (1, 0, 0, 60, 20)

/-- bytes of `raw[1] ..` a DRCS page may read: rows 1..25 -/
def DRCS_RAW_BYTES : Nat := (ttxRawRows - 1) * ttxRawCols

/-- the loop `for (i = 0; i < 48; i++) switch (mode[i])`: did an access leave `drcs.chars[]`
    (write) or `raw[1..25]` (read)? -/
def drcsWalk (fixF22 fixLastPtu : Bool) (modes : List Nat) : Nat → Nat → Nat → Nat → Bool
  | 0, _, _, _ => false
  | fuel + 1, i, d, p =>
    if i ≥ DRCS_PTUS then false else
    let (n, w, r, dd, dp) := drcsPtu fixF22 fixLastPtu (modes.getD i 0) i
    (d + w > DRCS_CHARS_BYTES || p + r > DRCS_RAW_BYTES) || drcsWalk fixF22 fixLastPtu modes fuel (i + n) (d + dd) (p + dp)

/-- `convert_drcs`: bounds of the write pointer `d` into `drcs.chars` and of the read pointer `p`
    into `drcs.lop.raw[1..]` (contents not modelled) -/
def convertDrcsBounds (modes : List Nat) : List Aux :=
  if drcsWalk ttxFixF22 ttxFixDrcsLastPtu modes DRCS_PTUS 0 0 0 then [Aux.fault "drcs:chars"] else []

/-- `parse_ait`: only index bounds (`title[(packet - 1) * 2 + 0..1]`) -/
def parseAitBounds (packet : Nat) : List Aux :=
  if packet < 1 || packet > 23 then []
  else if (packet - 1) * 2 + 1 < AIT_TITLES then [] else [Aux.fault "ait:title"]

def dec2bcdp : List Nat :=
  [0x000, 0x040, 0x080, 0x120, 0x160, 0x200, 0x240, 0x280, 0x320, 0x360,
   0x400, 0x440, 0x480, 0x520, 0x560, 0x600, 0x640, 0x680, 0x720, 0x760]

/-- `unham_top_page_link` on 8 decoded nibbles at `i`: (function, pgno, subno) -/
def unhamTopPageLink (v : View) (i : Nat) : Option Link :=
  let n := (List.range 8).map fun j => v.g8 (i + j)
  if n.any Option.isNone then none else
  let g := fun j => (n.getD j none).getD 0
  let pgno := g 0 * 256 + g 1 * 16 + g 2
  if pgno < 0x100 || pgno > 0x8FF then none else
  let subno := (g 3 <<< 12) ||| (g 4 <<< 8) ||| (g 5 <<< 4) ||| g 6
  let fn : Int := if g 7 == 2 then FN_AIT else if g 7 == 1 then FN_MPT else if g 7 == 3 then FN_MPT_EX else FN_UNKNOWN
  some ⟨fn, pgno, (subno &&& 0x3F7F : Nat)⟩

/-- `cache_network_page_stat (cn, pgno)` evaluated for its `assert` only -/
def statAssert (pgno : Nat) : List Aux :=
  if (statIdx pgno).isNone then [Aux.fault "assert:cache_network_page_stat"] else []

/-- one entry of a BTT row (packets 1..20): acc = ((network, entries done j, `break` taken), events) -/
def bttEntry (v : View) (index rawPos : Nat) (acc : (Net × Nat × Bool) × List Aux) (_k : Nat) :
    (Net × Nat × Bool) × List Aux :=
  let s := acc.1.1
  let j := acc.1.2.1
  if acc.1.2.2 then acc else
  let pgno := 0x100 + index + j
  match v.g8 (rawPos + j) with
  | none => ((s, j, true), acc.2 ++ statAssert pgno)
  | some code =>
    if code == 1 then
      -- BTT_SUBTITLE
      let r0 := s.setStat pgno (fun ps => { ps with pageType := PT_SUBTITLE })
      let r1 := r0.1.get pgno 0 0
      let r2 : Net × List Aux := match r1.1 with
        | some q => r1.2.1.setStat pgno (fun ps => { ps with charset := intToU8 (pageLanguage r1.2.1 (some q) 0 0) })
        | none => (r1.2.1, [])
      let r3 := r2.1.setStat pgno (fun ps => { ps with subcode := 0 })
      ((r3.1, j + 1, false), acc.2 ++ r0.2 ++ r1.2.2 ++ r2.2 ++ r3.2)
    else
      let ty : Option Nat :=
        if code == 2 || code == 3 then some PT_PROGR_SCHEDULE
        else if code == 4 || code == 5 then some PT_TOP_BLOCK
        else if code == 6 || code == 7 then some PT_TOP_GROUP
        else if 8 ≤ code && code ≤ 11 then some PT_NORMAL
        else none
      match ty with
      | none =>
        let r0 := s.setStat pgno (fun ps => { ps with pageType := PT_NO_PAGE })
        ((r0.1, j + 1, false), acc.2 ++ r0.2)
      | some ty =>
        let multi := code == 3 || code == 5 || code == 7 || code == 10
        let r0 := s.setStat pgno (fun ps =>
          { ps with pageType := ty, subcode := if multi then ps.subcode else 0 })
        ((r0.1, j + 1, false), acc.2 ++ r0.2)

/-- one group of ten entries; acc = ((network, index, raw position), events).  After a `break`
    `index` and `raw` are short of the end of the group, as in C. -/
def bttGroup (v : View) (acc : (Net × Nat × Nat) × List Aux) (_g : Nat) : (Net × Nat × Nat) × List Aux :=
  let index := acc.1.2.1
  let rawPos := acc.1.2.2
  let r := (List.range 10).foldl (bttEntry v index rawPos) ((acc.1.1, 0, false), acc.2)
  let index := index + r.1.2.1
  ((r.1.1, index + (if index &&& 0xFF == 0x9A then 0x66 else 0x06), rawPos + r.1.2.1 + (if r.1.2.2 then 1 else 0)), r.2)

/-- one TOP page link of BTT packets 21..23 -/
def bttLinkStep (v : View) (packet : Nat) (acc : Net × List Aux) (i : Nat) : Net × List Aux :=
  match unhamTopPageLink v (8 * i) with
  | none => acc
  | some l =>
    let idx := (packet - 21) * 5 + i
    if idx < BTT_LINKS then
      let s := { acc.1 with bttLink := acc.1.bttLink.set idx l }
      if l.function == FN_MPT || l.function == FN_AIT || l.function == FN_MPT_EX then
        let r := s.setStat l.pgno.toNat (fun ps => { ps with pageType := PT_TOP_PAGE, subcode := 0 })
        (r.1, acc.2 ++ r.2)
      else (s, acc.2)
    else
      -- before commit 3806eea `btt_link` had 2 * 5 entries but packet 23 addresses entries 10..14
      (acc.1, acc.2 ++ [Aux.fault "btt:btt_link"])

/-- `parse_btt (vbi, raw, packet)`; always TRUE -/
def parseBtt (s : Net) (v : View) (packet : Nat) : Net × List Aux :=
  if 1 ≤ packet && packet ≤ 20 then
    let r := (List.range 4).foldl (bttGroup v) ((s, dec2bcdp.getD (packet - 1) 0, 0), [])
    (r.1.1, r.2)
  else if 21 ≤ packet && packet ≤ 23 then
    (List.range 5).foldl (bttLinkStep v packet) ({ s with haveTop := true }, [])
  else (s, [])

/-- The (raw position, page number) sequence of `parse_mpt` (packets 1..20): four groups of ten
    BCD page numbers; it does not depend on the packet contents. -/
def mptItems (packet : Nat) : List (Nat × Nat) :=
  if 1 ≤ packet && packet ≤ 20 then
    ((List.range 4).foldl (fun (acc : List (Nat × Nat) × Nat) i =>
      let index := acc.2
      let l := acc.1 ++ (List.range 10).map fun j => (10 * i + j, 0x100 + index + j)
      let index := index + 10
      (l, index + (if index &&& 0xFF == 0x9A then 0x66 else 0x06))) ([], dec2bcdp.getD (packet - 1) 0)).1
  else []

def mptStep (g : Nat → Option Nat) (acc : Net × List Aux) (it : Nat × Nat) : Net × List Aux :=
  match g it.1 with
  | none => acc
  | some n =>
    let pgno := it.2
    let ps := acc.1.getStat pgno
    let n := if n > 9 then 0xFFFE else n
    if ps.pageType != PT_NO_PAGE && ps.pageType != PT_UNKNOWN && (ps.subcode ≥ 0xFFFF || n > ps.subcode) then
      let r := acc.1.setStat pgno (fun ps => { ps with subcode := n })
      (r.1, acc.2 ++ r.2)
    else (acc.1, acc.2 ++ statAssert pgno)

/-- `parse_mpt`; always TRUE -/
def parseMpt (s : Net) (g : Nat → Option Nat) (packet : Nat) : Net × List Aux :=
  (mptItems packet).foldl (mptStep g) (s, [])

/-- one entry of `parse_mpt_ex`: acc = ((network, `break` taken), events) -/
def mptExStep (lk : Nat → Option Link) (acc : (Net × Bool) × List Aux) (i : Nat) : (Net × Bool) × List Aux :=
  if acc.1.2 then acc else
  match lk (8 * i) with
  | none => acc
  | some p =>
    -- p.pgno is already within 0x100..0x8FF
    if p.subno < 1 then acc else
    let pgno := p.pgno.toNat
    let ps := acc.1.1.getStat pgno
    if ps.pageType != PT_NO_PAGE && ps.pageType != PT_UNKNOWN
       && (p.subno.toNat > ps.subcode || ps.subcode ≥ 0xFFFE) then
      let r := acc.1.1.setStat pgno (fun ps => { ps with subcode := p.subno.toNat })
      ((r.1, false), acc.2 ++ r.2)
    else acc

/-- `parse_mpt_ex`; always TRUE -/
def parseMptEx (s : Net) (lk : Nat → Option Link) (packet : Nat) : Net × List Aux :=
  if 1 ≤ packet && packet ≤ 23 then
    let r := (List.range 5).foldl (mptExStep lk) ((s, false), [])
    (r.1.1, r.2)
  else (s, [])

/-- a stored raw row seen through the Hamming accessors (`vbi_convert_page`, `parse_mip`) -/
def rowView (k : Kind) (row : List Nat) : View := view k ([0, 0] ++ row)

/-- the `switch (code)` of `parse_mip_page`: (network, events, subpage index, page type, subcode),
    or `none` for `return FALSE` -/
def mipClassify (s : Net) (vtp : Page) (pgno code spi : Nat) : Option (Net × List Aux × Nat × Nat × Nat) :=
  if (0x02 ≤ code && code ≤ 0x4F) || (0x82 ≤ code && code ≤ 0xCF) then
    some (s, [], spi, if code ≥ 0x80 then PT_PROGR_SCHEDULE else PT_NORMAL, code &&& 0x7F)
  else if 0x70 ≤ code && code ≤ 0x77 then
    let r1 := s.get pgno 0 0
    -- `code & 7` is evaluated after `code = VBI_SUBTITLE_PAGE`, i.e. national = 0
    let lang := pageLanguage r1.2.1 r1.1 pgno 0
    let r2 := r1.2.1.setStat pgno (fun ps => { ps with charset := intToU8 lang })
    some (r2.1, r1.2.2 ++ r2.2, spi, PT_SUBTITLE, 0)
  else if code == 0x50 || code == 0x51 || code == 0xD0 || code == 0xD1 || code == 0xE0 || code == 0xE1
          || code == 0x7B || code == 0xF8 then
    if spi > 10 * 13 then none else
    let row := vtp.raw.getD (spi / 13 + 15) zeroRow
    let col := (spi % 13) * 3 + 1
    let rv := rowView .rowH8 row
    match rv.g16 col, rv.g8 (col + 2) with
    | some lo, some hi =>
      let subc := lo ||| (hi <<< 8)
      let ty := if code == 0xF8 then PT_KEYWORD else if code == 0x7B then PT_CURRENT_PROGR
                else if code ≥ 0xE0 then PT_CA_DATA else if code ≥ 0xD0 then PT_PROGR_SCHEDULE else PT_NORMAL
      if code &&& 15 == 1 then some (s, [], spi + 1, ty, subc + 4096)
      else if subc < 2 then none
      else some (s, [], spi + 1, ty, subc)
    | _, _ => none
  else some (s, [], spi, code, 0)

/-- `parse_mip_page`; returns FALSE on error -/
def parseMipPage (s : Net) (vtp : Page) (pgno : Nat) (code : Option Nat) (spi : Nat) :
    Net × List Aux × Nat × Bool :=
  match code with
  | none => (s, [], spi, false)
  | some code =>
    -- `ps = cache_network_page_stat (vbi->cn, pgno)` comes first
    if (0x52 ≤ code && code ≤ 0x6F) || (0xD2 ≤ code && code ≤ 0xDF) || (0xFA ≤ code && code ≤ 0xFC) || code == 0xFF then
      (s, statAssert pgno, spi, true)
    else
      match mipClassify s vtp pgno code spi with
      | none => (s, statAssert pgno, spi, false)
      | some r =>
        let old := r.1.getStat pgno
        let code := r.2.2.2.1
        let subc := r.2.2.2.2
        let st := r.1.setStat pgno (fun ps =>
          let ps := if old.pageType == PT_UNKNOWN || old.pageType == PT_SUBTITLE || code != PT_NO_PAGE
                       || code == PT_SUBTITLE then { ps with pageType := code } else ps
          if old.pageType == PT_UNKNOWN || subc > old.subcode then { ps with subcode := subc } else ps)
        (st.1, r.2.1 ++ st.2, r.2.2.1, true)

/-- (packet, column of the byte pair, page number - magazine base) of the entries of a MIP, in
    program order: packets 1..8 two decades each, packets 9..14 the hex pages -/
def mipOffsets : List (Nat × Nat × Nat) :=
  ((List.range 8).flatMap fun k =>
    ((List.range 10).map fun i => (k + 1, 2 * i, 0x20 * k + i)) ++
    ((List.range 10).map fun i => (k + 1, 20 + 2 * i, 0x20 * k + 0x10 + i))) ++
  ((List.range 6).flatMap fun k =>
    ((List.range 6).map fun i => (k + 9, 2 * i, 0x30 * k + 0x0A + i)) ++
    (if k + 9 == 14 then [] else
      ((List.range 6).map fun i => (k + 9, 12 + 2 * i, 0x30 * k + 0x1A + i)) ++
      ((List.range 6).map fun i => (k + 9, 24 + 2 * i, 0x30 * k + 0x2A + i))))

/-- one entry of `parse_mip`: acc = ((network, subpage index, failed), events) -/
def mipStep (vtp : Page) (base : Nat) (acc : (Net × Nat × Bool) × List Aux) (it : Nat × Nat × Nat) :
    (Net × Nat × Bool) × List Aux :=
  if acc.1.2.2 then acc else
  if vtp.lopPackets &&& (1 <<< it.1) == 0 then acc else
  let rv := rowView .rowH8 (vtp.raw.getD it.1 zeroRow)
  let r := parseMipPage acc.1.1 vtp (base + it.2.2) (rv.g16 it.2.1) acc.1.2.1
  ((r.1, r.2.2.1, !r.2.2.2), acc.2 ++ r.2.1)

/-- `parse_mip (vbi, vtp)` -/
def parseMip (s : Net) (vtp : Page) : Net × List Aux :=
  let r := mipOffsets.foldl (mipStep vtp (vtp.pgno &&& 0xF00)) ((s, 0, false), [])
  (r.1.1, r.2)

/-! ## X/27, X/28, M/29, 8/30 -/

/-- `parse_27 (vbi, p, cvtp, mag0)` -/
def parse27 (cv : Page) (v : View) (mag0 : Nat) : Page × Bool :=
  if cv.function == FN_DISCARD then (cv, true) else
  match v.g8 0 with
  | none => (cv, false)
  | some designation =>
    if designation ≤ 3 then
      -- designation 0 also carries the link control byte (p[37])
      let ctrl : Option Nat := if designation == 0 then v.g8 37 else some 0
      match ctrl with
      | none => (cv, false)
      | some control =>
        let flof := if designation == 0 then control >>> 3 else cv.haveFlof
        let link := (List.range 6).foldl (fun (l : List Link) i =>
          match unhamPageLink v (1 + 6 * i) mag0 with
          | some (pgno, subno) =>
            let idx := designation * 6 + i
            l.set idx { l.getD idx Link.ff with pgno := pgno, subno := subno }
          | none => l) cv.link
        ({ cv with link := link, haveFlof := flof }, true)
    else if designation ≤ 5 then
      let (link, ok) := (List.range 6).foldl (fun (acc : List Link × Bool) i =>
        let (l, ok) := acc
        if !ok then acc else
        match v.g24 (2 * i), v.g24 (2 * i + 1) with
        | some t1, some t2 =>
          let x := ((t1 >>> 12) &&& 7) ^^^ mag0
          let idx := designation * 6 + i
          (l.set idx ⟨(t1 &&& 3 : Nat), ((if x == 0 then 8 else x) * 256 + ((t1 >>> 11) &&& 0xF0) + ((t1 >>> 7) &&& 0xF) : Nat),
                      ((t2 >>> 3) &&& 0xFFFF : Nat)⟩, true)
        | _, _ => (l, false)) (cv.link, true)
      ({ cv with link := link }, ok)
    else (cv, true)

/-- `struct bit_stream` over the 13 `int triplets[]` (as unsigned) -/
structure BitStream where
  rest : List Nat
  buffer : Nat
  left : Nat
  underrun : Bool
deriving Repr, Inhabited

/-- `get_bits (bs, count)` -/
def getBits (bs : BitStream) (count : Nat) : Nat × BitStream :=
  let mask := (1 <<< count) - 1
  if count > bs.left then
    let n := count - bs.left
    let nb := bs.rest.headD 0
    let r := bs.buffer ||| ((nb <<< bs.left) % 4294967296)
    (r &&& mask, { rest := bs.rest.tail, buffer := nb >>> n, left := 18 - n,
                   underrun := bs.underrun || bs.rest.isEmpty })
  else
    (bs.buffer &&& mask, { bs with buffer := bs.buffer >>> count, left := bs.left - count })

def getBitsStep (count : Nat) (acc : List Nat × BitStream) (_k : Nat) : List Nat × BitStream :=
  let r := getBits acc.2 count
  (acc.1 ++ [r.1], r.2)

def getBitsN (bs : BitStream) (count n : Nat) : List Nat × BitStream :=
  (List.range n).foldl (getBitsStep count) ([], bs)

def rgba4 (col : Nat) : Nat :=
  let c := (col &&& 15) ||| (((col >>> 4) &&& 15) <<< 8) ||| (((col >>> 8) &&& 15) <<< 16) ||| 0xFF000000
  (c ||| (c <<< 4)) % 4294967296

/-- one CLUT entry of X/28/0, X/28/4: 12 bits; entry 8 (transparent) is read but not stored -/
def colorStep (j : Nat) (acc : List Nat × BitStream) (k : Nat) : List Nat × BitStream :=
  let i := j - 16 + k
  let r := getBits acc.2 12
  if i == 8 then (acc.1, r.2) else (acc.1.set i (rgba4 r.1), r.2)

/-- the body of `parse_28_29` for designation 0 / 4 after `ext` was selected -/
def ext04 (ext : Ext) (designation : Nat) (bs : BitStream) : Ext × BitStream :=
  let skip := designation == 4 && ext.designations &&& 1 != 0
  let a : Ext × BitStream :=
    if skip then (ext, (getBits bs 21).2)
    else
      let c0 := getBits bs 7
      let c1 := getBits c0.2 7
      let lp := getBits c1.2 1
      let rpn := getBits lp.2 1
      let st := getBits rpn.2 1
      let lc0 := getBits st.2 4
      let lc := if lp.1 != 0 && lc0.1 == 0 then 16 else lc0.1
      ({ ext with charset0 := c0.1, charset1 := c1.1,
                  leftCols := if lp.1 != 0 then lc else 0,
                  rightCols := if rpn.1 != 0 then 16 - lc else 0 }, lc0.2)
  let j := if designation == 4 then 16 else 32
  let c := (List.range 16).foldl (colorStep j) (a.1.colorMap, a.2)
  let ext := { a.1 with colorMap := c.1 }
  let b : Ext × BitStream :=
    if skip then (ext, (getBits c.2 14).2)
    else
      let sc := getBits c.2 5
      let rc := getBits sc.2 5
      let bb := getBits rc.2 1
      let i := getBits bb.2 3
      ({ ext with defScreen := sc.1, defRow := rc.1, blackBg := bb.1,
                  fgClut := [0, 0, 0, 8, 8, 16, 16, 16].getD i.1 0,
                  bgClut := [0, 8, 16, 8, 16, 8, 16, 24].getD i.1 0 }, i.2)
  ({ b.1 with designations := b.1.designations ||| (1 <<< designation) }, b.2)

def rev5 (x : Nat) : Nat := rev8 x >>> 3

/-- what `parse_28_29` decides to do, before anything is written -/
inductive X28Out
  /-- return without a change -/
  | nop (ret : Bool)
  /-- X/28/0, X/28/4, M/29/0, M/29/4 with function LOP: update the extension from the bit stream -/
  | ext04 (designation : Nat) (bs : BitStream)
  /-- X/28/1, M/29/1: DRCS colour look-up table -/
  | clut (bs : BitStream)
  /-- X/28/3 on a page of unknown function: it becomes a (G)DRCS page with these PTU modes -/
  | becomeDrcs (function : Nat) (modes : List Nat) (faults : List Aux)
  /-- X/28/3 on a page which already is that kind of DRCS page -/
  | drcsModes (modes : List Nat) (faults : List Aux)
  /-- X/28/3 contradicting the page function -/
  | discard
deriving Repr, Inhabited

def bsFaults (bs : BitStream) : List Aux := if bs.underrun then [Aux.fault "x28:triplets"] else []

/-- the decisions of `parse_28_29 (vbi, p, cvtp, mag8, packet)` -/
def x28Decide (cvFunction : Int) (packet : Nat) (v : View) : X28Out :=
  match v.g8 0 with
  | none => .nop false
  | some designation =>
    let err := (List.range 13).any fun j => (v.g24 j).isNone
    let bs : BitStream := ⟨v.u24, 0, 0, false⟩
    -- `function = get_bits (&bs, 4); coding = get_bits (&bs, 3);`
    let fn := getBits bs 4
    let cod := getBits fn.2 3
    if designation == 0 || designation == 4 then
      if err then .nop false
      else if fn.1 != 0 && packet == 28 && cvFunction != FN_UNKNOWN && cvFunction != (fn.1 : Int) then .nop false
      else if fn.1 != 0 then .nop false
      else .ext04 designation cod.2
    else if designation == 1 then
      -- unrepaired code uses the triplets without looking at `err` (finding F25)
      if ttxFixF25 && err then .nop false else .clut { bs with rest := bs.rest.drop 1 }
    else if designation == 3 then
      if packet == 29 then .nop true
      else if err then .nop false
      else if (fn.1 : Int) != FN_GDRCS && (fn.1 : Int) != FN_DRCS then .nop false
      else
        let skip := getBits cod.2 11
        let modes := getBitsN skip.2 4 DRCS_PTUS
        if cvFunction == FN_UNKNOWN then .becomeDrcs fn.1 modes.1 (bsFaults modes.2)
        else if cvFunction != (fn.1 : Int) then .discard
        else .drcsModes modes.1 (bsFaults modes.2)
    else .nop true

/-- select `ext`: the page's copy for X/28 (initialised from the magazine on first use and
    marked in `x28_designations`), else the magazine's -/
def selectExt (s : St) (mag0 mag8 packet designation : Nat) : Ext × Page :=
  let cv := (s.rp mag0).page
  let mext := (s.net.mag mag8).ext
  if packet == 28 then
    let cv := if cv.ext.designations == 0 then { cv with ext := mext } else cv
    let cv := { cv with x28 := cv.x28 ||| (1 <<< designation) }
    (cv.ext, cv)
  else (mext, cv)

def storeExt (s : St) (mag0 mag8 packet : Nat) (cv : Page) (ext : Ext) : St :=
  if packet == 28 then s.setPage mag0 { cv with ext := ext }
  else { s with net := s.net.setMag mag8 { s.net.mag mag8 with ext := ext } }

/-- the DRCS CLUT of X/28/1: 8 + 32 five-bit entries, bit-reversed -/
def clutFrom (ext : Ext) (bs : BitStream) : Ext × BitStream :=
  let a := getBitsN bs 5 8
  let b := getBitsN a.2 5 32
  ({ ext with drcsClut := ext.drcsClut.take 2 ++ a.1.map rev5 ++ b.1.map rev5,
              designations := ext.designations ||| 2 }, b.2)

/-- `parse_28_29 (vbi, p, cvtp, mag8, packet)` -/
def parse2829 (s : St) (mag0 mag8 packet : Nat) (v : View) : St × List Aux × Bool :=
  let cv := (s.rp mag0).page
  match x28Decide cv.function packet v with
  | .nop r => (s, [], r)
  | .ext04 designation bs =>
    let se := selectExt s mag0 mag8 packet designation
    let r := ext04 se.1 designation bs
    (storeExt s mag0 mag8 packet se.2 r.1, bsFaults r.2, false)
  | .clut bs =>
    let se := selectExt s mag0 mag8 packet 1
    let r := clutFrom se.1 bs
    (storeExt s mag0 mag8 packet se.2 r.1, bsFaults r.2, false)
  | .becomeDrcs function modes f => (s.setPage mag0 { cv with function := function, drcsMode := modes }, f, true)
  | .drcsModes modes f => (s.setPage mag0 { cv with drcsMode := modes }, f, true)
  | .discard => (s.setPage mag0 { cv with function := FN_DISCARD }, [], false)

/-- `parse_8_30` restricted to the event mask bit TTX_PAGE -/
def parse830 (s : St) (v : View) : St × Bool :=
  match v.g8 0 with
  | none => (s, false)
  | some designation =>
    if designation > 4 then (s, true)
    else if s.mask then
      match unhamPageLink v 1 0 with
      | none => (s, false)
      | some (pgno, subno) =>
        let ip : Link := if pgno &&& 0xFF == 0xFF then { s.net.initialPage with pgno := 0x100, subno := ANY_SUBNO }
                         else { s.net.initialPage with pgno := pgno, subno := subno }
        ({ s with net := { s.net with initialPage := ip } }, true)
    else (s, true)

/-! ## vbi_convert_page (cached = FALSE) -/

/-- re-parse stored row `k + 1` of a page that turns out to be a (G)POP page -/
def convPopStep (vtp : Page) (acc : Bool × List Aux) (k : Nat) : Bool × List Aux :=
  if !acc.1 then acc else
  if vtp.lopPackets &&& (1 <<< (k + 1)) == 0 then acc else
  let r := parsePop (rowView .trip (vtp.raw.getD (k + 1) zeroRow)) (k + 1)
  (r.1, acc.2 ++ r.2)

def convAitStep (vtp : Page) (acc : Unit × List Aux) (k : Nat) : Unit × List Aux :=
  if vtp.lopPackets &&& (1 <<< (k + 1)) == 0 then acc else ((), acc.2 ++ parseAitBounds (k + 1))

def convMptStep (vtp : Page) (acc : Net × List Aux) (k : Nat) : Net × List Aux :=
  if vtp.lopPackets &&& (1 <<< (k + 1)) == 0 then acc else
  let r := parseMpt acc.1 (rowView .rowH8 (vtp.raw.getD (k + 1) zeroRow)).g8 (k + 1)
  (r.1, acc.2 ++ r.2)

def convMptExStep (vtp : Page) (acc : Net × List Aux) (k : Nat) : Net × List Aux :=
  if vtp.lopPackets &&& (1 <<< (k + 1)) == 0 then acc else
  let r := parseMptEx acc.1 (unhamTopPageLink (rowView .rowH8 (vtp.raw.getD (k + 1) zeroRow))) (k + 1)
  (r.1, acc.2 ++ r.2)

/-- new function of the page and new network record; `none` = conversion refused, page unchanged -/
def convertPage (n : Net) (vtp : Page) (newFn : Int) : Option Page × Net × List Aux :=
  if vtp.function != FN_UNKNOWN then (none, n, [])
  else if newFn == FN_LOP then (some { vtp with function := FN_LOP }, n, [])
  else if newFn == FN_GPOP || newFn == FN_POP then
    let r := (List.range 25).foldl (convPopStep vtp) (true, [])
    if r.1 then (some { vtp with function := newFn }, n, r.2) else (none, n, r.2)
  else if newFn == FN_GDRCS || newFn == FN_DRCS then
    (some { vtp with function := newFn, drcsMode := List.replicate DRCS_PTUS 0 }, n, [])
  else if newFn == FN_AIT then
    (some { vtp with function := newFn }, n, ((List.range 23).foldl (convAitStep vtp) ((), [])).2)
  else if newFn == FN_MPT then
    let r := (List.range 20).foldl (convMptStep vtp) (n, [])
    (some { vtp with function := newFn }, r.1, r.2)
  else if newFn == FN_MPT_EX then
    let r := (List.range 20).foldl (convMptExStep vtp) (n, [])
    (some { vtp with function := newFn }, r.1, r.2)
  else (none, n, [])

/-- function implied by the page type of the page statistics (header branch, lines 2431-2516) -/
def functionOfType (n : Net) (pageType pgno page : Nat) : Int :=
  let t := pageType
  if (0x01 ≤ t && t ≤ 0x51) || (0x70 ≤ t && t ≤ 0x7F) || (0x81 ≤ t && t ≤ 0xD1) || (0xF4 ≤ t && t ≤ 0xF7)
     || t == PT_TOP_BLOCK || t == PT_TOP_GROUP then FN_LOP
  else if t == PT_SYSTEM then FN_UNKNOWN
  else if t == PT_TOP_PAGE then
    match (n.bttLink.take 8).find? (fun l => l.pgno == (pgno : Int)) with
    | some l => if l.function == FN_AIT || l.function == FN_MPT || l.function == FN_MPT_EX then l.function else FN_UNKNOWN
    | none => FN_UNKNOWN
  else if t == 0xE5 || (0xE8 ≤ t && t ≤ 0xEB) then FN_DRCS
  else if t == 0xE6 || (0xEC ≤ t && t ≤ 0xEF) then FN_POP
  else if t == PT_TRIGGER then FN_EACEM
  else if t == PT_EPG_DATA || (0x52 ≤ t && t ≤ 0x6F) || t == PT_ACI || t == PT_NOT_PUBLIC || (0xD2 ≤ t && t ≤ 0xDF)
          || (0xE0 ≤ t && t ≤ 0xE2) || t == 0xE4 || (0xF0 ≤ t && t ≤ 0xF3) then FN_DISCARD
  else if page ≤ 0x99 && page &&& 15 ≤ 9 then FN_LOP
  else FN_UNKNOWN

/-! ## the header (packet 0) -/

/-- which assembly page a new header for (mag0, pgno) terminates: `none` = nothing to store -/
def terminatedSlot (s : St) (mag0 pgno page : Nat) : Option Nat :=
  match s.current with
  | none => none
  | some cmag =>
    let vtp0 := (s.rp cmag).page
    -- unrepaired code (before commit 53b7b09) took the serial branch only for pages without the
    -- erase flag; now the flag is part of the "same page" test
    if (if ttxFixSerialErase then vtp0.flags &&& C11_MAGAZINE_SERIAL != 0
        else vtp0.flags &&& C11_MAGAZINE_SERIAL != 0 && vtp0.flags &&& C4_ERASE_PAGE == 0) then
      if vtp0.pgno == pgno && (!ttxFixSerialErase || vtp0.flags &&& C4_ERASE_PAGE == 0) then none else some cmag
    else
      let v := (s.rp mag0).page
      if (v.pgno &&& 0xFF) == page && v.flags &&& C4_ERASE_PAGE == 0 then none else some mag0

/-- "Store page terminated by new header": the `while ((curr = vbi->vt.current))` block -/
def terminatePage (s : St) (mag0 pgno page : Nat) : St × List Event :=
  match terminatedSlot s mag0 pgno page with
  | none => (s, [])
  | some curr =>
    let vtp := (s.rp curr).page
    let fn := vtp.function
    let (s, ev) : St × List Event :=
      if fn == FN_DISCARD || fn == FN_EPG then (s, [])
      else if fn == FN_LOP then
        let (cv, rv) := lopParityCheck vtp (s.rp curr)
        let s := s.setRp curr { rv with page := cv }
        storeLop s cv
      else if fn == FN_DRCS || fn == FN_GDRCS then
        let (s, e) := s.put vtp                                 -- convert_drcs always TRUE
        (s, liftAux (convertDrcsBounds vtp.drcsMode) ++ e)
      else if fn == FN_MIP then
        let r := parseMip s.net vtp
        ({ s with net := r.1 }, liftAux r.2)
      else if fn == FN_EACEM then (s, [])                        -- no VBI_EVENT_TRIGGER handler
      else s.put vtp
    let cur := (s.rp curr).page
    (s.setPage curr { cur with function := FN_DISCARD }, ev)

/-- the test `page == 0xFF || (subpage | flags) < 0` of the header branch (finding F21: the
    unrepaired code looks at the sign of `S1S2 + S3S4 * 256` only) -/
def hdrRejected (page : Nat) (sub12 sub34 fl : Int) : Bool :=
  page == 0xFF || (if ttxFixF21 then sub12 < 0 || sub34 < 0 else sub12 + sub34 * 256 < 0) || fl < 0

/-- header branch: `_vbi_cache_get_page` unless the page is 1E7 or has the erase flag -/
def headerLookup (n : Net) (cv : Page) : Option Page × Net × List Aux :=
  if cv.pgno != 0x1E7 && cv.flags &&& C4_ERASE_PAGE == 0 then n.get cv.pgno cv.subno 0xFFFFFFFF
  else (none, n, [])

/-- header branch: continue the cached page `q`; the header row is copied for LOP / unknown pages -/
def headerFromCache (cv q : Page) (row0 : List Nat) : Page × Bool :=
  let copyHdr := q.function == FN_UNKNOWN || q.function == FN_LOP
  ({ cv with function := q.function, raw := if copyHdr then q.raw.set 0 row0 else q.raw,
             link := q.link, haveFlof := q.haveFlof,
             -- fixes/C03-enh-zero-filler.diff (`ttxFixEnhFiller`, regenerated from packet.c): a copy stored without
             -- X/26 / X/28 data comes back without its enhancement array (`Page.truncate`: zeros); the repaired code
             -- marks the array unused as for a page built from scratch
             enh := if ttxFixEnhFiller && copyHdr && q.x26 == 0 && q.x28 &&& 0x13 == 0
                    then List.replicate ENH_SIZE Triplet.ff else q.enh,
             ext := q.ext,
             drcsMode := if q.function == FN_DRCS || q.function == FN_GDRCS then q.drcsMode else cv.drcsMode,
             lopPackets := q.lopPackets, x26 := q.x26, x27 := q.x27, x28 := q.x28 }, copyHdr)

/-- header branch: build the page from scratch ("rebuilding from scratch") -/
def headerFresh (n : Net) (cv0 : Page) (page : Nat) (row0 : List Nat) : Page × Net × List Aux × Bool :=
  let cv := { cv0 with flags := cv0.flags ||| C4_ERASE_PAGE, lopPackets := 1, x26 := 0, x27 := 0, x28 := 0 }
  if cv.pgno == 0x1F0 then
    let r := n.setStat cv.pgno (fun ps => { ps with pageType := PT_TOP_PAGE })
    ({ cv with function := FN_BTT }, r.1, r.2, false)
  else if cv.pgno == 0x1E7 then
    let r := n.setStat cv.pgno (fun ps => { ps with pageType := PT_DISP_SYSTEM, subcode := 0 })
    ({ cv with function := FN_EACEM, raw := List.replicate 26 blankRow,
               enh := List.replicate ENH_SIZE Triplet.ff }, r.1, r.2, false)
  else if page == 0xFD then
    let r := n.setStat cv.pgno (fun ps => { ps with pageType := PT_SYSTEM })
    ({ cv with function := FN_MIP }, r.1, r.2, false)
  else if page == 0xFE then
    let r := n.setStat cv.pgno (fun ps => { ps with pageType := PT_SYSTEM })
    ({ cv with function := FN_MOT }, r.1, r.2, false)
  else
    ({ cv with function := FN_UNKNOWN, raw := row0 :: List.replicate 25 blankRow,
               link := List.replicate LINKS Link.ff, enh := List.replicate ENH_SIZE Triplet.ff,
               haveFlof := 0 }, n, [], true)

/-- header branch: a page of unknown function gets the function its page type implies -/
def headerConvert (n : Net) (cv : Page) (page : Nat) : Page × Net × List Aux :=
  if cv.function == FN_UNKNOWN then
    let fn := functionOfType n (n.getStat cv.pgno).pageType cv.pgno page
    if fn != FN_UNKNOWN then
      let r := convertPage n cv fn
      match r.1 with
      | some cv' => (cv', r.2.1, r.2.2)
      | none => (cv, r.2.1, r.2.2)
    else (cv, n, [])
  else (cv, n, [])

/-- Accepted header, "Prepare for new page" (packet.c:2321-2516): the new content of the magazine's
    assembly page, built from the cached copy or from scratch, and the new network record.
    `cv0` already carries the new page number.  Last component: were the 40 header bytes copied. -/
def headerPage (n : Net) (cv0 : Page) (page subpage fl : Nat) (row0 : List Nat) :
    Page × Net × List Aux × Bool :=
  let cv := { cv0 with subno := subpage &&& 0x3F7F, national := rev8 fl &&& 7, flags := (fl <<< 16) + subpage }
  let lk := headerLookup n cv
  let b : Page × Net × List Aux × Bool :=
    match lk.1 with
    | some q => ((headerFromCache cv q row0).1, lk.2.1, [], (headerFromCache cv q row0).2)
    | none => headerFresh lk.2.1 cv page row0
  let c := headerConvert b.2.1 b.1 page
  (c.1, c.2.1, lk.2.2 ++ b.2.2.1 ++ c.2.2, b.2.2.2)

/-- packet 0 after the page number decoded.  Returns the result and whether the 40 header bytes
    were copied into `raw[0]` (then `raw[0][0..7]` are patched in by `finish`). -/
def processHeader (s : St) (mag0 mag8 : Nat) (v : View) : Res × Bool :=
  match v.g16 0 with
  | none => (⟨desync s, [], false⟩, false)
  | some page =>
    let pgno := mag8 * 256 + page
    let t := terminatePage s mag0 pgno page
    let s := t.1
    let cv := { (s.rp mag0).page with pgno := pgno }
    let s := { s.setPage mag0 cv with current := some mag0 }
    let sub12 := v.g16i 2
    let sub34 := v.g16i 4
    let fl := v.g16i 6
    if hdrRejected page sub12 sub34 fl then
      (⟨s.setPage mag0 { cv with function := FN_DISCARD }, t.2, false⟩, false)
    else
      let row0 := zeroRow.take 8 ++ (v.raw.drop 8)
      let h := headerPage s.net cv page (sub12 + sub34 * 256).toNat fl.toNat row0
      let rp := s.rp mag0
      let s := { s with net := h.2.1 }
      let s := s.setRp mag0 { rp with page := { h.1 with ext := { h.1.ext with designations := 0 } },
                                      lopPackets := 0, numTriplets := 0 }
      (⟨s, t.2 ++ liftAux h.2.2.1, true⟩, h.2.2.2)

/-! ## rows 1..25, X/26 -/
def processRow (s : St) (mag0 mag8 packet : Nat) (v : View) : Res :=
  let rp := s.rp mag0
  let cv := rp.page
  let fn := cv.function
  let bit := 1 <<< packet
  let done (s : St) (ev : List Aux) : Res :=
    let cv := (s.rp mag0).page
    ⟨s.setPage mag0 { cv with lopPackets := cv.lopPackets ||| bit }, liftAux ev, true⟩
  if fn == FN_DISCARD then ⟨s, [], true⟩
  else if fn == FN_MOT then
    let (m, ev) := parseMot (s.net.mag mag8) v packet
    done { s with net := s.net.setMag mag8 m } ev
  else if fn == FN_GPOP || fn == FN_POP then
    let (ok, ev) := parsePop v packet
    if ok then done s ev else ⟨s, liftAux ev, false⟩
  else if fn == FN_GDRCS || fn == FN_DRCS then
    done (s.setPage mag0 { cv with raw := cv.raw.set packet v.raw }) []
  else if fn == FN_BTT then
    let (n, ev) := parseBtt s.net v packet
    done { s with net := n } ev
  else if fn == FN_AIT then done s (parseAitBounds packet)
  else if fn == FN_MPT then
    let (n, ev) := parseMpt s.net v.g8 packet
    done { s with net := n } ev
  else if fn == FN_MPT_EX then
    let (n, ev) := parseMptEx s.net (unhamTopPageLink v) packet
    done { s with net := n } ev
  else if fn == FN_EPG then done s []
  else if fn == FN_LOP then
    ⟨s.setRp mag0 { rp with lopRaw := rp.lopRaw.set packet v.raw, lopPackets := rp.lopPackets ||| bit }, [], true⟩
  else if fn == FN_EACEM then
    if v.raw.all oddPar then done (s.setPage mag0 { cv with raw := cv.raw.set packet v.raw }) []
    else ⟨s, [], false⟩
  else done (s.setPage mag0 { cv with raw := cv.raw.set packet v.raw }) []

/-- one iteration of the triplet loop of packet 26 (`break` on an uncorrectable triplet) -/
def x26Step (v : View) (acc : List Triplet × Nat × List Aux × Bool) (i : Nat) :
    List Triplet × Nat × List Aux × Bool :=
  let (enh, nt, ev, brk) := acc
  if brk then acc else
  match v.g24 i with
  | none => (enh, nt, ev, true)
  | some t =>
    if nt < ENH_SIZE then
      (enh.set nt ⟨t &&& 0x3F, (t >>> 6) &&& 0x1F, (t >>> 11) &&& 0xFF⟩, nt + 1, ev, false)
    else (enh, nt + 1, ev ++ [Aux.fault "x26:enh"], false)

/-- the 13 triplets of an accepted X/26 packet: appended at `nt`, stop at the first uncorrectable one -/
def x26Triplets (v : View) (enh : List Triplet) (nt : Nat) : List Triplet × Nat × List Aux :=
  let r := (List.range 13).foldl (x26Step v) (enh, nt, [], false)
  (r.1, r.2.1, r.2.2.1)

def process26 (s : St) (mag0 : Nat) (v : View) : Res :=
  let rp := s.rp mag0
  let cv := rp.page
  let fn := cv.function
  if fn == FN_DISCARD then ⟨s, [], true⟩
  else if fn == FN_GPOP || fn == FN_POP then
    let (ok, ev) := parsePop v 26
    ⟨s, liftAux ev, ok⟩
  else if fn == FN_GDRCS || fn == FN_DRCS || fn == FN_BTT || fn == FN_AIT || fn == FN_MPT || fn == FN_MPT_EX then
    ⟨desync s, [], true⟩
  else
    match v.g8 0 with
    | none => ⟨s, [], false⟩
    | some designation =>
      if rp.numTriplets ≥ 16 * 13 || rp.numTriplets != (designation * 13 : Nat) then
        ⟨s.setRp mag0 { rp with numTriplets := -1 }, [], false⟩
      else
        let (enh, nt, ev) := x26Triplets v cv.enh (designation * 13)
        ⟨s.setRp mag0 { rp with numTriplets := nt,
                                page := { cv with enh := enh, x26 := cv.x26 ||| (1 <<< designation) } },
         liftAux ev, true⟩

/-! ## vbi_decode_teletext -/

/-- the accessor kind used for the 40 payload bytes, from the decoded address, the state and
    (for X/27) the decoded designation -/
def kindOf (s : St) (pmag : Nat) (desig : Option Nat) : Kind :=
  let mag0 := pmag &&& 7
  let packet := pmag >>> 3
  let fn := (s.rp mag0).page.function
  if packet < 30 && !s.mask then .ignored
  else if packet == 0 then .hdr
  else if packet ≤ 25 then
    if fn == FN_DISCARD || fn == FN_EPG then .ignored
    else if fn == FN_MOT || fn == FN_BTT || fn == FN_MPT || fn == FN_MPT_EX then .rowH8
    else if fn == FN_GPOP || fn == FN_POP then .trip
    else if fn == FN_AIT then .rowAit
    else .rowRaw
  else if packet == 26 then
    if fn == FN_DISCARD || fn == FN_GDRCS || fn == FN_DRCS || fn == FN_BTT || fn == FN_AIT || fn == FN_MPT
       || fn == FN_MPT_EX then .ignored
    else .trip
  else if packet == 27 then
    if fn == FN_DISCARD then .ignored
    else match desig with
      | some d => if d ≤ 3 then .x27a else if d ≤ 5 then .x27b else .desig
      | none => .desig
  else if packet == 28 then (if fn == FN_DISCARD then .ignored else .trip)
  else if packet == 29 then .trip
  else if pmag &&& 15 == 0 then .p830
  else .ignored

/-- everything after the address decoded, on the masked view -/
def process (s : St) (pmag : Nat) (v : View) : Res × Bool :=
  let mag0 := pmag &&& 7
  let mag8 := if mag0 == 0 then 8 else mag0
  let packet := pmag >>> 3
  if packet < 30 && !s.mask then (⟨s, [], true⟩, false)
  else if packet == 0 then processHeader s mag0 mag8 v
  else if packet ≤ 25 then (processRow s mag0 mag8 packet v, false)
  else if packet == 26 then (process26 s mag0 v, false)
  else if packet == 27 then
    let (cv, ok) := parse27 (s.rp mag0).page v mag0
    (⟨s.setPage mag0 cv, [], ok⟩, false)
  else if packet == 28 && (s.rp mag0).page.function == FN_DISCARD then (⟨s, [], true⟩, false)
  else if packet ≤ 29 then
    let (s, ev, ok) := parse2829 s mag0 mag8 packet v
    (⟨s, liftAux ev, ok⟩, false)
  else if pmag &&& 15 == 0 then
    let (s, ok) := parse830 s v
    (⟨s, [], ok⟩, false)
  else (⟨s, [], true⟩, false)

/-- `memcpy (raw[0], p, 40)` also copies the 8 Hamming bytes of the header; they are patched in
    here, after everything else, because nothing in this step reads them -/
def patchHdr8 (s : St) (mag0 : Nat) (h8 : List Nat) : St :=
  let cv := (s.rp mag0).page
  s.setPage mag0 { cv with raw := cv.raw.set 0 (h8 ++ (cv.raw.getD 0 zeroRow).drop 8) }

/-- the 8 Hamming bytes after the address, as stored by the header `memcpy` -/
def hdr8 (p : Packet) : List Nat := (List.range 8).map fun i => byte p (2 + i)

def finish (r : Res × Bool) (mag0 : Nat) (h8 : List Nat) : Res :=
  if r.2 then { r.1 with st := patchHdr8 r.1.st mag0 h8 } else r.1

/-- `vbi_decode_teletext (vbi, buffer)`: the packet is read through `a16 p 0` (address),
    `a8 p 2` (designation, to choose the X/27 layout), `view k p`, and `hdr8 p` -/
def decodeTeletext (s : St) (p : Packet) : Res :=
  match a16 p 0 with
  | none => ⟨s, [], false⟩
  | some pmag => finish (process s pmag (view (kindOf s pmag (a8 p 2)) p)) (pmag &&& 7) (hdr8 p)

/-- the part of `vbi_decode` before the lines of a frame with regular timing -/
def frameTick (s : St) : St × List Event :=
  let s := { s with started := true }
  if s.chswcd > 0 then
    if s.chswcd == 1 then (chswReset s, [Event.chsw]) else ({ s with chswcd := s.chswcd - 1 }, [])
  else (s, [])

/-- `vbi_decode` of a frame whose timestamp is off (dropped frames), no lines; the very first
    frame (`vbi->time == 0`) is never treated as a gap -/
def gap (s : St) : St :=
  if !s.started then (frameTick s).1 else
  let s := if s.chswcd == 0 then { s with chswcd := 40 } else s
  if s.mask then desync s else s

/-- one Teletext line per frame through `vbi_decode` -/
def step (s : St) (p : Packet) : St × List Event :=
  let (s, e0) := frameTick s
  let r := decodeTeletext s p
  (r.st, e0 ++ r.ev)

/-- a whole history of single-line frames -/
def run (s : St) (ps : List Packet) : St × List Event :=
  ps.foldl (fun (acc : St × List Event) p => let (s', e) := step acc.1 p; (s', acc.2 ++ e)) (s, [])

/-! ## the character code the Level 1 formatter works on (teletext.c:2560-2565) -/
def fmtRaw (pg : Page) (row column : Nat) : Nat :=
  if row == 0 && column < 8 then 0   -- replaced by the page number text, `buf[column]`
  else match unpar8 ((pg.raw.getD row zeroRow).getD column 0) with
    | some c => c
    | none => 0x20

end Zvbi.Ttx
