import ZvbiModel.Ttx.Chain2
/-!
# C02 round 5, part 3: `TInv` is kept by every `TextOnly` packet (`step_tinv`, `run_tinv`, `init_tinv`)
-/
namespace Zvbi.Ttx
open Zvbi.Hamm Zvbi.Gen Zvbi.Ttx.Spec

theorem pmag_hdr (pmag : Nat) (h0 : pmag >>> 3 = 0) : pmag &&& 7 = pmag ∧ pmag < 8 := by
  rw [Nat.shiftRight_eq_div_pow] at h0
  have hlt : pmag < 8 := by
    have : pmag / 8 = 0 := h0
    omega
  refine ⟨?_, hlt⟩
  have := Nat.and_two_pow_sub_one_eq_mod pmag 3
  simp only [show (2:Nat) ^ 3 - 1 = 7 from rfl, show (2:Nat) ^ 3 = 8 from rfl] at this
  rw [this]; exact Nat.mod_eq_of_lt hlt

theorem hdrAbandon_tinv (s1 : St) (mag0 pgno : Nat) (hl : mag0 < s1.raw.length) (h : TInv s1) :
    TInv (hdrAbandon s1 mag0 pgno) := by
  refine ⟨h.net, ?_⟩
  intro c hc
  unfold hdrAbandon
  simp only []
  by_cases e : c = mag0
  · subst e
    rw [rp_setPage_same _ c _ (by show c < (s1.setPage c _).raw.length; rw [setPage_length]; exact hl)]
    exact Or.inr rfl
  · rw [rp_setPage_other _ mag0 c _ e]
    have : ({ s1.setPage mag0 { (s1.rp mag0).page with pgno := pgno } with current := some mag0 } : St).rp c
        = (s1.setPage mag0 { (s1.rp mag0).page with pgno := pgno }).rp c := rfl
    rw [this, rp_setPage_other _ mag0 c _ e]
    exact h.slots c hc

theorem lookupPrev_tnet (n : Net) (pgno sp fl : Nat) (h : TNet n) : TNet (lookupPrev n pgno sp fl).2.1 := by
  unfold lookupPrev
  split
  · refine h.sub ?_ (get_sub _ _ _ _)
    unfold Net.get
    split <;> rfl
  · exact h

theorem hdrRejected_page {page : Nat} {a b c : Int} (h : hdrRejected page a b c = false) : page ≠ 0xFF := by
  unfold hdrRejected at h
  intro e
  subst e
  simp at h

/-- **one packet** on a text-only decoder -/
theorem decode_tinv (s : St) (p : Packet) (hs : Shape s) (hm : s.mask = true) (h : TInv s) (ht : TextOnly p) :
    TInv (decodeTeletext s p).st := by
  cases ha : a16 p 0 with
  | none =>
    have : decodeTeletext s p = ⟨s, [], false⟩ := by unfold decodeTeletext; rw [ha]
    rw [this]; exact h
  | some pmag =>
    by_cases h0 : pmag >>> 3 = 0
    · obtain ⟨h7, hlt⟩ := pmag_hdr pmag h0
      cases hpg : a16 p 2 with
      | none => rw [decode_hdr_bad_pageno s p pmag ha h0 hm hpg]; exact h.desync hs
      | some page =>
        have hgl := terminatePage_glob s pmag (mag8Of pmag * 256 + page) page
        have hT := terminatePage_tinv s pmag (mag8Of pmag * 256 + page) page hlt hs h
        cases hrej : hdrRejected page ((view Kind.hdr p).g16i 2) ((view Kind.hdr p).g16i 4) ((view Kind.hdr p).g16i 6) with
        | true =>
          rw [decode_hdr_rejected s p pmag page ha h0 hm hpg hrej]
          simp only [h7]
          rw [show (if (pmag == 0) = true then 8 else pmag) = mag8Of pmag from rfl]
          exact hdrAbandon_tinv _ pmag _ (by rw [hgl.len, hs.len]; exact hlt) hT
        | false =>
          have hne := hdrRejected_page hrej
          have hdec : decimalPage page := by
            rcases ht pmag page ha h0 hpg with d | d
            · exact d
            · exact absurd d hne
          obtain ⟨s12, s34, fl, e1, e2, e3, _, _⟩ := hdrRejected_fields p page hrej rfl
          have hp : IsHeader p pmag page s12 s34 fl := ⟨hlt, ha, hpg, e1, e2, e3⟩
          obtain ⟨ho, _, _⟩ := decode_header_text s p pmag page s12 s34 fl hp hdec hm
            (terminatePage s pmag (mag8Of pmag * 256 + page) page).1
            (terminatePage s pmag (mag8Of pmag * 256 + page) page).2 rfl (by rw [hgl.len]; exact hs.len)
            (hT.net.textPage _ _ _ _ hdec)
          refine ⟨by rw [ho.net]; exact lookupPrev_tnet _ _ _ _ hT.net, ?_⟩
          intro c hc
          by_cases e : c = pmag
          · subst e; exact Or.inl ho.fn
          · rw [ho.other c e]; exact hT.slots c hc
    · have hslot := h.slots (pmag &&& 7) (and7_lt pmag)
      have hpl := decode_plain s p pmag ha h0 hslot
      obtain ⟨hq, _⟩ := decode_quiet s p pmag ha h0
      rcases hq with hq | ⟨hd, _⟩
      · refine ⟨h.net.sub hpl.stat (cacheSub_of_eq hpl.cache), ?_⟩
        intro c hc
        by_cases e : c = pmag &&& 7
        · subst e; exact hpl.fn
        · rw [hq.other c e]; exact h.slots c hc
      · rw [hd]; exact h.desync hs

theorem step_tinv (s : St) (p : Packet) (hs : Shape s) (hm : s.mask = true) (h : TInv s) (ht : TextOnly p) :
    TInv (step s p).1 := by
  rw [step_eq_of_shape s p hs]
  exact decode_tinv (tick s) p (tick_shape hs) hm h.tick ht

/-- **reachability**: any history of `TextOnly` packets keeps `TInv` -/
theorem run_tinv (ps : List Packet) : ∀ (s : St), Shape s → s.mask = true → TInv s → (∀ p ∈ ps, TextOnly p) →
    TInv (run s ps).1 := by
  induction ps with
  | nil => intro s _ _ h _; exact h
  | cons p ps ih =>
    intro s hs hm h hp
    rw [run_cons]
    obtain ⟨hs1, hm1⟩ := step_shape s p hs
    exact ih _ hs1 (by rw [hm1]; exact hm) (step_tinv s p hs hm h (hp p List.mem_cons_self))
      (fun q hq => hp q (List.mem_cons_of_mem _ hq))

theorem init_tinv : TInv (init.enable true) := by
  refine ⟨⟨?_, ?_⟩, ?_⟩
  · intro pgno
    left
    have hs : (init.enable true).net.stat = List.replicate 0x800 PageStat.init := rfl
    unfold Net.getStat
    rw [hs]
    cases statIdx pgno with
    | none => rfl
    | some i =>
      simp only [List.getD_eq_getElem?_getD, List.getElem?_replicate]
      split <;> rfl
  · intro q hq
    have : (init.enable true).net.cache = [] := rfl
    rw [this] at hq; cases hq
  · intro c hc
    right
    have : ∀ m < 8, slotFn (init.enable true) m = FN_DISCARD := by decide +kernel
    exact this c hc

end Zvbi.Ttx
