import ZvbiModel.Ttx.Roundtrip10
/-!
# C02 round 4, part 11: consistent page headers => the decoder never signals a channel switch

`HdrOk tmpl off pgno row`: the header row carries its own page number at columns `off..off+2` (first occurrence)
and equals the network's template `tmpl` with odd parity in the other compared columns 8..31 (`same_header` also
skips column `off+3`).  `GoodHdr tmpl off p`: packet `p`, if it is a page header whose page number decodes, has
such a row.  `run_no_chsw`: from a fresh decoder, a history of packets that are all `GoodHdr` for one
(`tmpl`, `off`) never produces `Event.chsw` (`vbi_chsw_reset`) - whatever else the packets are.
Invariant `HInv`: the reference header agrees with the template, every text page in progress has an `HdrOk` row 0.
-/
namespace Zvbi.Ttx
open Zvbi.Hamm Zvbi.Gen Zvbi.Ttx.Spec

structure HdrOk (tmpl : List Nat) (off pgno : Nat) (row : List Nat) : Prop where
  lo : 8 ≤ off
  hi : off ≤ 28
  digits : row.getD off 0 = (pgDigits pgno).1 ∧ row.getD (off + 1) 0 = (pgDigits pgno).2.1
    ∧ row.getD (off + 2) 0 = (pgDigits pgno).2.2
  first : ∀ k, 8 ≤ k → k < off →
    (row.getD k 0 == (pgDigits pgno).1 && row.getD (k + 1) 0 == (pgDigits pgno).2.1
      && row.getD (k + 2) 0 == (pgDigits pgno).2.2) = false
  same : ∀ k, 8 ≤ k → k < 32 → (k < off ∨ off + 4 ≤ k) →
    oddPar (row.getD k 0) = true ∧ row.getD k 0 = tmpl.getD k 0

/-- the reference header agrees with the template in the compared columns -/
def RefOk (tmpl : List Nat) (off : Nat) (ref : List Nat) : Prop :=
  ∀ k, 8 ≤ k → k < 32 → (k < off ∨ off + 4 ≤ k) → ref.getD k 0 = tmpl.getD k 0

theorem HdrOk.ref {tmpl : List Nat} {off pgno : Nat} {row : List Nat} (h : HdrOk tmpl off pgno row) : RefOk tmpl off row :=
  fun k h1 h2 h3 => (h.same k h1 h2 h3).2

theorem HdrOk.agrees {tmpl : List Nat} {off pgno : Nat} {cur ref : List Nat} (h : HdrOk tmpl off pgno cur)
    (hr : RefOk tmpl off ref) : HeaderAgrees pgno cur ref off := by
  refine ⟨h.lo, h.hi, h.digits, h.first, ?_⟩
  intro k h1 h2 h3
  obtain ⟨a, b⟩ := h.same k h1 h2 h3
  have e : cur.getD k 0 = ref.getD k 0 := by rw [b, hr k h1 h2 h3]
  exact ⟨a, by rw [← e]; exact a, e⟩

/-- a consistent header never makes `store_lop` take the channel-switch branch -/
theorem hdrVerdict_consistent (s : St) (vtp : Page) (tmpl : List Nat) (off : Nat)
    (h1 : HdrOk tmpl off vtp.pgno (vtp.raw.getD 0 zeroRow)) (h2 : s.hdrPgno ≠ 0 → RefOk tmpl off s.header) :
    hdrVerdict s vtp ≠ .reset := by
  unfold hdrVerdict
  simp only []
  split
  · by_cases hf : s.hdrPgno = 0
    · simp only [hf, beq_self_eq_true, if_true]
      rw [sameHeader_agrees _ _ _ off (h1.agrees h1.ref)]
      simp
    · have : (s.hdrPgno == 0) = false := by simpa using hf
      simp only [this, Bool.false_eq_true, if_false]
      rw [sameHeader_agrees _ _ _ off (h1.agrees (h2 hf))]
      simp
  · simp

theorem getD_take8_append (hdr row : List Nat) (k : Nat) (h8 : 8 ≤ hdr.length) (hk : 8 ≤ k) :
    (hdr.take 8 ++ hdrText row).getD k 0 = row.getD k 0 := by
  unfold hdrText
  have hl : (hdr.take 8).length = 8 := by simp; omega
  simp only [List.getD_eq_getElem?_getD]
  rw [List.getElem?_append_right (by omega), hl, List.getElem?_drop]
  congr 2; omega

/-- `store_lop` on a consistent header: no channel switch; the reference header stays consistent -/
theorem storeLop_consistent (s : St) (vtp : Page) (tmpl : List Nat) (off : Nat) (h8 : 8 ≤ s.header.length)
    (h1 : HdrOk tmpl off vtp.pgno (vtp.raw.getD 0 zeroRow)) (h2 : s.hdrPgno ≠ 0 → RefOk tmpl off s.header) :
    Event.chsw ∉ (storeLop s vtp).2
    ∧ ((storeLop s vtp).1.hdrPgno ≠ 0 → RefOk tmpl off (storeLop s vtp).1.header) := by
  have hne := hdrVerdict_consistent s vtp tmpl off h1 h2
  unfold storeLop
  split
  · rename_i h; exact absurd h hne
  · exact ⟨fun h => (by cases h), h2⟩
  · rename_i copy clearCd roll hdrUpd clock pn _
    simp only []
    constructor
    · intro h
      rw [List.mem_append, List.mem_append] at h
      rcases h with (h | h) | h
      · exact chsw_not_mem_liftAux _ h
      · simp at h
      · split at h <;> simp at h
    · cases copy <;> cases clearCd <;> simp only [Bool.false_eq_true, if_false, if_true]
      · exact h2
      · exact h2
      · intro _ k hk1 hk2 hk3
        rw [getD_take8_append _ _ _ h8 hk1]; exact (h1.same k hk1 hk2 hk3).2
      · intro _ k hk1 hk2 hk3
        rw [getD_take8_append _ _ _ h8 hk1]; exact (h1.same k hk1 hk2 hk3).2

theorem lopParityCheck_row0 (cv : Page) (rv : RawPage) :
    (lopParityCheck cv rv).1.raw.getD 0 zeroRow = cv.raw.getD 0 zeroRow := by
  rcases lopParityCheck_row cv rv 0 with h | ⟨h, _⟩
  · exact h
  · omega

/-- header bookkeeping of `terminatePage`: untouched, or what `store_lop` of the terminated text page leaves -/
theorem terminatePage_hdr (s : St) (mag0 pgno page : Nat) :
    ((terminatePage s mag0 pgno page).1.header = s.header ∧ (terminatePage s mag0 pgno page).1.hdrPgno = s.hdrPgno
      ∧ Event.chsw ∉ (terminatePage s mag0 pgno page).2)
    ∨ (∃ curr, terminatedSlot s mag0 pgno page = some curr ∧ (s.rp curr).page.function = FN_LOP
      ∧ (terminatePage s mag0 pgno page).1.header
          = (storeLop (s.setRp curr { (lopParityCheck (s.rp curr).page (s.rp curr)).2 with
              page := (lopParityCheck (s.rp curr).page (s.rp curr)).1 }) (lopParityCheck (s.rp curr).page (s.rp curr)).1).1.header
      ∧ (terminatePage s mag0 pgno page).1.hdrPgno
          = (storeLop (s.setRp curr { (lopParityCheck (s.rp curr).page (s.rp curr)).2 with
              page := (lopParityCheck (s.rp curr).page (s.rp curr)).1 }) (lopParityCheck (s.rp curr).page (s.rp curr)).1).1.hdrPgno
      ∧ (terminatePage s mag0 pgno page).2
          = (storeLop (s.setRp curr { (lopParityCheck (s.rp curr).page (s.rp curr)).2 with
              page := (lopParityCheck (s.rp curr).page (s.rp curr)).1 }) (lopParityCheck (s.rp curr).page (s.rp curr)).1).2) := by
  unfold terminatePage
  split
  · exact Or.inl ⟨rfl, rfl, fun h => (by cases h)⟩
  · rename_i curr hcurr
    simp only []
    by_cases h1 : ((s.rp curr).page.function == FN_DISCARD || (s.rp curr).page.function == FN_EPG) = true
    · rw [if_pos h1]; exact Or.inl ⟨rfl, rfl, fun h => (by cases h)⟩
    rw [if_neg h1]
    by_cases h2 : ((s.rp curr).page.function == FN_LOP) = true
    · rw [if_pos h2]
      right
      exact ⟨curr, hcurr, by simpa using h2, rfl, rfl, rfl⟩
    rw [if_neg h2]
    by_cases h3 : ((s.rp curr).page.function == FN_DRCS || (s.rp curr).page.function == FN_GDRCS) = true
    · rw [if_pos h3]
      refine Or.inl ⟨rfl, rfl, ?_⟩
      intro h
      rw [List.mem_append] at h
      rcases h with h | h
      · exact chsw_not_mem_liftAux _ h
      · simp [St.put] at h
    rw [if_neg h3]
    by_cases h4 : ((s.rp curr).page.function == FN_MIP) = true
    · rw [if_pos h4]
      refine Or.inl ⟨rfl, rfl, ?_⟩
      dsimp only
      generalize (parseMip s.net (s.rp curr).page).2 = l
      exact chsw_not_mem_liftAux l
    rw [if_neg h4]
    by_cases h5 : ((s.rp curr).page.function == FN_EACEM) = true
    · rw [if_pos h5]; exact Or.inl ⟨rfl, rfl, fun h => (by cases h)⟩
    rw [if_neg h5]
    exact Or.inl ⟨rfl, rfl, fun h => (by simp [St.put] at h)⟩

/-- if `p` is a page header whose page number decodes, its row is consistent with the network's header -/
def GoodHdr (tmpl : List Nat) (off : Nat) (p : Packet) : Prop :=
  ∀ pmag page, a16 p 0 = some pmag → pmag >>> 3 = 0 → a16 p 2 = some page →
    HdrOk tmpl off ((if (pmag &&& 7) == 0 then 8 else pmag &&& 7) * 256 + page) (payload p)

structure HInv (tmpl : List Nat) (off : Nat) (s : St) : Prop where
  shape : Shape s
  ref : s.hdrPgno ≠ 0 → RefOk tmpl off s.header
  slots : ∀ c, c < 8 → (s.rp c).page.function = FN_LOP →
    HdrOk tmpl off (s.rp c).page.pgno ((s.rp c).page.raw.getD 0 zeroRow)

theorem HInv.quiet {tmpl : List Nat} {off : Nat} {s s' : St} {m : Nat} (h : HInv tmpl off s) (q : Quiet s s' m) :
    HInv tmpl off s' := by
  refine ⟨h.shape.quiet q, by rw [q.hdr.1, q.hdr.2]; exact h.ref, ?_⟩
  intro c hc hf
  by_cases e : c = m
  · subst e
    obtain ⟨f, r⟩ := q.lop hf
    rw [q.pgno, r]; exact h.slots c hc f
  · rw [q.other c e] at hf ⊢; exact h.slots c hc hf

theorem HInv.desync {tmpl : List Nat} {off : Nat} {s : St} (h : HInv tmpl off s) : HInv tmpl off (desync s) := by
  refine ⟨h.shape.desync, h.ref, ?_⟩
  intro c hc hf
  rw [desync_fn s c (by rw [h.shape.len]; exact hc)] at hf
  exact absurd hf (by decide)

theorem HInv.tick {tmpl : List Nat} {off : Nat} {s : St} (h : HInv tmpl off s) : HInv tmpl off (tick s) :=
  ⟨tick_shape h.shape, h.ref, h.slots⟩

/-- page termination under `HInv`: no channel switch, invariant kept -/
theorem terminatePage_hinv (tmpl : List Nat) (off : Nat) (s : St) (mag0 pgno page : Nat) (hm : mag0 < 8) (h : HInv tmpl off s) :
    HInv tmpl off (terminatePage s mag0 pgno page).1 ∧ Event.chsw ∉ (terminatePage s mag0 pgno page).2 := by
  have hcl := terminatePage_closed s mag0 pgno page
  have hts : ∀ c, terminatedSlot s mag0 pgno page = some c → c < 8 :=
    fun c hc => terminatedSlot_lt s mag0 pgno page c hm h.shape.cur hc
  have hsh := h.shape.closed hts hcl
  have hslots : ∀ c, c < 8 → ((terminatePage s mag0 pgno page).1.rp c).page.function = FN_LOP →
      HdrOk tmpl off ((terminatePage s mag0 pgno page).1.rp c).page.pgno
        (((terminatePage s mag0 pgno page).1.rp c).page.raw.getD 0 zeroRow) := by
    intro c hc hf
    rcases hcl.slots c with e | ⟨e, _⟩
    · rw [e] at hf ⊢; exact h.slots c hc hf
    · rw [e] at hf; exact absurd hf (by decide)
  rcases terminatePage_hdr s mag0 pgno page with ⟨e1, e2, e3⟩ | ⟨curr, hcurr, hfn, e1, e2, e3⟩
  · exact ⟨⟨hsh, by rw [e1, e2]; exact h.ref, hslots⟩, e3⟩
  · have hc8 := hts curr hcurr
    have hok := h.slots curr hc8 hfn
    have hk := lopParityCheck_keys (s.rp curr).page (s.rp curr)
    have hr0 := lopParityCheck_row0 (s.rp curr).page (s.rp curr)
    have hS := storeLop_consistent (s.setRp curr { (lopParityCheck (s.rp curr).page (s.rp curr)).2 with
        page := (lopParityCheck (s.rp curr).page (s.rp curr)).1 }) (lopParityCheck (s.rp curr).page (s.rp curr)).1
      tmpl off h.shape.hlen (by rw [hk.1, hr0]; exact hok) h.ref
    exact ⟨⟨hsh, by rw [e1, e2]; exact hS.2, hslots⟩, by rw [e3]; exact hS.1⟩

theorem decode_hinv (tmpl : List Nat) (off : Nat) (s : St) (p : Packet) (h : HInv tmpl off s) (hg : GoodHdr tmpl off p) :
    HInv tmpl off (decodeTeletext s p).st ∧ Event.chsw ∉ (decodeTeletext s p).ev := by
  cases ha : a16 p 0 with
  | none =>
    have : decodeTeletext s p = ⟨s, [], false⟩ := by unfold decodeTeletext; rw [ha]
    rw [this]; exact ⟨h, fun h => (by cases h)⟩
  | some pmag =>
    by_cases h0 : pmag >>> 3 = 0
    · by_cases hm : s.mask = true
      · have hl : pmag &&& 7 < s.raw.length := by rw [h.shape.len]; exact and7_lt pmag
        obtain ⟨sh, _⟩ := decode_shape s p h.shape
        rcases decode_header_frame s p pmag ha h0 hm hl rfl with ⟨_, hd⟩ | ⟨page, hpage, hs, l, hev⟩
        · rw [hd]; exact ⟨h.desync, fun h => (by cases h)⟩
        · obtain ⟨ht, hnt⟩ := terminatePage_hinv tmpl off s (pmag &&& 7)
            ((if (pmag &&& 7) == 0 then 8 else pmag &&& 7) * 256 + page) page (and7_lt pmag) h
          have hgood := hg pmag page ha h0 hpage
          refine ⟨⟨sh, by rw [hs.hdr.1, hs.hdr.2]; exact ht.ref, ?_⟩, ?_⟩
          · intro c hc hf
            by_cases e : c = pmag &&& 7
            · subst e
              rcases hs.flags with ⟨hd, _⟩ | ⟨_, _, _, _, _, _, _, _, hlop⟩
              · rw [hd] at hf; exact absurd hf (by decide)
              · rw [hs.pgno]
                rcases hlop hf with ⟨q, hq, hr⟩ | hr
                · rw [hr]
                  have : 0 < q.raw.length := by rw [ht.shape.cache q hq]; decide
                  have : (q.raw.set 0 (payload p)).getD 0 zeroRow = payload p := by
                    simp [List.getD_eq_getElem?_getD, this]
                  rw [this]; exact hgood
                · rw [hr]; exact hgood
            · rw [hs.other c e] at hf ⊢; exact ht.slots c hc hf
          · rw [hev]
            intro hx
            rw [List.mem_append] at hx
            rcases hx with hx | hx
            · exact hnt hx
            · exact chsw_not_mem_liftAux _ hx
      · have hm' : s.mask = false := by simpa using hm
        have : decodeTeletext s p = ⟨s, [], true⟩ := by
          unfold decodeTeletext
          rw [ha]
          simp only []
          unfold process
          simp [h0, hm', finish]
        rw [this]; exact ⟨h, fun h => (by cases h)⟩
    · obtain ⟨hq, hsil⟩ := decode_quiet s p pmag ha h0
      rcases hq with hq | ⟨hd, _⟩
      · exact ⟨h.quiet hq, hsil.nochsw⟩
      · rw [hd]; exact ⟨h.desync, hsil.nochsw⟩

theorem step_hinv (tmpl : List Nat) (off : Nat) (s : St) (p : Packet) (h : HInv tmpl off s) (hg : GoodHdr tmpl off p) :
    HInv tmpl off (step s p).1 ∧ Event.chsw ∉ (step s p).2 := by
  rw [step_eq_of_shape s p h.shape]
  exact decode_hinv tmpl off (tick s) p h.tick hg

/-- over any history of packets with consistent headers -/
theorem run_hinv (tmpl : List Nat) (off : Nat) (ps : List Packet) : ∀ (s : St), HInv tmpl off s →
    (∀ p ∈ ps, GoodHdr tmpl off p) → HInv tmpl off (run s ps).1 ∧ Event.chsw ∉ (run s ps).2 := by
  induction ps with
  | nil => intro s h _; exact ⟨h, fun h => (by cases h)⟩
  | cons p ps ih =>
    intro s h hg
    rw [run_cons]
    obtain ⟨h1, n1⟩ := step_hinv tmpl off s p h (hg p List.mem_cons_self)
    obtain ⟨h2, n2⟩ := ih (step s p).1 h1 (fun q hq => hg q (List.mem_cons_of_mem _ hq))
    refine ⟨h2, ?_⟩
    intro hx
    rw [List.mem_append] at hx
    rcases hx with hx | hx
    · exact n1 hx
    · exact n2 hx

theorem init_hinv (tmpl : List Nat) (off : Nat) (on : Bool) : HInv tmpl off (init.enable on) := by
  refine ⟨init_shape on, ?_, ?_⟩
  · intro h; exfalso; apply h; cases on <;> rfl
  · intro c hc hf
    exfalso
    have : ∀ m < 8, slotFn (init.enable on) m = FN_DISCARD := by cases on <;> decide +kernel
    have := this c hc
    unfold slotFn at this
    rw [this] at hf
    exact absurd hf (by decide)

end Zvbi.Ttx
