import ZvbiModel.Ttx.Frame4
/-!
# C02 round 4, part 8: the array shapes are an invariant of `step` (reachability)

`Shape s`: eight assembly slots, `vt.current` names one of them, `lop_raw[26]` and `data.lop.raw[26]` of every
slot, every cached page has 26 rows, the reference header has its 8 unused leading bytes, and no
channel-switch countdown runs (`vbi_decode` starts one only on a dropped frame, which `step` does not model:
that is `gap`).  `step_shape` / `run_shape`: kept by every packet; `init_shape`: holds after `vbi_decoder_new`.
-/
namespace Zvbi.Ttx
open Zvbi.Hamm Zvbi.Gen Zvbi.Ttx.Spec

structure Shape (s : St) : Prop where
  len : s.raw.length = 8
  cur : ∀ c, s.current = some c → c < 8
  hlen : 8 ≤ s.header.length
  cd : s.chswcd = 0
  slots : ∀ c, c < 8 → (s.rp c).lopRaw.length = 26 ∧ (s.rp c).page.raw.length = 26
  cache : ∀ q ∈ s.net.cache, q.raw.length = 26

theorem Shape.quiet {s s' : St} {m : Nat} (h : Shape s) (q : Quiet s s' m) : Shape s' := by
  refine ⟨q.len.trans h.len, fun c hc => h.cur c (by rw [← q.cur]; exact hc), by rw [q.hdr.1]; exact h.hlen,
    by rw [q.cd]; exact h.cd, ?_, fun x hx => h.cache x (q.cache x hx)⟩
  intro c hc
  by_cases e : c = m
  · subst e; rw [q.lrlen, q.rawlen]; exact h.slots c hc
  · rw [q.other c e]; exact h.slots c hc

theorem Shape.slotId {s s' : St} (h : Shape s) (hs : ∀ c, SlotId (s.rp c) (s'.rp c)) :
    ∀ c, c < 8 → (s'.rp c).lopRaw.length = 26 ∧ (s'.rp c).page.raw.length = 26 := by
  intro c hc
  obtain ⟨_, _, _, a, b⟩ := hs c
  rw [a, b]; exact h.slots c hc

theorem Shape.desync {s : St} (h : Shape s) : Shape (desync s) :=
  ⟨(desync_length s).trans h.len, h.cur, h.hlen, h.cd, h.slotId (fun c => (slotKept_desync s c).id), h.cache⟩

theorem Shape.closed {s s' : St} {ev : List Event} {ts : Option Nat} (h : Shape s) (hts : ∀ c, ts = some c → c < 8)
    (c : Closed s s' ev ts) : Shape s' := by
  refine ⟨c.len.trans h.len, fun x hx => h.cur x (by rw [← c.cur]; exact hx), c.hlen h.hlen, c.cd h.cd,
    h.slotId (fun x => (c.slots x).id), ?_⟩
  intro q hq
  rcases c.cache q hq with h1 | ⟨x, hx, h1⟩
  · exact h.cache q h1
  · rw [h1]; exact (h.slots x (hts x hx)).2

theorem Shape.hdrStep {t s' : St} {mag0 pgno : Nat} {p : Packet} (h : Shape t) (hm : mag0 < 8)
    (c : HdrStep t s' mag0 pgno p) : Shape s' := by
  refine ⟨c.len.trans h.len, ?_, by rw [c.hdr.1]; exact h.hlen, by rw [c.cd]; exact h.cd, ?_,
    fun x hx => h.cache x (c.cache x hx)⟩
  · intro x hx
    rw [c.cur] at hx
    injection hx with hx
    rw [← hx]; exact hm
  · intro x hx
    by_cases e : x = mag0
    · subst e
      refine ⟨by rw [c.lr]; exact (h.slots x hx).1, ?_⟩
      rcases c.flags with ⟨_, _, hr⟩ | ⟨_, _, _, _, _, _, _, hr, _⟩
      · rw [hr]; exact (h.slots x hx).2
      · rcases hr with ⟨q, hq, hr⟩ | hr | hr
        · rw [hr]; exact h.cache q hq
        · exact hr
        · rw [hr]; exact (h.slots x hx).2
    · rw [c.other x e]; exact h.slots x hx

theorem tick_shape {s : St} (h : Shape s) : Shape (tick s) := ⟨h.len, h.cur, h.hlen, h.cd, h.slots, h.cache⟩

/-- `vbi_decode_teletext` keeps the shapes and the handler mask -/
theorem decode_shape (s : St) (p : Packet) (h : Shape s) :
    Shape (decodeTeletext s p).st ∧ (decodeTeletext s p).st.mask = s.mask := by
  cases ha : a16 p 0 with
  | none =>
    have : decodeTeletext s p = ⟨s, [], false⟩ := by unfold decodeTeletext; rw [ha]
    rw [this]; exact ⟨h, rfl⟩
  | some pmag =>
    by_cases h0 : pmag >>> 3 = 0
    · by_cases hm : s.mask = true
      · have hl : pmag &&& 7 < s.raw.length := by rw [h.len]; exact and7_lt pmag
        rcases decode_header_frame s p pmag ha h0 hm hl rfl with ⟨_, hd⟩ | ⟨page, _, hs, _⟩
        · rw [hd]; exact ⟨h.desync, rfl⟩
        · have hc := terminatePage_closed s (pmag &&& 7) ((if (pmag &&& 7) == 0 then 8 else pmag &&& 7) * 256 + page) page
          have hts : ∀ c, terminatedSlot s (pmag &&& 7) ((if (pmag &&& 7) == 0 then 8 else pmag &&& 7) * 256 + page) page = some c → c < 8 :=
            fun c hc' => terminatedSlot_lt s _ _ _ c (and7_lt pmag) h.cur hc'
          have h1 := h.closed hts hc
          exact ⟨h1.hdrStep (and7_lt pmag) hs, by rw [hs.mask, hc.mask]⟩
      · -- no handler: packets 0..29 are ignored
        have hm' : s.mask = false := by simpa using hm
        have : decodeTeletext s p = ⟨s, [], true⟩ := by
          unfold decodeTeletext
          rw [ha]
          simp only []
          unfold process
          simp [h0, hm', finish]
        rw [this]; exact ⟨h, rfl⟩
    · rcases (decode_quiet s p pmag ha h0).1 with hq | ⟨hd, _⟩
      · exact ⟨h.quiet hq, hq.mask⟩
      · rw [hd]; exact ⟨h.desync, rfl⟩

theorem step_eq_of_shape (s : St) (p : Packet) (h : Shape s) :
    step s p = ((decodeTeletext (tick s) p).st, (decodeTeletext (tick s) p).ev) := step_eq_decode s p h.cd

theorem step_shape (s : St) (p : Packet) (h : Shape s) : Shape (step s p).1 ∧ (step s p).1.mask = s.mask := by
  rw [step_eq_of_shape s p h]
  exact decode_shape (tick s) p (tick_shape h)

/-- **reachability**: every packet history keeps the shapes and the handler mask -/
theorem run_shape (ps : List Packet) : ∀ (s : St), Shape s → Shape (run s ps).1 ∧ (run s ps).1.mask = s.mask := by
  induction ps with
  | nil => intro s h; exact ⟨h, rfl⟩
  | cons p ps ih =>
    intro s h
    rw [run_cons]
    obtain ⟨h1, m1⟩ := step_shape s p h
    obtain ⟨h2, m2⟩ := ih (step s p).1 h1
    exact ⟨h2, m2.trans m1⟩

theorem init_shape (on : Bool) : Shape (init.enable on) := by
  refine ⟨by cases on <;> decide, ?_, by cases on <;> decide, by cases on <;> rfl, ?_, ?_⟩
  · intro c hc
    have : (init.enable on).current = none := by cases on <;> rfl
    rw [this] at hc; cases hc
  · have : ∀ c < 8, ((init.enable on).rp c).lopRaw.length = 26 ∧ ((init.enable on).rp c).page.raw.length = 26 := by
      cases on <;> decide +kernel
    exact this
  · have : (init.enable on).net.cache = [] := by cases on <;> rfl
    rw [this]; intro q hq; cases hq

end Zvbi.Ttx
