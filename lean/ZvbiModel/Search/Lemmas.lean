import ZvbiModel.Search.Model
/-!
# Lemmas about the page walk `_vbi_cache_foreach_page` (C17)

Part 1: the inner `while` loop (`skip`) always ends within `skipFuel` and lands on the next page number
whose statistics window is non-empty; the outer loop ends within `walkFuel` for EVERY cache content.
-/
namespace Zvbi.Search

def PgOk (p : Int) : Prop := 0x100 ≤ p ∧ p ≤ 0x8FF

/-- the statistics of page `q` admit some sub-page number -/
def Active (c : Cache) (q : Int) : Prop :=
  (c.stat q).nSub ≠ 0 ∧ (c.stat q).subMin.toNat ≤ (c.stat q).subMax.toNat

theorem inRange_iff (st : Stat) (s : Int) :
    inRange st s = true ↔ st.nSub ≠ 0 ∧ (st.subMin.toNat : Int) ≤ s ∧ s ≤ (st.subMax.toNat : Int) := by
  simp [inRange, and_assoc]

theorem inRange_bounds {st : Stat} {s : Int} (h : inRange st s = true) : 0 ≤ s ∧ s ≤ 0xFFFF := by
  rw [inRange_iff] at h
  have := st.subMax.toNat_lt
  omega

theorem active_of_inRange {c : Cache} {q t : Int} (h : inRange (c.stat q) t = true) : Active c q := by
  unfold Active
  rw [inRange_iff] at h
  exact ⟨h.1, by omega⟩

theorem active_iff_min {c : Cache} {q : Int} : Active c q ↔ inRange (c.stat q) (c.stat q).subMin.toNat = true := by
  unfold Active
  rw [inRange_iff]
  constructor
  · intro h; exact ⟨h.1, by omega, by omega⟩
  · intro h; exact ⟨h.1, by omega⟩

theorem active_iff_max {c : Cache} {q : Int} : Active c q ↔ inRange (c.stat q) (c.stat q).subMax.toNat = true := by
  unfold Active
  rw [inRange_iff]
  constructor
  · intro h; exact ⟨h.1, by omega, by omega⟩
  · intro h; exact ⟨h.1, by omega⟩

/-- a position the inner loop hands to the look-up: inside the statistics window, or (since ed2772e) the first
    sub-page number of the window in walking direction.  With `subno_min <= subno_max` both are inside the window. -/
def Landed (st : Stat) (s : Int) : Prop :=
  st.nSub ≠ 0 ∧ (inRange st s = true ∨ s = (st.subMin.toNat : Int) ∨ s = (st.subMax.toNat : Int))

theorem landed_bounds {st : Stat} {s : Int} (h : Landed st s) : 0 ≤ s ∧ s ≤ 0xFFFF := by
  obtain ⟨_, h | h | h⟩ := h
  · exact inRange_bounds h
  · have := st.subMin.toNat_lt; omega
  · have := st.subMax.toNat_lt; omega

theorem landed_of_inRange {st : Stat} {s : Int} (h : inRange st s = true) : Landed st s :=
  ⟨((inRange_iff _ _).mp h).1, Or.inl h⟩

theorem landed_inRange {st : Stat} {s : Int} (hmm : st.subMin.toNat ≤ st.subMax.toNat) (h : Landed st s) :
    inRange st s = true := by
  obtain ⟨h0, h | h | h⟩ := h
  · exact h
  · rw [inRange_iff]; exact ⟨h0, by omega, by omega⟩
  · rw [inRange_iff]; exact ⟨h0, by omega, by omega⟩

/-- the forward inner loop moves on to the next page number: nothing cached under this number, or the position
    is behind the window (a position before the window is clamped to `subno_min` instead) -/
def LeaveF (c : Cache) (p s : Int) : Prop :=
  (c.stat p).nSub = 0 ∨ (((c.stat p).subMin.toNat : Int) ≤ s ∧ ((c.stat p).subMax.toNat : Int) < s)

/-- mirror image for the backward loop -/
def LeaveB (c : Cache) (p s : Int) : Prop :=
  (c.stat p).nSub = 0 ∨ (s ≤ ((c.stat p).subMax.toNat : Int) ∧ s < ((c.stat p).subMin.toNat : Int))

theorem leaveF_min_not_active {c : Cache} {q : Int} (h : LeaveF c q (c.stat q).subMin.toNat) : ¬ Active c q := by
  unfold Active; rcases h with h | h
  · intro ha; exact ha.1 h
  · intro ha; omega

theorem leaveB_max_not_active {c : Cache} {q : Int} (h : LeaveB c q (c.stat q).subMax.toNat) : ¬ Active c q := by
  unfold Active; rcases h with h | h
  · intro ha; exact ha.1 h
  · intro ha; omega

theorem leaveF_not_inRange {c : Cache} {p s : Int} (h : LeaveF c p s) : inRange (c.stat p) s = false := by
  cases hin : inRange (c.stat p) s with
  | false => rfl
  | true => rw [inRange_iff] at hin; rcases h with h | h
            · exact absurd h hin.1
            · omega

theorem leaveB_not_inRange {c : Cache} {p s : Int} (h : LeaveB c p s) : inRange (c.stat p) s = false := by
  cases hin : inRange (c.stat p) s with
  | false => rfl
  | true => rw [inRange_iff] at hin; rcases h with h | h
            · exact absurd h hin.1
            · omega

/-! ## forward direction -/

/-- what the inner loop returns, forward -/
def SkipSpecF (c : Cache) (p s : Int) (w : Bool) : Option (Int × Int × Bool) → Prop
  | none =>
      LeaveF c p s ∧ (∀ q, p < q → q ≤ 0x8FF → ¬ Active c q) ∧
      (w = false → ∀ q, 0x100 ≤ q → q ≤ 0x8FF → ¬ Active c q)
  | some (p', s', w') =>
      PgOk p' ∧ Landed (c.stat p') s' ∧
      ((w' = w ∧ p' = p ∧ s' = s ∧ inRange (c.stat p) s = true) ∨
       (w' = w ∧ p' = p ∧ (c.stat p).nSub ≠ 0 ∧ s < ((c.stat p).subMin.toNat : Int) ∧
          s' = ((c.stat p).subMin.toNat : Int)) ∨
       (LeaveF c p s ∧ w' = w ∧ p < p' ∧ s' = (c.stat p').subMin.toNat ∧ inRange (c.stat p') s' = true ∧
          ∀ q, p < q → q < p' → ¬ Active c q) ∨
       (LeaveF c p s ∧ w = false ∧ w' = true ∧ s' = (c.stat p').subMin.toNat ∧ inRange (c.stat p') s' = true ∧
          (∀ q, p < q → q ≤ 0x8FF → ¬ Active c q) ∧ ∀ q, 0x100 ≤ q → q < p' → ¬ Active c q))

def skipMeasF (p : Int) (w : Bool) : Nat := (if w then 0 else 0x800) + (0x8FF - p).toNat

/-- one unfolding of `skip`, forward, when the position is neither inside the window nor clamped -/
theorem skip_fwd_step (c : Cache) (n : Nat) (p s : Int) (w : Bool) :
    skip c 1 (n + 1) p s w =
      if inRange (c.stat p) s then some (some (p, s, w))
      else if (c.stat p).nSub ≠ 0 ∧ s < ((c.stat p).subMin.toNat : Int) then
        some (some (p, ((c.stat p).subMin.toNat : Int), w))
      else if p + 1 > 0x8FF then
        (if w then some none else skip c 1 n 0x100 (c.stat 0x100).subMin.toNat true)
      else skip c 1 n (p + 1) (c.stat (p + 1)).subMin.toNat w := by
  rw [skip]
  simp only [show ((1 : Int) > 0) by decide, show ¬ ((1 : Int) < 0) by decide, true_and, false_and, and_false,
    if_false]

theorem skip_fwd_spec (c : Cache) : ∀ (n : Nat) (p s : Int) (w : Bool), PgOk p → skipMeasF p w < n →
    ∃ r, skip c 1 n p s w = some r ∧ SkipSpecF c p s w r := by
  intro n
  induction n with
  | zero => intro p s w _ h; omega
  | succ n ih =>
    intro p s w hp hm
    rw [skip_fwd_step]
    by_cases hin : inRange (c.stat p) s = true
    · simp only [hin, if_true]
      exact ⟨_, rfl, hp, landed_of_inRange hin, Or.inl ⟨rfl, rfl, rfl, hin⟩⟩
    · have hin' : inRange (c.stat p) s = false := by simpa using hin
      simp only [hin', Bool.false_eq_true, if_false]
      by_cases hcl : (c.stat p).nSub ≠ 0 ∧ s < ((c.stat p).subMin.toNat : Int)
      · rw [if_pos hcl]
        exact ⟨_, rfl, hp, ⟨hcl.1, Or.inr (Or.inl rfl)⟩, Or.inr (Or.inl ⟨rfl, rfl, hcl.1, hcl.2, rfl⟩)⟩
      · rw [if_neg hcl]
        have hlv : LeaveF c p s := by
          unfold LeaveF
          by_cases h0 : (c.stat p).nSub = 0
          · left; exact h0
          · right
            have h1 : ¬ (s < ((c.stat p).subMin.toNat : Int)) := fun h => hcl ⟨h0, h⟩
            have h2 : ¬ (((c.stat p).subMin.toNat : Int) ≤ s ∧ s ≤ ((c.stat p).subMax.toNat : Int)) := by
              intro h; rw [(inRange_iff _ _).mpr ⟨h0, h.1, h.2⟩] at hin'; cases hin'
            omega
        unfold PgOk at hp
        by_cases hlast : p + 1 > 0x8FF
        · simp only [hlast, if_true]
          have hp8 : p = 0x8FF := by omega
          cases w with
          | true =>
            simp only [if_true]
            refine ⟨none, rfl, hlv, ?_, ?_⟩
            · intro q h1 h2; omega
            · intro h; cases h
          | false =>
            simp only [Bool.false_eq_true, if_false]
            have hm' : skipMeasF 0x100 true < n := by unfold skipMeasF at *; simp at *; omega
            obtain ⟨r, hr, hs⟩ := ih 0x100 ((c.stat 0x100).subMin.toNat) true ⟨by decide, by decide⟩ hm'
            refine ⟨r, hr, ?_⟩
            cases r with
            | none =>
              obtain ⟨h0, h1, _⟩ := hs
              refine ⟨hlv, ?_, ?_⟩
              · intro q h1 h2; omega
              · intro _ q hq1 hq2
                by_cases hq : q = 0x100
                · subst hq; exact leaveF_min_not_active h0
                · exact h1 q (by omega) hq2
            | some t =>
              obtain ⟨p', s', w'⟩ := t
              obtain ⟨hp', hld, hd⟩ := hs
              refine ⟨hp', hld, Or.inr (Or.inr (Or.inr ?_))⟩
              rcases hd with ⟨hw, hpp, hss, hir⟩ | ⟨_, _, _, hlt, _⟩ | ⟨h0, hw, hlt, hss, hir, hno⟩ | ⟨_, hw, _⟩
              · refine ⟨hlv, rfl, hw, by rw [hpp]; exact hss, by rw [hpp, hss]; exact hir, ?_, ?_⟩
                · intro q h1 h2; omega
                · intro q h1 h2; omega
              · omega
              · refine ⟨hlv, rfl, hw, hss, hir, ?_, ?_⟩
                · intro q h1 h2; omega
                · intro q hq1 hq2
                  by_cases hq : q = 0x100
                  · subst hq; exact leaveF_min_not_active h0
                  · exact hno q (by omega) hq2
              · cases hw
        · simp only [hlast, if_false]
          have hm' : skipMeasF (p + 1) w < n := by unfold skipMeasF at *; omega
          obtain ⟨r, hr, hs⟩ := ih (p + 1) ((c.stat (p + 1)).subMin.toNat) w ⟨by omega, by omega⟩ hm'
          refine ⟨r, hr, ?_⟩
          cases r with
          | none =>
            obtain ⟨h0, h1, h2⟩ := hs
            refine ⟨hlv, ?_, h2⟩
            intro q hq1 hq2
            by_cases hq : q = p + 1
            · subst hq; exact leaveF_min_not_active h0
            · exact h1 q (by omega) hq2
          | some t =>
            obtain ⟨p', s', w'⟩ := t
            obtain ⟨hp', hld, hd⟩ := hs
            refine ⟨hp', hld, ?_⟩
            rcases hd with ⟨hw, hpp, hss, hir⟩ | ⟨_, _, _, hlt, _⟩ | ⟨h0, hw, hlt, hss, hir, hno⟩ |
                ⟨h0, hw, hw', hss, hir, hno1, hno2⟩
            · refine Or.inr (Or.inr (Or.inl ⟨hlv, hw, by omega, by rw [hpp]; exact hss, by rw [hpp, hss]; exact hir, ?_⟩))
              intro q h1 h2; omega
            · omega
            · refine Or.inr (Or.inr (Or.inl ⟨hlv, hw, by omega, hss, hir, ?_⟩))
              intro q hq1 hq2
              by_cases hq : q = p + 1
              · subst hq; exact leaveF_min_not_active h0
              · exact hno q (by omega) hq2
            · refine Or.inr (Or.inr (Or.inr ⟨hlv, hw, hw', hss, hir, ?_, hno2⟩))
              intro q hq1 hq2
              by_cases hq : q = p + 1
              · subst hq; exact leaveF_min_not_active h0
              · exact hno1 q (by omega) hq2

theorem skipMeasF_lt {p : Int} (hp : PgOk p) (w : Bool) : skipMeasF p w < skipFuel := by
  unfold skipMeasF skipFuel PgOk at *
  cases w <;> simp <;> omega

/-! ## backward direction -/

/-- what the inner loop returns, backward -/
def SkipSpecB (c : Cache) (p s : Int) (w : Bool) : Option (Int × Int × Bool) → Prop
  | none =>
      LeaveB c p s ∧ (∀ q, 0x100 ≤ q → q < p → ¬ Active c q) ∧
      (w = false → ∀ q, 0x100 ≤ q → q ≤ 0x8FF → ¬ Active c q)
  | some (p', s', w') =>
      PgOk p' ∧ Landed (c.stat p') s' ∧
      ((w' = w ∧ p' = p ∧ s' = s ∧ inRange (c.stat p) s = true) ∨
       (w' = w ∧ p' = p ∧ (c.stat p).nSub ≠ 0 ∧ s > ((c.stat p).subMax.toNat : Int) ∧
          s' = ((c.stat p).subMax.toNat : Int)) ∨
       (LeaveB c p s ∧ w' = w ∧ p' < p ∧ s' = (c.stat p').subMax.toNat ∧ inRange (c.stat p') s' = true ∧
          ∀ q, p' < q → q < p → ¬ Active c q) ∨
       (LeaveB c p s ∧ w = false ∧ w' = true ∧ s' = (c.stat p').subMax.toNat ∧ inRange (c.stat p') s' = true ∧
          (∀ q, 0x100 ≤ q → q < p → ¬ Active c q) ∧ ∀ q, p' < q → q ≤ 0x8FF → ¬ Active c q))

def skipMeasB (p : Int) (w : Bool) : Nat := (if w then 0 else 0x800) + (p - 0x100).toNat

/-- one unfolding of `skip`, backward -/
theorem skip_bwd_step (c : Cache) (n : Nat) (p s : Int) (w : Bool) :
    skip c (-1) (n + 1) p s w =
      if inRange (c.stat p) s then some (some (p, s, w))
      else if (c.stat p).nSub ≠ 0 ∧ s > ((c.stat p).subMax.toNat : Int) then
        some (some (p, ((c.stat p).subMax.toNat : Int), w))
      else if p - 1 < 0x100 then
        (if w then some none else skip c (-1) n 0x8FF (c.stat 0x8FF).subMax.toNat true)
      else skip c (-1) n (p - 1) (c.stat (p - 1)).subMax.toNat w := by
  rw [skip]
  simp only [show ¬ ((-1 : Int) > 0) by decide, show ((-1 : Int) < 0) by decide, true_and, false_and, and_false,
    if_false, if_true]

theorem skip_bwd_spec (c : Cache) : ∀ (n : Nat) (p s : Int) (w : Bool), PgOk p → skipMeasB p w < n →
    ∃ r, skip c (-1) n p s w = some r ∧ SkipSpecB c p s w r := by
  intro n
  induction n with
  | zero => intro p s w _ h; omega
  | succ n ih =>
    intro p s w hp hm
    rw [skip_bwd_step]
    by_cases hin : inRange (c.stat p) s = true
    · simp only [hin, if_true]
      exact ⟨_, rfl, hp, landed_of_inRange hin, Or.inl ⟨rfl, rfl, rfl, hin⟩⟩
    · have hin' : inRange (c.stat p) s = false := by simpa using hin
      simp only [hin', Bool.false_eq_true, if_false]
      by_cases hcl : (c.stat p).nSub ≠ 0 ∧ s > ((c.stat p).subMax.toNat : Int)
      · rw [if_pos hcl]
        exact ⟨_, rfl, hp, ⟨hcl.1, Or.inr (Or.inr rfl)⟩, Or.inr (Or.inl ⟨rfl, rfl, hcl.1, hcl.2, rfl⟩)⟩
      · rw [if_neg hcl]
        have hlv : LeaveB c p s := by
          unfold LeaveB
          by_cases h0 : (c.stat p).nSub = 0
          · left; exact h0
          · right
            have h1 : ¬ (s > ((c.stat p).subMax.toNat : Int)) := fun h => hcl ⟨h0, h⟩
            have h2 : ¬ (((c.stat p).subMin.toNat : Int) ≤ s ∧ s ≤ ((c.stat p).subMax.toNat : Int)) := by
              intro h; rw [(inRange_iff _ _).mpr ⟨h0, h.1, h.2⟩] at hin'; cases hin'
            omega
        unfold PgOk at hp
        by_cases hlast : p - 1 < 0x100
        · simp only [hlast, if_true]
          have hp8 : p = 0x100 := by omega
          cases w with
          | true =>
            simp only [if_true]
            refine ⟨none, rfl, hlv, ?_, ?_⟩
            · intro q h1 h2; omega
            · intro h; cases h
          | false =>
            simp only [Bool.false_eq_true, if_false]
            have hm' : skipMeasB 0x8FF true < n := by unfold skipMeasB at *; simp at *; omega
            obtain ⟨r, hr, hs⟩ := ih 0x8FF ((c.stat 0x8FF).subMax.toNat) true ⟨by decide, by decide⟩ hm'
            refine ⟨r, hr, ?_⟩
            cases r with
            | none =>
              obtain ⟨h0, h1, _⟩ := hs
              refine ⟨hlv, ?_, ?_⟩
              · intro q h1 h2; omega
              · intro _ q hq1 hq2
                by_cases hq : q = 0x8FF
                · subst hq; exact leaveB_max_not_active h0
                · exact h1 q hq1 (by omega)
            | some t =>
              obtain ⟨p', s', w'⟩ := t
              obtain ⟨hp', hld, hd⟩ := hs
              refine ⟨hp', hld, Or.inr (Or.inr (Or.inr ?_))⟩
              rcases hd with ⟨hw, hpp, hss, hir⟩ | ⟨_, _, _, hlt, _⟩ | ⟨h0, hw, hlt, hss, hir, hno⟩ | ⟨_, hw, _⟩
              · refine ⟨hlv, rfl, hw, by rw [hpp]; exact hss, by rw [hpp, hss]; exact hir, ?_, ?_⟩
                · intro q h1 h2; omega
                · intro q h1 h2; omega
              · omega
              · refine ⟨hlv, rfl, hw, hss, hir, ?_, ?_⟩
                · intro q h1 h2; omega
                · intro q hq1 hq2
                  by_cases hq : q = 0x8FF
                  · subst hq; exact leaveB_max_not_active h0
                  · exact hno q hq1 (by omega)
              · cases hw
        · simp only [hlast, if_false]
          have hm' : skipMeasB (p - 1) w < n := by unfold skipMeasB at *; omega
          obtain ⟨r, hr, hs⟩ := ih (p - 1) ((c.stat (p - 1)).subMax.toNat) w ⟨by omega, by omega⟩ hm'
          refine ⟨r, hr, ?_⟩
          cases r with
          | none =>
            obtain ⟨h0, h1, h2⟩ := hs
            refine ⟨hlv, ?_, h2⟩
            intro q hq1 hq2
            by_cases hq : q = p - 1
            · subst hq; exact leaveB_max_not_active h0
            · exact h1 q hq1 (by omega)
          | some t =>
            obtain ⟨p', s', w'⟩ := t
            obtain ⟨hp', hld, hd⟩ := hs
            refine ⟨hp', hld, ?_⟩
            rcases hd with ⟨hw, hpp, hss, hir⟩ | ⟨_, _, _, hlt, _⟩ | ⟨h0, hw, hlt, hss, hir, hno⟩ |
                ⟨h0, hw, hw', hss, hir, hno1, hno2⟩
            · refine Or.inr (Or.inr (Or.inl ⟨hlv, hw, by omega, by rw [hpp]; exact hss, by rw [hpp, hss]; exact hir, ?_⟩))
              intro q h1 h2; omega
            · omega
            · refine Or.inr (Or.inr (Or.inl ⟨hlv, hw, by omega, hss, hir, ?_⟩))
              intro q hq1 hq2
              by_cases hq : q = p - 1
              · subst hq; exact leaveB_max_not_active h0
              · exact hno q hq1 (by omega)
            · refine Or.inr (Or.inr (Or.inr ⟨hlv, hw, hw', hss, hir, ?_, hno2⟩))
              intro q hq1 hq2
              by_cases hq : q = p - 1
              · subst hq; exact leaveB_max_not_active h0
              · exact hno1 q hq1 (by omega)

theorem skipMeasB_lt {p : Int} (hp : PgOk p) (w : Bool) : skipMeasB p w < skipFuel := by
  unfold skipMeasB skipFuel PgOk at *
  cases w <;> simp <;> omega

end Zvbi.Search
