import ZvbiModel.Search.Model
/-!
# Lemmas about the page walk `_vbi_cache_foreach_page` (C17)

Part 1: the inner `while` loop (`skip`) always ends within `skipFuel` and lands on the next page number
whose statistics window is non-empty; the outer loop ends within `walkFuel` for EVERY cache content.
-/
namespace Zvbi.Search

def PgOk (p : Int) : Prop := 0x100 ≤ p ∧ p ≤ 0x8FF

/-- the statistics of page `q` admit some sub-page number -/
def Active (c : Cache) (q : Int) : Prop :=
  (c.stat q).nSub ≠ 0 ∧ (c.stat q).subMin.toNat ≤ (c.stat q).subMax.toNat

theorem inRange_iff (st : Stat) (s : Int) :
    inRange st s = true ↔ st.nSub ≠ 0 ∧ (st.subMin.toNat : Int) ≤ s ∧ s ≤ (st.subMax.toNat : Int) := by
  simp [inRange, and_assoc]

theorem inRange_bounds {st : Stat} {s : Int} (h : inRange st s = true) : 0 ≤ s ∧ s ≤ 0xFFFF := by
  rw [inRange_iff] at h
  have := st.subMax.toNat_lt
  omega

theorem active_of_inRange {c : Cache} {q t : Int} (h : inRange (c.stat q) t = true) : Active c q := by
  unfold Active
  rw [inRange_iff] at h
  exact ⟨h.1, by omega⟩

theorem active_iff_min {c : Cache} {q : Int} : Active c q ↔ inRange (c.stat q) (c.stat q).subMin.toNat = true := by
  unfold Active
  rw [inRange_iff]
  constructor
  · intro h; exact ⟨h.1, by omega, by omega⟩
  · intro h; exact ⟨h.1, by omega⟩

theorem active_iff_max {c : Cache} {q : Int} : Active c q ↔ inRange (c.stat q) (c.stat q).subMax.toNat = true := by
  unfold Active
  rw [inRange_iff]
  constructor
  · intro h; exact ⟨h.1, by omega, by omega⟩
  · intro h; exact ⟨h.1, by omega⟩

/-! ## forward direction -/

/-- what the inner loop returns, forward -/
def SkipSpecF (c : Cache) (p s : Int) (w : Bool) : Option (Int × Int × Bool) → Prop
  | none =>
      inRange (c.stat p) s = false ∧ (∀ q, p < q → q ≤ 0x8FF → ¬ Active c q) ∧
      (w = false → ∀ q, 0x100 ≤ q → q ≤ 0x8FF → ¬ Active c q)
  | some (p', s', w') =>
      PgOk p' ∧ inRange (c.stat p') s' = true ∧
      ((w' = w ∧ p' = p ∧ s' = s) ∨
       (inRange (c.stat p) s = false ∧ w' = w ∧ p < p' ∧ s' = (c.stat p').subMin.toNat ∧
          ∀ q, p < q → q < p' → ¬ Active c q) ∨
       (inRange (c.stat p) s = false ∧ w = false ∧ w' = true ∧ s' = (c.stat p').subMin.toNat ∧
          (∀ q, p < q → q ≤ 0x8FF → ¬ Active c q) ∧ ∀ q, 0x100 ≤ q → q < p' → ¬ Active c q))

def skipMeasF (p : Int) (w : Bool) : Nat := (if w then 0 else 0x800) + (0x8FF - p).toNat

theorem skip_fwd_spec (c : Cache) : ∀ (n : Nat) (p s : Int) (w : Bool), PgOk p → skipMeasF p w < n →
    ∃ r, skip c 1 n p s w = some r ∧ SkipSpecF c p s w r := by
  intro n
  induction n with
  | zero => intro p s w _ h; omega
  | succ n ih =>
    intro p s w hp hm
    unfold skip
    by_cases hin : inRange (c.stat p) s = true
    · simp only [hin, if_true]
      exact ⟨_, rfl, hp, hin, Or.inl ⟨rfl, rfl, rfl⟩⟩
    · have hin' : inRange (c.stat p) s = false := by simpa using hin
      simp only [hin', show ¬ ((1 : Int) < 0) by decide, if_false, Bool.false_eq_true]
      unfold PgOk at hp
      by_cases hlast : p + 1 > 0x8FF
      · simp only [hlast, if_true]
        have hp8 : p = 0x8FF := by omega
        cases w with
        | true =>
          simp only [if_true]
          refine ⟨none, rfl, hin', ?_, ?_⟩
          · intro q h1 h2; omega
          · intro h; cases h
        | false =>
          simp only [Bool.false_eq_true, if_false]
          have hm' : skipMeasF 0x100 true < n := by unfold skipMeasF at *; simp at *; omega
          obtain ⟨r, hr, hs⟩ := ih 0x100 ((c.stat 0x100).subMin.toNat) true ⟨by decide, by decide⟩ hm'
          refine ⟨r, hr, ?_⟩
          cases r with
          | none =>
            obtain ⟨h0, h1, _⟩ := hs
            refine ⟨hin', ?_, ?_⟩
            · intro q h1 h2; omega
            · intro _ q hq1 hq2
              by_cases hq : q = 0x100
              · subst hq; rw [active_iff_min]; simp [h0]
              · exact h1 q (by omega) hq2
          | some t =>
            obtain ⟨p', s', w'⟩ := t
            obtain ⟨hp', hin2, hd⟩ := hs
            refine ⟨hp', hin2, Or.inr (Or.inr ?_)⟩
            rcases hd with ⟨hw, hpp, hss⟩ | ⟨h0, hw, hlt, hss, hno⟩ | ⟨_, hw, _⟩
            · refine ⟨hin', rfl, hw, by rw [hpp]; exact hss, ?_, ?_⟩
              · intro q h1 h2; omega
              · intro q h1 h2; omega
            · refine ⟨hin', rfl, hw, hss, ?_, ?_⟩
              · intro q h1 h2; omega
              · intro q hq1 hq2
                by_cases hq : q = 0x100
                · subst hq; rw [active_iff_min]; simp [h0]
                · exact hno q (by omega) hq2
            · cases hw
      · simp only [hlast, if_false]
        have hm' : skipMeasF (p + 1) w < n := by unfold skipMeasF at *; omega
        obtain ⟨r, hr, hs⟩ := ih (p + 1) ((c.stat (p + 1)).subMin.toNat) w ⟨by omega, by omega⟩ hm'
        refine ⟨r, hr, ?_⟩
        cases r with
        | none =>
          obtain ⟨h0, h1, h2⟩ := hs
          refine ⟨hin', ?_, h2⟩
          intro q hq1 hq2
          by_cases hq : q = p + 1
          · subst hq; rw [active_iff_min]; simp [h0]
          · exact h1 q (by omega) hq2
        | some t =>
          obtain ⟨p', s', w'⟩ := t
          obtain ⟨hp', hin2, hd⟩ := hs
          refine ⟨hp', hin2, ?_⟩
          rcases hd with ⟨hw, hpp, hss⟩ | ⟨h0, hw, hlt, hss, hno⟩ | ⟨h0, hw, hw', hss, hno1, hno2⟩
          · refine Or.inr (Or.inl ⟨hin', hw, by omega, by rw [hpp]; exact hss, ?_⟩)
            intro q h1 h2; omega
          · refine Or.inr (Or.inl ⟨hin', hw, by omega, hss, ?_⟩)
            intro q hq1 hq2
            by_cases hq : q = p + 1
            · subst hq; rw [active_iff_min]; simp [h0]
            · exact hno q (by omega) hq2
          · refine Or.inr (Or.inr ⟨hin', hw, hw', hss, ?_, hno2⟩)
            intro q hq1 hq2
            by_cases hq : q = p + 1
            · subst hq; rw [active_iff_min]; simp [h0]
            · exact hno1 q (by omega) hq2

theorem skipMeasF_lt {p : Int} (hp : PgOk p) (w : Bool) : skipMeasF p w < skipFuel := by
  unfold skipMeasF skipFuel PgOk at *
  cases w <;> simp <;> omega

/-! ## backward direction -/

/-- what the inner loop returns, backward -/
def SkipSpecB (c : Cache) (p s : Int) (w : Bool) : Option (Int × Int × Bool) → Prop
  | none =>
      inRange (c.stat p) s = false ∧ (∀ q, 0x100 ≤ q → q < p → ¬ Active c q) ∧
      (w = false → ∀ q, 0x100 ≤ q → q ≤ 0x8FF → ¬ Active c q)
  | some (p', s', w') =>
      PgOk p' ∧ inRange (c.stat p') s' = true ∧
      ((w' = w ∧ p' = p ∧ s' = s) ∨
       (inRange (c.stat p) s = false ∧ w' = w ∧ p' < p ∧ s' = (c.stat p').subMax.toNat ∧
          ∀ q, p' < q → q < p → ¬ Active c q) ∨
       (inRange (c.stat p) s = false ∧ w = false ∧ w' = true ∧ s' = (c.stat p').subMax.toNat ∧
          (∀ q, 0x100 ≤ q → q < p → ¬ Active c q) ∧ ∀ q, p' < q → q ≤ 0x8FF → ¬ Active c q))

def skipMeasB (p : Int) (w : Bool) : Nat := (if w then 0 else 0x800) + (p - 0x100).toNat

theorem skip_bwd_spec (c : Cache) : ∀ (n : Nat) (p s : Int) (w : Bool), PgOk p → skipMeasB p w < n →
    ∃ r, skip c (-1) n p s w = some r ∧ SkipSpecB c p s w r := by
  intro n
  induction n with
  | zero => intro p s w _ h; omega
  | succ n ih =>
    intro p s w hp hm
    unfold skip
    by_cases hin : inRange (c.stat p) s = true
    · simp only [hin, if_true]
      exact ⟨_, rfl, hp, hin, Or.inl ⟨rfl, rfl, rfl⟩⟩
    · have hin' : inRange (c.stat p) s = false := by simpa using hin
      simp only [hin', show ((-1 : Int) < 0) by decide, if_true, Bool.false_eq_true, if_false]
      unfold PgOk at hp
      by_cases hlast : p - 1 < 0x100
      · simp only [hlast, if_true]
        have hp8 : p = 0x100 := by omega
        cases w with
        | true =>
          simp only [if_true]
          refine ⟨none, rfl, hin', ?_, ?_⟩
          · intro q h1 h2; omega
          · intro h; cases h
        | false =>
          simp only [Bool.false_eq_true, if_false]
          have hm' : skipMeasB 0x8FF true < n := by unfold skipMeasB at *; simp at *; omega
          obtain ⟨r, hr, hs⟩ := ih 0x8FF ((c.stat 0x8FF).subMax.toNat) true ⟨by decide, by decide⟩ hm'
          refine ⟨r, hr, ?_⟩
          cases r with
          | none =>
            obtain ⟨h0, h1, _⟩ := hs
            refine ⟨hin', ?_, ?_⟩
            · intro q h1 h2; omega
            · intro _ q hq1 hq2
              by_cases hq : q = 0x8FF
              · subst hq; rw [active_iff_max]; simp [h0]
              · exact h1 q (by omega) (by omega)
          | some t =>
            obtain ⟨p', s', w'⟩ := t
            obtain ⟨hp', hin2, hd⟩ := hs
            refine ⟨hp', hin2, Or.inr (Or.inr ?_)⟩
            rcases hd with ⟨hw, hpp, hss⟩ | ⟨h0, hw, hlt, hss, hno⟩ | ⟨_, hw, _⟩
            · refine ⟨hin', rfl, hw, by rw [hpp]; exact hss, ?_, ?_⟩
              · intro q h1 h2; omega
              · intro q h1 h2; omega
            · refine ⟨hin', rfl, hw, hss, ?_, ?_⟩
              · intro q h1 h2; omega
              · intro q hq1 hq2
                by_cases hq : q = 0x8FF
                · subst hq; rw [active_iff_max]; simp [h0]
                · exact hno q (by omega) (by omega)
            · cases hw
      · simp only [hlast, if_false]
        have hm' : skipMeasB (p - 1) w < n := by unfold skipMeasB at *; omega
        obtain ⟨r, hr, hs⟩ := ih (p - 1) ((c.stat (p - 1)).subMax.toNat) w ⟨by omega, by omega⟩ hm'
        refine ⟨r, hr, ?_⟩
        cases r with
        | none =>
          obtain ⟨h0, h1, h2⟩ := hs
          refine ⟨hin', ?_, h2⟩
          intro q hq1 hq2
          by_cases hq : q = p - 1
          · subst hq; rw [active_iff_max]; simp [h0]
          · exact h1 q (by omega) (by omega)
        | some t =>
          obtain ⟨p', s', w'⟩ := t
          obtain ⟨hp', hin2, hd⟩ := hs
          refine ⟨hp', hin2, ?_⟩
          rcases hd with ⟨hw, hpp, hss⟩ | ⟨h0, hw, hlt, hss, hno⟩ | ⟨h0, hw, hw', hss, hno1, hno2⟩
          · refine Or.inr (Or.inl ⟨hin', hw, by omega, by rw [hpp]; exact hss, ?_⟩)
            intro q h1 h2; omega
          · refine Or.inr (Or.inl ⟨hin', hw, by omega, hss, ?_⟩)
            intro q hq1 hq2
            by_cases hq : q = p - 1
            · subst hq; rw [active_iff_max]; simp [h0]
            · exact hno q (by omega) (by omega)
          · refine Or.inr (Or.inr ⟨hin', hw, hw', hss, ?_, hno2⟩)
            intro q hq1 hq2
            by_cases hq : q = p - 1
            · subst hq; rw [active_iff_max]; simp [h0]
            · exact hno1 q (by omega) (by omega)

theorem skipMeasB_lt {p : Int} (hp : PgOk p) (w : Bool) : skipMeasB p w < skipFuel := by
  unfold skipMeasB skipFuel PgOk at *
  cases w <;> simp <;> omega


end Zvbi.Search
