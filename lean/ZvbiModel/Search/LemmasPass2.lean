import ZvbiModel.Search.LemmasPass
/-!
# Lemmas towards `search_exact_full` (C17), part 4: order and completeness of a forward pass, call by call

* `pass_step_order`: a forward call that reports SUCCESS, from any context between two calls of a pass (start position =
  page returned last, any cursor; stop position = where the pass began): the page returned is not before the start
  position in pass order, and no matching page lies strictly between the two (nor AT the start position when the cursor
  is still at the top of the page).
* `pass_last`: a forward call that reports NOT_FOUND: no matching page lies behind the start position in pass order
  (nor at it, when the cursor is at the top).
-/
namespace Zvbi.Search

/-- a level one page that does not stop the pass and is not the page the cursor stands in (or the cursor is at the
    top of the page) is searched from its beginning: the return value tells whether the WHOLE text matches -/
theorem codeFwd_whole (sh : Shape) (exec : Exec) {s : SearchSt} (p : Nat) (e : Entry) (w : Bool)
    (hcur : key p e.subno ≠ key s.startPgno s.startSubno ∨ (s.row0 = 1 ∧ s.col0 = 0))
    (hlop : e.func = FUNC_LOP) (hns : stopFwd s p e w = false) :
    codeFwd sh exec s p e w = (match exec {} (hayFwd e.text (-1) 0).1 with | none => 0 | some _ => 1) := by
  rcases hcur with hk | ⟨hr, hc⟩
  · unfold codeFwd
    have hlop' : ¬ e.func ≠ FUNC_LOP := by simpa using hlop
    rw [hns]
    simp only [Bool.false_eq_true, if_false, hlop']
    have hrow : cursorRow s p e = -1 := by unfold cursorRow; rw [if_neg hk]
    have hlen := hayFwd_nonempty e.text (cursorRow s p e) s.col0
    rw [hrow] at hlen ⊢
    have hrl : ¬ (-1 : Int) > LAST_ROW := by unfold LAST_ROW; decide
    rw [if_neg hrl, hayFwd_first_nocursor, if_neg (by omega)]
    simp only [List.drop_zero, fwdFlags_zero]
    rw [hayFwd_fst_indep e.text (-1) s.col0 (-1) 0]
    rfl
  · exact codeFwd_fresh sh exec hr hc p e w hlop hns

theorem highlight_stop (s : SearchSt) (pgno : Nat) (e : Entry) (first ms me : Nat) :
    (highlight s pgno e first ms me).stopPgno0 = s.stopPgno0 ∧ (highlight s pgno e first ms me).stopSubno0 = s.stopSubno0 := by
  unfold highlight; exact ⟨rfl, rfl⟩

theorem key_bounds {p s : Int} (hp : PgOk p) (hs : 0 ≤ s ∧ s < 65536) : 0 ≤ key p s ∧ key p s < 0x900 * 65536 := by
  unfold key PgOk at *; omega

/-- the positions of a forward walk from (Q, T): ascending; every one is a valid page number and is the start position
    or behind it -/
theorem walkPos_facts (sh : Shape) (c : Cache) (Q T : Int) (hQ : PgOk Q) (hstart : startSub sh c Q T = T) :
    (walkPositions sh c Q T 1).Pairwise LtF ∧
    ∀ z ∈ walkPositions sh c Q T 1, PgOk z.1 ∧ (z = (Q, T, false) ∨ LtF (Q, T, false) z) := by
  obtain ⟨g1, g2⟩ := positions_sorted_fwd c walkFuel Q T false hQ
  unfold walkPositions
  rw [hstart]
  refine ⟨?_, ?_⟩
  · rw [List.pairwise_cons]; exact ⟨fun y hy => (g1 y hy).1, g2⟩
  · intro z hz
    rcases List.mem_cons.mp hz with rfl | hz
    · exact ⟨hQ, Or.inl rfl⟩
    · exact ⟨(g1 z hz).2.1, Or.inr (g1 z hz).1⟩

/-- every sub-page inside the statistics window of a valid page number is probed by the walk: in the first sweep when
    it is not before the start position, in the wrapped sweep otherwise -/
theorem walkPos_mem (sh : Shape) (c : Cache) (Q T : Int) (hQ : PgOk Q) (hstart : startSub sh c Q T = T)
    (hT : 0 ≤ T ∧ T < 65536) (q t : Int) (hq : PgOk q) (ht : 0 ≤ t ∧ t < 65536) (hin : inRange (c.stat q) t = true) :
    (q, t, decide (key q t < key Q T)) ∈ walkPositions sh c Q T 1 := by
  unfold walkPositions
  rw [hstart]
  by_cases hk : key q t < key Q T
  · simp only [hk, decide_true]
    apply List.mem_cons_of_mem
    exact positions_complete_fwd c walkFuel _ _ false hQ (rankF_lt_fuel hQ _ _) q t true hq hin (Or.inr ⟨rfl, rfl⟩)
  · simp only [hk, decide_false]
    by_cases heq : q = Q ∧ t = T
    · rw [heq.1, heq.2]; exact List.mem_cons_self
    · apply List.mem_cons_of_mem
      apply positions_complete_fwd c walkFuel _ _ false hQ (rankF_lt_fuel hQ _ _) q t false hq hin
      left; refine ⟨rfl, ?_⟩
      unfold key at hk
      unfold PgOk at hQ hq
      omega

/-- a page the exact look-up finds: its sub-page number fits 16 bits and lies inside the statistics window (of the
    original cache and of every equivalent one) -/
theorem page_facts {c c' : Cache} (heq : Equiv c c') (hcov : Covered c) {q t : Int} {e : Entry}
    (hl : lookupX c q t = some e) :
    (0 ≤ t ∧ t < 65536) ∧ inRange (c'.stat q) t = true ∧ (e.subno : Int) = t := by
  have hs := lookupX_subno hl
  have hm := lookupX_mem hl
  obtain ⟨c1, c2, c3⟩ := hcov q.toNat e hm
  have hlt := (c.slots q.toNat).stat.subMax.toNat_lt
  refine ⟨by omega, ?_, hs⟩
  rw [stat_of_equiv heq, inRange_iff]; unfold Cache.stat
  exact ⟨c1, by omega, by omega⟩

/-- what `search_page_fwd` not stopping at a page says, on keys -/
theorem stopFwd_false_iff (s : SearchSt) (p : Nat) (e : Entry) (w : Bool) :
    stopFwd s p e w = false ↔
      ((key s.startPgno s.startSubno ≥ key s.stopPgno0 s.stopSubno0 → ¬ (w = true ∧ key p e.subno ≥ key s.stopPgno0 s.stopSubno0)) ∧
       (key s.startPgno s.startSubno < key s.stopPgno0 s.stopSubno0 →
          ¬ (key p e.subno < key s.startPgno s.startSubno ∨ key p e.subno ≥ key s.stopPgno0 s.stopSubno0))) := by
  unfold stopFwd
  by_cases h1 : key s.startPgno s.startSubno ≥ key s.stopPgno0 s.stopSubno0
  · have h1' : ¬ key s.startPgno s.startSubno < key s.stopPgno0 s.stopSubno0 := by omega
    simp only [h1, if_true, h1', false_implies, and_true, forall_const]
    cases w <;> simp
  · have h1' : key s.startPgno s.startSubno < key s.stopPgno0 s.stopSubno0 := by omega
    simp only [h1, if_false, h1', false_implies, true_and, forall_const]
    simp only [Bool.or_eq_false_iff, decide_eq_false_iff_not, not_or]

/-- context of a pass between two forward calls: the stop position is where the pass began, the start sub-page number
    fits 16 bits and is no wildcard for the start look-up of the walk -/
structure PassCtx (sh : Shape) (P S0 : Int) (s : SearchSt) : Prop where
  sp : s.stopPgno0 = P
  ss : s.stopSubno0 = S0
  sub : 0 ≤ s.startSubno ∧ s.startSubno < 65536
  noany : sh.startExact = true ∨ s.startSubno ≠ ANY_SUBNO

/-- **one forward call that reports SUCCESS: order and gap-freeness** -/
theorem pass_step_order (sh : Shape) (exec : Exec) (c c' : Cache) (s : SearchSt) (P S0 : Int) (heq : Equiv c c')
    (hcov : Covered c) (hinv : PassInv exec c s) (hok : StartOk sh c' s.startPgno)
    (hP : PgOk P) (hS0 : 0 ≤ S0 ∧ S0 < 65536) (hctx : PassCtx sh P S0 s)
    (hany : sh.startExact = true ∨ ∀ p, ∀ e ∈ (c.slots p).chain, (e.subno : Int) ≠ ANY_SUBNO)
    (h : (searchNext sh exec walkFuel c' s 1).res = .ret SEARCH_SUCCESS) :
    PassCtx sh P S0 (searchNext sh exec walkFuel c' s 1).st ∧
    passRank P S0 s.startPgno s.startSubno ≤
      passRank P S0 (searchNext sh exec walkFuel c' s 1).st.startPgno (searchNext sh exec walkFuel c' s 1).st.startSubno ∧
    ∀ q t : Nat, PgOk q → Matches exec c q t →
      (passRank P S0 s.startPgno s.startSubno < passRank P S0 q t ∨
        (passRank P S0 s.startPgno s.startSubno = passRank P S0 q t ∧ s.row0 = 1 ∧ s.col0 = 0)) →
      passRank P S0 (searchNext sh exec walkFuel c' s 1).st.startPgno (searchNext sh exec walkFuel c' s 1).st.startSubno
        ≤ passRank P S0 q t := by
  have hprep : prepare sh s 1 = s := by
    unfold prepare dirOf
    have := hinv.dir
    simp [this]
  have hne : c'.nCached ≠ 0 := by
    intro h0; rw [searchNext_empty sh exec c' s 1 h0] at h; revert h; decide
  have hp' : PgOk (prepare sh s 1).startPgno := by rw [hprep]; exact hinv.pg
  have hok' : StartOk sh c' (prepare sh s 1).startPgno := by rw [hprep]; exact hok
  have hst := searchNext_st sh exec c' s 1 hne hp' hok'
  rw [searchNext_factors sh exec c' s 1 hne hp' hok'] at h
  have hr1 := statusOf_success h
  have hdir : dirOf 1 = 1 := by decide
  have hcb : callbackOf sh exec 1 = pageFwd sh exec := by unfold callbackOf; simp
  rw [hdir, hcb, hprep] at hr1 hst
  generalize hrp : runPos (pageFwd sh exec) c' (walkPositions sh c' s.startPgno s.startSubno 1) s = rp at hr1 hst
  obtain ⟨r, sf⟩ := rp
  simp only at hr1 hst
  subst hr1
  have hst' : (searchNext sh exec walkFuel c' s 1).st = sf := by rw [hst]; simp
  rw [hst']
  obtain ⟨pre, x, post, e, s0, hL, hlx', hfz, hcall, hpre⟩ := runPos_hit_fwd sh exec c' _ _ _ _ hrp (by decide)
  obtain ⟨xp, xs, xw⟩ := x
  simp only at hlx' hcall
  obtain ⟨hlop, ms, me, hex, hsf⟩ := pageFwd_one hcall
  have hlx : lookupX c xp xs = some e := by rw [← lookupX_equiv heq]; exact hlx'
  obtain ⟨hxsb, _, hxs⟩ := page_facts heq hcov hlx
  -- the walk
  have hstart : startSub sh c' s.startPgno s.startSubno = s.startSubno := startSub_exact sh c' _ _ hctx.noany
  obtain ⟨hsorted, hfacts⟩ := walkPos_facts sh c' s.startPgno s.startSubno hinv.pg hstart
  have hxL : (xp, xs, xw) ∈ walkPositions sh c' s.startPgno s.startSubno 1 := by rw [hL]; simp
  obtain ⟨hpx, hxpos⟩ := hfacts _ hxL
  simp only at hpx
  have hxpn : ((xp.toNat : Nat) : Int) = xp := by unfold PgOk at hpx; omega
  -- keys
  have hA := key_bounds hinv.pg hctx.sub
  have hB := key_bounds hP hS0
  have hX := key_bounds hpx hxsb
  -- the page found does not stop the pass
  have hcodex : codeFwd sh exec s xp.toNat e xw = 1 := by
    rw [← codeFwd_frozen sh exec hfz, ← pageFwd_fst, hcall]
  have hnsx := codeFwd_not_stop (by rw [hcodex]; decide : codeFwd sh exec s xp.toNat e xw ≠ -1)
  rw [stopFwd_false_iff, hctx.sp, hctx.ss, hxpn, hxs] at hnsx
  obtain ⟨hns1, hns2⟩ := hnsx
  have hns1' : key s.startPgno s.startSubno ≥ key P S0 → xw = true → key xp xs < key P S0 := by
    intro ha hw
    exact Int.lt_of_not_ge (fun hge => hns1 ha ⟨hw, hge⟩)
  have hns2' : key s.startPgno s.startSubno < key P S0 → key s.startPgno s.startSubno ≤ key xp xs ∧ key xp xs < key P S0 := by
    intro ha; have := hns2 ha; omega
  have hxA : xw = false → key xp xs ≥ key s.startPgno s.startSubno := by
    intro hw
    rcases hxpos with hx | hx
    · injection hx with h1 hx; injection hx with h2 _; rw [h1, h2]; exact Int.le_refl _
    · unfold LtF at hx; simp only [hw] at hx
      have hpg := hinv.pg; have hsb := hctx.sub
      unfold key; unfold PgOk at hpg hpx
      rcases hx with hx | hx
      · exact absurd hx.2 (by decide)
      · omega
  -- the context the call leaves behind
  obtain ⟨hs1, hs2⟩ := highlight_start { s0 with pgPgno := xp.toNat, pgSubno := e.subno, hl := [] } xp.toNat e
    (hayFwd e.text (cursorRow s0 xp.toNat e) s0.col0).2 ms me
  obtain ⟨ht1, ht2⟩ := highlight_stop { s0 with pgPgno := xp.toNat, pgSubno := e.subno, hl := [] } xp.toNat e
    (hayFwd e.text (cursorRow s0 xp.toNat e) s0.col0).2 ms me
  rw [← hsf] at hs1 hs2 ht1 ht2
  have hsp : sf.startPgno = xp := by rw [hs1]; exact hxpn
  have hss : sf.startSubno = xs := by rw [hs2]; exact hxs
  simp only at ht1 ht2
  have hnoany : sh.startExact = true ∨ xs ≠ ANY_SUBNO := by
    rcases hany with h1 | h1
    · exact Or.inl h1
    · right; rw [← hxs]; exact h1 _ e (lookupX_mem hlx)
  rw [hsp, hss, passRank_rk, passRank_rk]
  refine ⟨⟨by rw [ht1, hfz.sp]; exact hctx.sp, by rw [ht2, hfz.ss]; exact hctx.ss, by rw [hss]; exact hxsb,
    by rw [hss]; exact hnoany⟩, rank_mono_arith _ _ _ xw hA hB hX hns1' hns2' hxA, ?_⟩
  -- no matching page in the gap
  intro q t hq hm hlo
  obtain ⟨e', hl', hlop', hsome'⟩ := hm
  obtain ⟨htb, hin, hts⟩ := page_facts heq hcov hl'
  have hY := key_bounds hq htb
  rw [passRank_rk] at hlo
  rw [passRank_rk]
  by_cases hle : rk (key P S0) (key xp xs) ≤ rk (key P S0) (key q t)
  · exact hle
  · exfalso
    have hlo' : rk (key P S0) (key s.startPgno s.startSubno) ≤ rk (key P S0) (key q t) := by
      rcases hlo with h1 | h1
      · omega
      · omega
    obtain ⟨ha1, ha2⟩ := ltf_arith _ _ _ _ xw hA hB hX hY hns1' hns2' hxA hlo' (by omega)
    -- the position of (q, t) stands before x in the walk
    have hyL := walkPos_mem sh c' s.startPgno s.startSubno hinv.pg hstart hctx.sub q t hq htb hin
    have hylt : LtF ((q : Int), (t : Int), decide (key q t < key s.startPgno s.startSubno)) (xp, xs, xw) := by
      unfold LtF; simp only
      unfold PgOk at hq hpx
      by_cases hk : key (q : Int) t < key s.startPgno s.startSubno
      · obtain ⟨hw, hlt⟩ := ha2 hk
        simp only [hk, decide_true]
        right; refine ⟨hw.symm, ?_⟩
        unfold key at hlt; omega
      · simp only [hk, decide_false]
        rcases ha1 (by omega) with hw | hlt
        · cases xw with
          | true => left; simp
          | false => cases hw
        · cases xw with
          | true => left; simp
          | false => right; refine ⟨rfl, ?_⟩; unfold key at hlt; omega
    rw [hL] at hsorted hyL
    have hypre := mem_pre_of_lt hsorted hyL hylt
    have hl'' : lookupX c' (q : Int) (t : Int) = some e' := by rw [lookupX_equiv heq]; exact hl'
    have hcodey := hpre _ hypre e' (by simpa using hl'')
    simp only [Int.toNat_natCast] at hcodey
    have hnsy := codeFwd_not_stop (by rw [hcodey]; decide :
      codeFwd sh exec s q e' (decide (key (q : Int) t < key s.startPgno s.startSubno)) ≠ -1)
    have hcur : key q e'.subno ≠ key s.startPgno s.startSubno ∨ (s.row0 = 1 ∧ s.col0 = 0) := by
      rcases hlo with h1 | h1
      · left; intro hk; rw [hts] at hk; rw [hk] at h1; omega
      · right; exact h1.2
    rw [codeFwd_whole sh exec q e' _ hcur hlop' hnsy] at hcodey
    cases hx' : exec {} (hayFwd e'.text (-1) 0).1 with
    | none => rw [hx'] at hsome'; simp at hsome'
    | some mm => rw [hx'] at hcodey; simp at hcodey

/-- **a forward call that reports NOT_FOUND**: nothing that matches lies behind the start position in pass order -/
theorem pass_last (sh : Shape) (exec : Exec) (c c' : Cache) (s : SearchSt) (P S0 : Int) (heq : Equiv c c')
    (hcov : Covered c) (hinv : PassInv exec c s) (hok : StartOk sh c' s.startPgno)
    (hP : PgOk P) (hS0 : 0 ≤ S0 ∧ S0 < 65536) (hctx : PassCtx sh P S0 s)
    (h : (searchNext sh exec walkFuel c' s 1).res = .ret SEARCH_NOT_FOUND) :
    ∀ q t : Nat, PgOk q → Matches exec c q t →
      ¬ (passRank P S0 s.startPgno s.startSubno < passRank P S0 q t ∨
        (passRank P S0 s.startPgno s.startSubno = passRank P S0 q t ∧ s.row0 = 1 ∧ s.col0 = 0)) := by
  have hprep : prepare sh s 1 = s := by
    unfold prepare dirOf
    have := hinv.dir
    simp [this]
  have hne : c'.nCached ≠ 0 := by
    intro h0; rw [searchNext_empty sh exec c' s 1 h0] at h; revert h; decide
  have hp' : PgOk (prepare sh s 1).startPgno := by rw [hprep]; exact hinv.pg
  have hok' : StartOk sh c' (prepare sh s 1).startPgno := by rw [hprep]; exact hok
  rw [searchNext_factors sh exec c' s 1 hne hp' hok'] at h
  have hr := statusOf_not_found h
  have hdir : dirOf 1 = 1 := by decide
  have hcb : callbackOf sh exec 1 = pageFwd sh exec := by unfold callbackOf; simp
  rw [hdir, hcb, hprep] at hr
  generalize hrp : runPos (pageFwd sh exec) c' (walkPositions sh c' s.startPgno s.startSubno 1) s = rp at hr
  obtain ⟨r, sf⟩ := rp
  simp only at hr; subst hr
  intro q t hq hm hlo
  obtain ⟨e', hl', hlop', hsome'⟩ := hm
  obtain ⟨htb, hin, hts⟩ := page_facts heq hcov hl'
  have hstart : startSub sh c' s.startPgno s.startSubno = s.startSubno := startSub_exact sh c' _ _ hctx.noany
  obtain ⟨hsorted, hfacts⟩ := walkPos_facts sh c' s.startPgno s.startSubno hinv.pg hstart
  have hA := key_bounds hinv.pg hctx.sub
  have hB := key_bounds hP hS0
  have hY := key_bounds hq htb
  rw [passRank_rk, passRank_rk] at hlo
  have hlo' : rk (key P S0) (key s.startPgno s.startSubno) ≤ rk (key P S0) (key q t) := by
    rcases hlo with h1 | h1
    · omega
    · omega
  have hyL := walkPos_mem sh c' s.startPgno s.startSubno hinv.pg hstart hctx.sub q t hq htb hin
  obtain ⟨pre, post, hL⟩ := List.append_of_mem hyL
  -- a position of the walk not behind (q, t) does not stop the pass
  have hnostop : ∀ z ∈ walkPositions sh c' s.startPgno s.startSubno 1,
      (z = ((q : Int), (t : Int), decide (key (q : Int) t < key s.startPgno s.startSubno)) ∨
        LtF z ((q : Int), (t : Int), decide (key (q : Int) t < key s.startPgno s.startSubno))) → ¬ StopsF c' s z := by
    intro z hz hzy ⟨ez, hez, hstz⟩
    obtain ⟨zp, zs, zw⟩ := z
    simp only at hez hstz
    obtain ⟨hpz, hzpos⟩ := hfacts _ hz
    simp only at hpz
    have hez' : lookupX c zp zs = some ez := by rw [← lookupX_equiv heq]; exact hez
    obtain ⟨hzsb, _, hzs⟩ := page_facts heq hcov hez'
    have hzpn : ((zp.toNat : Nat) : Int) = zp := by unfold PgOk at hpz; omega
    have hZ := key_bounds hpz hzsb
    have hzA : zw = false → key zp zs ≥ key s.startPgno s.startSubno := by
      intro hw
      rcases hzpos with hx | hx
      · injection hx with h1 hx; injection hx with h2 _; rw [h1, h2]; exact Int.le_refl _
      · unfold LtF at hx; simp only [hw] at hx
        have hpg := hinv.pg; have hsb := hctx.sub
        unfold key; unfold PgOk at hpg hpz
        rcases hx with hx | hx
        · exact absurd hx.2 (by decide)
        · omega
    have hzy' : (key (q : Int) t ≥ key s.startPgno s.startSubno → zw = false ∧ key zp zs ≤ key q t) ∧
        (key (q : Int) t < key s.startPgno s.startSubno → (zw = false ∨ key zp zs ≤ key q t)) := by
      unfold PgOk at hq hpz
      constructor
      · intro hk
        have hk' : ¬ key (q : Int) t < key s.startPgno s.startSubno := by omega
        simp only [hk', decide_false] at hzy
        rcases hzy with hzy | hzy
        · injection hzy with h1 hzy; injection hzy with h2 h3
          exact ⟨h3, by rw [h1, h2]; exact Int.le_refl _⟩
        · unfold LtF at hzy; simp only at hzy
          rcases hzy with hzy | hzy
          · exact absurd hzy.2 (by decide)
          · refine ⟨hzy.1, ?_⟩; unfold key; omega
      · intro hk
        simp only [hk, decide_true] at hzy
        rcases hzy with hzy | hzy
        · injection hzy with h1 hzy; injection hzy with h2 h3
          right; rw [h1, h2]; exact Int.le_refl _
        · unfold LtF at hzy; simp only at hzy
          rcases hzy with hzy | hzy
          · left; exact hzy.1
          · right; unfold key; omega
    obtain ⟨hn1, hn2⟩ := nostop_arith _ _ _ _ zw hA hB hY hZ hlo' hzA hzy'
    have := (stopFwd_false_iff s zp.toNat ez zw).mpr (by
      rw [hctx.sp, hctx.ss, hzpn, hzs]; exact ⟨hn1, hn2⟩)
    rw [this] at hstz; cases hstz
  have hpre : ∀ z ∈ pre, ¬ StopsF c' s z := by
    intro z hz
    apply hnostop z (by rw [hL]; exact List.mem_append_left _ hz)
    right
    rw [hL] at hsorted
    exact (List.pairwise_append.mp hsorted).2.2 z hz _ List.mem_cons_self
  have hyns : ¬ StopsF c' s ((q : Int), (t : Int), decide (key (q : Int) t < key s.startPgno s.startSubno)) :=
    hnostop _ hyL (Or.inl rfl)
  have hl'' : lookupX c' (q : Int) (t : Int) = some e' := by rw [lookupX_equiv heq]; exact hl'
  have hcodey := runPos_minus1 sh exec c' _ _ _ hrp pre _ post hL hpre hyns e' (by simpa using hl'')
  simp only [Int.toNat_natCast] at hcodey
  have hnsy := codeFwd_not_stop (by rw [hcodey]; decide :
    codeFwd sh exec s q e' (decide (key (q : Int) t < key s.startPgno s.startSubno)) ≠ -1)
  have hcur : key q e'.subno ≠ key s.startPgno s.startSubno ∨ (s.row0 = 1 ∧ s.col0 = 0) := by
    rcases hlo with h1 | h1
    · left; intro hk; rw [hts] at hk; rw [hk] at h1; omega
    · right; exact h1.2
  rw [codeFwd_whole sh exec q e' _ hcur hlop' hnsy] at hcodey
  cases hx' : exec {} (hayFwd e'.text (-1) 0).1 with
  | none => rw [hx'] at hsome'; simp at hsome'
  | some mm => rw [hx'] at hcodey; simp at hcodey

end Zvbi.Search
