import ZvbiModel.Search.LemmasExact
/-!
# Lemmas towards `search_exact` (C17), part 2: the first call of a fresh forward pass returns the FIRST matching
page in pass order (ascending from the start position, wrapping once), or NOT_FOUND when no cached page matches.
-/
namespace Zvbi.Search

/-- a fold that ends with a value other than -1: that value is the first non-zero return value of
    `search_page_fwd`, all found pages before it returned 0 (judged in the initial search context: the pages
    returning 0 leave the fields `search_page_fwd` reads untouched) -/
theorem runPos_hit_fwd (sh : Shape) (exec : Exec) (c : Cache) : ∀ (L : List Pos) (s sf : SearchSt) (r : Int),
    runPos (pageFwd sh exec) c L s = (r, sf) → r ≠ -1 →
    ∃ pre x post e s0, L = pre ++ x :: post ∧ lookupX c x.1 x.2.1 = some e ∧ Frozen s s0 ∧
      pageFwd sh exec s0 x.1.toNat e x.2.2 = (r, sf) ∧
      ∀ y ∈ pre, ∀ ey, lookupX c y.1 y.2.1 = some ey → codeFwd sh exec s y.1.toNat ey y.2.2 = 0 := by
  intro L
  induction L with
  | nil =>
    intro s sf r h hr
    rw [show runPos (pageFwd sh exec) c [] s = (-1, s) from rfl] at h
    injection h with h1 _; omega
  | cons a L ih =>
    intro s sf r h hr
    obtain ⟨ap, asub, aw⟩ := a
    rw [runPos_cons] at h
    cases hla : lookupX c ap asub with
    | none =>
      rw [hla] at h
      obtain ⟨pre, x, post, e, s0, hL, hlx, hfz, hcall, hpre⟩ := ih s sf r h hr
      refine ⟨(ap, asub, aw) :: pre, x, post, e, s0, by simp [hL], hlx, hfz, hcall, ?_⟩
      intro y hy ey hey
      rcases List.mem_cons.mp hy with rfl | hy
      · simp only at hey; rw [hla] at hey; cases hey
      · exact hpre y hy ey hey
    | some ea =>
      rw [hla] at h; simp only at h
      cases hcb : pageFwd sh exec s ap.toNat ea aw with
      | mk r1 s1 =>
        rw [hcb] at h; simp only at h
        have hcode : codeFwd sh exec s ap.toNat ea aw = r1 := by rw [← pageFwd_fst, hcb]
        by_cases hr1 : r1 = 0
        · subst hr1
          simp only [ne_eq, not_true_eq_false, ite_false] at h
          have hfz1 : Frozen s s1 := pageFwd_zero_frozen hcb
          obtain ⟨pre, x, post, e, s0, hL, hlx, hfz, hcall, hpre⟩ := ih s1 sf r h hr
          refine ⟨(ap, asub, aw) :: pre, x, post, e, s0, by simp [hL], hlx, hfz1.trans hfz, hcall, ?_⟩
          intro y hy ey hey
          rcases List.mem_cons.mp hy with rfl | hy
          · simp only at hey ⊢; rw [hla] at hey; injection hey with hey; subst hey; exact hcode
          · rw [← codeFwd_frozen sh exec hfz1]; exact hpre y hy ey hey
        · simp only [ne_eq, hr1, not_false_eq_true, ite_true] at h
          injection h with h1 h2; subst h1 h2
          exact ⟨[], (ap, asub, aw), L, ea, s, rfl, hla, Frozen.refl s, hcb, by simp⟩

theorem LtF_irrefl (a : Pos) : ¬ LtF a a := by
  obtain ⟨ap, as, aw⟩ := a
  unfold LtF; simp only
  cases aw <;> simp

/-- in a strictly ascending list an element smaller than `x` stands before `x` -/
theorem mem_pre_of_lt {pre post : List Pos} {x y : Pos} (hs : (pre ++ x :: post).Pairwise LtF)
    (hy : y ∈ pre ++ x :: post) (hlt : LtF y x) : y ∈ pre := by
  rcases List.mem_append.mp hy with h | h
  · exact h
  · exfalso
    rcases List.mem_cons.mp h with rfl | h
    · exact LtF_irrefl _ hlt
    · have hp := (List.pairwise_append.mp hs).2.1
      rw [List.pairwise_cons] at hp
      exact LtF_irrefl _ (LtF_trans (hp.1 y h) hlt)

theorem highlight_pg (s : SearchSt) (pgno : Nat) (e : Entry) (first ms me : Nat) :
    (highlight s pgno e first ms me).pgPgno = pgno ∧ (highlight s pgno e first ms me).pgSubno = e.subno := by
  unfold highlight; exact ⟨rfl, rfl⟩

/-- **first call of a fresh forward pass, SUCCESS**: the page returned contains the pattern and no page before it in
    pass order does -/
theorem searchNext_first_success_fwd (sh : Shape) (exec : Exec) (c : Cache) (s : SearchSt) (d : Int) (hd : d > 0)
    (hfresh : s.dir = 0) (hcov : Covered c) (hp : PgOk s.stopPgno0) (hok : StartOk sh c s.stopPgno0)
    (hS : 0 ≤ s.stopSubno0 ∧ s.stopSubno0 ≤ 0xFFFF ∧ (sh.startExact = true ∨ s.stopSubno0 ≠ ANY_SUBNO))
    (h : (searchNext sh exec walkFuel c s d).res = .ret SEARCH_SUCCESS) :
    PgOk (searchNext sh exec walkFuel c s d).st.pgPgno ∧
    Matches exec c (searchNext sh exec walkFuel c s d).st.pgPgno (searchNext sh exec walkFuel c s d).st.pgSubno ∧
    ∀ q t : Nat, PgOk q → Matches exec c q t →
      passRank s.stopPgno0 s.stopSubno0 (searchNext sh exec walkFuel c s d).st.pgPgno
        (searchNext sh exec walkFuel c s d).st.pgSubno ≤ passRank s.stopPgno0 s.stopSubno0 q t := by
  have hne : c.nCached ≠ 0 := by
    intro h0; rw [searchNext_empty sh exec c s d h0] at h; revert h; decide
  obtain ⟨f1, f2, f3, f4, f5, f6⟩ := prepare_fresh_fwd sh (s := s) hd hfresh
  have hp' : PgOk (prepare sh s d).startPgno := by rw [f1]; exact hp
  have hok' : StartOk sh c (prepare sh s d).startPgno := by rw [f1]; exact hok
  have hst := searchNext_st sh exec c s d hne hp' hok'
  rw [searchNext_factors sh exec c s d hne hp' hok'] at h
  have hr1 := statusOf_success h
  have hdir : dirOf d = 1 := by unfold dirOf; simp [hd]
  have hcb : callbackOf sh exec d = pageFwd sh exec := by unfold callbackOf; simp [hd]
  rw [hdir, hcb, f1, f2] at hr1 hst
  generalize hrp : runPos (pageFwd sh exec) c (walkPositions sh c s.stopPgno0 s.stopSubno0 1) (prepare sh s d) = rp at hr1 hst
  obtain ⟨r, sf⟩ := rp
  simp only at hr1 hst
  subst hr1
  have hst' : (searchNext sh exec walkFuel c s d).st = sf := by rw [hst]; simp
  rw [hst']
  obtain ⟨pre, x, post, e, s0, hL, hlx, hfz, hcall, hpre⟩ := runPos_hit_fwd sh exec c _ _ _ _ hrp (by decide)
  obtain ⟨xp, xs, xw⟩ := x
  simp only at hlx hcall
  obtain ⟨hlop, ms, me, _, hsf⟩ := pageFwd_one hcall
  obtain ⟨hpg1, hpg2⟩ := highlight_pg { s0 with pgPgno := xp.toNat, pgSubno := e.subno, hl := [] } xp.toNat e
    (hayFwd e.text (cursorRow s0 xp.toNat e) s0.col0).2 ms me
  rw [← hsf] at hpg1 hpg2
  rw [hpg1, hpg2]
  -- the walk: sorted, starts at (P, S)
  have hstart : startSub sh c s.stopPgno0 s.stopSubno0 = s.stopSubno0 := startSub_exact sh c _ _ hS.2.2
  obtain ⟨g1, g2⟩ := positions_sorted_fwd c walkFuel s.stopPgno0 s.stopSubno0 false hp
  have hsorted : (walkPositions sh c s.stopPgno0 s.stopSubno0 1).Pairwise LtF := by
    unfold walkPositions; rw [hstart, List.pairwise_cons]; exact ⟨fun y hy => (g1 y hy).1, g2⟩
  have hxL : (xp, xs, xw) ∈ walkPositions sh c s.stopPgno0 s.stopSubno0 1 := by rw [hL]; simp
  have hxs : (e.subno : Int) = xs := lookupX_subno hlx
  -- where x lies
  have hxpos : PgOk xp ∧ ((xw = false ∧ key xp xs ≥ key s.stopPgno0 s.stopSubno0) ∨ xw = true) := by
    unfold walkPositions at hxL
    rw [hstart] at hxL
    rcases List.mem_cons.mp hxL with hx | hx
    · injection hx with h1 hx; injection hx with h2 h3
      subst h1 h2 h3
      exact ⟨hp, Or.inl ⟨rfl, Int.le_refl _⟩⟩
    · obtain ⟨hlt, hpx, _⟩ := g1 _ hx
      refine ⟨hpx, ?_⟩
      cases xw with
      | true => right; rfl
      | false =>
        left; refine ⟨rfl, ?_⟩
        unfold LtF at hlt; simp at hlt
        unfold key; unfold PgOk at hp hpx
        omega
  obtain ⟨hpx, hxcase⟩ := hxpos
  have hxpn : ((xp.toNat : Nat) : Int) = xp := by unfold PgOk at hpx; omega
  have hxmem : e ∈ (c.slots xp.toNat).chain := lookupX_mem hlx
  have hxb : xs ≤ 0xFFFF := by
    have := (hcov xp.toNat e hxmem).2.2
    have := (c.slots xp.toNat).stat.subMax.toNat_lt
    omega
  -- the code of x in the initial context
  have hcodex : codeFwd sh exec (prepare sh s d) xp.toNat e xw = 1 := by
    rw [← codeFwd_frozen sh exec hfz, ← pageFwd_fst, hcall]
  have hnsx := codeFwd_not_stop (by rw [hcodex]; decide : codeFwd sh exec (prepare sh s d) xp.toNat e xw ≠ -1)
  refine ⟨by rw [hxpn]; exact hpx, ?_, ?_⟩
  · -- the page returned matches
    refine ⟨e, by rw [hxpn, hxs]; exact hlx, hlop, ?_⟩
    rw [codeFwd_fresh sh exec f5 f6 _ _ _ hlop hnsx] at hcodex
    cases hx' : exec {} (hayFwd e.text (-1) 0).1 with
    | none => rw [hx'] at hcodex; simp at hcodex
    | some mm => rfl
  · -- no page before it in pass order matches
    intro q t hq hm
    obtain ⟨e', hl', hlop', hsome'⟩ := hm
    rw [hxpn, hxs]
    by_cases hle : passRank s.stopPgno0 s.stopSubno0 xp xs ≤ passRank s.stopPgno0 s.stopSubno0 q t
    · exact hle
    · exfalso
      have hqmem : e' ∈ (c.slots (q : Int).toNat).chain := lookupX_mem hl'
      simp only [Int.toNat_natCast] at hqmem
      obtain ⟨c1, c2, c3⟩ := hcov q e' hqmem
      have hts : (e'.subno : Int) = (t : Int) := lookupX_subno hl'
      have hin : inRange (c.stat q) t = true := by
        rw [inRange_iff]; unfold Cache.stat; simp only [Int.toNat_natCast]
        exact ⟨c1, by omega, by omega⟩
      have htb : (t : Int) ≤ 0xFFFF := by
        have := (c.slots q).stat.subMax.toNat_lt; omega
      -- a wrapped x lies below the stop position
      have hxk : xw = true → key xp xs < key s.stopPgno0 s.stopSubno0 := by
        intro hw
        unfold stopFwd at hnsx
        rw [f1, f2, f3, f4, hw, hxpn, hxs] at hnsx
        simp only [ge_iff_le, Int.le_refl, if_true, Bool.true_and, decide_eq_false_iff_not] at hnsx
        omega
      -- the position of (q, t) that the walk probes before x
      have hy : ∃ wy, ((q : Int), (t : Int), wy) ∈ walkPositions sh c s.stopPgno0 s.stopSubno0 1 ∧
          LtF ((q : Int), (t : Int), wy) (xp, xs, xw) := by
        unfold passRank at hle
        unfold PgOk at hp hq hpx
        by_cases hk : key q t ≥ key s.stopPgno0 s.stopSubno0
        · -- first sweep
          refine ⟨false, ?_, ?_⟩
          · unfold walkPositions; rw [hstart]
            by_cases heq : (q : Int) = s.stopPgno0 ∧ (t : Int) = s.stopSubno0
            · rw [heq.1, heq.2]; exact List.mem_cons_self
            · apply List.mem_cons_of_mem
              apply positions_complete_fwd c walkFuel _ _ false hp (rankF_lt_fuel hp _ _) q t false hq hin
              left; refine ⟨rfl, ?_⟩
              unfold key at hk
              omega
          · unfold LtF; simp only
            rcases hxcase with ⟨hw, hxge⟩ | hw
            · right; refine ⟨hw.symm, ?_⟩
              rw [if_pos hk, if_pos hxge] at hle
              unfold key at hle hk hxge
              omega
            · left; exact ⟨trivial, hw⟩
        · -- wrapped sweep
          have hxw : xw = true := by
            rcases hxcase with ⟨_, hxge⟩ | hw
            · rw [if_neg hk, if_pos hxge] at hle
              unfold key at hle hk hxge
              omega
            · exact hw
          refine ⟨true, ?_, ?_⟩
          · unfold walkPositions; rw [hstart]
            apply List.mem_cons_of_mem
            exact positions_complete_fwd c walkFuel _ _ false hp (rankF_lt_fuel hp _ _) q t true hq hin
              (Or.inr ⟨rfl, rfl⟩)
          · unfold LtF; simp only
            right; refine ⟨hxw.symm, ?_⟩
            have := hxk hxw
            rw [if_neg hk, if_neg (by omega)] at hle
            unfold key at hle hk this
            omega
      obtain ⟨wy, hyL, hylt⟩ := hy
      rw [hL] at hsorted hyL
      have hypre := mem_pre_of_lt hsorted hyL hylt
      have hcodey := hpre _ hypre e' (by simpa using hl')
      simp only [Int.toNat_natCast] at hcodey
      have hnsy := codeFwd_not_stop (by rw [hcodey]; decide : codeFwd sh exec (prepare sh s d) q e' wy ≠ -1)
      rw [codeFwd_fresh sh exec f5 f6 _ _ _ hlop' hnsy] at hcodey
      cases hx' : exec {} (hayFwd e'.text (-1) 0).1 with
      | none => rw [hx'] at hsome'; simp at hsome'
      | some mm => rw [hx'] at hcodey; simp at hcodey

/-- **first call of a fresh forward pass, NOT_FOUND**: no cached level one page contains the pattern -/
theorem searchNext_not_found_exact_fwd (sh : Shape) (exec : Exec) (c : Cache) (s : SearchSt) (d : Int) (hd : d > 0)
    (hfresh : s.dir = 0) (hcov : Covered c) (hp : PgOk s.stopPgno0) (hok : StartOk sh c s.stopPgno0)
    (hS : 0 ≤ s.stopSubno0 ∧ s.stopSubno0 ≤ 0xFFFF ∧ (sh.startExact = true ∨ s.stopSubno0 ≠ ANY_SUBNO))
    (h : (searchNext sh exec walkFuel c s d).res = .ret SEARCH_NOT_FOUND) :
    ∀ (q t : Nat), PgOk q → ¬ Matches exec c q t := by
  have hne : c.nCached ≠ 0 := by
    intro h0; rw [searchNext_empty sh exec c s d h0] at h; revert h; decide
  intro q t hq ⟨e, hl, hlop, hm⟩
  have hall := searchNext_not_found_fresh_fwd sh exec c s d hd hfresh hne hp hok h
  have hmem : e ∈ (c.slots (q : Int).toNat).chain := lookupX_mem hl
  simp only [Int.toNat_natCast] at hmem
  obtain ⟨c1, c2, c3⟩ := hcov q e hmem
  have hts : (e.subno : Int) = (t : Int) := lookupX_subno hl
  have hin : inRange (c.stat q) t = true := by
    rw [inRange_iff]; unfold Cache.stat; simp only [Int.toNat_natCast]; exact ⟨c1, by omega, by omega⟩
  have htb : (t : Int) ≤ 0xFFFF := by
    have := (c.slots q).stat.subMax.toNat_lt; omega
  have hstart : startSub sh c s.stopPgno0 s.stopSubno0 = s.stopSubno0 := startSub_exact sh c _ _ hS.2.2
  have hnone : exec {} (hayFwd e.text (-1) 0).1 = none := by
    by_cases hk : key q t < key s.stopPgno0 s.stopSubno0
    · refine hall ((q : Int), (t : Int), true) ?_ (Or.inr hk) e hl hlop
      unfold walkPositions
      apply List.mem_cons_of_mem
      exact positions_complete_fwd c walkFuel _ _ false hp (rankF_lt_fuel hp _ _) q t true hq hin (Or.inr ⟨rfl, rfl⟩)
    · refine hall ((q : Int), (t : Int), false) ?_ (Or.inl rfl) e hl hlop
      unfold walkPositions; rw [hstart]
      by_cases heq : (q : Int) = s.stopPgno0 ∧ (t : Int) = s.stopSubno0
      · rw [heq.1, heq.2]; exact List.mem_cons_self
      · apply List.mem_cons_of_mem
        apply positions_complete_fwd c walkFuel _ _ false hp (rankF_lt_fuel hp _ _) q t false hq hin
        left; refine ⟨rfl, ?_⟩
        unfold key at hk
        unfold PgOk at hp hq
        omega
  rw [hnone] at hm; simp at hm

/-- `search_page_fwd` returns -1, 0 or 1 -/
theorem codeFwd_range (sh : Shape) (exec : Exec) (s : SearchSt) (p : Nat) (e : Entry) (w : Bool) :
    codeFwd sh exec s p e w = -1 ∨ codeFwd sh exec s p e w = 0 ∨ codeFwd sh exec s p e w = 1 := by
  unfold codeFwd
  split
  · left; rfl
  · split
    · right; left; rfl
    · split
      · right; left; rfl
      · split
        · right; left; rfl
        · split
          · right; left; rfl
          · right; right; rfl

theorem runPos_fwd_range (sh : Shape) (exec : Exec) (c : Cache) : ∀ (L : List Pos) (s : SearchSt),
    (runPos (pageFwd sh exec) c L s).1 = -1 ∨ (runPos (pageFwd sh exec) c L s).1 = 1 := by
  intro L
  induction L with
  | nil => intro s; left; rfl
  | cons a L ih =>
    intro s
    obtain ⟨ap, asub, aw⟩ := a
    rw [runPos_cons]
    cases lookupX c ap asub with
    | none => exact ih s
    | some ea =>
      simp only
      have hc := pageFwd_fst sh exec s ap.toNat ea aw
      have hr := codeFwd_range sh exec s ap.toNat ea aw
      generalize pageFwd sh exec s ap.toNat ea aw = rs at hc
      obtain ⟨r1, s1⟩ := rs
      simp only at hc ⊢
      rw [← hc] at hr
      by_cases hr1 : r1 = 0
      · subst hr1; simp only [ne_eq, not_true_eq_false, ite_false]; exact ih s1
      · simp only [ne_eq, hr1, not_false_eq_true, ite_true]
        rcases hr with h | h | h
        · left; exact h
        · exact absurd h hr1
        · right; exact h

/-- a forward `vbi_search_next` on a non-empty cache answers SUCCESS or NOT_FOUND -/
theorem searchNext_fwd_status (sh : Shape) (exec : Exec) (c : Cache) (s : SearchSt) (d : Int) (hd : d > 0)
    (hne : c.nCached ≠ 0) (hp : PgOk (prepare sh s d).startPgno) (hok : StartOk sh c (prepare sh s d).startPgno) :
    (searchNext sh exec walkFuel c s d).res = .ret SEARCH_SUCCESS ∨
    (searchNext sh exec walkFuel c s d).res = .ret SEARCH_NOT_FOUND := by
  rw [searchNext_factors sh exec c s d hne hp hok]
  have hcb : callbackOf sh exec d = pageFwd sh exec := by unfold callbackOf; simp [hd]
  rw [hcb]
  rcases runPos_fwd_range sh exec c (walkPositions sh c (prepare sh s d).startPgno (prepare sh s d).startSubno (dirOf d)) (prepare sh s d)
    with h | h
  · right; rw [h]; rfl
  · left; rw [h]; rfl

end Zvbi.Search
