import ZvbiModel.Search.LemmasFactor
/-!
# Lemmas about the page statistics as `_vbi_cache_put_page` maintains them (C17)

`SlotInv` is what holds after every history of page stores.  Since 5e41e82 ("first page of this number" is
`1 == n_subpages`, no longer `0 == subno_min`) it includes that every cached page lies inside the window
`subno_min .. subno_max` - as long as the 16 bit counter `n_subpages` has not wrapped, i.e. fewer than 65536
pages are cached under the page number (C17-D2: the number of pages per page number is not bounded, a
sub-code >= 0x100 replaces the most recently used page whatever its sub-code).
-/
namespace Zvbi.Search

structure SlotInv (sl : Slot) : Prop where
  count : sl.stat.nSub.toNat = sl.chain.length % 65536
  minmax : sl.stat.subMin.toNat ≤ sl.stat.subMax.toNat
  small : sl.stat.subMax.toNat ≤ 0x3F7F
  /-- both bounds hold while the counter has not wrapped (the chain never shrinks, so it never had) -/
  cover : sl.chain.length < 65536 → ∀ e ∈ sl.chain, sl.stat.subMin.toNat ≤ e.subno ∧ e.subno ≤ sl.stat.subMax.toNat

def Inv (c : Cache) : Prop := ∀ p, SlotInv (c.slots p)

theorem putKey_le (pgno subno : Nat) : (putKey pgno subno).1 ≤ subno := by
  unfold putKey
  split
  · split
    · simp_all
    · split
      · split <;> simp
      · split <;> simp
  · simp

theorem removeFirst_length (q : Entry → Bool) (l : List Entry) (e : Entry) (rest : List Entry)
    (h : removeFirst q l = some (e, rest)) : l.length = rest.length + 1 ∧ ∀ x ∈ rest, x ∈ l := by
  obtain ⟨pre, post, hl, hr, _, _⟩ := removeFirst_split q l e rest h
  subst hl hr
  constructor
  · simp; omega
  · intro x hx
    rcases List.mem_append.mp hx with h | h
    · exact List.mem_append.mpr (Or.inl h)
    · exact List.mem_append.mpr (Or.inr (List.mem_cons_of_mem _ h))

theorem toUInt16_small {s : Nat} (h : s ≤ 0x3F7F) : s.toUInt16.toNat = s := by
  simp; omega

/-- `cache_network_add_page` on the statistics, case by case -/
theorem add_spec (st : Stat) (s : Nat) (hs : s ≤ 0x3F7F) :
    (st.add s).nSub = st.nSub + 1 ∧
    ((st.nSub + 1 = 1 ∧ (st.add s).subMin.toNat = s ∧ (st.add s).subMax.toNat = s) ∨
     (st.nSub + 1 ≠ 1 ∧ (st.add s).subMin.toNat = min s st.subMin.toNat ∧
        (st.add s).subMax.toNat = max s st.subMax.toNat)) := by
  unfold Stat.add
  simp only
  refine ⟨trivial, ?_⟩
  by_cases h1 : st.nSub + 1 = 1
  · left; simp only [h1, true_or, if_true, toUInt16_small hs]; exact ⟨trivial, trivial, trivial⟩
  · right
    refine ⟨h1, ?_, ?_⟩
    · by_cases h2 : s < st.subMin.toNat
      · simp only [h1, h2, or_true, if_true, toUInt16_small hs]; omega
      · simp only [h1, h2, or_self, if_false]; omega
    · by_cases h2 : s > st.subMax.toNat
      · simp only [h1, h2, or_true, if_true, toUInt16_small hs]; omega
      · simp only [h1, h2, or_self, if_false]; omega

theorem nsub_succ_eq_one (n : UInt16) : n + 1 = 1 ↔ n.toNat = 0 := by
  constructor
  · intro h
    have := congrArg UInt16.toNat h
    simp only [UInt16.toNat_add] at this
    have hn := n.toNat_lt
    simp at this; omega
  · intro h
    have : n = 0 := UInt16.toNat_inj.mp (by simpa using h)
    subst this; rfl

/-- what one store does to a slot whose statistics are `st` (after the removal of a replaced page, if any) and
    whose remaining pages are `rest` -/
theorem add_slot_inv {st : Stat} {rest : List Entry} {s : Nat} (func : Int) (text : Text) (tag : Nat) (hs : s ≤ 0x3F7F)
    (hcount : st.nSub.toNat = rest.length % 65536) (hmm : st.subMin.toNat ≤ st.subMax.toNat)
    (hsm : st.subMax.toNat ≤ 0x3F7F)
    (hcov : rest.length + 1 < 65536 → ∀ e ∈ rest, st.subMin.toNat ≤ e.subno ∧ e.subno ≤ st.subMax.toNat) :
    SlotInv ⟨st.add s, ⟨s, func, text, tag⟩ :: rest⟩ := by
  obtain ⟨hn, hcase⟩ := add_spec st s hs
  have hnlt := st.nSub.toNat_lt
  refine ⟨?_, ?_, ?_, ?_⟩
  · show (st.add s).nSub.toNat = (rest.length + 1) % 65536
    rw [hn, UInt16.toNat_add]; simp; omega
  · show (st.add s).subMin.toNat ≤ (st.add s).subMax.toNat
    rcases hcase with ⟨_, h1, h2⟩ | ⟨_, h1, h2⟩ <;> omega
  · show (st.add s).subMax.toNat ≤ 0x3F7F
    rcases hcase with ⟨_, h1, h2⟩ | ⟨_, h1, h2⟩ <;> omega
  · intro hlen e he
    simp only [List.length_cons] at hlen
    show (st.add s).subMin.toNat ≤ e.subno ∧ e.subno ≤ (st.add s).subMax.toNat
    rcases hcase with ⟨hone, h1, h2⟩ | ⟨hne, h1, h2⟩
    · -- the only page of this number
      have h0 : st.nSub.toNat = 0 := (nsub_succ_eq_one _).mp hone
      have hr : rest = [] := by
        have : rest.length = 0 := by omega
        exact List.eq_nil_of_length_eq_zero this
      subst hr
      rcases List.mem_cons.mp he with rfl | he
      · simp only; omega
      · exact absurd he List.not_mem_nil
    · rcases List.mem_cons.mp he with rfl | he
      · simp only; omega
      · have := hcov hlen e he; omega

theorem put_inv {c : Cache} (h : Inv c) (pgno subno : Nat) (func : Int) (text : Text) (tag : Nat)
    (hs : subno ≤ 0x3F7F) : Inv (put c pgno subno func text tag) := by
  unfold put
  by_cases hff : pgno % 256 = 255
  · simp [hff]; exact h
  · simp only [hff, if_false]
    have hk := putKey_le pgno subno
    generalize putKey pgno subno = k at hk
    obtain ⟨s, m⟩ := k
    simp only at hk ⊢
    have hs' : s ≤ 0x3F7F := by omega
    have hsl := h pgno
    cases hr : removeFirst (fun e => e.subno % m = s % m) (c.slots pgno).chain with
    | none =>
      simp only
      intro p
      unfold Cache.setSlot; simp only
      by_cases hp : p = pgno
      · subst hp
        simp only [if_true]
        exact add_slot_inv func text tag hs' hsl.count hsl.minmax hsl.small (fun hl => hsl.cover (by omega))
      · simp [hp]; exact h p
    | some t =>
      obtain ⟨old, rest⟩ := t
      simp only
      obtain ⟨hlen, hsub⟩ := removeFirst_length _ _ _ _ hr
      intro p
      unfold Cache.setSlot; simp only
      by_cases hp : p = pgno
      · subst hp
        simp only [if_true]
        have hnlt := (c.slots p).stat.nSub.toNat_lt
        refine add_slot_inv (st := (c.slots p).stat.remove) func text tag hs' ?_ hsl.minmax hsl.small ?_
        · have := hsl.count
          show ((c.slots p).stat.nSub - 1).toNat = rest.length % 65536
          rw [UInt16.toNat_sub]; simp; omega
        · intro hl e he
          exact hsl.cover (by omega) e (hsub e he)
      · simp [hp]; exact h p

theorem empty_inv : Inv Cache.empty := by
  intro p
  refine ⟨rfl, Nat.le_refl _, ?_, ?_⟩
  · show (0 : UInt16).toNat ≤ 0x3F7F
    decide
  · intro _ e he; exact absurd he List.not_mem_nil

/-- a store operation: page number, transmitted sub-code, function, displayed text -/
structure PutOp where
  pgno : Nat
  subno : Nat
  func : Int
  text : Text

def build (ops : List PutOp) : Cache := ops.foldl (fun c o => put c o.pgno o.subno o.func o.text) Cache.empty

theorem foldl_inv (ops : List PutOp) (h : ∀ o ∈ ops, o.subno ≤ 0x3F7F) : ∀ c, Inv c →
    Inv (ops.foldl (fun c o => put c o.pgno o.subno o.func o.text) c) := by
  induction ops with
  | nil => intro c hc; exact hc
  | cons o ops ih =>
    intro c hc
    simp only [List.foldl_cons]
    exact ih (fun o' ho' => h o' (List.mem_cons_of_mem _ ho')) _ (put_inv hc _ _ _ _ _ (h o (List.mem_cons_self)))

/-- `_vbi_cache_put_page` stores nothing under a page number xFF (time filling header) -/
def NoFF (c : Cache) : Prop := ∀ p, p % 256 = 255 → (c.slots p).chain = []

theorem put_noFF {c : Cache} (h : NoFF c) (pgno subno : Nat) (func : Int) (text : Text) (tag : Nat) :
    NoFF (put c pgno subno func text tag) := by
  unfold put
  by_cases hff : pgno % 256 = 255
  · simp [hff]; exact h
  · simp only [hff, if_false]
    generalize putKey pgno subno = k
    obtain ⟨s, m⟩ := k
    simp only
    intro p hp
    have hne : p ≠ pgno := fun e => hff (e ▸ hp)
    cases removeFirst (fun e => e.subno % m = s % m) (c.slots pgno).chain with
    | none => simp [Cache.setSlot, hne]; exact h p hp
    | some t => obtain ⟨old, rest⟩ := t; simp [Cache.setSlot, hne]; exact h p hp

theorem build_noFF (ops : List PutOp) : NoFF (build ops) := by
  unfold build
  suffices h : ∀ c, NoFF c → NoFF (ops.foldl (fun c o => put c o.pgno o.subno o.func o.text) c) from
    h _ (fun _ _ => rfl)
  induction ops with
  | nil => intro c hc; exact hc
  | cons o ops ih => intro c hc; simp only [List.foldl_cons]; exact ih _ (put_noFF hc _ _ _ _ _)

theorem startOk_of_noFF (sh : Shape) {c : Cache} (h : NoFF c) (p : Int) (hp : 0x100 ≤ p ∧ p ≤ 0x8FF) : StartOk sh c p := by
  unfold StartOk validPgno
  right
  by_cases hff : p % 256 = 255
  · right; apply h; omega
  · left; simp; omega

/-- every cached page lies inside the statistics window of its page number -/
def Covered (c : Cache) : Prop :=
  ∀ p, ∀ e ∈ (c.slots p).chain, (c.slots p).stat.nSub ≠ 0 ∧ (c.slots p).stat.subMin.toNat ≤ e.subno ∧
    e.subno ≤ (c.slots p).stat.subMax.toNat

/-- the exclusion of C17-D2: the 16 bit counter `n_subpages` has not wrapped - fewer than 65536 pages are cached
    under every page number -/
def NoWrap (c : Cache) : Prop := ∀ p, (c.slots p).chain.length < 65536

theorem covered_of_inv {c : Cache} (h : Inv c) (hw : NoWrap c) : Covered c := by
  intro p e he
  have hc := (h p).cover (hw p) e he
  refine ⟨?_, hc.1, hc.2⟩
  intro h0
  have hcount := (h p).count
  have hlen := hw p
  have hpos : 0 < (c.slots p).chain.length := List.length_pos_of_mem he
  rw [h0] at hcount
  simp at hcount
  omega

/-- `subno_min <= subno_max` for every page number -/
def StatOk (c : Cache) : Prop := ∀ q : Int, (c.stat q).subMin.toNat ≤ (c.stat q).subMax.toNat

theorem statOk_of_inv {c : Cache} (h : Inv c) : StatOk c := fun q => (h q.toNat).minmax

/-- one store adds at most one page to a chain -/
theorem put_length_le (c : Cache) (pgno subno : Nat) (func : Int) (text : Text) (tag : Nat) (p : Nat) :
    ((put c pgno subno func text tag).slots p).chain.length ≤ (c.slots p).chain.length + 1 := by
  unfold put
  by_cases hff : pgno % 256 = 255
  · simp [hff]
  · simp only [hff, if_false]
    generalize putKey pgno subno = k
    obtain ⟨s, m⟩ := k
    simp only
    cases hr : removeFirst (fun e => e.subno % m = s % m) (c.slots pgno).chain with
    | none =>
      simp only [Cache.setSlot]
      by_cases hp : p = pgno
      · subst hp; simp
      · simp [hp]
    | some t =>
      obtain ⟨old, rest⟩ := t
      obtain ⟨hlen, _⟩ := removeFirst_length _ _ _ _ hr
      simp only [Cache.setSlot]
      by_cases hp : p = pgno
      · subst hp; simp; omega
      · simp [hp]

theorem foldl_length_le (ops : List PutOp) : ∀ (c : Cache) (p : Nat),
    ((ops.foldl (fun c o => put c o.pgno o.subno o.func o.text) c).slots p).chain.length ≤
      (c.slots p).chain.length + ops.length := by
  induction ops with
  | nil => intro c p; simp
  | cons o ops ih =>
    intro c p
    simp only [List.foldl_cons, List.length_cons]
    have h1 := ih (put c o.pgno o.subno o.func o.text) p
    have h2 := put_length_le c o.pgno o.subno o.func o.text 0 p
    omega

/-- a history of fewer than 65536 stores cannot wrap `n_subpages` -/
theorem noWrap_of_few (ops : List PutOp) (h : ops.length < 65536) : NoWrap (build ops) := by
  intro p
  have := foldl_length_le ops Cache.empty p
  unfold build
  have h0 : (Cache.empty.slots p).chain.length = 0 := rfl
  omega

/-- `n_cached_pages` is not 0 when some page is cached -/
def Counted (c : Cache) : Prop := (∃ p, (c.slots p).chain ≠ []) → c.nCached ≠ 0

theorem put_counted {c : Cache} (h : Counted c) (pgno subno : Nat) (func : Int) (text : Text) (tag : Nat) :
    Counted (put c pgno subno func text tag) := by
  intro ⟨p, hp⟩
  by_cases hn : (put c pgno subno func text tag).nCached = 0
  · exfalso
    -- the cache counter is 0 only if this store did nothing and the cache was counted empty before
    have hsame : put c pgno subno func text tag = c ∨ (put c pgno subno func text tag).nCached ≠ 0 := by
      unfold put
      by_cases hff : pgno % 256 = 255
      · left; simp [hff]
      · right
        simp only [hff, if_false]
        generalize putKey pgno subno = k
        obtain ⟨s, m⟩ := k
        simp only
        cases removeFirst (fun e => e.subno % m = s % m) (c.slots pgno).chain with
        | none => simp [Cache.setSlot]
        | some t => obtain ⟨old, rest⟩ := t; simp [Cache.setSlot]
    rcases hsame with h1 | h1
    · rw [h1] at hp hn; exact h ⟨p, hp⟩ hn
    · exact h1 hn
  · exact hn

theorem build_counted (ops : List PutOp) : Counted (build ops) := by
  unfold build
  suffices h : ∀ c, Counted c → Counted (ops.foldl (fun c o => put c o.pgno o.subno o.func o.text) c) from
    h _ (fun ⟨p, hp⟩ => absurd rfl hp)
  induction ops with
  | nil => intro c hc; exact hc
  | cons o ops ih => intro c hc; simp only [List.foldl_cons]; exact ih _ (put_counted hc _ _ _ _ _)

/-- the facts about a reachable cache that the exactness theorems need, from the store history -/
theorem reachable (sh : Shape) (ops : List PutOp) (h : ∀ o ∈ ops, o.subno ≤ 0x3F7F) (hnw : NoWrap (build ops)) (P : Int)
    (hp : 0x100 ≤ P ∧ P ≤ 0x8FF) : Covered (build ops) ∧ StartOk sh (build ops) P :=
  ⟨covered_of_inv (foldl_inv ops h Cache.empty empty_inv) hnw, startOk_of_noFF sh (build_noFF ops) P hp⟩

end Zvbi.Search
