import ZvbiModel.Search.LemmasFactor
/-!
# Lemmas about the page statistics as `_vbi_cache_put_page` maintains them (C17)

`SlotInv` is what holds after every history of page stores; "every cached page lies inside the window"
is NOT among it (findings D2 / D3) - `put_covered` gives the exact side conditions under which it is kept.
-/
namespace Zvbi.Search

structure SlotInv (sl : Slot) : Prop where
  count : sl.stat.nSub.toNat = sl.chain.length % 256
  minmax : sl.stat.subMin.toNat ≤ sl.stat.subMax.toNat
  below : ∀ e ∈ sl.chain, e.subno ≤ sl.stat.subMax.toNat
  small : sl.stat.subMax.toNat ≤ 0x3F7F

def Inv (c : Cache) : Prop := ∀ p, SlotInv (c.slots p)

theorem putKey_le (pgno subno : Nat) : (putKey pgno subno).1 ≤ subno := by
  unfold putKey
  split
  · split
    · simp_all
    · split
      · split <;> simp
      · split <;> simp
  · simp

theorem removeFirst_length (q : Entry → Bool) (l : List Entry) (e : Entry) (rest : List Entry)
    (h : removeFirst q l = some (e, rest)) : l.length = rest.length + 1 ∧ ∀ x ∈ rest, x ∈ l := by
  obtain ⟨pre, post, hl, hr, _, _⟩ := removeFirst_split q l e rest h
  subst hl hr
  constructor
  · simp; omega
  · intro x hx
    rcases List.mem_append.mp hx with h | h
    · exact List.mem_append.mpr (Or.inl h)
    · exact List.mem_append.mpr (Or.inr (List.mem_cons_of_mem _ h))

theorem toUInt16_small {s : Nat} (h : s ≤ 0x3F7F) : s.toUInt16.toNat = s := by
  simp; omega

theorem add_inv {st : Stat} {s : Nat} (hs : s ≤ 0x3F7F) (hmm : st.subMin.toNat ≤ st.subMax.toNat)
    (hsm : st.subMax.toNat ≤ 0x3F7F) :
    (st.add s).subMin.toNat ≤ (st.add s).subMax.toNat ∧ (st.add s).subMax.toNat ≤ 0x3F7F ∧
    s ≤ (st.add s).subMax.toNat ∧ st.subMax.toNat ≤ (st.add s).subMax.toNat := by
  unfold Stat.add
  simp only
  have hmin := st.subMin.toNat_lt
  by_cases h1 : st.subMin = 0 ∨ s < st.subMin.toNat <;> by_cases h2 : s > st.subMax.toNat <;>
    simp only [h1, h2, if_true, if_false, toUInt16_small hs] <;> omega

theorem put_inv {c : Cache} (h : Inv c) (pgno subno : Nat) (func : Int) (text : Text) (tag : Nat)
    (hs : subno ≤ 0x3F7F) : Inv (put c pgno subno func text tag) := by
  unfold put
  by_cases hff : pgno % 256 = 255
  · simp [hff]; exact h
  · simp only [hff, if_false]
    have hk := putKey_le pgno subno
    generalize putKey pgno subno = k at hk
    obtain ⟨s, m⟩ := k
    simp only at hk ⊢
    have hs' : s ≤ 0x3F7F := by omega
    have hsl := h pgno
    cases hr : removeFirst (fun e => e.subno % m = s % m) (c.slots pgno).chain with
    | none =>
      simp only
      intro p
      unfold Cache.setSlot; simp only
      by_cases hp : p = pgno
      · subst hp
        simp only [if_true]
        obtain ⟨a1, a2, a3, a4⟩ := add_inv hs' hsl.minmax hsl.small
        refine ⟨?_, a1, ?_, a2⟩
        · have := hsl.count
          simp only [Stat.add, List.length_cons, UInt8.toNat_add]
          simp; omega
        · intro e he
          rcases List.mem_cons.mp he with rfl | he
          · exact a3
          · exact Nat.le_trans (hsl.below e he) a4
      · simp [hp]; exact h p
    | some t =>
      obtain ⟨old, rest⟩ := t
      simp only
      obtain ⟨hlen, hsub⟩ := removeFirst_length _ _ _ _ hr
      intro p
      unfold Cache.setSlot; simp only
      by_cases hp : p = pgno
      · subst hp
        simp only [if_true]
        have hrm : (c.slots p).stat.remove.subMin = (c.slots p).stat.subMin ∧
                   (c.slots p).stat.remove.subMax = (c.slots p).stat.subMax := ⟨rfl, rfl⟩
        obtain ⟨a1, a2, a3, a4⟩ := add_inv (st := (c.slots p).stat.remove) hs' (by rw [hrm.1, hrm.2]; exact hsl.minmax)
          (by rw [hrm.2]; exact hsl.small)
        refine ⟨?_, a1, ?_, a2⟩
        · have := hsl.count
          simp only [Stat.add, Stat.remove, List.length_cons, UInt8.toNat_add, UInt8.toNat_sub]
          simp; omega
        · intro e he
          rcases List.mem_cons.mp he with rfl | he
          · exact a3
          · rw [hrm.2] at a4
            exact Nat.le_trans (hsl.below e (hsub e he)) a4
      · simp [hp]; exact h p

theorem empty_inv : Inv Cache.empty := by
  intro p
  refine ⟨rfl, Nat.le_refl _, ?_, ?_⟩
  · intro e he; exact absurd he List.not_mem_nil
  · show (0 : UInt16).toNat ≤ 0x3F7F
    decide

/-- a store operation: page number, transmitted sub-code, function, displayed text -/
structure PutOp where
  pgno : Nat
  subno : Nat
  func : Int
  text : Text

def build (ops : List PutOp) : Cache := ops.foldl (fun c o => put c o.pgno o.subno o.func o.text) Cache.empty

theorem foldl_inv (ops : List PutOp) (h : ∀ o ∈ ops, o.subno ≤ 0x3F7F) : ∀ c, Inv c →
    Inv (ops.foldl (fun c o => put c o.pgno o.subno o.func o.text) c) := by
  induction ops with
  | nil => intro c hc; exact hc
  | cons o ops ih =>
    intro c hc
    simp only [List.foldl_cons]
    exact ih (fun o' ho' => h o' (List.mem_cons_of_mem _ ho')) _ (put_inv hc _ _ _ _ _ (h o (List.mem_cons_self)))

theorem noAny_of_inv {c : Cache} (h : Inv c) (hx : ∀ p, (c.slots p).stat.subMax.toNat ≠ 0x3F7F) : NoAny c := by
  intro q
  have := (h q.toNat).small
  have := hx q.toNat
  unfold Cache.stat
  omega

/-- every cached page lies inside the statistics window of its page number -/
def Covered (c : Cache) : Prop :=
  ∀ p, ∀ e ∈ (c.slots p).chain, (c.slots p).stat.nSub ≠ 0 ∧ (c.slots p).stat.subMin.toNat ≤ e.subno ∧
    e.subno ≤ (c.slots p).stat.subMax.toNat

end Zvbi.Search
