import ZvbiModel.Search.LemmasRev
/-!
# Lemmas towards the BACKWARD whole-pass statement (C17), part 2: return value of `search_page_rev` and the fold over
the walk positions (mirror of `codeFwd`, `Frozen`, `runPos_hit_fwd`, `runPos_minus1` in LemmasExact / LemmasFirst)
-/
namespace Zvbi.Search

instance (s : SearchSt) (p : Nat) (e : Entry) (w : Bool) : Decidable (StopsRevP s p e w) := by
  unfold StopsRevP; exact inferInstance

/-- return value of `search_page_rev`.  Only the FIRST `ure_exec` (on the whole haystack) decides between 0 and 1 -/
def codeRev (sh : Shape) (exec : Exec) (s : SearchSt) (p : Nat) (e : Entry) (w : Bool) : Int :=
  if StopsRevP s p e w then -1 else
  if e.func ≠ FUNC_LOP then 0 else
  if (hayRev e.text (cursorRowR s p e) s.col1).1.length = 0 then 0 else
  match exec (revFlags sh (hayRev e.text (cursorRowR s p e) s.col1).1 (hayRev e.text (cursorRowR s p e) s.col1).2 0)
      (hayRev e.text (cursorRowR s p e) s.col1).1 with
  | none => 0
  | some _ => 1

theorem pageRev_fst (sh : Shape) (exec : Exec) (s : SearchSt) (p : Nat) (e : Entry) (w : Bool) :
    (pageRev sh exec s p e w).1 = codeRev sh exec s p e w := by
  unfold codeRev
  rcases pageRev_cases sh exec s p e w with ⟨h1, h⟩ | ⟨h1, h2, h⟩ | ⟨h1, h2, hay, ne, hh, h⟩
  · rw [h, if_pos h1]
  · rw [h, if_neg h1, if_pos h2]
  · have h2' : ¬ e.func ≠ FUNC_LOP := by simpa using h2
    rw [if_neg h1, if_neg h2', hh]
    simp only
    rcases h with ⟨h3, h⟩ | ⟨h3, i, ms, me, _, hi, h⟩
    · rw [h, if_pos h3]
    · rw [if_neg h3]
      rcases h with ⟨h4, h⟩ | ⟨h4, h⟩
      · rw [h, hi.mp h4]
      · rw [h]
        cases hx : exec (revFlags sh hay ne 0) hay with
        | none => exact absurd (hi.mpr hx) h4
        | some mm => rfl

/-- the fields of the search context that `search_page_rev` reads -/
structure FrozenR (s t : SearchSt) : Prop where
  p : t.startPgno = s.startPgno
  q : t.startSubno = s.startSubno
  sp : t.stopPgno1 = s.stopPgno1
  ss : t.stopSubno1 = s.stopSubno1
  r : t.row1 = s.row1
  c : t.col1 = s.col1

theorem FrozenR.refl (s : SearchSt) : FrozenR s s := ⟨rfl, rfl, rfl, rfl, rfl, rfl⟩
theorem FrozenR.trans {a b d : SearchSt} (h1 : FrozenR a b) (h2 : FrozenR b d) : FrozenR a d :=
  ⟨h2.p.trans h1.p, h2.q.trans h1.q, h2.sp.trans h1.sp, h2.ss.trans h1.ss, h2.r.trans h1.r, h2.c.trans h1.c⟩

theorem stopsRevP_frozen {s t : SearchSt} (h : FrozenR s t) (p : Nat) (e : Entry) (w : Bool) :
    StopsRevP t p e w ↔ StopsRevP s p e w := by
  unfold StopsRevP; rw [h.p, h.q, h.sp, h.ss]

theorem cursorRowR_frozen {s t : SearchSt} (h : FrozenR s t) (p : Nat) (e : Entry) :
    cursorRowR t p e = cursorRowR s p e := by
  unfold cursorRowR; rw [h.p, h.q, h.r]

theorem codeRev_frozen (sh : Shape) (exec : Exec) {s t : SearchSt} (h : FrozenR s t) (p : Nat) (e : Entry) (w : Bool) :
    codeRev sh exec t p e w = codeRev sh exec s p e w := by
  unfold codeRev
  by_cases hs : StopsRevP s p e w
  · rw [if_pos hs, if_pos ((stopsRevP_frozen h p e w).mpr hs)]
  · rw [if_neg hs, if_neg (fun ht => hs ((stopsRevP_frozen h p e w).mp ht)), cursorRowR_frozen h, h.c]

theorem pageRev_zero_frozen {sh : Shape} {exec : Exec} {s : SearchSt} {p : Nat} {e : Entry} {w : Bool} {s1 : SearchSt}
    (h : pageRev sh exec s p e w = (0, s1)) : FrozenR s s1 := by
  rcases pageRev_cases sh exec s p e w with ⟨_, h'⟩ | ⟨_, _, h'⟩ | ⟨_, _, hay, ne, _, h'⟩
  · rw [h'] at h; injection h with h _; cases h
  · rw [h'] at h; injection h with _ h; subst h; exact FrozenR.refl s
  · rcases h' with ⟨_, h'⟩ | ⟨_, i, ms, me, _, _, h'⟩
    · rw [h'] at h; injection h with _ h; subst h; exact ⟨rfl, rfl, rfl, rfl, rfl, rfl⟩
    · rcases h' with ⟨_, h'⟩ | ⟨_, h'⟩
      · rw [h'] at h; injection h with _ h; subst h; exact ⟨rfl, rfl, rfl, rfl, rfl, rfl⟩
      · rw [h'] at h; injection h with h _; cases h

/-- `search_page_rev` returned 1: a level one page that did not stop the pass; the context it leaves is `highlight`'s -/
theorem pageRev_one {sh : Shape} {exec : Exec} {s0 : SearchSt} {p : Nat} {e : Entry} {w : Bool} {s' : SearchSt}
    (h : pageRev sh exec s0 p e w = (1, s')) :
    e.func = FUNC_LOP ∧ ¬ StopsRevP s0 p e w ∧ ∃ ms me,
      s' = highlight { s0 with pgPgno := p, pgSubno := e.subno, hl := [] } p e 0 ms me := by
  rcases pageRev_cases sh exec s0 p e w with ⟨_, h'⟩ | ⟨_, _, h'⟩ | ⟨h1, h2, hay, ne, _, h'⟩
  · rw [h'] at h; injection h with h _; cases h
  · rw [h'] at h; injection h with h _; cases h
  · rcases h' with ⟨_, h'⟩ | ⟨_, i, ms, me, _, _, h'⟩
    · rw [h'] at h; injection h with h _; cases h
    · rcases h' with ⟨_, h'⟩ | ⟨_, h'⟩
      · rw [h'] at h; injection h with h _; cases h
      · rw [h'] at h; injection h with _ h; exact ⟨h2, h1, ms, me, h.symm⟩

theorem codeRev_minus1 {sh : Shape} {exec : Exec} {s : SearchSt} {p : Nat} {e : Entry} {w : Bool}
    (h : codeRev sh exec s p e w = -1) : StopsRevP s p e w := by
  unfold codeRev at h
  by_cases h1 : StopsRevP s p e w
  · exact h1
  · rw [if_neg h1] at h
    split at h
    · cases h
    · split at h
      · cases h
      · split at h <;> cases h

theorem codeRev_not_stop {sh : Shape} {exec : Exec} {s : SearchSt} {p : Nat} {e : Entry} {w : Bool}
    (h : codeRev sh exec s p e w ≠ -1) : ¬ StopsRevP s p e w := by
  intro hs; apply h; unfold codeRev; rw [if_pos hs]

/-- `search_page_rev` returns -1, 0 or 1 (never the model's "did not return") -/
theorem codeRev_range (sh : Shape) (exec : Exec) (s : SearchSt) (p : Nat) (e : Entry) (w : Bool) :
    codeRev sh exec s p e w = -1 ∨ codeRev sh exec s p e w = 0 ∨ codeRev sh exec s p e w = 1 := by
  unfold codeRev
  split
  · left; rfl
  · split
    · right; left; rfl
    · split
      · right; left; rfl
      · split
        · right; left; rfl
        · right; right; rfl

/-- **a page without cursor is searched as a whole**: a level one page that does not stop the pass and is not the
    start position (or the cursor row is below the page: row[1] = LAST_ROW + 1 as a fresh pass has it) - the return
    value tells whether the matcher, with flags 0, accepts the WHOLE text (the list `Matches` speaks about) -/
theorem codeRev_whole (sh : Shape) (exec : Exec) {s : SearchSt} (p : Nat) (e : Entry) (w : Bool)
    (hcur : key p e.subno ≠ key s.startPgno s.startSubno ∨ 24 ≤ s.row1)
    (hlop : e.func = FUNC_LOP) (hns : ¬ StopsRevP s p e w) :
    codeRev sh exec s p e w = (match exec {} (hayFwd e.text (-1) 0).1 with | none => 0 | some _ => 1) := by
  have hrow : 24 ≤ cursorRowR s p e := by
    unfold cursorRowR
    rcases hcur with hk | hr
    · rw [if_neg hk]; decide
    · split
      · exact hr
      · decide
  unfold codeRev
  have hlop' : ¬ e.func ≠ FUNC_LOP := by simpa using hlop
  rw [if_neg hns, if_neg hlop', hayRev_whole e.text _ s.col1 hrow]
  simp only
  rw [if_neg (hayFwd_nonemptyR e.text), revFlags_first]

/-! ## the fold over the walk positions -/

/-- position `x` stops the backward search in state `s` -/
def StopsR (c : Cache) (s : SearchSt) (x : Pos) : Prop :=
  ∃ e, lookupX c x.1 x.2.1 = some e ∧ StopsRevP s x.1.toNat e x.2.2

theorem stopsR_frozen {c : Cache} {s t : SearchSt} (h : FrozenR s t) (x : Pos) : StopsR c t x ↔ StopsR c s x := by
  unfold StopsR
  constructor
  · rintro ⟨e, h1, h2⟩; exact ⟨e, h1, (stopsRevP_frozen h _ _ _).mp h2⟩
  · rintro ⟨e, h1, h2⟩; exact ⟨e, h1, (stopsRevP_frozen h _ _ _).mpr h2⟩

/-- a fold that ends with a value other than -1: that value is the first non-zero return value of `search_page_rev`,
    all found pages before it returned 0 (judged in the initial search context) -/
theorem runPos_hit_rev (sh : Shape) (exec : Exec) (c : Cache) : ∀ (L : List Pos) (s sf : SearchSt) (r : Int),
    runPos (pageRev sh exec) c L s = (r, sf) → r ≠ -1 →
    ∃ pre x post e s0, L = pre ++ x :: post ∧ lookupX c x.1 x.2.1 = some e ∧ FrozenR s s0 ∧
      pageRev sh exec s0 x.1.toNat e x.2.2 = (r, sf) ∧
      ∀ y ∈ pre, ∀ ey, lookupX c y.1 y.2.1 = some ey → codeRev sh exec s y.1.toNat ey y.2.2 = 0 := by
  intro L
  induction L with
  | nil =>
    intro s sf r h hr
    rw [show runPos (pageRev sh exec) c [] s = (-1, s) from rfl] at h
    injection h with h1 _; omega
  | cons a L ih =>
    intro s sf r h hr
    obtain ⟨ap, asub, aw⟩ := a
    rw [runPos_cons] at h
    cases hla : lookupX c ap asub with
    | none =>
      rw [hla] at h
      obtain ⟨pre, x, post, e, s0, hL, hlx, hfz, hcall, hpre⟩ := ih s sf r h hr
      refine ⟨(ap, asub, aw) :: pre, x, post, e, s0, by simp [hL], hlx, hfz, hcall, ?_⟩
      intro y hy ey hey
      rcases List.mem_cons.mp hy with rfl | hy
      · simp only at hey; rw [hla] at hey; cases hey
      · exact hpre y hy ey hey
    | some ea =>
      rw [hla] at h; simp only at h
      cases hcb : pageRev sh exec s ap.toNat ea aw with
      | mk r1 s1 =>
        rw [hcb] at h; simp only at h
        have hcode : codeRev sh exec s ap.toNat ea aw = r1 := by rw [← pageRev_fst, hcb]
        by_cases hr1 : r1 = 0
        · subst hr1
          simp only [ne_eq, not_true_eq_false, ite_false] at h
          have hfz1 : FrozenR s s1 := pageRev_zero_frozen hcb
          obtain ⟨pre, x, post, e, s0, hL, hlx, hfz, hcall, hpre⟩ := ih s1 sf r h hr
          refine ⟨(ap, asub, aw) :: pre, x, post, e, s0, by simp [hL], hlx, hfz1.trans hfz, hcall, ?_⟩
          intro y hy ey hey
          rcases List.mem_cons.mp hy with rfl | hy
          · simp only at hey ⊢; rw [hla] at hey; injection hey with hey; subst hey; exact hcode
          · rw [← codeRev_frozen sh exec hfz1]; exact hpre y hy ey hey
        · simp only [ne_eq, hr1, not_false_eq_true, ite_true] at h
          injection h with h1 h2; subst h1 h2
          exact ⟨[], (ap, asub, aw), L, ea, s, rfl, hla, FrozenR.refl s, hcb, by simp⟩

/-- a fold that ends with -1 has returned 0 on every found page before the first stopping position -/
theorem runPos_minus1_rev (sh : Shape) (exec : Exec) (c : Cache) : ∀ (L : List Pos) (s sf : SearchSt),
    runPos (pageRev sh exec) c L s = (-1, sf) →
    ∀ (pre : List Pos) (x : Pos) (post : List Pos), L = pre ++ x :: post → (∀ y ∈ pre, ¬ StopsR c s y) →
      ¬ StopsR c s x → ∀ e, lookupX c x.1 x.2.1 = some e → codeRev sh exec s x.1.toNat e x.2.2 = 0 := by
  intro L
  induction L with
  | nil => intro s sf _ pre x post h; simp at h
  | cons a L ih =>
    intro s sf hrun pre x post hL hpre hx e he
    obtain ⟨ap, asub, aw⟩ := a
    rw [runPos_cons] at hrun
    cases hla : lookupX c ap asub with
    | none =>
      rw [hla] at hrun
      cases pre with
      | nil =>
        simp only [List.nil_append] at hL
        obtain ⟨h1, h2⟩ := List.cons.inj hL; subst h1
        rw [hla] at he; cases he
      | cons b pre' =>
        simp only [List.cons_append] at hL
        obtain ⟨h1, h2⟩ := List.cons.inj hL
        exact ih s sf hrun pre' x post h2 (fun y hy => hpre y (List.mem_cons_of_mem _ hy)) hx e he
    | some ea =>
      rw [hla] at hrun; simp only at hrun
      cases hcb : pageRev sh exec s ap.toNat ea aw with
      | mk r1 s1 =>
        rw [hcb] at hrun; simp only at hrun
        have hcode : codeRev sh exec s ap.toNat ea aw = r1 := by rw [← pageRev_fst, hcb]
        by_cases hr1 : r1 = 0
        · subst hr1
          simp only [ne_eq, not_true_eq_false, ite_false] at hrun
          have hfz : FrozenR s s1 := pageRev_zero_frozen hcb
          cases pre with
          | nil =>
            simp only [List.nil_append] at hL
            obtain ⟨h1, h2⟩ := List.cons.inj hL; subst h1
            simp only at he hx ⊢
            rw [hla] at he; injection he with he; subst he
            exact hcode
          | cons b pre' =>
            simp only [List.cons_append] at hL
            obtain ⟨h1, h2⟩ := List.cons.inj hL
            have := ih s1 sf hrun pre' x post h2
              (fun y hy => fun hs => hpre y (List.mem_cons_of_mem _ hy) ((stopsR_frozen hfz y).mp hs))
              (fun hs => hx ((stopsR_frozen hfz x).mp hs)) e he
            rw [codeRev_frozen sh exec hfz] at this
            exact this
        · simp only [ne_eq, hr1, not_false_eq_true, ite_true] at hrun
          have h1 : r1 = -1 := congrArg Prod.fst hrun
          subst h1
          have hstop : StopsR c s (ap, asub, aw) := ⟨ea, hla, codeRev_minus1 hcode⟩
          cases pre with
          | nil =>
            simp only [List.nil_append] at hL
            obtain ⟨h1, h2⟩ := List.cons.inj hL; subst h1
            exact absurd hstop hx
          | cons b pre' =>
            simp only [List.cons_append] at hL
            obtain ⟨h1, h2⟩ := List.cons.inj hL; subst h1
            exact absurd hstop (hpre _ List.mem_cons_self)

/-- the fold returns -1 or 1 -/
theorem runPos_rev_range (sh : Shape) (exec : Exec) (c : Cache) : ∀ (L : List Pos) (s : SearchSt),
    (runPos (pageRev sh exec) c L s).1 = -1 ∨ (runPos (pageRev sh exec) c L s).1 = 1 := by
  intro L
  induction L with
  | nil => intro s; left; rfl
  | cons a L ih =>
    intro s
    obtain ⟨ap, asub, aw⟩ := a
    rw [runPos_cons]
    cases lookupX c ap asub with
    | none => exact ih s
    | some ea =>
      simp only
      have hc := pageRev_fst sh exec s ap.toNat ea aw
      have hr := codeRev_range sh exec s ap.toNat ea aw
      generalize pageRev sh exec s ap.toNat ea aw = rs at hc
      obtain ⟨r1, s1⟩ := rs
      simp only at hc ⊢
      rw [← hc] at hr
      by_cases hr1 : r1 = 0
      · subst hr1; simp only [ne_eq, not_true_eq_false, ite_false]; exact ih s1
      · simp only [ne_eq, hr1, not_false_eq_true, ite_true]
        rcases hr with h | h | h
        · left; exact h
        · exact absurd h hr1
        · right; exact h

/-- the direction field survives `search_page_rev` -/
theorem pageRev_dir (sh : Shape) (exec : Exec) (s : SearchSt) (p : Nat) (e : Entry) (w : Bool) :
    (pageRev sh exec s p e w).2.dir = s.dir := by
  rcases pageRev_cases sh exec s p e w with ⟨_, h'⟩ | ⟨_, _, h'⟩ | ⟨_, _, hay, ne, _, h'⟩
  · rw [h']
  · rw [h']
  · rcases h' with ⟨_, h'⟩ | ⟨_, i, ms, me, _, _, h'⟩
    · rw [h']
    · rcases h' with ⟨_, h'⟩ | ⟨_, h'⟩
      · rw [h']
      · rw [h']; unfold highlight; rfl

theorem runPos_rev_dir (sh : Shape) (exec : Exec) (c : Cache) : ∀ (L : List Pos) (s : SearchSt),
    (runPos (pageRev sh exec) c L s).2.dir = s.dir := by
  intro L
  induction L with
  | nil => intro s; rfl
  | cons a L ih =>
    intro s
    obtain ⟨ap, asub, aw⟩ := a
    rw [runPos_cons]
    cases hla : lookupX c ap asub with
    | none => simp only; exact ih s
    | some ea =>
      simp only
      have hd := pageRev_dir sh exec s ap.toNat ea aw
      generalize pageRev sh exec s ap.toNat ea aw = rs at hd
      obtain ⟨r1, s1⟩ := rs
      simp only at hd ⊢
      by_cases hr1 : r1 ≠ 0
      · rw [if_pos hr1]; exact hd
      · rw [if_neg hr1, ih s1]; exact hd

end Zvbi.Search
