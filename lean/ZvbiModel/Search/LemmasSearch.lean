import ZvbiModel.Search.LemmasFactor
/-!
# Lemmas about search.c (C17): `vbi_search_next` through the walk refinement, haystack extents, highlight
-/
namespace Zvbi.Search

/-! ## a non-(-1) result of the fold comes from one callback on a found page -/

theorem runPos_hit {σ : Type} (cb : Callback σ) (c : Cache) : ∀ (L : List Pos) (s : σ) (r : Int) (s' : σ),
    runPos cb c L s = (r, s') → r ≠ -1 →
    ∃ p sub w e s0, (p, sub, w) ∈ L ∧ lookupX c p sub = some e ∧ cb s0 p.toNat e w = (r, s') := by
  intro L
  induction L with
  | nil =>
    intro s r s' h hr
    rw [show runPos cb c [] s = (-1, s) from rfl] at h
    injection h with h1 h2; omega
  | cons x L ih =>
    intro s r s' h hr
    obtain ⟨p, sub, w⟩ := x
    rw [runPos_cons] at h
    cases hl : lookupX c p sub with
    | none =>
      rw [hl] at h
      obtain ⟨p', sub', w', e, s0, hm, h1, h2⟩ := ih s r s' h hr
      exact ⟨p', sub', w', e, s0, List.mem_cons_of_mem _ hm, h1, h2⟩
    | some e =>
      rw [hl] at h; simp only at h
      cases hcb : cb s p.toNat e w with
      | mk r1 s1 =>
        rw [hcb] at h; simp only at h
        by_cases hr1 : r1 ≠ 0
        · simp only [hr1, ite_true, not_false_eq_true, ne_eq] at h
          injection h with h1 h2; subst h1 h2
          exact ⟨p, sub, w, e, s, List.mem_cons_self, hl, hcb⟩
        · have hr1' : r1 = 0 := by omega
          subst hr1'
          simp only [ne_eq, not_true_eq_false, ite_false] at h
          obtain ⟨p', sub', w', e', s0, hm, h1, h2⟩ := ih s1 r s' h hr
          exact ⟨p', sub', w', e', s0, List.mem_cons_of_mem _ hm, h1, h2⟩

theorem dirOf_cases (d : Int) : dirOf d = 1 ∨ dirOf d = -1 := by
  unfold dirOf; split <;> simp

theorem searchNext_factors (sh : Shape) (exec : Exec) (c : Cache) (s : SearchSt) (d : Int) (hne : c.nCached ≠ 0)
    (hp : PgOk (prepare sh s d).startPgno) (hok : StartOk sh c (prepare sh s d).startPgno) :
    (searchNext sh exec walkFuel c s d).res =
      statusOf (runPos (callbackOf sh exec d) c
        (walkPositions sh c (prepare sh s d).startPgno (prepare sh s d).startSubno (dirOf d)) (prepare sh s d)).1 := by
  unfold searchNext
  obtain ⟨h1, _⟩ := walk_factors sh (callbackOf sh exec d) c (prepare sh s d) (prepare sh s d).startPgno (prepare sh s d).startSubno
    (dirOf d) hne hp (dirOf_cases d)
  rw [walkRun_eq_runPos _ _ _ _ _ _ _ hp hok] at h1
  simp only [h1]

theorem searchNext_st (sh : Shape) (exec : Exec) (c : Cache) (s : SearchSt) (d : Int) (hne : c.nCached ≠ 0)
    (hp : PgOk (prepare sh s d).startPgno) (hok : StartOk sh c (prepare sh s d).startPgno) :
    (searchNext sh exec walkFuel c s d).st =
      (let r := runPos (callbackOf sh exec d) c
        (walkPositions sh c (prepare sh s d).startPgno (prepare sh s d).startSubno (dirOf d)) (prepare sh s d)
       if r.1 = -1 then { r.2 with dir := 0 } else r.2) := by
  unfold searchNext
  obtain ⟨h1, h2⟩ := walk_factors sh (callbackOf sh exec d) c (prepare sh s d) (prepare sh s d).startPgno (prepare sh s d).startSubno
    (dirOf d) hne hp (dirOf_cases d)
  rw [walkRun_eq_runPos _ _ _ _ _ _ _ hp hok] at h1 h2
  simp only [h1, h2]

/-- an empty cache is reported as such, never as NOT_FOUND or SUCCESS -/
theorem searchNext_empty (sh : Shape) (exec : Exec) (c : Cache) (s : SearchSt) (d : Int) (h0 : c.nCached = 0) :
    (searchNext sh exec walkFuel c s d).res = .ret SEARCH_CACHE_EMPTY := by
  unfold searchNext walk
  simp [h0, statusOf]

theorem statusOf_success {r : Int} (h : statusOf r = .ret SEARCH_SUCCESS) : r = 1 := by
  unfold statusOf at h
  by_cases h1 : r = 1
  · exact h1
  · simp only [h1, if_false] at h
    by_cases h2 : r = 0
    · simp [h2, SEARCH_CACHE_EMPTY, SEARCH_SUCCESS] at h
    · simp only [h2, if_false] at h
      by_cases h3 : r = -1
      · simp [h3, SEARCH_NOT_FOUND, SEARCH_SUCCESS] at h
      · simp only [h3, if_false] at h
        by_cases h4 : r = -2
        · simp [h4, SEARCH_CANCELED, SEARCH_SUCCESS] at h
        · simp only [h4, if_false] at h
          by_cases h5 : r = 2
          · simp [h5] at h
          · simp [h5, SEARCH_ERROR, SEARCH_SUCCESS] at h

theorem pageFwd_one {exec : Exec} {s0 : SearchSt} {p : Nat} {e : Entry} {w : Bool} {s' : SearchSt}
    (h : pageFwd sh exec s0 p e w = (1, s')) :
    e.func = FUNC_LOP ∧ ∃ ms me,
      exec (fwdFlags sh (hayFwd e.text (cursorRow s0 p e) s0.col0).1 (hayFwd e.text (cursorRow s0 p e) s0.col0).2) ((hayFwd e.text (cursorRow s0 p e) s0.col0).1.drop (hayFwd e.text (cursorRow s0 p e) s0.col0).2) = some (ms, me) ∧
      s' = highlight { s0 with pgPgno := p, pgSubno := e.subno, hl := [] } p e (hayFwd e.text (cursorRow s0 p e) s0.col0).2 ms me := by
  unfold pageFwd at h
  by_cases h1 : stopFwd s0 p e w = true
  · simp [h1] at h
  · simp only [h1, if_false, Bool.false_eq_true] at h
    by_cases h2 : e.func ≠ FUNC_LOP
    · simp [h2] at h
    · simp only [h2, if_false] at h
      by_cases h3 : cursorRow s0 p e > LAST_ROW
      · simp [h3] at h
      · simp only [h3, if_false] at h
        by_cases h4 : (hayFwd e.text (cursorRow s0 p e) s0.col0).2 ≥ (hayFwd e.text (cursorRow s0 p e) s0.col0).1.length
        · simp [h4] at h
        · simp only [h4, if_false] at h
          refine ⟨by simpa using h2, ?_⟩
          cases hx : exec (fwdFlags sh (hayFwd e.text (cursorRow s0 p e) s0.col0).1 (hayFwd e.text (cursorRow s0 p e) s0.col0).2) ((hayFwd e.text (cursorRow s0 p e) s0.col0).1.drop (hayFwd e.text (cursorRow s0 p e) s0.col0).2) with
          | none => rw [hx] at h; simp at h
          | some mm =>
            obtain ⟨ms, me⟩ := mm
            rw [hx] at h; simp only at h
            injection h with _ h
            exact ⟨ms, me, rfl, h.symm⟩

theorem searchNext_success_fwd (sh : Shape) (exec : Exec) (c : Cache) (s : SearchSt) (d : Int) (hd : d > 0)
    (hne : c.nCached ≠ 0) (hp : PgOk (prepare sh s d).startPgno) (hok : StartOk sh c (prepare sh s d).startPgno)
    (h : (searchNext sh exec walkFuel c s d).res = .ret SEARCH_SUCCESS) :
    ∃ p sub w e s0 ms me, (p, sub, w) ∈ walkPositions sh c (prepare sh s d).startPgno (prepare sh s d).startSubno 1 ∧
      lookupX c p sub = some e ∧ e.func = FUNC_LOP ∧
      exec (fwdFlags sh (hayFwd e.text (cursorRow s0 p.toNat e) s0.col0).1 (hayFwd e.text (cursorRow s0 p.toNat e) s0.col0).2) ((hayFwd e.text (cursorRow s0 p.toNat e) s0.col0).1.drop (hayFwd e.text (cursorRow s0 p.toNat e) s0.col0).2)
        = some (ms, me) ∧
      (searchNext sh exec walkFuel c s d).st =
        highlight { s0 with pgPgno := p.toNat, pgSubno := e.subno, hl := [] } p.toNat e
          (hayFwd e.text (cursorRow s0 p.toNat e) s0.col0).2 ms me := by
  have hst := searchNext_st sh exec c s d hne hp hok
  rw [searchNext_factors sh exec c s d hne hp hok] at h
  have hr1 := statusOf_success h
  have hdir : dirOf d = 1 := by unfold dirOf; simp [hd]
  have hcb : callbackOf sh exec d = pageFwd sh exec := by unfold callbackOf; simp [hd]
  rw [hdir, hcb] at hr1 hst
  generalize hrp : runPos (pageFwd sh exec) c (walkPositions sh c (prepare sh s d).startPgno (prepare sh s d).startSubno 1) (prepare sh s d) = rp at hr1 hst
  obtain ⟨r, s'⟩ := rp
  simp only at hr1 hst
  subst hr1
  obtain ⟨p, sub, w, e, s0, hm, hl, hcall⟩ := runPos_hit (pageFwd sh exec) c _ _ _ _ hrp (by decide)
  obtain ⟨hf, ms, me, hex, hs'⟩ := pageFwd_one hcall
  refine ⟨p, sub, w, e, s0, ms, me, hm, hl, hf, hex, ?_⟩
  rw [hst]; simp; exact hs'

/-! ## haystack extents -/

theorem rowIters_length (t : Text) (i : Nat) : ∀ (f j : Nat), (rowIters t i f j).length ≤ f := by
  intro f
  induction f with
  | zero => intro j; simp [rowIters]
  | succ f ih =>
    intro j
    unfold rowIters
    dsimp only
    split
    · simp
    · split
      · simp; exact ih _
      · split
        · simp; exact ih _
        · simp; exact ih _

theorem hayFwdRow_length (row col0 : Int) (i : Nat) : ∀ (its : List Iter) (acc : List Nat × Nat),
    (hayFwdRow row col0 i its acc).1.length ≤ acc.1.length + its.length := by
  intro its
  induction its with
  | nil => intro acc; simp [hayFwdRow]
  | cons it rest ih =>
    intro acc
    obtain ⟨hay, first⟩ := acc
    unfold hayFwdRow
    cases it.emit with
    | none => simp only; have := ih (hay, if (i : Int) = row ∧ (it.col : Int) ≤ col0 then hay.length else first); simp at this ⊢; omega
    | some u => simp only; have := ih (hay ++ [u], if (i : Int) = row ∧ (it.col : Int) ≤ col0 then hay.length else first); simp at this ⊢; omega

theorem hayFwd_fold_length (t : Text) (row col0 : Int) : ∀ (rows : List Nat) (acc : List Nat × Nat),
    (rows.foldl (hayFwdStep t row col0) acc).1.length ≤ acc.1.length + rows.length * 41 := by
  intro rows
  induction rows with
  | nil => intro acc; simp
  | cons i rows ih =>
    intro acc
    simp only [List.foldl_cons]
    have h1 := ih (hayFwdStep t row col0 acc i)
    have h2 := hayFwdRow_length row col0 i (rowIters t i 40 0) acc
    have h3 := rowIters_length t i 40 0
    unfold hayFwdStep at h1 ⊢
    simp only [List.length_append, List.length_cons, List.length_nil] at h1 ⊢
    omega

theorem hayFwd_length (t : Text) (row col0 : Int) : (hayFwd t row col0).1.length ≤ 23 * 41 := by
  unfold hayFwd
  have := hayFwd_fold_length t row col0 rowsList ([], 0)
  have hl : rowsList.length = 23 := by decide
  simp only [hl, List.length_nil] at this
  omega

theorem hayRevRow_length (row col1 : Int) (i : Nat) : ∀ (its : List Iter) (acc : List Nat × Bool),
    (hayRevRow row col1 i its acc).1.length ≤ acc.1.length + its.length := by
  intro its
  induction its with
  | nil => intro acc; obtain ⟨hay, ne⟩ := acc; simp [hayRevRow]
  | cons it rest ih =>
    intro acc
    obtain ⟨hay, ne⟩ := acc
    unfold hayRevRow
    by_cases hb : (i : Int) = row ∧ (it.col : Int) ≥ col1
    · simp [hb]
    · simp only [hb, if_false]
      cases it.emit with
      | none => simp only; have := ih (hay, ne); simp at this ⊢; omega
      | some u => simp only; have := ih (hay ++ [u], true); simp at this ⊢; omega

theorem hayRevRows_length (t : Text) (row col1 : Int) : ∀ (rows : List Nat) (hay : List Nat),
    (hayRevRows t row col1 rows hay).1.length ≤ hay.length + rows.length * 41 := by
  intro rows
  induction rows with
  | nil => intro hay; simp [hayRevRows]
  | cons i rows ih =>
    intro hay
    unfold hayRevRows
    have h2 := hayRevRow_length row col1 i (rowIters t i 40 0) (hay, false)
    have h3 := rowIters_length t i 40 0
    generalize hayRevRow row col1 i (rowIters t i 40 0) (hay, false) = r at h2
    obtain ⟨hay', ne, stopped⟩ := r
    simp only at h2 ⊢
    cases stopped with
    | true => simp; omega
    | false =>
      simp only [Bool.false_eq_true, if_false]
      have := ih (hay' ++ [SEPARATOR])
      simp only [List.length_append, List.length_cons, List.length_nil] at this
      simp only [List.length_cons]
      omega

theorem hayRev_length (t : Text) (row col1 : Int) : (hayRev t row col1).1.length ≤ 23 * 41 := by
  unfold hayRev
  split
  · simp
  · have := hayRevRows_length t row col1 rowsList []
    have hl : rowsList.length = 23 := by decide
    simp only [hl, List.length_nil] at this
    omega

/-! ## the repeated matching of `search_page_rev` -/

/-- the loop of search_page_rev ends for EVERY matcher: `pos` grows in every round (b5116c9) -/
theorem revMatches_total (sh : Shape) (exec : Exec) (hay : List Nat) (ne : Bool) :
    ∀ (f i ms me pos : Nat), hay.length - pos < f → revMatches sh exec hay ne f i ms me pos ≠ none := by
  intro f
  induction f with
  | zero => intro i ms me pos h; omega
  | succ f ih =>
    intro i ms me pos h
    unfold revMatches
    by_cases hlt : pos < hay.length
    · simp only [hlt, if_true]
      cases hx : exec (revFlags sh hay ne pos) (hay.drop pos) with
      | none => simp
      | some mm =>
        obtain ⟨ms1, me1⟩ := mm
        simp only
        apply ih
        split <;> omega
    · simp [hlt]

theorem revMatches_terminates (sh : Shape) (exec : Exec) (hay : List Nat) (ne : Bool) :
    revMatches sh exec hay ne (hay.length + 2) 0 0 0 0 ≠ none :=
  revMatches_total sh exec hay ne _ _ _ _ _ (by omega)

/-! ## highlight -/

/-- per haystack character of one row: the cells it occupies on the page -/
def layoutRow (i : Nat) : List Iter → List (List (Nat × Nat))
  | [] => []
  | it :: rest => if it.size ≤ 3 then hlCells i it.col it.size :: layoutRow i rest else layoutRow i rest

/-- per haystack character (row separators: no cell) of the whole page -/
def layout (t : Text) : List (List (Nat × Nat)) :=
  rowsList.flatMap (fun i => layoutRow i (rowIters t i 40 0) ++ [[]])

/-- the cells of the characters with ms <= offset < me, offsets counted from `off` -/
def paint (ms me : Int) : Int → List (List (Nat × Nat)) → List (Nat × Nat)
  | _, [] => []
  | off, x :: xs => (if ms ≤ off ∧ off < me then x else []) ++ paint ms me (off + 1) xs

theorem paint_done (ms me : Int) : ∀ (l : List (List (Nat × Nat))) (off : Int), me ≤ off → paint ms me off l = [] := by
  intro l
  induction l with
  | nil => intro off _; rfl
  | cons x xs ih =>
    intro off h
    unfold paint
    have : ¬ (ms ≤ off ∧ off < me) := by omega
    simp [this, ih (off + 1) (by omega)]

theorem paint_append (ms me : Int) : ∀ (a b : List (List (Nat × Nat))) (off : Int),
    paint ms me off (a ++ b) = paint ms me off a ++ paint ms me (off + a.length) b := by
  intro a
  induction a with
  | nil => intro b off; simp [paint]
  | cons x xs ih =>
    intro b off
    have e : off + 1 + (xs.length : Int) = off + ((xs.length + 1 : Nat) : Int) := by push_cast; omega
    simp only [List.cons_append, paint, ih, List.append_assoc, List.length_cons, e]

/-- the accumulator agrees with the virtual offset `voff` (offsets keep counting after `done`) -/
def HlOk (me : Int) (a : HlAcc) (voff : Int) : Prop :=
  (a.done = false ∧ voff = a.off) ∨ (a.done = true ∧ me ≤ voff)

theorem hlCells_big {i j size : Nat} (h : ¬ size ≤ 3) : hlCells i j size = [] := by
  unfold hlCells
  have h1 : size ≠ 3 := by omega
  have h2 : size ≠ 1 := by omega
  have h3 : size ≠ 2 := by omega
  have h4 : size ≠ 0 := by omega
  simp [h1, h2, h3, h4]

theorem hl_step_facts (ms : Int) (i : Nat) (it : Iter) (a : HlAcc) (hnd : a.done = false) :
    (hlAdvance it (hlPaint ms i it (hlMark ms i it a))).off = (if it.size ≤ 3 then a.off + 1 else a.off) ∧
    (hlAdvance it (hlPaint ms i it (hlMark ms i it a))).done = false ∧
    (hlAdvance it (hlPaint ms i it (hlMark ms i it a))).cells =
      a.cells ++ (if ms ≤ a.off then hlCells i it.col it.size else []) := by
  have m1 : (hlMark ms i it a).off = a.off ∧ (hlMark ms i it a).cells = a.cells ∧ (hlMark ms i it a).done = false := by
    unfold hlMark
    by_cases hlt : a.off < ms
    · by_cases h39 : it.col = 39
      · simp [hlt, h39, hnd]
      · simp [hlt, h39, hnd]
    · simp [hlt, hnd]
  have m2 : (hlPaint ms i it (hlMark ms i it a)).off = a.off ∧ (hlPaint ms i it (hlMark ms i it a)).done = false ∧
      (hlPaint ms i it (hlMark ms i it a)).cells = a.cells ++ (if ms ≤ a.off then hlCells i it.col it.size else []) := by
    unfold hlPaint
    by_cases hms : (hlMark ms i it a).off ≥ ms
    · have hms' : ms ≤ a.off := by rw [m1.1] at hms; exact hms
      simp [hms, hms', m1.1, m1.2.1, m1.2.2]
    · have hms' : ¬ ms ≤ a.off := by rw [m1.1] at hms; exact hms
      simp [hms, hms', m1.1, m1.2.1, m1.2.2]
  unfold hlAdvance
  by_cases hsz : it.size ≤ 3
  · simp [hsz, m2.1, m2.2.1, m2.2.2]
  · simp [hsz, m2.1, m2.2.1, m2.2.2]

theorem hlRow_spec (ms me : Int) (i : Nat) : ∀ (its : List Iter) (a : HlAcc) (voff : Int), HlOk me a voff →
    (hlRow ms me i its a).cells = a.cells ++ paint ms me voff (layoutRow i its) ∧
    HlOk me (hlRow ms me i its a) (voff + (layoutRow i its).length) := by
  intro its
  induction its with
  | nil =>
    intro a voff h
    simp only [hlRow, layoutRow, paint, List.append_nil, List.length_nil, Int.natCast_zero, Int.add_zero]
    exact ⟨trivial, h⟩
  | cons it rest ih =>
    intro a voff h
    unfold hlRow
    rcases h with ⟨hnd, hv⟩ | ⟨hd, hv⟩
    · -- running
      simp only [hnd, Bool.false_eq_true, if_false]
      by_cases hme : a.off ≥ me
      · simp only [hme, if_true]
        refine ⟨?_, Or.inr ⟨rfl, by omega⟩⟩
        rw [paint_done ms me _ voff (by omega)]; simp
      · simp only [hme, if_false]
        have hstep := hl_step_facts ms i it a hnd
        obtain ⟨q1, q2, q3⟩ := hstep
        by_cases hsz : it.size ≤ 3
        · obtain ⟨r1, r2⟩ := ih (hlAdvance it (hlPaint ms i it (hlMark ms i it a))) (voff + 1)
            (Or.inl ⟨q2, by rw [q1]; simp [hsz, hv]⟩)
          rw [r1, q3]
          simp only [hsz, if_true, layoutRow, paint, List.length_cons]
          refine ⟨?_, ?_⟩
          · have hc : (ms ≤ voff ∧ voff < me) ↔ ms ≤ a.off := by rw [hv]; constructor <;> intro h <;> omega
            by_cases hms : ms ≤ a.off
            · simp [hms, hc.mpr hms, List.append_assoc]
            · have : ¬ (ms ≤ voff ∧ voff < me) := fun h => hms (hc.mp h)
              simp [hms, this]
          · have : voff + ((layoutRow i rest).length + 1 : Nat) = voff + 1 + (layoutRow i rest).length := by push_cast; omega
            rw [this]; exact r2
        · obtain ⟨r1, r2⟩ := ih (hlAdvance it (hlPaint ms i it (hlMark ms i it a))) voff
            (Or.inl ⟨q2, by rw [q1]; simp [hsz, hv]⟩)
          rw [r1, q3]
          simp only [hsz, if_false, layoutRow]
          refine ⟨?_, r2⟩
          simp [hlCells_big hsz]
    · -- already done: nothing changes, nothing is painted
      simp only [hd, if_true]
      refine ⟨?_, Or.inr ⟨hd, by omega⟩⟩
      rw [paint_done ms me _ voff hv]; simp

theorem hl_fold_spec (t : Text) (ms me : Int) : ∀ (rows : List Nat) (a : HlAcc) (voff : Int), HlOk me a voff →
    (rows.foldl (hlStep t ms me) a).cells =
      a.cells ++ paint ms me voff (rows.flatMap (fun i => layoutRow i (rowIters t i 40 0) ++ [[]])) := by
  intro rows
  induction rows with
  | nil => intro a voff _; simp [paint]
  | cons i rows ih =>
    intro a voff h
    simp only [List.foldl_cons, List.flatMap_cons]
    rw [paint_append, paint_append]
    have hsep : ∀ o : Int, paint ms me o [[]] = [] := by intro o; simp [paint]
    have hlen : (voff + ((layoutRow i (rowIters t i 40 0) ++ [[]]).length : Nat) : Int) =
        voff + (layoutRow i (rowIters t i 40 0)).length + 1 := by simp; omega
    rcases h with ⟨hnd, hv⟩ | ⟨hd, hv⟩
    · obtain ⟨r1, r2⟩ := hlRow_spec ms me i (rowIters t i 40 0) a voff (Or.inl ⟨hnd, hv⟩)
      rcases r2 with ⟨hnd2, hv2⟩ | ⟨hd2, hv2⟩
      · have hs : hlStep t ms me a i = { hlRow ms me i (rowIters t i 40 0) a with off := (hlRow ms me i (rowIters t i 40 0) a).off + 1 } := by
          unfold hlStep; simp [hnd, hnd2]
        have hok : HlOk me ({ hlRow ms me i (rowIters t i 40 0) a with off := (hlRow ms me i (rowIters t i 40 0) a).off + 1 })
            (voff + (layoutRow i (rowIters t i 40 0) ++ [[]]).length) :=
          Or.inl ⟨hnd2, by rw [hlen]; show _ = (hlRow ms me i (rowIters t i 40 0) a).off + 1; omega⟩
        rw [hs, ih _ _ hok]
        simp only [r1, hsep, List.append_nil, List.append_assoc]
      · have hs : hlStep t ms me a i = hlRow ms me i (rowIters t i 40 0) a := by
          unfold hlStep; simp [hnd, hd2]
        rw [hs, ih _ (voff + (layoutRow i (rowIters t i 40 0) ++ [[]]).length) (Or.inr ⟨hd2, by rw [hlen]; omega⟩)]
        simp only [r1, hsep, List.append_nil, List.append_assoc]
    · have hs : hlStep t ms me a i = a := by unfold hlStep; simp [hd]
      rw [hs, ih a (voff + (layoutRow i (rowIters t i 40 0) ++ [[]]).length) (Or.inr ⟨hd, by rw [hlen]; omega⟩)]
      rw [paint_done ms me _ voff hv, paint_done ms me _ _ (by omega : me ≤ voff + ((layoutRow i (rowIters t i 40 0)).length : Int))]
      simp

theorem highlight_cells (s : SearchSt) (pgno : Nat) (e : Entry) (first ms me : Nat) :
    (highlight s pgno e first ms me).hl = paint ms me (-(first : Int)) (layout e.text) := by
  unfold highlight layout
  simp only
  rw [hl_fold_spec e.text ms me rowsList _ (-(first : Int)) (Or.inl ⟨rfl, rfl⟩)]
  simp

/-- the layout has one entry per haystack character -/
theorem layoutRow_length (row col0 : Int) (i : Nat) : ∀ (its : List Iter) (acc : List Nat × Nat),
    (∀ it ∈ its, it.emit.isSome = decide (it.size ≤ 3)) →
    (hayFwdRow row col0 i its acc).1.length = acc.1.length + (layoutRow i its).length := by
  intro its
  induction its with
  | nil => intro acc _; simp [hayFwdRow, layoutRow]
  | cons it rest ih =>
    intro acc h
    obtain ⟨hay, first⟩ := acc
    have hit := h it List.mem_cons_self
    have hrest : ∀ x ∈ rest, x.emit.isSome = decide (x.size ≤ 3) := fun x hx => h x (List.mem_cons_of_mem _ hx)
    unfold hayFwdRow layoutRow
    cases hem : it.emit with
    | none =>
      rw [hem] at hit
      have : ¬ it.size ≤ 3 := by simpa using hit.symm
      simp only [this, if_false]
      rw [ih _ hrest]
    | some u =>
      rw [hem] at hit
      have : it.size ≤ 3 := by simpa using hit.symm
      simp only [this, if_true, List.length_cons]
      rw [ih _ hrest]; simp; omega

theorem rowIters_emit (t : Text) (i : Nat) : ∀ (f j : Nat), ∀ it ∈ rowIters t i f j, it.emit.isSome = decide (it.size ≤ 3) := by
  intro f
  induction f with
  | zero => intro j it h; simp [rowIters] at h
  | succ f ih =>
    intro j it h
    unfold rowIters at h
    dsimp only at h
    split at h
    · simp at h
    · split at h
      · rename_i hsz
        rcases List.mem_cons.mp h with rfl | h
        · simp; omega
        · exact ih _ _ h
      · split at h
        · rename_i hsz
          rcases List.mem_cons.mp h with rfl | h
          · simp; omega
          · exact ih _ _ h
        · rename_i h1 h2
          rcases List.mem_cons.mp h with rfl | h
          · simp; omega
          · exact ih _ _ h

theorem layout_fold_length (t : Text) (row col0 : Int) : ∀ (rows : List Nat) (acc : List Nat × Nat),
    (rows.foldl (hayFwdStep t row col0) acc).1.length =
      acc.1.length + (rows.flatMap (fun i => layoutRow i (rowIters t i 40 0) ++ [[]])).length := by
  intro rows
  induction rows with
  | nil => intro acc; simp
  | cons i rows ih =>
    intro acc
    simp only [List.foldl_cons, List.flatMap_cons, List.length_append]
    rw [ih]
    unfold hayFwdStep
    simp only [List.length_append, List.length_cons, List.length_nil]
    rw [layoutRow_length row col0 i _ acc (rowIters_emit t i 40 0)]
    omega

theorem layout_length (t : Text) : (layout t).length = (hayFwd t (-1) 0).1.length := by
  unfold layout hayFwd
  rw [layout_fold_length]; simp

end Zvbi.Search
