import ZvbiModel.Search.LemmasPass2
/-!
# Lemmas towards `search_exact_full` (C17), part 5: induction over the calls of a forward pass

`runNexts_exact`: from any context between two forward calls (`PassInv`, `PassCtx`), on any cache equivalent to `c`: the
pages reported up to the first answer other than SUCCESS (a) come in ascending pass order, none before the start
position, and (b) when such an answer comes within the `n` calls, they include every matching page behind the start
position (and the start position itself when the cursor is at the top of the page).
-/
namespace Zvbi.Search

theorem runNexts_exact (sh : Shape) (exec : Exec) (c : Cache) (hcov : Covered c) (hnoff : NoFF c) (hcnt : Counted c)
    (P S0 : Int) (hP : PgOk P) (hS0 : 0 ≤ S0 ∧ S0 < 65536)
    (hany : sh.startExact = true ∨ ∀ p, ∀ e ∈ (c.slots p).chain, (e.subno : Int) ≠ ANY_SUBNO) :
    ∀ (n : Nat) (c' : Cache) (s : SearchSt), Equiv c c' → PassInv exec c s → StartOk sh c' s.startPgno → PassCtx sh P S0 s →
      ((runNexts sh exec c' s (List.replicate n 1)).takeWhile (fun r => r.1 = .ret SEARCH_SUCCESS)).length < n →
        ∀ q t : Nat, PgOk q → Matches exec c q t →
          (passRank P S0 s.startPgno s.startSubno < passRank P S0 q t ∨
            (passRank P S0 s.startPgno s.startSubno = passRank P S0 q t ∧ s.row0 = 1 ∧ s.col0 = 0)) →
          ∃ r ∈ (runNexts sh exec c' s (List.replicate n 1)).takeWhile (fun r => r.1 = .ret SEARCH_SUCCESS), r.2 = (q, t) := by
  intro n
  induction n with
  | zero => intro c' s _ _ _ _ hlen; simp at hlen
  | succ n ih =>
    intro c' s heq hinv hok hctx hlen q t hq hm hlo
    rw [List.replicate_succ] at hlen ⊢
    simp only [runNexts] at hlen ⊢
    by_cases hres : (searchNext sh exec walkFuel c' s 1).res = .ret SEARCH_SUCCESS
    · obtain ⟨hinv', hvalid, _, hsp, hss⟩ := pass_step sh exec c c' s heq hcov hnoff hinv hok hres
      obtain ⟨hctx', _, hgap⟩ := pass_step_order sh exec c c' s P S0 heq hcov hinv hok hP hS0 hctx hany hres
      rw [List.takeWhile_cons_of_pos (by simpa using hres)] at hlen ⊢
      have hge := hgap q t hq hm hlo
      by_cases hEq : passRank P S0 (searchNext sh exec walkFuel c' s 1).st.startPgno
          (searchNext sh exec walkFuel c' s 1).st.startSubno = passRank P S0 q t
      · -- it is the page just returned
        refine ⟨_, List.mem_cons_self, ?_⟩
        obtain ⟨e', hl', _, _⟩ := hm
        obtain ⟨htb, _, _⟩ := page_facts (Equiv.refl c) hcov hl'
        rw [passRank_rk, passRank_rk] at hEq
        have hk := rk_inj (key_bounds hP hS0) (key_bounds hinv'.pg hctx'.sub) (key_bounds hq htb) hEq
        rw [hsp, hss] at hk
        have hpg := hinv'.pg
        have hsb := hctx'.sub
        rw [hsp] at hpg; rw [hss] at hsb
        unfold key at hk; unfold PgOk at hpg hq
        have h1 : (searchNext sh exec walkFuel c' s 1).st.pgPgno = q := by omega
        have h2 : (searchNext sh exec walkFuel c' s 1).st.pgSubno = t := by omega
        simp only [h1, h2]
      · -- it lies behind the page just returned: a later call reports it
        have hlt : passRank P S0 (searchNext sh exec walkFuel c' s 1).st.startPgno
            (searchNext sh exec walkFuel c' s 1).st.startSubno < passRank P S0 q t := by omega
        obtain ⟨r, hr, hrq⟩ := ih _ _ (searchNext_cache_equiv sh exec walkFuel c c' s 1 heq) hinv'
          (startOk_of_valid sh _ _ hvalid) hctx' (by simp only [List.length_cons] at hlen; omega) q t hq hm (Or.inl hlt)
        exact ⟨r, List.mem_cons_of_mem _ hr, hrq⟩
    · -- the call answers NOT_FOUND: nothing behind the start position matches
      exfalso
      have hne : c'.nCached ≠ 0 := by
        rw [heq.ncached]
        apply hcnt
        obtain ⟨e', hl', _, _⟩ := hm
        exact ⟨_, List.ne_nil_of_mem (lookupX_mem hl')⟩
      have hprep : prepare sh s 1 = s := by
        unfold prepare dirOf
        have := hinv.dir
        simp [this]
      rcases searchNext_fwd_status sh exec c' s 1 (by decide) hne (by rw [hprep]; exact hinv.pg) (by rw [hprep]; exact hok)
        with h1 | h1
      · exact hres h1
      · exact pass_last sh exec c c' s P S0 heq hcov hinv hok hP hS0 hctx h1 q t hq hm hlo

/-- the pages reported by successive forward calls come in ascending pass order, none before the start position -/
theorem runNexts_ordered (sh : Shape) (exec : Exec) (c : Cache) (hcov : Covered c) (hnoff : NoFF c)
    (P S0 : Int) (hP : PgOk P) (hS0 : 0 ≤ S0 ∧ S0 < 65536)
    (hany : sh.startExact = true ∨ ∀ p, ∀ e ∈ (c.slots p).chain, (e.subno : Int) ≠ ANY_SUBNO) :
    ∀ (n : Nat) (c' : Cache) (s : SearchSt), Equiv c c' → PassInv exec c s → StartOk sh c' s.startPgno → PassCtx sh P S0 s →
      (∀ r ∈ (runNexts sh exec c' s (List.replicate n 1)).takeWhile (fun r => r.1 = .ret SEARCH_SUCCESS),
        passRank P S0 s.startPgno s.startSubno ≤ passRank P S0 r.2.1 r.2.2) ∧
      (((runNexts sh exec c' s (List.replicate n 1)).takeWhile (fun r => r.1 = .ret SEARCH_SUCCESS)).map
        (fun r => passRank P S0 r.2.1 r.2.2)).Pairwise (· ≤ ·) := by
  intro n
  induction n with
  | zero => intro c' s _ _ _ _; simp [runNexts]
  | succ n ih =>
    intro c' s heq hinv hok hctx
    rw [List.replicate_succ]
    simp only [runNexts]
    by_cases hres : (searchNext sh exec walkFuel c' s 1).res = .ret SEARCH_SUCCESS
    · obtain ⟨hinv', hvalid, _, hsp, hss⟩ := pass_step sh exec c c' s heq hcov hnoff hinv hok hres
      obtain ⟨hctx', hmono, _⟩ := pass_step_order sh exec c c' s P S0 heq hcov hinv hok hP hS0 hctx hany hres
      obtain ⟨ih1, ih2⟩ := ih _ _ (searchNext_cache_equiv sh exec walkFuel c c' s 1 heq) hinv'
        (startOk_of_valid sh _ _ hvalid) hctx'
      rw [List.takeWhile_cons_of_pos (by simpa using hres)]
      rw [hsp, hss] at hmono ih1
      refine ⟨?_, ?_⟩
      · intro r hr
        rcases List.mem_cons.mp hr with rfl | hr
        · exact hmono
        · exact Int.le_trans hmono (ih1 r hr)
      · rw [List.map_cons, List.pairwise_cons]
        refine ⟨?_, ih2⟩
        intro a ha
        obtain ⟨r, hr, rfl⟩ := List.mem_map.mp ha
        exact ih1 r hr
    · rw [List.takeWhile_cons_of_neg (by simpa using hres)]
      simp

theorem passRank_nonneg {P S0 q t : Int} (hB : 0 ≤ key P S0 ∧ key P S0 < 0x900 * 65536)
    (hY : 0 ≤ key q t ∧ key q t < 0x900 * 65536) : 0 ≤ passRank P S0 q t := by
  unfold passRank; split <;> omega

/-- context of a new search: `vbi_search_new` -/
theorem searchNew_fields {P S : Int} {s0 : SearchSt} (h : searchNew P S 1 = some s0) :
    s0.dir = 0 ∧ s0.stopPgno0 = P ∧ s0.stopSubno0 = (if S = ANY_SUBNO then 0 else S) := by
  unfold searchNew at h
  simp only [Nat.one_ne_zero, if_false] at h
  injection h with h
  subst h
  exact ⟨rfl, rfl, rfl⟩

/-- the pass set up: facts about the cache and the prepared context -/
theorem pass_setup (fix : Bool) (sh : Shape) (exec : Exec) (ops : List PutOp) (P S : Int) (s0 : SearchSt)
    (hops : ∀ o ∈ ops, o.subno ≤ 0x3F7F) (hnw : NoWrap (buildF fix ops)) (hP : PgOk P) (hS : 0 ≤ S ∧ S ≤ 0xFFFF)
    (hnew : searchNew P S 1 = some s0) :
    Covered (buildF fix ops) ∧ NoFF (buildF fix ops) ∧ Counted (buildF fix ops) ∧ s0.dir = 0 ∧
    PassInv exec (buildF fix ops) (prepare sh s0 1) ∧ StartOk sh (buildF fix ops) (prepare sh s0 1).startPgno ∧
    PassCtx sh P (if S = ANY_SUBNO then 0 else S) (prepare sh s0 1) ∧
    (0 ≤ (if S = ANY_SUBNO then 0 else S) ∧ (if S = ANY_SUBNO then 0 else S) < 65536) ∧
    passRank P (if S = ANY_SUBNO then 0 else S) (prepare sh s0 1).startPgno (prepare sh s0 1).startSubno = 0 ∧
    (prepare sh s0 1).row0 = 1 ∧ (prepare sh s0 1).col0 = 0 := by
  obtain ⟨hd0, hsp, hss⟩ := searchNew_fields hnew
  obtain ⟨hcov, _⟩ := reachableF fix sh ops hops hnw P hP
  obtain ⟨f1, f2, f3, f4, f5, f6⟩ := prepare_fresh_fwd sh (s := s0) (d := 1) (by decide) hd0
  obtain ⟨hinv, hst⟩ := passInv_fresh sh exec (buildF fix ops) s0 hd0 (by rw [hsp]; exact hP)
  have hS0 : 0 ≤ (if S = ANY_SUBNO then 0 else S) ∧ (if S = ANY_SUBNO then 0 else S) < 65536 := by
    split <;> omega
  have hne : (if S = ANY_SUBNO then 0 else S) ≠ ANY_SUBNO := by
    split
    · unfold ANY_SUBNO; decide
    · assumption
  refine ⟨hcov, buildF_noFF fix ops, buildF_counted fix ops, hd0, hinv, ?_, ⟨by rw [f3, hsp], by rw [f4, hss], ?_, ?_⟩,
    hS0, ?_, f5, f6⟩
  · rw [hst, hsp]; exact startOk_of_noFF sh (buildF_noFF fix ops) P hP
  · rw [f2, hss]; exact hS0
  · right; rw [f2, hss]; exact hne
  · rw [f1, f2, hsp, hss]; unfold passRank; simp


end Zvbi.Search
