import ZvbiModel.Search.LemmasSearch
import ZvbiModel.Search.Spec
/-!
# Lemmas towards `search_exact` (C17): a forward `vbi_search_next` that reports NOT_FOUND has run the matcher,
without success, on every page found at a walk position up to the stop position.
-/
namespace Zvbi.Search

/-- the fields of the search context that `search_page_fwd` reads -/
structure Frozen (s t : SearchSt) : Prop where
  p : t.startPgno = s.startPgno
  q : t.startSubno = s.startSubno
  sp : t.stopPgno0 = s.stopPgno0
  ss : t.stopSubno0 = s.stopSubno0
  r : t.row0 = s.row0
  c : t.col0 = s.col0

theorem Frozen.refl (s : SearchSt) : Frozen s s := ⟨rfl, rfl, rfl, rfl, rfl, rfl⟩
theorem Frozen.trans {a b d : SearchSt} (h1 : Frozen a b) (h2 : Frozen b d) : Frozen a d :=
  ⟨h2.p.trans h1.p, h2.q.trans h1.q, h2.sp.trans h1.sp, h2.ss.trans h1.ss, h2.r.trans h1.r, h2.c.trans h1.c⟩

theorem stopFwd_frozen {s t : SearchSt} (h : Frozen s t) (p : Nat) (e : Entry) (w : Bool) :
    stopFwd t p e w = stopFwd s p e w := by
  unfold stopFwd; rw [h.p, h.q, h.sp, h.ss]

theorem cursorRow_frozen {s t : SearchSt} (h : Frozen s t) (p : Nat) (e : Entry) :
    cursorRow t p e = cursorRow s p e := by
  unfold cursorRow; rw [h.p, h.q, h.r]

/-- the whole text (first = 0) is handed over with flags 0 in both source shapes -/
theorem fwdFlags_zero (sh : Shape) (hay : List Nat) : fwdFlags sh hay 0 = {} := by
  unfold fwdFlags insideRow; cases sh.anchors <;> simp

/-- return value of `search_page_fwd` -/
def codeFwd (sh : Shape) (exec : Exec) (s : SearchSt) (p : Nat) (e : Entry) (w : Bool) : Int :=
  if stopFwd s p e w then -1 else
  if e.func ≠ FUNC_LOP then 0 else
  if cursorRow s p e > LAST_ROW then 0 else
  if (hayFwd e.text (cursorRow s p e) s.col0).2 ≥ (hayFwd e.text (cursorRow s p e) s.col0).1.length then 0 else
  match exec (fwdFlags sh (hayFwd e.text (cursorRow s p e) s.col0).1 (hayFwd e.text (cursorRow s p e) s.col0).2) ((hayFwd e.text (cursorRow s p e) s.col0).1.drop (hayFwd e.text (cursorRow s p e) s.col0).2) with
  | none => 0
  | some _ => 1

theorem pageFwd_fst (sh : Shape) (exec : Exec) (s : SearchSt) (p : Nat) (e : Entry) (w : Bool) :
    (pageFwd sh exec s p e w).1 = codeFwd sh exec s p e w := by
  unfold pageFwd codeFwd
  by_cases h1 : stopFwd s p e w = true
  · rw [if_pos h1, if_pos h1]
  · rw [if_neg h1, if_neg h1]
    by_cases h2 : e.func ≠ FUNC_LOP
    · rw [if_pos h2, if_pos h2]
    · rw [if_neg h2, if_neg h2]
      dsimp only
      by_cases h3 : cursorRow s p e > LAST_ROW
      · rw [if_pos h3, if_pos h3]
      · rw [if_neg h3, if_neg h3]
        by_cases h4 : (hayFwd e.text (cursorRow s p e) s.col0).2 ≥ (hayFwd e.text (cursorRow s p e) s.col0).1.length
        · rw [if_pos h4, if_pos h4]
        · rw [if_neg h4, if_neg h4]
          generalize exec (fwdFlags sh (hayFwd e.text (cursorRow s p e) s.col0).1 (hayFwd e.text (cursorRow s p e) s.col0).2) ((hayFwd e.text (cursorRow s p e) s.col0).1.drop (hayFwd e.text (cursorRow s p e) s.col0).2) = r
          cases r with
          | none => rfl
          | some mm => obtain ⟨a, b⟩ := mm; rfl

theorem codeFwd_frozen (sh : Shape) (exec : Exec) {s t : SearchSt} (h : Frozen s t) (p : Nat) (e : Entry) (w : Bool) :
    codeFwd sh exec t p e w = codeFwd sh exec s p e w := by
  unfold codeFwd; rw [stopFwd_frozen h, cursorRow_frozen h, h.c]

theorem pageFwd_zero_frozen {exec : Exec} {s : SearchSt} {p : Nat} {e : Entry} {w : Bool} {s1 : SearchSt}
    (h : pageFwd sh exec s p e w = (0, s1)) : Frozen s s1 := by
  unfold pageFwd at h
  by_cases h1 : stopFwd s p e w = true
  · rw [if_pos h1] at h; injection h with h _; cases h
  · rw [if_neg h1] at h
    by_cases h2 : e.func ≠ FUNC_LOP
    · rw [if_pos h2] at h; injection h with _ h; subst h; exact Frozen.refl s
    · rw [if_neg h2] at h
      dsimp only at h
      by_cases h3 : cursorRow s p e > LAST_ROW
      · rw [if_pos h3] at h; injection h with _ h; subst h; exact ⟨rfl, rfl, rfl, rfl, rfl, rfl⟩
      · rw [if_neg h3] at h
        by_cases h4 : (hayFwd e.text (cursorRow s p e) s.col0).2 ≥ (hayFwd e.text (cursorRow s p e) s.col0).1.length
        · rw [if_pos h4] at h; injection h with _ h; subst h; exact ⟨rfl, rfl, rfl, rfl, rfl, rfl⟩
        · rw [if_neg h4] at h
          generalize exec (fwdFlags sh (hayFwd e.text (cursorRow s p e) s.col0).1 (hayFwd e.text (cursorRow s p e) s.col0).2) ((hayFwd e.text (cursorRow s p e) s.col0).1.drop (hayFwd e.text (cursorRow s p e) s.col0).2) = r at h
          cases r with
          | none => simp only at h; injection h with _ h; subst h; exact ⟨rfl, rfl, rfl, rfl, rfl, rfl⟩
          | some mm => obtain ⟨a, b⟩ := mm; simp only at h; injection h with h _; cases h

theorem codeFwd_minus1 {exec : Exec} {s : SearchSt} {p : Nat} {e : Entry} {w : Bool}
    (h : codeFwd sh exec s p e w = -1) : stopFwd s p e w = true := by
  unfold codeFwd at h
  by_cases h1 : stopFwd s p e w = true
  · exact h1
  · simp only [h1, if_false, Bool.false_eq_true] at h
    split at h
    · cases h
    · split at h
      · cases h
      · split at h
        · cases h
        · split at h <;> cases h

/-- position `x` stops the forward search in state `s` -/
def StopsF (c : Cache) (s : SearchSt) (x : Pos) : Prop :=
  ∃ e, lookupX c x.1 x.2.1 = some e ∧ stopFwd s x.1.toNat e x.2.2 = true

theorem stopsF_frozen {c : Cache} {s t : SearchSt} (h : Frozen s t) (x : Pos) : StopsF c t x ↔ StopsF c s x := by
  unfold StopsF
  constructor
  · rintro ⟨e, h1, h2⟩; exact ⟨e, h1, by rw [← stopFwd_frozen h]; exact h2⟩
  · rintro ⟨e, h1, h2⟩; exact ⟨e, h1, by rw [stopFwd_frozen h]; exact h2⟩

/-- a fold that ends with -1 has returned 0 on every found page before the first stopping position -/
theorem runPos_minus1 (sh : Shape) (exec : Exec) (c : Cache) : ∀ (L : List Pos) (s sf : SearchSt),
    runPos (pageFwd sh exec) c L s = (-1, sf) →
    ∀ (pre : List Pos) (x : Pos) (post : List Pos), L = pre ++ x :: post → (∀ y ∈ pre, ¬ StopsF c s y) →
      ¬ StopsF c s x → ∀ e, lookupX c x.1 x.2.1 = some e → codeFwd sh exec s x.1.toNat e x.2.2 = 0 := by
  intro L
  induction L with
  | nil => intro s sf _ pre x post h; simp at h
  | cons a L ih =>
    intro s sf hrun pre x post hL hpre hx e he
    obtain ⟨ap, asub, aw⟩ := a
    rw [runPos_cons] at hrun
    cases hla : lookupX c ap asub with
    | none =>
      rw [hla] at hrun
      cases pre with
      | nil =>
        simp only [List.nil_append] at hL
        obtain ⟨h1, h2⟩ := List.cons.inj hL; subst h1
        rw [hla] at he; cases he
      | cons b pre' =>
        simp only [List.cons_append] at hL
        obtain ⟨h1, h2⟩ := List.cons.inj hL
        exact ih s sf hrun pre' x post h2 (fun y hy => hpre y (List.mem_cons_of_mem _ hy)) hx e he
    | some ea =>
      rw [hla] at hrun; simp only at hrun
      cases hcb : pageFwd sh exec s ap.toNat ea aw with
      | mk r1 s1 =>
        rw [hcb] at hrun; simp only at hrun
        have hcode : codeFwd sh exec s ap.toNat ea aw = r1 := by rw [← pageFwd_fst, hcb]
        by_cases hr1 : r1 = 0
        · subst hr1
          simp only [ne_eq, not_true_eq_false, ite_false] at hrun
          have hfz : Frozen s s1 := pageFwd_zero_frozen hcb
          cases pre with
          | nil =>
            simp only [List.nil_append] at hL
            obtain ⟨h1, h2⟩ := List.cons.inj hL; subst h1
            simp only at he hx ⊢
            rw [hla] at he; injection he with he; subst he
            exact hcode
          | cons b pre' =>
            simp only [List.cons_append] at hL
            obtain ⟨h1, h2⟩ := List.cons.inj hL
            have := ih s1 sf hrun pre' x post h2
              (fun y hy => fun hs => hpre y (List.mem_cons_of_mem _ hy) ((stopsF_frozen hfz y).mp hs))
              (fun hs => hx ((stopsF_frozen hfz x).mp hs)) e he
            rw [codeFwd_frozen sh exec hfz] at this
            exact this
        · simp only [ne_eq, hr1, not_false_eq_true, ite_true] at hrun
          have h1 : r1 = -1 := congrArg Prod.fst hrun
          subst h1
          have hstop : StopsF c s (ap, asub, aw) := ⟨ea, hla, codeFwd_minus1 hcode⟩
          cases pre with
          | nil =>
            simp only [List.nil_append] at hL
            obtain ⟨h1, h2⟩ := List.cons.inj hL; subst h1
            exact absurd hstop hx
          | cons b pre' =>
            simp only [List.cons_append] at hL
            obtain ⟨h1, h2⟩ := List.cons.inj hL; subst h1
            exact absurd hstop (hpre _ List.mem_cons_self)

/-! ## the haystack does not depend on the cursor; a fresh cursor starts at its beginning -/

def rowChars : List Iter → List Nat
  | [] => []
  | it :: rest => (match it.emit with | some u => [u] | none => []) ++ rowChars rest

theorem hayFwdRow_fst (row col0 : Int) (i : Nat) : ∀ (its : List Iter) (acc : List Nat × Nat),
    (hayFwdRow row col0 i its acc).1 = acc.1 ++ rowChars its := by
  intro its
  induction its with
  | nil => intro acc; simp [hayFwdRow, rowChars]
  | cons it rest ih =>
    intro acc
    obtain ⟨hay, first⟩ := acc
    unfold hayFwdRow rowChars
    cases it.emit with
    | none => simp only; rw [ih]; simp
    | some u => simp only; rw [ih]; simp

theorem hayFwd_fold_fst (t : Text) (row col0 row' col0' : Int) : ∀ (rows : List Nat) (acc acc' : List Nat × Nat),
    acc.1 = acc'.1 → (rows.foldl (hayFwdStep t row col0) acc).1 = (rows.foldl (hayFwdStep t row' col0') acc').1 := by
  intro rows
  induction rows with
  | nil => intro acc acc' h; simpa using h
  | cons i rows ih =>
    intro acc acc' h
    simp only [List.foldl_cons]
    apply ih
    unfold hayFwdStep
    simp only [hayFwdRow_fst, h]

theorem hayFwd_fst_indep (t : Text) (row col0 row' col0' : Int) : (hayFwd t row col0).1 = (hayFwd t row' col0').1 := by
  unfold hayFwd; exact hayFwd_fold_fst t row col0 row' col0' rowsList _ _ rfl

/-- no row is the cursor row: `first` stays where it was -/
theorem hayFwdRow_snd_keep (row col0 : Int) (i : Nat) (hne : (i : Int) ≠ row) : ∀ (its : List Iter) (acc : List Nat × Nat),
    (hayFwdRow row col0 i its acc).2 = acc.2 := by
  intro its
  induction its with
  | nil => intro acc; simp [hayFwdRow]
  | cons it rest ih =>
    intro acc
    obtain ⟨hay, first⟩ := acc
    unfold hayFwdRow
    have : ¬ ((i : Int) = row ∧ (it.col : Int) ≤ col0) := fun h => hne h.1
    cases it.emit with
    | none => simp only [this, if_false]; rw [ih]
    | some u => simp only [this, if_false]; rw [ih]

theorem hayFwd_fold_snd_keep (t : Text) (row col0 : Int) : ∀ (rows : List Nat) (acc : List Nat × Nat),
    (∀ i ∈ rows, (i : Int) ≠ row) → (rows.foldl (hayFwdStep t row col0) acc).2 = acc.2 := by
  intro rows
  induction rows with
  | nil => intro acc _; rfl
  | cons i rows ih =>
    intro acc h
    simp only [List.foldl_cons]
    rw [ih _ (fun j hj => h j (List.mem_cons_of_mem _ hj))]
    unfold hayFwdStep
    simp only
    exact hayFwdRow_snd_keep row col0 i (h i List.mem_cons_self) _ _

/-- a page that is not the start page is searched from its beginning -/
theorem hayFwd_first_nocursor (t : Text) (col0 : Int) : (hayFwd t (-1) col0).2 = 0 := by
  unfold hayFwd
  rw [hayFwd_fold_snd_keep]
  intro i _; omega

theorem rowIters_col_ge (t : Text) (i : Nat) : ∀ (f j : Nat), ∀ it ∈ rowIters t i f j, j ≤ it.col := by
  intro f
  induction f with
  | zero => intro j it h; simp [rowIters] at h
  | succ f ih =>
    intro j it h
    unfold rowIters at h
    dsimp only at h
    split at h
    · simp at h
    · split at h
      · rcases List.mem_cons.mp h with rfl | h
        · simp
        · have := ih _ _ h; omega
      · split at h
        · rcases List.mem_cons.mp h with rfl | h
          · simp
          · have := ih _ _ h; omega
        · rcases List.mem_cons.mp h with rfl | h
          · simp
          · have := ih _ _ h; omega

/-- cursor row with cursor column 0, nothing collected yet: `first` can only be set while the haystack is empty -/
theorem hayFwdRow_snd_fresh (row : Int) (i : Nat) : ∀ (its : List Iter) (acc : List Nat × Nat),
    acc.2 = 0 → (∀ it ∈ its, acc.1.length = 0 ∨ 1 ≤ it.col) → (∀ it ∈ its.tail, 1 ≤ it.col) →
    (hayFwdRow row 0 i its acc).2 = 0 := by
  intro its
  induction its with
  | nil => intro acc h _ _; simpa [hayFwdRow] using h
  | cons it rest ih =>
    intro acc h0 hall htail
    obtain ⟨hay, first⟩ := acc
    simp only at h0; subst h0
    unfold hayFwdRow
    have hnew : (if (i : Int) = row ∧ (it.col : Int) ≤ 0 then hay.length else 0) = 0 := by
      by_cases hc : (i : Int) = row ∧ (it.col : Int) ≤ 0
      · simp only [hc, and_self, if_true]
        rcases hall it List.mem_cons_self with h | h
        · exact h
        · omega
      · rw [if_neg hc]
    have hrest : ∀ x ∈ rest, 1 ≤ x.col := fun x hx => htail x (by simpa using hx)
    cases it.emit with
    | none =>
      simp only
      exact ih _ hnew (fun x hx => Or.inr (hrest x hx)) (fun x hx => hrest x (List.mem_of_mem_tail hx))
    | some u =>
      simp only
      exact ih _ hnew (fun x hx => Or.inr (hrest x hx)) (fun x hx => hrest x (List.mem_of_mem_tail hx))

theorem rowIters_tail_col (t : Text) (i : Nat) : ∀ it ∈ (rowIters t i 40 0).tail, 1 ≤ it.col := by
  intro it h
  have hunf : rowIters t i 40 0 = rowIters t i (39 + 1) 0 := rfl
  rw [hunf] at h
  unfold rowIters at h
  dsimp only at h
  split at h
  · simp at h
  · split at h
    · simp only [List.tail_cons] at h; have := rowIters_col_ge t i _ _ _ h; omega
    · split at h
      · simp only [List.tail_cons] at h; have := rowIters_col_ge t i _ _ _ h; omega
      · simp only [List.tail_cons] at h; have := rowIters_col_ge t i _ _ _ h; omega

/-- a fresh pass (cursor row 1, column 0) searches the start page from its beginning -/
theorem hayFwd_first_fresh (t : Text) : (hayFwd t 1 0).2 = 0 := by
  unfold hayFwd
  have hrows : rowsList = 1 :: (List.range 22).map (· + 2) := by decide
  rw [hrows, List.foldl_cons, hayFwd_fold_snd_keep]
  · unfold hayFwdStep
    simp only
    exact hayFwdRow_snd_fresh 1 1 _ _ rfl (fun _ _ => Or.inl rfl) (rowIters_tail_col t 1)
  · intro i hi
    simp only [List.mem_map, List.mem_range] at hi
    obtain ⟨k, _, rfl⟩ := hi
    omega

theorem hayFwd_nonempty (t : Text) (row col0 : Int) : 0 < (hayFwd t row col0).1.length := by
  unfold hayFwd
  have hrows : rowsList = (List.range 22).map (· + 1) ++ [23] := by decide
  rw [hrows, List.foldl_append]
  simp only [List.foldl_cons, List.foldl_nil]
  unfold hayFwdStep
  simp

/-- in a fresh forward pass (cursor row 1, column 0) a level one page that does not stop the pass is searched from
    its beginning: the return value tells whether the WHOLE text contains the pattern -/
theorem codeFwd_fresh (sh : Shape) (exec : Exec) {s1 : SearchSt} (hr : s1.row0 = 1) (hc : s1.col0 = 0) (p : Nat) (e : Entry) (w : Bool)
    (hlop : e.func = FUNC_LOP) (hns : stopFwd s1 p e w = false) :
    codeFwd sh exec s1 p e w = (match exec {} (hayFwd e.text (-1) 0).1 with | none => 0 | some _ => 1) := by
  unfold codeFwd
  have hlop' : ¬ e.func ≠ FUNC_LOP := by simpa using hlop
  rw [hns]
  simp only [Bool.false_eq_true, if_false, hlop']
  have hrow : cursorRow s1 p e = 1 ∨ cursorRow s1 p e = -1 := by
    unfold cursorRow; split
    · left; exact hr
    · right; rfl
  have hfirst : (hayFwd e.text (cursorRow s1 p e) s1.col0).2 = 0 := by
    rw [hc]
    rcases hrow with h1 | h1 <;> rw [h1]
    · exact hayFwd_first_fresh e.text
    · exact hayFwd_first_nocursor e.text 0
  have hlen := hayFwd_nonempty e.text (cursorRow s1 p e) s1.col0
  have hrl : ¬ cursorRow s1 p e > LAST_ROW := by
    unfold LAST_ROW; rcases hrow with h1 | h1 <;> rw [h1] <;> decide
  rw [if_neg hrl, hfirst, if_neg (by omega)]
  simp only [List.drop_zero, fwdFlags_zero]
  rw [hayFwd_fst_indep e.text (cursorRow s1 p e) s1.col0 (-1) 0]

theorem codeFwd_not_stop {exec : Exec} {s : SearchSt} {p : Nat} {e : Entry} {w : Bool}
    (h : codeFwd sh exec s p e w ≠ -1) : stopFwd s p e w = false := by
  cases hs : stopFwd s p e w with
  | false => rfl
  | true => unfold codeFwd at h; rw [hs] at h; simp at h

theorem codeFwd_one_lop {exec : Exec} {s : SearchSt} {p : Nat} {e : Entry} {w : Bool}
    (h : codeFwd sh exec s p e w = 1) : e.func = FUNC_LOP := by
  unfold codeFwd at h
  split at h
  · cases h
  · split at h
    · cases h
    · rename_i h2; simpa using h2

/-! ## NOT_FOUND on a fresh forward pass -/

theorem statusOf_not_found {r : Int} (h : statusOf r = .ret SEARCH_NOT_FOUND) : r = -1 := by
  unfold statusOf at h
  by_cases h1 : r = 1
  · simp [h1, SEARCH_SUCCESS, SEARCH_NOT_FOUND] at h
  · simp only [h1, if_false] at h
    by_cases h2 : r = 0
    · simp [h2, SEARCH_CACHE_EMPTY, SEARCH_NOT_FOUND] at h
    · simp only [h2, if_false] at h
      by_cases h3 : r = -1
      · exact h3
      · simp only [h3, if_false] at h
        by_cases h4 : r = -2
        · simp [h4, SEARCH_CANCELED, SEARCH_NOT_FOUND] at h
        · simp only [h4, if_false] at h
          by_cases h5 : r = 2
          · simp [h5] at h
          · simp [h5, SEARCH_ERROR, SEARCH_NOT_FOUND] at h

theorem lookupX_subno {c : Cache} {p sub : Int} {e : Entry} (h : lookupX c p sub = some e) :
    (e.subno : Int) = sub := by
  unfold lookupX at h
  have := List.find?_some h
  simpa [predX] using this

theorem lookupX_mem {c : Cache} {p sub : Int} {e : Entry} (h : lookupX c p sub = some e) :
    e ∈ (c.slots p.toNat).chain := by
  unfold lookupX at h
  exact List.mem_of_find?_eq_some h

/-- a start position given with an exact sub-page number is where the walk starts -/
theorem startSub_exact (sh : Shape) (c : Cache) (p sub : Int) (hs : sh.startExact = true ∨ sub ≠ ANY_SUBNO) :
    startSub sh c p sub = sub := by
  cases hse : sh.startExact with
  | true => exact startSub_repaired sh hse c p sub
  | false =>
    have hs' : sub ≠ ANY_SUBNO := by
      rcases hs with h | h
      · rw [hse] at h; cases h
      · exact h
    unfold startSub startSubS lookupS startSubOf
    simp only [hse, Bool.false_eq_true, if_false]
    cases hl : lookup c p sub with
    | none => simp only; rw [if_neg hs']
    | some e =>
      simp only
      unfold lookup at hl
      by_cases hv : validPgno p = true
      · simp only [hv, if_true] at hl
        have := List.find?_some hl
        simpa [pred, hs'] using this
      · simp [hv] at hl

/-- a fresh forward pass: state after `prepare` -/
theorem prepare_fresh_fwd (sh : Shape) {s : SearchSt} {d : Int} (hd : d > 0) (hfresh : s.dir = 0) :
    (prepare sh s d).startPgno = s.stopPgno0 ∧ (prepare sh s d).startSubno = s.stopSubno0 ∧
    (prepare sh s d).stopPgno0 = s.stopPgno0 ∧ (prepare sh s d).stopSubno0 = s.stopSubno0 ∧
    (prepare sh s d).row0 = 1 ∧ (prepare sh s d).col0 = 0 := by
  unfold prepare dirOf
  simp [hd, hfresh, FIRST_ROW]

theorem searchNext_not_found_fresh_fwd (sh : Shape) (exec : Exec) (c : Cache) (s : SearchSt) (d : Int) (hd : d > 0)
    (hfresh : s.dir = 0) (hne : c.nCached ≠ 0) (hp : PgOk s.stopPgno0) (hok : StartOk sh c s.stopPgno0)
    (h : (searchNext sh exec walkFuel c s d).res = .ret SEARCH_NOT_FOUND) :
    ∀ x ∈ walkPositions sh c s.stopPgno0 s.stopSubno0 1,
      (x.2.2 = false ∨ key x.1 x.2.1 < key s.stopPgno0 s.stopSubno0) →
      ∀ e, lookupX c x.1 x.2.1 = some e → e.func = FUNC_LOP → exec {} (hayFwd e.text (-1) 0).1 = none := by
  obtain ⟨f1, f2, f3, f4, f5, f6⟩ := prepare_fresh_fwd sh (s := s) hd hfresh
  have hp' : PgOk (prepare sh s d).startPgno := by rw [f1]; exact hp
  have hok' : StartOk sh c (prepare sh s d).startPgno := by rw [f1]; exact hok
  rw [searchNext_factors sh exec c s d hne hp' hok'] at h
  have hr := statusOf_not_found h
  have hdir : dirOf d = 1 := by unfold dirOf; simp [hd]
  have hcb : callbackOf sh exec d = pageFwd sh exec := by unfold callbackOf; simp [hd]
  rw [hdir, hcb, f1, f2] at hr
  generalize hrp : runPos (pageFwd sh exec) c (walkPositions sh c s.stopPgno0 s.stopSubno0 1) (prepare sh s d) = rp at hr
  obtain ⟨r, sf⟩ := rp
  simp only at hr; subst hr
  intro x hx hwin e he hlop
  obtain ⟨pre, post, hL⟩ := List.append_of_mem hx
  -- sortedness of the positions
  obtain ⟨o1, _, o3⟩ := (show (walkPositions sh c s.stopPgno0 s.stopSubno0 1).Pairwise LtF ∧ True ∧
      ∀ y ∈ (walkPositions sh c s.stopPgno0 s.stopSubno0 1).tail, PgOk y.1 ∧ Landed (c.stat y.1) y.2.1 from by
    unfold walkPositions
    obtain ⟨g1, g2⟩ := positions_sorted_fwd c walkFuel s.stopPgno0 (startSub sh c s.stopPgno0 s.stopSubno0) false hp
    refine ⟨?_, trivial, ?_⟩
    · rw [List.pairwise_cons]; exact ⟨fun y hy => (g1 y hy).1, g2⟩
    · intro y hy; simp only [List.tail_cons] at hy; exact (g1 y hy).2)
  -- a wrapped position lies in the tail, hence at a sub-page number 0 .. 0xFFFF of a valid page number
  have hwrapped : ∀ y ∈ walkPositions sh c s.stopPgno0 s.stopSubno0 1, y.2.2 = true →
      PgOk y.1 ∧ Landed (c.stat y.1) y.2.1 := by
    intro y hy hw
    unfold walkPositions at hy
    rcases List.mem_cons.mp hy with rfl | hy
    · simp at hw
    · exact o3 y (by unfold walkPositions; simpa using hy)
  -- which positions stop the pass
  have hstop : ∀ y ∈ walkPositions sh c s.stopPgno0 s.stopSubno0 1,
      (y.2.2 = false ∨ key y.1 y.2.1 < key s.stopPgno0 s.stopSubno0) → ¬ StopsF c (prepare sh s d) y := by
    intro y hy hyw ⟨ey, hey, hst⟩
    unfold stopFwd at hst
    rw [f1, f2, f3, f4] at hst
    simp only [ge_iff_le, Int.le_refl, if_true, Bool.and_eq_true, decide_eq_true_eq] at hst
    rcases hyw with hyw | hyw
    · rw [hyw] at hst; exact absurd hst.1 (by simp)
    · obtain ⟨hpy, hiny⟩ := hwrapped y hy hst.1
      have hsub : (ey.subno : Int) = y.2.1 := lookupX_subno hey
      have hpn : ((y.1.toNat : Nat) : Int) = y.1 := by unfold PgOk at hpy; omega
      rw [hpn, hsub] at hst
      omega
  have hxns := hstop x hx hwin
  have hprens : ∀ y ∈ pre, ¬ StopsF c (prepare sh s d) y := by
    intro y hy
    have hyL : y ∈ walkPositions sh c s.stopPgno0 s.stopSubno0 1 := by rw [hL]; exact List.mem_append_left _ hy
    apply hstop y hyL
    rw [hL] at o1
    have hlt : LtF y x := (List.pairwise_append.mp o1).2.2 y hy x List.mem_cons_self
    unfold LtF at hlt
    rcases hwin with hxw | hxk
    · left
      rcases hlt with ⟨h1, _⟩ | ⟨h1, _⟩
      · exact h1
      · rw [h1]; exact hxw
    · rcases hlt with ⟨h1, _⟩ | ⟨h1, h2⟩
      · left; exact h1
      · cases hyw : y.2.2 with
        | false => left; rfl
        | true =>
          right
          have hxw : x.2.2 = true := by rw [← h1]; exact hyw
          obtain ⟨_, hinx⟩ := hwrapped x hx hxw
          obtain ⟨_, hiny⟩ := hwrapped y hyL hyw
          have bx := landed_bounds hinx
          have by' := landed_bounds hiny
          unfold key at hxk ⊢
          omega
  have hcode := runPos_minus1 sh exec c _ _ _ hrp pre x post hL hprens hxns e he
  -- code 0 on a level one page that does not stop the pass: the matcher found nothing in the whole page
  have hns : stopFwd (prepare sh s d) x.1.toNat e x.2.2 = false := by
    cases hsf : stopFwd (prepare sh s d) x.1.toNat e x.2.2 with
    | false => rfl
    | true => exact absurd ⟨e, he, hsf⟩ hxns
  rw [codeFwd_fresh sh exec f5 f6 _ _ _ hlop hns] at hcode
  cases hx' : exec {} (hayFwd e.text (-1) 0).1 with
  | none => rfl
  | some mm => rw [hx'] at hcode; simp at hcode

end Zvbi.Search
