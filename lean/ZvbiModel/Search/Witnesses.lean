import ZvbiModel.Search.WitnessBase
import ZvbiModel.Search.Current
/-!
# Concrete witnesses (C17): the states and call sequences on which the property FAILED before the repairs
5e41e82 (D3, D2 at 256 pages), ed2772e (D4), ce86777 (D5), 8b7ac93 (D1) - now evaluated to the correct answers.
The walks and searches are evaluated in the source shape of the CURRENT /repo (`Shape.current`, read by
translate/gen_search.py); none of these inputs involves sub-page number 0x3F7F at a start position, so the answers are the
same in both shapes.  Closed terms are evaluated by the kernel (`decide +kernel`); this file holds the walk-level facts, WitnessD3 /
WitnessD4 one whole `vbi_search_next` each (the kernel needs ~40 s per page text: `hay ++ [u]` is quadratic there).  Each witness is replayed on the C code
(corpus/C17/D*.ops).  The general statements are in Props/C17.lean; these are their instances on the historical
failing inputs.
-/
namespace Zvbi.Search
set_option maxRecDepth 100000

/-! ## D4: the start page of a backward search -/

/-- page 102 (sub-page 0) contains "ab"; nothing else is cached -/
def cexD4 : Cache := build [⟨0x102, 0, 0, abPage⟩]

/-- `vbi_search_new (0x102, VBI_ANY_SUBNO, "ab")` -/
def cexD4Search : SearchSt := (searchNew 0x102 ANY_SUBNO 2).getD {}

/-- the backward walk from (102, 3F7E) - where `vbi_search_new (102, ANY)` puts the start of a backward pass - stays
    on page 102 and reaches its sub-page 0 in the FIRST sweep (before ed2772e it left the page at once) -/
theorem cexD4_facts :
    (cexD4Search.stopPgno1, cexD4Search.stopSubno1) = (0x102, 0x3F7E) ∧
    (walkPositions Shape.current cexD4 0x102 0x3F7E (-1)).take 2 = [(0x102, 0x3F7E, false), (0x102, 0, false)] ∧
    (walk Shape.current logTwo walkFuel cexD4 [] 0x102 0x3F7E (-1)).st.take 1 = [(0x102, 0, false)] := by
  refine ⟨by decide +kernel, by decide +kernel, by decide +kernel⟩

/-! ## D3: sub-page number 0 in the statistics -/

/-- page 899 stored with sub-code 0 (contains "ab"), then with sub-code 5 -/
def cexD3 : Cache := build [⟨0x899, 0, 0, abPage⟩, ⟨0x899, 5, 0, []⟩]

/-- the window of page 899 is [0, 5] (before 5e41e82: [5, 5]) and a forward walk from 8FF meets 899.0, then 899.5 -/
theorem cexD3_facts :
    (cexD3.slots 0x899).stat = ⟨2, 0, 5⟩ ∧
    (walk Shape.current logTwo walkFuel cexD3 [] 0x8FF 0 1).st = [(0x899, 0, true), (0x899, 5, true)] := by
  refine ⟨by decide +kernel, by decide +kernel⟩

/-! ## D2 at 256 pages: `n_subpages` is 16 bits wide now -/

/-- 256 times: page 100 with sub-code 1, then with sub-code 0x100 (which replaces the most recently used page of
    that number, whatever its sub-code) -/
def cexD2 : Cache :=
  (List.range 256).foldl (fun c _ => put (put c 0x100 1 0 []) 0x100 0x100 0 []) Cache.empty

theorem cexD2_facts :
    (cexD2.slots 0x100).chain.length = 256 ∧ (cexD2.slots 0x100).stat = ⟨256, 1, 0x100⟩ ∧
    inRange (cexD2.stat 0x100) 0x100 = true := by
  refine ⟨by decide +kernel, by decide +kernel, by decide +kernel⟩

/-- the same history on the repaired shape of `_vbi_cache_put_page` (fixes/C10-put-replaces-all-versions.diff): the store
    with sub-code 0x100 - a single-version key - deletes every cached page of the number -/
def cexD2R : Cache :=
  (List.range 256).foldl (fun c _ => putR (putR c 0x100 1 0 []) 0x100 0x100 0 []) Cache.empty

theorem cexD2R_facts :
    (cexD2R.slots 0x100).chain.map (·.subno) = [0x100] ∧ (cexD2R.slots 0x100).stat = ⟨1, 0x100, 0x100⟩ ∧
    cexD2R.nCached = 1 := by
  refine ⟨by decide +kernel, by decide +kernel, by decide +kernel⟩

/-! ## D5: sub-page number 0x3F7F is looked up exactly inside the walk -/

/-- hex page 1A2 with sub-codes 0x3F7E and 0x3F7F -/
def cexD5 : Cache := build [⟨0x1A2, 0x3F7E, 0, []⟩, ⟨0x1A2, 0x3F7F, 0, []⟩]

def cexD5Visits : List (Nat × Nat × Bool) := (walk Shape.current logTwo walkFuel cexD5 [] 0x1A2 0x3F7D 1).st

theorem cexD5_facts :
    (cexD5.slots 0x1A2).chain.map (·.subno) = [0x3F7F, 0x3F7E] ∧
    cexD5Visits = [(0x1A2, 0x3F7E, false), (0x1A2, 0x3F7F, false)] := by
  refine ⟨by decide +kernel, by decide +kernel⟩

end Zvbi.Search
