import ZvbiModel.Search.LemmasRev3
/-!
# Lemmas towards the BACKWARD whole-pass statement (C17), part 4: induction over the calls of a backward pass

Mirror of LemmasPass (`runNexts_sound`) and LemmasPass3 (`runNexts_exact`, `runNexts_ordered`, `pass_setup`) for
`runNexts sh exec c s (List.replicate n (-1))`.
-/
namespace Zvbi.Search

/-- **repeated backward calls**: from a context with `PassInvR`, on any cache equivalent to `c`, every page reported
    up to the first answer other than SUCCESS matches -/
theorem runNexts_sound_rev (sh : Shape) (exec : Exec) (c : Cache) (hcov : Covered c) (hnoff : NoFF c) :
    ∀ (n : Nat) (c' : Cache) (s : SearchSt), Equiv c c' → PassInvR exec c s → StartOk sh c' s.startPgno →
      ∀ r ∈ (runNexts sh exec c' s (List.replicate n (-1))).takeWhile (fun r => r.1 = .ret SEARCH_SUCCESS),
        MatchesIR exec c r.2.1 r.2.2 := by
  intro n
  induction n with
  | zero => intro c' s _ _ _ r hr; simp [runNexts] at hr
  | succ n ih =>
    intro c' s heq hinv hok r hr
    rw [List.replicate_succ] at hr
    simp only [runNexts] at hr
    by_cases hres : (searchNext sh exec walkFuel c' s (-1)).res = .ret SEARCH_SUCCESS
    · obtain ⟨hinv', hvalid, hm, _, _⟩ := pass_step_rev sh exec c c' s heq hcov hnoff hinv hok hres
      rw [List.takeWhile_cons_of_pos (by simpa using hres)] at hr
      rcases List.mem_cons.mp hr with rfl | hr
      · exact hm
      · exact ih _ _ (searchNext_cache_equivR sh exec walkFuel c c' s (-1) heq) hinv'
          (startOk_of_validR sh _ _ hvalid) r hr
    · rw [List.takeWhile_cons_of_neg (by simpa using hres)] at hr
      cases hr

/-- **completeness over the calls**: when an answer other than SUCCESS comes within the `n` calls, every matching page
    behind the start position in backward pass order (and the start position itself while the cursor is below the
    page) has been reported -/
theorem runNexts_exact_rev (sh : Shape) (exec : Exec) (c : Cache) (hcov : Covered c) (hsm : SmallSub c) (hnoff : NoFF c) (hcnt : Counted c)
    (BP BS : Int) (hBP : PgOk BP) (hBS : -2 ≤ BS ∧ BS < 65536)
    (hany : sh.startExact = true ∨ ∀ p, ∀ e ∈ (c.slots p).chain, (e.subno : Int) ≠ ANY_SUBNO) :
    ∀ (n : Nat) (c' : Cache) (s : SearchSt), Equiv c c' → PassInvR exec c s → StartOk sh c' s.startPgno → PassCtxR sh BP BS s →
      ((runNexts sh exec c' s (List.replicate n (-1))).takeWhile (fun r => r.1 = .ret SEARCH_SUCCESS)).length < n →
        ∀ q t : Nat, PgOk q → Matches exec c q t →
          (rkR (key BP BS) (key s.startPgno s.startSubno) < rkR (key BP BS) (key q t) ∨
            (rkR (key BP BS) (key s.startPgno s.startSubno) = rkR (key BP BS) (key q t) ∧ 24 ≤ s.row1)) →
          ∃ r ∈ (runNexts sh exec c' s (List.replicate n (-1))).takeWhile (fun r => r.1 = .ret SEARCH_SUCCESS), r.2 = (q, t) := by
  intro n
  induction n with
  | zero => intro c' s _ _ _ _ hlen; simp at hlen
  | succ n ih =>
    intro c' s heq hinv hok hctx hlen q t hq hm hlo
    rw [List.replicate_succ] at hlen ⊢
    simp only [runNexts] at hlen ⊢
    by_cases hres : (searchNext sh exec walkFuel c' s (-1)).res = .ret SEARCH_SUCCESS
    · obtain ⟨hinv', hvalid, _, hsp, hss⟩ := pass_step_rev sh exec c c' s heq hcov hnoff hinv hok hres
      obtain ⟨hctx', _, hgap⟩ := pass_step_order_rev sh exec c c' s BP BS heq hcov hsm hinv hok hBP hBS hctx hany hres
      rw [List.takeWhile_cons_of_pos (by simpa using hres)] at hlen ⊢
      have hge := hgap q t hq hm hlo
      by_cases hEq : rkR (key BP BS) (key (searchNext sh exec walkFuel c' s (-1)).st.startPgno
          (searchNext sh exec walkFuel c' s (-1)).st.startSubno) = rkR (key BP BS) (key q t)
      · -- it is the page just returned
        refine ⟨_, List.mem_cons_self, ?_⟩
        obtain ⟨e', hl', _, _⟩ := hm
        obtain ⟨htb, _, _⟩ := page_factsR (Equiv.refl c) hcov hl'
        have hk := rkR_inj (key_bounds2 hBP hBS) (key_bounds2 hinv'.pg hctx'.sub) (key_boundsR hq htb) hEq
        rw [hsp, hss] at hk
        have hpg := hinv'.pg
        have hsb := hctx'.sub
        rw [hsp] at hpg; rw [hss] at hsb
        unfold key at hk; unfold PgOk at hpg hq
        have h1 : (searchNext sh exec walkFuel c' s (-1)).st.pgPgno = q := by omega
        have h2 : (searchNext sh exec walkFuel c' s (-1)).st.pgSubno = t := by omega
        simp only [h1, h2]
      · -- it lies behind the page just returned: a later call reports it
        have hlt : rkR (key BP BS) (key (searchNext sh exec walkFuel c' s (-1)).st.startPgno
            (searchNext sh exec walkFuel c' s (-1)).st.startSubno) < rkR (key BP BS) (key q t) := by omega
        obtain ⟨r, hr, hrq⟩ := ih _ _ (searchNext_cache_equivR sh exec walkFuel c c' s (-1) heq) hinv'
          (startOk_of_validR sh _ _ hvalid) hctx' (by simp only [List.length_cons] at hlen; omega) q t hq hm (Or.inl hlt)
        exact ⟨r, List.mem_cons_of_mem _ hr, hrq⟩
    · -- the call answers NOT_FOUND: nothing behind the start position matches
      exfalso
      have hne : c'.nCached ≠ 0 := by
        rw [heq.ncached]
        apply hcnt
        obtain ⟨e', hl', _, _⟩ := hm
        exact ⟨_, List.ne_nil_of_mem (lookupX_mem hl')⟩
      have hprep : prepare sh s (-1) = s := prepare_same_rev sh hinv.dir
      rcases searchNext_rev_status sh exec c' s hne (by rw [hprep]; exact hinv.pg) (by rw [hprep]; exact hok)
        with h1 | h1
      · exact hres h1
      · exact pass_last_rev sh exec c c' s BP BS heq hcov hsm hinv hok hBP hBS hctx h1 q t hq hm hlo

/-- the pages reported by successive backward calls come in descending page order (ascending backward rank), none
    before the start position -/
theorem runNexts_ordered_rev (sh : Shape) (exec : Exec) (c : Cache) (hcov : Covered c) (hsm : SmallSub c) (hnoff : NoFF c)
    (BP BS : Int) (hBP : PgOk BP) (hBS : -2 ≤ BS ∧ BS < 65536)
    (hany : sh.startExact = true ∨ ∀ p, ∀ e ∈ (c.slots p).chain, (e.subno : Int) ≠ ANY_SUBNO) :
    ∀ (n : Nat) (c' : Cache) (s : SearchSt), Equiv c c' → PassInvR exec c s → StartOk sh c' s.startPgno → PassCtxR sh BP BS s →
      (∀ r ∈ (runNexts sh exec c' s (List.replicate n (-1))).takeWhile (fun r => r.1 = .ret SEARCH_SUCCESS),
        rkR (key BP BS) (key s.startPgno s.startSubno) ≤ rkR (key BP BS) (key r.2.1 r.2.2)) ∧
      (((runNexts sh exec c' s (List.replicate n (-1))).takeWhile (fun r => r.1 = .ret SEARCH_SUCCESS)).map
        (fun r => rkR (key BP BS) (key r.2.1 r.2.2))).Pairwise (· ≤ ·) := by
  intro n
  induction n with
  | zero => intro c' s _ _ _ _; simp [runNexts]
  | succ n ih =>
    intro c' s heq hinv hok hctx
    rw [List.replicate_succ]
    simp only [runNexts]
    by_cases hres : (searchNext sh exec walkFuel c' s (-1)).res = .ret SEARCH_SUCCESS
    · obtain ⟨hinv', hvalid, _, hsp, hss⟩ := pass_step_rev sh exec c c' s heq hcov hnoff hinv hok hres
      obtain ⟨hctx', hmono, _⟩ := pass_step_order_rev sh exec c c' s BP BS heq hcov hsm hinv hok hBP hBS hctx hany hres
      obtain ⟨ih1, ih2⟩ := ih _ _ (searchNext_cache_equivR sh exec walkFuel c c' s (-1) heq) hinv'
        (startOk_of_validR sh _ _ hvalid) hctx'
      rw [List.takeWhile_cons_of_pos (by simpa using hres)]
      rw [hsp, hss] at hmono ih1
      refine ⟨?_, ?_⟩
      · intro r hr
        rcases List.mem_cons.mp hr with rfl | hr
        · exact hmono
        · exact Int.le_trans hmono (ih1 r hr)
      · rw [List.map_cons, List.pairwise_cons]
        refine ⟨?_, ih2⟩
        intro a ha
        obtain ⟨r, hr, rfl⟩ := List.mem_map.mp ha
        exact ih1 r hr
    · rw [List.takeWhile_cons_of_neg (by simpa using hres)]
      simp

/-! ## the pass set up -/

/-- context of a new search: `vbi_search_new`, the backward stop position -/
theorem searchNew_fields_rev {P S : Int} {s0 : SearchSt} (h : searchNew P S 1 = some s0) :
    s0.dir = 0 ∧ s0.stopPgno1 = (revStart P S).1 ∧ s0.stopSubno1 = (revStart P S).2 := by
  unfold searchNew at h
  simp only [Nat.one_ne_zero, if_false] at h
  unfold revStart
  by_cases h1 : S ≤ 0
  · simp only [h1, if_true] at h ⊢
    injection h with h; subst h; exact ⟨rfl, rfl, rfl⟩
  · by_cases h2 : S % 128 = 0
    · simp only [h1, h2, if_true, if_false] at h ⊢
      injection h with h; subst h; exact ⟨rfl, rfl, rfl⟩
    · simp only [h1, h2, if_false] at h ⊢
      injection h with h; subst h; exact ⟨rfl, rfl, rfl⟩

/-- a fresh backward pass: state after `prepare` (start position := stop position 1, cursor below the page) -/
theorem prepare_fresh_rev (sh : Shape) {s : SearchSt} (hfresh : s.dir = 0) :
    (prepare sh s (-1)).startPgno = s.stopPgno1 ∧ (prepare sh s (-1)).startSubno = s.stopSubno1 ∧
    (prepare sh s (-1)).stopPgno1 = s.stopPgno1 ∧ (prepare sh s (-1)).stopSubno1 = s.stopSubno1 ∧
    (prepare sh s (-1)).row1 = 25 ∧ (prepare sh s (-1)).dir = -1 := by
  unfold prepare dirOf
  simp [hfresh, LAST_ROW]

theorem searchNext_prepared_rev (sh : Shape) (exec : Exec) (fuel : Nat) (c : Cache) (s : SearchSt) (hfresh : s.dir = 0) :
    searchNext sh exec fuel c s (-1) = searchNext sh exec fuel c (prepare sh s (-1)) (-1) := by
  have hpp : prepare sh (prepare sh s (-1)) (-1) = prepare sh s (-1) := by
    unfold prepare dirOf
    simp [hfresh]
  unfold searchNext
  rw [hpp]

theorem runNexts_prepared_rev (sh : Shape) (exec : Exec) (c : Cache) (s : SearchSt) (hfresh : s.dir = 0) (n : Nat) :
    runNexts sh exec c s (List.replicate n (-1)) = runNexts sh exec c (prepare sh s (-1)) (List.replicate n (-1)) := by
  cases n with
  | zero => rfl
  | succ n =>
    rw [List.replicate_succ]
    simp only [runNexts]
    rw [searchNext_prepared_rev sh exec walkFuel c s hfresh]

theorem smallSub_buildF (fix : Bool) (ops : List PutOp) (hops : ∀ o ∈ ops, o.subno ≤ 0x3F7F) (hnw : NoWrap (buildF fix ops)) :
    SmallSub (buildF fix ops) := by
  intro p e he
  have hI := buildF_inv fix ops hops p
  have h1 := (hI.cover (hnw p) e he).2
  have h2 := hI.small
  omega

/-- the backward pass set up: facts about the cache and the prepared context.  (For S = 0x80 `vbi_search_new` computes
    `(0x80 - 0x100) | 0x7E = -2` as the backward stop sub-page number: the pass starts at the position (P, -2).) -/
theorem pass_setup_rev (fix : Bool) (sh : Shape) (exec : Exec) (ops : List PutOp) (P S : Int) (s0 : SearchSt)
    (hops : ∀ o ∈ ops, o.subno ≤ 0x3F7F) (hnw : NoWrap (buildF fix ops)) (hP : PgOk P) (hS : 0 ≤ S ∧ S ≤ 0xFFFF)
    (hnew : searchNew P S 1 = some s0) :
    Covered (buildF fix ops) ∧ NoFF (buildF fix ops) ∧ Counted (buildF fix ops) ∧ s0.dir = 0 ∧
    PassInvR exec (buildF fix ops) (prepare sh s0 (-1)) ∧ StartOk sh (buildF fix ops) (prepare sh s0 (-1)).startPgno ∧
    PassCtxR sh (revStart P S).1 (revStart P S).2 (prepare sh s0 (-1)) ∧
    PgOk (revStart P S).1 ∧ (-2 ≤ (revStart P S).2 ∧ (revStart P S).2 < 65536) ∧
    rkR (key (revStart P S).1 (revStart P S).2) (key (prepare sh s0 (-1)).startPgno (prepare sh s0 (-1)).startSubno) = 0 ∧
    24 ≤ (prepare sh s0 (-1)).row1 ∧ SmallSub (buildF fix ops) := by
  obtain ⟨hd0, hsp, hss⟩ := searchNew_fields_rev hnew
  obtain ⟨hcov, _⟩ := reachableF fix sh ops hops hnw P hP
  obtain ⟨f1, f2, f3, f4, f5, f6⟩ := prepare_fresh_rev sh (s := s0) hd0
  obtain ⟨hBP, hBS, hBne⟩ := revStart_facts hP hS
  have hpg : PgOk (prepare sh s0 (-1)).startPgno := by rw [f1, hsp]; exact hBP
  refine ⟨hcov, buildF_noFF fix ops, buildF_counted fix ops, hd0, ⟨f6, hpg, Or.inl (by rw [f5]; decide)⟩, ?_,
    ⟨by rw [f3, hsp], by rw [f4, hss], by rw [f2, hss]; exact hBS, Or.inr (by rw [f2, hss]; exact hBne)⟩,
    hBP, hBS, ?_, by rw [f5]; decide, smallSub_buildF fix ops hops hnw⟩
  · exact startOk_of_noFF sh (buildF_noFF fix ops) _ hpg
  · rw [f1, f2, hsp, hss]; exact rkR_self _

end Zvbi.Search
