import ZvbiModel.Search.LemmasRev2
import ZvbiModel.Search.LemmasRevAux
/-!
# Lemmas towards the BACKWARD whole-pass statement (C17), part 3: one backward call of a pass

Mirror of LemmasPass / LemmasPass2 for `vbi_search_next (.., -1)`:

* `revStart`, `passRankRev`: where a backward pass starts (the position `vbi_search_new` stores as stop position 1,
  "just before (P, S)") and the order in which it has to report pages (descending from there, wrapping once below 100.0
  to 8FF.FFFF).
* `PassInvR`, `PassCtxR`: the search context between two backward calls.
* `pass_step_rev`: a backward call that reports SUCCESS returns a page that matches as a whole.
* `pass_step_order_rev`, `pass_last_rev`: order / gap-freeness of one call; NOT_FOUND means nothing is left.
-/
namespace Zvbi.Search

/-! ## start position and order of a backward pass -/

/-- `vbi_search_new`: stop position 1 = the position "just before (P, S)"; a fresh backward pass starts there -/
def revStart (P S : Int) : Int × Int :=
  if S ≤ 0 then ((if P ≤ 0x100 then 0x8FF else P - 1), 0x3F7E)
  else if S % 128 = 0 then (P, S - 0x100 + 0x7E)
  else (P, S - 1)

/-- backward distance of key `z` from key `B`: descending, wrapping once -/
def rkR (B z : Int) : Int := if z ≤ B then B - z else B - z + 0x900 * 65536

/-- distance of page (q, t) from the start position of a backward pass of a search created for (P, S): descending
    page / sub-page numbers from `revStart P S`, wrapping below 100.0 to 8FF.FFFF -/
def passRankRev (P S q t : Int) : Int := rkR (key (revStart P S).1 (revStart P S).2) (key q t)

theorem rkR_inj {B y x : Int} (hB : 0 ≤ B ∧ B < 0x900 * 65536) (hy : 0 ≤ y ∧ y < 0x900 * 65536)
    (hx : 0 ≤ x ∧ x < 0x900 * 65536) (h : rkR B y = rkR B x) : y = x := by
  unfold rkR at h
  by_cases h1 : y ≤ B <;> by_cases h2 : x ≤ B <;> simp only [h1, h2, if_true, if_false] at h <;> omega

theorem rkR_nonneg {B y : Int} (hB : 0 ≤ B ∧ B < 0x900 * 65536) (hy : 0 ≤ y ∧ y < 0x900 * 65536) : 0 ≤ rkR B y := by
  unfold rkR; split <;> omega

theorem rkR_self (B : Int) : rkR B B = 0 := by unfold rkR; simp

/-- `-2`: for S = 0x80 `vbi_search_new` computes `(0x80 - 0x100) | 0x7E = -2` -/
theorem revStart_facts {P S : Int} (hP : PgOk P) (hS : 0 ≤ S ∧ S ≤ 0xFFFF) :
    PgOk (revStart P S).1 ∧ (-2 ≤ (revStart P S).2 ∧ (revStart P S).2 < 65536) ∧ (revStart P S).2 ≠ ANY_SUBNO := by
  unfold revStart PgOk ANY_SUBNO at *
  split
  · split <;> simp only <;> omega
  · split <;> simp only <;> omega

theorem key_bounds2 {p s : Int} (hp : PgOk p) (hs : -2 ≤ s ∧ s < 65536) : 0 ≤ key p s ∧ key p s < 0x900 * 65536 := by
  unfold key PgOk at *; omega

/-- every cached sub-page number is at most 0x3F7F (what `_vbi_cache_put_page` stores: `Inv`, `hops`) -/
def SmallSub (c : Cache) : Prop := ∀ p, ∀ e ∈ (c.slots p).chain, e.subno ≤ 0x3F7F

/-- where a page `y` that is due before the page found `x` stands in the backward walk that starts at `A` -/
theorem ltb_arith (A B x y : Int) (xw : Bool) (hA : 0 ≤ A ∧ A < 0x900 * 65536) (hB : 0 ≤ B ∧ B < 0x900 * 65536)
    (hx : 0 ≤ x ∧ x < 0x900 * 65536) (hy : 0 ≤ y ∧ y < 0x900 * 65536)
    (hns1 : A ≤ B → xw = true → x > B) (hns2 : A > B → x ≤ A ∧ x > B) (hxA : xw = false → x ≤ A)
    (hlo : rkR B A ≤ rkR B y) (hhi : rkR B y < rkR B x) :
    (y ≤ A → (xw = true ∨ y > x)) ∧ (y > A → (xw = true ∧ y > x)) := by
  unfold rkR at hlo hhi
  cases xw with
  | false =>
    simp only [Bool.false_eq_true, false_implies, forall_const, false_or, false_and] at hns1 hxA ⊢
    by_cases h1 : A ≤ B <;> by_cases h2 : y ≤ B <;> by_cases h3 : x ≤ B <;>
      simp only [h1, h2, h3, if_true, if_false] at hlo hhi <;> constructor <;> intro _ <;> omega
  | true =>
    simp only [forall_const, true_or, true_and, implies_true] at hns1 ⊢
    by_cases h1 : A ≤ B <;> by_cases h2 : y ≤ B <;> by_cases h3 : x ≤ B <;>
      simp only [h1, h2, h3, if_true, if_false] at hlo hhi <;> intro _ <;> omega

/-- the page found is not before the start position in backward pass order -/
theorem rank_mono_arith_rev (A B x : Int) (xw : Bool) (hA : 0 ≤ A ∧ A < 0x900 * 65536) (hB : 0 ≤ B ∧ B < 0x900 * 65536)
    (hx : 0 ≤ x ∧ x < 0x900 * 65536)
    (hns1 : A ≤ B → xw = true → x > B) (hns2 : A > B → x ≤ A ∧ x > B) (hxA : xw = false → x ≤ A) :
    rkR B A ≤ rkR B x := by
  unfold rkR
  cases xw with
  | false =>
    simp only [Bool.false_eq_true, false_implies, forall_const] at hns1 hxA
    by_cases h1 : A ≤ B <;> by_cases h3 : x ≤ B <;> simp only [h1, h3, if_true, if_false] <;> omega
  | true =>
    simp only [forall_const] at hns1
    by_cases h1 : A ≤ B <;> by_cases h3 : x ≤ B <;> simp only [h1, h3, if_true, if_false] <;> omega

/-- a page `y` behind the start position `A` in backward pass order, and everything the walk probes before it, does
    not stop the pass -/
theorem nostop_arith_rev (A B y z : Int) (zw : Bool) (hA : 0 ≤ A ∧ A < 0x900 * 65536) (hB : 0 ≤ B ∧ B < 0x900 * 65536)
    (hy : 0 ≤ y ∧ y < 0x900 * 65536) (hz : 0 ≤ z ∧ z < 0x900 * 65536)
    (hlo : rkR B A ≤ rkR B y) (hzA : zw = false → z ≤ A)
    (hzy : (y ≤ A → zw = false ∧ z ≥ y) ∧ (y > A → (zw = false ∨ z ≥ y))) :
    (A ≤ B → ¬ (zw = true ∧ z ≤ B)) ∧ (A > B → ¬ (z > A ∨ z ≤ B)) := by
  unfold rkR at hlo
  cases zw with
  | false =>
    simp only [Bool.false_eq_true, false_and, not_false_eq_true, implies_true, true_and, forall_const, true_or] at hzA hzy ⊢
    by_cases h1 : A ≤ B <;> by_cases h2 : y ≤ B <;> simp only [h1, h2, if_true, if_false] at hlo <;> intro _ <;> omega
  | true =>
    obtain ⟨hzy1, hzy2⟩ := hzy
    have hyA : y > A := by
      by_cases h : y ≤ A
      · exact absurd (hzy1 h).1 (by decide)
      · omega
    have hz' : z ≥ y := by
      rcases hzy2 hyA with h | h
      · exact absurd h (by decide)
      · exact h
    simp only [true_and]
    by_cases h1 : A ≤ B <;> by_cases h2 : y ≤ B <;> simp only [h1, h2, if_true, if_false] at hlo <;>
      constructor <;> intro _ <;> omega

/-! ## the positions of a backward walk -/

theorem LtB_irrefl (a : Pos) : ¬ LtB a a := by
  obtain ⟨ap, as, aw⟩ := a
  unfold LtB; simp only
  cases aw <;> simp

theorem mem_pre_of_ltB {pre post : List Pos} {x y : Pos} (hs : (pre ++ x :: post).Pairwise LtB)
    (hy : y ∈ pre ++ x :: post) (hlt : LtB y x) : y ∈ pre := by
  rcases List.mem_append.mp hy with h | h
  · exact h
  · exfalso
    rcases List.mem_cons.mp h with rfl | h
    · exact LtB_irrefl _ hlt
    · have hp := (List.pairwise_append.mp hs).2.1
      rw [List.pairwise_cons] at hp
      exact LtB_irrefl _ (LtB_trans (hp.1 y h) hlt)

/-- the positions of a backward walk from (Q, T): descending; every one is a valid page number and is the start
    position or behind it -/
theorem walkPos_facts_rev (sh : Shape) (c : Cache) (Q T : Int) (hQ : PgOk Q) (hstart : startSub sh c Q T = T) :
    (walkPositions sh c Q T (-1)).Pairwise LtB ∧
    ∀ z ∈ walkPositions sh c Q T (-1), PgOk z.1 ∧ (z = (Q, T, false) ∨ LtB (Q, T, false) z) := by
  obtain ⟨g1, g2⟩ := positions_sorted_bwd c walkFuel Q T false hQ
  unfold walkPositions
  rw [hstart]
  refine ⟨?_, ?_⟩
  · rw [List.pairwise_cons]; exact ⟨fun y hy => (g1 y hy).1, g2⟩
  · intro z hz
    rcases List.mem_cons.mp hz with rfl | hz
    · exact ⟨hQ, Or.inl rfl⟩
    · exact ⟨(g1 z hz).2.1, Or.inr (g1 z hz).1⟩

/-- every sub-page inside the statistics window of a valid page number is probed by the backward walk: in the first
    sweep when it is not above the start position, in the wrapped sweep otherwise -/
theorem walkPos_mem_rev (sh : Shape) (c : Cache) (Q T : Int) (hQ : PgOk Q) (hstart : startSub sh c Q T = T)
    (hT : -2 ≤ T ∧ T < 65536) (q t : Int) (hq : PgOk q) (ht : 0 ≤ t ∧ t < 65536) (hin : inRange (c.stat q) t = true) :
    (q, t, decide (key q t > key Q T)) ∈ walkPositions sh c Q T (-1) := by
  unfold walkPositions
  rw [hstart]
  by_cases hk : key q t > key Q T
  · simp only [hk, decide_true]
    apply List.mem_cons_of_mem
    exact positions_complete_bwd c walkFuel _ _ false hQ (rankB_lt_fuel hQ _ _) q t true hq hin (Or.inr ⟨rfl, rfl⟩)
  · simp only [hk, decide_false]
    by_cases heq : q = Q ∧ t = T
    · rw [heq.1, heq.2]; exact List.mem_cons_self
    · apply List.mem_cons_of_mem
      apply positions_complete_bwd c walkFuel _ _ false hQ (rankB_lt_fuel hQ _ _) q t false hq hin
      left; refine ⟨rfl, ?_⟩
      unfold key at hk
      unfold PgOk at hQ hq
      omega

/-- what `search_page_rev` not stopping at a page says, on keys -/
theorem stopsRevP_not_iff (s : SearchSt) (p : Nat) (e : Entry) (w : Bool) :
    ¬ StopsRevP s p e w ↔
      ((key s.startPgno s.startSubno ≤ key s.stopPgno1 s.stopSubno1 → ¬ (w = true ∧ key p e.subno ≤ key s.stopPgno1 s.stopSubno1)) ∧
       (key s.startPgno s.startSubno > key s.stopPgno1 s.stopSubno1 →
          ¬ (key p e.subno > key s.startPgno s.startSubno ∨ key p e.subno ≤ key s.stopPgno1 s.stopSubno1))) := by
  unfold StopsRevP
  by_cases h1 : key s.startPgno s.startSubno ≤ key s.stopPgno1 s.stopSubno1
  · have h1' : ¬ key s.startPgno s.startSubno > key s.stopPgno1 s.stopSubno1 := by omega
    simp only [h1, if_true, h1', false_implies, and_true, forall_const]
  · have h1' : key s.startPgno s.startSubno > key s.stopPgno1 s.stopSubno1 := by omega
    simp only [h1, if_false, h1', false_implies, true_and, forall_const]

/-! ## one backward call of a pass -/

/-- the search context between two backward calls of a pass: direction set, start position on a valid page number, and
    EITHER the cursor is still below the page (row[1] = LAST_ROW + 1 as `vbi_search_next` prepares it for a new pass: the
    whole text is searched) OR the start position is a page that matches (the page the previous call returned) -/
structure PassInvR (exec : Exec) (c : Cache) (s : SearchSt) : Prop where
  dir : s.dir = -1
  pg : PgOk s.startPgno
  cur : 24 ≤ s.row1 ∨ MatchesIR exec c s.startPgno s.startSubno

/-- context of a pass between two backward calls: stop position 1 is where the pass began, the start sub-page number
    fits 16 bits (or is the -2 `vbi_search_new` computes for S = 0x80) and is no wildcard for the start look-up of the walk -/
structure PassCtxR (sh : Shape) (BP BS : Int) (s : SearchSt) : Prop where
  sp : s.stopPgno1 = BP
  ss : s.stopSubno1 = BS
  sub : -2 ≤ s.startSubno ∧ s.startSubno < 65536
  noany : sh.startExact = true ∨ s.startSubno ≠ ANY_SUBNO

theorem prepare_same_rev (sh : Shape) {s : SearchSt} (h : s.dir = -1) : prepare sh s (-1) = s := by
  unfold prepare dirOf
  simp [h]

theorem highlight_stop1 (s : SearchSt) (pgno : Nat) (e : Entry) (first ms me : Nat) :
    (highlight s pgno e first ms me).stopPgno1 = s.stopPgno1 ∧ (highlight s pgno e first ms me).stopSubno1 = s.stopSubno1 := by
  unfold highlight; exact ⟨rfl, rfl⟩

theorem codeRev_one_some {sh : Shape} {exec : Exec} {s : SearchSt} {p : Nat} {e : Entry} {w : Bool}
    (hcur : key p e.subno ≠ key s.startPgno s.startSubno ∨ 24 ≤ s.row1)
    (h : codeRev sh exec s p e w = 1) : e.func = FUNC_LOP → (exec {} (hayFwd e.text (-1) 0).1).isSome := by
  intro hlop
  have hns : ¬ StopsRevP s p e w := codeRev_not_stop (by rw [h]; decide)
  rw [codeRev_whole sh exec p e w hcur hlop hns] at h
  cases hx : exec {} (hayFwd e.text (-1) 0).1 with
  | none => rw [hx] at h; simp at h
  | some mm => rfl

/-- a backward `vbi_search_next` on a non-empty cache answers SUCCESS or NOT_FOUND -/
theorem searchNext_rev_status (sh : Shape) (exec : Exec) (c : Cache) (s : SearchSt)
    (hne : c.nCached ≠ 0) (hp : PgOk (prepare sh s (-1)).startPgno) (hok : StartOk sh c (prepare sh s (-1)).startPgno) :
    (searchNext sh exec walkFuel c s (-1)).res = .ret SEARCH_SUCCESS ∨
    (searchNext sh exec walkFuel c s (-1)).res = .ret SEARCH_NOT_FOUND := by
  rw [searchNext_factors sh exec c s (-1) hne hp hok]
  have hcb : callbackOf sh exec (-1) = pageRev sh exec := by unfold callbackOf; simp
  rw [hcb]
  rcases runPos_rev_range sh exec c (walkPositions sh c (prepare sh s (-1)).startPgno (prepare sh s (-1)).startSubno (dirOf (-1)))
    (prepare sh s (-1)) with h | h
  · right; rw [h]; rfl
  · left; rw [h]; rfl

/-- **one backward call that reports SUCCESS**: the page returned matches (judged on the original cache `c`, whole
    text), the new start position is that page, and the context satisfies `PassInvR` again -/
theorem pass_step_rev (sh : Shape) (exec : Exec) (c c' : Cache) (s : SearchSt) (heq : Equiv c c') (hcov : Covered c)
    (hnoff : NoFF c) (hinv : PassInvR exec c s) (hok : StartOk sh c' s.startPgno)
    (h : (searchNext sh exec walkFuel c' s (-1)).res = .ret SEARCH_SUCCESS) :
    PassInvR exec c (searchNext sh exec walkFuel c' s (-1)).st ∧
    validPgno (searchNext sh exec walkFuel c' s (-1)).st.startPgno = true ∧
    MatchesIR exec c (searchNext sh exec walkFuel c' s (-1)).st.pgPgno (searchNext sh exec walkFuel c' s (-1)).st.pgSubno ∧
    (searchNext sh exec walkFuel c' s (-1)).st.startPgno = (searchNext sh exec walkFuel c' s (-1)).st.pgPgno ∧
    (searchNext sh exec walkFuel c' s (-1)).st.startSubno = (searchNext sh exec walkFuel c' s (-1)).st.pgSubno := by
  have hprep : prepare sh s (-1) = s := prepare_same_rev sh hinv.dir
  have hne : c'.nCached ≠ 0 := by
    intro h0; rw [searchNext_empty sh exec c' s (-1) h0] at h; revert h; decide
  have hp' : PgOk (prepare sh s (-1)).startPgno := by rw [hprep]; exact hinv.pg
  have hok' : StartOk sh c' (prepare sh s (-1)).startPgno := by rw [hprep]; exact hok
  have hst := searchNext_st sh exec c' s (-1) hne hp' hok'
  rw [searchNext_factors sh exec c' s (-1) hne hp' hok'] at h
  have hr1 := statusOf_success h
  have hdir : dirOf (-1) = -1 := by decide
  have hcb : callbackOf sh exec (-1) = pageRev sh exec := by unfold callbackOf; simp
  rw [hdir, hcb, hprep] at hr1 hst
  have hdirL := runPos_rev_dir sh exec c' (walkPositions sh c' s.startPgno s.startSubno (-1)) s
  generalize hrp : runPos (pageRev sh exec) c' (walkPositions sh c' s.startPgno s.startSubno (-1)) s = rp at hr1 hst hdirL
  obtain ⟨r, sf⟩ := rp
  simp only at hr1 hst hdirL
  subst hr1
  have hst' : (searchNext sh exec walkFuel c' s (-1)).st = sf := by rw [hst]; simp
  rw [hst']
  obtain ⟨pre, x, post, e, s0, hL, hlx, hfz, hcall, _⟩ := runPos_hit_rev sh exec c' _ _ _ _ hrp (by decide)
  obtain ⟨xp, xs, xw⟩ := x
  simp only at hlx hcall
  obtain ⟨hlop, hnstop, ms, me, hsf⟩ := pageRev_one hcall
  have hcode : codeRev sh exec s0 xp.toNat e xw = 1 := by rw [← pageRev_fst, hcall]
  -- the page found, seen in the original cache
  rw [lookupX_equiv heq] at hlx
  have hxs : (e.subno : Int) = xs := lookupX_subno hlx
  have hxmem : e ∈ (c.slots xp.toNat).chain := lookupX_mem hlx
  obtain ⟨hxs0, hxsb⟩ := lookupX_smallR hcov hlx
  -- its page number is valid
  have hxL : (xp, xs, xw) ∈ walkPositions sh c' s.startPgno s.startSubno (-1) := by rw [hL]; simp
  have hpx : PgOk xp := by
    unfold walkPositions at hxL
    rcases List.mem_cons.mp hxL with hx | hx
    · injection hx with h1 _; rw [h1]; exact hinv.pg
    · exact ((positions_sorted_bwd c' walkFuel s.startPgno (startSub sh c' s.startPgno s.startSubno) false hinv.pg).1 _ hx).2.1
  have hxpn : ((xp.toNat : Nat) : Int) = xp := by unfold PgOk at hpx; omega
  have hvalid : validPgno xp = true := by
    have hff : ¬ xp.toNat % 256 = 255 := by
      intro hff; have := hnoff xp.toNat hff; rw [this] at hxmem; cases hxmem
    unfold validPgno; unfold PgOk at hpx
    have h1 : (0x100 : Int) ≤ xp := hpx.1
    have h2 : xp ≤ (0x8FF : Int) := hpx.2
    have h3 : xp % 256 ≠ 255 := by omega
    simp [h1, h2, h3]
  -- the page matches as a whole
  have hmatch : MatchesIR exec c xp xs := by
    by_cases hk : key xp.toNat e.subno = key s0.startPgno s0.startSubno
    · rcases hinv.cur with hr | hm
      · -- cursor below the page: the whole text was searched
        exact ⟨e, hlx, hlop, codeRev_one_some (Or.inr (by rw [hfz.r]; exact hr)) hcode hlop⟩
      · -- the start position is the page the previous call returned
        obtain ⟨es, hles, hlops, hsomes⟩ := hm
        obtain ⟨hs0, hsb⟩ := lookupX_smallR hcov hles
        rw [hfz.p, hfz.q] at hk
        have hpg := hinv.pg
        unfold key at hk; unfold PgOk at hpg hpx
        have hpe : xp = s.startPgno := by omega
        have hse : xs = s.startSubno := by omega
        rw [hpe, hse]
        exact ⟨es, hles, hlops, hsomes⟩
    · -- another page: no cursor, the whole text was searched
      exact ⟨e, hlx, hlop, codeRev_one_some (Or.inl hk) hcode hlop⟩
  -- the context the call leaves behind
  have hsfdir : sf.dir = -1 := by rw [hdirL]; exact hinv.dir
  obtain ⟨hs1, hs2⟩ := highlight_startR { s0 with pgPgno := xp.toNat, pgSubno := e.subno, hl := [] } xp.toNat e 0 ms me
  obtain ⟨hg1, hg2⟩ := highlight_pgR { s0 with pgPgno := xp.toNat, pgSubno := e.subno, hl := [] } xp.toNat e 0 ms me
  rw [← hsf] at hs1 hs2 hg1 hg2
  have hsp : sf.startPgno = xp := by rw [hs1]; exact hxpn
  have hss : sf.startSubno = xs := by rw [hs2]; exact hxs
  refine ⟨⟨hsfdir, by rw [hsp]; exact hpx, Or.inr (by rw [hsp, hss]; exact hmatch)⟩, by rw [hsp]; exact hvalid, ?_,
    by rw [hsp, hg1, hxpn], by rw [hss, hg2, hxs]⟩
  rw [hg1, hg2, hxpn, hxs]; exact hmatch

/-- **one backward call that reports SUCCESS: order and gap-freeness** -/
theorem pass_step_order_rev (sh : Shape) (exec : Exec) (c c' : Cache) (s : SearchSt) (BP BS : Int) (heq : Equiv c c')
    (hcov : Covered c) (hsm : SmallSub c) (hinv : PassInvR exec c s) (hok : StartOk sh c' s.startPgno)
    (hBP : PgOk BP) (hBS : -2 ≤ BS ∧ BS < 65536) (hctx : PassCtxR sh BP BS s)
    (hany : sh.startExact = true ∨ ∀ p, ∀ e ∈ (c.slots p).chain, (e.subno : Int) ≠ ANY_SUBNO)
    (h : (searchNext sh exec walkFuel c' s (-1)).res = .ret SEARCH_SUCCESS) :
    PassCtxR sh BP BS (searchNext sh exec walkFuel c' s (-1)).st ∧
    rkR (key BP BS) (key s.startPgno s.startSubno) ≤
      rkR (key BP BS) (key (searchNext sh exec walkFuel c' s (-1)).st.startPgno (searchNext sh exec walkFuel c' s (-1)).st.startSubno) ∧
    ∀ q t : Nat, PgOk q → Matches exec c q t →
      (rkR (key BP BS) (key s.startPgno s.startSubno) < rkR (key BP BS) (key q t) ∨
        (rkR (key BP BS) (key s.startPgno s.startSubno) = rkR (key BP BS) (key q t) ∧ 24 ≤ s.row1)) →
      rkR (key BP BS) (key (searchNext sh exec walkFuel c' s (-1)).st.startPgno (searchNext sh exec walkFuel c' s (-1)).st.startSubno)
        ≤ rkR (key BP BS) (key q t) := by
  have hprep : prepare sh s (-1) = s := prepare_same_rev sh hinv.dir
  have hne : c'.nCached ≠ 0 := by
    intro h0; rw [searchNext_empty sh exec c' s (-1) h0] at h; revert h; decide
  have hp' : PgOk (prepare sh s (-1)).startPgno := by rw [hprep]; exact hinv.pg
  have hok' : StartOk sh c' (prepare sh s (-1)).startPgno := by rw [hprep]; exact hok
  have hst := searchNext_st sh exec c' s (-1) hne hp' hok'
  rw [searchNext_factors sh exec c' s (-1) hne hp' hok'] at h
  have hr1 := statusOf_success h
  have hdir : dirOf (-1) = -1 := by decide
  have hcb : callbackOf sh exec (-1) = pageRev sh exec := by unfold callbackOf; simp
  rw [hdir, hcb, hprep] at hr1 hst
  generalize hrp : runPos (pageRev sh exec) c' (walkPositions sh c' s.startPgno s.startSubno (-1)) s = rp at hr1 hst
  obtain ⟨r, sf⟩ := rp
  simp only at hr1 hst
  subst hr1
  have hst' : (searchNext sh exec walkFuel c' s (-1)).st = sf := by rw [hst]; simp
  rw [hst']
  obtain ⟨pre, x, post, e, s0, hL, hlx', hfz, hcall, hpre⟩ := runPos_hit_rev sh exec c' _ _ _ _ hrp (by decide)
  obtain ⟨xp, xs, xw⟩ := x
  simp only at hlx' hcall
  obtain ⟨hlop, _, ms, me, hsf⟩ := pageRev_one hcall
  have hlx : lookupX c xp xs = some e := by rw [← lookupX_equiv heq]; exact hlx'
  obtain ⟨hxsb, _, hxs⟩ := page_factsR heq hcov hlx
  -- the walk
  have hstart : startSub sh c' s.startPgno s.startSubno = s.startSubno := startSub_exact sh c' _ _ hctx.noany
  obtain ⟨hsorted, hfacts⟩ := walkPos_facts_rev sh c' s.startPgno s.startSubno hinv.pg hstart
  have hxL : (xp, xs, xw) ∈ walkPositions sh c' s.startPgno s.startSubno (-1) := by rw [hL]; simp
  obtain ⟨hpx, hxpos⟩ := hfacts _ hxL
  simp only at hpx
  have hxpn : ((xp.toNat : Nat) : Int) = xp := by unfold PgOk at hpx; omega
  -- keys
  have hA := key_bounds2 hinv.pg hctx.sub
  have hB := key_bounds2 hBP hBS
  have hX := key_boundsR hpx hxsb
  -- the page found does not stop the pass
  have hcodex : codeRev sh exec s xp.toNat e xw = 1 := by
    rw [← codeRev_frozen sh exec hfz, ← pageRev_fst, hcall]
  have hnsx := codeRev_not_stop (by rw [hcodex]; decide : codeRev sh exec s xp.toNat e xw ≠ -1)
  rw [stopsRevP_not_iff, hctx.sp, hctx.ss, hxpn, hxs] at hnsx
  obtain ⟨hns1, hns2⟩ := hnsx
  have hns1' : key s.startPgno s.startSubno ≤ key BP BS → xw = true → key xp xs > key BP BS := by
    intro ha hw
    exact Int.lt_of_not_ge (fun hge => hns1 ha ⟨hw, hge⟩)
  have hns2' : key s.startPgno s.startSubno > key BP BS → key xp xs ≤ key s.startPgno s.startSubno ∧ key xp xs > key BP BS := by
    intro ha; have := hns2 ha; omega
  have hxsm : xs ≤ 0x3F7F := by have := hsm _ e (lookupX_mem hlx); omega
  have hxA : xw = false → key xp xs ≤ key s.startPgno s.startSubno := by
    intro hw
    rcases hxpos with hx | hx
    · injection hx with h1 hx; injection hx with h2 _; rw [h1, h2]; exact Int.le_refl _
    · unfold LtB at hx; simp only [hw] at hx
      have hpg := hinv.pg; have hsb := hctx.sub
      unfold key; unfold PgOk at hpg hpx
      rcases hx with hx | hx
      · exact absurd hx.2 (by decide)
      · omega
  -- the context the call leaves behind
  obtain ⟨hs1, hs2⟩ := highlight_startR { s0 with pgPgno := xp.toNat, pgSubno := e.subno, hl := [] } xp.toNat e 0 ms me
  obtain ⟨ht1, ht2⟩ := highlight_stop1 { s0 with pgPgno := xp.toNat, pgSubno := e.subno, hl := [] } xp.toNat e 0 ms me
  rw [← hsf] at hs1 hs2 ht1 ht2
  have hsp : sf.startPgno = xp := by rw [hs1]; exact hxpn
  have hss : sf.startSubno = xs := by rw [hs2]; exact hxs
  simp only at ht1 ht2
  have hnoany : sh.startExact = true ∨ xs ≠ ANY_SUBNO := by
    rcases hany with h1 | h1
    · exact Or.inl h1
    · right; rw [← hxs]; exact h1 _ e (lookupX_mem hlx)
  rw [hsp, hss]
  refine ⟨⟨by rw [ht1, hfz.sp]; exact hctx.sp, by rw [ht2, hfz.ss]; exact hctx.ss, by rw [hss]; exact ⟨by omega, hxsb.2⟩,
    by rw [hss]; exact hnoany⟩, rank_mono_arith_rev _ _ _ xw hA hB hX hns1' hns2' hxA, ?_⟩
  -- no matching page in the gap
  intro q t hq hm hlo
  obtain ⟨e', hl', hlop', hsome'⟩ := hm
  obtain ⟨htb, hin, hts⟩ := page_factsR heq hcov hl'
  have hY := key_boundsR hq htb
  by_cases hle : rkR (key BP BS) (key xp xs) ≤ rkR (key BP BS) (key q t)
  · exact hle
  · exfalso
    have hlo' : rkR (key BP BS) (key s.startPgno s.startSubno) ≤ rkR (key BP BS) (key q t) := by
      rcases hlo with h1 | h1
      · omega
      · omega
    obtain ⟨ha1, ha2⟩ := ltb_arith _ _ _ _ xw hA hB hX hY hns1' hns2' hxA hlo' (by omega)
    -- the position of (q, t) stands before x in the walk
    have hyL := walkPos_mem_rev sh c' s.startPgno s.startSubno hinv.pg hstart hctx.sub q t hq htb hin
    have hylt : LtB ((q : Int), (t : Int), decide (key q t > key s.startPgno s.startSubno)) (xp, xs, xw) := by
      unfold LtB; simp only
      unfold PgOk at hq hpx
      by_cases hk : key (q : Int) t > key s.startPgno s.startSubno
      · obtain ⟨hw, hlt⟩ := ha2 hk
        simp only [hk, decide_true]
        right; refine ⟨hw.symm, ?_⟩
        unfold key at hlt; omega
      · simp only [hk, decide_false]
        rcases ha1 (by omega) with hw | hlt
        · cases xw with
          | true => left; simp
          | false => cases hw
        · cases xw with
          | true => left; simp
          | false => right; refine ⟨rfl, ?_⟩; unfold key at hlt; omega
    rw [hL] at hsorted hyL
    have hypre := mem_pre_of_ltB hsorted hyL hylt
    have hl'' : lookupX c' (q : Int) (t : Int) = some e' := by rw [lookupX_equiv heq]; exact hl'
    have hcodey := hpre _ hypre e' (by simpa using hl'')
    simp only [Int.toNat_natCast] at hcodey
    have hnsy := codeRev_not_stop (by rw [hcodey]; decide :
      codeRev sh exec s q e' (decide (key (q : Int) t > key s.startPgno s.startSubno)) ≠ -1)
    have hcur : key q e'.subno ≠ key s.startPgno s.startSubno ∨ 24 ≤ s.row1 := by
      rcases hlo with h1 | h1
      · left; intro hk; rw [hts] at hk; rw [hk] at h1; omega
      · right; exact h1.2
    rw [codeRev_whole sh exec q e' _ hcur hlop' hnsy] at hcodey
    cases hx' : exec {} (hayFwd e'.text (-1) 0).1 with
    | none => rw [hx'] at hsome'; simp at hsome'
    | some mm => rw [hx'] at hcodey; simp at hcodey

/-- **a backward call that reports NOT_FOUND**: nothing that matches lies behind the start position in pass order -/
theorem pass_last_rev (sh : Shape) (exec : Exec) (c c' : Cache) (s : SearchSt) (BP BS : Int) (heq : Equiv c c')
    (hcov : Covered c) (hsm : SmallSub c) (hinv : PassInvR exec c s) (hok : StartOk sh c' s.startPgno)
    (hBP : PgOk BP) (hBS : -2 ≤ BS ∧ BS < 65536) (hctx : PassCtxR sh BP BS s)
    (h : (searchNext sh exec walkFuel c' s (-1)).res = .ret SEARCH_NOT_FOUND) :
    ∀ q t : Nat, PgOk q → Matches exec c q t →
      ¬ (rkR (key BP BS) (key s.startPgno s.startSubno) < rkR (key BP BS) (key q t) ∨
        (rkR (key BP BS) (key s.startPgno s.startSubno) = rkR (key BP BS) (key q t) ∧ 24 ≤ s.row1)) := by
  have hprep : prepare sh s (-1) = s := prepare_same_rev sh hinv.dir
  have hne : c'.nCached ≠ 0 := by
    intro h0; rw [searchNext_empty sh exec c' s (-1) h0] at h; revert h; decide
  have hp' : PgOk (prepare sh s (-1)).startPgno := by rw [hprep]; exact hinv.pg
  have hok' : StartOk sh c' (prepare sh s (-1)).startPgno := by rw [hprep]; exact hok
  rw [searchNext_factors sh exec c' s (-1) hne hp' hok'] at h
  have hr := statusOf_not_found h
  have hdir : dirOf (-1) = -1 := by decide
  have hcb : callbackOf sh exec (-1) = pageRev sh exec := by unfold callbackOf; simp
  rw [hdir, hcb, hprep] at hr
  generalize hrp : runPos (pageRev sh exec) c' (walkPositions sh c' s.startPgno s.startSubno (-1)) s = rp at hr
  obtain ⟨r, sf⟩ := rp
  simp only at hr; subst hr
  intro q t hq hm hlo
  obtain ⟨e', hl', hlop', hsome'⟩ := hm
  obtain ⟨htb, hin, hts⟩ := page_factsR heq hcov hl'
  have hstart : startSub sh c' s.startPgno s.startSubno = s.startSubno := startSub_exact sh c' _ _ hctx.noany
  obtain ⟨hsorted, hfacts⟩ := walkPos_facts_rev sh c' s.startPgno s.startSubno hinv.pg hstart
  have hA := key_bounds2 hinv.pg hctx.sub
  have hB := key_bounds2 hBP hBS
  have hY := key_boundsR hq htb
  have hlo' : rkR (key BP BS) (key s.startPgno s.startSubno) ≤ rkR (key BP BS) (key q t) := by
    rcases hlo with h1 | h1
    · omega
    · omega
  have hyL := walkPos_mem_rev sh c' s.startPgno s.startSubno hinv.pg hstart hctx.sub q t hq htb hin
  obtain ⟨pre, post, hL⟩ := List.append_of_mem hyL
  -- a position of the walk not behind (q, t) does not stop the pass
  have hnostop : ∀ z ∈ walkPositions sh c' s.startPgno s.startSubno (-1),
      (z = ((q : Int), (t : Int), decide (key (q : Int) t > key s.startPgno s.startSubno)) ∨
        LtB z ((q : Int), (t : Int), decide (key (q : Int) t > key s.startPgno s.startSubno))) → ¬ StopsR c' s z := by
    intro z hz hzy ⟨ez, hez, hstz⟩
    obtain ⟨zp, zs, zw⟩ := z
    simp only at hez hstz
    obtain ⟨hpz, hzpos⟩ := hfacts _ hz
    simp only at hpz
    have hez' : lookupX c zp zs = some ez := by rw [← lookupX_equiv heq]; exact hez
    obtain ⟨hzsb, _, hzs⟩ := page_factsR heq hcov hez'
    have hzpn : ((zp.toNat : Nat) : Int) = zp := by unfold PgOk at hpz; omega
    have hZ := key_boundsR hpz hzsb
    have hzsm : zs ≤ 0x3F7F := by have := hsm _ ez (lookupX_mem hez'); omega
    have hzA : zw = false → key zp zs ≤ key s.startPgno s.startSubno := by
      intro hw
      rcases hzpos with hx | hx
      · injection hx with h1 hx; injection hx with h2 _; rw [h1, h2]; exact Int.le_refl _
      · unfold LtB at hx; simp only [hw] at hx
        have hpg := hinv.pg; have hsb := hctx.sub
        unfold key; unfold PgOk at hpg hpz
        rcases hx with hx | hx
        · exact absurd hx.2 (by decide)
        · omega
    have hzy' : (key (q : Int) t ≤ key s.startPgno s.startSubno → zw = false ∧ key zp zs ≥ key q t) ∧
        (key (q : Int) t > key s.startPgno s.startSubno → (zw = false ∨ key zp zs ≥ key q t)) := by
      unfold PgOk at hq hpz
      constructor
      · intro hk
        have hk' : ¬ key (q : Int) t > key s.startPgno s.startSubno := by omega
        simp only [hk', decide_false] at hzy
        rcases hzy with hzy | hzy
        · injection hzy with h1 hzy; injection hzy with h2 h3
          exact ⟨h3, by rw [h1, h2]; exact Int.le_refl _⟩
        · unfold LtB at hzy; simp only at hzy
          rcases hzy with hzy | hzy
          · exact absurd hzy.2 (by decide)
          · refine ⟨hzy.1, ?_⟩; unfold key; omega
      · intro hk
        simp only [hk, decide_true] at hzy
        rcases hzy with hzy | hzy
        · injection hzy with h1 hzy; injection hzy with h2 h3
          right; rw [h1, h2]; exact Int.le_refl _
        · unfold LtB at hzy; simp only at hzy
          rcases hzy with hzy | hzy
          · left; exact hzy.1
          · right; unfold key; omega
    obtain ⟨hn1, hn2⟩ := nostop_arith_rev _ _ _ _ zw hA hB hY hZ hlo' hzA hzy'
    have := (stopsRevP_not_iff s zp.toNat ez zw).mpr (by
      rw [hctx.sp, hctx.ss, hzpn, hzs]; exact ⟨hn1, hn2⟩)
    exact this hstz
  have hpre : ∀ z ∈ pre, ¬ StopsR c' s z := by
    intro z hz
    apply hnostop z (by rw [hL]; exact List.mem_append_left _ hz)
    right
    rw [hL] at hsorted
    exact (List.pairwise_append.mp hsorted).2.2 z hz _ List.mem_cons_self
  have hyns : ¬ StopsR c' s ((q : Int), (t : Int), decide (key (q : Int) t > key s.startPgno s.startSubno)) :=
    hnostop _ hyL (Or.inl rfl)
  have hl'' : lookupX c' (q : Int) (t : Int) = some e' := by rw [lookupX_equiv heq]; exact hl'
  have hcodey := runPos_minus1_rev sh exec c' _ _ _ hrp pre _ post hL hpre hyns e' (by simpa using hl'')
  simp only [Int.toNat_natCast] at hcodey
  have hnsy := codeRev_not_stop (by rw [hcodey]; decide :
    codeRev sh exec s q e' (decide (key (q : Int) t > key s.startPgno s.startSubno)) ≠ -1)
  have hcur : key q e'.subno ≠ key s.startPgno s.startSubno ∨ 24 ≤ s.row1 := by
    rcases hlo with h1 | h1
    · left; intro hk; rw [hts] at hk; rw [hk] at h1; omega
    · right; exact h1.2
  rw [codeRev_whole sh exec q e' _ hcur hlop' hnsy] at hcodey
  cases hx' : exec {} (hayFwd e'.text (-1) 0).1 with
  | none => rw [hx'] at hsome'; simp at hsome'
  | some mm => rw [hx'] at hcodey; simp at hcodey

end Zvbi.Search
