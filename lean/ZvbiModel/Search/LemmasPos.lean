import ZvbiModel.Search.LemmasWalk
/-!
# Lemmas about the page walk, part 3: the sequence of positions the outer loop probes

`positions` depends on the page statistics only.  Forward direction: the positions are strictly
ascending in (sweep, page number, sub-page number); with enough fuel every position inside a statistics
window is probed in the second (wrapped) sweep, and in the first sweep every such position after the
start, the rest of the start page included (since ed2772e a position before the window is clamped to the
first sub-page of the window instead of leaving the page).
-/
namespace Zvbi.Search

abbrev Pos := Int × Int × Bool

/-- positions probed after (p, sub, w): one per iteration of the `for (;;)` loop -/
def positions (c : Cache) (dir : Int) : Nat → Int → Int → Bool → List Pos
  | 0, _, _, _ => []
  | n + 1, p, sub, w =>
    match skip c dir skipFuel p (sub + dir) w with
    | some (some (p', s', w')) => (p', s', w') :: positions c dir n p' s' w'
    | _ => []

/-- forward walk order on positions -/
def LtF (a b : Pos) : Prop :=
  (a.2.2 = false ∧ b.2.2 = true) ∨ (a.2.2 = b.2.2 ∧ (a.1 < b.1 ∨ (a.1 = b.1 ∧ a.2.1 < b.2.1)))

/-- backward walk order on positions -/
def LtB (a b : Pos) : Prop :=
  (a.2.2 = false ∧ b.2.2 = true) ∨ (a.2.2 = b.2.2 ∧ (b.1 < a.1 ∨ (a.1 = b.1 ∧ b.2.1 < a.2.1)))

theorem LtF_trans {a b d : Pos} (h1 : LtF a b) (h2 : LtF b d) : LtF a d := by
  obtain ⟨ap, as, aw⟩ := a; obtain ⟨bp, bs, bw⟩ := b; obtain ⟨dp, ds, dw⟩ := d
  unfold LtF at *
  simp only at *
  cases aw <;> cases bw <;> cases dw <;> simp at * <;> omega

theorem LtB_trans {a b d : Pos} (h1 : LtB a b) (h2 : LtB b d) : LtB a d := by
  obtain ⟨ap, as, aw⟩ := a; obtain ⟨bp, bs, bw⟩ := b; obtain ⟨dp, ds, dw⟩ := d
  unfold LtB at *
  simp only at *
  cases aw <;> cases bw <;> cases dw <;> simp at * <;> omega

theorem LtF_of_spec {c : Cache} {p sub : Int} {w : Bool} {p' s' : Int} {w' : Bool}
    (h : SkipSpecF c p (sub + 1) w (some (p', s', w'))) : LtF (p, sub, w) (p', s', w') := by
  obtain ⟨_, _, hd⟩ := h
  unfold LtF
  simp only
  rcases hd with ⟨hw, hpp, hss, _⟩ | ⟨hw, hpp, _, hlt, hss⟩ | ⟨_, hw, hlt, _, _⟩ | ⟨_, hw, hw', _, _, _⟩
  · right; exact ⟨hw.symm, Or.inr ⟨hpp.symm, by omega⟩⟩
  · right; exact ⟨hw.symm, Or.inr ⟨hpp.symm, by omega⟩⟩
  · right; exact ⟨hw.symm, Or.inl hlt⟩
  · left; exact ⟨hw, hw'⟩

theorem LtB_of_spec {c : Cache} {p sub : Int} {w : Bool} {p' s' : Int} {w' : Bool}
    (h : SkipSpecB c p (sub + -1) w (some (p', s', w'))) : LtB (p, sub, w) (p', s', w') := by
  obtain ⟨_, _, hd⟩ := h
  unfold LtB
  simp only
  rcases hd with ⟨hw, hpp, hss, _⟩ | ⟨hw, hpp, _, hlt, hss⟩ | ⟨_, hw, hlt, _, _⟩ | ⟨_, hw, hw', _, _, _⟩
  · right; exact ⟨hw.symm, Or.inr ⟨hpp.symm, by omega⟩⟩
  · right; exact ⟨hw.symm, Or.inr ⟨hpp.symm, by omega⟩⟩
  · right; exact ⟨hw.symm, Or.inl hlt⟩
  · left; exact ⟨hw, hw'⟩

theorem positions_succ (c : Cache) (dir : Int) (n : Nat) (p sub : Int) (w : Bool) :
    positions c dir (n + 1) p sub w =
      match skip c dir skipFuel p (sub + dir) w with
      | some (some (p', s', w')) => (p', s', w') :: positions c dir n p' s' w'
      | _ => [] := rfl

/-- every probed position is `Landed` (inside its page's statistics window, or the window's first sub-page number
    in walking direction - the same thing when `subno_min <= subno_max`), after the current position, and the
    list is strictly ascending (forward) -/
theorem positions_sorted_fwd (c : Cache) : ∀ (n : Nat) (p sub : Int) (w : Bool), PgOk p →
    (∀ x ∈ positions c 1 n p sub w, LtF (p, sub, w) x ∧ PgOk x.1 ∧ Landed (c.stat x.1) x.2.1) ∧
    (positions c 1 n p sub w).Pairwise LtF := by
  intro n
  induction n with
  | zero => intro p sub w _; simp [positions]
  | succ n ih =>
    intro p sub w hp
    rw [positions_succ]
    obtain ⟨res, hres, hspec⟩ := skip_fwd_spec c skipFuel p (sub + 1) w hp (skipMeasF_lt hp w)
    rw [hres]
    cases res with
    | none => simp
    | some t =>
      obtain ⟨p', s', w'⟩ := t
      simp only
      have hlt := LtF_of_spec hspec
      obtain ⟨ih1, ih2⟩ := ih p' s' w' hspec.1
      constructor
      · intro x hx
        rcases List.mem_cons.mp hx with rfl | hx
        · exact ⟨hlt, hspec.1, hspec.2.1⟩
        · obtain ⟨h1, h2, h3⟩ := ih1 x hx
          exact ⟨LtF_trans hlt h1, h2, h3⟩
      · rw [List.pairwise_cons]
        exact ⟨fun x hx => (ih1 x hx).1, ih2⟩

theorem positions_sorted_bwd (c : Cache) : ∀ (n : Nat) (p sub : Int) (w : Bool), PgOk p →
    (∀ x ∈ positions c (-1) n p sub w, LtB (p, sub, w) x ∧ PgOk x.1 ∧ Landed (c.stat x.1) x.2.1) ∧
    (positions c (-1) n p sub w).Pairwise LtB := by
  intro n
  induction n with
  | zero => intro p sub w _; simp [positions]
  | succ n ih =>
    intro p sub w hp
    rw [positions_succ]
    obtain ⟨res, hres, hspec⟩ := skip_bwd_spec c skipFuel p (sub + -1) w hp (skipMeasB_lt hp w)
    rw [hres]
    cases res with
    | none => simp
    | some t =>
      obtain ⟨p', s', w'⟩ := t
      simp only
      have hlt := LtB_of_spec hspec
      obtain ⟨ih1, ih2⟩ := ih p' s' w' hspec.1
      constructor
      · intro x hx
        rcases List.mem_cons.mp hx with rfl | hx
        · exact ⟨hlt, hspec.1, hspec.2.1⟩
        · obtain ⟨h1, h2, h3⟩ := ih1 x hx
          exact ⟨LtB_trans hlt h1, h2, h3⟩
      · rw [List.pairwise_cons]
        exact ⟨fun x hx => (ih1 x hx).1, ih2⟩

/-- `(q, t, wt)` is still ahead of a forward walk standing at `(p, sub, w)`: a later page of the same sweep,
    or a later sub-page of the same page, or anything in the wrapped sweep while the walk is in its first sweep -/
def AheadF (p sub : Int) (w : Bool) (q t : Int) (wt : Bool) : Prop :=
  (wt = w ∧ (p < q ∨ (p = q ∧ sub < t))) ∨ (w = false ∧ wt = true)

theorem positions_complete_fwd (c : Cache) : ∀ (n : Nat) (p sub : Int) (w : Bool), PgOk p → rankF p sub w < n →
    ∀ (q t : Int) (wt : Bool), PgOk q → inRange (c.stat q) t = true → AheadF p sub w q t wt →
      (q, t, wt) ∈ positions c 1 n p sub w := by
  intro n
  induction n with
  | zero => intro p sub w _ h; omega
  | succ n ih =>
    intro p sub w hp hr q t wt hq hin hah
    rw [positions_succ]
    obtain ⟨res, hres, hspec⟩ := skip_fwd_spec c skipFuel p (sub + 1) w hp (skipMeasF_lt hp w)
    rw [hres]
    have hact : Active c q := active_of_inRange hin
    have hinq := (inRange_iff _ _).mp hin
    unfold PgOk at hq
    -- a window position of the current page behind `sub` keeps the loop on this page
    have hstay : p = q → sub < t → ¬ LeaveF c p (sub + 1) := by
      intro hpq hst hlv; subst hpq
      rcases hlv with h | h
      · exact hinq.1 h
      · omega
    cases res with
    | none =>
      exfalso
      obtain ⟨h0, h1, h2⟩ := hspec
      rcases hah with ⟨hw, hlt | ⟨hpq, hst⟩⟩ | ⟨hw, hwt⟩
      · exact h1 q hlt hq.2 hact
      · exact hstay hpq hst h0
      · exact h2 hw q hq.1 hq.2 hact
    | some tt =>
      obtain ⟨p', s', w'⟩ := tt
      simp only
      have hd := rankF_decr hp hspec
      have ih' := ih p' s' w' hspec.1 (by omega) q t wt hq hin
      obtain ⟨hp', hld', hdis⟩ := hspec
      rw [List.mem_cons]
      rcases hdis with ⟨hw', hpp, hss, _⟩ | ⟨hw', hpp, _, hcl, hss⟩ | ⟨h0, hw', hlt', hss, hir, hno⟩ |
          ⟨h0, hw0, hw', hss, hir, hno1, hno2⟩
      · -- same page, next sub-page number
        subst hw' hpp hss
        rcases hah with ⟨hw, hlt | ⟨hpq, hst⟩⟩ | ⟨hw, hwt⟩
        · right; exact ih' (Or.inl ⟨hw, Or.inl hlt⟩)
        · by_cases ht : t = sub + 1
          · left; subst ht hpq hw; rfl
          · right; exact ih' (Or.inl ⟨hw, Or.inr ⟨hpq, by omega⟩⟩)
        · right; exact ih' (Or.inr ⟨hw, hwt⟩)
      · -- same page, clamped to the first sub-page of the window
        subst hw' hpp
        rcases hah with ⟨hw, hlt | ⟨hpq, hst⟩⟩ | ⟨hw, hwt⟩
        · right; exact ih' (Or.inl ⟨hw, Or.inl hlt⟩)
        · subst hpq
          by_cases ht : t = s'
          · left; subst ht hw; rfl
          · right; exact ih' (Or.inl ⟨hw, Or.inr ⟨rfl, by omega⟩⟩)
        · right; exact ih' (Or.inr ⟨hw, hwt⟩)
      · -- a later page of the same sweep
        subst hw'
        have hin'q := (inRange_iff _ _).mp hir
        rcases hah with ⟨hw, hlt | ⟨hpq, hst⟩⟩ | ⟨hw, hwt⟩
        · by_cases hq' : q < p'
          · exact absurd hact (hno q hlt hq')
          · by_cases hqe : q = p'
            · subst hqe
              by_cases ht : t = s'
              · left; subst ht hw; rfl
              · right; exact ih' (Or.inl ⟨hw, Or.inr ⟨rfl, by omega⟩⟩)
            · right; exact ih' (Or.inl ⟨hw, Or.inl (by omega)⟩)
        · exact absurd h0 (hstay hpq hst)
        · right; exact ih' (Or.inr ⟨hw, hwt⟩)
      · -- wrapped
        subst hw0 hw'
        have hin'q := (inRange_iff _ _).mp hir
        rcases hah with ⟨hw, hlt | ⟨hpq, hst⟩⟩ | ⟨_, hwt⟩
        · exact absurd hact (hno1 q hlt hq.2)
        · exact absurd h0 (hstay hpq hst)
        · subst hwt
          by_cases hq' : q < p'
          · exact absurd hact (hno2 q hq.1 hq')
          · by_cases hqe : q = p'
            · subst hqe
              by_cases ht : t = s'
              · left; subst ht; rfl
              · right; exact ih' (Or.inl ⟨rfl, Or.inr ⟨rfl, by omega⟩⟩)
            · right; exact ih' (Or.inl ⟨rfl, Or.inl (by omega)⟩)

/-- mirror image of `AheadF` for the backward walk -/
def AheadB (p sub : Int) (w : Bool) (q t : Int) (wt : Bool) : Prop :=
  (wt = w ∧ (q < p ∨ (p = q ∧ t < sub))) ∨ (w = false ∧ wt = true)

theorem positions_complete_bwd (c : Cache) : ∀ (n : Nat) (p sub : Int) (w : Bool), PgOk p → rankB p sub w < n →
    ∀ (q t : Int) (wt : Bool), PgOk q → inRange (c.stat q) t = true → AheadB p sub w q t wt →
      (q, t, wt) ∈ positions c (-1) n p sub w := by
  intro n
  induction n with
  | zero => intro p sub w _ h; omega
  | succ n ih =>
    intro p sub w hp hr q t wt hq hin hah
    rw [positions_succ]
    obtain ⟨res, hres, hspec⟩ := skip_bwd_spec c skipFuel p (sub + -1) w hp (skipMeasB_lt hp w)
    rw [hres]
    have hact : Active c q := active_of_inRange hin
    have hinq := (inRange_iff _ _).mp hin
    unfold PgOk at hq
    have hstay : p = q → t < sub → ¬ LeaveB c p (sub + -1) := by
      intro hpq hst hlv; subst hpq
      rcases hlv with h | h
      · exact hinq.1 h
      · omega
    cases res with
    | none =>
      exfalso
      obtain ⟨h0, h1, h2⟩ := hspec
      rcases hah with ⟨hw, hlt | ⟨hpq, hst⟩⟩ | ⟨hw, hwt⟩
      · exact h1 q hq.1 hlt hact
      · exact hstay hpq hst h0
      · exact h2 hw q hq.1 hq.2 hact
    | some tt =>
      obtain ⟨p', s', w'⟩ := tt
      simp only
      have hd := rankB_decr hp hspec
      have ih' := ih p' s' w' hspec.1 (by omega) q t wt hq hin
      obtain ⟨hp', hld', hdis⟩ := hspec
      rw [List.mem_cons]
      rcases hdis with ⟨hw', hpp, hss, _⟩ | ⟨hw', hpp, _, hcl, hss⟩ | ⟨h0, hw', hlt', hss, hir, hno⟩ |
          ⟨h0, hw0, hw', hss, hir, hno1, hno2⟩
      · subst hw' hpp hss
        rcases hah with ⟨hw, hlt | ⟨hpq, hst⟩⟩ | ⟨hw, hwt⟩
        · right; exact ih' (Or.inl ⟨hw, Or.inl hlt⟩)
        · by_cases ht : t = sub + -1
          · left; subst ht hpq hw; rfl
          · right; exact ih' (Or.inl ⟨hw, Or.inr ⟨hpq, by omega⟩⟩)
        · right; exact ih' (Or.inr ⟨hw, hwt⟩)
      · subst hw' hpp
        rcases hah with ⟨hw, hlt | ⟨hpq, hst⟩⟩ | ⟨hw, hwt⟩
        · right; exact ih' (Or.inl ⟨hw, Or.inl hlt⟩)
        · subst hpq
          by_cases ht : t = s'
          · left; subst ht hw; rfl
          · right; exact ih' (Or.inl ⟨hw, Or.inr ⟨rfl, by omega⟩⟩)
        · right; exact ih' (Or.inr ⟨hw, hwt⟩)
      · subst hw'
        have hin'q := (inRange_iff _ _).mp hir
        rcases hah with ⟨hw, hlt | ⟨hpq, hst⟩⟩ | ⟨hw, hwt⟩
        · by_cases hq' : p' < q
          · exact absurd hact (hno q hq' hlt)
          · by_cases hqe : q = p'
            · subst hqe
              by_cases ht : t = s'
              · left; subst ht hw; rfl
              · right; exact ih' (Or.inl ⟨hw, Or.inr ⟨rfl, by omega⟩⟩)
            · right; exact ih' (Or.inl ⟨hw, Or.inl (by omega)⟩)
        · exact absurd h0 (hstay hpq hst)
        · right; exact ih' (Or.inr ⟨hw, hwt⟩)
      · subst hw0 hw'
        have hin'q := (inRange_iff _ _).mp hir
        rcases hah with ⟨hw, hlt | ⟨hpq, hst⟩⟩ | ⟨_, hwt⟩
        · exact absurd hact (hno1 q hq.1 hlt)
        · exact absurd h0 (hstay hpq hst)
        · subst hwt
          by_cases hq' : p' < q
          · exact absurd hact (hno2 q hq' hq.2)
          · by_cases hqe : q = p'
            · subst hqe
              by_cases ht : t = s'
              · left; subst ht; rfl
              · right; exact ih' (Or.inl ⟨rfl, Or.inr ⟨rfl, by omega⟩⟩)
            · right; exact ih' (Or.inl ⟨rfl, Or.inl (by omega)⟩)

end Zvbi.Search
