import ZvbiModel.Search.Lemmas
/-!
# Lemmas about the page walk, part 2: termination of the outer loop (rank argument), no assertion
-/
namespace Zvbi.Search

def W : Nat := 0x800 * 0x10001

/-- remaining distance of a forward walk: sweep, page number, sub-page number (clamped to -1 .. 0x10000) -/
def rankF (p s : Int) (w : Bool) : Nat :=
  (if w then 0 else W) + (0x8FF - p).toNat * 0x10001 + (0x10000 - max s (-1)).toNat

def rankB (p s : Int) (w : Bool) : Nat :=
  (if w then 0 else W) + (p - 0x100).toNat * 0x10001 + (min s 0x10000 + 1).toNat

theorem rankF_decr {c : Cache} {p s : Int} {w : Bool} {p' s' : Int} {w' : Bool} (hp : PgOk p)
    (h : SkipSpecF c p (s + 1) w (some (p', s', w'))) : rankF p' s' w' < rankF p s w := by
  obtain ⟨hp', hld, hd⟩ := h
  have hb := landed_bounds hld
  unfold PgOk at hp hp'
  unfold rankF W
  rcases hd with ⟨hw, hpp, hss, _⟩ | ⟨hw, hpp, _, hlt, hss⟩ | ⟨_, hw, hlt, _, _⟩ | ⟨_, hw, hw', _, _, _⟩
  · subst hw hpp hss; cases w' <;> simp <;> omega
  · subst hw hpp; cases w' <;> simp <;> omega
  · subst hw; cases w' <;> simp <;> omega
  · subst hw hw'; simp; omega

theorem rankB_decr {c : Cache} {p s : Int} {w : Bool} {p' s' : Int} {w' : Bool} (hp : PgOk p)
    (h : SkipSpecB c p (s + -1) w (some (p', s', w'))) : rankB p' s' w' < rankB p s w := by
  obtain ⟨hp', hld, hd⟩ := h
  have hb := landed_bounds hld
  unfold PgOk at hp hp'
  unfold rankB W
  rcases hd with ⟨hw, hpp, hss, _⟩ | ⟨hw, hpp, _, hlt, hss⟩ | ⟨_, hw, hlt, _, _⟩ | ⟨_, hw, hw', _, _, _⟩
  · subst hw hpp hss; cases w' <;> simp <;> omega
  · subst hw hpp; cases w' <;> simp <;> omega
  · subst hw; cases w' <;> simp <;> omega
  · subst hw hw'; simp; omega

theorem rankF_lt_fuel {p : Int} (hp : PgOk p) (s : Int) (w : Bool) : rankF p s w < walkFuel := by
  unfold rankF W walkFuel PgOk at *
  cases w <;> simp <;> omega

theorem rankB_lt_fuel {p : Int} (hp : PgOk p) (s : Int) (w : Bool) : rankB p s w < walkFuel := by
  unfold rankB W walkFuel PgOk at *
  cases w <;> simp <;> omega

/-- the callback on the page found at the current position (none: no call, "try next") -/
def firstCall {σ : Type} (cb : Callback σ) (s : σ) (p : Int) (w : Bool) : Option Entry → Int × σ
  | some e => cb s p.toNat e w
  | none => (0, s)

/-- one iteration of the outer loop, unfolded -/
theorem loop_succ {σ : Type} (cb : Callback σ) (dir : Int) (n : Nat) (c : Cache) (s : σ) (p sub : Int) (w : Bool)
    (cp : Option Entry) :
    loop cb dir (n + 1) c s p sub w cp =
      (match firstCall cb s p w cp with
       | (r, s1) =>
         if r ≠ 0 then ⟨.ret r, s1, c⟩ else
         match skip c dir skipFuel p (sub + dir) w with
         | none => ⟨.outOfFuel, s1, c⟩
         | some none => ⟨.ret (-1), s1, c⟩
         | some (some (p', s', w')) =>
           match getExact c p' s' with
           | (cp', c') => loop cb dir n c' s1 p' s' w' cp') := by
  cases cp <;> rfl

theorem loop_fwd_terminates {σ : Type} (cb : Callback σ) : ∀ (n : Nat) (c : Cache) (s : σ) (p sub : Int) (w : Bool)
    (cp : Option Entry), PgOk p → rankF p sub w < n → (loop cb 1 n c s p sub w cp).res ≠ .outOfFuel := by
  intro n
  induction n with
  | zero => intro c s p sub w cp _ h; omega
  | succ n ih =>
    intro c s p sub w cp hp hr
    rw [loop_succ]
    generalize firstCall cb s p w cp = rs
    obtain ⟨r, s1⟩ := rs
    simp only
    by_cases hr0 : r ≠ 0
    · simp [hr0]
    · simp only [hr0, if_false]
      obtain ⟨res, hres, hspec⟩ := skip_fwd_spec c skipFuel p (sub + 1) w hp (skipMeasF_lt hp w)
      rw [hres]
      cases res with
      | none => simp
      | some t =>
        obtain ⟨p', s', w'⟩ := t
        simp only
        generalize getExact c p' s' = g
        obtain ⟨cp', c'⟩ := g
        simp only
        have hd := rankF_decr hp hspec
        exact ih c' s1 p' s' w' cp' hspec.1 (by omega)

theorem loop_bwd_terminates {σ : Type} (cb : Callback σ) : ∀ (n : Nat) (c : Cache) (s : σ) (p sub : Int) (w : Bool)
    (cp : Option Entry), PgOk p → rankB p sub w < n → (loop cb (-1) n c s p sub w cp).res ≠ .outOfFuel := by
  intro n
  induction n with
  | zero => intro c s p sub w cp _ h; omega
  | succ n ih =>
    intro c s p sub w cp hp hr
    rw [loop_succ]
    generalize firstCall cb s p w cp = rs
    obtain ⟨r, s1⟩ := rs
    simp only
    by_cases hr0 : r ≠ 0
    · simp [hr0]
    · simp only [hr0, if_false]
      obtain ⟨res, hres, hspec⟩ := skip_bwd_spec c skipFuel p (sub + -1) w hp (skipMeasB_lt hp w)
      rw [hres]
      cases res with
      | none => simp
      | some t =>
        obtain ⟨p', s', w'⟩ := t
        simp only
        generalize getExact c p' s' = g
        obtain ⟨cp', c'⟩ := g
        simp only
        have hd := rankB_decr hp hspec
        exact ih c' s1 p' s' w' cp' hspec.1 (by omega)

/-- the loop itself never trips the assertion -/
theorem loop_no_assert {σ : Type} (cb : Callback σ) (dir : Int) : ∀ (n : Nat) (c : Cache) (s : σ) (p sub : Int) (w : Bool)
    (cp : Option Entry), (loop cb dir n c s p sub w cp).res ≠ .assertFail := by
  intro n
  induction n with
  | zero => intro c s p sub w cp; simp [loop]
  | succ n ih =>
    intro c s p sub w cp
    rw [loop_succ]
    generalize firstCall cb s p w cp = rs
    obtain ⟨r, s1⟩ := rs
    simp only
    by_cases hr0 : r ≠ 0
    · simp [hr0]
    · simp only [hr0, if_false]
      cases skip c dir skipFuel p (sub + dir) w with
      | none => simp
      | some t =>
        cases t with
        | none => simp
        | some t =>
          obtain ⟨p', s', w'⟩ := t
          simp only
          generalize getExact c p' s' = g
          obtain ⟨cp', c'⟩ := g
          exact ih c' s1 p' s' w' cp'

end Zvbi.Search
