import ZvbiModel.Search.LemmasRev6
/-!
# Lemmas towards the whole-pass statement with a direction change (C17): a call sequence `+1 .. +1, -1 .. -1`

`runFinal`: cache and search context after a sequence of calls; `runNexts_append`: the answers of a concatenated sequence;
`fwd_prefix`: after forward calls that all answered SUCCESS the context is one `search_turn_rev_exact` applies to.
-/
namespace Zvbi.Search

/-- cache and search context after successive `vbi_search_next` calls -/
def runFinal (sh : Shape) (exec : Exec) : Cache → SearchSt → List Int → Cache × SearchSt
  | c, s, [] => (c, s)
  | c, s, d :: ds => runFinal sh exec (searchNext sh exec walkFuel c s d).cache (searchNext sh exec walkFuel c s d).st ds

theorem runNexts_append (sh : Shape) (exec : Exec) : ∀ (ds1 : List Int) (c : Cache) (s : SearchSt) (ds2 : List Int),
    runNexts sh exec c s (ds1 ++ ds2) =
      runNexts sh exec c s ds1 ++ runNexts sh exec (runFinal sh exec c s ds1).1 (runFinal sh exec c s ds1).2 ds2 := by
  intro ds1
  induction ds1 with
  | nil => intro c s ds2; rfl
  | cons d ds1 ih =>
    intro c s ds2
    simp only [List.cons_append, runNexts, runFinal]
    rw [ih]

theorem runFinal_prepared (sh : Shape) (exec : Exec) (c : Cache) (s : SearchSt) (hfresh : s.dir = 0) (k : Nat) (hk : 1 ≤ k) :
    runFinal sh exec c s (List.replicate k 1) = runFinal sh exec c (prepare sh s 1) (List.replicate k 1) := by
  cases k with
  | zero => omega
  | succ k =>
    rw [List.replicate_succ]
    simp only [runFinal]
    rw [searchNext_prepared sh exec walkFuel c s hfresh]

/-- after `k` forward calls that all answered SUCCESS: the cache is still equivalent, the context is one between two
    forward calls, and (for k >= 1) its start position is a page that matches -/
theorem fwd_prefix (sh : Shape) (exec : Exec) (c : Cache) (hcov : Covered c) (hnoff : NoFF c)
    (P S0 : Int) (hP : PgOk P) (hS0 : 0 ≤ S0 ∧ S0 < 65536)
    (hany : sh.startExact = true ∨ ∀ p, ∀ e ∈ (c.slots p).chain, (e.subno : Int) ≠ ANY_SUBNO) :
    ∀ (k : Nat) (c' : Cache) (s : SearchSt), Equiv c c' → PassInv exec c s → StartOk sh c' s.startPgno → PassCtx sh P S0 s →
      (∀ r ∈ runNexts sh exec c' s (List.replicate k 1), r.1 = .ret SEARCH_SUCCESS) →
      Equiv c (runFinal sh exec c' s (List.replicate k 1)).1 ∧
      PassInv exec c (runFinal sh exec c' s (List.replicate k 1)).2 ∧
      PassCtx sh P S0 (runFinal sh exec c' s (List.replicate k 1)).2 ∧
      ((1 ≤ k ∨ MatchesI exec c s.startPgno s.startSubno) →
        MatchesI exec c (runFinal sh exec c' s (List.replicate k 1)).2.startPgno
          (runFinal sh exec c' s (List.replicate k 1)).2.startSubno) := by
  intro k
  induction k with
  | zero =>
    intro c' s heq hinv hok hctx _
    refine ⟨heq, hinv, hctx, ?_⟩
    intro h
    rcases h with h | h
    · omega
    · exact h
  | succ k ih =>
    intro c' s heq hinv hok hctx hall
    rw [List.replicate_succ] at hall ⊢
    simp only [runNexts, runFinal] at hall ⊢
    have hres : (searchNext sh exec walkFuel c' s 1).res = .ret SEARCH_SUCCESS := hall _ List.mem_cons_self
    obtain ⟨hinv', hvalid, hm, hsp, hss⟩ := pass_step sh exec c c' s heq hcov hnoff hinv hok hres
    obtain ⟨hctx', _, _⟩ := pass_step_order sh exec c c' s P S0 heq hcov hinv hok hP hS0 hctx hany hres
    obtain ⟨g1, g2, g3, g4⟩ := ih _ _ (searchNext_cache_equiv sh exec walkFuel c c' s 1 heq) hinv'
      (startOk_of_valid sh _ _ hvalid) hctx' (fun r hr => hall r (List.mem_cons_of_mem _ hr))
    refine ⟨g1, g2, g3, fun _ => g4 (Or.inr ?_)⟩
    rw [hsp, hss]; exact hm

theorem runFinal_prepared_rev (sh : Shape) (exec : Exec) (c : Cache) (s : SearchSt) (hfresh : s.dir = 0) (k : Nat) (hk : 1 ≤ k) :
    runFinal sh exec c s (List.replicate k (-1)) = runFinal sh exec c (prepare sh s (-1)) (List.replicate k (-1)) := by
  cases k with
  | zero => omega
  | succ k =>
    rw [List.replicate_succ]
    simp only [runFinal]
    rw [searchNext_prepared_rev sh exec walkFuel c s hfresh]

/-- after `k` backward calls that all answered SUCCESS: the cache is still equivalent, the context is one between two
    backward calls, and (for k >= 1) its start position is a page that matches -/
theorem rev_prefix (sh : Shape) (exec : Exec) (c : Cache) (hcov : Covered c) (hsm : SmallSub c) (hnoff : NoFF c)
    (BP BS : Int) (hBP : PgOk BP) (hBS : -2 ≤ BS ∧ BS < 65536)
    (hany : sh.startExact = true ∨ ∀ p, ∀ e ∈ (c.slots p).chain, (e.subno : Int) ≠ ANY_SUBNO) :
    ∀ (k : Nat) (c' : Cache) (s : SearchSt), Equiv c c' → PassInvR exec c s → StartOk sh c' s.startPgno → PassCtxR sh BP BS s →
      (∀ r ∈ runNexts sh exec c' s (List.replicate k (-1)), r.1 = .ret SEARCH_SUCCESS) →
      Equiv c (runFinal sh exec c' s (List.replicate k (-1))).1 ∧
      PassInvR exec c (runFinal sh exec c' s (List.replicate k (-1))).2 ∧
      PassCtxR sh BP BS (runFinal sh exec c' s (List.replicate k (-1))).2 ∧
      ((1 ≤ k ∨ MatchesIR exec c s.startPgno s.startSubno) →
        MatchesIR exec c (runFinal sh exec c' s (List.replicate k (-1))).2.startPgno
          (runFinal sh exec c' s (List.replicate k (-1))).2.startSubno) := by
  intro k
  induction k with
  | zero =>
    intro c' s heq hinv hok hctx _
    refine ⟨heq, hinv, hctx, ?_⟩
    intro h
    rcases h with h | h
    · omega
    · exact h
  | succ k ih =>
    intro c' s heq hinv hok hctx hall
    rw [List.replicate_succ] at hall ⊢
    simp only [runNexts, runFinal] at hall ⊢
    have hres : (searchNext sh exec walkFuel c' s (-1)).res = .ret SEARCH_SUCCESS := hall _ List.mem_cons_self
    obtain ⟨hinv', hvalid, hm, hsp, hss⟩ := pass_step_rev sh exec c c' s heq hcov hnoff hinv hok hres
    obtain ⟨hctx', _, _⟩ := pass_step_order_rev sh exec c c' s BP BS heq hcov hsm hinv hok hBP hBS hctx hany hres
    obtain ⟨g1, g2, g3, g4⟩ := ih _ _ (searchNext_cache_equivR sh exec walkFuel c c' s (-1) heq) hinv'
      (startOk_of_validR sh _ _ hvalid) hctx' (fun r hr => hall r (List.mem_cons_of_mem _ hr))
    refine ⟨g1, g2, g3, fun _ => g4 (Or.inr ?_)⟩
    rw [hsp, hss]; exact hm

end Zvbi.Search
