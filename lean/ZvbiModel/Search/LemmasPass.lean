import ZvbiModel.Search.LemmasFirst
import ZvbiModel.Search.Spec
/-!
# Lemmas towards `search_exact_full` (C17), part 3: REPEATED forward calls of one pass

The per-call theorems speak about one `vbi_search_next` on the cache `c`.  A pass is a sequence of calls; every call
hands the next one (a) the cache with some hash chains reordered (most recently used first) and (b) the search context
with the start position moved to the page found and the cursor (row[0], col[0]) behind the occurrence highlighted.

* `searchNext_cache_equiv`: the cache a call leaves behind is `Equiv` to the one it got (same statistics, same answer to
  every exact look-up) - for every call, any direction, any fuel, any callback result.
* `PassInv`: what holds for the search context between two forward calls of a pass.
* `pass_step`: one forward call that reports SUCCESS, from any context with `PassInv`, returns a page that `Matches`
  (on the ORIGINAL cache) and re-establishes `PassInv`.  The point: a continued call runs the matcher on the text from
  the cursor only, which for an arbitrary matcher says nothing about the whole text - but it does so only on the page the
  previous call returned, and that page is known to match.
* `runNexts_sound`: induction over the calls.
-/
namespace Zvbi.Search

/-! ## the cache between two calls -/

theorem loop_cache_equiv {σ : Type} (cb : Callback σ) (c : Cache) (dir : Int) :
    ∀ (n : Nat) (c0 : Cache) (s : σ) (p sub : Int) (w : Bool) (cp : Option Entry), Equiv c c0 →
      Equiv c (loop cb dir n c0 s p sub w cp).cache := by
  intro n
  induction n with
  | zero => intro c0 s p sub w cp h; simpa [loop] using h
  | succ n ih =>
    intro c0 s p sub w cp h
    rw [loop_succ]
    generalize firstCall cb s p w cp = rs
    obtain ⟨r, s1⟩ := rs
    simp only
    by_cases hr0 : r ≠ 0
    · rw [if_pos hr0]; exact h
    · rw [if_neg hr0]
      cases hsk : skip c0 dir skipFuel p (sub + dir) w with
      | none => exact h
      | some t =>
        cases t with
        | none => exact h
        | some t =>
          obtain ⟨p', s', w'⟩ := t
          simp only
          have heq' := getExact_equiv h p' s'
          generalize getExact c0 p' s' = g at heq'
          obtain ⟨cp', c'⟩ := g
          exact ih c' s1 p' s' w' cp' heq'

theorem walk_cache_equiv {σ : Type} (sh : Shape) (cb : Callback σ) (c c0 : Cache) (fuel : Nat) (s : σ) (p sub dir : Int)
    (h : Equiv c c0) : Equiv c (walk sh cb fuel c0 s p sub dir).cache := by
  unfold walk
  by_cases h0 : c0.nCached = 0
  · simp only [h0, if_true]; exact h
  · simp only [h0, if_false]
    have heq := getStart_equiv h sh p sub
    generalize getStart sh c0 p sub = g at heq
    obtain ⟨cp, c1⟩ := g
    simp only at heq ⊢
    by_cases hp : p < 0x100 ∨ p > 0x8FF
    · simp only [hp, if_true]; exact heq
    · simp only [hp, if_false]; exact loop_cache_equiv cb c dir fuel c1 s p _ false cp heq

/-- **the cache a `vbi_search_next` leaves behind answers every exact look-up as the one it got** (only the order of
    the hash chains changes); any direction, any context -/
theorem searchNext_cache_equiv (sh : Shape) (exec : Exec) (fuel : Nat) (c c0 : Cache) (s : SearchSt) (d : Int)
    (h : Equiv c c0) : Equiv c (searchNext sh exec fuel c0 s d).cache := by
  unfold searchNext
  have hw := walk_cache_equiv sh (callbackOf sh exec d) c c0 fuel (prepare sh s d) (prepare sh s d).startPgno
    (prepare sh s d).startSubno (dirOf d) h
  simp only
  split <;> exact hw

/-! ## the direction field survives `search_page_fwd` -/

theorem highlight_dir (s : SearchSt) (pgno : Nat) (e : Entry) (first ms me : Nat) :
    (highlight s pgno e first ms me).dir = s.dir := by
  unfold highlight; rfl

theorem highlight_start (s : SearchSt) (pgno : Nat) (e : Entry) (first ms me : Nat) :
    (highlight s pgno e first ms me).startPgno = pgno ∧ (highlight s pgno e first ms me).startSubno = e.subno := by
  unfold highlight; exact ⟨rfl, rfl⟩

theorem pageFwd_dir (sh : Shape) (exec : Exec) (s : SearchSt) (p : Nat) (e : Entry) (w : Bool) :
    (pageFwd sh exec s p e w).2.dir = s.dir := by
  unfold pageFwd
  by_cases h1 : stopFwd s p e w = true
  · simp [h1]
  · simp only [h1, if_false, Bool.false_eq_true]
    by_cases h2 : e.func ≠ FUNC_LOP
    · simp [h2]
    · simp only [h2, if_false]
      by_cases h3 : cursorRow s p e > LAST_ROW
      · simp [h3]
      · simp only [h3, if_false]
        by_cases h4 : (hayFwd e.text (cursorRow s p e) s.col0).2 ≥ (hayFwd e.text (cursorRow s p e) s.col0).1.length
        · simp [h4]
        · simp only [h4, if_false]
          cases hx : exec (fwdFlags sh (hayFwd e.text (cursorRow s p e) s.col0).1 (hayFwd e.text (cursorRow s p e) s.col0).2) ((hayFwd e.text (cursorRow s p e) s.col0).1.drop (hayFwd e.text (cursorRow s p e) s.col0).2) with
          | none => rfl
          | some mm => obtain ⟨ms, me⟩ := mm; simp only; rw [highlight_dir]

theorem runPos_fwd_dir (sh : Shape) (exec : Exec) (c : Cache) : ∀ (L : List Pos) (s : SearchSt),
    (runPos (pageFwd sh exec) c L s).2.dir = s.dir := by
  intro L
  induction L with
  | nil => intro s; rfl
  | cons a L ih =>
    intro s
    obtain ⟨ap, asub, aw⟩ := a
    rw [runPos_cons]
    cases hla : lookupX c ap asub with
    | none => simp only; exact ih s
    | some ea =>
      simp only
      have hd := pageFwd_dir sh exec s ap.toNat ea aw
      generalize pageFwd sh exec s ap.toNat ea aw = rs at hd
      obtain ⟨r1, s1⟩ := rs
      simp only at hd ⊢
      by_cases hr1 : r1 ≠ 0
      · rw [if_pos hr1]; exact hd
      · rw [if_neg hr1, ih s1]; exact hd

/-! ## one call of a pass -/

/-- "page (p, s) is a cached level one page whose whole text contains the pattern", positions as the walk has them -/
def MatchesI (exec : Exec) (c : Cache) (p s : Int) : Prop :=
  ∃ e, lookupX c p s = some e ∧ e.func = FUNC_LOP ∧ (exec {} (hayFwd e.text (-1) 0).1).isSome

theorem matches_iff (exec : Exec) (c : Cache) (p s : Nat) : Matches exec c p s ↔ MatchesI exec c p s := Iff.rfl

/-- the search context between two forward calls of a pass: direction set, start position on a valid page number, and
    EITHER the cursor is still at the top of the page (context as `vbi_search_next` prepares it for a new pass) OR the
    start position is a page that matches (the page the previous call returned) -/
structure PassInv (exec : Exec) (c : Cache) (s : SearchSt) : Prop where
  dir : s.dir = 1
  pg : PgOk s.startPgno
  cur : (s.row0 = 1 ∧ s.col0 = 0) ∨ MatchesI exec c s.startPgno s.startSubno

/-- sub-page numbers of cached pages fit 16 bits (statistics window) -/
theorem lookupX_small {c : Cache} (hcov : Covered c) {p sub : Int} {e : Entry} (h : lookupX c p sub = some e) :
    0 ≤ sub ∧ sub < 65536 := by
  have hs := lookupX_subno h
  have hm := lookupX_mem h
  have := (hcov p.toNat e hm).2.2
  have := (c.slots p.toNat).stat.subMax.toNat_lt
  omega

/-- **one forward call that reports SUCCESS**: the page returned matches (judged on the original cache `c`, whole
    text), the new start position is that page, and the context satisfies `PassInv` again -/
theorem pass_step (sh : Shape) (exec : Exec) (c c' : Cache) (s : SearchSt) (heq : Equiv c c') (hcov : Covered c)
    (hnoff : NoFF c) (hinv : PassInv exec c s) (hok : StartOk sh c' s.startPgno)
    (h : (searchNext sh exec walkFuel c' s 1).res = .ret SEARCH_SUCCESS) :
    PassInv exec c (searchNext sh exec walkFuel c' s 1).st ∧
    validPgno (searchNext sh exec walkFuel c' s 1).st.startPgno = true ∧
    MatchesI exec c (searchNext sh exec walkFuel c' s 1).st.pgPgno (searchNext sh exec walkFuel c' s 1).st.pgSubno ∧
    (searchNext sh exec walkFuel c' s 1).st.startPgno = (searchNext sh exec walkFuel c' s 1).st.pgPgno ∧
    (searchNext sh exec walkFuel c' s 1).st.startSubno = (searchNext sh exec walkFuel c' s 1).st.pgSubno := by
  have hprep : prepare sh s 1 = s := by
    unfold prepare dirOf
    have := hinv.dir
    simp [this]
  have hne : c'.nCached ≠ 0 := by
    intro h0; rw [searchNext_empty sh exec c' s 1 h0] at h; revert h; decide
  have hp' : PgOk (prepare sh s 1).startPgno := by rw [hprep]; exact hinv.pg
  have hok' : StartOk sh c' (prepare sh s 1).startPgno := by rw [hprep]; exact hok
  have hst := searchNext_st sh exec c' s 1 hne hp' hok'
  rw [searchNext_factors sh exec c' s 1 hne hp' hok'] at h
  have hr1 := statusOf_success h
  have hdir : dirOf 1 = 1 := by decide
  have hcb : callbackOf sh exec 1 = pageFwd sh exec := by unfold callbackOf; simp
  rw [hdir, hcb, hprep] at hr1 hst
  have hdirL := runPos_fwd_dir sh exec c' (walkPositions sh c' s.startPgno s.startSubno 1) s
  generalize hrp : runPos (pageFwd sh exec) c' (walkPositions sh c' s.startPgno s.startSubno 1) s = rp at hr1 hst hdirL
  obtain ⟨r, sf⟩ := rp
  simp only at hr1 hst hdirL
  subst hr1
  have hst' : (searchNext sh exec walkFuel c' s 1).st = sf := by rw [hst]; simp
  rw [hst']
  obtain ⟨pre, x, post, e, s0, hL, hlx, hfz, hcall, _⟩ := runPos_hit_fwd sh exec c' _ _ _ _ hrp (by decide)
  obtain ⟨xp, xs, xw⟩ := x
  simp only at hlx hcall
  obtain ⟨hlop, ms, me, hex, hsf⟩ := pageFwd_one hcall
  -- the page found, seen in the original cache
  rw [lookupX_equiv heq] at hlx
  have hxs : (e.subno : Int) = xs := lookupX_subno hlx
  have hxmem : e ∈ (c.slots xp.toNat).chain := lookupX_mem hlx
  obtain ⟨hxs0, hxsb⟩ := lookupX_small hcov hlx
  -- its page number is valid
  have hxL : (xp, xs, xw) ∈ walkPositions sh c' s.startPgno s.startSubno 1 := by rw [hL]; simp
  have hpx : PgOk xp := by
    unfold walkPositions at hxL
    rcases List.mem_cons.mp hxL with hx | hx
    · injection hx with h1 _; rw [h1]; exact hinv.pg
    · exact ((positions_sorted_fwd c' walkFuel s.startPgno (startSub sh c' s.startPgno s.startSubno) false hinv.pg).1 _ hx).2.1
  have hxpn : ((xp.toNat : Nat) : Int) = xp := by unfold PgOk at hpx; omega
  have hvalid : validPgno xp = true := by
    have hff : ¬ xp.toNat % 256 = 255 := by
      intro hff; have := hnoff xp.toNat hff; rw [this] at hxmem; cases hxmem
    unfold validPgno; unfold PgOk at hpx
    have h1 : (0x100 : Int) ≤ xp := hpx.1
    have h2 : xp ≤ (0x8FF : Int) := hpx.2
    have h3 : xp % 256 ≠ 255 := by omega
    simp [h1, h2, h3]
  -- the page matches as a whole
  have hmatch : MatchesI exec c xp xs := by
    by_cases hk : key xp.toNat e.subno = key s0.startPgno s0.startSubno
    · -- the page is the start position
      rcases hinv.cur with ⟨hr, hc⟩ | hm
      · -- cursor at the top of the page: the whole text was searched
        refine ⟨e, hlx, hlop, ?_⟩
        have hrow : cursorRow s0 xp.toNat e = 1 := by unfold cursorRow; rw [if_pos hk, hfz.r, hr]
        rw [hrow, hfz.c, hc, hayFwd_first_fresh, List.drop_zero, fwdFlags_zero, hayFwd_fst_indep e.text 1 0 (-1) 0] at hex
        rw [hex]; rfl
      · -- the start position is the page the previous call returned
        obtain ⟨es, hles, hlops, hsomes⟩ := hm
        obtain ⟨hs0, hsb⟩ := lookupX_small hcov hles
        rw [hfz.p, hfz.q] at hk
        have hpg := hinv.pg
        unfold key at hk; unfold PgOk at hpg hpx
        have hpe : xp = s.startPgno := by omega
        have hse : xs = s.startSubno := by omega
        rw [hpe, hse]
        exact ⟨es, hles, hlops, hsomes⟩
    · -- another page: no cursor, the whole text was searched
      refine ⟨e, hlx, hlop, ?_⟩
      have hrow : cursorRow s0 xp.toNat e = -1 := by unfold cursorRow; rw [if_neg hk]
      rw [hrow, hayFwd_first_nocursor, List.drop_zero, fwdFlags_zero, hayFwd_fst_indep e.text (-1) s0.col0 (-1) 0] at hex
      rw [hex]; rfl
  -- the context the call leaves behind
  have hsfdir : sf.dir = 1 := by rw [hdirL]; exact hinv.dir
  obtain ⟨hs1, hs2⟩ := highlight_start { s0 with pgPgno := xp.toNat, pgSubno := e.subno, hl := [] } xp.toNat e
    (hayFwd e.text (cursorRow s0 xp.toNat e) s0.col0).2 ms me
  obtain ⟨hg1, hg2⟩ := highlight_pg { s0 with pgPgno := xp.toNat, pgSubno := e.subno, hl := [] } xp.toNat e
    (hayFwd e.text (cursorRow s0 xp.toNat e) s0.col0).2 ms me
  rw [← hsf] at hs1 hs2 hg1 hg2
  have hsp : sf.startPgno = xp := by rw [hs1]; exact hxpn
  have hss : sf.startSubno = xs := by rw [hs2]; exact hxs
  refine ⟨⟨hsfdir, by rw [hsp]; exact hpx, Or.inr (by rw [hsp, hss]; exact hmatch)⟩, by rw [hsp]; exact hvalid, ?_,
    by rw [hsp, hg1, hxpn], by rw [hss, hg2, hxs]⟩
  rw [hg1, hg2, hxpn, hxs]; exact hmatch

/-! ## the whole pass -/

theorem startOk_of_valid (sh : Shape) (c : Cache) (p : Int) (h : validPgno p = true) : StartOk sh c p := Or.inr (Or.inl h)

/-- **repeated forward calls**: from a context with `PassInv`, on any cache equivalent to `c`, every page reported up
    to the first answer other than SUCCESS matches -/
theorem runNexts_sound (sh : Shape) (exec : Exec) (c : Cache) (hcov : Covered c) (hnoff : NoFF c) :
    ∀ (n : Nat) (c' : Cache) (s : SearchSt), Equiv c c' → PassInv exec c s → StartOk sh c' s.startPgno →
      ∀ r ∈ (runNexts sh exec c' s (List.replicate n 1)).takeWhile (fun r => r.1 = .ret SEARCH_SUCCESS),
        MatchesI exec c r.2.1 r.2.2 := by
  intro n
  induction n with
  | zero => intro c' s _ _ _ r hr; simp [runNexts] at hr
  | succ n ih =>
    intro c' s heq hinv hok r hr
    rw [List.replicate_succ] at hr
    simp only [runNexts] at hr
    by_cases hres : (searchNext sh exec walkFuel c' s 1).res = .ret SEARCH_SUCCESS
    · obtain ⟨hinv', hvalid, hm, _, _⟩ := pass_step sh exec c c' s heq hcov hnoff hinv hok hres
      rw [List.takeWhile_cons_of_pos (by simpa using hres)] at hr
      rcases List.mem_cons.mp hr with rfl | hr
      · exact hm
      · exact ih _ _ (searchNext_cache_equiv sh exec walkFuel c c' s 1 heq) hinv'
          (startOk_of_valid sh _ _ hvalid) r hr
    · rw [List.takeWhile_cons_of_neg (by simpa using hres)] at hr
      cases hr

/-- the first call of a pass prepares the context: calling with the prepared context gives the same answer -/
theorem searchNext_prepared (sh : Shape) (exec : Exec) (fuel : Nat) (c : Cache) (s : SearchSt) (hfresh : s.dir = 0) :
    searchNext sh exec fuel c s 1 = searchNext sh exec fuel c (prepare sh s 1) 1 := by
  have hpp : prepare sh (prepare sh s 1) 1 = prepare sh s 1 := by
    unfold prepare dirOf
    simp [hfresh]
  unfold searchNext
  rw [hpp]

theorem runNexts_prepared (sh : Shape) (exec : Exec) (c : Cache) (s : SearchSt) (hfresh : s.dir = 0) (n : Nat) :
    runNexts sh exec c s (List.replicate n 1) = runNexts sh exec c (prepare sh s 1) (List.replicate n 1) := by
  cases n with
  | zero => rfl
  | succ n =>
    rw [List.replicate_succ]
    simp only [runNexts]
    rw [searchNext_prepared sh exec walkFuel c s hfresh]

theorem passInv_fresh (sh : Shape) (exec : Exec) (c : Cache) (s : SearchSt) (hfresh : s.dir = 0) (hp : PgOk s.stopPgno0) :
    PassInv exec c (prepare sh s 1) ∧ (prepare sh s 1).startPgno = s.stopPgno0 := by
  obtain ⟨f1, f2, f3, f4, f5, f6⟩ := prepare_fresh_fwd sh (s := s) (d := 1) (by decide) hfresh
  refine ⟨⟨?_, by rw [f1]; exact hp, Or.inl ⟨f5, f6⟩⟩, f1⟩
  unfold prepare dirOf
  simp [hfresh]


/-! ## order and completeness over the pass

`rk B z`: distance of the page with key `z` from the stop position with key `B` in pass order (`passRank` on keys).
The frontier argument: every call starts at the page the previous one returned (key `A`); the page it returns (key `x`)
is not before `A` in pass order and no matching page lies strictly between the two; a call that answers NOT_FOUND has
searched every page behind `A`. -/

def rk (B z : Int) : Int := if z ≥ B then z - B else z - B + 0x900 * 65536

theorem passRank_rk (P S q t : Int) : passRank P S q t = rk (key P S) (key q t) := rfl

theorem rk_inj {B y x : Int} (hB : 0 ≤ B ∧ B < 0x900 * 65536) (hy : 0 ≤ y ∧ y < 0x900 * 65536)
    (hx : 0 ≤ x ∧ x < 0x900 * 65536) (h : rk B y = rk B x) : y = x := by
  unfold rk at h
  by_cases h1 : y ≥ B <;> by_cases h2 : x ≥ B <;> simp only [h1, h2, if_true, if_false] at h <;> omega

/-- where a page `y` that is due before the page found `x` stands in the walk that starts at `A` -/
theorem ltf_arith (A B x y : Int) (xw : Bool) (hA : 0 ≤ A ∧ A < 0x900 * 65536) (hB : 0 ≤ B ∧ B < 0x900 * 65536)
    (hx : 0 ≤ x ∧ x < 0x900 * 65536) (hy : 0 ≤ y ∧ y < 0x900 * 65536)
    (hns1 : A ≥ B → xw = true → x < B) (hns2 : A < B → A ≤ x ∧ x < B) (hxA : xw = false → x ≥ A)
    (hlo : rk B A ≤ rk B y) (hhi : rk B y < rk B x) :
    (y ≥ A → (xw = true ∨ y < x)) ∧ (y < A → (xw = true ∧ y < x)) := by
  unfold rk at hlo hhi
  cases xw with
  | false =>
    simp only [Bool.false_eq_true, false_implies, forall_const, false_or, false_and] at hns1 hxA ⊢
    by_cases h1 : A ≥ B <;> by_cases h2 : y ≥ B <;> by_cases h3 : x ≥ B <;>
      simp only [h1, h2, h3, if_true, if_false] at hlo hhi <;> constructor <;> intro _ <;> omega
  | true =>
    simp only [forall_const, true_or, true_and, implies_true] at hns1 ⊢
    by_cases h1 : A ≥ B <;> by_cases h2 : y ≥ B <;> by_cases h3 : x ≥ B <;>
      simp only [h1, h2, h3, if_true, if_false] at hlo hhi <;> intro _ <;> omega

/-- the page found is not before the start position in pass order -/
theorem rank_mono_arith (A B x : Int) (xw : Bool) (hA : 0 ≤ A ∧ A < 0x900 * 65536) (hB : 0 ≤ B ∧ B < 0x900 * 65536)
    (hx : 0 ≤ x ∧ x < 0x900 * 65536)
    (hns1 : A ≥ B → xw = true → x < B) (hns2 : A < B → A ≤ x ∧ x < B) (hxA : xw = false → x ≥ A) :
    rk B A ≤ rk B x := by
  unfold rk
  cases xw with
  | false =>
    simp only [Bool.false_eq_true, false_implies, forall_const] at hns1 hxA
    by_cases h1 : A ≥ B <;> by_cases h3 : x ≥ B <;> simp only [h1, h3, if_true, if_false] <;> omega
  | true =>
    simp only [forall_const] at hns1
    by_cases h1 : A ≥ B <;> by_cases h3 : x ≥ B <;> simp only [h1, h3, if_true, if_false] <;> omega

/-- a page `y` behind the start position `A` in pass order, and everything the walk probes before it, does not stop
    the pass: `zw`/`z` a position not behind `y`'s -/
theorem nostop_arith (A B y z : Int) (zw : Bool) (hA : 0 ≤ A ∧ A < 0x900 * 65536) (hB : 0 ≤ B ∧ B < 0x900 * 65536)
    (hy : 0 ≤ y ∧ y < 0x900 * 65536) (hz : 0 ≤ z ∧ z < 0x900 * 65536)
    (hlo : rk B A ≤ rk B y) (hzA : zw = false → z ≥ A)
    (hzy : (y ≥ A → zw = false ∧ z ≤ y) ∧ (y < A → (zw = false ∨ z ≤ y))) :
    (A ≥ B → ¬ (zw = true ∧ z ≥ B)) ∧ (A < B → ¬ (z < A ∨ z ≥ B)) := by
  unfold rk at hlo
  cases zw with
  | false =>
    simp only [Bool.false_eq_true, false_and, not_false_eq_true, implies_true, true_and, forall_const, true_or] at hzA hzy ⊢
    by_cases h1 : A ≥ B <;> by_cases h2 : y ≥ B <;> simp only [h1, h2, if_true, if_false] at hlo <;> intro _ <;> omega
  | true =>
    obtain ⟨hzy1, hzy2⟩ := hzy
    have hyA : y < A := by
      by_cases h : y ≥ A
      · exact absurd (hzy1 h).1 (by decide)
      · omega
    have hz' : z ≤ y := by
      rcases hzy2 hyA with h | h
      · exact absurd h (by decide)
      · exact h
    simp only [true_and]
    by_cases h1 : A ≥ B <;> by_cases h2 : y ≥ B <;> simp only [h1, h2, if_true, if_false] at hlo <;>
      constructor <;> intro _ <;> omega

end Zvbi.Search
