import ZvbiModel.Search.WitnessBase
/-!
# Witness of finding C17-D8 (the flags `search_page_fwd` hands to ure_exec), kernel evaluated

Page 100.0 with row 1 = "abmm"; the search context after "ab" (columns 0-1) was reported: cursor at row 1, column 2.
`bolSpy` stands for the compiled regular expression `^mm` in an engine that obeys URE_NOTBOL.
Replay on the C code: corpus/C17/D8-fwd-continue-bol.ops.  Does not depend on the source shape of /repo.
-/
namespace Zvbi.Search
set_option maxRecDepth 100000

/-- page 100.0, row 1 = "abmm" -/
def bolPage : Entry := ⟨0, FUNC_LOP, [textRow "abmm"], 0⟩

/-- a matcher for the regular expression `^mm` that obeys URE_NOTBOL: it accepts "mm" at the beginning of the text it is
    handed, unless it is told that the text does not begin at a line start -/
def bolSpy : Exec := fun fl t => if fl.notBol then none else if t.take 2 = [0x6d, 0x6d] then some (0, 2) else none

/-- the search context after "ab" (columns 0-1 of row 1) was reported: cursor at row 1, column 2 -/
def bolCtx : SearchSt :=
  { startPgno := 0x100, startSubno := 0, stopPgno0 := 0x100, stopSubno0 := 0, row0 := 1, col0 := 2, dir := 1 }

theorem cexD8_facts :
    (hayFwd bolPage.text 1 2).2 = 2 ∧
    ((pageFwd Shape.repaired bolSpy bolCtx 0x100 bolPage false).1, (pageFwd Shape.repaired bolSpy bolCtx 0x100 bolPage false).2.hl) = (1, [(1, 2), (1, 3)]) := by
  refine ⟨by decide +kernel, by decide +kernel⟩

theorem bolSpy_notbol (t : List Nat) : bolSpy { notBol := true } t = none := by
  unfold bolSpy; simp

end Zvbi.Search
