import ZvbiModel.Search.Model
/-!
# Instances of the matcher parameter for literal patterns (C17)

`ure.c` is not modelled.  For a literal pattern (what `vbi_search_new (regexp = FALSE)` compiles after
escaping) the DFA is a chain.  `exactLit` is what a substring search should do (leftmost occurrence,
`LemmasMatcher.exactLit_spec`); it is the specification the property oracle uses, what `ure_exec` does since
8b7ac93 (after a mismatch it restarts one character after the START of the failed attempt), and the only
literal matcher the driver uses in the correspondence.  `quirkLit` is what `ure_exec` did before that repair
(C17-D1: restart after the mismatching character, "ab" not found in "aab"); it is kept as the documented
old behaviour for `matcher_exact` in Props/C17.lean and is not used by the driver any more.
-/
namespace Zvbi.Search

/-- `unicode_tolower` restricted to ASCII (the generator's alphabet; assumption A3 in NOTES) -/
def lowerAscii (c : Nat) : Nat := if 0x41 ≤ c ∧ c ≤ 0x5A then c + 32 else c

def foldc (casefold : Bool) (c : Nat) : Nat := if casefold then lowerAscii c else c

/-- ure_exec on a chain DFA: `k` pattern characters matched so far, `ms` start of the attempt -/
def quirkGo (pat : List Nat) : List Nat → Nat → Nat → Option Nat → Option (Nat × Nat)
  | [], _, _, _ => none
  | c :: rest, idx, k, ms =>
    if pat.getD k 0x110000 = c then
      let ms' := ms.getD idx
      if k + 1 = pat.length then some (ms', idx + 1) else quirkGo pat rest (idx + 1) (k + 1) (some ms')
    else quirkGo pat rest (idx + 1) 0 none

def quirkLit (casefold : Bool) (pat : List Nat) : Exec := fun _ text =>
  if pat.isEmpty then none else
  quirkGo (pat.map (foldc casefold)) (text.map (foldc casefold)) 0 0 none

def isPrefix : List Nat → List Nat → Bool
  | [], _ => true
  | _ :: _, [] => false
  | a :: as, b :: bs => a = b && isPrefix as bs

def exactGo (pat : List Nat) : List Nat → Nat → Option (Nat × Nat)
  | [], _ => none
  | c :: rest, idx => if isPrefix pat (c :: rest) then some (idx, idx + pat.length) else exactGo pat rest (idx + 1)

def exactLit (casefold : Bool) (pat : List Nat) : Exec := fun _ text =>
  if pat.isEmpty then none else
  exactGo (pat.map (foldc casefold)) (text.map (foldc casefold)) 0

end Zvbi.Search
