import ZvbiModel.Search.LemmasSearch
/-!
# Line anchors: the flags search.c hands to ure_exec in the two source shapes (finding C17-D8 / fixes/C17-line-anchors.diff)

`lineStart hay pos`: the haystack position `pos` is the beginning of a row (the haystack is the rows of the page, each
followed by SEPARATOR): `pos = 0` or the element in front is the separator.  In the repaired shape (`sh.anchors`)
URE_NOTBOL is handed over exactly when the text does NOT begin at a row start, in both page callbacks; as found
`search_page_fwd` never hands it over and `search_page_rev` always behind the first match.
-/
namespace Zvbi.Search

/-- position `pos` of the haystack is the beginning of a row -/
def lineStart (hay : List Nat) (pos : Nat) : Prop := pos = 0 ∨ hay[pos - 1]? = some SEPARATOR

theorem insideRow_iff (hay : List Nat) (pos : Nat) (h : pos ≤ hay.length) :
    insideRow hay pos = true ↔ ¬ lineStart hay pos := by
  unfold insideRow lineStart
  by_cases h0 : pos = 0
  · subst h0; simp
  · have hlt : pos - 1 < hay.length := by omega
    have hpos : pos > 0 := by omega
    simp only [hpos, decide_true, Bool.true_and, h0, false_or]
    rw [List.getD_eq_getElem?_getD, List.getElem?_eq_getElem hlt]
    simp

theorem fwdFlags_repaired (sh : Shape) (ha : sh.anchors = true) (hay : List Nat) (first : Nat) :
    fwdFlags sh hay first = { notBol := insideRow hay first, notEol := false } := by
  unfold fwdFlags; rw [if_pos ha]

theorem fwdFlags_found (sh : Shape) (ha : sh.anchors = false) (hay : List Nat) (first : Nat) :
    fwdFlags sh hay first = {} := by
  unfold fwdFlags; rw [if_neg (by simp [ha])]

theorem revFlags_repaired (sh : Shape) (ha : sh.anchors = true) (hay : List Nat) (ne : Bool) (pos : Nat) :
    revFlags sh hay ne pos = { notBol := insideRow hay pos, notEol := ne } := by
  unfold revFlags; rw [if_pos ha]

theorem revFlags_found (sh : Shape) (ha : sh.anchors = false) (hay : List Nat) (ne : Bool) (pos : Nat) :
    revFlags sh hay ne pos = { notBol := decide (pos > 0), notEol := ne } := by
  unfold revFlags; rw [if_neg (by simp [ha])]

/-- the first exec of search_page_rev (`pos = 0`) gets no URE_NOTBOL in either shape -/
theorem revFlags_zero (sh : Shape) (hay : List Nat) (ne : Bool) : revFlags sh hay ne 0 = { notBol := false, notEol := ne } := by
  unfold revFlags insideRow; cases sh.anchors <;> simp

/-- what the loop of `search_page_rev` returns is what it was started with, or the result of an exec at some offset
    `pos'` (at or behind the offset it was started with, inside the haystack) that was handed exactly the flags
    `revFlags sh hay ne pos'` -/
theorem revMatches_last (sh : Shape) (exec : Exec) (hay : List Nat) (ne : Bool) :
    ∀ (f i ms me pos i' ms' me' : Nat), revMatches sh exec hay ne f i ms me pos = some (i', ms', me') →
      (i' = i ∧ ms' = ms ∧ me' = me) ∨
      ∃ pos' ms1 me1, pos ≤ pos' ∧ pos' < hay.length ∧
        exec (revFlags sh hay ne pos') (hay.drop pos') = some (ms1, me1) ∧ ms' = pos' + ms1 ∧ me' = pos' + me1 := by
  intro f
  induction f with
  | zero => intro i ms me pos i' ms' me' h; simp [revMatches] at h
  | succ f ih =>
    intro i ms me pos i' ms' me' h
    unfold revMatches at h
    by_cases hlt : pos < hay.length
    · simp only [hlt, if_true] at h
      cases hx : exec (revFlags sh hay ne pos) (hay.drop pos) with
      | none =>
        rw [hx] at h; simp only [Option.some.injEq, Prod.mk.injEq] at h
        exact Or.inl ⟨h.1.symm, h.2.1.symm, h.2.2.symm⟩
      | some mm =>
        obtain ⟨ms1, me1⟩ := mm
        rw [hx] at h; simp only at h
        rcases ih _ _ _ _ _ _ _ h with ⟨_, h2, h3⟩ | ⟨p2, a, b, h1, h2, h3, h4, h5⟩
        · exact Or.inr ⟨pos, ms1, me1, Nat.le_refl _, hlt, hx, h2, h3⟩
        · refine Or.inr ⟨p2, a, b, ?_, h2, h3, h4, h5⟩
          split at h1 <;> omega
    · simp only [hlt, if_false, Option.some.injEq, Prod.mk.injEq] at h
      exact Or.inl ⟨h.1.symm, h.2.1.symm, h.2.2.symm⟩

end Zvbi.Search
