import ZvbiModel.Search.Model
import ZvbiModel.Generated.SearchFlags
import ZvbiModel.Generated.CacheLayout
/-! The source shape of the CURRENT /repo (C17-D7 repaired or not), as translate/gen_search.py read it from
src/cache.c and src/search.c.  The driver runs the model in this shape; Props/C17.lean states for it which of the
shape-specific theorems applies (`current_shape`). -/
namespace Zvbi.Search

def Shape.current : Shape :=
  ⟨Zvbi.Gen.Search.walkStartExact, Zvbi.Gen.Search.turnStopKeepsSubno, Zvbi.Gen.Search.lineAnchors⟩

/-- `_vbi_cache_put_page` of the CURRENT /repo: with or without fixes/C10-put-replaces-all-versions.diff (finding F17 /
    C17-D2), as translate/gen_cache.py read it from src/cache.c -/
def putCur (c : Cache) (pgno subno : Nat) (func : Int) (text : Text) (tag : Nat := 0) : Cache :=
  putF Zvbi.Gen.Cache.putReplacesAllVersions c pgno subno func text tag

end Zvbi.Search
