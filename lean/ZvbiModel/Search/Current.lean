import ZvbiModel.Search.Model
import ZvbiModel.Generated.SearchFlags
/-! The source shape of the CURRENT /repo (C17-D7 repaired or not), as translate/gen_search.py read it from
src/cache.c and src/search.c.  The driver runs the model in this shape; Props/C17.lean states for it which of the
shape-specific theorems applies (`current_shape`). -/
namespace Zvbi.Search

def Shape.current : Shape := ⟨Zvbi.Gen.Search.walkStartExact, Zvbi.Gen.Search.turnStopKeepsSubno⟩

end Zvbi.Search
