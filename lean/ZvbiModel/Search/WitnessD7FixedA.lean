import ZvbiModel.Search.WitnessD7Defs
import ZvbiModel.Search.LemmasExact
/-! # D7 witness (a), REPAIRED shape, first half: after the turn on 11F.3F7F `search_page_fwd` finds nothing more on
that page behind the cursor (one kernel evaluation of a page text, ~45 s). -/
namespace Zvbi.Search
set_option maxRecDepth 100000

theorem cexD7_fixed_code1 :
    codeFwd Shape.repaired exAb (prepare Shape.repaired cexD7Turn 1) cexD7x1.1.toNat cexD7e1 cexD7x1.2.2 = 0 := by
  decide +kernel

end Zvbi.Search
